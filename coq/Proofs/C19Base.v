(* C19 / C17 / C35 - invariants of the connection / transaction / lock state machine (Model/C19Txn.v) and the proof tools. *)
From Coq Require Import List Bool Arith Lia.
Import ListNotations.
Require Import PonyV.Model.C19Txn.

(* ---- connection bookkeeping: every connection ever created is the live pool connection or was closed exactly once ---- *)
Record AccT (h : bool) (i n : nat) (c : list nat) : Prop := {
  acc_lt : h = true -> i < n;
  acc_notin : h = true -> ~ In i c;
  acc_all : forall id, id < n -> (h = true /\ i = id) \/ In id c;
  acc_nodup : NoDup c;
  acc_closed : forall id, In id c -> id < n
}.

Lemma AccT_drop : forall i n c i', AccT true i n c -> AccT false i' n (i :: c).
Proof.
  intros i n c i' [H1 H2 H3 H4 H5]. constructor; try discriminate.
  - intros id Hid. right. destruct (H3 id Hid) as [[_ ->]|Hin]; [left; reflexivity | right; exact Hin].
  - constructor; auto.
  - intros id [<-|Hin]; auto.
Qed.
Lemma AccT_connect : forall i n c, AccT false i n c -> AccT true n (S n) c.
Proof.
  intros i n c [H1 H2 H3 H4 H5]. constructor.
  - intros _. lia.
  - intros _ Hin. apply H5 in Hin. lia.
  - intros id Hid. destruct (Nat.eq_dec id n) as [->|Hne]; [left; auto|].
    destruct (H3 id ltac:(lia)) as [[Hf _]|Hin]; [discriminate | right; exact Hin].
  - exact H4.
  - intros id Hin. apply H5 in Hin. lia.
Qed.
Lemma AccT_pid : forall i i' n c, AccT false i n c -> AccT false i' n c.
Proof. intros i i' n c [H1 H2 H3 H4 H5]. constructor; auto; try discriminate.
  intros id Hid. destruct (H3 id Hid) as [[Hf _]|Hin]; [discriminate | right; exact Hin]. Qed.

(* ---- new events of a step: each satisfies good_ev ---- *)
Inductive Suffix (sh : shape) (oth : bool) (tr0 : list event) : list event -> Prop :=
| suf_refl : Suffix sh oth tr0 tr0
| suf_cons : forall e tr, good_ev sh oth e = true -> Suffix sh oth tr0 tr -> Suffix sh oth tr0 (e :: tr).
Lemma Suffix_trans : forall sh oth t0 t1 t2, Suffix sh oth t0 t1 -> Suffix sh oth t1 t2 -> Suffix sh oth t0 t2.
Proof. intros sh oth t0 t1 t2 H01 H12. induction H12; [exact H01 | constructor; auto]. Qed.
Lemma Suffix_app : forall sh oth t0 t1, Suffix sh oth t0 t1 -> exists evs, t1 = evs ++ t0 /\ forallb (good_ev sh oth) evs = true.
Proof.
  intros sh oth t0 t1 H. induction H as [|e tr He _ [evs [-> Hall]]].
  - exists []. split; reflexivity.
  - exists (e :: evs). split; [reflexivity | cbn; rewrite He, Hall; reflexivity].
Qed.

Definition other (s : st) : bool := lock s && negb (mine s).

(* ---- the state invariant ---- *)
(* WFw holds at the boundaries of every SessionCache-level function, also right after a failed COMMIT
   (cache.in_transaction already cleared, the driver-level transaction still open) *)
Record WFw (s : st) : Prop := {
  w_bad : bad s = [];
  w_mine : mine s = k_intxn s;                                  (* the lock holder is exactly the cache in a transaction *)
  w_lock : mine s = true -> lock s = true;
  w_khas : k_has s = true -> p_has s = true /\ p_id s = k_id s; (* cache.connection is the pool's connection *)
  w_out : out s = k_has s;
  w_intxn : k_intxn s = true -> k_has s = true /\ p_txn s = true /\ k_imm s = true;
  w_reg : k_reg s = false -> k_has s = false;
  w_simm : k_reg s = true -> shape_imm (sess s) = true -> k_imm s = true;
  w_acc : AccT (p_has s) (p_id s) (next s) (closed s);
  w_scan : scan (trace s) = (if p_has s then Some (p_id s, p_txn s) else None);
  w_flags : flags_ok (trace s) = true;
  w_idle : k_has s = false -> p_has s = true -> p_txn s = false;    (* a connection nobody holds has no open transaction *)
  w_pid : p_has s = true -> p_pidset s = true                      (* a published connection: pool.pid has been assigned *)
}.
Record WF (s : st) : Prop := {
  wf_w : WFw s;
  wf_ptxn : p_has s = true -> k_intxn s = false -> p_txn s = false;   (* no driver-level transaction without cache.in_transaction *)
  wf_forupd : 0 < k_forupd s -> k_intxn s = true                      (* loaded for_update objects only inside a transaction *)
}.

(* what a step may change: who else holds the lock and the session stay; ids only grow; new events are good *)
Record Ext (s s' : st) : Prop := {
  x_other : other s' = other s;
  x_sess : sess s' = sess s;
  x_next : next s <= next s';
  x_closed : forall id, In id (closed s) -> In id (closed s');
  x_trace : Suffix (sess s) (other s) (trace s) (trace s');
  x_ncall : ncall s <= ncall s'
}.
Lemma Ext_refl : forall s, Ext s s.
Proof. intros s. constructor; auto. constructor. Qed.
Lemma Ext_trans : forall s1 s2 s3, Ext s1 s2 -> Ext s2 s3 -> Ext s1 s3.
Proof.
  intros s1 s2 s3 [A1 A2 A3 A4 A5 A6] [B1 B2 B3 B4 B5 B6]. constructor; try congruence; try lia; auto.
  rewrite A1, A2 in B5. eapply Suffix_trans; eauto.
Qed.

(* outcome of a SessionCache-level step from a well-formed state *)
Definition Post (s : st) (rs : res * st) : Prop :=
  match rs with
  | (Blocked, _) => other s = true            (* it can only block when another thread holds the lock *)
  | (_, s') => WF s' /\ Ext s s'
  end.
Definition Postw (s : st) (rs : res * st) : Prop :=
  match rs with
  | (Blocked, _) => other s = true
  | (_, s') => WFw s' /\ Ext s s'
  end.

Lemma WF_WFw : forall s, WF s -> WFw s.
Proof. intros s H. apply H. Qed.

(* ---- tactics for the symbolic-execution proofs ---- *)
Ltac simp_hyps :=
  repeat match goal with
  | H : true = true -> _ |- _ => specialize (H eq_refl)
  | H : false = true -> _ |- _ => clear H
  | H : true = false -> _ |- _ => clear H
  | H : 0 < 0 -> _ |- _ => clear H
  | H : _ /\ _ |- _ => destruct H
  | H : true = false |- _ => discriminate H
  | H : false = true |- _ => discriminate H
  | H : ?x = ?x |- _ => clear H
  | H : ?x = ?x -> _ |- _ => specialize (H eq_refl)
  | H : ?x = [] |- _ => is_var x; subst x
  | H : ?x = 0 |- _ => is_var x; subst x
  | H : ?x = true |- _ => is_var x; subst x
  | H : ?x = false |- _ => is_var x; subst x
  | H : true = ?x |- _ => is_var x; subst x
  | H : false = ?x |- _ => is_var x; subst x
  | H : ?x = ?y |- _ => is_var x; is_var y; subst x
  end.

Ltac norm := cbv beta iota zeta delta [set_lock set_mine set_p_has set_p_id set_p_fk set_p_cs set_p_txn set_p_pidset set_out set_next set_closed set_sess set_k_reg set_k_has set_k_id
  set_k_intxn set_k_imm set_k_fk set_k_pending set_k_mrem set_k_madd set_k_forupd set_k_saved set_ncall set_trace set_bad
  lock mine p_has p_id p_fk p_cs p_txn p_pidset out next closed sess k_reg k_has k_id k_intxn k_imm k_fk k_pending k_mrem k_madd k_forupd k_saved ncall trace bad
  andb orb negb fst snd other stmt_call] in *; rewrite ?Nat.eqb_refl in *.

Ltac scan_tac :=
  cbn [flags_ok scan scan_step txn_of e_call e_ok e_con e_txn];
  repeat match goal with H : scan _ = _ |- _ => rewrite H end;
  repeat match goal with H : flags_ok _ = _ |- _ => rewrite H end;
  cbn [flags_ok scan scan_step txn_of e_call e_ok e_con e_txn eqb andb]; rewrite ?Nat.eqb_refl; try reflexivity.
Ltac suffix_tac :=
  repeat (apply suf_cons; [cbv; try reflexivity |]); try apply suf_refl.

Ltac split_one :=
  match goal with
  | |- context [if ?b then _ else _] =>
      lazymatch b with
      | context [if _ then _ else _] => fail
      | context [match _ with _ => _ end] => fail
      | _ => destruct b eqn:?
      end
  end.

Ltac unfold_all := unfold cache_close, cache_connect, prov_connect, pool_connect, set_transaction_mode, prov_release, prov_commit,
  prov_rollback, prov_drop, pool_release, pool_drop, db_connect, db_close, dbcall, acquire, release_lock, try_except, try_finally, bind,
  when, upd, assert_, raise, ret, log, add_bad, effect in *.

Ltac wf_tac := constructor; [constructor|..]; norm; intros; simp_hyps; try reflexivity; try discriminate; auto;
               eauto using AccT_drop, AccT_connect, AccT_pid.
Ltac wfw_tac := constructor; norm; intros; simp_hyps; try reflexivity; try discriminate; auto;
               eauto using AccT_drop, AccT_connect, AccT_pid.
Ltac ext_tac := constructor; norm; intros; simp_hyps; try reflexivity; try lia; auto with datatypes.
Ltac bool_crush :=
  cbn [eqb andb orb negb] in *;
  repeat match goal with
  | sh : shape |- _ => destruct sh; cbn [shape_imm shape_ddl] in *
  | b : bool |- _ => destruct b; cbn [eqb andb orb negb] in *; simp_hyps
  end; try reflexivity; try discriminate; try lia; auto.
Ltac finish := try reflexivity; try discriminate; try lia; auto; try scan_tac; try suffix_tac; try solve [bool_crush].

Ltac destruct_st :=
  intros [lock mine p_has p_id p_fk p_cs p_txn p_pidset out next closed sess k_reg k_has k_id k_intxn k_imm k_fk k_pending k_mrem k_madd k_forupd k_saved ncall trace bad].
Ltac run := norm; simp_hyps; repeat (split_one; norm; simp_hyps).

(* frame: what connect / set_transaction_mode / cursor+execute leave alone in the cache *)
Definition KF (s s' : st) : Prop :=
  k_reg s' = k_reg s /\ k_imm s' = k_imm s /\ k_pending s' = k_pending s /\ k_forupd s' = k_forupd s.

