(* C30: soundness of the identity of a raw_sql() fragment in cache keys. *)
Require Import PonyV.Base.PyBase PonyV.Model.C06Str PonyV.Model.C30Adapt PonyV.Model.C30RawType PonyV.Gen.C30RawType
               PonyV.Proofs.C30Proofs.
From Coq Require Import ZifyBool.

Lemma zlist_eqb_eq : forall a b : list Z, list_eqb Z.eqb a b = true -> a = b.
Proof.
  induction a as [|x a IH]; destruct b as [|y b]; cbn; intro H; try reflexivity; try discriminate H.
  apply andb_true_iff in H. destruct H as [H1 H2]. f_equal; [lia | apply IH; exact H2].
Qed.

Definition rawtype_eqb : rawtype -> rawtype -> bool := rawtype_eqb_of rawtype_eq_fields.

(* equal keys => same fragment text and same parameter types (hence the same converters in the cached translator) *)
Lemma rawtype_key_sound : forall a b, rawtype_eqb a b = true -> rt_sql a = rt_sql b /\ rt_types a = rt_types b.
Proof.
  intros a b H. unfold rawtype_eqb, rawtype_eqb_of in H. rewrite forallb_forall in H.
  assert (Hs : In FSql rawtype_eq_fields) by (vm_compute; tauto).
  assert (Ht : In FTypes rawtype_eq_fields) by (vm_compute; tauto).
  split.
  - apply str_eqb_eq. exact (H FSql Hs).
  - apply zlist_eqb_eq. exact (H FTypes Ht).
Qed.

(* __hash__ looks only at fields __eq__ compares: equal fragments have equal hashes *)
Lemma rawtype_hash_consistent : forall a b, rawtype_eqb a b = true ->
  forall f, In f rawtype_hash_fields -> field_eqb f a b = true.
Proof.
  intros a b H f Hf. unfold rawtype_eqb, rawtype_eqb_of in H. rewrite forallb_forall in H. apply H.
  assert (Hsub : forallb (fun f => existsb (rfield_eqb f) rawtype_eq_fields) rawtype_hash_fields = true) by reflexivity.
  rewrite forallb_forall in Hsub. specialize (Hsub f Hf). apply existsb_exists in Hsub. destruct Hsub as (g & Hg & E).
  destruct f, g; try discriminate E; exact Hg.
Qed.

(* the items are a function of the text, so nothing is lost by not comparing them *)
Lemma rawtype_items_determined : forall is_w is_sp a b,
  rt_items a = match parse_raw is_w is_sp (rt_sql a) with Ok l => l | Err _ => [] end ->
  rt_items b = match parse_raw is_w is_sp (rt_sql b) with Ok l => l | Err _ => [] end ->
  rawtype_eqb a b = true -> rt_items a = rt_items b.
Proof. intros is_w is_sp a b Ha Hb H. apply rawtype_key_sound in H. destruct H as [Hs _]. rewrite Ha, Hb, Hs. reflexivity. Qed.

(* why the types matter: a key that ignores them identifies a date-typed and a datetime-typed use of the same fragment *)
Lemma rawtype_items_only_refuted :
  let a := {| rt_sql := [36; 119]; rt_items := [IText []; IExpr [119]; IText []]; rt_types := [1]; rt_result := None |} in
  let b := {| rt_sql := [36; 119]; rt_items := [IText []; IExpr [119]; IText []]; rt_types := [2]; rt_result := None |} in
  rawtype_eqb_of [FItems] a b = true /\ rt_types a <> rt_types b.
Proof. split; [reflexivity | discriminate]. Qed.
