(* C03 - the tree cache of decompile() hands every caller the tree of ITS code object, for every history of calls and
   releases and every behaviour of the allocator, because get_codeobject_id pins the objects; without the pin it does not. *)
From Coq Require Import List Bool Arith Lia.
Import ListNotations.
Require Import PonyV.Model.C03Cache.

Lemma cobj_eqb_eq : forall a b, cobj_eqb a b = true <-> a = b.
Proof.
  intros [i c] [j d]. unfold cobj_eqb. cbn [oid ocontent]. rewrite andb_true_iff, !Nat.eqb_eq. split.
  - intros [-> ->]. reflexivity.
  - intro H. injection H as -> ->. split; reflexivity.
Qed.

Lemma existsb_cobj : forall o l, existsb (cobj_eqb o) l = true <-> In o l.
Proof.
  intros o l. rewrite existsb_exists. split.
  - intros [x [Hx He]]. apply cobj_eqb_eq in He. subst x. exact Hx.
  - intro H. exists o. split; [exact H | apply cobj_eqb_eq; reflexivity].
Qed.

Section Cache.
  Variable f : nat -> nat.

  Definition inv (s : cstate) : Prop :=
    (forall a b, In a (live s) -> In b (live s) -> oid a = oid b -> ocontent a = ocontent b) /\
    (forall i t, clookup i (cache s) = Some t -> exists o, In o (pinned s) /\ oid o = i /\ t = f (ocontent o)).

  Lemma inv_init : inv cinit.
  Proof. split; [intros a b [] | intros i t H; discriminate H]. Qed.

  Lemma inv_drop : forall s o, inv s -> inv (cdrop s o).
  Proof.
    intros s o [I1 I2]. split; [|exact I2].
    assert (Hsub : forall x, In x (live (cdrop s o)) -> In x (live s)).
    { intros x Hx. unfold live, cdrop in *. cbn [held pinned] in Hx. apply in_app_or in Hx. apply in_or_app.
      destruct Hx as [Hx|Hx]; [left; apply filter_In in Hx; destruct Hx; assumption | right; assumption]. }
    intros a b Ha Hb. apply I1; apply Hsub; assumption.
  Qed.

  (* one call with the pin: the caller gets its own tree, and the invariant survives *)
  Lemma decompile_pinned : forall s o, inv s -> alloc_ok s o = true ->
    fst (cdecompile true f s o) = f (ocontent o) /\ inv (snd (cdecompile true f s o)).
  Proof.
    intros s o [I1 I2] Hal. unfold alloc_ok in Hal. apply orb_true_iff in Hal.
    (* facts about the new sets *)
    set (held' := if existsb (cobj_eqb o) (held s) then held s else o :: held s).
    set (pinned' := if existsb (cobj_eqb o) (pinned s) then pinned s else o :: pinned s).
    assert (Hh : forall x, In x held' -> x = o \/ In x (held s)).
    { intros x Hx. unfold held' in Hx. destruct (existsb (cobj_eqb o) (held s)); [right; exact Hx|]. destruct Hx as [<-|Hx]; [left; reflexivity | right; exact Hx]. }
    assert (Hp : forall x, In x pinned' -> x = o \/ In x (pinned s)).
    { intros x Hx. unfold pinned' in Hx. destruct (existsb (cobj_eqb o) (pinned s)); [right; exact Hx|]. destruct Hx as [<-|Hx]; [left; reflexivity | right; exact Hx]. }
    assert (Hpo : In o pinned').
    { unfold pinned'. destruct (existsb (cobj_eqb o) (pinned s)) eqn:E; [apply existsb_cobj; exact E | left; reflexivity]. }
    assert (Hpsub : forall x, In x (pinned s) -> In x pinned').
    { intros x Hx. unfold pinned'. destruct (existsb (cobj_eqb o) (pinned s)); [exact Hx | right; exact Hx]. }
    assert (Hlive' : forall x, In x (held' ++ pinned') -> x = o \/ In x (live s)).
    { intros x Hx. apply in_app_or in Hx. destruct Hx as [Hx|Hx]; [apply Hh in Hx | apply Hp in Hx];
        (destruct Hx as [Hx|Hx]; [left; exact Hx | right; unfold live; apply in_or_app; auto]). }
    (* o against the live objects *)
    assert (Ho : forall x, In x (live s) -> oid x = oid o -> ocontent x = ocontent o).
    { intros x Hx Hid. destruct Hal as [Hal|Hal].
      - apply existsb_cobj in Hal. apply (I1 x o Hx Hal Hid).
      - apply negb_true_iff in Hal. assert (existsb (fun y => oid y =? oid o) (live s) = true); [|congruence].
        apply existsb_exists. exists x. split; [exact Hx | apply Nat.eqb_eq; exact Hid]. }
    assert (I1' : forall a b, In a (held' ++ pinned') -> In b (held' ++ pinned') -> oid a = oid b -> ocontent a = ocontent b).
    { intros a b Ha Hb Hid. apply Hlive' in Ha. apply Hlive' in Hb.
      destruct Ha as [->|Ha]; destruct Hb as [->|Hb].
      - reflexivity.
      - symmetry. apply Ho; [exact Hb | symmetry; exact Hid].
      - apply Ho; assumption.
      - apply I1; assumption. }
    unfold cdecompile. fold held' pinned'.
    destruct (clookup (oid o) (cache s)) as [t|] eqn:El; cbn [fst snd].
    - destruct (I2 _ _ El) as [o' [Ho' [Hid ->]]]. split.
      + f_equal. apply Ho; [unfold live; apply in_or_app; right; exact Ho' | exact Hid].
      + split; [exact I1'|]. cbn [cache pinned]. intros i t Hl. destruct (I2 _ _ Hl) as [x [Hx Hr]]. exists x. split; [apply Hpsub; exact Hx | exact Hr].
    - split; [reflexivity|]. split; [exact I1'|]. cbn [cache pinned clookup]. intros i t Hl.
      destruct (Nat.eqb (oid o) i) eqn:E.
      + apply Nat.eqb_eq in E. injection Hl as <-. exists o. split; [exact Hpo | split; [exact E | reflexivity]].
      + destruct (I2 _ _ Hl) as [x [Hx Hr]]. exists x. split; [apply Hpsub; exact Hx | exact Hr].
  Qed.

  Theorem cache_pinned : forall ops s l, inv s -> crun true f s ops = Some l -> l = cexpected f ops.
  Proof.
    induction ops as [|[o|o] r IH]; intros s l Hinv Hrun.
    - cbn in Hrun. injection Hrun as <-. reflexivity.
    - cbn [crun cexpected] in *. destruct (alloc_ok s o) eqn:Hal; [|discriminate Hrun].
      destruct (decompile_pinned s o Hinv Hal) as [Ht Hinv'].
      destruct (cdecompile true f s o) as [t s'] eqn:Ed. cbn [fst snd] in *.
      destruct (crun true f s' r) as [l'|] eqn:Er; [|discriminate Hrun]. injection Hrun as <-.
      rewrite Ht. f_equal. apply (IH s'); assumption.
    - cbn [crun cexpected] in *. apply (IH (cdrop s o)); [apply inv_drop; assumption | exact Hrun].
  Qed.
End Cache.

(* without the pin: build a query, drop it, build a different one - the allocator may reuse the address - and
   decompile() answers with the tree of the first *)
Lemma cache_unpinned_refuted :
  exists ops l, crun false (fun c => c) cinit ops = Some l /\ l <> cexpected (fun c => c) ops.
Proof.
  exists [CDecompile (mkObj 7 1); CDrop (mkObj 7 1); CDecompile (mkObj 7 2)]. eexists. split; [vm_compute; reflexivity|]. discriminate.
Qed.
