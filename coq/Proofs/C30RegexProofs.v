(* C30: the scanner steps of Model/C30Scan.v (head1, trailer, next_tok) are exactly the match / search results of the three
   regular expressions of parse_expr (Gen/C30Regex.v, translated from the compiled patterns) under the backtracking semantics
   of Model/C30Regex.v. *)
Require Import PonyV.Base.PyBase PonyV.Model.C06Str PonyV.Model.C30Scan PonyV.Model.C30Regex PonyV.Gen.C30Regex PonyV.Model.C30RegexParse.
From Coq Require Import ZifyBool.

Section WithClasses.
Variable is_w : Z -> bool.
Variable is_sp : Z -> bool.

(* what the proofs need to know about \s : it contains none of the characters the trailers start with, and no identifier start *)
Hypothesis sp_not_semi : is_sp 59 = false.
Hypothesis sp_not_dot : is_sp 46 = false.
Hypothesis sp_not_paren : is_sp 40 = false.
Hypothesis sp_not_bracket : is_sp 91 = false.
Hypothesis sp_not_idstart : forall c, is_sp c = true -> is_id_start c = false.

Notation rm := (rm is_w is_sp).
Notation chr_match := (chr_match is_w is_sp).

Section Cont.
Variable A : Type.

Lemma rm_chr_cons : forall neg items g c s (k : nat -> str -> option A),
  rm A (RChr neg items) g (c :: s) k = if chr_match neg items c then k g s else None.
Proof. reflexivity. Qed.
Lemma rm_chr_nil : forall neg items g (k : nat -> str -> option A), rm A (RChr neg items) g [] k = None.
Proof. reflexivity. Qed.
Lemma rm_seq : forall a b g s (k : nat -> str -> option A), rm A (RSeq a b) g s k = rm A a g s (fun g' s' => rm A b g' s' k).
Proof. reflexivity. Qed.
Lemma rm_alt : forall a b g s (k : nat -> str -> option A),
  rm A (RAlt a b) g s k = match rm A a g s k with Some x => Some x | None => rm A b g s k end.
Proof. reflexivity. Qed.
Lemma rm_grp : forall i a g s (k : nat -> str -> option A), rm A (RGroup i a) g s k = rm A a g s (fun _ s' => k i s').
Proof. reflexivity. Qed.

(* ---- greedy star over a one-character class: longest run first, then shorter ones ---- *)
Fixpoint gstar (pm : Z -> bool) (k : nat -> str -> option A) (g : nat) (s : str) : option A :=
  match s with
  | c :: s' => if pm c then match gstar pm k g s' with Some x => Some x | None => k g s end else k g s
  | [] => k g s
  end.

Lemma rm_star_greedy_chr : forall neg items k g s,
  rm A (RStar true (RChr neg items)) g s k = gstar (chr_match neg items) k g s.
Proof.
  intros neg items k g s. cbn [C30Regex.rm].
  match goal with |- ?F (length s) g s = _ =>
    assert (H : forall n g s, (length s <= n)%nat -> F n g s = gstar (chr_match neg items) k g s) end.
  { induction n as [|n IH]; intros g0 s0 Hl.
    - destruct s0; [reflexivity | cbn in Hl; lia].
    - destruct s0 as [|c s0]; [reflexivity|]. cbn [gstar]. cbn [length] in Hl.
      cbn beta iota delta [C30Regex.rm]. destruct (chr_match neg items c) eqn:E.
      + assert ((length s0 <? length (c :: s0))%nat = true) as -> by (cbn [length]; apply Nat.ltb_lt; lia).
        rewrite IH by lia. reflexivity.
      + reflexivity. }
  apply H. lia.
Qed.

Lemma gstar_total : forall pm k g s, (forall t, k g t <> None) -> gstar pm k g s = k g (skip_w pm s).
Proof.
  intros pm k g s Hk. induction s as [|c s IH]; [reflexivity|]. cbn [gstar skip_w]. destruct (pm c); [|reflexivity].
  rewrite IH. destruct (k g (skip_w pm s)) eqn:E; [reflexivity | exfalso; exact (Hk _ E)].
Qed.

Lemma gstar_blocked : forall pm k g s, (forall c r, pm c = true -> k g (c :: r) = None) -> gstar pm k g s = k g (skip_w pm s).
Proof.
  intros pm k g s Hk. induction s as [|c s IH]; [reflexivity|]. cbn [gstar skip_w]. destruct (pm c) eqn:E; [|reflexivity].
  rewrite IH. destruct (k g (skip_w pm s)); [reflexivity | apply Hk; exact E].
Qed.

(* ---- lazy star of the string-literal bodies ---- *)
(* '(?:[^'\\]|\\.)*?  followed by k *)
Fixpoint lazy1 (q : Z) (k : nat -> str -> option A) (g : nat) (s : str) : option A :=
  match k g s with
  | Some x => Some x
  | None =>
      match s with
      | c :: r =>
          if c =? 92 then match r with d :: r' => if d =? 10 then None else lazy1 q k g r' | [] => None end
          else if c =? q then None
          else lazy1 q k g r
      | [] => None
      end
  end.

Definition body1 (q : Z) : re := RAlt (RChr true [CLit q; CLit 92]) (RSeq (RChr false [CLit 92]) (RChr true [CLit 10])).

Lemma rm_star_lazy1 : forall q k g s, q <> 92 -> rm A (RStar false (body1 q)) g s k = lazy1 q k g s.
Proof.
  intros q k g s Hq. cbn [C30Regex.rm body1].
  match goal with |- ?F (length s) g s = _ => assert (H : forall n g s, (length s <= n)%nat -> F n g s = lazy1 q k g s) end.
  { induction n as [|n IH]; intros g0 s0 Hl.
    - destruct s0; [cbn; destruct (k g0 []); reflexivity | cbn in Hl; lia].
    - destruct s0 as [|c s0].
      + cbn. destruct (k g0 []); reflexivity.
      + cbn [length] in Hl. cbn [lazy1]. cbn beta iota delta [C30Regex.rm]. destruct (k g0 (c :: s0)); [reflexivity|].
        unfold C30Regex.chr_match. cbn [existsb citem_match orb xorb].
        destruct (c =? 92) eqn:E92.
        * assert (c =? q = false) as -> by lia. cbn [orb negb xorb].
          destruct s0 as [|d r']; [reflexivity|]. cbn [length] in *.
          destruct (d =? 10) eqn:E10; cbn [orb negb xorb]; [reflexivity|].
          assert ((length r' <? S (S (length r')))%nat = true) as Hlt by (apply Nat.ltb_lt; lia).
          rewrite Hlt. rewrite IH by lia. reflexivity.
        * destruct (c =? q) eqn:Eq; cbn [orb negb xorb].
          -- reflexivity.
          -- assert ((length s0 <? length (c :: s0))%nat = true) as -> by (cbn [length]; apply Nat.ltb_lt; lia).
             rewrite IH by lia. destruct (lazy1 q k g0 s0); reflexivity. }
  apply H. lia.
Qed.

(* (?:[^\\]|\\.)*?  followed by k *)
Fixpoint lazy3 (k : nat -> str -> option A) (g : nat) (s : str) : option A :=
  match k g s with
  | Some x => Some x
  | None =>
      match s with
      | c :: r =>
          if c =? 92 then match r with d :: r' => if d =? 10 then None else lazy3 k g r' | [] => None end
          else lazy3 k g r
      | [] => None
      end
  end.

Definition body3 : re := RAlt (RChr true [CLit 92]) (RSeq (RChr false [CLit 92]) (RChr true [CLit 10])).

Lemma rm_star_lazy3 : forall k g s, rm A (RStar false body3) g s k = lazy3 k g s.
Proof.
  intros k g s. cbn [C30Regex.rm body3].
  match goal with |- ?F (length s) g s = _ => assert (H : forall n g s, (length s <= n)%nat -> F n g s = lazy3 k g s) end.
  { induction n as [|n IH]; intros g0 s0 Hl.
    - destruct s0; [cbn; destruct (k g0 []); reflexivity | cbn in Hl; lia].
    - destruct s0 as [|c s0].
      + cbn. destruct (k g0 []); reflexivity.
      + cbn [length] in Hl. cbn [lazy3]. cbn beta iota delta [C30Regex.rm]. destruct (k g0 (c :: s0)); [reflexivity|].
        unfold C30Regex.chr_match. cbn [existsb citem_match orb xorb].
        destruct (c =? 92) eqn:E92; cbn [orb negb xorb].
        * destruct s0 as [|d r']; [reflexivity|]. cbn [length] in *.
          destruct (d =? 10) eqn:E10; cbn [orb negb xorb]; [reflexivity|].
          assert ((length r' <? S (S (length r')))%nat = true) as Hlt by (apply Nat.ltb_lt; lia).
          rewrite Hlt. rewrite IH by lia. reflexivity.
        * assert ((length s0 <? length (c :: s0))%nat = true) as -> by (cbn [length]; apply Nat.ltb_lt; lia).
          rewrite IH by lia. destruct (lazy3 k g0 s0); reflexivity. }
  apply H. lia.
Qed.

End Cont.

(* ------------------------------------------------------------------------------------------------ expr1_re *)

Lemma chr_pos : forall items c, chr_match false items c = existsb (citem_match is_w is_sp c) items.
Proof. intros. unfold C30Regex.chr_match. apply xorb_false_l. Qed.

Lemma idstart_class : forall c, chr_match false [CRange 65 90; CRange 97 122; CLit 95] c = is_id_start c.
Proof. intro c. rewrite chr_pos. unfold is_id_start. cbn [existsb citem_match]. rewrite orb_false_r, orb_assoc. reflexivity. Qed.

Lemma word_class : forall c, chr_match false [CWord] c = is_w c.
Proof. intro c. rewrite chr_pos. cbn [existsb citem_match]. apply orb_false_r. Qed.

Lemma space_class : forall c, chr_match false [CSpace] c = is_sp c.
Proof. intro c. rewrite chr_pos. cbn [existsb citem_match]. apply orb_false_r. Qed.

Lemma gstar_ext : forall A pm1 pm2 (k : nat -> str -> option A) g s, (forall c, pm1 c = pm2 c) -> gstar A pm1 k g s = gstar A pm2 k g s.
Proof. intros A pm1 pm2 k g s H. induction s as [|c s IH]; [reflexivity|]. cbn [gstar]. rewrite H, IH. reflexivity. Qed.

(* expr1_re.match = head1 *)
Lemma expr1_match : forall s, re_match is_w is_sp expr1_re s = head1 is_w s.
Proof.
  intro s. unfold re_match, expr1_re. rewrite rm_alt, rm_grp, rm_seq.
  destruct s as [|c r]; [reflexivity|]. rewrite rm_chr_cons, idstart_class. cbn [head1].
  destruct (is_id_start c) eqn:E.
  - rewrite rm_star_greedy_chr, (gstar_ext _ _ is_w) by apply word_class. rewrite gstar_total by discriminate. reflexivity.
  - rewrite rm_grp, rm_chr_cons. rewrite chr_pos. cbn [existsb citem_match]. rewrite orb_false_r.
    destruct (c =? 40); reflexivity.
Qed.

(* ------------------------------------------------------------------------------------------------ expr2_re *)

Definition erase (t : trailer_t) : nat * str :=
  match t with TrSemi r => (1%nat, r) | TrAttr r => (2%nat, r) | TrOpen _ r => (3%nat, r) end.

(* expr2_re.match = trailer (group number and position after the match) *)
Lemma expr2_match : forall s, re_match is_w is_sp expr2_re s = option_map erase (trailer is_w is_sp s).
Proof.
  intro s. unfold re_match, expr2_re. rewrite rm_seq, rm_star_greedy_chr, (gstar_ext _ _ is_sp) by apply space_class.
  rewrite gstar_blocked.
  - (* at the end of the white space *)
    unfold trailer. destruct (skip_w is_sp s) as [|c r] eqn:Es.
    + change (skip_sp is_sp s) with (skip_w is_sp s). rewrite Es. reflexivity.
    + change (skip_sp is_sp s) with (skip_w is_sp s). rewrite Es.
      rewrite rm_alt, rm_grp, rm_chr_cons. rewrite chr_pos. cbn [existsb citem_match]. rewrite orb_false_r.
      destruct (c =? 59) eqn:E59; [reflexivity|].
      rewrite rm_alt, rm_grp, rm_seq, rm_chr_cons. rewrite chr_pos. cbn [existsb citem_match]. rewrite orb_false_r.
      destruct (c =? 46) eqn:E46.
      * rewrite rm_seq, rm_star_greedy_chr, (gstar_ext _ _ is_sp) by apply space_class.
        rewrite gstar_blocked.
        -- change (skip_sp is_sp r) with (skip_w is_sp r). destruct (skip_w is_sp r) as [|d v].
           ++ rewrite rm_seq, rm_chr_nil. rewrite rm_grp, rm_chr_cons. rewrite chr_pos. cbn [existsb citem_match].
              assert (c =? 40 = false) as -> by lia. assert (c =? 91 = false) as -> by lia. reflexivity.
           ++ rewrite rm_seq, rm_chr_cons, idstart_class. destruct (is_id_start d) eqn:Ed.
              ** rewrite rm_star_greedy_chr, (gstar_ext _ _ is_w) by apply word_class. rewrite gstar_total by discriminate. reflexivity.
              ** rewrite rm_grp, rm_chr_cons. rewrite chr_pos. cbn [existsb citem_match].
                 assert (c =? 40 = false) as -> by lia. assert (c =? 91 = false) as -> by lia. reflexivity.
        -- intros d v Hd. rewrite rm_seq, rm_chr_cons, idstart_class, (sp_not_idstart d Hd). reflexivity.
      * rewrite rm_grp, rm_chr_cons. rewrite chr_pos. cbn [existsb citem_match]. rewrite orb_false_r.
        destruct ((c =? 40) || (c =? 91)); reflexivity.
  - (* the alternatives cannot start with a white-space character *)
    intros c r Hc.
    assert (c =? 59 = false) by (destruct (c =? 59) eqn:E; [assert (c = 59) by lia; subst; congruence | reflexivity]).
    assert (c =? 46 = false) by (destruct (c =? 46) eqn:E; [assert (c = 46) by lia; subst; congruence | reflexivity]).
    assert (c =? 40 = false) by (destruct (c =? 40) eqn:E; [assert (c = 40) by lia; subst; congruence | reflexivity]).
    assert (c =? 91 = false) by (destruct (c =? 91) eqn:E; [assert (c = 91) by lia; subst; congruence | reflexivity]).
    rewrite rm_alt, rm_grp, rm_chr_cons. rewrite chr_pos. cbn [existsb citem_match]. rewrite H. cbn [orb].
    rewrite rm_alt, rm_grp, rm_seq, rm_chr_cons. rewrite chr_pos. cbn [existsb citem_match]. rewrite H0. cbn [orb].
    rewrite rm_grp, rm_chr_cons. rewrite chr_pos. cbn [existsb citem_match]. rewrite H1, H2. reflexivity.
Qed.

(* for group 3 the character in front of the returned position is the bracket that was opened *)
Lemma trailer_open_char : forall s c r, trailer is_w is_sp s = Some (TrOpen c r) ->
  exists pre, s = pre ++ c :: r /\ ((c =? 40) || (c =? 91)) = true.
Proof.
  intros s c r H. unfold trailer in H.
  assert (Hsk : forall t, exists pre, t = pre ++ skip_sp is_sp t).
  { induction t as [|x t IH]; [exists []; reflexivity|]. cbn [skip_sp]. destruct (is_sp x); [|exists []; reflexivity].
    destruct IH as [pre Hp]. exists (x :: pre). cbn [app]. f_equal. exact Hp. }
  destruct (Hsk s) as [pre Hp]. destruct (skip_sp is_sp s) as [|x t]; [discriminate H|].
  destruct (x =? 59); [discriminate H|]. destruct (x =? 46).
  - destruct (skip_sp is_sp t) as [|d v]; [discriminate H|]. destruct (is_id_start d); discriminate H.
  - destruct ((x =? 40) || (x =? 91)) eqn:E; [|discriminate H]. inversion H; subst. exists pre. split; [reflexivity | exact E].
Qed.

(* ------------------------------------------------------------------------------------------------ expr3_re *)

Definition k_rest : nat -> str -> option str := fun _ s' => Some s'.

Lemma lazy1_str1 : forall q s, q <> 92 ->
  lazy1 str q (fun g s' => rm str (RChr false [CLit q]) g s' k_rest) 0 s = str1 q s.
Proof.
  intros q s Hq. remember (length s) as n eqn:Hn. revert s Hn. induction n as [n IH] using lt_wf_ind. intros s Hn.
  destruct s as [|c r]; [reflexivity|]. cbn [lazy1 str1]. rewrite rm_chr_cons. rewrite chr_pos. cbn [existsb citem_match]. rewrite orb_false_r.
  destruct (c =? q) eqn:Eq.
  - assert (c =? 92 = false) as -> by lia. reflexivity.
  - destruct (c =? 92) eqn:E92.
    + destruct r as [|d r']; [reflexivity|]. destruct (d =? 10); [reflexivity|]. apply (IH (length r')); [subst n; cbn [length]; lia | reflexivity].
    + apply (IH (length r)); [subst n; cbn [length]; lia | reflexivity].
Qed.

Definition close3 (q : Z) : re := RSeq (RChr false [CLit q]) (RSeq (RChr false [CLit q]) (RChr false [CLit q])).

Lemma close3_match : forall q g s, rm str (close3 q) g s k_rest =
  match s with a :: b :: c :: r => if (a =? q) && (b =? q) && (c =? q) then Some r else None | _ => None end.
Proof.
  intros q g s. unfold close3. rewrite rm_seq.
  destruct s as [|a s]; [reflexivity|]. rewrite rm_chr_cons. rewrite chr_pos. cbn [existsb citem_match]. rewrite orb_false_r.
  destruct (a =? q); [|destruct s as [|b [|c r]]; reflexivity]. rewrite rm_seq.
  destruct s as [|b s]; [reflexivity|]. rewrite rm_chr_cons. rewrite chr_pos. cbn [existsb citem_match]. rewrite orb_false_r.
  destruct (b =? q); [|destruct s; reflexivity].
  destruct s as [|c r]; [reflexivity|]. rewrite rm_chr_cons. rewrite chr_pos. cbn [existsb citem_match]. rewrite orb_false_r.
  destruct (c =? q); reflexivity.
Qed.

Lemma lazy3_str3 : forall q s, q <> 92 -> lazy3 str (fun g s' => rm str (close3 q) g s' k_rest) 0 s = str3 q s.
Proof.
  intros q s Hq. remember (length s) as n eqn:Hn. revert s Hn. induction n as [n IH] using lt_wf_ind. intros s Hn.
  destruct s as [|c r]; [reflexivity|]. cbn [lazy3 str3]. rewrite close3_match.
  assert (IHr : forall t, (length t < n)%nat -> lazy3 str (fun g s' => rm str (close3 q) g s' k_rest) 0 t = str3 q t)
    by (intros t Ht; apply (IH (length t) Ht t eq_refl)).
  destruct r as [|b [|c3 r3]].
  - destruct (c =? 92); [reflexivity|]. apply IHr. subst n. cbn [length]. lia.
  - destruct (c =? 92).
    + destruct (b =? 10); [reflexivity|]. apply IHr. subst n. cbn [length]. lia.
    + apply IHr. subst n. cbn [length]. lia.
  - destruct (c =? 92) eqn:E92.
    + assert (c =? q = false) as -> by lia. cbn [andb].
      destruct (b =? 10); [reflexivity|]. apply IHr. subst n. cbn [length]. lia.
    + destruct ((c =? q) && (b =? q) && (c3 =? q)); [reflexivity|]. apply IHr. subst n. cbn [length]. lia.
Qed.

Definition triple_re (q : Z) : re :=
  RSeq (RChr false [CLit q]) (RSeq (RChr false [CLit q]) (RSeq (RChr false [CLit q]) (RSeq (RStar false body3) (close3 q)))).
Definition single_re (q : Z) : re := RSeq (RChr false [CLit q]) (RSeq (RStar false (body1 q)) (RChr false [CLit q])).

Lemma single_match : forall q c r, q <> 92 ->
  rm str (single_re q) 0 (c :: r) k_rest = if c =? q then str1 q r else None.
Proof.
  intros q c r Hq. unfold single_re. rewrite rm_seq, rm_chr_cons. rewrite chr_pos. cbn [existsb citem_match]. rewrite orb_false_r.
  destruct (c =? q); [|reflexivity]. rewrite rm_seq, rm_star_lazy1 by exact Hq. apply lazy1_str1. exact Hq.
Qed.

Lemma triple_match : forall q c r, q <> 92 ->
  rm str (triple_re q) 0 (c :: r) k_rest =
  if c =? q then match r with a :: b :: r2 => if (a =? q) && (b =? q) then str3 q r2 else None | _ => None end else None.
Proof.
  intros q c r Hq. unfold triple_re. rewrite rm_seq, rm_chr_cons. rewrite chr_pos. cbn [existsb citem_match]. rewrite orb_false_r.
  destruct (c =? q); [|reflexivity]. rewrite rm_seq.
  destruct r as [|a r]; [reflexivity|]. rewrite rm_chr_cons. rewrite chr_pos. cbn [existsb citem_match]. rewrite orb_false_r.
  destruct (a =? q); [|destruct r; reflexivity]. rewrite rm_seq.
  destruct r as [|b r2]; [reflexivity|]. rewrite rm_chr_cons. rewrite chr_pos. cbn [existsb citem_match]. rewrite orb_false_r.
  destruct (b =? q); [|reflexivity]. cbn [andb]. rewrite rm_seq, rm_star_lazy3. apply lazy3_str3. exact Hq.
Qed.

Lemma expr3_shape : expr3_re =
  RAlt (RChr false [CLit 40; CLit 41; CLit 91; CLit 93]) (RAlt (triple_re 39) (RAlt (triple_re 34) (RAlt (single_re 39) (single_re 34)))).
Proof. reflexivity. Qed.

(* expr3_re.match at one position *)
Lemma expr3_at : forall c r,
  rm str expr3_re 0 (c :: r) k_rest =
  if is_bracket c then Some r
  else if (c =? 39) || (c =? 34) then try_string c r
  else None.
Proof.
  intros c r. rewrite expr3_shape. rewrite rm_alt, rm_chr_cons.
  assert (Hb : chr_match false [CLit 40; CLit 41; CLit 91; CLit 93] c = is_bracket c).
  { rewrite chr_pos. unfold is_bracket. cbn [existsb citem_match]. rewrite orb_false_r, !orb_assoc. reflexivity. }
  rewrite Hb. destruct (is_bracket c) eqn:Ebr; [reflexivity|].
  rewrite rm_alt, triple_match by lia. rewrite rm_alt, triple_match by lia. rewrite rm_alt, !single_match by lia.
  unfold try_string.
  destruct (c =? 39) eqn:E39.
  - assert (c = 39) by lia. subst c. cbn [Z.eqb Pos.eqb orb].
    destruct r as [|a [|b r2]]; try reflexivity; [destruct (str1 39 [a]); reflexivity|].
    destruct ((a =? 39) && (b =? 39)).
    + destruct (str3 39 r2); [reflexivity|]. destruct (str1 39 (a :: b :: r2)); reflexivity.
    + destruct (str1 39 (a :: b :: r2)); reflexivity.
  - destruct (c =? 34) eqn:E34; cbn [orb]; [|reflexivity].
    assert (c = 34) by lia. subst c.
    destruct r as [|a [|b r2]]; try reflexivity.
    destruct ((a =? 34) && (b =? 34)); [|reflexivity].
    destruct (str3 34 r2); reflexivity.
Qed.

(* expr3_re.search = next_tok *)
Lemma expr3_search : forall s,
  option_map (fun sr => (tok_kind (fst sr), snd sr)) (re_search is_w is_sp expr3_re s) = next_tok s.
Proof.
  induction s as [|c r IH]; [reflexivity|].
  cbn [re_search next_tok]. change (fun (_ : nat) (s' : str) => Some s') with k_rest. rewrite expr3_at.
  destruct (is_bracket c) eqn:Ebr.
  - cbn [option_map fst snd tok_kind]. rewrite Ebr. reflexivity.
  - destruct ((c =? 39) || (c =? 34)).
    + destruct (try_string c r); [cbn [option_map fst snd tok_kind]; rewrite Ebr; reflexivity | exact IH].
    + exact IH.
Qed.

(* ------------------------------------------------------------------------------------------------ parse_expr over the regexes = the scanner *)

Lemma br_loop_scan : forall fuel opn cls depth s,
  br_loop_re is_w is_sp fuel opn cls depth s = scan_br fuel opn cls depth s.
Proof.
  induction fuel as [|f IH]; intros opn cls depth s; [reflexivity|].
  cbn [br_loop_re scan_br]. rewrite <- expr3_search.
  destruct (re_search is_w is_sp expr3_re s) as [[st r]|]; [|reflexivity].
  cbn [option_map fst snd]. destruct (tok_kind st) as [c|].
  - destruct (c =? opn); [apply IH|]. destruct (c =? cls); [destruct depth; [reflexivity | apply IH] | apply IH].
  - apply IH.
Qed.

Lemma open_char_spec : forall pre c r, open_char (pre ++ c :: r) r = c.
Proof.
  intros pre c r. unfold open_char. rewrite app_length. cbn [length].
  replace (length pre + S (length r) - length r - 1)%nat with (length pre) by lia.
  rewrite app_nth2 by lia. rewrite Nat.sub_diag. reflexivity.
Qed.

Lemma tails_re_tails : forall fuel s, tails_re is_w is_sp fuel s = tails is_w is_sp fuel s.
Proof.
  induction fuel as [|f IH]; intro s; [reflexivity|].
  cbn [tails_re tails]. rewrite expr2_match. destruct (trailer is_w is_sp s) as [[r|r|c r]|] eqn:Et; cbn [option_map erase Nat.eqb].
  - reflexivity.
  - apply IH.
  - destruct (trailer_open_char s c r Et) as (pre & Hs & _).
    assert (Ho : open_char s r = c) by (rewrite Hs; apply open_char_spec). cbv zeta. rewrite Ho.
    rewrite br_loop_scan. destruct (scan_br (length r) c (closer c) 0 r); [apply IH | reflexivity].
  - reflexivity.
Qed.

(* the Python algorithm over the three regular expressions computes exactly what the scanner model computes *)
Lemma parse_expr_re_scanner : forall s, parse_expr_re is_w is_sp s = parse_expr_rest is_w is_sp s.
Proof.
  intro s. unfold parse_expr_re, parse_expr_rest. rewrite expr1_match.
  destruct (head1 is_w s) as [[g r]|]; [|reflexivity]. destruct (Nat.eqb g 1); apply tails_re_tails.
Qed.

End WithClasses.
