(* C27 - lemmas over Model/C27Inherit.v: the sets Pony computes while classes are defined are the transitive closure of the
   direct-base relation and its inverse; discriminator criteria, reload class and isinstance follow. *)
From Coq Require Import ZArith List Bool Lia.
Require Import PonyV.Base.PyBase PonyV.Model.C27Inherit PonyV.Gen.C27AttrGet.
#[local] Open Scope nat_scope.

(* e is a proper ancestor of c: transitive closure of "e is a direct base of c" *)
Inductive anc (s : schema) : nat -> nat -> Prop :=
| anc1 e c : In e (bases_of s c) -> anc s e c
| ancS e b c : In b (bases_of s c) -> anc s e b -> anc s e c.

Lemma nmem_In x l : nmem x l = true <-> In x l.
Proof.
  unfold nmem. rewrite existsb_exists. split.
  - intros [y [Hy E]]. apply Nat.eqb_eq in E. now subst.
  - intros H. exists x. split; [assumption | apply Nat.eqb_refl].
Qed.

Lemma zmem_In x l : zmem x l = true <-> In x l.
Proof.
  unfold zmem. rewrite existsb_exists. split.
  - intros [y [Hy E]]. apply Z.eqb_eq in E. now subst.
  - intros H. exists x. split; [assumption | apply Z.eqb_refl].
Qed.

(* ------------------------------------------------------------------ older classes are not affected by a new definition *)
Section Older.
Variables (d : cdef) (older : schema).

Lemma bases_older c : c <> length older -> bases_of (d :: older) c = bases_of older c.
Proof. intros H. cbn [bases_of]. apply Nat.eqb_neq in H. now rewrite H. Qed.
Lemma bases_new : bases_of (d :: older) (length older) = d_bases d.
Proof. cbn [bases_of]. now rewrite Nat.eqb_refl. Qed.
Lemma all_bases_older c : c <> length older -> all_bases (d :: older) c = all_bases older c.
Proof. intros H. cbn [all_bases]. apply Nat.eqb_neq in H. now rewrite H. Qed.
Lemma root_older c : c <> length older -> root_of (d :: older) c = root_of older c.
Proof. intros H. cbn [root_of]. apply Nat.eqb_neq in H. now rewrite H. Qed.
Lemma discr_older c : c <> length older -> discr_of (d :: older) c = discr_of older c.
Proof. intros H. cbn [discr_of]. apply Nat.eqb_neq in H. now rewrite H. Qed.
Lemma discr_new : discr_of (d :: older) (length older) = d_discr d.
Proof. cbn [discr_of]. now rewrite Nat.eqb_refl. Qed.
End Older.

Lemma valid_tail d older : valid (d :: older) = true -> valid older = true.
Proof. cbn [valid]. intros H. apply andb_true_iff in H as [_ H]. exact H. Qed.

Lemma valid_parts d older : valid (d :: older) = true ->
  forallb (fun b => b <? length older) (d_bases d) = true
  /\ match d_bases d with [] => true | b0 :: rest => forallb (fun b => root_of older b =? root_of older b0) rest end = true
  /\ code2cls older (root_of (d :: older) (length older)) (d_discr d) = None
  /\ valid older = true.
Proof.
  cbn [valid]. intros H. apply andb_true_iff in H as [H H4]. apply andb_true_iff in H as [H H3]. apply andb_true_iff in H as [H1 H2].
  repeat split; try assumption.
  destruct (code2cls older (root_of (d :: older) (length older)) (d_discr d)); [discriminate | reflexivity].
Qed.

Lemma valid_head_lt d older b : valid (d :: older) = true -> In b (d_bases d) -> b < length older.
Proof.
  intros H Hb. destruct (valid_parts _ _ H) as [H1 _].
  rewrite forallb_forall in H1. apply H1 in Hb. now apply Nat.ltb_lt in Hb.
Qed.

Lemma bases_lt s : valid s = true -> forall b c, In b (bases_of s c) -> b < c /\ c < length s.
Proof.
  induction s as [|d older IH]; intros Hv b c Hb; [contradiction|].
  destruct (Nat.eq_dec c (length older)) as [->|Hne].
  - rewrite bases_new in Hb. cbn [length]. split; [eapply valid_head_lt; eauto | lia].
  - rewrite bases_older in Hb by assumption. destruct (IH (valid_tail _ _ Hv) b c Hb). cbn [length]. lia.
Qed.

Lemma anc_lt s : valid s = true -> forall e c, anc s e c -> e < c /\ c < length s.
Proof.
  intros Hv e c H. induction H as [e c H|e b c H _ IH].
  - eapply bases_lt; eauto.
  - destruct (bases_lt s Hv b c H). lia.
Qed.

Lemma anc_older d older : valid (d :: older) = true -> forall e c, c < length older ->
  (anc (d :: older) e c <-> anc older e c).
Proof.
  intros Hv e c Hc. pose proof (valid_tail _ _ Hv) as Hv'. split.
  - intros H. induction H as [e c H|e b c H _ IH].
    + apply anc1. rewrite bases_older in H by lia. exact H.
    + rewrite bases_older in H by lia. destruct (bases_lt older Hv' b c H). eapply ancS; [exact H | apply IH; lia].
  - intros H. induction H as [e c H|e b c H _ IH].
    + apply anc1. rewrite bases_older by lia. exact H.
    + destruct (bases_lt older Hv' b c H). eapply ancS; [rewrite bases_older by lia; exact H | apply IH; lia].
Qed.

Lemma all_bases_ge s c : length s <= c -> all_bases s c = [].
Proof.
  induction s as [|d older IH]; intros H; [reflexivity|]. cbn [length] in H.
  rewrite all_bases_older by lia. apply IH. lia.
Qed.

(* _all_bases_ is the set of proper ancestors *)
Lemma all_bases_anc s : valid s = true -> forall e c, In e (all_bases s c) <-> anc s e c.
Proof.
  induction s as [|d older IH]; intros Hv e c.
  - cbn. split; [contradiction|]. intros H. destruct (anc_lt [] Hv e c H). cbn in *. lia.
  - pose proof (valid_tail _ _ Hv) as Hv'.
    destruct (Nat.eq_dec c (length older)) as [->|Hne].
    + cbn [all_bases]. rewrite Nat.eqb_refl. rewrite in_flat_map. split.
      * intros [b [Hb Hin]]. pose proof (valid_head_lt _ _ _ Hv Hb) as Hlt.
        apply in_app_or in Hin as [Hin|[->|[]]].
        -- eapply ancS; [rewrite bases_new; exact Hb|]. apply anc_older; [assumption..|]. now apply IH.
        -- apply anc1. now rewrite bases_new.
      * intros H. inversion H as [e' c' Hb|e' b c' Hb Hanc]; subst; rewrite bases_new in Hb.
        -- exists e. split; [assumption|]. apply in_or_app. right. now left.
        -- exists b. split; [assumption|]. apply in_or_app. left. apply IH; [assumption|].
           apply (anc_older d older Hv); [eapply valid_head_lt; eauto | assumption].
    + rewrite all_bases_older by assumption.
      destruct (Nat.lt_ge_cases c (length older)) as [Hlt|Hge].
      * rewrite IH by assumption. symmetry. now apply anc_older.
      * rewrite all_bases_ge by assumption. split; [contradiction|].
        intros H. destruct (anc_lt _ Hv e c H) as [_ H2]. cbn [length] in H2. lia.
Qed.

(* C27_subclasses: _subclasses_ is the inverse of the transitive closure of the base relation *)
Lemma subclasses_anc s : valid s = true -> forall e c, In c (subclasses s e) <-> anc s e c.
Proof.
  induction s as [|d older IH]; intros Hv e c.
  - cbn. split; [contradiction|]. intros H. destruct (anc_lt [] Hv e c H). cbn in *. lia.
  - pose proof (valid_tail _ _ Hv) as Hv'. cbn [subclasses]. split.
    + intros H.
      assert (Hold : In c (subclasses older e) -> anc (d :: older) e c).
      { intros Hin. apply IH in Hin; [|assumption]. destruct (anc_lt _ Hv' _ _ Hin). now apply anc_older. }
      destruct (nmem e (all_bases (d :: older) (length older))) eqn:Em; [|now apply Hold].
      apply in_app_or in H as [H|[<-|[]]]; [now apply Hold|].
      apply nmem_In in Em. now apply all_bases_anc in Em.
    + intros H. destruct (anc_lt _ Hv _ _ H) as [_ Hc]. cbn [length] in Hc.
      destruct (Nat.eq_dec c (length older)) as [->|Hne].
      * apply all_bases_anc in H; [|assumption]. apply nmem_In in H. rewrite H. apply in_or_app. right. now left.
      * assert (Hin : In c (subclasses older e)) by (apply IH; [assumption|]; apply (anc_older d older Hv); [lia | assumption]).
        destruct (nmem e (all_bases (d :: older) (length older))); [apply in_or_app; now left | assumption].
Qed.

Lemma anc_trans s a b c : anc s a b -> anc s b c -> anc s a c.
Proof.
  intros Hab Hbc. induction Hbc as [b c H|b b' c H _ IH].
  - eapply ancS; eauto.
  - eapply ancS; [exact H | now apply IH].
Qed.

Lemma anc_irrefl s : valid s = true -> forall e, ~ anc s e e.
Proof. intros Hv e H. destruct (anc_lt s Hv e e H). lia. Qed.

(* ------------------------------------------------------------------ roots *)
Lemma base_root s : valid s = true -> forall b c, In b (bases_of s c) -> root_of s b = root_of s c.
Proof.
  induction s as [|d older IH]; intros Hv b c Hb; [contradiction|].
  pose proof (valid_tail _ _ Hv) as Hv'.
  destruct (Nat.eq_dec c (length older)) as [->|Hne].
  - rewrite bases_new in Hb. pose proof (valid_head_lt _ _ _ Hv Hb) as Hlt.
    rewrite (root_older d older b) by lia. cbn [root_of]. rewrite Nat.eqb_refl.
    destruct (valid_parts _ _ Hv) as [_ [Hr _]].
    destruct (d_bases d) as [|b0 rest]; [contradiction|]. destruct Hb as [->|Hb]; [reflexivity|].
    rewrite forallb_forall in Hr. apply Hr in Hb. now apply Nat.eqb_eq in Hb.
  - rewrite bases_older in Hb by assumption. destruct (bases_lt older Hv' b c Hb).
    rewrite !root_older by lia. now apply IH.
Qed.

Lemma anc_root s : valid s = true -> forall e c, anc s e c -> root_of s e = root_of s c.
Proof.
  intros Hv e c H. induction H as [e c H|e b c H _ IH]; [now apply base_root|].
  rewrite IH. now apply base_root.
Qed.

(* ------------------------------------------------------------------ discriminators *)

(* within one tree (one table) every class has its own discriminator value *)
Definition discr_inj (s : schema) : Prop :=
  forall a b, a < length s -> b < length s -> root_of s a = root_of s b -> discr_of s a = discr_of s b -> a = b.

(* the classes a query over e must return: e and its subclasses *)
Definition family (s : schema) (e k : nat) : Prop := k = e \/ anc s e k.

Lemma family_root s : valid s = true -> forall e k, family s e k -> root_of s k = root_of s e.
Proof. intros Hv e k [->|H]; [reflexivity | symmetry; now apply anc_root]. Qed.

Lemma family_lt s : valid s = true -> forall e k, e < length s -> family s e k -> k < length s.
Proof. intros Hv e k He [->|H]; [assumption | now destruct (anc_lt s Hv e k H)]. Qed.

Lemma family_subclasses s : valid s = true -> forall e k, family s e k <-> In k (e :: subclasses s e).
Proof.
  intros Hv e k. unfold family. cbn [In]. rewrite subclasses_anc by assumption. split; intros [H|H]; auto.
Qed.

(* C27_criteria *)
Lemma criteria_exact s : valid s = true -> discr_inj s -> forall e k, e < length s -> k < length s ->
  root_of s k = root_of s e ->
  (selected s e (discr_of s k) = true <-> family s e k).
Proof.
  intros Hv Hinj e k He Hk Hroot. unfold selected, criteria. rewrite zmem_In, in_app_iff, in_map_iff. cbn [In]. split.
  - intros [[c [Hd Hc]]|[Hd|[]]].
    + apply subclasses_anc in Hc; [|assumption]. destruct (anc_lt s Hv e c Hc) as [_ Hcl].
      assert (c = k) as ->; [|now right].
      apply Hinj; auto. rewrite Hroot. symmetry. now apply anc_root.
    + left. apply Hinj; auto.
  - intros [->|H]; [right; now left|]. left. exists k. split; [reflexivity|]. now apply subclasses_anc.
Qed.

Lemma criteria_exact_list s : valid s = true -> discr_inj s -> forall e k, e < length s -> k < length s ->
  root_of s k = root_of s e ->
  (selected s e (discr_of s k) = true <-> In k (e :: subclasses s e)).
Proof.
  intros Hv Hi e k He Hk Hr. rewrite <- (family_subclasses s Hv). exact (criteria_exact s Hv Hi e k He Hk Hr).
Qed.

(* code2cls returns a class of that tree carrying that value, and finds one whenever there is one *)
Lemma code2cls_sound s : forall r v c, code2cls s r v = Some c -> c < length s /\ root_of s c = r /\ discr_of s c = v.
Proof.
  induction s as [|d older IH]; intros r v c H; [discriminate|]. cbn [code2cls] in H.
  destruct ((root_of (d :: older) (length older) =? r) && (d_discr d =? v)%Z) eqn:E.
  - inversion H; subst. apply andb_true_iff in E as [E1 E2]. apply Nat.eqb_eq in E1. apply Z.eqb_eq in E2.
    cbn [length]. rewrite discr_new. repeat split; auto.
  - destruct (IH r v c H) as [H1 [H2 H3]]. cbn [length]. rewrite root_older, discr_older by lia. repeat split; auto.
Qed.

Lemma code2cls_complete s : forall k, k < length s -> code2cls s (root_of s k) (discr_of s k) <> None.
Proof.
  induction s as [|d older IH]; intros k Hk; [cbn in Hk; lia|]. cbn [code2cls].
  destruct ((root_of (d :: older) (length older) =? root_of (d :: older) k) && (d_discr d =? discr_of (d :: older) k)%Z) eqn:E;
    [discriminate|].
  destruct (Nat.eq_dec k (length older)) as [->|Hne].
  - rewrite Nat.eqb_refl, discr_new, Z.eqb_refl in E. discriminate.
  - cbn [length] in Hk. rewrite root_older, discr_older by assumption. apply IH. lia.
Qed.

(* C27_reload *)
Lemma reload_exact s : valid s = true -> discr_inj s -> forall e k, e < length s -> family s e k ->
  reload_class s e (discr_of s k) = Some k.
Proof.
  intros Hv Hinj e k He Hf. unfold reload_class.
  pose proof (family_lt s Hv e k He Hf) as Hk. rewrite <- (family_root s Hv e k Hf).
  destruct (code2cls s (root_of s k) (discr_of s k)) as [c|] eqn:E; [|now apply code2cls_complete in E].
  destruct (code2cls_sound _ _ _ _ E) as [Hc [Hr Hd]]. f_equal. now apply Hinj.
Qed.

(* class refinement: an object first met through a reference typed as an ancestor ends up with its real class *)
Lemma refine_exact s : valid s = true -> forall cur real, family s cur real -> refine s cur real = Some real.
Proof.
  intros Hv cur real [->|H]; unfold refine; [now rewrite Nat.eqb_refl|].
  destruct (anc_lt s Hv _ _ H). replace (cur =? real) with false by (symmetry; apply Nat.eqb_neq; lia).
  assert (E1 : nmem real (all_bases s cur) = false).
  { destruct (nmem real (all_bases s cur)) eqn:E; [|reflexivity]. apply nmem_In, all_bases_anc in E; [|assumption].
    destruct (anc_lt s Hv _ _ E). lia. }
  rewrite E1. apply all_bases_anc, nmem_In in H; [|assumption]. now rewrite H.
Qed.

(* ------------------------------------------------------------------ isinstance *)

Lemma py_isinstance_spec s : valid s = true -> forall k cs,
  py_isinstance s k cs = true <-> exists c, In c cs /\ family s c k.
Proof.
  intros Hv k cs. unfold py_isinstance, family. rewrite existsb_exists. split.
  - intros [c [Hc H]]. exists c. split; [assumption|]. apply orb_true_iff in H as [H|H].
    + left. now apply Nat.eqb_eq in H.
    + right. apply nmem_In in H. now apply all_bases_anc in H.
  - intros [c [Hc [->|H]]]; exists c; (split; [assumption|]); apply orb_true_iff.
    + left. apply Nat.eqb_refl.
    + right. apply nmem_In. now apply all_bases_anc.
Qed.

Definition iset (s : schema) (e : nat) (cs : list nat) : list nat :=
  flat_map (fun c => if root_of s e =? root_of s c then c :: subclasses s c else []) cs.

Lemma iset_spec s : valid s = true -> forall e cs x,
  In x (iset s e cs) <-> exists c, In c cs /\ root_of s e = root_of s c /\ family s c x.
Proof.
  intros Hv e cs x. unfold iset. rewrite in_flat_map. split.
  - intros [c [Hc H]]. destruct (root_of s e =? root_of s c) eqn:E; [|contradiction]. apply Nat.eqb_eq in E.
    exists c. repeat split; auto. apply family_subclasses; auto.
  - intros [c [Hc [Hr Hf]]]. exists c. split; [assumption|]. apply Nat.eqb_eq in Hr. rewrite Hr.
    now apply family_subclasses.
Qed.

Lemma isinstance_exact s : valid s = true -> discr_inj s -> forall e cs k, e < length s -> family s e k ->
  isinst_eval (isinstance_sql s e cs) (discr_of s k) = py_isinstance s k cs.
Proof.
  intros Hv Hinj e cs k He Hf.
  pose proof (family_lt s Hv e k He Hf) as Hk. pose proof (family_root s Hv e k Hf) as Hrk.
  apply Bool.eq_iff_eq_true. rewrite py_isinstance_spec by assumption.
  unfold isinstance_sql. fold (iset s e cs).
  (* membership of k in the set S that call() builds = Python isinstance *)
  assert (HS : In k (iset s e cs) <-> exists c, In c cs /\ family s c k).
  { rewrite iset_spec by assumption. split; intros [c [Hc H]]; exists c.
    - now destruct H.
    - repeat split; auto. rewrite <- Hrk. now apply family_root. }
  destruct (nmem e (iset s e cs)) eqn:Ee.
  - (* entity itself is in S: constant TRUE *)
    cbn [isinst_eval]. split; [intros _|reflexivity].
    apply nmem_In, iset_spec in Ee; [|assumption]. destruct Ee as [c [Hc [Hr Hce]]]. exists c. split; [assumption|].
    destruct Hf as [->|Hek]; [assumption|]. right. destruct Hce as [->|Hce]; [assumption | eapply anc_trans; eauto].
  - assert (Hne : ~ In e (iset s e cs)) by (intros H; apply nmem_In in H; congruence).
    assert (HS' : forall x, In x (filter (fun c => nmem c (subclasses s e)) (iset s e cs)) <-> In x (iset s e cs) /\ anc s e x).
    { intros x. rewrite filter_In, nmem_In, subclasses_anc by assumption. reflexivity. }
    destruct (filter (fun c => nmem c (subclasses s e)) (iset s e cs)) as [|y ys] eqn:EF.
    + (* nothing below entity: constant FALSE *)
      cbn [isinst_eval]. split; [discriminate|]. intros Hex. apply HS in Hex.
      destruct Hf as [->|Hek]; [contradiction|]. destruct (proj2 (HS' k) (conj Hex Hek)).
    + cbn [isinst_eval]. rewrite <- EF in *. clear EF y ys. rewrite zmem_In, in_map_iff. split.
      * intros [x [Hd Hx]]. apply HS' in Hx as [HxS Hex]. destruct (anc_lt s Hv e x Hex) as [_ Hxl].
        assert (x = k) as -> by (apply Hinj; auto; rewrite Hrk; symmetry; now apply anc_root).
        now apply HS.
      * intros Hex. apply HS in Hex. destruct Hf as [->|Hek]; [contradiction|].
        exists k. split; [reflexivity|]. now apply HS'.
Qed.

(* ------------------------------------------------------------------ accepted schemas have pairwise different values per tree *)
Lemma valid_inj s : valid s = true -> discr_inj s.
Proof.
  induction s as [|d older IH]; intros Hv a b Ha Hb Hr Hd; [cbn in Ha; lia|].
  destruct (valid_parts _ _ Hv) as [_ [_ [Hnew Hv']]]. cbn [length] in Ha, Hb.
  assert (Hclash : forall x, x < length older -> root_of (d :: older) x = root_of (d :: older) (length older) ->
                   discr_of (d :: older) x = discr_of (d :: older) (length older) -> False).
  { intros x Hx Hrx Hdx. rewrite root_older in Hrx by lia. rewrite discr_older, discr_new in Hdx by lia.
    apply (code2cls_complete older x Hx). rewrite Hrx, Hdx. exact Hnew. }
  destruct (Nat.eq_dec a (length older)) as [->|Hna], (Nat.eq_dec b (length older)) as [->|Hnb]; [reflexivity | | |].
  - exfalso. apply (Hclash b); [lia | now symmetry | now symmetry].
  - exfalso. apply (Hclash a); [lia | assumption | assumption].
  - rewrite !root_older in Hr by assumption. rewrite !discr_older in Hd by assumption. apply (IH Hv'); auto; lia.
Qed.

Lemma criteria_valid s : valid s = true -> forall e k, e < length s -> k < length s -> root_of s k = root_of s e ->
  (selected s e (discr_of s k) = true <-> In k (e :: subclasses s e)).
Proof. intros Hv. exact (criteria_exact_list s Hv (valid_inj s Hv)). Qed.

Lemma isinstance_valid s : valid s = true -> forall e cs k, e < length s -> family s e k ->
  isinst_eval (isinstance_sql s e cs) (discr_of s k) = py_isinstance s k cs.
Proof. intros Hv. exact (isinstance_exact s Hv (valid_inj s Hv)). Qed.

Lemma reload_valid s : valid s = true -> forall e k, e < length s -> family s e k -> reload_class s e (discr_of s k) = Some k.
Proof. intros Hv. exact (reload_exact s Hv (valid_inj s Hv)). Qed.

(* ------------------------------------------------------------------ the hypotheses are decidable: boolean forms for concrete schemas *)
Definition discr_injb (s : schema) : bool :=
  let ids := seq 0 (length s) in
  forallb (fun a => forallb (fun b => negb ((root_of s a =? root_of s b) && (discr_of s a =? discr_of s b)%Z) || (a =? b)) ids) ids.

Lemma discr_injb_ok s : discr_injb s = true -> discr_inj s.
Proof.
  unfold discr_injb, discr_inj. intros H a b Ha Hb Hr Hd. rewrite forallb_forall in H.
  assert (Ia : In a (seq 0 (length s))) by (apply in_seq; lia). assert (Ib : In b (seq 0 (length s))) by (apply in_seq; lia).
  specialize (H a Ia). rewrite forallb_forall in H. specialize (H b Ib).
  rewrite Hr, Hd, Nat.eqb_refl, Z.eqb_refl in H. cbn in H. now apply Nat.eqb_eq in H.
Qed.

(* ------------------------------------------------------------------ witnesses *)

(* a diamond with a custom discriminator: A(0); B(A)=1; C(A)=2; D(B,C)=3; E(D)=4; second tree R(5); Q(R)=6 *)
Definition s_diamond : schema :=
  [ {| d_bases := [5]; d_discr := 60 |}; {| d_bases := []; d_discr := 50 |};
    {| d_bases := [3]; d_discr := 40 |}; {| d_bases := [1; 2]; d_discr := 30 |};
    {| d_bases := [0]; d_discr := 20 |}; {| d_bases := [0]; d_discr := 10 |}; {| d_bases := []; d_discr := 0 |} ].

(* two subclasses declared with the same discriminator value: B(A)='K', C(A)='K' *)
Definition s_dup : schema :=
  [ {| d_bases := [0]; d_discr := 7 |}; {| d_bases := [0]; d_discr := 7 |}; {| d_bases := []; d_discr := 0 |} ].

(* since fix d645930 the second use of a value is refused when the class is defined *)
Lemma dup_rejected : valid s_dup = false.
Proof. reflexivity. Qed.

(* ------------------------------------------------------------------ lookup by pk when the identity map already holds the object or a seed *)
Lemma issub_family s : valid s = true -> forall a b, issub s a b = true <-> family s b a.
Proof.
  intros Hv a b. unfold issub, family. rewrite orb_true_iff, Nat.eqb_eq, nmem_In, all_bases_anc by assumption. reflexivity.
Qed.

Lemma issub_false_family s : valid s = true -> forall a b, issub s a b = false <-> ~ family s b a.
Proof.
  intros Hv a b. rewrite <- (issub_family s Hv). destruct (issub s a b); split; intros H; try discriminate; try reflexivity; now elim H.
Qed.

(* a loaded object: right for every entity the lookup goes through *)
Lemma find_loaded s : valid s = true -> forall e real, find_in_cache s true e real false real = lookup_spec s e real.
Proof.
  intros Hv e real. unfold find_in_cache, lookup_spec.
  destruct (subclasses s real) as [|c0 cs]; [reflexivity|].
  destruct (negb (issub s e real) && negb (issub s real e) && (negb false || negb (common_subclass s real e))) eqn:E; [|reflexivity].
  apply andb_true_iff in E as [E _]. apply andb_true_iff in E as [_ E2]. apply negb_true_iff in E2. now rewrite E2.
Qed.

(* a seed typed cur (an ancestor of the real class, or the class itself): right for every entity e, also in diamonds (fix 8097451) *)
Lemma find_seed s : valid s = true -> forall e cur real, family s cur real ->
  find_in_cache s true e cur true real = lookup_spec s e real.
Proof.
  intros Hv e cur real Hf. unfold find_in_cache, lookup_spec.
  destruct (subclasses s cur) as [|c0 cs] eqn:Es.
  - assert (real = cur) as ->; [|reflexivity].
    destruct Hf as [->|Ha]; [reflexivity|]. apply (subclasses_anc s Hv) in Ha. rewrite Es in Ha. contradiction.
  - cbn [negb orb].
    destruct (negb (issub s e cur) && negb (issub s cur e) && negb (common_subclass s cur e)) eqn:E.
    + (* unrelated classes without a common subclass: the stored class cannot be below e *)
      apply andb_true_iff in E as [E E3]. apply andb_true_iff in E as [E1 E2].
      apply negb_true_iff in E1, E2, E3.
      apply (issub_false_family s Hv) in E1, E2.
      destruct (issub s real e) eqn:Ere; [|reflexivity]. exfalso.
      apply (issub_family s Hv) in Ere.
      destruct Ere as [->|Her]; [now apply E1|]. destruct Hf as [->|Hcr]; [apply E2; now right|].
      unfold common_subclass in E3. assert (Hex : existsb (fun c => nmem c (subclasses s e)) (subclasses s cur) = true).
      { apply existsb_exists. exists real. split; [now apply subclasses_anc | apply nmem_In; now apply subclasses_anc]. }
      congruence.
    + now rewrite (refine_exact s Hv cur real Hf).
Qed.

Lemma find_seed_found s : valid s = true -> forall e cur real, family s cur real -> family s e real ->
  find_in_cache s true e cur true real = Found real.
Proof.
  intros Hv e cur real Hf He. rewrite (find_seed s Hv e cur real Hf). unfold lookup_spec.
  apply (issub_family s Hv) in He. now rewrite He.
Qed.

(* witness: diamond A; B(A); C(A); D(B,C).  A seed typed B for a stored D hides it from a lookup through C *)
Definition s_abcd : schema :=
  [ {| d_bases := [1; 2]; d_discr := 30 |}; {| d_bases := [0]; d_discr := 20 |}; {| d_bases := [0]; d_discr := 10 |}; {| d_bases := []; d_discr := 0 |} ].
Lemma s_abcd_valid : valid s_abcd = true. Proof. reflexivity. Qed.
(* a K1-typed seed of a stored K3 no longer hides it from a lookup through the sibling branch K2 *)
Lemma seed_sibling_found : find_in_cache s_abcd true 2 1 true 3 = Found 3.
Proof. reflexivity. Qed.
(* a falsy discriminator value (0 on the root) is a discriminator like any other *)
Lemma seed_falsy_root : find_in_cache s_abcd true 1 0 true 1 = Found 1 /\ find_in_cache s_abcd true 1 0 true 0 = NotFound.
Proof. split; reflexivity. Qed.

(* two references, typed c1 and c2, to one stored object of class real (both are real or ancestors of it): the placeholder created for the
   first is met again through the second without an error, and what stays in the identity map is still a class at or above the stored one,
   so loading the row refines it to real (refine_exact) *)
Lemma refine_some s : valid s = true -> forall cur d c, refine s cur d = Some c -> (c = cur /\ (cur = d \/ anc s d cur)) \/ (c = d /\ anc s cur d).
Proof.
  intros Hv cur d c. unfold refine. destruct (cur =? d) eqn:E1.
  - apply Nat.eqb_eq in E1. intros H. inversion H; subst. left. split; [reflexivity | now left].
  - destruct (nmem d (all_bases s cur)) eqn:E2.
    + intros H. inversion H; subst. left. split; [reflexivity|]. right. apply nmem_In in E2. now apply all_bases_anc in E2.
    + destruct (nmem cur (all_bases s d)) eqn:E3; [|discriminate]. intros H. inversion H; subst. right. split; [reflexivity|].
      apply nmem_In in E3. now apply all_bases_anc in E3.
Qed.

Lemma meet_again_ok s : valid s = true -> forall c1 c2 real, family s c1 real -> family s c2 real ->
  exists c, meet_again s c1 true c2 = Some c /\ family s c real.
Proof.
  intros Hv c1 c2 real H1 H2. unfold meet_again.
  destruct (refine s c1 c2) as [c|] eqn:Er.
  - exists c. split; [reflexivity|]. destruct (refine_some s Hv _ _ _ Er) as [[-> _]|[-> _]]; assumption.
  - (* unrelated declared types: the stored class is a common subclass *)
    assert (Hc : common_subclass s c1 c2 = true).
    { unfold refine in Er. destruct (c1 =? c2) eqn:E1; [discriminate|]. apply Nat.eqb_neq in E1.
      destruct (nmem c2 (all_bases s c1)) eqn:E2; [discriminate|]. destruct (nmem c1 (all_bases s c2)) eqn:E3; [discriminate|].
      assert (N2 : ~ anc s c2 c1) by (intros A; apply all_bases_anc, nmem_In in A; [congruence | assumption]).
      assert (N3 : ~ anc s c1 c2) by (intros A; apply all_bases_anc, nmem_In in A; [congruence | assumption]).
      destruct H1 as [->|A1]; [destruct H2 as [->|A2]; [congruence | contradiction]|].
      destruct H2 as [->|A2]; [contradiction|].
      unfold common_subclass. apply existsb_exists. exists real. split; [now apply subclasses_anc | apply nmem_In; now apply subclasses_anc]. }
    rewrite Hc. cbn [andb]. exists c1. now split.
Qed.

(* without the placeholder status (a loaded object) two unrelated declared types remain a class change error *)
Lemma meet_again_loaded_unrelated : meet_again s_abcd 1 false 2 = None.
Proof. reflexivity. Qed.

(* ------------------------------------------------------------------ reading a reference attribute *)
Lemma attr_get_refines s : valid s = true -> forall cur seed real, family s cur real -> (seed = false -> cur = real) ->
  attr_get_class s true cur seed real = Some real.
Proof.
  intros Hv cur seed real Hf Hns. unfold attr_get_class.
  destruct (subclasses s cur) as [|c0 cs] eqn:Es.
  - f_equal. destruct Hf as [->|Ha]; [reflexivity|]. apply (subclasses_anc s Hv) in Ha. rewrite Es in Ha. contradiction.
  - destruct seed; [now apply refine_exact | now rewrite (Hns eq_refl)].
Qed.

(* the value fetched by attr.load takes the guarded path in the current source *)
Lemma attr_get_source_guarded : attr_get_loaded_value_reaches_guard = true.
Proof. reflexivity. Qed.

Lemma attr_get_loaded_refines s : valid s = true -> forall cur real, family s cur real ->
  attr_get_class s attr_get_loaded_value_reaches_guard cur true real = Some real.
Proof. intros Hv cur real Hf. rewrite attr_get_source_guarded. now apply attr_get_refines. Qed.

Lemma collection_item_refined s : valid s = true -> forall cur real, family s cur real -> collection_item_class s cur real = real.
Proof. intros Hv cur real Hf. unfold collection_item_class. now rewrite (refine_exact s Hv cur real Hf). Qed.

Lemma unpickled_ref_refined s : valid s = true -> forall cur real, family s cur real -> unpickled_ref_class s cur real = real.
Proof. intros Hv cur real Hf. unfold unpickled_ref_class. now rewrite (refine_exact s Hv cur real Hf). Qed.

(* ------------------------------------------------------------------ conditions on subclass attributes in a query over a base class *)
Lemma family_trans s a b c : family s a b -> family s b c -> family s a c.
Proof.
  intros [->|Hab] [->|Hbc]; [now left | now right | now right | right; eapply anc_trans; eauto].
Qed.

Lemma sub_attr_query s : valid s = true -> forall e c k cond, e < length s -> k < length s -> root_of s k = root_of s e ->
  family s e c ->
  (sub_attr_selected s e c k cond = true <-> family s c k /\ cond = true).
Proof.
  intros Hv e c k cond He Hk Hr Hec. unfold sub_attr_selected.
  rewrite !andb_true_iff, (criteria_valid s Hv e k He Hk Hr), <- (family_subclasses s Hv), (issub_family s Hv).
  split.
  - intros [[_ H] Hc]. now split.
  - intros [H Hc]. repeat split; try assumption. eapply family_trans; eauto.
Qed.
