(* C08: lemmas about the converter validation code translated from /repo (Gen/C08Conv.v).
   The generic lemmas are parameterised by the boolean `*_ignored` flags of Model/C08Spec.v, which are computed from the
   translated code itself (does it drop a declared bound equal to 0?): they go through on code with and without the defect.
   For int/float the current /repo is repaired (2abc421): int_flag_false / real_flag_false compute the flags to false and the
   unrestricted theorems follow; for str (`if max_len and ...`) the flag is still true. *)
Require Import PonyV.Base.PyBase PonyV.Model.C08Base PonyV.Gen.C08Conv PonyV.Model.C08Spec PonyV.Proofs.C08IntInit.
From Coq Require Import ZifyBool.
Open Scope Z_scope.

Ltac break_if_in H N :=
  match type of H with
  | context [if ?c then _ else _] => destruct c eqn:N
  end.

Lemma size_okb_iff s : size_okb s = true <-> size_ok s.
Proof. unfold size_okb, size_ok. lia. Qed.

(* which declarations are accepted *)
Lemma int_spec_ok_iff zb uint64 d : (exists c, int_init_spec zb uint64 d = Ok c) <-> decl_ok uint64 d.
Proof.
  destruct d as [s un mn mx]. unfold int_init_spec, decl_ok. red1.
  split.
  - intros [c H].
    break_if_in H C1; [discriminate|]. break_if_in H C2; [discriminate|].
    break_if_in H C3; [discriminate|]. break_if_in H C4; [discriminate|]. clear H.
    destruct s as [s|], un as [[|]|], mn as [m|], mx as [M|]; red1; red1 in C1; red1 in C2; red1 in C3; red1 in C4;
      repeat split; try exact I; try lia;
      try (apply size_okb_iff; destruct (size_okb s); [reflexivity | discriminate]);
      try (intros [E [U1 U2]];
           first [ discriminate E | discriminate U1
                 | injection E as E; subst s uint64; vm_compute in C2; discriminate C2 ]).
  - intros (Hs & H64 & Hlo & Hhi).
    destruct s as [s|], un as [[|]|], mn as [m|], mx as [M|], uint64;
      unfold is_uns, type_lo, type_hi, eff_size in *;
      cbn [d_size d_unsigned d_min d_max gtb_opt negb andb orb] in *;
      try (apply size_okb_iff in Hs; rewrite Hs; cbn [negb]);
      repeat (break_if; cbn [negb andb orb]);
      try (eexists; reflexivity); try (exfalso; lia);
      try (exfalso; apply H64; repeat split; f_equal; lia).
Qed.

Lemma int_decl_ok_iff uint64 d : (exists c, init_of uint64 d = Ok c) <-> decl_ok uint64 d.
Proof. rewrite int_init_eq. apply int_spec_ok_iff. Qed.

(* ------------------------------------------------------------------------------------------ IntConverter.validate *)

Lemma int_validate_cases mn mx v :
  (int_validate mn mx v = Ok v /\ ge_opt mn v /\ le_opt mx v) \/
  (int_validate mn mx v = Err ValueError /\ ~ (ge_opt mn v /\ le_opt mx v)).
Proof.
  unfold int_validate. destruct mn as [m|], mx as [M|]; red1; repeat break_if;
    first [ left; split; [reflexivity | lia] | right; split; [reflexivity | lia] ].
Qed.

Lemma int_validate_ok_iff mn mx v : int_validate mn mx v = Ok v <-> ge_opt mn v /\ le_opt mx v.
Proof.
  destruct (int_validate_cases mn mx v) as [[E H]|[E H]]; rewrite E; split; intros; try assumption; try reflexivity.
  - discriminate.
  - contradiction.
Qed.

(* effective bounds of the closed form vs. the specification *)
Lemma int_spec_bounds zb uint64 d c v :
  int_init_spec zb uint64 d = Ok c -> (zb = true -> ~ zero_bound d) ->
  (ge_opt (ic_min c) v /\ le_opt (ic_max c) v <-> in_bounds d v).
Proof.
  unfold int_init_spec. intros H Hz.
  break_if_in H C1; [discriminate|]. break_if_in H C2; [discriminate|].
  break_if_in H C3; [discriminate|]. break_if_in H C4; [discriminate|].
  injection H as H. subst c. clear C1 C2. unfold in_bounds, zero_bound in *. red1.
  destruct d as [s un mn mx]. red1. red1 in C3. red1 in C4.
  set (lo := type_lo _) in *. set (hi := type_hi _) in *. clearbody lo hi.
  destruct zb.
  - specialize (Hz eq_refl). red1 in Hz.
    destruct mn as [m|], mx as [M|], lo as [l|], hi as [h|]; red1; red1 in C3; red1 in C4;
      repeat (break_if; red1); try lia;
      try (exfalso; apply Hz; first [ right; f_equal; lia | left; split; [f_equal; lia | congruence] ]);
      try (assert (l = 0) by (destruct (Z.eq_dec l 0); [assumption | exfalso; apply Hz; left; split; [f_equal; lia | congruence]]); lia).
  - destruct mn as [m|], mx as [M|], lo as [l|], hi as [h|]; red1; red1 in C3; red1 in C4; lia.
Qed.

Theorem int_accept_except_known uint64 d c v :
  init_of uint64 d = Ok c -> ~ zero_bound d ->
  (int_validate (ic_min c) (ic_max c) v = Ok v <-> in_bounds d v).
Proof.
  intros H Hz. rewrite int_init_eq in H. rewrite int_validate_ok_iff.
  apply (int_spec_bounds _ _ _ _ _ H). intros _. exact Hz.
Qed.

Theorem int_reject_except_known uint64 d c v :
  init_of uint64 d = Ok c -> ~ zero_bound d -> ~ in_bounds d v ->
  int_validate (ic_min c) (ic_max c) v = Err ValueError.
Proof.
  intros H Hz Hn. destruct (int_validate_cases (ic_min c) (ic_max c) v) as [[E Hb]|[E _]]; [|exact E].
  exfalso. apply Hn. apply (int_accept_except_known _ _ _ _ H Hz). exact E.
Qed.

(* the full statement, for a translation that does not drop zero bounds (vacuous while the flag computes to true) *)
Theorem int_accept_full_if_fixed uint64 d c v :
  int_zero_bound_ignored = false -> init_of uint64 d = Ok c ->
  (int_validate (ic_min c) (ic_max c) v = Ok v <-> in_bounds d v).
Proof.
  intros F H. rewrite int_init_eq in H. rewrite int_validate_ok_iff.
  apply (int_spec_bounds _ _ _ _ _ H). intros T. congruence.
Qed.

(* the translation of the current /repo does not drop zero bounds (repaired in /repo commit 2abc421): the flag computes to false *)
Lemma int_flag_false : int_zero_bound_ignored = false.
Proof. vm_compute. reflexivity. Qed.

Theorem int_accept uint64 d c v :
  init_of uint64 d = Ok c -> (int_validate (ic_min c) (ic_max c) v = Ok v <-> in_bounds d v).
Proof. exact (int_accept_full_if_fixed uint64 d c v int_flag_false). Qed.

Theorem int_reject uint64 d c v :
  init_of uint64 d = Ok c -> ~ in_bounds d v -> int_validate (ic_min c) (ic_max c) v = Err ValueError.
Proof.
  intros H Hn. destruct (int_validate_cases (ic_min c) (ic_max c) v) as [[E Hb]|[E _]]; [|exact E].
  exfalso. apply Hn. apply (int_accept _ _ _ _ H). exact E.
Qed.

(* ------------------------------------------------------------------------------ RealConverter / DecimalConverter *)

Ltac num_crush :=
  unfold num_in_bounds, num_ge_opt, num_le_opt, num_zero_bound, not_nan_opt, num_is_zero, num_le, num_ltb, num_truthy in *;
  repeat match goal with
         | x : num |- _ => destruct x as [|[|]|? ?]
         | x : option num |- _ => destruct x as [[|[|]|? ?]|]
         end;
  repeat break_if;
  try (split; intros; try reflexivity; try discriminate; try tauto; try lia; fail);
  try (exfalso; tauto); try (exfalso; lia).

Lemma real_validate_ok_iff_gen mn mx v :
  (real_zero_bound_ignored = true -> ~ num_zero_bound mn mx) ->
  v <> NNan -> not_nan_opt mn -> not_nan_opt mx ->
  (real_validate mn mx v = Ok v <-> num_in_bounds mn mx v).
Proof.
  let f := eval vm_compute in real_zero_bound_ignored in change real_zero_bound_ignored with f.
  intros Hz Hv Hmn Hmx. unfold real_validate.
  destruct v as [|vn|vn vd]; [congruence| |];
  destruct mn as [[|mneg|m md]|]; try contradiction; destruct mx as [[|xneg|x xd]|]; try contradiction;
  unfold num_in_bounds, num_ge_opt, num_le_opt, num_zero_bound, num_is_zero, num_le, num_ltb, num_leb, num_truthy in *;
  repeat match goal with b : bool |- _ => destruct b end;
  repeat break_if;
  try (split; [intros _; try tauto; try lia | intros _; reflexivity]; fail);
  try (split; [intros; discriminate | intros; exfalso; try tauto; try lia]; fail);
  try (split; [intros _ | intros; exfalso]; first [ lia | tauto | (assert (T : true = true) by reflexivity; specialize (Hz T); lia) ]; fail).
Qed.

Theorem real_accept_except_known mn mx v :
  ~ num_zero_bound mn mx -> v <> NNan -> not_nan_opt mn -> not_nan_opt mx ->
  (real_validate mn mx v = Ok v <-> num_in_bounds mn mx v).
Proof. intros Hz. apply real_validate_ok_iff_gen. intros _. exact Hz. Qed.

Theorem real_accept_full_if_fixed mn mx v :
  real_zero_bound_ignored = false -> v <> NNan -> not_nan_opt mn -> not_nan_opt mx ->
  (real_validate mn mx v = Ok v <-> num_in_bounds mn mx v).
Proof. intros F. apply real_validate_ok_iff_gen. intros T. congruence. Qed.

Lemma real_flag_false : real_zero_bound_ignored = false.
Proof. vm_compute. reflexivity. Qed.

Theorem real_accept mn mx v :
  v <> NNan -> not_nan_opt mn -> not_nan_opt mx ->
  (real_validate mn mx v = Ok v <-> num_in_bounds mn mx v).
Proof. exact (real_accept_full_if_fixed mn mx v real_flag_false). Qed.

(* NaN is never within bounds, and (repaired in /repo commit 5df2d83: `not val >= min`) it is refused as soon as a bound is declared *)
Lemma nan_not_in_bounds mn mx : (mn <> None \/ mx <> None) -> ~ num_in_bounds mn mx NNan.
Proof.
  unfold num_in_bounds, num_ge_opt, num_le_opt, num_le. intros [H|H] [A B].
  - destruct mn as [m|]; [|congruence]. destruct m as [|[|]|]; exact A.
  - destruct mx as [m|]; [|congruence]. destruct m as [|[|]|]; exact B.
Qed.

Definition real_nan_accepted : bool := accepts_real (Some (NFin 1 1)) (Some (NFin 2 1)) NNan.
Lemma real_nan_flag_false : real_nan_accepted = false.
Proof. vm_compute. reflexivity. Qed.

(* the full statement for float attributes, NaN included: accepted iff within the declared bounds (NaN: iff no bound is declared) *)
Theorem real_accept_nan mn mx : not_nan_opt mn -> not_nan_opt mx ->
  (real_validate mn mx NNan = Ok NNan <-> num_in_bounds mn mx NNan).
Proof.
  intros Hmn Hmx. unfold real_validate.
  destruct mn as [[|mneg|m md]|]; try contradiction; destruct mx as [[|xneg|x xd]|]; try contradiction;
    unfold num_in_bounds, num_ge_opt, num_le_opt, num_le, num_ltb, num_leb in *;
    repeat match goal with b : bool |- _ => destruct b end;
    repeat break_if; try discriminate;
    split; intros H; try discriminate H; try reflexivity; try tauto; try (destruct H; tauto).
Qed.

Theorem real_accept_all mn mx v : not_nan_opt mn -> not_nan_opt mx ->
  (real_validate mn mx v = Ok v <-> num_in_bounds mn mx v).
Proof.
  intros Hmn Hmx. destruct v as [|vn|vn vd].
  - apply real_accept_nan; assumption.
  - apply real_accept; [discriminate | assumption | assumption].
  - apply real_accept; [discriminate | assumption | assumption].
Qed.

(* DecimalConverter.validate: no defect; the full statement *)
Theorem dec_accept mn mx v :
  v <> NNan -> not_nan_opt mn -> not_nan_opt mx ->
  (dec_validate mn mx v = Ok v <-> num_in_bounds mn mx v).
Proof.
  intros Hv Hmn Hmx. unfold dec_validate.
  destruct v as [|vn|vn vd]; [congruence| |];
  destruct mn as [[|mneg|m md]|]; try contradiction; destruct mx as [[|xneg|x xd]|]; try contradiction;
  unfold num_in_bounds, num_ge_opt, num_le_opt, num_le, num_ltb, num_leb in *;
  repeat match goal with b : bool |- _ => destruct b end;
  repeat break_if;
  try (split; [intros _; try tauto; try lia | intros _; reflexivity]; fail);
  try (split; [intros; discriminate | intros; exfalso; try tauto; try lia]; fail).
Qed.

Theorem dec_reject mn mx v : dec_validate mn mx v <> Ok v -> dec_validate mn mx v = Err ValueError.
Proof. unfold dec_validate. destruct mn, mx; repeat break_if; intros H; first [reflexivity | congruence]. Qed.

Theorem real_reject mn mx v : real_validate mn mx v <> Ok v -> real_validate mn mx v = Err ValueError.
Proof. unfold real_validate. destruct mn, mx; repeat break_if; intros H; first [reflexivity | congruence]. Qed.

(* ------------------------------------------------------------------------------------------------ StrConverter.validate *)

Lemma str_validate_cases a ml s :
  (str_zero_max_len_ignored = true -> ml <> Some 0) ->
  (str_validate a ml s = Ok (str_norm a s) /\ le_opt ml (zlen (str_norm a s))) \/
  (str_validate a ml s = Err ValueError /\ ~ le_opt ml (zlen (str_norm a s))).
Proof.
  let f := eval vm_compute in str_zero_max_len_ignored in change str_zero_max_len_ignored with f.
  intros Hz. unfold str_validate, str_norm. pose proof (Zle_0_nat (length s)). pose proof (Zle_0_nat (length (py_strip s))).
  destruct a, ml as [m|]; red1; unfold zlen in *; repeat break_if;
    first [ left; split; [reflexivity | try exact I; lia]
          | right; split; [reflexivity | lia]
          | exfalso; apply Hz; [reflexivity | f_equal; lia] ].
Qed.

Theorem str_accept_except_known a ml s :
  ml <> Some 0 ->
  (str_validate a ml s = Ok (str_norm a s) <-> le_opt ml (zlen (str_norm a s))).
Proof.
  intros Hz. destruct (str_validate_cases a ml s (fun _ => Hz)) as [[E H]|[E H]]; rewrite E; split; intros; try assumption; try reflexivity.
  - discriminate.
  - contradiction.
Qed.

Theorem str_reject_except_known a ml s :
  ml <> Some 0 -> ~ le_opt ml (zlen (str_norm a s)) -> str_validate a ml s = Err ValueError.
Proof.
  intros Hz Hn. destruct (str_validate_cases a ml s (fun _ => Hz)) as [[E H]|[E H]]; [contradiction | exact E].
Qed.

Theorem str_accept_full_if_fixed a ml s :
  str_zero_max_len_ignored = false ->
  (str_validate a ml s = Ok (str_norm a s) <-> le_opt ml (zlen (str_norm a s))).
Proof.
  intros F. destruct (str_validate_cases a ml s) as [[E H]|[E H]]; [congruence | |]; rewrite E; split; intros; try assumption; try reflexivity.
  - discriminate.
  - contradiction.
Qed.

(* repaired in /repo commit d8f353a (`if max_len is not None and ...`): the flag computes to false *)
Lemma str_flag_false : str_zero_max_len_ignored = false.
Proof. vm_compute. reflexivity. Qed.

Theorem str_accept a ml s : str_validate a ml s = Ok (str_norm a s) <-> le_opt ml (zlen (str_norm a s)).
Proof. exact (str_accept_full_if_fixed a ml s str_flag_false). Qed.

Theorem str_reject a ml s : ~ le_opt ml (zlen (str_norm a s)) -> str_validate a ml s = Err ValueError.
Proof.
  intros Hn. destruct (str_validate_cases a ml s) as [[E H]|[E H]]; [intros T; pose proof str_flag_false; congruence | contradiction | exact E].
Qed.

(* the accepted value is the input or its strip(); nothing else is ever stored *)
Theorem str_validate_value a ml s r : str_validate a ml s = Ok r -> r = str_norm a s.
Proof. unfold str_validate, str_norm. destruct a, ml; repeat break_if; congruence. Qed.

(* the whitespace set is confined to [9, 12288]: the correspondence run compares that whole range with CPython exhaustively *)
Lemma is_space_bounded c : is_space c = true -> 9 <= c <= 12288.
Proof. unfold is_space. lia. Qed.

(* str.strip(): the result is the input without a maximal all-whitespace prefix and suffix *)
Lemma lstrip_decomp s : exists a, s = a ++ lstrip s /\ forallb is_space a = true.
Proof.
  induction s as [|c r IH]; cbn [lstrip].
  - exists []. split; reflexivity.
  - destruct (is_space c) eqn:E.
    + destruct IH as [a [E1 E2]]. exists (c :: a). split; [cbn; congruence | cbn; rewrite E, E2; reflexivity].
    + exists []. split; reflexivity.
Qed.

Lemma lstrip_head s : match lstrip s with c :: _ => is_space c = false | [] => True end.
Proof.
  induction s as [|c r IH]; cbn [lstrip]; [exact I|].
  destruct (is_space c) eqn:E; [exact IH | exact E].
Qed.

Lemma forallb_rev {A} (f : A -> bool) l : forallb f (rev l) = forallb f l.
Proof.
  induction l as [|x l IH]; [reflexivity|]. cbn [rev forallb]. rewrite forallb_app, IH. cbn. destruct (f x), (forallb f l); reflexivity.
Qed.

Lemma lstrip_app_nonspace a c r : is_space c = false -> lstrip (a ++ c :: r) = lstrip a ++ c :: r \/ (forallb is_space a = true /\ lstrip (a ++ c :: r) = c :: r).
Proof.
  intros Hc. induction a as [|x a IH]; cbn.
  - right. split; [reflexivity|]. rewrite Hc. reflexivity.
  - destruct (is_space x) eqn:E.
    + destruct IH as [IH|[IH1 IH2]]; [left; exact IH | right; split; [cbn; rewrite IH1; reflexivity | exact IH2]].
    + left. reflexivity.
Qed.

Theorem py_strip_spec s :
  exists a b, s = a ++ py_strip s ++ b /\ forallb is_space a = true /\ forallb is_space b = true
              /\ match py_strip s with c :: _ => is_space c = false | [] => True end
              /\ match rev (py_strip s) with c :: _ => is_space c = false | [] => True end.
Proof.
  unfold py_strip.
  destruct (lstrip_decomp s) as [a [Ea Sa]].
  destruct (lstrip_decomp (rev (lstrip s))) as [b [Eb Sb]].
  exists a, (rev b). repeat split.
  - rewrite Ea at 1. f_equal. rewrite <- rev_app_distr, <- Eb, rev_involutive. reflexivity.
  - exact Sa.
  - rewrite forallb_rev. exact Sb.
  - pose proof (lstrip_head s) as Hh.
    remember (lstrip s) as t eqn:Et. remember (lstrip (rev t)) as u eqn:Eu.
    assert (E : rev u ++ rev b = t) by (rewrite <- rev_app_distr, <- Eb, rev_involutive; reflexivity).
    destruct (rev u) as [|y ru] eqn:Eru; [exact I|].
    cbn in E. rewrite <- E in Hh. exact Hh.
  - rewrite rev_involutive. exact (lstrip_head (rev (lstrip s))).
Qed.

(* ------------------------------------------------------------------- Attribute.validate / Required.validate (None, '') *)

Definition check_ok {V} (py_check : option (V -> bool)) (v : V) : Prop :=
  match py_check with Some chk => chk v = true | None => True end.

Section Attr.
  Variable V : Type.
  Variable conv : V -> result V.
  Variable py_check : option (V -> bool).
  Variable is_empty : V -> bool.

  (* Optional attribute (is_required = False): None is accepted exactly when the attribute is nullable; any other value
     exactly when the converter accepts it and py_check passes; the stored value is the converter's result *)
  Theorem optional_accepts nullable val r :
    attribute_validate conv py_check nullable false val = Ok r <->
    (val = None /\ nullable = Some true /\ r = None) \/
    (exists v v', val = Some v /\ conv v = Ok v' /\ check_ok py_check v' /\ r = Some v').
  Proof.
    unfold attribute_validate, attr_none, check_ok.
    destruct val as [v|].
    - destruct (conv v) as [v'|c] eqn:Ec.
      + destruct py_check as [chk|].
        * destruct (chk v') eqn:Ek; split.
          -- intros H; injection H as H; subst. right. exists v, v'. auto.
          -- intros [[H _]|(v0 & v1 & E0 & E1 & E2 & E3)]; [discriminate|]. congruence.
          -- discriminate.
          -- intros [[H _]|(v0 & v1 & E0 & E1 & E2 & E3)]; [discriminate|]. congruence.
        * split.
          -- intros H; injection H as H; subst. right. exists v, v'. auto.
          -- intros [[H _]|(v0 & v1 & E0 & E1 & E2 & E3)]; [discriminate|]. congruence.
      + split; [discriminate|]. intros [[H _]|(v0 & v1 & E0 & E1 & _)]; [discriminate|]. congruence.
    - destruct nullable as [[|]|]; cbn.
      + split.
        * intros H; injection H as H; subst r. left. auto.
        * intros [(_ & _ & E)|(v0 & v1 & E0 & _)]; [subst r; reflexivity | discriminate].
      + split; [discriminate|]. intros [(_ & H & _)|(v0 & v1 & E0 & _)]; discriminate.
      + split; [discriminate|]. intros [(_ & H & _)|(v0 & v1 & E0 & _)]; discriminate.
  Qed.

  (* Required attribute without auto/volatile/sql_default: accepted exactly when the value is not None, the converter
     accepts it, py_check passes, and the normalised value is not the empty string *)
  Theorem required_accepts nullable val r :
    required_validate conv py_check is_empty nullable false false false val = Ok r <->
    exists v v', val = Some v /\ conv v = Ok v' /\ check_ok py_check v' /\ is_empty v' = false /\ r = Some v'.
  Proof.
    unfold required_validate, attribute_validate, attr_none, req_validate, check_ok.
    destruct val as [v|].
    - destruct (conv v) as [v'|c] eqn:Ec.
      + destruct py_check as [chk|].
        * destruct (chk v') eqn:Ek; [destruct (is_empty v') eqn:Ee|]; split;
            try discriminate;
            try (intros (v0 & v1 & E0 & E1 & E2 & E3 & E4); congruence).
          intros H; injection H as H; subst. exists v, v'. auto.
        * destruct (is_empty v') eqn:Ee; split;
            try discriminate;
            try (intros (v0 & v1 & E0 & E1 & E2 & E3 & E4); congruence).
          intros H; injection H as H; subst. exists v, v'. auto.
      + split; [discriminate|]. intros (v0 & v1 & E0 & E1 & _). congruence.
    - destruct nullable as [[|]|]; cbn; split; try discriminate; intros (v0 & v1 & E0 & _); discriminate.
  Qed.

  (* rejections are ValueError unless the converter raised something else *)
  Theorem required_rejects nullable val c :
    required_validate conv py_check is_empty nullable false false false val = Err c ->
    c = ValueError \/ exists v, val = Some v /\ conv v = Err c.
  Proof.
    unfold required_validate, attribute_validate, attr_none, req_validate.
    destruct val as [v|].
    - destruct (conv v) as [v'|c'] eqn:Ec.
      + destruct py_check as [chk|]; [destruct (chk v')|]; try destruct (is_empty v'); intros H; try discriminate; injection H as H; subst; left; reflexivity.
      + intros H; injection H as H; subst. right. exists v. auto.
    - destruct nullable as [[|]|]; cbn; intros H; try discriminate; injection H as H; subst; left; reflexivity.
  Qed.

  (* with auto / volatile / sql_default a Required attribute lets None through (the database supplies the value) *)
  Theorem required_none_deferred nullable auto vol sqld :
    required_validate conv py_check is_empty nullable auto vol sqld None = Ok None <-> auto || vol || sqld = true.
  Proof.
    unfold required_validate, attribute_validate, attr_none, req_validate.
    destruct nullable as [[|]|], auto, vol, sqld; cbn; split; intros; try reflexivity; try discriminate.
  Qed.
End Attr.

(* end to end for an int attribute: Required(int, <declaration>, py_check=...) *)
Theorem required_int uint64 d c chk nullable val r :
  init_of uint64 d = Ok c ->
  (required_validate (int_validate (ic_min c) (ic_max c)) chk (fun _ => false) nullable false false false val = Ok r <->
   exists v, val = Some v /\ in_bounds d v /\ check_ok chk v /\ r = Some v).
Proof.
  intros Hc. rewrite required_accepts. split.
  - intros (v & v' & E0 & E1 & E2 & _ & E4).
    destruct (int_validate_cases (ic_min c) (ic_max c) v) as [[E H]|[E H]]; rewrite E in E1; [|discriminate].
    injection E1 as E1. subst v'. exists v. split; [assumption | split; [| split; assumption]].
    apply (int_accept _ _ _ _ Hc). exact E.
  - intros (v & E0 & E1 & E2 & E3). exists v, v. split; [assumption | split; [| split; [assumption | split; [reflexivity | assumption]]]].
    apply (int_accept _ _ _ _ Hc). exact E1.
Qed.

(* ------------------------------------------------------------------------------------------------ assignment: Attribute.__set__ *)
(* Gen/C08Conv.v:attr_set_outcome is produced by scanning Attribute.__set__: only the session/deleted guards may precede
   the call of attr.validate.  Hence an assignment is validated whatever value (valid or not, of whatever type) the object holds. *)
Theorem assign_validates V (validate : V -> result V) held v : attr_set_outcome validate held v = validate v.
Proof. reflexivity. Qed.

Theorem assign_state_independent V (validate : V -> result V) held held' v :
  attr_set_outcome validate held v = attr_set_outcome validate held' v.
Proof. reflexivity. Qed.

Theorem assign_int uint64 d c held v :
  init_of uint64 d = Ok c ->
  (attr_set_outcome (int_validate (ic_min c) (ic_max c)) held v = Ok v <-> in_bounds d v).
Proof. intros H. rewrite assign_validates. apply (int_accept _ _ _ _ H). Qed.

(* ------------------------------------------------------------------------------------------------ declared type *)
(* type_dispatch is the table interpreted from the converters' validate methods on every run (one representative per Python type) *)
Theorem type_accept_sound c t r :
  type_dispatch c t = TyAccept r -> tag_in t (type_allowed c) = true /\ r = type_result c t.
Proof. destruct c; destruct t; vm_compute; intros H; first [discriminate H | injection H as <-; split; reflexivity]. Qed.

Theorem type_core_accepted c t : tag_in t (type_core c) = true -> type_dispatch c t = TyAccept (type_result c t).
Proof. destruct c, t; vm_compute; intros H; first [discriminate H | reflexivity]. Qed.

Theorem type_reject_class c t cls : type_dispatch c t = TyReject cls -> cls = TypeError \/ cls = ValueError.
Proof. destruct c, t; vm_compute; intros H; first [discriminate H | injection H as <-; auto]. Qed.

(* bool attributes take only bool and int (repaired in /repo commit 2d5f552) *)
Lemma bool_flag_false : bool_accepts_any_type = false.
Proof. vm_compute. reflexivity. Qed.

(* ------------------------------------------------------------------------------------------------ Decimal(precision, scale) *)
Theorem dec_init_ok_iff p s : (exists r, dec_init p s = Ok r) <-> 0 < p /\ 0 < s /\ s <= p.
Proof.
  unfold dec_init. destruct (p <=? 0) eqn:E1, (s <=? 0) eqn:E2, (s >? p) eqn:E3; split;
    try (intros [r H]; discriminate H); try (intros H; exfalso; lia); try (intros _; lia); try (intros _; eexists; reflexivity).
Qed.

Theorem dec_init_value p s r : dec_init p s = Ok r -> r = (p, s).
Proof. unfold dec_init. destruct (p <=? 0), (s <=? 0), (s >? p); congruence. Qed.

(* validate does not look at precision/scale at all (dec_validate has no such argument): a value with more digits than declared
   passes whenever it passes the bounds *)
Theorem dec_precision_not_enforced :
  dec_exceeds_precision 5 2 (NFin 123456789 1000) /\ dec_validate None None (NFin 123456789 1000) = Ok (NFin 123456789 1000).
Proof. split; [vm_compute; discriminate | vm_compute; reflexivity]. Qed.

(* ------------------------------------------------------------------------------------------------ every entry point validates *)
Theorem routes_validate V (validate : V -> result V) v :
  create_outcome validate v = validate v /\ set_outcome validate v = validate v /\ get_outcome validate v = validate v
  /\ filter_outcome validate v = validate v.
Proof. repeat split. Qed.

(* a raw key value offered through any number of relationship hops is validated by the innermost key attribute *)
Theorem raw_key_validates V (validate : V -> result V) hops v : raw_key_outcome validate hops v = validate v.
Proof. induction hops as [|h IH]; [reflexivity | exact IH]. Qed.

(* non-vacuity: size=16, min=0, max=300 is accepted as a declaration, accepts 0 and 300, rejects -1 and 301 *)
Example c08_nonvacuous_int :
  exists c, init_of true (mk_int_decl (Some 16) (Some false) (Some 0) (Some 300)) = Ok c
            /\ int_validate (ic_min c) (ic_max c) 0 = Ok 0 /\ int_validate (ic_min c) (ic_max c) 300 = Ok 300
            /\ int_validate (ic_min c) (ic_max c) (-1) = Err ValueError /\ int_validate (ic_min c) (ic_max c) 301 = Err ValueError.
Proof. eexists. repeat split; vm_compute; reflexivity. Qed.
