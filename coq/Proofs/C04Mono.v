(* C04 - the fuel of the model parser only decides whether it answers, never what: more fuel keeps every result.
   With the round trip: no amount of fuel makes the parser read `print st e` as a tree other than e. *)
From Coq Require Import ZArith List Bool Arith Lia.
Import ListNotations.
Require Import PonyV.Model.C04Expr PonyV.Model.C04Parse.

Definition mono_at (f : nat) : Prop :=
  (forall lvl ts r, parse_e f lvl ts = Some r -> parse_e (S f) lvl ts = Some r) /\
  (forall lvl l ts r, climb f lvl l ts = Some r -> climb (S f) lvl l ts = Some r) /\
  (forall k ts r, bool_chain f k ts = Some r -> bool_chain (S f) k ts = Some r) /\
  (forall ts r, cmp_chain f ts = Some r -> cmp_chain (S f) ts = Some r) /\
  (forall ts r, parse_elt f ts = Some r -> parse_elt (S f) ts = Some r) /\
  (forall ts r, parse_elts f ts = Some r -> parse_elts (S f) ts = Some r) /\
  (forall ts r, parse_arg f ts = Some r -> parse_arg (S f) ts = Some r) /\
  (forall ts r, parse_args f ts = Some r -> parse_args (S f) ts = Some r) /\
  (forall ts r, parse_sitem f ts = Some r -> parse_sitem (S f) ts = Some r) /\
  (forall ts r, parse_sitems f ts = Some r -> parse_sitems (S f) ts = Some r) /\
  (forall ts r, parse_index f ts = Some r -> parse_index (S f) ts = Some r) /\
  (forall ts r, parse_fparts f ts = Some r -> parse_fparts (S f) ts = Some r).

Ltac use_ih IH g Heqg :=
  match goal with
  | E : parse_e _ _ _ = Some _ |- _ => apply (proj1 IH) in E; rewrite <- Heqg in E; rewrite E; clear E
  | E : climb _ _ _ _ = Some _ |- _ => apply (proj1 (proj2 IH)) in E; rewrite <- Heqg in E; rewrite E; clear E
  | E : bool_chain _ _ _ = Some _ |- _ => apply (proj1 (proj2 (proj2 IH))) in E; rewrite <- Heqg in E; rewrite E; clear E
  | E : cmp_chain _ _ = Some _ |- _ => apply (proj1 (proj2 (proj2 (proj2 IH)))) in E; rewrite <- Heqg in E; rewrite E; clear E
  | E : parse_elt _ _ = Some _ |- _ => apply (proj1 (proj2 (proj2 (proj2 (proj2 IH))))) in E; rewrite <- Heqg in E; rewrite E; clear E
  | E : parse_elts _ _ = Some _ |- _ => apply (proj1 (proj2 (proj2 (proj2 (proj2 (proj2 IH)))))) in E; rewrite <- Heqg in E; rewrite E; clear E
  | E : parse_arg _ _ = Some _ |- _ => apply (proj1 (proj2 (proj2 (proj2 (proj2 (proj2 (proj2 IH))))))) in E; rewrite <- Heqg in E; rewrite E; clear E
  | E : parse_args _ _ = Some _ |- _ => apply (proj1 (proj2 (proj2 (proj2 (proj2 (proj2 (proj2 (proj2 IH)))))))) in E; rewrite <- Heqg in E; rewrite E; clear E
  | E : parse_sitem _ _ = Some _ |- _ => apply (proj1 (proj2 (proj2 (proj2 (proj2 (proj2 (proj2 (proj2 (proj2 IH))))))))) in E; rewrite <- Heqg in E; rewrite E; clear E
  | E : parse_sitems _ _ = Some _ |- _ => apply (proj1 (proj2 (proj2 (proj2 (proj2 (proj2 (proj2 (proj2 (proj2 (proj2 IH)))))))))) in E; rewrite <- Heqg in E; rewrite E; clear E
  | E : parse_index _ _ = Some _ |- _ => apply (proj1 (proj2 (proj2 (proj2 (proj2 (proj2 (proj2 (proj2 (proj2 (proj2 (proj2 IH))))))))))) in E; rewrite <- Heqg in E; rewrite E; clear E
  | E : parse_fparts _ _ = Some _ |- _ => apply (proj2 (proj2 (proj2 (proj2 (proj2 (proj2 (proj2 (proj2 (proj2 (proj2 (proj2 IH))))))))))) in E; rewrite <- Heqg in E; rewrite E; clear E
  end.

Ltac step IH g Heqg :=
  match goal with
  | H : match ?x with _ => _ end = Some _ |- _ => destruct x eqn:?; try discriminate H; try use_ih IH g Heqg
  | H : (if ?x then _ else _) = Some _ |- _ => destruct x eqn:?; try discriminate H
  end.

Ltac finish IH g Heqg := repeat step IH g Heqg; try reflexivity; try assumption; try (use_ih IH g Heqg; reflexivity).


(* one-step unfoldings (checked once by conversion; the case analyses below then work on small terms) *)
Lemma parse_elt_eq : forall f ts, parse_elt (S f) ts =
  match ts with
  | TStar :: r => match parse_e f (req KStarElt 0) r with Some (v, r') => Some (Node (LOp KStarElt) [v], r') | None => None end
  | _ => parse_e f (req KTuple 0) ts
  end.
Proof. reflexivity. Qed.

Lemma parse_arg_eq : forall f ts, parse_arg (S f) ts =
  match ts with
  | TStar :: r => match parse_e f (req KStarArg 0) r with Some (v, r') => Some (Node (LOp KStarArg) [v], r') | None => None end
  | TDStar :: r => match parse_e f (req KKeyword 0) r with Some (v, r') => Some (Node (LKeyword None) [v], r') | None => None end
  | TKw n :: r => match parse_e f (req KKeyword 0) r with Some (v, r') => Some (Node (LKeyword (Some n)) [v], r') | None => None end
  | _ => parse_e f (req KCall 1) ts
  end.
Proof. reflexivity. Qed.

Lemma parse_args_eq : forall f ts, parse_args (S f) ts =
  match ts with
  | TRP :: r => Some ([], r)
  | _ =>
      match parse_arg f ts with
      | Some (a, TRP :: r) => Some ([a], r)
      | Some (a, TComma :: r1) => match parse_args f r1 with Some (more, r) => Some (a :: more, r) | None => None end
      | _ => None
      end
  end.
Proof. reflexivity. Qed.

Lemma parse_sitem_eq : forall f ts, parse_sitem (S f) ts =
  match ts with
  | TColon :: r => slice_after_lower (parse_e f) None r
  | _ =>
      match parse_e f (req KSubscript 1) ts with
      | Some (a, TColon :: r) => slice_after_lower (parse_e f) (Some a) r
      | Some (a, r) => Some (a, r)
      | None => None
      end
  end.
Proof. reflexivity. Qed.

Ltac by_eq lem IH f :=
  intros; match goal with H : _ = Some ?r |- _ = Some ?r =>
    rewrite lem in H; rewrite lem; remember (S f) as g eqn:Heqg in |- *;
    unfold slice_after_lower, slice_after_upper in *; finish IH g Heqg end.

Lemma mono_parse_e : forall f, mono_at f -> forall lvl ts r, parse_e (S f) lvl ts = Some r -> parse_e (S (S f)) lvl ts = Some r.
Proof.
  intros f IH. intros. match goal with H : _ = Some ?r |- _ = Some ?r =>
         remember (S f) as g eqn:Heqg; rewrite Heqg in H; simpl in H; simpl; unfold slice_after_lower, slice_after_upper in *;
         finish IH g Heqg end.
Qed.

Lemma mono_climb : forall f, mono_at f -> forall lvl l ts r, climb (S f) lvl l ts = Some r -> climb (S (S f)) lvl l ts = Some r.
Proof.
  intros f IH. intros. match goal with H : _ = Some ?r |- _ = Some ?r =>
         remember (S f) as g eqn:Heqg; rewrite Heqg in H; simpl in H; simpl; unfold slice_after_lower, slice_after_upper in *;
         finish IH g Heqg end.
Qed.

Lemma mono_bool_chain : forall f, mono_at f -> forall k ts r, bool_chain (S f) k ts = Some r -> bool_chain (S (S f)) k ts = Some r.
Proof.
  intros f IH. intros. match goal with H : _ = Some ?r |- _ = Some ?r =>
         remember (S f) as g eqn:Heqg; rewrite Heqg in H; simpl in H; simpl; unfold slice_after_lower, slice_after_upper in *;
         finish IH g Heqg end.
Qed.

Lemma mono_cmp_chain : forall f, mono_at f -> forall ts r, cmp_chain (S f) ts = Some r -> cmp_chain (S (S f)) ts = Some r.
Proof.
  intros f IH. intros. match goal with H : _ = Some ?r |- _ = Some ?r =>
         remember (S f) as g eqn:Heqg; rewrite Heqg in H; simpl in H; simpl; unfold slice_after_lower, slice_after_upper in *;
         finish IH g Heqg end.
Qed.

Lemma mono_parse_elt : forall f, mono_at f -> forall ts r, parse_elt (S f) ts = Some r -> parse_elt (S (S f)) ts = Some r.
Proof.
  intros f IH. by_eq parse_elt_eq IH f.
Qed.

Lemma mono_parse_elts : forall f, mono_at f -> forall ts r, parse_elts (S f) ts = Some r -> parse_elts (S (S f)) ts = Some r.
Proof.
  intros f IH. intros. match goal with H : _ = Some ?r |- _ = Some ?r =>
         remember (S f) as g eqn:Heqg; rewrite Heqg in H; simpl in H; simpl; unfold slice_after_lower, slice_after_upper in *;
         finish IH g Heqg end.
Qed.

Lemma mono_parse_arg : forall f, mono_at f -> forall ts r, parse_arg (S f) ts = Some r -> parse_arg (S (S f)) ts = Some r.
Proof.
  intros f IH. by_eq parse_arg_eq IH f.
Qed.

Lemma mono_parse_args : forall f, mono_at f -> forall ts r, parse_args (S f) ts = Some r -> parse_args (S (S f)) ts = Some r.
Proof.
  intros f IH. by_eq parse_args_eq IH f.
Qed.

Lemma mono_parse_sitem : forall f, mono_at f -> forall ts r, parse_sitem (S f) ts = Some r -> parse_sitem (S (S f)) ts = Some r.
Proof.
  intros f IH. by_eq parse_sitem_eq IH f.
Qed.

Lemma mono_parse_sitems : forall f, mono_at f -> forall ts r, parse_sitems (S f) ts = Some r -> parse_sitems (S (S f)) ts = Some r.
Proof.
  intros f IH. intros. match goal with H : _ = Some ?r |- _ = Some ?r =>
         remember (S f) as g eqn:Heqg; rewrite Heqg in H; simpl in H; simpl; unfold slice_after_lower, slice_after_upper in *;
         finish IH g Heqg end.
Qed.

Lemma mono_parse_index : forall f, mono_at f -> forall ts r, parse_index (S f) ts = Some r -> parse_index (S (S f)) ts = Some r.
Proof.
  intros f IH. intros. match goal with H : _ = Some ?r |- _ = Some ?r =>
         remember (S f) as g eqn:Heqg; rewrite Heqg in H; simpl in H; simpl; unfold slice_after_lower, slice_after_upper in *;
         finish IH g Heqg end.
Qed.

Lemma mono_parse_fparts : forall f, mono_at f -> forall ts r, parse_fparts (S f) ts = Some r -> parse_fparts (S (S f)) ts = Some r.
Proof.
  intros f IH. intros. match goal with H : _ = Some ?r |- _ = Some ?r =>
         remember (S f) as g eqn:Heqg; rewrite Heqg in H; simpl in H; simpl; unfold slice_after_lower, slice_after_upper in *;
         finish IH g Heqg end.
Qed.

Lemma mono_step : forall f, mono_at f -> mono_at (S f).
Proof.
  intros f IH. unfold mono_at.
  split; [apply mono_parse_e; exact IH|]. split; [apply mono_climb; exact IH|]. split; [apply mono_bool_chain; exact IH|].
  split; [apply mono_cmp_chain; exact IH|]. split; [apply mono_parse_elt; exact IH|]. split; [apply mono_parse_elts; exact IH|].
  split; [apply mono_parse_arg; exact IH|]. split; [apply mono_parse_args; exact IH|]. split; [apply mono_parse_sitem; exact IH|].
  split; [apply mono_parse_sitems; exact IH|]. split; [apply mono_parse_index; exact IH|]. apply mono_parse_fparts; exact IH.
Qed.

Lemma mono_all : forall f, mono_at f.
Proof.
  induction f as [|f IH]; [|apply mono_step; exact IH].
  unfold mono_at. repeat split; intros; discriminate.
Qed.

Lemma parse_e_mono : forall f f' lvl ts r, f <= f' -> parse_e f lvl ts = Some r -> parse_e f' lvl ts = Some r.
Proof.
  intros f f' lvl ts r Hle H. induction Hle as [|m Hle IH]; [exact H|]. apply (proj1 (mono_all m)). exact IH.
Qed.

Require Import PonyV.Proofs.C04Parse.

Theorem roundtrip_unique : forall st e, good st e = true -> expr_kindb (ekind e) = true ->
  forall f e', parse_top f (print st e) = Some e' -> e' = e.
Proof.
  intros st e Hg Hk f e' H. destruct (print_parse_roundtrip st e Hg Hk) as [n Hn].
  specialize (Hn (Nat.max f n) ltac:(lia)). unfold parse_top in *.
  destruct (parse_e f 0 (print st e)) as [[a [|t r]]|] eqn:E; try discriminate H. injection H as ->.
  rewrite (parse_e_mono f (Nat.max f n) 0 _ _ ltac:(lia) E) in Hn. injection Hn as ->. reflexivity.
Qed.

