(* C04 - the fuel of the model parser only decides whether it answers, never what: more fuel keeps every result.
   With the round trip: no amount of fuel makes the parser read `print st e` as a tree other than e. *)
From Coq Require Import ZArith List Bool Arith Lia.
Import ListNotations.
Require Import PonyV.Model.C04Expr PonyV.Model.C04Parse.

Definition mono_at (f : nat) : Prop :=
  (forall lvl ts r, parse_e f lvl ts = Some r -> parse_e (S f) lvl ts = Some r) /\
  (forall lvl l ts r, climb f lvl l ts = Some r -> climb (S f) lvl l ts = Some r) /\
  (forall k ts r, bool_chain f k ts = Some r -> bool_chain (S f) k ts = Some r) /\
  (forall ts r, cmp_chain f ts = Some r -> cmp_chain (S f) ts = Some r) /\
  (forall ts r, parse_elt f ts = Some r -> parse_elt (S f) ts = Some r) /\
  (forall ts r, parse_elts f ts = Some r -> parse_elts (S f) ts = Some r) /\
  (forall ts r, parse_arg f ts = Some r -> parse_arg (S f) ts = Some r) /\
  (forall ts r, parse_args f ts = Some r -> parse_args (S f) ts = Some r) /\
  (forall ts r, parse_sitem f ts = Some r -> parse_sitem (S f) ts = Some r) /\
  (forall ts r, parse_sitems f ts = Some r -> parse_sitems (S f) ts = Some r) /\
  (forall ts r, parse_index f ts = Some r -> parse_index (S f) ts = Some r) /\
  (forall ts r, parse_fparts f ts = Some r -> parse_fparts (S f) ts = Some r).

Ltac use_ih IH g Heqg :=
  match goal with
  | E : parse_e _ _ _ = Some _ |- _ => apply (proj1 IH) in E; rewrite <- Heqg in E; rewrite E; clear E
  | E : climb _ _ _ _ = Some _ |- _ => apply (proj1 (proj2 IH)) in E; rewrite <- Heqg in E; rewrite E; clear E
  | E : bool_chain _ _ _ = Some _ |- _ => apply (proj1 (proj2 (proj2 IH))) in E; rewrite <- Heqg in E; rewrite E; clear E
  | E : cmp_chain _ _ = Some _ |- _ => apply (proj1 (proj2 (proj2 (proj2 IH)))) in E; rewrite <- Heqg in E; rewrite E; clear E
  | E : parse_elt _ _ = Some _ |- _ => apply (proj1 (proj2 (proj2 (proj2 (proj2 IH))))) in E; rewrite <- Heqg in E; rewrite E; clear E
  | E : parse_elts _ _ = Some _ |- _ => apply (proj1 (proj2 (proj2 (proj2 (proj2 (proj2 IH)))))) in E; rewrite <- Heqg in E; rewrite E; clear E
  | E : parse_arg _ _ = Some _ |- _ => apply (proj1 (proj2 (proj2 (proj2 (proj2 (proj2 (proj2 IH))))))) in E; rewrite <- Heqg in E; rewrite E; clear E
  | E : parse_args _ _ = Some _ |- _ => apply (proj1 (proj2 (proj2 (proj2 (proj2 (proj2 (proj2 (proj2 IH)))))))) in E; rewrite <- Heqg in E; rewrite E; clear E
  | E : parse_sitem _ _ = Some _ |- _ => apply (proj1 (proj2 (proj2 (proj2 (proj2 (proj2 (proj2 (proj2 (proj2 IH))))))))) in E; rewrite <- Heqg in E; rewrite E; clear E
  | E : parse_sitems _ _ = Some _ |- _ => apply (proj1 (proj2 (proj2 (proj2 (proj2 (proj2 (proj2 (proj2 (proj2 (proj2 IH)))))))))) in E; rewrite <- Heqg in E; rewrite E; clear E
  | E : parse_index _ _ = Some _ |- _ => apply (proj1 (proj2 (proj2 (proj2 (proj2 (proj2 (proj2 (proj2 (proj2 (proj2 (proj2 IH))))))))))) in E; rewrite <- Heqg in E; rewrite E; clear E
  | E : parse_fparts _ _ = Some _ |- _ => apply (proj2 (proj2 (proj2 (proj2 (proj2 (proj2 (proj2 (proj2 (proj2 (proj2 (proj2 IH))))))))))) in E; rewrite <- Heqg in E; rewrite E; clear E
  end.

Ltac step IH g Heqg :=
  match goal with
  | H : match ?x with _ => _ end = Some _ |- _ => destruct x eqn:?; try discriminate H; try use_ih IH g Heqg
  | H : (if ?x then _ else _) = Some _ |- _ => destruct x eqn:?; try discriminate H
  end.

Ltac finish IH g Heqg := repeat step IH g Heqg; try reflexivity; try assumption; try (use_ih IH g Heqg; reflexivity).

Lemma mono_step : forall f, mono_at f -> mono_at (S f).
Proof.
  intros f IH. unfold mono_at.
  repeat split; intros.
  all: match goal with H : _ = Some ?r |- _ = Some ?r => 
         remember (S f) as g eqn:Heqg; rewrite Heqg in H; simpl in H; simpl; unfold slice_after_lower, slice_after_upper in *;
         finish IH g Heqg end.
Qed.

Lemma mono_all : forall f, mono_at f.
Proof.
  induction f as [|f IH]; [|apply mono_step; exact IH].
  unfold mono_at. repeat split; intros; discriminate.
Qed.

Lemma parse_e_mono : forall f f' lvl ts r, f <= f' -> parse_e f lvl ts = Some r -> parse_e f' lvl ts = Some r.
Proof.
  intros f f' lvl ts r Hle H. induction Hle as [|m Hle IH]; [exact H|]. apply (proj1 (mono_all m)). exact IH.
Qed.

Require Import PonyV.Proofs.C04Parse.

Theorem roundtrip_unique : forall st e, good st e = true -> expr_kindb (ekind e) = true ->
  forall f e', parse_top f (print st e) = Some e' -> e' = e.
Proof.
  intros st e Hg Hk f e' H. destruct (print_parse_roundtrip st e Hg Hk) as [n Hn].
  specialize (Hn (Nat.max f n) ltac:(lia)). unfold parse_top in *.
  destruct (parse_e f 0 (print st e)) as [[a [|t r]]|] eqn:E; try discriminate H. injection H as ->.
  rewrite (parse_e_mono f (Nat.max f n) 0 _ _ ltac:(lia) E) in Hn. injection Hn as ->. reflexivity.
Qed.

