(* C18 - lemmas about one attempt with faulty predicates / failing rollback (Model/C18Faults.v). *)
From Coq Require Import List Bool Arith.
Import ListNotations.
Require Import PonyV.Model.C18Session PonyV.Model.C18Faults.
#[local] Open Scope list_scope.

Section FaultProofs.
Variable exc : Type.
Variable cfail rbfail : exc.

Notation attempt_f := (attempt_f exc cfail rbfail).
Notation with_f := (with_f exc cfail rbfail).
Notation leaf := (leaf exc).

Definition is_yes (a : pres exc) : bool := match a with PYes => true | _ => false end.

Ltac fin := repeat (split || intro); try reflexivity; try discriminate; auto.

(* the decorated function's attempt: whatever the predicates and rollback() do -
   the session ends closed with nothing pending;
   the attempt's write is committed (b) only if the body finished or raised an exception the allowed-predicate accepted;
   if the body finished and its commit worked it IS committed and the call returns normally;
   a failure (of the body, of the commit, of a predicate, of rollback) is never turned into a normal return;
   the loop goes on to another attempt only if the retry predicate said yes and rollback() worked, and then nothing was committed *)
Theorem attempt_f_safe : forall allowed retryable rb_ok i p o c t,
  let r := attempt_f allowed retryable rb_ok (leaf i p o) (mkst 0 [] c t) in
  depth (fst r) = 0 /\ pend (fst r) = []
  /\ exists b : bool,
       comm (fst r) = c ++ (if b then [i] else [])
       /\ (b = true -> p = false /\ (o = Ok \/ is_yes allowed = true))
       /\ (o = Ok -> p = false -> b = true /\ snd r = ADone Ok)
       /\ (snd r = ADone Ok -> o = Ok /\ p = false)
       /\ (snd r = ARetry -> is_yes retryable = true /\ rb_ok = true /\ b = false).
Proof.
  intros allowed retryable rb_ok i p o c t.
  destruct o as [|e]; destruct p; destruct retryable as [| |e2]; destruct allowed as [| |e3]; destruct rb_ok; vm_compute;
    (split; [reflexivity|split; [reflexivity|]]);
    first [exists true; split; [first [reflexivity|apply app_nil_r]|fin; fail] | exists false; split; [first [reflexivity|apply app_nil_r|symmetry; apply app_nil_r]|fin; fail]].
Qed.

(* the retry predicate raises: no further attempt; the body's own exception still decides commit or rollback; the predicate's
   exception is what the caller sees *)
Theorem attempt_f_retry_predicate_raises : forall allowed rb_ok i e e2 c t,
  (forall e3, allowed <> PRaises e3) ->
  let r := attempt_f allowed (PRaises e2) rb_ok (leaf i false (Raise e)) (mkst 0 [] c t) in
  snd r = ADone (Raise e2) /\ comm (fst r) = c ++ (if is_yes allowed then [i] else []).
Proof.
  intros allowed rb_ok i e e2 c t Hna.
  destruct allowed as [| |e3]; [| |exfalso; apply (Hna e3); reflexivity]; destruct rb_ok; vm_compute; split; first [reflexivity|apply app_nil_r|symmetry; apply app_nil_r].
Qed.

(* the allowed predicate raises: rolled back, and its exception replaces the body's *)
Theorem attempt_f_allowed_predicate_raises : forall rb_ok i e e3 c t,
  let r := attempt_f (PRaises e3) PNo rb_ok (leaf i false (Raise e)) (mkst 0 [] c t) in
  snd r = ADone (Raise e3) /\ comm (fst r) = c ++ [].
Proof. intros rb_ok i e e3 c t. destruct rb_ok; vm_compute; split; first [reflexivity|apply app_nil_r|symmetry; apply app_nil_r]. Qed.

(* rollback() raises while preparing a retry: no further attempt, nothing committed, RollbackException reaches the caller *)
Theorem attempt_f_rollback_fails : forall allowed i e c t,
  (forall e3, allowed <> PRaises e3) ->
  let r := attempt_f allowed PYes false (leaf i false (Raise e)) (mkst 0 [] c t) in
  snd r = ADone (Raise rbfail) /\ comm (fst r) = c ++ [].
Proof.
  intros allowed i e c t Hna.
  destruct allowed as [| |e3]; [| |exfalso; apply (Hna e3); reflexivity]; vm_compute; split; first [reflexivity|apply app_nil_r|symmetry; apply app_nil_r].
Qed.

(* context manager with a faulty allowed-predicate / rollback *)
Theorem with_f_spec : forall allowed rb_ok i p o c t,
  let r := with_f allowed rb_ok (leaf i p o) (mkst 0 [] c t) in
  depth (fst r) = 0 /\ pend (fst r) = []
  /\ comm (fst r) = c ++ (if negb p && match o with Ok => true | Raise _ => is_yes allowed end then [i] else [])
  /\ snd r = match o with
             | Ok => if p then Raise cfail else Ok
             | Raise e => match allowed with
                          | PYes => if p then Raise cfail else Raise e
                          | PNo => Raise e                      (* a failing rollback() is swallowed: the body's exception goes on *)
                          | PRaises e3 => Raise e3
                          end
             end.
Proof.
  intros allowed rb_ok i p o c t.
  destruct o as [|e]; destruct p; destruct allowed as [| |e3]; destruct rb_ok; vm_compute; repeat split; first [reflexivity|apply app_nil_r|symmetry; apply app_nil_r].
Qed.

End FaultProofs.
