(* C33 - lemmas: invariants of the flush rounds (per-object phase automaton over the event log). *)
Require Import PonyV.Base.PyBase PonyV.Model.C33Flush.
From Coq Require Import Arith Lia.
Open Scope nat_scope.

Definition pend (s : state) (o : nat) : option kind := pending_kind (o_status (objs s o)).

Record wf (s : state) : Prop := mkwf {
  wf_nodup : NoDup (ots s);
  wf_ots : forall o, In o (ots s) <-> pend s o <> None;
  wf_next : forall o, next s <= o -> objs s o = no_obj;
  wf_mod : forall o, pend s o <> None -> modified s = true;
  wf_clean : forall o, clean (o_status (objs s o)) = true -> o_dbval (objs s o) = Some (o_val (objs s o))
}.

(* ------------------------------------------------------------------ phase automaton *)

Lemma phase_snoc : forall l e o, phase (l ++ [e]) o = step o (phase l o) e.
Proof. intros. unfold phase. rewrite fold_left_app. reflexivity. Qed.

Lemma step_other : forall o p e, (match e with EB _ x | ES _ x | EA _ x => x end) <> o -> step o p e = p.
Proof.
  intros o p e H. destruct e; cbn in *; destruct (Nat.eqb o0 o) eqn:E; auto; apply Nat.eqb_eq in E; contradiction.
Qed.

Lemma kind_eqb_refl : forall k, kind_eqb k k = true.
Proof. destruct k; reflexivity. Qed.

(* ------------------------------------------------------------------ hook actions: extension relation *)

Record ext (s s' : state) : Prop := mkext {
  ext_log : log s' = log s;
  ext_saved : saved s' = saved s;
  ext_ots : exists new, ots s' = ots s ++ new;
  ext_pend : forall o k, pend s o = Some k -> pend s' o = Some k;
  ext_wf : wf s'
}.

Lemma ext_refl : forall s, wf s -> ext s s.
Proof. intros; constructor; auto. exists []; rewrite app_nil_r; auto. Qed.

Lemma ext_trans : forall a b c, ext a b -> ext b c -> ext a c.
Proof.
  intros a b c [l1 s1 [n1 o1] p1 w1] [l2 s2 [n2 o2] p2 w2]. constructor.
  - congruence.
  - congruence.
  - exists (n1 ++ n2). rewrite o2, o1, app_assoc. reflexivity.
  - auto.
  - auto.
Qed.

Lemma upd_same : forall f o x, upd f o x o = x.
Proof. intros; unfold upd; rewrite Nat.eqb_refl; reflexivity. Qed.
Lemma upd_other : forall f o x i, i <> o -> upd f o x i = f i.
Proof. intros; unfold upd. destruct (Nat.eqb i o) eqn:E; auto. apply Nat.eqb_eq in E; contradiction. Qed.

Lemma clean_not_pending : forall st, clean st = true -> pending_kind st = None.
Proof. destruct st; cbn; auto; discriminate. Qed.

Lemma nodup_snoc : forall (l : list nat) x, NoDup l -> ~ In x l -> NoDup (l ++ [x]).
Proof.
  induction l as [|a l IH]; intros x Hn Hi; cbn.
  - constructor; [intros []|constructor].
  - inversion Hn; subst. constructor.
    + rewrite in_app_iff. intros [H|[H|[]]]; [contradiction | subst; apply Hi; left; reflexivity].
    + apply IH; auto. intros H; apply Hi; right; auto.
Qed.

(* an in-place change of a pending object: status kept *)
Lemma modify_pending_ext : forall s o,
  wf s -> pend s o <> None ->
  ext s (mkst (upd (objs s) o (mkobj (o_status (objs s o)) (S (o_val (objs s o))) (o_dbval (objs s o)) (o_princ (objs s o))))
              (next s) (ots s) (saved s) (modified s) (log s)).
Proof.
  intros s o [Hnd Hots Hnext Hmod Hcl] Hp. constructor; cbn; auto.
  - exists []; rewrite app_nil_r; reflexivity.
  - intros x k. unfold pend; cbn. destruct (Nat.eq_dec x o) as [->|Hne]; [rewrite upd_same; cbn; auto | rewrite upd_other; auto].
  - constructor; cbn; auto.
    + intros x. rewrite Hots. unfold pend; cbn. destruct (Nat.eq_dec x o) as [->|Hne]; [rewrite upd_same; cbn; tauto | rewrite upd_other; tauto].
    + intros x Hx. destruct (Nat.eq_dec x o) as [->|Hne]; [|rewrite upd_other; auto].
      exfalso. apply Hp. unfold pend. rewrite (Hnext o Hx). reflexivity.
    + intros x. unfold pend; cbn. destruct (Nat.eq_dec x o) as [->|Hne]; [rewrite upd_same; cbn; intros _; apply (Hmod o); auto | rewrite upd_other; auto; apply Hmod].
    + intros x. destruct (Nat.eq_dec x o) as [->|Hne]; [rewrite upd_same; cbn|rewrite upd_other; auto].
      intros Hc. exfalso. apply Hp. unfold pend. apply clean_not_pending; auto.
Qed.

Lemma apply_action_ext : forall s a, wf s -> ext s (apply_action s a).
Proof.
  intros s a Hwf. destruct a as [o|ps]; cbn.
  - (* AModify *)
    destruct (clean (o_status (objs s o))) eqn:Hc.
    + destruct Hwf as [Hnd Hots Hnext Hmod Hcl].
      assert (Hnp : pend s o = None) by (apply clean_not_pending; auto).
      assert (Hni : ~ In o (ots s)) by (rewrite Hots; intros H; apply H; exact Hnp).
      constructor; cbn; auto.
      * exists [o]; reflexivity.
      * intros x k Hp. unfold pend in *; cbn. destruct (Nat.eq_dec x o) as [->|Hne].
        -- rewrite Hnp in Hp. discriminate.
        -- rewrite upd_other; auto.
      * constructor; cbn.
        -- apply nodup_snoc; auto.
        -- intros x. unfold pend; cbn. rewrite in_app_iff. destruct (Nat.eq_dec x o) as [->|Hne].
           ++ rewrite upd_same; cbn. split; [discriminate | intros _; right; left; reflexivity].
           ++ rewrite upd_other; auto. rewrite Hots. unfold pend. split; [intros [H|[H|[]]]; [auto | congruence] | intros H; left; auto].
        -- intros x Hx. destruct (Nat.eq_dec x o) as [->|Hne].
           ++ rewrite (Hnext o Hx) in Hc. discriminate.
           ++ rewrite upd_other; auto.
        -- reflexivity.
        -- intros x. destruct (Nat.eq_dec x o) as [->|Hne]; [rewrite upd_same; cbn; discriminate | rewrite upd_other; auto].
    + destruct (o_status (objs s o)) eqn:Hs; try (apply ext_refl; assumption).
      * pose proof (modify_pending_ext s o Hwf) as H. rewrite Hs in H. apply H. unfold pend; rewrite Hs; discriminate.
      * pose proof (modify_pending_ext s o Hwf) as H. rewrite Hs in H. apply H. unfold pend; rewrite Hs; discriminate.
  - (* ACreate *)
    destruct Hwf as [Hnd Hots Hnext Hmod Hcl].
    assert (Hfresh : objs s (next s) = no_obj) by (apply Hnext; lia).
    assert (Hni : ~ In (next s) (ots s)) by (rewrite Hots; unfold pend; rewrite Hfresh; cbn; auto).
    constructor; cbn; auto.
    + exists [next s]; reflexivity.
    + intros x k Hp. unfold pend in *; cbn. destruct (Nat.eq_dec x (next s)) as [->|Hne]; [|rewrite upd_other; auto].
      rewrite Hfresh in Hp; discriminate.
    + constructor; cbn.
      * apply nodup_snoc; auto.
      * intros x. unfold pend; cbn. rewrite in_app_iff. destruct (Nat.eq_dec x (next s)) as [->|Hne].
        -- rewrite upd_same; cbn. split; [discriminate | intros _; right; left; reflexivity].
        -- rewrite upd_other; auto. rewrite Hots. unfold pend. split; [intros [H|[H|[]]]; [auto | congruence] | intros H; left; auto].
      * intros x Hx. rewrite upd_other; [apply Hnext|]; lia.
      * reflexivity.
      * intros x. destruct (Nat.eq_dec x (next s)) as [->|Hne]; [rewrite upd_same; cbn; discriminate | rewrite upd_other; auto].
Qed.

Lemma actions_ext : forall l s, wf s -> ext s (fold_left apply_action l s).
Proof.
  induction l as [|a l IH]; intros s Hwf; cbn.
  - apply ext_refl; auto.
  - pose proof (apply_action_ext s a Hwf) as H1. eapply ext_trans; [exact H1|]. apply IH. apply H1.
Qed.

Lemma add_log_wf : forall e s, wf s -> wf (add_log e s).
Proof. intros e s [A B C D E]. constructor; cbn; auto. Qed.

Lemma skipn_app_exact : forall (A : Type) (l m : list A), skipn (length l) (l ++ m) = m.
Proof. induction l; cbn; auto. Qed.

Lemma pend_some_or_none : forall s o, pend s o = None \/ exists k, pend s o = Some k.
Proof. intros. destruct (pend s o); eauto. Qed.

Section WithHooks.
  Variable hooks : bool -> kind -> nat -> state -> list action.

  Lemma run_hook_ext : forall b k o s, wf s -> ext s (run_hook hooks b k o s).
  Proof. intros. unfold run_hook. apply actions_ext; auto. Qed.

  (* ---------------------------------------------------------------- phase 1: before hooks over the growing list *)
  Definition P1 (done todo : list nat) (s : state) : Prop :=
    wf s /\ ots s = done ++ todo /\ saved s = [] /\
    (forall o k, In o done -> pend s o = Some k -> phase (log s) o = PB k) /\
    (forall o, ~ In o done -> phase (log s) o = Idle).

  Lemma before_loop_inv : forall fuel todo done s s',
    P1 done todo s -> before_loop hooks fuel todo s = Some s' -> exists done', P1 done' [] s'.
  Proof.
    induction fuel as [|f IH]; intros todo done s s' HP Hrun; cbn in Hrun; [discriminate|].
    destruct todo as [|o rest].
    - inversion Hrun; subst. exists done; auto.
    - destruct HP as (Hwf & Hots & Hsv & Hd & Hnd).
      assert (Hin : In o (ots s)) by (rewrite Hots; apply in_or_app; right; left; reflexivity).
      pose proof (wf_nodup _ Hwf) as Hnodup. rewrite Hots in Hnodup.
      assert (Hnotdone : ~ In o done).
      { apply NoDup_remove_2 in Hnodup. intros H; apply Hnodup; apply in_or_app; left; auto. }
      destruct (pending_kind (o_status (objs s o))) as [k|] eqn:Hk.
      + set (s1 := add_log (EB k o) s) in *.
        set (s2 := run_hook hooks true k o s1) in *.
        assert (Hwf1 : wf s1) by (apply add_log_wf; auto).
        pose proof (run_hook_ext true k o s1 Hwf1) as [Hl Hs [new Hnew] Hp Hwf2]. fold s2 in Hl, Hs, Hnew, Hp, Hwf2.
        apply (IH _ (done ++ [o]) _ _) in Hrun; auto.
        unfold P1. split; [exact Hwf2|]. split.
        { rewrite Hnew. replace (ots s1) with (ots s) by reflexivity. rewrite skipn_app_exact.
          rewrite Hots. rewrite <- !app_assoc. reflexivity. }
        split; [rewrite Hs; exact Hsv|]. split.
        * intros x k' Hx Hpx. rewrite Hl. replace (log s1) with (log s ++ [EB k o]) by reflexivity. rewrite phase_snoc.
          apply in_app_or in Hx. destruct Hx as [Hx|[Hx|[]]].
          -- assert (x <> o) by (intros ->; contradiction).
             rewrite step_other by auto.
             destruct (pend_some_or_none s x) as [Hn|[k'' Hk'']].
             ++ exfalso. assert (In x (ots s)) by (rewrite Hots; apply in_or_app; left; auto).
                apply (wf_ots _ Hwf) in H0. contradiction.
             ++ assert (pend s2 x = Some k'') by (apply Hp; exact Hk''). rewrite H0 in Hpx. inversion Hpx; subst.
                apply Hd; auto.
          -- subst x. rewrite (Hnd o Hnotdone). cbn. rewrite Nat.eqb_refl.
             assert (pend s2 o = Some k) by (apply Hp; exact Hk). rewrite H in Hpx. inversion Hpx; subst. reflexivity.
        * intros x Hx. rewrite Hl. replace (log s1) with (log s ++ [EB k o]) by reflexivity. rewrite phase_snoc.
          assert (x <> o) by (intros ->; apply Hx; apply in_or_app; right; left; reflexivity).
          rewrite step_other by auto. apply Hnd. intros H1; apply Hx; apply in_or_app; left; auto.
      + exfalso. apply (wf_ots _ Hwf) in Hin. apply Hin. exact Hk.
  Qed.

  (* ---------------------------------------------------------------- phase 2: statements *)
  Definition P2 (s : state) : Prop :=
    wf s /\
    (forall o k, pend s o = Some k -> phase (log s) o = PB k) /\
    (forall o, pend s o = None -> phase (log s) o = Idle \/ exists k, phase (log s) o = PS k /\ In (o, k) (saved s)) /\
    (forall o k, In (o, k) (saved s) -> phase (log s) o = PS k /\ pend s o = None) /\
    NoDup (map fst (saved s)).

  Definition mono (s s' : state) : Prop := forall x, pend s x = None -> pend s' x = None.

  Lemma nodup_snoc_gen : forall (A : Type) (l : list A) x, NoDup l -> ~ In x l -> NoDup (l ++ [x]).
  Proof.
    induction l as [|a l IH]; intros x Hn Hi; cbn.
    - constructor; [intros []|constructor].
    - inversion Hn; subst. constructor.
      + rewrite in_app_iff. intros [H|[H|[]]]; [contradiction | subst; apply Hi; left; reflexivity].
      + apply IH; auto. intros H; apply Hi; right; auto.
  Qed.

  Lemma write_P2 : forall s o k, P2 s -> pend s o = Some k -> P2 (write o k s) /\ mono s (write o k s) /\ pend (write o k s) o = None.
  Proof.
    intros s o k (Hwf & Ha & Hb & Hc & Hd) Hp.
    assert (Hpo : pend (write o k s) o = None) by (unfold pend, write; cbn; rewrite upd_same; cbn; destruct k; reflexivity).
    assert (Hoth : forall x, x <> o -> pend (write o k s) x = pend s x) by (intros x Hx; unfold pend, write; cbn; rewrite upd_other; auto).
    split; [|split; [|exact Hpo]].
    - split.
      + (* wf *)
        destruct Hwf as [Hnd Hots Hnext Hmod Hcl]. constructor.
        * cbn. apply NoDup_filter; auto.
        * intros x. cbn [ots write]. rewrite filter_In. destruct (Nat.eq_dec x o) as [->|Hne].
          -- rewrite Hpo, Nat.eqb_refl. cbn. split; [intros [_ H]; discriminate | intros H; exfalso; apply H; reflexivity].
          -- rewrite Hoth by auto. rewrite Hots. apply Nat.eqb_neq in Hne. rewrite Hne. cbn. tauto.
        * intros x Hx. cbn in Hx. destruct (Nat.eq_dec x o) as [->|Hne].
          -- exfalso. unfold pend in Hp. rewrite (Hnext o Hx) in Hp. discriminate.
          -- cbn. rewrite upd_other; auto.
        * intros x Hx. cbn. destruct (Nat.eq_dec x o) as [->|Hne]; [rewrite Hpo in Hx; exfalso; apply Hx; reflexivity|].
          rewrite Hoth in Hx by auto. eapply Hmod; eauto.
        * intros x. cbn. destruct (Nat.eq_dec x o) as [->|Hne].
          -- rewrite upd_same; cbn. destruct k; cbn; auto; discriminate.
          -- rewrite upd_other; auto.
      + split; [|split; [|split]].
        * intros x k' Hx. destruct (Nat.eq_dec x o) as [->|Hne]; [rewrite Hpo in Hx; discriminate|].
          rewrite Hoth in Hx by auto. cbn [log write]. rewrite phase_snoc, step_other by auto. auto.
        * intros x Hx. cbn [log write saved]. rewrite phase_snoc. destruct (Nat.eq_dec x o) as [->|Hne].
          -- right. exists k. rewrite (Ha o k Hp). cbn. rewrite Nat.eqb_refl, kind_eqb_refl. split; auto.
             apply in_or_app; right; left; reflexivity.
          -- rewrite step_other by auto. rewrite Hoth in Hx by auto. destruct (Hb x Hx) as [H|[k' [H1 H2]]]; [left; auto|].
             right; exists k'; split; auto. apply in_or_app; left; auto.
        * intros x k' Hx. cbn [saved write] in Hx. cbn [log write]. rewrite phase_snoc. apply in_app_or in Hx. destruct Hx as [Hx|[Hx|[]]].
          -- destruct (Hc x k' Hx) as [H1 H2]. assert (x <> o) by (intros ->; rewrite Hp in H2; discriminate).
             rewrite step_other by auto. rewrite Hoth by auto. auto.
          -- inversion Hx; subst. rewrite (Ha x k' Hp). cbn. rewrite Nat.eqb_refl, kind_eqb_refl. auto.
        * cbn [saved write]. rewrite map_app. cbn. apply nodup_snoc_gen; auto.
          intros Hin. apply in_map_iff in Hin. destruct Hin as [[x k'] [Hx1 Hx2]]. cbn in Hx1; subst x.
          destruct (Hc o k' Hx2) as [_ H]. rewrite Hp in H; discriminate.
    - intros x Hx. destruct (Nat.eq_dec x o) as [->|Hne]; [exact Hpo | rewrite Hoth; auto].
  Qed.

  Definition princ_step (f : nat) (acc : option state) (p : nat) : option state :=
    match acc with
    | None => None
    | Some s' => match o_status (objs s' p) with SCreated => save_obj f p s' | _ => Some s' end
    end.

  Lemma save_obj_unfold : forall f o s,
    save_obj (S f) o s =
    match pending_kind (o_status (objs s o)) with
    | None => Some s
    | Some k =>
        match fold_left (princ_step f) (match k with KDel => [] | _ => o_princ (objs s o) end) (Some s) with
        | None => None
        | Some s1 => match pending_kind (o_status (objs s1 o)) with
                     | Some k' => Some (write o k' s1)
                     | None => Some s1
                     end
        end
    end.
  Proof. reflexivity. Qed.

  Lemma fold_none : forall (A : Type) (F : option state -> A -> option state) (l : list A),
    (forall a, F None a = None) -> fold_left F l None = None.
  Proof. induction l; cbn; intros; auto. rewrite H. auto. Qed.

  Lemma save_obj_P2 : forall fuel o s s',
    P2 s -> save_obj fuel o s = Some s' -> P2 s' /\ mono s s' /\ pend s' o = None.
  Proof.
    induction fuel as [|f IH]; intros o s s' HP Hrun; [discriminate|].
    rewrite save_obj_unfold in Hrun.
    destruct (pending_kind (o_status (objs s o))) as [k|] eqn:Hk.
    - assert (Hfold : forall ps s0 s1, P2 s0 -> fold_left (princ_step f) ps (Some s0) = Some s1 -> P2 s1 /\ mono s0 s1).
      { induction ps as [|p ps IHps]; intros s0 s1 HP0 Hf; cbn in Hf.
        - inversion Hf; subst. split; auto. intros x; auto.
        - destruct (o_status (objs s0 p)) eqn:Hst;
            try (apply IHps in Hf; auto; fail).
          destruct (save_obj f p s0) as [s0'|] eqn:Hsv.
          + destruct (IH _ _ _ HP0 Hsv) as (HP' & Hm' & _).
            destruct (IHps _ _ HP' Hf) as (HP1 & Hm1). split; auto. intros x Hx. apply Hm1, Hm'; auto.
          + rewrite fold_none in Hf; [discriminate | reflexivity]. }
      destruct (fold_left (princ_step f) _ (Some s)) as [s1|] eqn:Hf; [|discriminate].
      destruct (Hfold _ _ _ HP Hf) as (HP1 & Hm1).
      destruct (pending_kind (o_status (objs s1 o))) as [k'|] eqn:Hk'.
      + inversion Hrun; subst. destruct (write_P2 s1 o k' HP1 Hk') as (HPw & Hmw & Hpw).
        split; auto. split; auto. intros x Hx. apply Hmw, Hm1; auto.
      + inversion Hrun; subst. split; auto.
    - inversion Hrun; subst. split; auto. split; auto. intros x; auto.
  Qed.

  Lemma save_loop_fold : forall fuel l s s',
    P2 s ->
    fold_left (fun acc o => match acc with None => None | Some s0 => save_obj fuel o s0 end) l (Some s) = Some s' ->
    P2 s' /\ mono s s' /\ (forall o, In o l -> pend s' o = None).
  Proof.
    induction l as [|o l IH]; intros s s' HP Hf; cbn in Hf.
    - inversion Hf; subst. split; auto. split; [intros x; auto | intros o []].
    - destruct (save_obj fuel o s) as [s0|] eqn:Hs.
      + destruct (save_obj_P2 _ _ _ _ HP Hs) as (HP0 & Hm0 & Hp0).
        destruct (IH _ _ HP0 Hf) as (HP' & Hm' & Hall). split; auto. split.
        * intros x Hx; apply Hm', Hm0; auto.
        * intros x [<-|Hx]; [apply Hm'; auto | apply Hall; auto].
      + rewrite fold_none in Hf; [discriminate | reflexivity].
  Qed.

  (* ---------------------------------------------------------------- phase 3: after hooks *)
  Definition P3 (rest : list (nat * kind)) (s : state) : Prop :=
    wf s /\ saved s = [] /\
    (forall o k, In (o, k) rest -> phase (log s) o = PS k) /\
    NoDup (map fst rest) /\
    (forall o, ~ In o (map fst rest) -> phase (log s) o = Idle).

  Lemma after_fold : forall rest s,
    P3 rest s ->
    P3 [] (fold_left (fun s' ok => run_hook hooks false (snd ok) (fst ok) (add_log (EA (snd ok) (fst ok)) s')) rest s).
  Proof.
    induction rest as [|[o k] rest IH]; intros s HP; cbn; auto.
    apply IH. destruct HP as (Hwf & Hsv & Hps & Hnd & Hidle). cbn in Hnd. inversion Hnd as [|? ? Hno Hnd']; subst.
    set (s1 := add_log (EA k o) s).
    assert (Hwf1 : wf s1) by (apply add_log_wf; auto).
    pose proof (run_hook_ext false k o s1 Hwf1) as [Hl Hs _ _ Hwf2].
    split; [exact Hwf2|]. split; [rewrite Hs; exact Hsv|]. split; [|split; [exact Hnd'|]].
    - intros x k' Hx. rewrite Hl. replace (log s1) with (log s ++ [EA k o]) by reflexivity. rewrite phase_snoc.
      assert (x <> o). { intros ->. apply Hno. apply in_map_iff. exists (o, k'); auto. }
      rewrite step_other by auto. apply Hps. right; auto.
    - intros x Hx. rewrite Hl. replace (log s1) with (log s ++ [EA k o]) by reflexivity. rewrite phase_snoc.
      destruct (Nat.eq_dec x o) as [->|Hne].
      + rewrite (Hps o k) by (left; reflexivity). cbn. rewrite Nat.eqb_refl, kind_eqb_refl. reflexivity.
      + rewrite step_other by auto. apply Hidle. cbn. intros [H|H]; [congruence | contradiction].
  Qed.

  (* ---------------------------------------------------------------- rounds *)
  Definition R (s : state) : Prop := wf s /\ saved s = [] /\ forall o, phase (log s) o = Idle.

  Lemma after_loop_R : forall s,
    wf s -> (forall o, pend s o = None) ->
    (forall o, phase (log s) o = Idle \/ exists k, phase (log s) o = PS k /\ In (o, k) (saved s)) ->
    (forall o k, In (o, k) (saved s) -> phase (log s) o = PS k) ->
    NoDup (map fst (saved s)) ->
    R (after_loop hooks s).
  Proof.
    intros s Hwf Hnp Hb Hc Hd. unfold after_loop.
    set (s0 := mkst (objs s) (next s) (ots s) [] (modified s) (log s)).
    assert (HP3 : P3 (saved s) s0).
    { split; [destruct Hwf; constructor; auto|]. split; [reflexivity|]. split; [exact Hc|]. split; [exact Hd|].
      intros o Ho. destruct (Hb o) as [H|[k [H1 H2]]]; auto. exfalso. apply Ho. apply in_map_iff. exists (o, k); auto. }
    destruct (after_fold _ _ HP3) as (Hwf' & Hsv' & _ & _ & Hidle).
    split; [exact Hwf'|]. split; [exact Hsv'|]. intros o. apply Hidle. intros [].
  Qed.

  Lemma round_R : forall fuel s s', R s -> round hooks fuel s = Some s' -> R s'.
  Proof.
    intros fuel s s' (Hwf & Hsv & Hidle) Hr. unfold round in Hr.
    destruct (before_loop hooks fuel (ots s) s) as [s1|] eqn:H1; [|discriminate].
    destruct (save_loop fuel s1) as [s2|] eqn:H2; [|discriminate].
    inversion Hr; subst; clear Hr.
    assert (HP1 : P1 [] (ots s) s).
    { split; auto. split; [reflexivity|]. split; auto. split; [intros o k []|intros; auto]. }
    destruct (before_loop_inv _ _ _ _ _ HP1 H1) as (done & Hwf1 & Hots1 & Hsv1 & Hd1 & Hnd1).
    rewrite app_nil_r in Hots1.
    assert (HP2 : P2 s1).
    { split; auto. split; [|split; [|split]].
      - intros o k Hp. apply Hd1; auto. rewrite <- Hots1. apply (wf_ots _ Hwf1). rewrite Hp; discriminate.
      - intros o Hp. left. apply Hnd1. rewrite <- Hots1. intros Hin. apply (wf_ots _ Hwf1) in Hin. contradiction.
      - rewrite Hsv1. intros o k [].
      - rewrite Hsv1. constructor. }
    unfold save_loop in H2.
    destruct (save_loop_fold _ _ _ _ HP2 H2) as ((Hwf2 & Ha2 & Hb2 & Hc2 & Hd2) & Hm2 & Hall2).
    assert (Hnp : forall o, pend s2 o = None).
    { intros o. destruct (pend_some_or_none s1 o) as [Hn|[k Hk]]; [apply Hm2; auto|].
      apply Hall2. apply (wf_ots _ Hwf1). rewrite Hk; discriminate. }
    apply after_loop_R; cbn.
    - destruct Hwf2 as [A B C D E]. constructor; cbn; auto.
      + constructor.
      + intros o. split; [intros [] | intros H; exfalso; apply H; apply Hnp].
      + intros o H. exfalso; apply H; apply Hnp.
    - exact Hnp.
    - intros o. apply Hb2. apply Hnp.
    - intros o k H. apply (Hc2 o k H).
    - exact Hd2.
  Qed.

  Lemma flush_R : forall n fuel s s', R s -> flush hooks n fuel s = Ok s' -> R s' /\ modified s' = false.
  Proof.
    induction n as [|n IH]; intros fuel s s' HR Hf; cbn in Hf.
    - destruct (modified s) eqn:Hm; [discriminate|]. inversion Hf; subst. auto.
    - destruct (modified s) eqn:Hm; cbn in Hf.
      + destruct (round hooks fuel s) as [s1|] eqn:Hr; [|discriminate].
        eapply IH; [|exact Hf]. eapply round_R; eauto.
      + inversion Hf; subst. auto.
  Qed.

  (* C33_once / C33_edits_saved *)
  Lemma flush_once : forall n fuel s s', R s -> flush hooks n fuel s = Ok s' -> forall o, phase (log s') o = Idle.
  Proof. intros n fuel s s' HR Hf. destruct (flush_R _ _ _ _ HR Hf) as ((_ & _ & H) & _). exact H. Qed.

  Lemma flush_edits_saved : forall n fuel s s', R s -> flush hooks n fuel s = Ok s' ->
    forall o, pend s' o = None /\ (clean (o_status (objs s' o)) = true -> o_dbval (objs s' o) = Some (o_val (objs s' o))).
  Proof.
    intros n fuel s s' HR Hf o. destruct (flush_R _ _ _ _ HR Hf) as ((Hwf & _ & _) & Hm). split.
    - destruct (pend_some_or_none s' o) as [H|[k H]]; auto.
      assert (modified s' = true) by (apply (wf_mod _ Hwf o); rewrite H; discriminate). congruence.
    - apply (wf_clean _ Hwf).
  Qed.

  (* ---------------------------------------------------------------- Entity.flush (one object) *)
  Definition no_unsaved_principal (s : state) (o : nat) : Prop :=
    forall p, In p (o_princ (objs s o)) -> o_status (objs s p) <> SCreated.

  Lemma princ_fold_id : forall f ps s, (forall p, In p ps -> o_status (objs s p) <> SCreated) ->
    fold_left (princ_step f) ps (Some s) = Some s.
  Proof.
    induction ps as [|p ps IH]; intros s H; cbn; auto.
    assert (Hp : o_status (objs s p) <> SCreated) by (apply H; left; auto).
    destruct (o_status (objs s p)); try (apply IH; intros; apply H; right; auto). contradiction.
  Qed.

  Lemma obj_flush_once : forall fuel o s s' k,
    R s -> pend s o = Some k ->
    no_unsaved_principal (run_hook hooks true k o (add_log (EB k o) s)) o ->
    obj_flush hooks fuel o s = Some s' ->
    R s'.
  Proof.
    intros fuel o s s' k (Hwf & Hsv & Hidle) Hp Hnu Hf. unfold obj_flush in Hf. unfold pend in Hp. rewrite Hp in Hf.
    set (s0 := add_log (EB k o) s) in *. set (s1 := run_hook hooks true k o s0) in *.
    assert (Hwf0 : wf s0) by (apply add_log_wf; auto).
    pose proof (run_hook_ext true k o s0 Hwf0) as [Hl Hs _ Hpe Hwf1]. fold s1 in Hl, Hs, Hpe, Hwf1.
    assert (Hp1 : pend s1 o = Some k) by (apply Hpe; exact Hp).
    destruct fuel as [|f]; [discriminate|].
    rewrite save_obj_unfold in Hf. unfold pend in Hp1. rewrite Hp1 in Hf.
    rewrite princ_fold_id in Hf.
    2:{ destruct k; [exact Hnu | exact Hnu | intros p []]. }
    rewrite Hp1 in Hf. inversion Hf; subst; clear Hf.
    assert (Hlog1 : log s1 = log s ++ [EB k o]) by (rewrite Hl; reflexivity).
    assert (Hph : forall x, phase (log s1) x = if Nat.eqb x o then PB k else Idle).
    { intros x. rewrite Hlog1, phase_snoc. destruct (Nat.eqb x o) eqn:E.
      - apply Nat.eqb_eq in E; subst. rewrite Hidle. cbn. rewrite Nat.eqb_refl. reflexivity.
      - apply Nat.eqb_neq in E. rewrite step_other by auto. apply Hidle. }
    (* the state after the statement *)
    assert (Hsaved : saved (write o k s1) = [(o, k)]) by (cbn; rewrite Hs; cbn; rewrite Hsv; reflexivity).
    unfold after_loop. rewrite Hsaved. cbn [fold_left fst snd].
    set (s2 := mkst (objs (write o k s1)) (next (write o k s1)) (ots (write o k s1)) [] (modified (write o k s1)) (log (write o k s1))).
    assert (HP2 : P2 s1 -> True) by auto.
    (* wf of the written state: reuse write_P2 through a P2 instance where only o is pending-tracked *)
    assert (Hwfw : wf (write o k s1)).
    { destruct Hwf1 as [Hnd Hots Hnext Hmod Hcl].
      assert (Hpo : pend (write o k s1) o = None) by (unfold pend, write; cbn; rewrite upd_same; cbn; destruct k; reflexivity).
      assert (Hoth : forall x, x <> o -> pend (write o k s1) x = pend s1 x) by (intros x Hx; unfold pend, write; cbn; rewrite upd_other; auto).
      constructor.
      - cbn. apply NoDup_filter; auto.
      - intros x. cbn [ots write]. rewrite filter_In. destruct (Nat.eq_dec x o) as [->|Hne].
        + rewrite Hpo, Nat.eqb_refl. cbn. split; [intros [_ H]; discriminate | intros H; exfalso; apply H; reflexivity].
        + rewrite Hoth by auto. rewrite Hots. apply Nat.eqb_neq in Hne. rewrite Hne. cbn. tauto.
      - intros x Hx. cbn in Hx. destruct (Nat.eq_dec x o) as [->|Hne].
        + exfalso. rewrite (Hnext o Hx) in Hp1. discriminate.
        + cbn. rewrite upd_other; auto.
      - intros x Hx. cbn. destruct (Nat.eq_dec x o) as [->|Hne]; [rewrite Hpo in Hx; exfalso; apply Hx; reflexivity|].
        rewrite Hoth in Hx by auto. eapply Hmod; eauto.
      - intros x. cbn. destruct (Nat.eq_dec x o) as [->|Hne].
        + rewrite upd_same; cbn. destruct k; cbn; auto; discriminate.
        + rewrite upd_other; auto. }
    assert (Hwf2 : wf s2) by (destruct Hwfw; constructor; auto).
    set (s3 := add_log (EA k o) s2).
    assert (Hwf3 : wf s3) by (apply add_log_wf; auto).
    pose proof (run_hook_ext false k o s3 Hwf3) as [Hl4 Hs4 _ _ Hwf4].
    split; [exact Hwf4|]. split; [rewrite Hs4; reflexivity|].
    intros x. rewrite Hl4. replace (log s3) with ((log s1 ++ [ES k o]) ++ [EA k o]) by reflexivity.
    rewrite !phase_snoc, Hph. destruct (Nat.eqb x o) eqn:E.
    - apply Nat.eqb_eq in E; subst. cbn. rewrite !Nat.eqb_refl, !kind_eqb_refl. cbn. rewrite ?Nat.eqb_refl, ?kind_eqb_refl. reflexivity.
    - apply Nat.eqb_neq in E. rewrite !step_other by auto. reflexivity.
  Qed.
End WithHooks.

(* ------------------------------------------------------------------ the repaired Entity.flush (obj_flush_h) *)
Lemma apply_action_created : forall s a o,
  o_status (objs (apply_action s a) o) = SCreated -> o_status (objs s o) = SCreated \/ next s <= o.
Proof.
  intros s a o H. destruct a as [b|ps]; cbn in H.
  - destruct (clean (o_status (objs s b))) eqn:Hc.
    + cbn in H. destruct (Nat.eq_dec o b) as [->|Hne]; [rewrite upd_same in H; discriminate | rewrite upd_other in H; auto].
    + destruct (o_status (objs s b)) eqn:Hs; auto; cbn in H;
        (destruct (Nat.eq_dec o b) as [->|Hne]; [rewrite upd_same in H; cbn in H; left; congruence | rewrite upd_other in H; auto]).
  - cbn in H. destruct (Nat.eq_dec o (next s)) as [->|Hne]; [right; lia | rewrite upd_other in H; auto].
Qed.

Lemma apply_action_next : forall s a, next s <= next (apply_action s a).
Proof.
  intros s a. destruct a as [b|ps]; cbn; [|lia].
  destruct (clean (o_status (objs s b))); cbn; [lia|]. destruct (o_status (objs s b)); cbn; lia.
Qed.

Lemma actions_created : forall l s o,
  o_status (objs (fold_left apply_action l s) o) = SCreated -> o_status (objs s o) = SCreated \/ next s <= o.
Proof.
  induction l as [|a l IH]; intros s o H; cbn in H; auto.
  destruct (IH _ _ H) as [H1|H1]; [apply apply_action_created in H1; auto | right; pose proof (apply_action_next s a); lia].
Qed.

Lemma write_wf : forall s o k, wf s -> pend s o = Some k -> wf (write o k s).
Proof.
  intros s o k [Hnd Hots Hnext Hmod Hcl] Hp.
  assert (Hpo : pend (write o k s) o = None) by (unfold pend, write; cbn; rewrite upd_same; cbn; destruct k; reflexivity).
  assert (Hoth : forall x, x <> o -> pend (write o k s) x = pend s x) by (intros x Hx; unfold pend, write; cbn; rewrite upd_other; auto).
  constructor.
  - cbn. apply NoDup_filter; auto.
  - intros x. cbn [ots write]. rewrite filter_In. destruct (Nat.eq_dec x o) as [->|Hne].
    + rewrite Hpo, Nat.eqb_refl. cbn. split; [intros [_ H]; discriminate | intros H; exfalso; apply H; reflexivity].
    + rewrite Hoth by auto. rewrite Hots. apply Nat.eqb_neq in Hne. rewrite Hne. cbn. tauto.
  - intros x Hx. cbn in Hx. destruct (Nat.eq_dec x o) as [->|Hne].
    + exfalso. unfold pend in Hp. rewrite (Hnext o Hx) in Hp. discriminate.
    + cbn. rewrite upd_other; auto.
  - intros x Hx. cbn. destruct (Nat.eq_dec x o) as [->|Hne]; [rewrite Hpo in Hx; exfalso; apply Hx; reflexivity|].
    rewrite Hoth in Hx by auto. eapply Hmod; eauto.
  - intros x. cbn. destruct (Nat.eq_dec x o) as [->|Hne].
    + rewrite upd_same; cbn. destruct k; cbn; auto; discriminate.
    + rewrite upd_other; auto.
Qed.

Section Repaired.
  Variable hooks : bool -> kind -> nat -> state -> list action.

  (* chain = the objects whose before hook has run and whose statement is still to come (dependent_objects + the current one) *)
  Record IH_ (chain : list nat) (s : state) : Prop := mkIH {
    h_wf : wf s;
    h_pb : forall x k, phase (log s) x = PB k -> In x chain /\ pend s x = Some k;
    h_chain : forall x, In x chain -> exists k, phase (log s) x = PB k;
    h_all : forall x, phase (log s) x = Idle \/ (exists k, phase (log s) x = PB k) \/ (exists k, phase (log s) x = PS k /\ In (x, k) (saved s));
    h_saved : forall x k, In (x, k) (saved s) -> phase (log s) x = PS k;
    h_nodup : NoDup (map fst (saved s));
    h_created : forall x, o_status (objs s x) = SCreated -> phase (log s) x = Idle \/ In x chain;
    h_fresh : forall x, next s <= x -> phase (log s) x = Idle
  }.

  Lemma pend_lt_next : forall s x k, wf s -> pend s x = Some k -> x < next s.
  Proof.
    intros s x k Hwf Hp. destruct (le_lt_dec (next s) x) as [Hle|]; auto.
    exfalso. unfold pend in Hp. rewrite (wf_next _ Hwf x Hle) in Hp. discriminate.
  Qed.

  (* the before hook of a created principal p that is not in the chain *)
  Lemma hook_step : forall chain s p,
    IH_ chain s -> o_status (objs s p) = SCreated -> ~ In p chain ->
    IH_ (p :: chain) (run_hook hooks true KIns p (add_log (EB KIns p) s)).
  Proof.
    intros chain s p H Hst Hni.
    assert (Hidle : phase (log s) p = Idle) by (destruct (h_created _ _ H p Hst); [auto | contradiction]).
    assert (Hpend : pend s p = Some KIns) by (unfold pend; rewrite Hst; reflexivity).
    set (s0 := add_log (EB KIns p) s).
    assert (Hwf0 : wf s0) by (apply add_log_wf; apply H).
    pose proof (run_hook_ext hooks true KIns p s0 Hwf0) as [Hl Hs _ Hpe Hwf1].
    set (s1 := run_hook hooks true KIns p s0) in *.
    assert (Hph : forall x, phase (log s1) x = if Nat.eqb x p then PB KIns else phase (log s) x).
    { intros x. rewrite Hl. replace (log s0) with (log s ++ [EB KIns p]) by reflexivity. rewrite phase_snoc.
      destruct (Nat.eqb x p) eqn:E.
      - apply Nat.eqb_eq in E; subst. rewrite Hidle. cbn. rewrite Nat.eqb_refl. reflexivity.
      - apply Nat.eqb_neq in E. rewrite step_other by auto. reflexivity. }
    assert (Hnext : next s <= next s1) by (unfold s1, run_hook; clear; generalize (hooks true KIns p s0); intros l;
      change (next s) with (next s0); generalize s0; induction l as [|a l IHl]; intros t; cbn; [lia | pose proof (apply_action_next t a); specialize (IHl (apply_action t a)); lia]).
    constructor.
    - exact Hwf1.
    - intros x k Hx. rewrite Hph in Hx. destruct (Nat.eqb x p) eqn:E.
      + apply Nat.eqb_eq in E; subst. inversion Hx; subst. split; [left; auto | apply Hpe; exact Hpend].
      + destruct (h_pb _ _ H x k Hx) as [A B]. split; [right; auto | apply Hpe; exact B].
    - intros x [<-|Hx]; rewrite Hph; [rewrite Nat.eqb_refl; eauto|].
      destruct (Nat.eqb x p) eqn:E; [eauto | apply (h_chain _ _ H); auto].
    - intros x. rewrite Hph, Hs. destruct (Nat.eqb x p); [right; left; eauto | apply (h_all _ _ H)].
    - intros x k Hx. rewrite Hs in Hx. rewrite Hph. destruct (Nat.eqb x p) eqn:E; [|apply (h_saved _ _ H); auto].
      apply Nat.eqb_eq in E; subst. pose proof (h_saved _ _ H _ _ Hx) as Hc. rewrite Hidle in Hc. discriminate.
    - rewrite Hs. apply H.
    - intros x Hx. rewrite Hph. destruct (Nat.eqb x p) eqn:E; [right; left; apply Nat.eqb_eq in E; auto|].
      unfold s1, run_hook in Hx. apply actions_created in Hx. destruct Hx as [Hx|Hx].
      + destruct (h_created _ _ H x Hx); [left; auto | right; right; auto].
      + left. apply (h_fresh _ _ H). exact Hx.
    - intros x Hx. rewrite Hph. destruct (Nat.eqb x p) eqn:E.
      + apply Nat.eqb_eq in E; subst. pose proof (pend_lt_next _ _ _ Hwf1 (Hpe _ _ Hpend)). lia.
      + apply (h_fresh _ _ H). lia.
  Qed.

  (* the statement of the head of the chain *)
  Lemma write_step : forall chain s o k,
    IH_ (o :: chain) s -> ~ In o chain -> pend s o = Some k -> IH_ chain (write o k s) /\ pend (write o k s) o = None.
  Proof.
    intros chain s o k H Hni Hp.
    assert (Hpb : phase (log s) o = PB k).
    { destruct (h_chain _ _ H o (or_introl eq_refl)) as [k' Hk']. destruct (h_pb _ _ H o k' Hk') as [_ Hp']. congruence. }
    assert (Hpo : pend (write o k s) o = None) by (unfold pend, write; cbn; rewrite upd_same; cbn; destruct k; reflexivity).
    assert (Hoth : forall x, x <> o -> pend (write o k s) x = pend s x) by (intros x Hx; unfold pend, write; cbn; rewrite upd_other; auto).
    assert (Hph : forall x, phase (log (write o k s)) x = if Nat.eqb x o then PS k else phase (log s) x).
    { intros x. cbn [log write]. rewrite phase_snoc. destruct (Nat.eqb x o) eqn:E.
      - apply Nat.eqb_eq in E; subst. rewrite Hpb. cbn. rewrite Nat.eqb_refl, kind_eqb_refl. reflexivity.
      - apply Nat.eqb_neq in E. rewrite step_other by auto. reflexivity. }
    split; [|exact Hpo]. constructor.
    - apply write_wf; [apply H | exact Hp].
    - intros x k' Hx. rewrite Hph in Hx. destruct (Nat.eqb x o) eqn:E; [discriminate|]. apply Nat.eqb_neq in E.
      destruct (h_pb _ _ H x k' Hx) as [[A|A] B]; [congruence|]. split; auto. rewrite Hoth; auto.
    - intros x Hx. rewrite Hph. destruct (Nat.eqb x o) eqn:E; [apply Nat.eqb_eq in E; subst; contradiction|].
      apply (h_chain _ _ H). right; auto.
    - intros x. rewrite Hph. cbn [saved write]. destruct (Nat.eqb x o) eqn:E.
      + apply Nat.eqb_eq in E; subst. right; right. exists k. split; auto. apply in_or_app; right; left; auto.
      + destruct (h_all _ _ H x) as [A|[A|[k' [A B]]]]; auto. right; right. exists k'. split; auto. apply in_or_app; left; auto.
    - intros x k' Hx. cbn [saved write] in Hx. rewrite Hph. apply in_app_or in Hx. destruct Hx as [Hx|[Hx|[]]].
      + pose proof (h_saved _ _ H _ _ Hx) as Hc. destruct (Nat.eqb x o) eqn:E; auto.
        apply Nat.eqb_eq in E; subst. rewrite Hpb in Hc. discriminate.
      + inversion Hx; subst. rewrite Nat.eqb_refl. reflexivity.
    - cbn [saved write]. rewrite map_app. cbn. apply nodup_snoc_gen; [apply H|].
      intros Hin. apply in_map_iff in Hin. destruct Hin as [[x k'] [Hx1 Hx2]]. cbn in Hx1; subst x.
      pose proof (h_saved _ _ H _ _ Hx2) as Hc. rewrite Hpb in Hc. discriminate.
    - intros x Hx. rewrite Hph. destruct (Nat.eqb x o) eqn:E.
      + apply Nat.eqb_eq in E; subst. cbn in Hx. rewrite upd_same in Hx. cbn in Hx. destruct k; discriminate.
      + apply Nat.eqb_neq in E. cbn in Hx. rewrite upd_other in Hx by auto.
        destruct (h_created _ _ H x Hx) as [A|[A|A]]; [left; auto | congruence | right; auto].
    - intros x Hx. rewrite Hph. destruct (Nat.eqb x o) eqn:E; [|apply (h_fresh _ _ H); exact Hx].
      apply Nat.eqb_eq in E; subst. cbn in Hx. pose proof (pend_lt_next _ _ _ (h_wf _ _ H) Hp). lia.
  Qed.

  Definition princ_step_h (f : nat) (deps : list nat) (acc : option state) (p : nat) : option state :=
    match acc with
    | None => None
    | Some s' => match o_status (objs s' p) with
                 | SCreated => save_obj_h hooks f deps p (run_hook hooks true KIns p (add_log (EB KIns p) s'))
                 | _ => Some s'
                 end
    end.

  Lemma save_obj_h_unfold : forall f deps o s,
    save_obj_h hooks (S f) deps o s =
    match pending_kind (o_status (objs s o)) with
    | None => Some s
    | Some k =>
        if existsb (Nat.eqb o) deps then None
        else match fold_left (princ_step_h f (o :: deps)) (match k with KDel => [] | _ => o_princ (objs s o) end) (Some s) with
             | None => None
             | Some s1 => match pending_kind (o_status (objs s1 o)) with
                          | Some k' => Some (write o k' s1)
                          | None => Some s1
                          end
             end
    end.
  Proof. reflexivity. Qed.

  Lemma existsb_false_not_In : forall o l, existsb (Nat.eqb o) l = false -> ~ In o l.
  Proof.
    intros o l H Hin. assert (existsb (Nat.eqb o) l = true) by (apply existsb_exists; exists o; split; auto; apply Nat.eqb_refl). congruence.
  Qed.

  Lemma save_obj_h_inv : forall fuel deps o s s',
    IH_ (o :: deps) s -> save_obj_h hooks fuel deps o s = Some s' -> IH_ deps s'.
  Proof.
    induction fuel as [|f IHf]; intros deps o s s' H Hrun; [discriminate|].
    rewrite save_obj_h_unfold in Hrun.
    destruct (h_chain _ _ H o (or_introl eq_refl)) as [k0 Hk0]. destruct (h_pb _ _ H o k0 Hk0) as [_ Hp0].
    unfold pend in Hp0. rewrite Hp0 in Hrun.
    destruct (existsb (Nat.eqb o) deps) eqn:Edeps; [discriminate|]. apply existsb_false_not_In in Edeps.
    assert (Hfold : forall ps s0 s1, IH_ (o :: deps) s0 -> fold_left (princ_step_h f (o :: deps)) ps (Some s0) = Some s1 -> IH_ (o :: deps) s1).
    { induction ps as [|p ps IHps]; intros s0 s1 H0 Hf; cbn in Hf; [inversion Hf; subst; auto|].
      destruct (o_status (objs s0 p)) eqn:Hst; try (apply IHps in Hf; auto; fail).
      destruct (save_obj_h hooks f (o :: deps) p (run_hook hooks true KIns p (add_log (EB KIns p) s0))) as [s0'|] eqn:Hsv.
      - apply (IHps _ _) in Hf; auto.
        destruct (in_dec Nat.eq_dec p (o :: deps)) as [Hin|Hnin].
        + (* p is already in the chain: the recursive call stops with the cyclic-dependency error *)
          exfalso. destruct f as [|f']; [discriminate|]. rewrite save_obj_h_unfold in Hsv.
          assert (Hpp : pending_kind (o_status (objs (run_hook hooks true KIns p (add_log (EB KIns p) s0)) p)) = Some KIns).
          { assert (Hwf0 : wf (add_log (EB KIns p) s0)) by (apply add_log_wf; apply H0).
            pose proof (run_hook_ext hooks true KIns p _ Hwf0) as [_ _ _ Hpe _].
            apply (Hpe p KIns). unfold pend. cbn. rewrite Hst. reflexivity. }
          rewrite Hpp in Hsv.
          assert (existsb (Nat.eqb p) (o :: deps) = true) by (apply existsb_exists; exists p; split; auto; apply Nat.eqb_refl).
          rewrite H1 in Hsv. discriminate.
        + eapply IHf; [|exact Hsv]. apply hook_step; auto.
      - rewrite fold_none in Hf; [discriminate | reflexivity]. }
    destruct (fold_left (princ_step_h f (o :: deps)) _ (Some s)) as [s1|] eqn:Hf; [|discriminate].
    pose proof (Hfold _ _ _ H Hf) as H1.
    destruct (h_chain _ _ H1 o (or_introl eq_refl)) as [k1 Hk1]. destruct (h_pb _ _ H1 o k1 Hk1) as [_ Hp1].
    unfold pend in Hp1. rewrite Hp1 in Hrun. inversion Hrun; subst.
    apply (write_step deps s1 o k1 H1 Edeps Hp1).
  Qed.

  Lemma after_loop_R2 : forall s,
    wf s ->
    (forall o, phase (log s) o = Idle \/ exists k, phase (log s) o = PS k /\ In (o, k) (saved s)) ->
    (forall o k, In (o, k) (saved s) -> phase (log s) o = PS k) ->
    NoDup (map fst (saved s)) ->
    R (after_loop hooks s).
  Proof.
    intros s Hwf Hb Hc Hd. unfold after_loop.
    set (s0 := mkst (objs s) (next s) (ots s) [] (modified s) (log s)).
    assert (HP3 : P3 (saved s) s0).
    { split; [destruct Hwf; constructor; auto|]. split; [reflexivity|]. split; [exact Hc|]. split; [exact Hd|].
      intros o Ho. destruct (Hb o) as [H|[k [H1 H2]]]; auto. exfalso. apply Ho. apply in_map_iff. exists (o, k); auto. }
    destruct (after_fold hooks _ _ HP3) as (Hwf' & Hsv' & _ & _ & Hidle).
    split; [exact Hwf'|]. split; [exact Hsv'|]. intros o. apply Hidle. intros [].
  Qed.

  (* C33_obj_flush_once for the repaired code: unconditional *)
  Lemma obj_flush_h_once : forall fuel o s s', R s -> obj_flush_h hooks fuel o s = Some s' -> R s'.
  Proof.
    intros fuel o s s' HR Hf. unfold obj_flush_h in Hf.
    destruct (pending_kind (o_status (objs s o))) as [k|] eqn:Hp; [|inversion Hf; subst; auto].
    destruct HR as (Hwf & Hsv & Hidle).
    set (s0 := add_log (EB k o) s) in *. set (s1 := run_hook hooks true k o s0) in *.
    assert (Hwf0 : wf s0) by (apply add_log_wf; auto).
    pose proof (run_hook_ext hooks true k o s0 Hwf0) as [Hl Hs _ Hpe Hwf1]. fold s1 in Hl, Hs, Hpe, Hwf1.
    assert (Hph : forall x, phase (log s1) x = if Nat.eqb x o then PB k else Idle).
    { intros x. rewrite Hl. replace (log s0) with (log s ++ [EB k o]) by reflexivity. rewrite phase_snoc. destruct (Nat.eqb x o) eqn:E.
      - apply Nat.eqb_eq in E; subst. rewrite Hidle. cbn. rewrite Nat.eqb_refl. reflexivity.
      - apply Nat.eqb_neq in E. rewrite step_other by auto. apply Hidle. }
    assert (Hp1 : pend s1 o = Some k) by (apply Hpe; exact Hp).
    assert (H1 : IH_ [o] s1).
    { constructor.
      - exact Hwf1.
      - intros x k' Hx. rewrite Hph in Hx. destruct (Nat.eqb x o) eqn:E; [|discriminate].
        apply Nat.eqb_eq in E; subst. inversion Hx; subst. split; [left; auto | exact Hp1].
      - intros x [<-|[]]. rewrite Hph, Nat.eqb_refl. eauto.
      - intros x. rewrite Hph. destruct (Nat.eqb x o); [right; left; eauto | left; auto].
      - rewrite Hs. cbn. rewrite Hsv. intros x k' [].
      - rewrite Hs. cbn. rewrite Hsv. constructor.
      - intros x _. rewrite Hph. destruct (Nat.eqb x o) eqn:E; [right; left; apply Nat.eqb_eq in E; auto | left; auto].
      - intros x Hx. rewrite Hph. destruct (Nat.eqb x o) eqn:E; auto.
        apply Nat.eqb_eq in E; subst. pose proof (pend_lt_next _ _ _ Hwf1 Hp1). lia. }
    destruct (save_obj_h hooks fuel [] o s1) as [s2|] eqn:Hsv2; [|discriminate]. inversion Hf; subst; clear Hf.
    pose proof (save_obj_h_inv _ _ _ _ _ H1 Hsv2) as H2.
    apply after_loop_R2.
    - apply H2.
    - intros x. destruct (h_all _ _ H2 x) as [A|[[k' A]|A]]; auto.
      destruct (h_pb _ _ H2 x k' A) as [[] _].
    - apply (h_saved _ _ H2).
    - apply (h_nodup _ _ H2).
  Qed.
End Repaired.

(* ------------------------------------------------------------------ the recorded defect, as a model witness *)
Definition no_hooks : bool -> kind -> nat -> state -> list action := fun _ _ _ _ => [].
Definition st_principal : state :=
  mkst (fun i => nth i [mkobj SCreated 1 None []; mkobj SCreated 1 None [0]] no_obj) 2 [0; 1] [] true [].

Lemma obj_flush_principal_refuted :
  match obj_flush no_hooks 10 1 st_principal with
  | Some s' => log s' = [EB KIns 1; ES KIns 0; ES KIns 1; EA KIns 0; EA KIns 1] /\ phase (log s') 0 = Bad
  | None => False
  end.
Proof. vm_compute. split; reflexivity. Qed.

Lemma st_principal_R : R st_principal.
Proof.
  split; [|split; [reflexivity | intros; reflexivity]].
  constructor; cbn.
  - repeat constructor; cbn; intuition; discriminate.
  - intros o. unfold pend; cbn. destruct o as [|[|o]]; cbn; [intuition discriminate | intuition discriminate|].
    split; [intros [H|[H|[]]]; discriminate|]. destruct o; cbn; intros H; exfalso; apply H; reflexivity.
  - intros o Ho. destruct o as [|[|o]]; try lia. cbn. destruct o; reflexivity.
  - reflexivity.
  - intros o. destruct o as [|[|o]]; cbn; try discriminate. destruct o; cbn; discriminate.
Qed.
