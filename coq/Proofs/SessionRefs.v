(* C09 / C10, references and collections: PARTIAL.  What is proved here are the statement-level facts the invariant for reference columns needs;
   the invariant itself (a reference attribute's column = the key of the object it refers to, in every clean history) is NOT proved - see the end. *)
Require Import PonyV.Gen.SessionFlags PonyV.Model.SessionBase PonyV.Model.SessionDb PonyV.Model.Session.
Require Import PonyV.Proofs.SessionLemmas PonyV.Proofs.SessionState PonyV.Proofs.SessionDbInv PonyV.Proofs.SessionIdx PonyV.Proofs.SessionCoh.
From Coq Require Import Arith.

(* the column the model writes for a cached value: a reference becomes the primary key of the object referred to *)
Definition db_image (s : sess) (x : option val) : val := match x with Some v => val_to_db s v | None => VNone end.

(* INSERT: the new row carries, for every column attribute (scalar or reference), the image of the object's value - for a reference the
   referred object's primary key (NULL if it has none: _save_principal_objects_ has saved created principals first) *)
Lemma insert_writes_reference_keys : forall sch s o ob s' u, dbwf sch (s_db s) -> get_obj s o = Some ob -> save_created sch s o = Ok s' u ->
  exists z r, obj_pk s' o = Some z /\ In r (tab (s_db s') (o_ent ob)) /\ r_pk r = z /\
    forall a, (a < nattrs sch (o_ent ob))%nat -> attr_is_set sch (o_ent ob) a = false -> col r a = db_image s (oval ob a).
Proof.
  intros sch s o ob s' u W G S. unfold save_created in S. rewrite G in S.
  destruct (negb (status_eqb (o_st ob) SCreated)); [discriminate|]. cbv zeta in S.
  destruct (db_insert sch (s_db s) (o_ent ob) (o_pk ob) (row_of_obj sch s ob)) as [[]|[d' newpk]] eqn:DI; try discriminate S.
  destruct (db_insert_spec sch _ _ _ _ _ _ W (row_of_obj_length sch s ob) DI) as (_ & _ & IB & _).
  exists newpk, (mkRow newpk (row_of_obj sch s ob)).
  assert (K : forall s2, get_obj s2 o = Some ob -> s_db s2 = d' ->
     Ok (upd_obj s2 o (fun ob2 => after_insert_vals sch (ob_set_wbits (ob_set_st (ob_set_pk ob2 (Some newpk)) SInserted) (repeat false (nattrs sch (o_ent ob)))))) tt = Ok s' u ->
     obj_pk s' o = Some newpk /\ In (mkRow newpk (row_of_obj sch s ob)) (tab (s_db s') (o_ent ob))).
  { intros s2 G2 D2 E. inversion E; subst s'. split.
    - unfold obj_pk. rewrite get_upd_obj_same, G2. cbn [option_map].
      pose proof (ains_spec sch (o_ent ob) (seq O (nattrs sch (o_ent ob))) (ob_set_wbits (ob_set_st (ob_set_pk ob (Some newpk)) SInserted) (repeat false (nattrs sch (o_ent ob))))) as A.
      cbv zeta in A. destruct A as (_ & _ & _ & A4 & _). unfold after_insert_vals. cbn [ob_set_wbits ob_set_st ob_set_pk o_ent]. rewrite A4. reflexivity.
    - rewrite upd_obj_db, D2. apply IB. right. auto. }
  assert (R : obj_pk s' o = Some newpk /\ In (mkRow newpk (row_of_obj sch s ob)) (tab (s_db s') (o_ent ob))).
  { destruct (o_pk ob). apply (K (set_db s d')); auto.
    destruct (idx_get (set_db s d') (o_ent ob) 0 (VInt newpk)) as [o2|]. destruct (Nat.eqb o2 o); [|discriminate S]. apply (K (set_db s d')); auto.
    apply (K (idx_put (set_db s d') (o_ent ob) 0 (VInt newpk) o)); auto. }
  destruct R as [R1 R2]. split; auto. split; auto. split. reflexivity.
  intros a LT NS. unfold col, row_of_obj. cbn [r_cols]. rewrite nth_map_seq by exact LT. rewrite NS. reflexivity.
Qed.

(* UPDATE: the row keeps the columns of the attributes that were not written and gets the image of the value for the written ones *)
Lemma update_writes_reference_keys : forall sch s o ob s' u z, dbwf sch (s_db s) -> get_obj s o = Some ob -> o_pk ob = Some z ->
  written_asg sch s ob <> [] -> save_updated sch s o = Ok s' u ->
  exists r0 r, In r0 (tab (s_db s) (o_ent ob)) /\ r_pk r0 = z /\ In r (tab (s_db s') (o_ent ob)) /\ r_pk r = z /\
    forall a, (a < nattrs sch (o_ent ob))%nat -> attr_is_set sch (o_ent ob) a = false ->
      col r a = if owbit ob a then db_image s (oval ob a) else col r0 a.
Proof.
  intros sch s o ob s' u z W G P NE S. unfold save_updated in S. rewrite G in S.
  destruct (negb (status_eqb (o_st ob) SModified)); [discriminate|]. cbv zeta in S.
  match type of S with context [if existsb ?f ?l then _ else _] => destruct (existsb f l) end; [discriminate|].
  destruct (written_asg sch s ob) as [|p asg'] eqn:ASG; [congruence|]. rewrite P in S.
  destruct (db_update sch (s_db s) (o_ent ob) z (p :: asg')) as [[]|d'] eqn:DU; try discriminate S.
  destruct (db_update_spec sch _ _ _ _ _ W DU) as (_ & r0 & I0 & P0 & _ & UB & _).
  inversion S; subst s'. exists r0, (mkRow z (apply_asg (r_cols r0) (p :: asg'))). split; auto. split; auto. split. rewrite upd_obj_db. exact UB. split. reflexivity.
  intros a LT NS. destruct W as [_ RS]. pose proof (RS _ _ I0) as LR. unfold col. cbn [r_cols]. rewrite <- ASG. unfold written_asg.
  rewrite (apply_asg_flat (fun a => negb (attr_is_set sch (o_ent ob) a) && owbit ob a) (fun a => match oval ob a with Some v0 => val_to_db s v0 | None => VNone end)).
  rewrite existsb_eqb_in by (apply in_seq; lia). rewrite NS. reflexivity. apply seq_NoDup. lia.
Qed.

(* what remains for "a reference attribute's committed column = the primary key of the object it refers to":
   (1) the referred object has a primary key when the referring row is written (principals first) and keeps it;
   (2) no row refers to a principal when its DELETE runs - then ON DELETE SET NULL of the database model never changes a column that a cached object
       mirrors.  This is an ordering property of objects_to_save (the UPDATEs / DELETEs of the dependants are queued before the DELETE of the principal,
       and delete() loads the dependants it does not know) and needs (3);
   (3) a fully loaded collection holds every row that refers to its owner (and its pending view is items + added - removed).
   They depend on each other and on the both-ends invariant of C12; none is proved.  The checks compare all three on generated histories with the
   reference state (tools/session_spec.py). *)
Definition reference_columns_statement (sch : schema) : Prop :=
  forall ops s', s_dirty (run sch ops) = O -> step sch (run sch ops) OCommit = (s', ROk) ->
  forall o ob z a t rv x, get_obj s' o = Some ob -> o_pk ob = Some z -> settled (o_st ob) = true -> o_seed ob = false ->
    ref_info sch (o_ent ob) a = Some (t, rv) -> oval ob a = Some x ->
    exists r, In r (tab (s_committed s') (o_ent ob)) /\ r_pk r = z /\ col r a = val_to_db s' x.

Definition loaded_collections_complete_statement (sch : schema) : Prop :=
  forall ops o ob z a t rv sd, s_dirty (run sch ops) = O -> get_obj (run sch ops) o = Some ob -> o_pk ob = Some z ->
    set_info sch (o_ent ob) a = Some (t, rv) -> oset ob a = Some sd -> sd_full sd = true ->
    forall r, In r (tab (s_db (run sch ops)) t) -> col r rv = VInt z ->
      exists i, idx_get (run sch ops) t O (VInt (r_pk r)) = Some i /\ (In i (sd_items sd) \/ In i (sd_removed sd)).

(* reading a collection that is fully loaded answers from the cache alone *)
Lemma read_full_collection_from_cache : forall sch s h a o at_ t rv,
  hget s h = Some o -> get_attr sch (obj_ent s o) a = Some at_ -> a_kind at_ = KSet t rv -> is_del (obj_st s o) = false ->
  has_sd s o a = true -> coll_full s o a = true -> copy_assert_fails s o a = false ->
  read_op sch s h a = objs_res s (sd_items (get_sd s o a)).
Proof. intros sch s h a o at_ t rv HG GA K ND HS CF CA. unfold read_op. rewrite HG, GA, K, ND, HS, CF, CA. reflexivity. Qed.
