(* C01/C02 - basic lemmas: three-valued logic, value encoding, truth-value decoding, n-ary AND/OR, arithmetic. *)
Require Import PonyV.Base.PyBase PonyV.Model.C01Expr PonyV.Model.C01Sql PonyV.Model.C01Translate PonyV.Model.C01Safe.
From Coq Require Import ZifyBool.

(* ------------------------------------------------------------------------------------------- tv *)
Lemma not3_invol : forall c, not3 (not3 c) = c.
Proof. destruct c; reflexivity. Qed.
Lemma and3_T_r : forall c, and3 c T = c.
Proof. destruct c; reflexivity. Qed.
Lemma or3_F_r : forall c, or3 c F = c.
Proof. destruct c; reflexivity. Qed.
Lemma and3_assoc : forall a b c, and3 a (and3 b c) = and3 (and3 a b) c.
Proof. destruct a, b, c; reflexivity. Qed.
Lemma or3_assoc : forall a b c, or3 a (or3 b c) = or3 (or3 a b) c.
Proof. destruct a, b, c; reflexivity. Qed.
Lemma fold_and3_app : forall l1 l2, fold_right and3 T (l1 ++ l2) = and3 (fold_right and3 T l1) (fold_right and3 T l2).
Proof.
  induction l1 as [|x l1 IH]; intros l2; cbn [app fold_right].
  - destruct (fold_right and3 T l2); reflexivity.
  - rewrite IH. apply and3_assoc.
Qed.
Lemma fold_or3_app : forall l1 l2, fold_right or3 F (l1 ++ l2) = or3 (fold_right or3 F l1) (fold_right or3 F l2).
Proof.
  induction l1 as [|x l1 IH]; intros l2; cbn [app fold_right].
  - destruct (fold_right or3 F l2); reflexivity.
  - rewrite IH. apply or3_assoc.
Qed.
Lemma tv_py_roundtrip : forall c, tv_of_py (py_of_tv c) = c.
Proof. destruct c; reflexivity. Qed.

(* ------------------------------------------------------------------------------------------- of_tv / as_tv *)
Lemma as_tv_of_tv : forall d c, as_tv d (of_tv d c) = Some c.
Proof. intros d c; destruct c; unfold of_tv, bv, as_tv; destruct (pg d) eqn:E; cbn; rewrite ?E; reflexivity. Qed.

Lemma of_tv_not_bad : forall d c, is_bad (of_tv d c) = false.
Proof. intros d c; destruct c; unfold of_tv, bv; destruct (pg d); reflexivity. Qed.

Lemma of_tv_inj : forall d c1 c2, of_tv d c1 = of_tv d c2 -> c1 = c2.
Proof.
  intros d c1 c2 H. assert (E : as_tv d (of_tv d c1) = as_tv d (of_tv d c2)) by (rewrite H; reflexivity).
  rewrite !as_tv_of_tv in E. congruence.
Qed.

Lemma bv_of_tv : forall d b, bv d b = of_tv d (tv_of_bool b).
Proof. intros d b; destruct b; reflexivity. Qed.

Lemma sql_truth_of_tv : forall d c, sql_truth d (of_tv d c) = match c with T => true | _ => false end.
Proof. intros. unfold sql_truth. rewrite as_tv_of_tv. reflexivity. Qed.

Lemma qnot_of_tv : forall d c, qnot d (of_tv d c) = of_tv d (not3 c).
Proof. intros. unfold qnot, lift_tv. rewrite as_tv_of_tv. reflexivity. Qed.

(* exact decoding of a canonical truth value *)
Definition dec_tv (d : dname) (v : qv) : option tv :=
  match v with
  | NullV => Some U
  | BoolV b => if pg d then Some (tv_of_bool b) else None
  | IntV z => if pg d then None else if z =? 0 then Some F else if z =? 1 then Some T else None
  | _ => None
  end.

Lemma dec_tv_of_tv : forall d c, dec_tv d (of_tv d c) = Some c.
Proof. intros d c; destruct c; unfold of_tv, bv, dec_tv; destruct (pg d) eqn:E; cbn; rewrite ?E; reflexivity. Qed.

Lemma dec_tv_inv : forall d v c, dec_tv d v = Some c -> v = of_tv d c.
Proof.
  intros d v c H. unfold dec_tv in H. destruct v as [|z|s|b|n m|]; try discriminate.
  - inversion H; reflexivity.
  - destruct (pg d) eqn:E; [discriminate|].
    destruct (z =? 0) eqn:E0; [inversion H; subst; unfold of_tv, bv; rewrite E; f_equal; cbn; lia|].
    destruct (z =? 1) eqn:E1; [inversion H; subst; unfold of_tv, bv; rewrite E; f_equal; cbn; lia|discriminate].
  - destruct (pg d) eqn:E; [|discriminate]. inversion H; subst. destruct b; unfold of_tv, bv; rewrite E; reflexivity.
Qed.

(* ------------------------------------------------------------------------------------------- n-ary AND / OR *)
Lemma all_some_app : forall A (l1 l2 : list (option A)) r1 r2,
  all_some l1 = Some r1 -> all_some l2 = Some r2 -> all_some (l1 ++ l2) = Some (r1 ++ r2).
Proof.
  induction l1 as [|x l1 IH]; intros l2 r1 r2 H1 H2; cbn in *.
  - inversion H1; subst; exact H2.
  - destruct x; [|discriminate]. destruct (all_some l1) eqn:E; [|discriminate]. inversion H1; subst.
    rewrite (IH l2 l r2 eq_refl H2). reflexivity.
Qed.

Lemma qand_list_inv : forall d vs c, qand_list d vs = of_tv d c ->
  exists ts, all_some (map (as_tv d) vs) = Some ts /\ fold_right and3 T ts = c.
Proof.
  intros d vs c H. unfold qand_list in H. destruct (all_some (map (as_tv d) vs)) as [ts|] eqn:E.
  - exists ts; split; [reflexivity|]. apply of_tv_inj in H; exact H.
  - exfalso. pose proof (of_tv_not_bad d c) as B. rewrite <- H in B. discriminate.
Qed.
Lemma qor_list_inv : forall d vs c, qor_list d vs = of_tv d c ->
  exists ts, all_some (map (as_tv d) vs) = Some ts /\ fold_right or3 F ts = c.
Proof.
  intros d vs c H. unfold qor_list in H. destruct (all_some (map (as_tv d) vs)) as [ts|] eqn:E.
  - exists ts; split; [reflexivity|]. apply of_tv_inj in H; exact H.
  - exfalso. pose proof (of_tv_not_bad d c) as B. rewrite <- H in B. discriminate.
Qed.

Lemma qand_list_app : forall d l1 l2 c1 c2,
  qand_list d l1 = of_tv d c1 -> qand_list d l2 = of_tv d c2 -> qand_list d (l1 ++ l2) = of_tv d (and3 c1 c2).
Proof.
  intros d l1 l2 c1 c2 H1 H2.
  destruct (qand_list_inv _ _ _ H1) as [t1 [A1 F1]]. destruct (qand_list_inv _ _ _ H2) as [t2 [A2 F2]].
  unfold qand_list. rewrite map_app, (all_some_app _ _ _ _ _ A1 A2), fold_and3_app, F1, F2. reflexivity.
Qed.
Lemma qor_list_app : forall d l1 l2 c1 c2,
  qor_list d l1 = of_tv d c1 -> qor_list d l2 = of_tv d c2 -> qor_list d (l1 ++ l2) = of_tv d (or3 c1 c2).
Proof.
  intros d l1 l2 c1 c2 H1 H2.
  destruct (qor_list_inv _ _ _ H1) as [t1 [A1 F1]]. destruct (qor_list_inv _ _ _ H2) as [t2 [A2 F2]].
  unfold qor_list. rewrite map_app, (all_some_app _ _ _ _ _ A1 A2), fold_or3_app, F1, F2. reflexivity.
Qed.
Lemma qand_list_one : forall d c, qand_list d [of_tv d c] = of_tv d c.
Proof. intros. unfold qand_list. cbn. rewrite as_tv_of_tv. cbn. rewrite and3_T_r. reflexivity. Qed.
Lemma qor_list_one : forall d c, qor_list d [of_tv d c] = of_tv d c.
Proof. intros. unfold qor_list. cbn. rewrite as_tv_of_tv. cbn. rewrite or3_F_r. reflexivity. Qed.
Lemma qand_list_two : forall d a b, qand_list d [of_tv d a; of_tv d b] = of_tv d (and3 a b).
Proof. intros. unfold qand_list. cbn. rewrite !as_tv_of_tv. cbn. rewrite and3_T_r. reflexivity. Qed.
Lemma qor_list_two : forall d a b, qor_list d [of_tv d a; of_tv d b] = of_tv d (or3 a b).
Proof. intros. unfold qor_list. cbn. rewrite !as_tv_of_tv. cbn. rewrite or3_F_r. reflexivity. Qed.

(* ------------------------------------------------------------------------------------------- enc *)
Lemma enc_null : forall d v, enc d v = NullV -> v = PNone.
Proof. intros d v H; destruct v as [|z|s|b]; cbn in H; try discriminate; [reflexivity|]. unfold bv in H; destruct (pg d); discriminate. Qed.

Lemma enc_not_bad : forall d v, is_bad (enc d v) = false.
Proof. intros d v; destruct v as [|z|s|b]; cbn; try reflexivity. unfold bv; destruct (pg d); reflexivity. Qed.

Lemma enc_is_null : forall d v, is_null (enc d v) = is_none v.
Proof. intros d v; destruct v as [|z|s|b]; cbn; try reflexivity. unfold bv; destruct (pg d); reflexivity. Qed.

Lemma enc_py_of_tv : forall d c, enc d (py_of_tv c) = of_tv d c.
Proof. intros d c; destruct c; reflexivity. Qed.

Lemma compat_enc : forall d v1 v2 t, has_vty v1 t = true -> has_vty v2 t = true -> compat (enc d v1) (enc d v2) = true.
Proof.
  intros d v1 v2 t H1 H2. destruct v1 as [|z1|s1|b1], v2 as [|z2|s2|b2], t; cbn in *; try discriminate; try reflexivity;
    unfold compat, bv; destruct (pg d); reflexivity.
Qed.

(* ------------------------------------------------------------------------------------------- comparisons *)
Lemma cmp_res_neg : forall op c, cmp_res (neg_cop op) c = negb (cmp_res op c).
Proof. intros op c; destruct op, c; reflexivity. Qed.

Lemma qcmp_neg : forall d op a b, qcmp d (neg_cop op) a b = qnot d (qcmp d op a b).
Proof.
  intros d op a b.
  assert (N : forall x, bv d (negb x) = qnot d (bv d x)) by (intro x; rewrite !bv_of_tv, qnot_of_tv; destruct x; reflexivity).
  destruct a as [|x|x|x|n m|], b as [|y|y|y|n' m'|]; cbn [qcmp]; rewrite ?cmp_res_neg, ?N; try reflexivity.
Qed.

Lemma bool_compare_b2z : forall x y, bool_compare x y = (b2z x ?= b2z y).
Proof. destruct x, y; reflexivity. Qed.

Lemma qisnull_neg : forall d n v, qisnull d (negb n) v = qnot d (qisnull d n v).
Proof.
  intros d n v. assert (N : forall x, bv d (negb x) = qnot d (bv d x)) by (intro x; rewrite !bv_of_tv, qnot_of_tv; destruct x; reflexivity).
  destruct v; cbn [qisnull]; rewrite ?N, ?Bool.negb_involutive; try reflexivity.
Qed.

(* ------------------------------------------------------------------------------------------- arithmetic *)
Lemma quot_floor : forall x y, y <> 0 -> (x mod y = 0 \/ same_sign x y = true) -> Z.quot x y = x / y.
Proof.
  intros x y Hy [H|H].
  - apply Z.mod_divide in H; [|exact Hy]. destruct H as [q ->]. rewrite Z.quot_mul, Z.div_mul by exact Hy. reflexivity.
  - unfold same_sign in H. destruct (0 <=? x) eqn:Ex, (0 <=? y) eqn:Ey; cbn in H; try discriminate.
    + apply Z.quot_div_nonneg; lia.
    + rewrite <- (Z.quot_opp_opp x y) by exact Hy. rewrite <- (Z.div_opp_opp x y) by exact Hy.
      apply Z.quot_div_nonneg; lia.
Qed.

Lemma rem_mod : forall x y, y <> 0 -> (x mod y = 0 \/ same_sign x y = true) -> Z.rem x y = x mod y.
Proof.
  intros x y Hy H. pose proof (quot_floor x y Hy H) as Q.
  pose proof (Z.quot_rem' x y) as E1. pose proof (Z.div_mod x y Hy) as E2. rewrite Q in E1. lia.
Qed.

Lemma qarith_safe : forall d op x y, modelled d = true -> arith_safe d op x y = true ->
  qarith d (qbin_of_aop op) (IntV x) (IntV y) = IntV (py_arith op x y).
Proof.
  intros d op x y Hd Hs. unfold arith_safe in Hs.
  destruct op; cbn [qbin_of_aop qarith py_arith]; try reflexivity.
  - (* FloorDiv *)
    apply andb_prop in Hs; destruct Hs as [Hy Hs]. assert (Y : y <> 0) by lia.
    unfold qdiv, py_floordiv. destruct d; try discriminate; cbn in Hs.
    + replace (y =? 0) with false by lia. rewrite quot_floor; [reflexivity|exact Y|]. lia.
    + replace (y =? 0) with false by lia. rewrite quot_floor; [reflexivity|exact Y|]. lia.
    + replace (y =? 0) with false by lia. replace (x mod y =? 0) with true by lia. reflexivity.
  - (* Mod *)
    apply andb_prop in Hs; destruct Hs as [Hy Hs]. assert (Y : y <> 0) by lia.
    unfold qmod, py_mod. destruct d; try discriminate; replace (y =? 0) with false by lia; (rewrite rem_mod; [reflexivity|exact Y|lia]).
  - (* TrueDiv *)
    apply andb_prop in Hs; destruct Hs as [Hy Hs]. assert (Y : y <> 0) by lia.
    unfold qdiv. destruct d; try discriminate; replace (y =? 0) with false by lia.
    + rewrite quot_floor; [reflexivity|exact Y|lia].
    + rewrite quot_floor; [reflexivity|exact Y|lia].
    + replace (x mod y =? 0) with true by lia. reflexivity.
Qed.

Lemma ascii_qlen : forall d s, (match d with DMysql => ascii s | _ => true end) = true -> qlen d s = zlen s.
Proof.
  intros d s H. destruct d; try reflexivity. unfold qlen. induction s as [|c s IH]; [reflexivity|].
  cbn in H. apply andb_prop in H; destruct H as [Hc Hs]. cbn [fold_right]. rewrite (IH Hs).
  unfold utf8_len. replace (c <? 128) with true by lia. unfold zlen. cbn [length]. lia.
Qed.
