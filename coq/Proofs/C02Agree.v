(* C02 - agreement of the modelled dialects as a corollary of the C01 soundness theorem (each dialect's SQL computes the
   same Python-level value, so any two agree), and the "no limit" LIMIT forms. *)
Require Import PonyV.Base.PyBase PonyV.Model.C01Expr PonyV.Model.C01Sql PonyV.Model.C01Translate PonyV.Model.C01Safe
               PonyV.Model.C01Eqb PonyV.Model.C01Query
               PonyV.Proofs.C01Base PonyV.Proofs.C01Ref PonyV.Proofs.C01Monad PonyV.Proofs.C01Ops PonyV.Proofs.C01Sound PonyV.Proofs.C01Rows.
From Coq Require Import ZifyBool.

Theorem agree_project : forall d1 d2, modelled d1 = true -> modelled d2 = true ->
  forall en e vt, ty_of e = Some (TV vt) -> env_ok en e = true -> safe d1 en e = true -> safe d2 en e = true ->
  exists q1 q2, tr_project d1 e = Some q1 /\ tr_project d2 e = Some q2 /\
    dec (TV vt) (qeval d1 (encenv d1 en) q1) = dec (TV vt) (qeval d2 (encenv d2 en) q2).
Proof.
  intros d1 d2 H1 H2 en e vt Ht Hen S1 S2.
  destruct (project_pony d1 H1 en e vt Ht Hen S1) as [q1 [E1 [Q1 T1]]].
  destruct (project_pony d2 H2 en e vt Ht Hen S2) as [q2 [E2 [Q2 T2]]].
  exists q1, q2. split; [exact E1|]. split; [exact E2|]. rewrite Q1, Q2, !dec_enc by assumption. reflexivity.
Qed.

Theorem agree_filter : forall d1 d2, modelled d1 = true -> modelled d2 = true ->
  forall en e t, ty_of e = Some t -> boolable t = true -> env_ok en e = true -> safe d1 en e = true -> safe d2 en e = true ->
  exists c1 c2, tr_filter d1 e = Some c1 /\ tr_filter d2 e = Some c2 /\
    where_truth d1 (encenv d1 en) c1 = where_truth d2 (encenv d2 en) c2.
Proof.
  intros d1 d2 H1 H2 en e t Ht B Hen S1 S2.
  destruct (filter_pony d1 H1 en e t Ht B Hen S1) as [c1 [E1 W1]].
  destruct (filter_pony d2 H2 en e t Ht B Hen S2) as [c2 [E2 W2]].
  exists c1, c2. split; [exact E1|]. split; [exact E2|]. rewrite W1, W2. reflexivity.
Qed.

(* whole result lists, decoded by the converters: the same list on both dialects (no [pos_ok] / [clean] needed: both
   dialects implement the same three-valued reading) *)
Definition row_ok2 (d1 d2 : dname) (filt proj : expr) (en : env) : Prop :=
  env_ok en filt = true /\ safe d1 en filt = true /\ safe d2 en filt = true /\
  env_ok en proj = true /\ safe d1 en proj = true /\ safe d2 en proj = true.

Theorem agree_rows : forall d1 d2, modelled d1 = true -> modelled d2 = true ->
  forall filt tf proj vt table c1 q1 c2 q2,
  ty_of filt = Some tf -> boolable tf = true -> ty_of proj = Some (TV vt) ->
  tr_filter d1 filt = Some c1 -> tr_project d1 proj = Some q1 ->
  tr_filter d2 filt = Some c2 -> tr_project d2 proj = Some q2 ->
  Forall (row_ok2 d1 d2 filt proj) table ->
  map (dec (TV vt)) (sql_rows d1 false c1 q1 table) = map (dec (TV vt)) (sql_rows d2 false c2 q2 table).
Proof.
  intros d1 d2 H1 H2 filt tf proj vt table c1 q1 c2 q2 Hf B Hp F1 P1 F2 P2 Hall.
  unfold sql_rows. rewrite Forall_forall in Hall.
  assert (FE : filter (fun en => where_truth d1 (encenv d1 en) c1) table = filter (fun en => where_truth d2 (encenv d2 en) c2) table).
  { apply filter_ext_in'. intros en Hin. destruct (Hall en Hin) as [A1 [A2 [A3 _]]].
    destruct (agree_filter d1 d2 H1 H2 en filt tf Hf B A1 A2 A3) as [x1 [x2 [E1 [E2 W]]]]. congruence. }
  rewrite FE. set (kept := filter (fun en => where_truth d2 (encenv d2 en) c2) table).
  assert (KIn : forall en, In en kept -> In en table) by (intros en H; apply filter_In in H; tauto).
  rewrite !map_map. apply map_ext_in. intros en Hin. destruct (Hall en (KIn en Hin)) as [_ [_ [_ [A4 [A5 A6]]]]].
  destruct (agree_project d1 d2 H1 H2 en proj vt Hp A4 A5 A6) as [x1 [x2 [E1 [E2 W]]]]. congruence.
Qed.
