(* C15 - proofs: removal under any policy (Entity._delete_ rules, or the schema's ON DELETE clauses executed by the database)
   keeps "every stored link is well typed and joins two live objects"; hence no committed state has a dangling reference. *)
From Coq Require Import List Bool Arith Lia.
Import ListNotations.
Require Import PonyV.Model.C15Delete.

(* ------------------------------------------------------------------------------------------------ objects *)
Lemma ent_of_kill : forall s o z, ent_of (kill s o) z = if Nat.eqb z o then None else ent_of s z.
Proof.
  intros [os ls] o z. unfold ent_of, kill; cbn. induction os as [|[x e] os IH]; cbn.
  - destruct (Nat.eqb z o); reflexivity.
  - destruct (Nat.eqb x o) eqn:Exo; cbn.
    + rewrite IH. destruct (Nat.eqb z o) eqn:Ezo; [reflexivity|].
      destruct (Nat.eqb x z) eqn:Exz; [|reflexivity].
      apply Nat.eqb_eq in Exo, Exz. subst. rewrite Nat.eqb_refl in Ezo. discriminate.
    + destruct (Nat.eqb x z) eqn:Exz.
      * apply Nat.eqb_eq in Exz; subst. rewrite Exo. reflexivity.
      * exact IH.
Qed.

Lemma ent_of_unlink : forall sch s o e a z, ent_of (unlink sch s o e a) z = ent_of s z.
Proof. reflexivity. Qed.

(* objects only die, links only disappear *)
Definition sub (s' s : st) : Prop :=
  (forall z, ent_of s' z = ent_of s z \/ ent_of s' z = None) /\ incl (links s') (links s).

Lemma sub_refl : forall s, sub s s.
Proof. intros s; split; [intros z; now left | apply incl_refl]. Qed.

Lemma sub_trans : forall a b c, sub a b -> sub b c -> sub a c.
Proof.
  intros a b c [H1 L1] [H2 L2]. split; [|eapply incl_tran; eassumption].
  intros z. destruct (H1 z) as [E|E]; [rewrite E; apply H2 | now right].
Qed.

Lemma sub_dead : forall s' s z, sub s' s -> ent_of s z = None -> ent_of s' z = None.
Proof. intros s' s z [H _] E. destruct (H z) as [E'|E']; congruence. Qed.

Section WithSchema.
Variable sch : schema.
Hypothesis WF : wf_schema sch = true.

Lemma wf_attr_of : forall e a, e < length sch -> a < length (nth e sch []) -> wf_attr sch e a = true.
Proof.
  intros e a He Ha. unfold wf_schema in WF. rewrite forallb_forall in WF.
  specialize (WF e). rewrite in_seq in WF. specialize (WF (conj (Nat.le_0_l _) He)).
  rewrite forallb_forall in WF. apply WF. apply in_seq. lia.
Qed.

(* the filter predicate shared by partners and unlink *)
Definition cov (e a : nat) (o : oid) (l : link) : bool :=
  if canon sch e a then link_is e a l && Nat.eqb (l_x l) o
  else link_is (a_target (get_attr sch e a)) (a_reverse (get_attr sch e a)) l && Nat.eqb (l_y l) o.
Definition other (e a : nat) (l : link) : oid := if canon sch e a then l_y l else l_x l.

Lemma partners_cov : forall s o e a, partners sch s o e a = map (other e a) (filter (cov e a o) (links s)).
Proof. intros. unfold partners, cov, other. destruct (canon sch e a); reflexivity. Qed.

Lemma unlink_cov : forall s o e a, links (unlink sch s o e a) = filter (fun l => negb (cov e a o l)) (links s).
Proof. intros. unfold unlink, cov. cbn. destruct (canon sch e a); reflexivity. Qed.

Lemma attr_order_complete : forall e a, a < length (nth e sch []) -> In a (attr_order sch e).
Proof.
  intros e a Ha. unfold attr_order, attr_ids. apply in_or_app.
  set (xs := nth e sch []) in *.
  assert (Hgen : forall (ys : list attr) base k, k < length ys -> In (base + k, nth k ys dummy) (combine (seq base (length ys)) ys)).
  { induction ys as [|y ys IH]; intros base k Hk; cbn in *; [lia|].
    destruct k; [left; f_equal; lia|]. right.
    replace (base + S k) with (S base + k) by lia. apply IH. lia. }
  specialize (Hgen xs 0 a Ha). cbn in Hgen.
  destruct (a_kind (nth a xs dummy)) eqn:Ek.
  - right. apply in_map_iff. exists (a, nth a xs dummy). split; [reflexivity|].
    apply filter_In. split; [exact Hgen|]. cbn. now rewrite Ek.
  - left. apply in_map_iff. exists (a, nth a xs dummy). split; [reflexivity|].
    apply filter_In. split; [exact Hgen|]. cbn. now rewrite Ek.
Qed.

(* every well-typed link that mentions a live object is found through one of that object's attributes *)
Lemma covering : forall s l o e,
  typed sch s l -> mentions o l = true -> ent_of s o = Some e ->
  exists a, In a (attr_order sch e) /\ cov e a o l = true.
Proof.
  intros s l o e [Hc [He [Ha [Hx Hy]]]] Hm Ho.
  unfold mentions in Hm. apply orb_true_iff in Hm as [Hm|Hm]; apply Nat.eqb_eq in Hm.
  - (* o is the storing end *)
    subst o. rewrite Hx in Ho. injection Ho as <-.
    exists (l_a l). split; [now apply attr_order_complete|].
    unfold cov. rewrite Hc. unfold link_is. now rewrite !Nat.eqb_refl.
  - (* o is the other end: its own attribute is the reverse one *)
    subst o. rewrite Hy in Ho. injection Ho as <-.
    pose proof (wf_attr_of _ _ He Ha) as W. unfold wf_attr in W.
    repeat (apply andb_true_iff in W as [W ?]).
    apply Nat.ltb_lt in W. apply Nat.eqb_eq in H0, H1. apply Nat.ltb_lt in H2. apply Bool.eqb_prop in H.
    exists (a_reverse (get_attr sch (l_e l) (l_a l))). split; [now apply attr_order_complete|].
    unfold cov. rewrite Hc in H. destruct (canon sch _ (a_reverse _)) eqn:Ec; [discriminate|].
    rewrite H1, H0. unfold link_is. now rewrite !Nat.eqb_refl.
Qed.

(* ------------------------------------------------------------------------------------------------ invariant *)
Lemma typed_sub_objs : forall s s' l, typed sch s l ->
  ent_of s' (l_x l) = ent_of s (l_x l) -> ent_of s' (l_y l) = ent_of s (l_y l) -> typed sch s' l.
Proof. intros s s' l [A [B [C [D E]]]] Hx Hy. repeat split; try assumption; congruence. Qed.

Definition good (rm : oid -> st -> option st) : Prop :=
  forall o s s', inv sch s -> rm o s = Some s' -> inv sch s' /\ sub s' s /\ ent_of s' o = None.

Lemma fold_rm_good : forall rm ps s s', good rm -> inv sch s -> fold_opt rm ps s = Some s' ->
  inv sch s' /\ sub s' s /\ (forall p, In p ps -> ent_of s' p = None).
Proof.
  intros rm ps; induction ps as [|p ps IH]; intros s s' G I F; cbn in F.
  - injection F as <-. split; [assumption|]. split; [apply sub_refl | intros p []].
  - destruct (rm p s) as [s1|] eqn:E; [|discriminate].
    destruct (G _ _ _ I E) as [I1 [S1 D1]]. destruct (IH _ _ G I1 F) as [I2 [S2 D2]].
    split; [assumption|]. split; [eapply sub_trans; eassumption|].
    intros q [<-|Hq]; [eapply sub_dead; eassumption | now apply D2].
Qed.

Definition uncovered (e a : nat) (o : oid) (s : st) : Prop := forall l, In l (links s) -> cov e a o l = false.

Lemma uncovered_sub : forall e a o s s', sub s' s -> uncovered e a o s -> uncovered e a o s'.
Proof. intros e a o s s' [_ L] U l Hl. apply U, L, Hl. Qed.

Lemma step_attr_good : forall policy rm o e a s s',
  good rm -> inv sch s -> step_attr sch policy rm o e a s = Some s' ->
  inv sch s' /\ sub s' s /\ uncovered e a o s'.
Proof.
  intros policy rm o e a s s' G I F. unfold step_attr in F. rewrite partners_cov in F.
  destruct (map (other e a) (filter (cov e a o) (links s))) as [|p ps] eqn:Eps.
  - injection F as <-. split; [assumption|]. split; [apply sub_refl|].
    intros l Hl. destruct (cov e a o l) eqn:Ec; [|reflexivity].
    assert (In l (filter (cov e a o) (links s))) by (apply filter_In; auto).
    destruct (filter (cov e a o) (links s)); [contradiction | discriminate].
  - destruct (policy e a).
    + (* cascade: every partner is removed; a covered link would join o to a dead partner *)
      rewrite <- Eps in F. destruct (fold_rm_good _ _ _ _ G I F) as [I' [S' D']].
      split; [assumption|]. split; [assumption|].
      intros l Hl. destruct (cov e a o l) eqn:Ec; [|reflexivity]. exfalso.
      assert (Hin : In (other e a l) (map (other e a) (filter (cov e a o) (links s)))).
      { apply in_map. apply filter_In. split; [apply (proj2 S'), Hl | assumption]. }
      specialize (D' _ Hin). destruct (I' l Hl) as [_ [_ [_ [Hx Hy]]]].
      unfold other in D'. destruct (canon sch e a); congruence.
    + (* unlink *)
      injection F as <-. split; [|split].
      * intros l Hl. rewrite unlink_cov in Hl. apply filter_In in Hl as [Hl _].
        eapply typed_sub_objs; [apply I, Hl | reflexivity | reflexivity].
      * split; [intros z; now left|]. rewrite unlink_cov. intros l Hl. apply filter_In in Hl. tauto.
      * intros l Hl. rewrite unlink_cov in Hl. apply filter_In in Hl as [_ Hl]. now apply negb_true_iff in Hl.
    + discriminate.
Qed.

Lemma fold_attrs_good : forall policy rm o e attrs s s',
  good rm -> inv sch s -> fold_opt (fun a => step_attr sch policy rm o e a) attrs s = Some s' ->
  inv sch s' /\ sub s' s /\ (forall a, In a attrs -> uncovered e a o s').
Proof.
  intros policy rm o e attrs; induction attrs as [|a attrs IH]; intros s s' G I F; cbn in F.
  - injection F as <-. split; [assumption|]. split; [apply sub_refl | intros a []].
  - destruct (step_attr sch policy rm o e a s) as [s1|] eqn:E; [|discriminate].
    destruct (step_attr_good _ _ _ _ _ _ _ G I E) as [I1 [S1 U1]].
    destruct (IH _ _ G I1 F) as [I2 [S2 U2]].
    split; [assumption|]. split; [eapply sub_trans; eassumption|].
    intros b [<-|Hb]; [eapply uncovered_sub; eassumption | now apply U2].
Qed.

Lemma remove_good : forall policy fuel, good (remove sch policy fuel).
Proof.
  intros policy fuel; induction fuel as [|f IH]; intros o s s' I R; cbn in R; [discriminate|].
  destruct (ent_of s o) as [e|] eqn:Eo.
  2:{ injection R as <-. split; [assumption|]. split; [apply sub_refl | assumption]. }
  destruct (fold_opt (fun a => step_attr sch policy (remove sch policy f) o e a) (attr_order sch e) s) as [s1|] eqn:F; [|discriminate].
  injection R as <-.
  destruct (fold_attrs_good _ _ _ _ _ _ _ IH I F) as [I1 [S1 U1]].
  assert (Hclean : forall l, In l (links s1) -> mentions o l = false).
  { intros l Hl. destruct (mentions o l) eqn:Hm; [|reflexivity]. exfalso.
    destruct (ent_of s1 o) as [e1|] eqn:Eo1.
    - assert (e1 = e) by (destruct (proj1 S1 o) as [E|E]; congruence). subst e1.
      destruct (covering _ _ _ _ (I1 l Hl) Hm Eo1) as [a [Ha Hc]].
      rewrite (U1 a Ha l Hl) in Hc. discriminate.
    - destruct (I1 l Hl) as [_ [_ [_ [Hx Hy]]]]. unfold mentions in Hm.
      apply orb_true_iff in Hm as [Hm|Hm]; apply Nat.eqb_eq in Hm; subst o; congruence. }
  split; [|split].
  - intros l Hl. cbn in Hl. specialize (Hclean l Hl). unfold mentions in Hclean. apply orb_false_iff in Hclean as [Hx Hy].
    eapply typed_sub_objs; [apply I1, Hl | |]; rewrite ent_of_kill; [now rewrite Hx | now rewrite Hy].
  - eapply sub_trans; [|exact S1]. split; [|apply incl_refl].
    intros z. rewrite ent_of_kill. destruct (Nat.eqb z o); [now right | now left].
  - rewrite ent_of_kill, Nat.eqb_refl. reflexivity.
Qed.

(* ------------------------------------------------------------------------------------------------ operations and histories *)
Lemma inv_no_dangling : forall s, inv sch s -> no_dangling s.
Proof.
  intros s I l Hl. destruct (I l Hl) as [_ [_ [_ [Hx Hy]]]]. unfold dangling, alive. now rewrite Hx, Hy.
Qed.

Lemma ent_of_new : forall s x e ls z, ent_of (mkst ((x, e) :: objs s) ls) z = if Nat.eqb x z then Some e else ent_of s z.
Proof. intros. unfold ent_of. cbn. destruct (Nat.eqb x z); reflexivity. Qed.

Lemma add_links_typed : forall s x e refs ls LS,
  e < length sch -> alive s x = false ->
  forallb (fun r => Nat.ltb (fst r) (length (nth e sch []))
                    && match ent_of s (snd r) with Some t => Nat.eqb t (a_target (get_attr sch e (fst r))) | None => false end) refs = true ->
  (forall l, In l ls -> typed sch (mkst ((x, e) :: objs s) LS) l) ->
  forall l, In l (add_links sch x e refs ls) -> typed sch (mkst ((x, e) :: objs s) LS) l.
Proof.
  intros s x e refs. unfold add_links.
  induction refs as [|[a y] refs IH]; intros ls LS He Hx Hr Hls l Hl; cbn in *; [now apply Hls|].
  apply andb_true_iff in Hr as [Hr1 Hr2]. apply andb_true_iff in Hr1 as [Ha Hy]. apply Nat.ltb_lt in Ha.
  destruct (ent_of s y) as [t|] eqn:Ey; [|discriminate]. apply Nat.eqb_eq in Hy. subst t.
  assert (Hyx : Nat.eqb x y = false).
  { destruct (Nat.eqb x y) eqn:E; [|reflexivity]. apply Nat.eqb_eq in E; subst y. unfold alive in Hx. rewrite Ey in Hx. discriminate. }
  pose proof (wf_attr_of _ _ He Ha) as W. unfold wf_attr in W.
  repeat (apply andb_true_iff in W as [W ?]).
  apply Nat.ltb_lt in W. apply Nat.eqb_eq in H0, H1. apply Nat.ltb_lt in H2. apply Bool.eqb_prop in H.
  eapply (IH _ LS He Hx Hr2); [|exact Hl].
  intros l0 Hl0. destruct (canon sch e a) eqn:Ec; destruct Hl0 as [<-|Hl0]; try (now apply Hls).
  - repeat split; cbn; try assumption; rewrite ent_of_new; [now rewrite Nat.eqb_refl | rewrite Hyx; exact Ey].
  - repeat split; cbn; try assumption.
    + symmetry in H. now apply negb_false_iff in H.
    + rewrite ent_of_new, Hyx. exact Ey.
    + rewrite ent_of_new, Nat.eqb_refl. now rewrite H1.
Qed.

Lemma step_inv : forall s o, inv sch s -> new_ok sch s o = true -> inv sch (fst (step sch s o)).
Proof.
  intros s [x e refs|x|xs] I Hok; unfold step.
  - cbn [fst]. cbn in Hok. apply andb_true_iff in Hok as [Hok Hr]. apply andb_true_iff in Hok as [Hx He].
    apply negb_true_iff in Hx. apply Nat.ltb_lt in He.
    intros l Hl. cbn in Hl.
    eapply (add_links_typed s x e refs (links s) _ He Hx Hr); [|exact Hl].
    intros l0 Hl0. destruct (I l0 Hl0) as [A [B [C [D E]]]]. repeat split; try assumption; cbn; rewrite ent_of_new.
    + destruct (Nat.eqb x (l_x l0)) eqn:Ex; [|exact D]. apply Nat.eqb_eq in Ex. subst x. unfold alive in Hx. rewrite D in Hx. discriminate.
    + destruct (Nat.eqb x (l_y l0)) eqn:Ex; [|exact E]. apply Nat.eqb_eq in Ex. subst x. unfold alive in Hx. rewrite E in Hx. discriminate.
  - destruct (remove sch (mem_policy sch) fuel0 x s) as [s'|] eqn:R; cbn [fst]; [|assumption].
    now destruct (remove_good _ _ _ _ _ I R).
  - destruct (fold_opt (remove sch (db_policy sch) fuel0) xs s) as [s'|] eqn:R; cbn [fst]; [|assumption].
    now destruct (fold_rm_good _ _ _ _ (remove_good _ _) I R).
Qed.

(* all creations of a history are well formed (fresh handle, existing partners of the right entity) *)
Fixpoint run_ok (s : st) (ops : list op) : bool :=
  match ops with
  | [] => true
  | o :: ops' => new_ok sch s o && run_ok (fst (step sch s o)) ops'
  end.

Lemma run_inv_from : forall ops s, inv sch s -> run_ok s ops = true -> inv sch (fold_left (fun s o => fst (step sch s o)) ops s).
Proof.
  induction ops as [|o ops IH]; intros s I H; cbn in *; [assumption|].
  apply andb_true_iff in H as [H1 H2]. apply IH; [now apply step_inv | assumption].
Qed.

Lemma history_no_dangling : forall ops, run_ok (mkst [] []) ops = true -> no_dangling (run sch ops).
Proof. intros ops H. apply inv_no_dangling. apply run_inv_from; [intros l [] | assumption]. Qed.

(* a successful delete / bulk delete really removes the object(s) *)
Lemma delete_kills : forall s x s', inv sch s -> remove sch (mem_policy sch) fuel0 x s = Some s' -> alive s' x = false /\ no_dangling s'.
Proof.
  intros s x s' I R. destruct (remove_good _ _ _ _ _ I R) as [I' [_ D]]. split; [unfold alive; now rewrite D | now apply inv_no_dangling].
Qed.

Lemma bulk_kills : forall s xs s', inv sch s -> fold_opt (remove sch (db_policy sch) fuel0) xs s = Some s' ->
  (forall x, In x xs -> alive s' x = false) /\ no_dangling s'.
Proof.
  intros s xs s' I R. destruct (fold_rm_good _ _ _ _ (remove_good _ _) I R) as [I' [_ D]].
  split; [intros x Hx; unfold alive; now rewrite (D x Hx) | now apply inv_no_dangling].
Qed.

(* per relationship, at the step of _delete_ that handles it *)
Lemma step_refuse : forall policy rm o e a s, policy e a = ARefuse -> partners sch s o e a <> [] -> step_attr sch policy rm o e a s = None.
Proof. intros policy rm o e a s Hp Hn. unfold step_attr. destruct (partners sch s o e a); [contradiction | now rewrite Hp]. Qed.

Lemma step_clear : forall policy rm o e a s, policy e a = AUnlink -> inv sch s ->
  exists s', step_attr sch policy rm o e a s = Some s' /\ partners sch s' o e a = [] /\ objs s' = objs s.
Proof.
  intros policy rm o e a s Hp I. unfold step_attr. destruct (partners sch s o e a) eqn:Ep.
  - exists s. repeat split; assumption.
  - rewrite Hp. exists (unlink sch s o e a). split; [reflexivity|]. split; [|reflexivity].
    rewrite partners_cov, unlink_cov.
    replace (filter (cov e a o) (filter (fun l => negb (cov e a o l)) (links s))) with (@nil link); [reflexivity|].
    symmetry. induction (links s) as [|l0 ls IH]; cbn; [reflexivity|].
    destruct (cov e a o l0) eqn:Ec; cbn; [exact IH | rewrite Ec; exact IH].
Qed.

Lemma step_cascade : forall policy fuel o e a s s', policy e a = ACascade -> inv sch s ->
  step_attr sch policy (remove sch policy fuel) o e a s = Some s' ->
  forall p, In p (partners sch s o e a) -> alive s' p = false.
Proof.
  intros policy fuel o e a s s' Hp I F p Hin. unfold step_attr in F.
  destruct (partners sch s o e a) eqn:Ep; [contradiction|]. rewrite Hp in F.
  destruct (fold_rm_good _ _ _ _ (remove_good policy fuel) I F) as [_ [_ D]].
  unfold alive. now rewrite (D p Hin).
Qed.

End WithSchema.

(* a refusal changes nothing (in the model: by construction of `step`) *)
Lemma refusal_no_change : forall sch s o, snd (step sch s o) = RRefused -> fst (step sch s o) = s.
Proof.
  intros sch s [x e refs|x|xs]; unfold step; intro H.
  - discriminate.
  - destruct (remove sch (mem_policy sch) fuel0 x s); [discriminate | reflexivity].
  - destruct (fold_opt (remove sch (db_policy sch) fuel0) xs s); [discriminate | reflexivity].
Qed.

(* what the flags mean for Entity._delete_ (mem_policy), one line per relationship kind x flag *)
Lemma policy_one_to_many_default : forall sch e a,
  a_kind (get_attr sch e a) = KSet -> a_kind (rev_attr sch e a) = KRef -> a_cascade_opt (get_attr sch e a) = None ->
  mem_policy sch e a = if a_required (rev_attr sch e a) then ACascade else AUnlink.
Proof. intros sch e a K R C. unfold mem_policy, cascade, is_set. rewrite K, C. cbn. destruct (a_required (rev_attr sch e a)); reflexivity. Qed.

Lemma policy_explicit : forall sch e a b,
  a_kind (get_attr sch e a) = KSet -> a_cascade_opt (get_attr sch e a) = Some b ->
  mem_policy sch e a = if b then ACascade else if a_required (rev_attr sch e a) then ARefuse else AUnlink.
Proof. intros sch e a b K C. unfold mem_policy, cascade. rewrite K, C. destruct b; [reflexivity|]. destruct (a_required (rev_attr sch e a)); reflexivity. Qed.

Lemma policy_many_to_many : forall sch e a,
  a_kind (get_attr sch e a) = KSet -> a_kind (rev_attr sch e a) = KSet -> a_cascade_opt (get_attr sch e a) = None ->
  a_required (rev_attr sch e a) = false -> mem_policy sch e a = AUnlink.
Proof. intros sch e a K R C Q. unfold mem_policy, cascade, is_set. rewrite K, C, Q. reflexivity. Qed.

Lemma policy_one_to_one : forall sch e a,
  a_kind (get_attr sch e a) = KRef -> a_kind (rev_attr sch e a) = KRef ->
  mem_policy sch e a = if cascade sch e a then ACascade else if a_required (rev_attr sch e a) then ARefuse else AUnlink.
Proof. intros sch e a K R. unfold mem_policy. rewrite K, R. destruct (cascade sch e a); [reflexivity|]. destruct (a_required (rev_attr sch e a)); reflexivity. Qed.

(* the database (ON DELETE clauses) treats the rows that reference a deleted row exactly as _delete_ treats the partners,
   for every relationship whose column is on the other side *)
Lemma db_agrees_with_memory : forall sch e a,
  a_target (rev_attr sch e a) = e -> a_reverse (rev_attr sch e a) = a ->
  has_column sch e a = false -> a_kind (rev_attr sch e a) = KRef ->
  db_policy sch e a = mem_policy sch e a.
Proof.
  intros sch e a Ht Hr H K. unfold db_policy, mem_policy, fk_on_delete. rewrite H, K. unfold rev_attr in *. rewrite Ht, Hr.
  destruct (a_kind (get_attr sch e a)); destruct (cascade sch e a); try reflexivity;
    destruct (a_required (get_attr sch (a_target (get_attr sch e a)) (a_reverse (get_attr sch e a)))); reflexivity.
Qed.

(* ================================================================================================ the whole call (closure)
   Which side removed a link?  A link disappears either because one of its ends is gone, or because an end that is being deleted
   unlinked it through an attribute whose policy is "clear".  Consequently a partner reached through a CASCADING attribute of a deleted
   object cannot survive a successful call. *)
Section Closure.
Variable sch : schema.
Hypothesis WF : wf_schema sch = true.
Variable policy : nat -> nat -> action.

Lemma attr_order_range : forall e a, In a (attr_order sch e) -> a < length (nth e sch []) /\ e < length sch.
Proof.
  intros e a H.
  assert (Ha : a < length (nth e sch [])).
  { unfold attr_order, attr_ids in H. apply in_app_or in H.
    assert (G : forall (f : nat * attr -> bool), In a (map fst (filter f (combine (seq 0 (length (nth e sch []))) (nth e sch [])))) -> a < length (nth e sch [])).
    { intros f Hin. apply in_map_iff in Hin as [[a' x] [E Hin]]. cbn in E. subst a'. apply filter_In in Hin as [Hin _].
      apply in_combine_l in Hin. apply in_seq in Hin. lia. }
    destruct H as [H|H]; eapply G; exact H. }
  split; [assumption|]. destruct (Nat.lt_ge_cases e (length sch)) as [L|L]; [assumption|].
  rewrite (nth_overflow sch [] L) in Ha. cbn in Ha. lia.
Qed.

(* two ways of reaching the same stored link: the same end through the same attribute, or the two opposite ends *)
Lemma two_coverings : forall s l o e a w e' a',
  typed sch s l -> In a (attr_order sch e) -> In a' (attr_order sch e') ->
  cov sch e a o l = true -> cov sch e' a' w l = true ->
  (w = o /\ e' = e /\ a' = a) \/ other sch e' a' l = o.
Proof.
  intros s l o e a w e' a' T Ha Ha' C C'.
  destruct (attr_order_range _ _ Ha) as [Ra Re]. destruct (attr_order_range _ _ Ha') as [Ra' Re'].
  unfold cov, other in *. unfold link_is in *.
  destruct (canon sch e a) eqn:Ec; destruct (canon sch e' a') eqn:Ec';
    repeat match goal with H : _ && _ = true |- _ => apply andb_true_iff in H as [? ?] end;
    repeat match goal with H : Nat.eqb _ _ = true |- _ => apply Nat.eqb_eq in H end.
  - left. repeat split; congruence.
  - right. congruence.
  - right. congruence.
  - left. pose proof (wf_attr_of sch WF _ _ Re Ra) as W. pose proof (wf_attr_of sch WF _ _ Re' Ra') as W'. unfold wf_attr in W, W'.
    repeat match goal with H : _ && _ = true |- _ => apply andb_true_iff in H as [? ?] end.
    repeat match goal with H : Nat.eqb _ _ = true |- _ => apply Nat.eqb_eq in H end.
    split; [congruence|]. split; congruence.
Qed.

Definition claim (s s' : st) (D : list oid) : Prop :=
  forall l, In l (links s) -> ~ In l (links s') ->
  forall w e a, ent_of s w = Some e -> In a (attr_order sch e) -> cov sch e a w l = true ->
    ent_of s' (other sch e a l) = None \/ In (other sch e a l) D \/ policy e a = AUnlink.

Lemma claim_refl : forall s D, claim s s D.
Proof. intros s D l H1 H2. contradiction. Qed.

Lemma claim_weaken : forall s s' D, claim s s' [] -> claim s s' D.
Proof. intros s s' D C l H1 H2 w e a E A V. destruct (C l H1 H2 w e a E A V) as [H|[[]|H]]; auto. Qed.

Lemma cov_end : forall e a w l, cov sch e a w l = true -> w = l_x l \/ w = l_y l.
Proof.
  intros e a w l H. unfold cov in H. destruct (canon sch e a); apply andb_true_iff in H as [_ H]; apply Nat.eqb_eq in H; auto.
Qed.

Lemma claim_trans : forall s s1 s2 D, inv sch s1 -> sub s1 s -> sub s2 s1 -> claim s s1 D -> claim s1 s2 D -> claim s s2 D.
Proof.
  intros s s1 s2 D I1 S1 S2 C1 C2 l Hl Hn w e a E A V.
  destruct (in_dec (fun x y : link => ltac:(decide equality; apply Nat.eq_dec)) l (links s1)) as [H1|H1].
  - apply (C2 l H1 Hn w e a); [|assumption|assumption].
    destruct (I1 l H1) as [_ [_ [_ [Hx Hy]]]].
    destruct (proj1 S1 w) as [Ew|Ew]; [congruence|]. exfalso. destruct (cov_end _ _ _ _ V) as [->| ->]; congruence.
  - destruct (C1 l Hl H1 w e a E A V) as [H|[H|H]]; auto. left. eapply sub_dead; eassumption.
Qed.

Definition good2 (rm : oid -> st -> option st) : Prop :=
  forall o s s', inv sch s -> rm o s = Some s' -> claim s s' [].

Lemma fold_rm_claim : forall rm ps s s', good sch rm -> good2 rm -> inv sch s -> fold_opt rm ps s = Some s' -> claim s s' [].
Proof.
  intros rm ps; induction ps as [|p ps IH]; intros s s' G G2 I F; cbn in F.
  - injection F as <-. apply claim_refl.
  - destruct (rm p s) as [s1|] eqn:E; [|discriminate].
    destruct (G _ _ _ I E) as [I1 [S1 _]]. destruct (fold_rm_good sch rm ps s1 s' G I1 F) as [_ [S2 _]].
    eapply claim_trans; [exact I1 | exact S1 | exact S2 | exact (G2 _ _ _ I E) | now apply IH].
Qed.

Lemma step_attr_claim : forall rm o e a s s', good sch rm -> good2 rm -> inv sch s ->
  ent_of s o = Some e -> In a (attr_order sch e) ->
  step_attr sch policy rm o e a s = Some s' -> claim s s' [o].
Proof.
  intros rm o e a s s' G G2 I Eo Ha F. unfold step_attr in F.
  destruct (partners sch s o e a) as [|p ps] eqn:Eps.
  - injection F as <-. apply claim_refl.
  - destruct (policy e a) eqn:Ep.
    + apply claim_weaken. eapply fold_rm_claim; eassumption.
    + injection F as <-. intros l Hl Hn w e' a' Ew Ha' V.
      assert (Hc : cov sch e a o l = true).
      { destruct (cov sch e a o l) eqn:Ec; [reflexivity|]. exfalso. apply Hn. rewrite unlink_cov. apply filter_In. split; [assumption | now rewrite Ec]. }
      destruct (two_coverings s l o e a w e' a' (I l Hl) Ha Ha' Hc V) as [[-> [-> ->]]|H].
      * right; right. exact Ep.
      * right; left. rewrite H. now left.
    + discriminate.
Qed.

Lemma fold_attrs_claim : forall rm o e attrs s s', good sch rm -> good2 rm -> inv sch s ->
  ent_of s o = Some e \/ ent_of s o = None -> incl attrs (attr_order sch e) ->
  fold_opt (fun a => step_attr sch policy rm o e a) attrs s = Some s' -> claim s s' [o].
Proof.
  intros rm o e attrs; induction attrs as [|a attrs IH]; intros s s' G G2 I Eo Hin F; cbn in F.
  - injection F as <-. apply claim_refl.
  - destruct (step_attr sch policy rm o e a s) as [s1|] eqn:E; [|discriminate].
    destruct (step_attr_good sch policy rm o e a s s1 G I E) as [I1 [S1 _]].
    destruct (fold_attrs_good sch policy rm o e attrs s1 s' G I1 F) as [_ [S2 _]].
    assert (C1 : claim s s1 [o]).
    { destruct Eo as [Eo|Eo].
      - eapply step_attr_claim; try eassumption. apply Hin. now left.
      - (* o is no longer alive (a cascade came back to it): it has no links, the step changes nothing *)
        unfold step_attr in E. rewrite partners_cov in E.
        assert (Hnil : filter (cov sch e a o) (links s) = []).
        { destruct (filter (cov sch e a o) (links s)) as [|l ls] eqn:Ef; [reflexivity|]. exfalso.
          assert (Hl : In l (filter (cov sch e a o) (links s))) by (rewrite Ef; now left).
          apply filter_In in Hl as [Hl Hc]. destruct (I l Hl) as [_ [_ [_ [Hx Hy]]]].
          destruct (cov_end _ _ _ _ Hc) as [->| ->]; congruence. }
        rewrite Hnil in E. cbn in E. injection E as <-. apply claim_refl. }
    eapply claim_trans; [exact I1 | exact S1 | exact S2 | exact C1|].
    apply IH; auto.
    + destruct Eo as [Eo|Eo]; [destruct (proj1 S1 o) as [X|X]; [left; congruence | now right] | right; eapply sub_dead; eassumption].
    + intros x Hx. apply Hin. now right.
Qed.

Lemma remove_claim : forall fuel, good2 (remove sch policy fuel).
Proof.
  induction fuel as [|f IH]; intros o s s' I R; cbn in R; [discriminate|].
  destruct (ent_of s o) as [e|] eqn:Eo.
  2:{ injection R as <-. apply claim_refl. }
  destruct (fold_opt (fun a => step_attr sch policy (remove sch policy f) o e a) (attr_order sch e) s) as [s1|] eqn:F; [|discriminate].
  injection R as <-.
  pose proof (fold_attrs_claim _ o e _ s s1 (remove_good sch WF policy f) IH I (or_introl Eo) (incl_refl _) F) as C.
  intros l Hl Hn w e' a' Ew Ha' V. cbn [links kill] in Hn.
  destruct (C l Hl Hn w e' a' Ew Ha' V) as [H|[[<-|[]]|H]].
  - left. rewrite ent_of_kill. destruct (Nat.eqb (other sch e' a' l) o); [reflexivity | assumption].
  - left. rewrite ent_of_kill, Nat.eqb_refl. reflexivity.
  - right; right. assumption.
Qed.

(* reachable through cascading relationships, in the state before the call *)
Inductive reach (s : st) (o : oid) : oid -> Prop :=
| reach_refl : reach s o o
| reach_step : forall y e a z, reach s o y -> ent_of s y = Some e -> In a (attr_order sch e) -> policy e a = ACascade ->
                               In z (partners sch s y e a) -> reach s o z.

Lemma closure : forall fuel o s s', inv sch s -> remove sch policy fuel o s = Some s' ->
  forall p, reach s o p -> ent_of s' p = None.
Proof.
  intros fuel o s s' I R p Hr. destruct (remove_good sch WF policy fuel o s s' I R) as [I' [S' D]].
  induction Hr as [|y e a z Hr IH Ey Ha Hp Hz]; [assumption|].
  rewrite partners_cov in Hz. apply in_map_iff in Hz as [l [Ez Hl]]. apply filter_In in Hl as [Hl Hc].
  assert (Hn : ~ In l (links s')).
  { intro Hin. destruct (I' l Hin) as [_ [_ [_ [Hx Hy]]]]. destruct (cov_end _ _ _ _ Hc) as [E|E]; rewrite E in IH; congruence. }
  destruct (remove_claim fuel o s s' I R l Hl Hn y e a Ey Ha Hc) as [H|[[]|H]]; [now rewrite <- Ez | congruence].
Qed.

End Closure.

Lemma closure_alive : forall sch, wf_schema sch = true -> forall policy fuel o s s', inv sch s -> remove sch policy fuel o s = Some s' ->
  forall p, reach sch policy s o p -> alive s' p = false /\ no_dangling s'.
Proof.
  intros sch WF policy fuel o s s' I R p Hr. split.
  - unfold alive. now rewrite (closure sch WF policy fuel o s s' I R p Hr).
  - apply (inv_no_dangling sch). now destruct (remove_good sch WF policy fuel o s s' I R).
Qed.
