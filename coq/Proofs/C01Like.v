(* C01 - the LIKE family: the pattern StringMixin._like builds (escaping of `!`, `%`, `_` for literal and non-literal
   needles, the surrounding `%`) matches exactly the strings Python's startswith / endswith / in accept, for every
   needle and haystack (unbounded strings), negated forms included; NULL operands are outside (see the finding
   string-not-in-keeps-null-rows). *)
Require Import PonyV.Base.PyBase PonyV.Model.C01Expr PonyV.Model.C01Sql PonyV.Model.C01Translate PonyV.Model.C01Safe PonyV.Model.C01Like PonyV.Proofs.C01Base.
From Coq Require Import ZifyBool.

(* ------------------------------------------------------------------------------------------- escaping *)
Lemma flat_map_flat_map : forall A B C (f : A -> list B) (g : B -> list C) l,
  flat_map g (flat_map f l) = flat_map (fun x => flat_map g (f x)) l.
Proof. induction l as [|x l IH]; [reflexivity|]. cbn. rewrite flat_map_app, IH. reflexivity. Qed.

Lemma replace3_esc : forall n,
  replace1 c_us [c_bang; c_us] (replace1 c_pct [c_bang; c_pct] (replace1 c_bang [c_bang; c_bang] n)) = esc_str n.
Proof.
  intro n. unfold replace1, esc_str. rewrite !flat_map_flat_map. apply flat_map_ext. intro c.
  unfold esc_char, c_bang, c_pct, c_us.
  destruct (c =? 33) eqn:E1; [assert (c = 33) by lia; subst; reflexivity|].
  destruct (c =? 37) eqn:E2; [assert (c = 37) by lia; subst; reflexivity|].
  destruct (c =? 95) eqn:E3; [assert (c = 95) by lia; subst; reflexivity|].
  cbn. rewrite ?E1, ?E2, ?E3. cbn. rewrite ?E1, ?E2, ?E3. cbn. rewrite ?E1, ?E2, ?E3. reflexivity.
Qed.

Lemma parse_esc_lits : forall n rest, parse true false (esc_str n ++ rest) = map TLit n ++ parse true false rest.
Proof.
  induction n as [|c n IH]; intro rest; [reflexivity|].
  unfold esc_str in *. cbn [flat_map map]. rewrite <- app_assoc. unfold esc_char at 1.
  destruct ((c =? c_bang) || (c =? c_pct) || (c =? c_us)) eqn:E.
  - cbn [app parse]. unfold c_bang at 1. cbn [andb]. replace (33 =? c_bang) with true by reflexivity. cbn [app parse]. rewrite IH. reflexivity.
  - apply Bool.orb_false_elim in E. destruct E as [E E3]. apply Bool.orb_false_elim in E. destruct E as [E1 E2].
    cbn [app parse andb]. rewrite E1, E2, E3. cbn [app]. rewrite IH. reflexivity.
Qed.

Lemma parse_plain_lits : forall v rest, has_wild v = false -> parse false false (v ++ rest) = map TLit v ++ parse false false rest.
Proof.
  induction v as [|c v IH]; intros rest H; [reflexivity|].
  cbn in H. apply Bool.orb_false_elim in H. destruct H as [H Hv]. apply Bool.orb_false_elim in H. destruct H as [H1 H2].
  cbn [app parse andb map]. rewrite H1, H2. rewrite (IH rest Hv). reflexivity.
Qed.

(* ------------------------------------------------------------------------------------------- matching *)
Lemma tmatch_any_unfold : forall ts s,
  tmatch (TAny :: ts) s = tmatch ts s || match s with [] => false | _ :: s' => tmatch (TAny :: ts) s' end.
Proof. intros ts s. destruct s; reflexivity. Qed.

Lemma tmatch_any_all : forall s, tmatch [TAny] s = true.
Proof. induction s as [|x s IH]; [reflexivity|]. rewrite tmatch_any_unfold. rewrite IH. apply Bool.orb_true_r. Qed.

Lemma tmatch_prefix : forall n s, tmatch (map TLit n ++ [TAny]) s = is_prefix n s.
Proof.
  induction n as [|c n IH]; intro s.
  - cbn [map app is_prefix]. rewrite tmatch_any_all. destruct s; reflexivity.
  - destruct s as [|x s]; [reflexivity|]. cbn [map app tmatch is_prefix]. rewrite IH. rewrite (Z.eqb_sym x c). reflexivity.
Qed.

Lemma tmatch_exact : forall n s, tmatch (map TLit n) s = (length n =? length s)%nat && is_prefix n s.
Proof.
  induction n as [|c n IH]; intro s.
  - destruct s; reflexivity.
  - destruct s as [|x s]; [reflexivity|]. cbn [map tmatch is_prefix length Nat.eqb]. rewrite IH. rewrite (Z.eqb_sym x c).
    destruct (c =? x); cbn; [reflexivity|rewrite Bool.andb_false_r; reflexivity].
Qed.

Lemma tmatch_suffix : forall n s, tmatch (TAny :: map TLit n) s = is_suffix n s.
Proof.
  intros n s. induction s as [|x s IH].
  - rewrite tmatch_any_unfold, tmatch_exact. cbn. rewrite Bool.orb_false_r. reflexivity.
  - rewrite tmatch_any_unfold, tmatch_exact, IH. reflexivity.
Qed.

Lemma tmatch_infix : forall n s, tmatch (TAny :: map TLit n ++ [TAny]) s = is_infix n s.
Proof.
  intros n s. induction s as [|x s IH].
  - rewrite tmatch_any_unfold, tmatch_prefix. cbn. rewrite Bool.orb_false_r. reflexivity.
  - rewrite tmatch_any_unfold, tmatch_prefix, IH. reflexivity.
Qed.

(* ------------------------------------------------------------------------------------------- the pattern built *)
Definition wild (b : bool) : list tok := if b then [TAny] else [].
Definition pct (b : bool) : str := if b then [c_pct] else [].

Lemma parse_pct : forall e b rest, parse e false (pct b ++ rest) = wild b ++ parse e false rest.
Proof. intros e b rest. destruct b; [|reflexivity]. cbn. destruct e; reflexivity. Qed.

Lemma parse_pct_end : forall e b, parse e false (pct b) = wild b.
Proof. intros e b. destruct b; [|reflexivity]. destruct e; reflexivity. Qed.

(* the needle as a string value *)
Definition needle_val (d : dname) (qe : qenv) (m : monad) : option str :=
  match needle_lit m with
  | Some v => Some v
  | None => match needle_sql m with
            | Some q => match qeval d qe q with StrV n => Some n | _ => None end
            | None => None
            end
  end.

Lemma like_finish : forall d qe hay (b1 b2 : bool) not_like pat esc s p toks c,
  qeval d qe hay = StrV s -> lval d qe pat = Some (Some p) -> parse esc false p = toks ->
  Some (if b2 then LOrNull (LLike not_like (if b1 then LCoalesceEmpty (LX hay) else LX hay) pat esc) (if b1 then LCoalesceEmpty (LX hay) else LX hay)
        else LLike not_like (if b1 then LCoalesceEmpty (LX hay) else LX hay) pat esc) = Some c ->
  lcond_eval d qe c = Some (tv_of_bool (xorb not_like (tmatch toks s))).
Proof.
  intros d qe hay b1 b2 not_like pat esc s p toks c Hs Lp Pp Hc.
  assert (Lx : lval d qe (if b1 then LCoalesceEmpty (LX hay) else LX hay) = Some (Some s)).
  { destruct b1; cbn [lval]; rewrite Hs; reflexivity. }
  assert (LK : lcond_eval d qe (LLike not_like (if b1 then LCoalesceEmpty (LX hay) else LX hay) pat esc) = Some (tv_of_bool (xorb not_like (tmatch toks s)))).
  { cbn [lcond_eval]. rewrite Lx, Lp. unfold like_match. rewrite Pp. reflexivity. }
  inversion Hc as [Hc']. clear Hc. destruct b2.
  - cbn [lcond_eval]. cbn [lcond_eval] in LK. rewrite LK, Lx. f_equal. cbn. apply or3_F_r.
  - exact LK.
Qed.

Theorem like_ast_sound : forall d qe hay nullable is_attr needle before after not_like s n c,
  qeval d qe hay = StrV s -> needle_val d qe needle = Some n ->
  like_ast d hay nullable is_attr needle before after not_like = Some c ->
  lcond_eval d qe c = Some (tv_of_bool (xorb not_like (tmatch (wild before ++ map TLit n ++ wild after) s))).
Proof.
  intros d qe hay nullable is_attr needle before after not_like s n c Hs Hn Hc.
  unfold like_ast in Hc. cbv zeta in Hc. unfold needle_val in Hn.
  destruct (needle_lit needle) as [v|].
  - inversion Hn; subst.
    eapply (like_finish d qe hay _ _ not_like _ _ s (pct before ++ (if has_wild n then esc_str n else n) ++ pct after)); [exact Hs| | |exact Hc].
    + destruct before, after; reflexivity.
    + destruct (has_wild n) eqn:W.
      * rewrite parse_pct, parse_esc_lits, parse_pct_end. reflexivity.
      * rewrite parse_pct, (parse_plain_lits n _ W), parse_pct_end. reflexivity.
  - destruct (needle_sql needle) as [q|]; [|discriminate Hn].
    destruct (qeval d qe q) eqn:Hq; try discriminate Hn. inversion Hn; subst.
    eapply (like_finish d qe hay _ _ not_like _ _ s (pct before ++ esc_str n ++ pct after)); [exact Hs| | |exact Hc].
    + destruct before, after; cbn [orb app lval fold_right pct]; rewrite Hq, replace3_esc; cbn [app]; rewrite ?app_nil_r; reflexivity.
    + rewrite parse_pct, parse_esc_lits, parse_pct_end. reflexivity.
Qed.

Lemma like_ast_plain_shape : forall d q n a needle b1 b2 c0,
  like_ast d q n a needle b1 b2 false = Some c0 -> exists x pat esc, c0 = LLike false x pat esc.
Proof.
  intros d q n a needle b1 b2 c0 H. unfold like_ast in H. cbv zeta in H.
  destruct (needle_lit needle); [|destruct (needle_sql needle); [|discriminate H]]; cbn [andb] in H; inversion H; eauto.
Qed.

Lemma lcond_flip : forall d qe x pat esc b,
  lcond_eval d qe (LLike false x pat esc) = Some (tv_of_bool b) ->
  lcond_eval d qe (LLike true x pat esc) = Some (tv_of_bool (negb b)).
Proof.
  intros d qe x pat esc b H. cbn [lcond_eval] in *.
  destruct (lval d qe x) as [[sx|]|], (lval d qe pat) as [[px|]|]; try discriminate H; try (destruct b; discriminate H).
  cbn [xorb] in *. destruct (like_match esc px sx), b; cbn in *; try discriminate H; reflexivity.
Qed.

(* the three source forms, in terms of Python's startswith / endswith / in *)
Theorem like_of_sound : forall d en k neg hay needle c s n,
  like_of d k neg hay needle = Some c ->
  (forall kh nh qh, tr d hay = MVal kh TStr nh qh -> qeval d (encenv d en) qh = StrV s) ->
  needle_val d (encenv d en) (tr d needle) = Some n ->
  lcond_eval d (encenv d en) c = Some (tv_of_bool (xorb neg (py_like k n s))).
Proof.
  intros d en k neg hay needle c s n Hc Hh Hn. unfold like_of in Hc.
  destruct (tr d hay) as [kh th nh qh| | | | | | |] eqn:Th; try discriminate Hc. destruct th; try discriminate Hc.
  specialize (Hh kh nh qh eq_refl).
  destruct k.
  - (* startswith *)
    destruct (like_ast d qh nh _ (tr d needle) false true false) as [c0|] eqn:A; [|discriminate Hc].
    pose proof (like_ast_sound _ _ _ _ _ _ _ _ _ _ _ _ Hh Hn A) as S0. cbn [wild app] in S0. rewrite tmatch_prefix in S0.
    destruct neg; [|inversion Hc; subst; exact S0].
    destruct (like_ast_plain_shape _ _ _ _ _ _ _ _ A) as [x [pat [esc ->]]]. cbn [like_negate negb] in Hc. inversion Hc; subst.
    cbn [py_like]. rewrite Bool.xorb_true_l. apply lcond_flip. rewrite Bool.xorb_false_l in S0. exact S0.
  - (* endswith *)
    destruct (like_ast d qh nh _ (tr d needle) true false false) as [c0|] eqn:A; [|discriminate Hc].
    pose proof (like_ast_sound _ _ _ _ _ _ _ _ _ _ _ _ Hh Hn A) as S0. cbn [wild app] in S0. rewrite app_nil_r, tmatch_suffix in S0.
    destruct neg; [|inversion Hc; subst; exact S0].
    destruct (like_ast_plain_shape _ _ _ _ _ _ _ _ A) as [x [pat [esc ->]]]. cbn [like_negate negb] in Hc. inversion Hc; subst.
    cbn [py_like]. rewrite Bool.xorb_true_l. apply lcond_flip. rewrite Bool.xorb_false_l in S0. exact S0.
  - (* in / not in *)
    pose proof (like_ast_sound _ _ _ _ _ _ _ _ _ _ _ _ Hh Hn Hc) as S0. cbn [wild app] in S0.
    rewrite tmatch_infix in S0. exact S0.
Qed.
