(* C31 - Database.to_json: the "objects" section holds every instance of the data section and is closed under the included
   relationship attributes: every reference written into it can be resolved in it. *)
Require Import PonyV.Base.PyBase PonyV.Model.C31ToJson.

Lemma mem_In x l : mem x l = true <-> In x l.
Proof.
  unfold mem. rewrite existsb_exists. split; [intros (y & Hy & E); apply Nat.eqb_eq in E; now subst | intros H; exists x; split; [assumption | apply Nat.eqb_refl]].
Qed.

(* what add_items guarantees about (to do, seen) before and after *)
Lemma add_items_spec items : forall st,
  let st' := add_items items st in
  incl (snd st) (snd st') /\ incl (fst st) (fst st') /\
  (forall x, In x (snd st') -> In x (snd st) \/ In x (fst st')) /\
  (forall x, In x items -> In x (snd st')).
Proof.
  induction items as [|i items IH]; intros st; cbn [add_items fold_left].
  - repeat split; try apply incl_refl; auto. intros x [].
  - set (st1 := if mem i (snd st) then st else (fst st ++ [i], snd st ++ [i])).
    specialize (IH st1). fold (add_items items st1) in *. cbn zeta in IH. destruct IH as (I1 & I2 & I3 & I4).
    assert (S1 : incl (snd st) (snd st1)) by (unfold st1; destruct (mem i (snd st)); cbn; [apply incl_refl | apply incl_appl, incl_refl]).
    assert (S2 : incl (fst st) (fst st1)) by (unfold st1; destruct (mem i (snd st)); cbn; [apply incl_refl | apply incl_appl, incl_refl]).
    assert (S3 : forall x, In x (snd st1) -> In x (snd st) \/ In x (fst st1)).
    { unfold st1. destruct (mem i (snd st)); cbn; [auto|]. intros x Hx. apply in_app_or in Hx. destruct Hx as [Hx|Hx]; [auto|]. right. apply in_or_app. now right. }
    assert (S4 : In i (snd st1)).
    { unfold st1. destruct (mem i (snd st)) eqn:E; cbn; [now apply mem_In | apply in_or_app; right; now left]. }
    repeat split.
    + eapply incl_tran; eassumption.
    + eapply incl_tran; eassumption.
    + intros x Hx. destruct (I3 x Hx) as [H|H]; [|auto]. destruct (S3 x H) as [H'|H']; [auto | right; now apply I2].
    + intros x [<-|Hx]; [now apply I1 | now apply I4].
Qed.

Definition inv (succ : nat -> list nat) (st : list nat * list nat) : Prop :=
  forall o, In o (snd st) -> In o (fst st) \/ forall x, In x (succ o) -> In x (snd st).

Lemma close_spec succ fuel : forall st, inv succ st ->
  inv succ (close fuel succ st) /\ incl (snd st) (snd (close fuel succ st)).
Proof.
  induction fuel as [|f IH]; intros st Hinv; cbn [close]; [split; [assumption | apply incl_refl]|].
  destruct st as [todo seen]. cbn [fst snd] in *. destruct todo as [|o r]; [split; [assumption | apply incl_refl]|].
  pose proof (add_items_spec (succ o) (r, seen)) as H. cbn zeta in H. cbn [fst snd] in H. destruct H as (I1 & I2 & I3 & I4).
  assert (Hinv' : inv succ (add_items (succ o) (r, seen))).
  { intros p Hp. destruct (I3 p Hp) as [Hs|Ht]; [|now left].
    destruct (Hinv p Hs) as [[<-|Hr]|Hc]; cbn [fst snd] in *.
    - right. exact I4.
    - left. now apply I2.
    - right. intros x Hx. apply I1. now apply Hc. }
  destruct (IH _ Hinv') as [J1 J2]. split; [exact J1 | eapply incl_tran; eassumption].
Qed.

(* every instance of the data section has an entry in the objects section *)
Theorem to_json_roots fuel succ roots : incl roots (snd (to_json_objects fuel succ roots)).
Proof. unfold to_json_objects. apply (close_spec succ fuel (roots, roots)). intros o Ho. now left. Qed.

(* when the worklist ran empty, every object referred to through an included attribute has an entry as well *)
Theorem to_json_closed fuel succ roots : fst (to_json_objects fuel succ roots) = [] ->
  forall o, In o (snd (to_json_objects fuel succ roots)) -> forall x, In x (succ o) -> In x (snd (to_json_objects fuel succ roots)).
Proof.
  intros He o Ho. unfold to_json_objects in *.
  destruct (close_spec succ fuel (roots, roots)) as [Hinv _]; [intros p Hp; now left|].
  destruct (Hinv o Ho) as [Ht|Hc]; [rewrite He in Ht; destruct Ht | exact Hc].
Qed.

(* the three sections *)
Theorem to_json_sections_spec with_schema hash_matches :
  In SData (to_json_sections with_schema hash_matches) /\ In SObjects (to_json_sections with_schema hash_matches) /\
  (In SSchemaHash (to_json_sections with_schema hash_matches) <-> with_schema = true) /\
  (In SSchema (to_json_sections with_schema hash_matches) <-> with_schema = true /\ hash_matches = false).
Proof. destruct with_schema, hash_matches; cbn; intuition discriminate. Qed.

(* whatever to_json ships has passed can_view, and the data section's instances are among it *)
Theorem to_json_checked_viewable fuel succ roots viewable l : to_json_checked fuel succ roots viewable = Ok l ->
  (forall o, In o l -> viewable o = true) /\ incl roots l.
Proof.
  unfold to_json_checked. destruct (forallb viewable (snd (to_json_objects fuel succ roots))) eqn:E; [|discriminate].
  intros H. inversion H; subst. split; [now apply forallb_forall | apply to_json_roots].
Qed.
Theorem to_json_checked_refuses fuel succ roots viewable : (exists o, In o roots /\ viewable o = false) ->
  to_json_checked fuel succ roots viewable = Err 5%nat.
Proof.
  intros (o & Ho & Hv). unfold to_json_checked.
  destruct (forallb viewable (snd (to_json_objects fuel succ roots))) eqn:E; [|reflexivity].
  rewrite forallb_forall in E. rewrite (E o) in Hv by (now apply to_json_roots). discriminate.
Qed.
