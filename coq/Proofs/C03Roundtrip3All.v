(* C03 - the depth-3 round trips restated over a predicate on expressions: every alternating and/or nesting of depth <= 3
   over literals, written as the filter of a generator, decompiles to exactly itself. *)
From Coq Require Import List Bool Arith Lia.
Import ListNotations.
Require Import PonyV.Model.C03Bexp PonyV.Model.C03Decomp PonyV.Model.C03Family PonyV.Model.C03Family3
               PonyV.Proofs.C03Roundtrip PonyV.Proofs.C03RoundtripCnf PonyV.Proofs.C03Roundtrip3 PonyV.Proofs.C03Roundtrip3Run
               PonyV.Proofs.C03Roundtrip3Dual.

Lemma litb_inv : forall e, litb e = true -> exists l, e = lit_bexp l.
Proof.
  intros e H. destruct e as [n|v|e1|l|l|c a b|ne a b|neg e1]; try discriminate H.
  - exists (Lit false n). reflexivity.
  - destruct e1 as [n|v|e2|l|l|c a b|ne a b|neg e2]; try discriminate H.
    + exists (Lit true n). reflexivity.
    + destruct a; try discriminate H. destruct b; try discriminate H. exists (LCmp true ne n n0). reflexivity.
  - destruct a; try discriminate H. destruct b; try discriminate H. exists (LCmp false ne n n0). reflexivity.
  - destruct e1; try discriminate H. exists (LIsN neg n). reflexivity.
Qed.

Lemma forallb_rep : forall (A : Type) (P : bexp -> bool) (Q : A -> Prop) (f : A -> bexp),
  (forall e, P e = true -> exists a, Q a /\ e = f a) ->
  forall l, forallb P l = true -> exists la, Forall Q la /\ l = map f la.
Proof.
  intros A P Q f H. induction l as [|x r IH]; intro Hl.
  - exists []. split; [constructor | reflexivity].
  - cbn [forallb] in Hl. apply andb_true_iff in Hl. destruct Hl as [Hx Hr].
    destruct (H x Hx) as [a [Ha ->]]. destruct (IH Hr) as [la [Hla ->]].
    exists (a :: la). split; [constructor; assumption | reflexivity].
Qed.

Lemma lits_inv : forall l, forallb litb l = true -> exists ls, l = map lit_bexp ls.
Proof.
  intros l H. destruct (forallb_rep lit litb (fun _ => True) lit_bexp) with (l := l) as [ls [_ Hls]]; [|exact H|exists ls; exact Hls].
  intros e He. destruct (litb_inv e He) as [x ->]. exists x. split; [exact I | reflexivity].
Qed.

Lemma litb_lit : forall l, litb (lit_bexp l) = true.
Proof. intros [[] n|[] ne a b|isnot a]; reflexivity. Qed.

(* depth 1: a literal or a group of >= 2 literals *)
Lemma d1_inv : forall o e, alt_depth o 1 e = true ->
  exists c, c <> [] /\ e = (if o then mk_or c else mk_and c).
Proof.
  intros o e H. cbn [alt_depth] in H. apply orb_true_iff in H. destruct H as [H|H].
  - destruct (litb_inv e H) as [l ->]. exists [l]. split; [discriminate|]. destruct o; reflexivity.
  - destruct e as [n|v|e1|l|l|c a b|ne a b|neg e1]; try discriminate H.
    + apply andb_true_iff in H. destruct H as [H Hl]. apply andb_true_iff in H. destruct H as [Ho Hlen].
      destruct o; [discriminate Ho|]. apply Nat.leb_le in Hlen.
      assert (Hl' : forallb litb l = true).
      { rewrite forallb_forall in *. intros x Hx. specialize (Hl x Hx). cbn [alt_depth] in Hl. rewrite orb_false_r in Hl. exact Hl. }
      destruct (lits_inv l Hl') as [ls ->]. rewrite map_length in Hlen.
      exists ls. split; [intro; subst; cbn in Hlen; lia|]. destruct ls as [|x [|y r]]; cbn [length] in Hlen; try lia. reflexivity.
    + apply andb_true_iff in H. destruct H as [H Hl]. apply andb_true_iff in H. destruct H as [Ho Hlen].
      destruct o; [|discriminate Ho]. apply Nat.leb_le in Hlen.
      assert (Hl' : forallb litb l = true).
      { rewrite forallb_forall in *. intros x Hx. specialize (Hl x Hx). cbn [alt_depth] in Hl. rewrite orb_false_r in Hl. exact Hl. }
      destruct (lits_inv l Hl') as [ls ->]. rewrite map_length in Hlen.
      exists ls. split; [intro; subst; cbn in Hlen; lia|]. destruct ls as [|x [|y r]]; cbn [length] in Hlen; try lia. reflexivity.
Qed.

(* depth 2: a literal or a group of >= 2 (literal | opposite group of literals) *)
Lemma d2_inv : forall o e, alt_depth o 2 e = true ->
  exists cs, wf_alt3 cs /\ e = (if o then mk_cl3 cs else mk_alt3 cs).
Proof.
  intros o e H. change (alt_depth o 2 e) with (litb e || match e with
      | And l => negb o && Nat.leb 2 (length l) && forallb (alt_depth (negb o) 1) l
      | Or l => o && Nat.leb 2 (length l) && forallb (alt_depth (negb o) 1) l
      | _ => false end) in H.
  apply orb_true_iff in H. destruct H as [H|H].
  - destruct (litb_inv e H) as [l ->]. exists [[l]].
    split; [split; [discriminate | split; [repeat constructor; discriminate | reflexivity]]|]. destruct o; reflexivity.
  - destruct e as [n|v|e1|l|l|c a b|ne a b|neg e1]; try discriminate H.
    + apply andb_true_iff in H. destruct H as [H Hl]. apply andb_true_iff in H. destruct H as [Ho Hlen].
      destruct o; [discriminate Ho|]. apply Nat.leb_le in Hlen. cbn [negb] in Hl.
      destruct (forallb_rep (list lit) (alt_depth true 1) (fun c => c <> []) mk_or) with (l := l) as [cs [Hcs ->]]; [|exact Hl|].
      { intros x Hx. destruct (d1_inv true x Hx) as [c [Hc ->]]. exists c. split; [exact Hc | reflexivity]. }
      rewrite map_length in Hlen. exists cs. split.
      * split; [intro; subst; cbn in Hlen; lia|]. split; [exact Hcs|]. destruct cs as [|x [|y r]]; cbn [length] in Hlen; try lia; exact I.
      * unfold mk_alt3. destruct cs as [|x [|y r]]; cbn [length] in Hlen; try lia. reflexivity.
    + apply andb_true_iff in H. destruct H as [H Hl]. apply andb_true_iff in H. destruct H as [Ho Hlen].
      destruct o; [|discriminate Ho]. apply Nat.leb_le in Hlen. cbn [negb] in Hl.
      destruct (forallb_rep (list lit) (alt_depth false 1) (fun c => c <> []) mk_and) with (l := l) as [cs [Hcs ->]]; [|exact Hl|].
      { intros x Hx. destruct (d1_inv false x Hx) as [c [Hc ->]]. exists c. split; [exact Hc | reflexivity]. }
      rewrite map_length in Hlen. exists cs. split.
      * split; [intro; subst; cbn in Hlen; lia|]. split; [exact Hcs|]. destruct cs as [|x [|y r]]; cbn [length] in Hlen; try lia; exact I.
      * unfold mk_cl3. destruct cs as [|x [|y r]]; cbn [length] in Hlen; try lia. reflexivity.
Qed.

(* depth 3 *)
Lemma d3_inv : forall o e, alt_depth o 3 e = true ->
  (exists l, e = lit_bexp l) \/ exists alts, wf3 alts /\ e = (if o then dnf3 alts else cnf3 alts).
Proof.
  intros o e H. change (alt_depth o 3 e) with (litb e || match e with
      | And l => negb o && Nat.leb 2 (length l) && forallb (alt_depth (negb o) 2) l
      | Or l => o && Nat.leb 2 (length l) && forallb (alt_depth (negb o) 2) l
      | _ => false end) in H.
  apply orb_true_iff in H. destruct H as [H|H]; [left; apply litb_inv; exact H|]. right.
  destruct e as [n|v|e1|l|l|c a b|ne a b|neg e1]; try discriminate H.
  - apply andb_true_iff in H. destruct H as [H Hl]. apply andb_true_iff in H. destruct H as [Ho Hlen].
    destruct o; [discriminate Ho|]. apply Nat.leb_le in Hlen. cbn [negb] in Hl.
    destruct (forallb_rep (list (list lit)) (alt_depth true 2) wf_alt3 mk_cl3) with (l := l) as [cls [Hcls ->]]; [|exact Hl|].
    { intros x Hx. destruct (d2_inv true x Hx) as [cs [Hc ->]]. exists cs. split; [exact Hc | reflexivity]. }
    rewrite map_length in Hlen. exists cls. split; [split; assumption|].
    unfold cnf3. destruct cls as [|x [|y r]]; cbn [length] in Hlen; try lia. reflexivity.
  - apply andb_true_iff in H. destruct H as [H Hl]. apply andb_true_iff in H. destruct H as [Ho Hlen].
    destruct o; [|discriminate Ho]. apply Nat.leb_le in Hlen. cbn [negb] in Hl.
    destruct (forallb_rep (list (list lit)) (alt_depth false 2) wf_alt3 mk_alt3) with (l := l) as [alts [Halts ->]]; [|exact Hl|].
    { intros x Hx. destruct (d2_inv false x Hx) as [cs [Hc ->]]. exists cs. split; [exact Hc | reflexivity]. }
    rewrite map_length in Hlen. exists alts. split; [split; assumption|].
    unfold dnf3. destruct alts as [|x [|y r]]; cbn [length] in Hlen; try lia. reflexivity.
Qed.

Theorem roundtrip_depth3 : forall o e, alt_depth o 3 e = true -> decompile PFilter e = Some e.
Proof.
  intros o e H. destruct (d3_inv o e H) as [[l ->]|[alts [Hwf ->]]].
  - apply (roundtrip_dnf [[l]]). split; [discriminate | repeat constructor; discriminate].
  - destruct o; [apply roundtrip_dnf3 | apply roundtrip_cnf3]; exact Hwf.
Qed.

(* the class is what it says: the family constructors land in it *)
Lemma alt_depth_lit : forall o d l, alt_depth o d (lit_bexp l) = true.
Proof. intros o d l. destruct d; cbn [alt_depth]; rewrite litb_lit; reflexivity. Qed.
