(* C20, model Life: the for_update exemption lives exactly as long as the transaction (write lock / invisibility of the
   new row) that justifies it; hence every UPDATE that is applied - with or without optimistic criteria - finds every
   protected attribute the session has read unchanged. *)
From Coq Require Import ZArith List Bool Lia Arith.
Import ListNotations.
Require Import PonyV.Model.C20Opt PonyV.Model.C20Life PonyV.Proofs.C20OptProofs.

Lemma view_begin_lock s : view (begin_lock s) = view s.
Proof. unfold begin_lock. destruct (ltxn s) eqn:E; [reflexivity|]. unfold view. cbn. now rewrite E. Qed.

Lemma begin_lock_txn s : ltxn (begin_lock s) <> None.
Proof. unfold begin_lock. destruct (ltxn s) eqn:E; cbn; congruence. Qed.

(* reload: afterwards dbvals agrees with the fetched row on every listed attribute; other fields as documented *)
Lemma reload_attrs_spec d : forall attrs x x', reload_attrs d x attrs = Some x' ->
  loaded x' = loaded x /\ st x' = st x /\ (forall a, wbits x' a = wbits x a) /\ (forall a, rbits x' a = rbits x a)
  /\ (forall a, In a attrs -> dbvals x' a = d a)
  /\ (forall a, ~ In a attrs -> dbvals x' a = dbvals x a /\ vals x' a = vals x a)
  /\ ((forall a, wbits x a = false -> vals x a = dbvals x a) -> forall a, wbits x' a = false -> vals x' a = dbvals x' a).
Proof.
  induction attrs as [|b rest IH]; intros x x' H; cbn in H.
  - injection H as <-. repeat split; auto. intros a [].
  - destruct (val_eqb (dbvals x b) (d b)) eqn:E.
    + destruct (IH x x' H) as (L & S & W & R & D & N & V). repeat split; auto.
      * intros a [<-|Hin]; [|now apply D]. destruct (in_dec Nat.eq_dec b rest) as [Hi|Hn]; [now apply D|].
        destruct (N b Hn) as [-> _]. now apply val_eqb_eq.
      * apply N. intros Hin. apply H0. now right.
      * apply N. intros Hin. apply H0. now right.
    + destruct (rbits x b); [discriminate|].
      destruct (IH _ x' H) as (L & S & W & R & D & N & V). cbn in *. repeat split; auto.
      * intros a [<-|Hin]; [|now apply D]. destruct (in_dec Nat.eq_dec b rest) as [Hi|Hn]; [now apply D|].
        destruct (N b Hn) as [-> _]. apply upd_same.
      * destruct (N a) as [-> _]; [intros Hin; apply H0; now right|]. apply upd_other. intros ->. apply H0. now left.
      * destruct (N a) as [_ ->]; [intros Hin; apply H0; now right|].
        destruct (wbits x b); [reflexivity|]. apply upd_other. intros ->. apply H0. now left.
      * intros V0. apply V. intros a Wa. destruct (wbits x b) eqn:Wb.
        -- unfold upd. destruct (Nat.eqb a b) eqn:Eab; [apply Nat.eqb_eq in Eab; subst; congruence | now apply V0].
        -- unfold upd. destruct (Nat.eqb a b); [reflexivity | now apply V0].
Qed.

(* the invariant *)
Definition linv (k : nat) (s : lstate) : Prop :=
  (lforupd s = true -> lcreated s = true \/
     (ltxn s <> None /\ loaded (lx s) = true /\ forall a, (a < k)%nat -> dbvals (lx s) a = view s a))
  /\ (lcreated s = true -> loaded (lx s) = true).

Lemma linv_init k d : linv k (linit d).
Proof. split; cbn; discriminate. Qed.

Lemma do_get_fields sch x a x' v f : do_get sch x a = (x', v, f) ->
  loaded x' = loaded x /\ dbvals x' = dbvals x /\ st x' = st x.
Proof. unfold do_get. destruct (_ || _); intros E; injection E as <- _ _; auto. Qed.

Lemma linv_load k s : linv k s -> linv k (l_load s).
Proof.
  intros I. unfold l_load. destruct (loaded (lx s) || lcreated s) eqn:E; [exact I|].
  apply orb_false_iff in E. destruct E as [L C]. destruct I as [J1 J2]. split; cbn.
  - intros F. destruct (J1 F) as [Cr|(_ & L' & _)]; congruence.
  - congruence.
Qed.

Lemma linv_with_x k s x2 : linv k s -> loaded x2 = loaded (lx s) -> dbvals x2 = dbvals (lx s) -> linv k (with_x s x2).
Proof.
  intros [J1 J2] L D. split; cbn.
  - intros F. destruct (J1 F) as [Cr|(N & L' & Dv)]; [now left|]. right. split; [exact N|]. split; [congruence|].
    intros a Ha. rewrite D. unfold view. cbn. fold (view s). now apply Dv.
  - intros Cr. rewrite L. now apply J2.
Qed.

Lemma linv_log k s evs : linv k s -> linv k (log s evs).
Proof. intros [J1 J2]. split; cbn; [|exact J2]. intros F. destruct (J1 F) as [Cr|(N & L & Dv)]; [now left|]. right. auto. Qed.

Lemma linv_lfail k s e : linv k s -> linv k (lfail s e).
Proof. intros [J1 J2]. split; cbn; [discriminate | exact J2]. Qed.

Lemma flush_ok_fields k sch s s1 : l_flush k sch s = (s1, true) -> ltxn s <> None -> lcreated s = false ->
  ltxn s1 <> None /\ lcreated s1 = false /\ lforupd s1 = lforupd s /\ loaded (lx s1) = loaded (lx s) /\ st (lx s1) = st (lx s).
Proof.
  intros H T C. unfold l_flush in H. rewrite C in H. destruct (set_list k (lx s)) eqn:SL.
  - injection H as <-. auto.
  - destruct (matches _ _); [|discriminate]. injection H as <-. cbn. unfold begin_lock. destruct (ltxn s); [|congruence]. cbn.
    repeat split; auto; discriminate.
Qed.

Lemma flush_fail_fields k sch s s1 : l_flush k sch s = (s1, false) -> lforupd s1 = false /\ ltxn s1 = None /\ lcreated s1 = lcreated s /\ loaded (lx s1) = loaded (lx s).
Proof.
  unfold l_flush. destruct (lcreated s) eqn:C; [discriminate|]. destruct (set_list k (lx s)); [discriminate|].
  destruct (matches _ _); [discriminate|]. intros H. injection H as <-. cbn. unfold begin_lock. destruct (ltxn s); cbn; auto.
Qed.

Lemma linv_step k sch s e : linv k s -> linv k (lstep k sch s e).
Proof.
  intros I. pose proof I as [J1 J2]. unfold lstep.
  destruct e as [vs | | a | a ex | | a v].
  6:{ (* LExt *)
      destruct (ltxn s) eqn:T; [exact I|]. destruct (ldb s) eqn:D; [|exact I]. split; cbn; [|exact J2].
      intros F. destruct (J1 F) as [C|(N & _)]; [now left | congruence]. }
  all: destruct (st (lx s)) eqn:S; try exact I.
  - (* LCreate *)
    destruct (loaded (lx s) || lcreated s); [exact I|]. split; cbn; auto.
  - (* LForUpd *)
    destruct (lcreated s || lforupd s) eqn:CF; [exact I|]. apply orb_false_iff in CF. destruct CF as [C F].
    destruct (l_flush k sch (begin_lock s)) as [s1 ok] eqn:FL. destruct ok; cbn [negb].
    + assert (lcreated (begin_lock s) = false) as C0 by (unfold begin_lock; destruct (ltxn s); cbn; exact C).
      destruct (flush_ok_fields k sch _ _ FL (begin_lock_txn s) C0) as (T1 & C1 & F1 & L1 & S1).
      destruct (loaded (lx s1)) eqn:L.
      * destruct (reload_attrs (view s1) (lx s1) (seq 0 k)) as [x'|] eqn:R.
        -- destruct (reload_attrs_spec _ _ _ _ R) as (Lx & _ & _ & _ & D & _). split; cbn; [|discriminate].
           intros _. right. split; [exact T1|]. split; [congruence|]. intros a Ha. unfold view at 1. cbn. fold (view s1).
           apply D. apply in_seq. lia.
        -- split; cbn; [discriminate|]. intros Cr. destruct (flush_ok_fields k sch _ _ FL (begin_lock_txn s) C0) as (_ & C1' & _). congruence.
      * split; cbn; [|discriminate]. intros _. right. split; [exact T1|]. split; [unfold do_load; now rewrite L|].
        intros a _. unfold do_load. rewrite L. cbn. reflexivity.
    + destruct (flush_fail_fields k sch _ _ FL) as (F1 & T1 & C1 & L1). split; [congruence|].
      intros Cr. rewrite C1 in Cr. unfold begin_lock in Cr. destruct (ltxn s); cbn in Cr; congruence.
  - (* LRead *)
    pose proof (linv_load k s I) as I'. set (s' := l_load s) in *.
    destruct (lcreated s'); [now apply linv_log|].
    destruct (do_get sch (lx s') a) as [[x2 v] f] eqn:G. destruct (do_get_fields _ _ _ _ _ _ G) as (Lg & Dg & Sg).
    apply linv_log. now apply linv_with_x.
  - (* LWrite *)
    pose proof (linv_load k s I) as I'. set (s' := l_load s) in *.
    destruct ex as [v | b d]; [apply linv_with_x; auto|].
    destruct (lcreated s').
    + destruct (vals (lx s') b) as [z|].
      * apply linv_log. apply linv_with_x; auto.
      * apply linv_lfail, linv_log. apply linv_with_x; auto.
    + destruct (do_get sch (lx s') b) as [[x2 v] f] eqn:G. destruct (do_get_fields _ _ _ _ _ _ G) as (Lg & Dg & Sg).
      destruct v as [z|].
      * apply linv_log. apply linv_with_x; auto.
      * apply linv_lfail, linv_log. apply linv_with_x; auto.
  - (* LCommit *)
    destruct (negb (loaded (lx s)) && negb (lcreated s)); [exact I|].
    destruct (l_flush k sch s) as [s1 ok] eqn:FL. destruct ok; cbn [negb].
    + split; cbn; [discriminate|]. intros Cr. unfold l_flush in FL. destruct (lcreated s) eqn:C.
      * injection FL as <-. cbn in Cr. discriminate.
      * destruct (set_list k (lx s)); [injection FL as <-; congruence|]. destruct (matches _ _); [|discriminate].
        injection FL as <-. cbn in Cr. unfold begin_lock in Cr. destruct (ltxn s); cbn in Cr; congruence.
    + destruct (flush_fail_fields k sch _ _ FL) as (F1 & T1 & C1 & L1). split; [congruence|]. intros Cr. rewrite L1. apply J2. congruence.
Qed.

Lemma linv_run k sch evs : forall s, linv k s -> linv k (lrun k sch s evs).
Proof. induction evs as [|e r IH]; intros s I; cbn; auto. apply IH. now apply linv_step. Qed.

(* the exemption is alive only inside the transaction that justifies it *)
Lemma forupd_lifetime k sch d evs :
  let s := lrun k sch (linit d) evs in
  lforupd s = true -> lcreated s = true \/ ltxn s <> None.
Proof. cbn zeta. intros F. destruct (linv_run k sch evs _ (linv_init k d)) as [J1 _]. destruct (J1 F) as [C|(N & _)]; auto. Qed.

(* every UPDATE that would be applied now finds the protected attributes the session has read unchanged *)
Lemma applied_update_valid k sch d evs :
  let s := lrun k sch (linit d) evs in
  update_applies k sch s = true ->
  forall a, (a < k)%nat -> rbits (lx s) a = true -> a_opt (sch a) = true -> view s a = dbvals (lx s) a.
Proof.
  cbn zeta. set (s := lrun k sch (linit d) evs). intros U a Ha R O.
  destruct (linv_run k sch evs _ (linv_init k d)) as [J1 _]. fold s in J1.
  unfold update_applies in U. apply andb_true_iff in U. destruct U as [U1 U2]. apply andb_true_iff in U1. destruct U1 as [C _].
  apply negb_true_iff in C. apply orb_true_iff in U2. destruct U2 as [F|M].
  - destruct (J1 F) as [Cr|(_ & _ & D)]; [congruence|]. symmetry. now apply D.
  - apply (proj1 (matches_spec _ _) M). apply in_criteria. auto.
Qed.

(* the flush applies its UPDATE exactly when update_applies says so *)
Lemma flush_applies k sch s : lcreated s = false -> set_list k (lx s) <> [] ->
  snd (l_flush k sch s) = update_applies k sch s
  /\ (snd (l_flush k sch s) = true -> forall a, view (fst (l_flush k sch s)) a = apply_sets (view s) (set_list k (lx s)) a)
  /\ (snd (l_flush k sch s) = false -> ldb (fst (l_flush k sch s)) = ldb s /\ ltxn (fst (l_flush k sch s)) = None
                                        /\ st (lx (fst (l_flush k sch s))) = Failed E_OPT).
Proof.
  intros C N. unfold l_flush, update_applies. rewrite C. destruct (set_list k (lx s)) as [|p l] eqn:SL; [congruence|].
  rewrite view_begin_lock. cbn [negb andb list_eqb]. destruct (lforupd s) eqn:F; cbn [orb].
  - cbn. repeat split; auto; discriminate.
  - destruct (matches (view s) (criteria k sch (lx s))) eqn:M; cbn.
    + repeat split; auto; discriminate.
    + unfold begin_lock. destruct (ltxn s); cbn; repeat split; auto; discriminate.
Qed.
