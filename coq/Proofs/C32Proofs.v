(* C32 - lemmas: a statically guarded path is refused without writing in every dead-session state; the generated guard
   table is checked path by path (vm_compute) and lifted to all states with forallb_forall; SessionCache.close keeps
   loaded values readable unless strict. *)
Require Import PonyV.Base.PyBase PonyV.Model.C32Guard PonyV.Model.C32Close PonyV.Gen.Guards.

(* ---------------------------------------------------------------- semantics of a guarded path *)

Definition refused (st : dstate) (o : outcome) : Prop :=
  o = OSessionOver \/ (o = ODeleted /\ deleted st = true).

Definition harmless (st : dstate) (o : outcome) : Prop :=
  o = OValue \/ o = OOther \/ o = ODeleted \/ (o = OSessionOver /\ vals_gone st = true).

Lemma run_pre_nowrite : forall st l w o w',
  has_write l = false -> run_pre st l w = (o, w') -> w' = w.
Proof.
  intros st l; induction l as [|s r IH]; intros w o w' Hw Hr; cbn in *.
  - inversion Hr; reflexivity.
  - destruct s; cbn in Hw.
    + destruct (vals_gone st); [inversion Hr; reflexivity | eapply IH; eauto].
    + destruct (deleted st); [inversion Hr; reflexivity | eapply IH; eauto].
    + discriminate.
    + eapply IH; eauto.
Qed.

Lemma run_pre_stop : forall st l w o w',
  run_pre st l w = (Some o, w') ->
  (o = OSessionOver /\ vals_gone st = true) \/ (o = ODeleted /\ deleted st = true).
Proof.
  intros st l; induction l as [|s r IH]; intros w o w' Hr; cbn in *.
  - discriminate.
  - destruct s.
    + destruct (vals_gone st) eqn:E; [inversion Hr; subst; left; auto | eapply IH; eauto].
    + destruct (deleted st) eqn:E; [inversion Hr; subst; right; auto | eapply IH; eauto].
    + eapply IH; eauto.
    + eapply IH; eauto.
Qed.

(* a path without writes that ends in the liveness guard, a return or a raise: nothing is written, and if the path
   reaches session state at all (touches_session) the result is the session-is-over error (object-was-deleted for a
   deleted object) *)
Lemma guarded_path_sound : forall st p ow,
  path_guarded p = true -> In ow (run st p) ->
  snd ow = false /\
  (touches_session p = true -> refused st (fst ow)) /\
  (touches_session p = false -> harmless st (fst ow)).
Proof.
  intros st [pr t] ow Hg Hin. unfold path_guarded in Hg; cbn in Hg.
  apply andb_true_iff in Hg as [Hw Ht]. apply negb_true_iff in Hw.
  unfold run in Hin; cbn in Hin. unfold touches_session; cbn. rewrite Hw; cbn.
  destruct (run_pre st pr false) as [o w] eqn:Hr.
  pose proof (run_pre_nowrite _ _ _ _ _ Hw Hr) as Hw'; subst w.
  destruct o as [o|].
  - destruct Hin as [<-|[]]. cbn.
    destruct (run_pre_stop _ _ _ _ _ Hr) as [[-> Hv]|[-> Hd]].
    + split; [reflexivity|]. split; intros _; [left; reflexivity | right; right; right; auto].
    + split; [reflexivity|]. split; intros _; [right; auto | right; right; left; reflexivity].
  - destruct t; try discriminate; cbn in Hin; destruct Hin as [<-|[]]; cbn;
      (split; [reflexivity|]); split; intros H; try discriminate.
    + left; reflexivity.
    + left; reflexivity.
    + right; right; left; reflexivity.
    + right; left; reflexivity.
Qed.

(* ---------------------------------------------------------------- the table *)

(* the (operation, path) pairs that are recorded findings (known_findings/C32.json), by shape *)
Definition known_bad (o : op) (p : path) : bool :=
  match o with
  | Op_tracked_method_new_func => has_write (p_pre p)   (* the in-place change is applied before _attr_changed_'s guard *)
  | _ => false
  end.
(* SetInstance.is_empty / create and Entity.flush were in this list until /repo 743d82e gave them the liveness guard; the readers
   that go through Set.copy were in it between /repo 50e342a (unguarded rentity._load_many_) and 233f906 *)

Definition row_ok (r : op * list path) : bool :=
  forallb (fun p => known_bad (fst r) p || path_guarded p) (snd r).

Lemma table_checked : forallb row_ok guard_table = true.
Proof. vm_compute. reflexivity. Qed.

Lemma guarded_except_known : forall o ps p st ow,
  In (o, ps) guard_table -> In p ps -> known_bad o p = false -> In ow (run st p) ->
  snd ow = false /\
  (touches_session p = true -> refused st (fst ow)) /\
  (touches_session p = false -> harmless st (fst ow)).
Proof.
  intros o ps p st ow Hrow Hp Hk Hin.
  pose proof table_checked as Ht. rewrite forallb_forall in Ht.
  specialize (Ht _ Hrow). unfold row_ok in Ht; cbn in Ht. rewrite forallb_forall in Ht.
  specialize (Ht _ Hp). rewrite Hk in Ht; cbn in Ht.
  eapply guarded_path_sound; eauto.
Qed.

(* every public mutator / loader entry point: all of its paths end in the guard immediately *)
Definition strictly_guarded (o : op) : bool :=
  match o with
  | Op_Attribute_load | Op_Attribute_dunder_set | Op_Set_load | Op_SetInstance_add | Op_SetInstance_dunder_iadd
  | Op_SetInstance_remove | Op_SetInstance_dunder_isub | Op_SetInstance_clear | Op_SetInstance_load | Op_SetInstance_create
  | Op_Entity_load | Op_Entity_load_internal | Op_Entity_attr_changed_internal | Op_Entity_delete | Op_Entity_set => true
  | _ => false
  end.

Lemma mutators_checked :
  forallb (fun r => negb (strictly_guarded (fst r)) ||
                    forallb (fun p => match p_pre p, p_term p with [], TGuard => true | _, _ => false end) (snd r)) guard_table = true.
Proof. vm_compute. reflexivity. Qed.

Lemma mutators_refuse : forall o ps p st,
  In (o, ps) guard_table -> strictly_guarded o = true -> In p ps -> run st p = [(OSessionOver, false)].
Proof.
  intros o ps p st Hrow Hs Hp.
  pose proof mutators_checked as Ht. rewrite forallb_forall in Ht. specialize (Ht _ Hrow); cbn in Ht.
  rewrite Hs in Ht; cbn in Ht. rewrite forallb_forall in Ht. specialize (Ht _ Hp).
  destruct p as [pr t]; cbn in Ht. destruct pr; [|discriminate]. destruct t; try discriminate. reflexivity.
Qed.

Lemma mutators_present : forall o, strictly_guarded o = true -> exists ps, In (o, ps) guard_table /\ ps <> [].
Proof.
  intros o H. destruct o; try discriminate H; eexists; (split; [cbn; tauto | discriminate]).
Qed.

(* ---------------------------------------------------------------- refutations (the recorded findings) *)

(* the operations repaired by /repo 743d82e: no exception left, on any path, in any state *)
Definition repaired (o : op) : bool :=
  match o with Op_SetInstance_is_empty | Op_SetInstance_create | Op_Entity_flush => true | _ => false end.

Lemma repaired_guarded : forall o ps p st ow,
  In (o, ps) guard_table -> repaired o = true -> In p ps -> In ow (run st p) ->
  snd ow = false /\
  (touches_session p = true -> refused st (fst ow)) /\
  (touches_session p = false -> harmless st (fst ow)).
Proof.
  intros o ps p st ow Hrow Hr Hp Hin. eapply guarded_except_known; eauto.
  destruct o; try discriminate Hr; reflexivity.
Qed.

Lemma repaired_present : forall o, repaired o = true -> exists ps, In (o, ps) guard_table /\ ps <> [].
Proof. intros o H. destruct o; try discriminate H; eexists; (split; [cbn; tauto | discriminate]). Qed.

(* in particular: the database path of is_empty and the saving path of flush now end in the guard *)
Lemma is_empty_db_path_guarded :
  exists ps, In (Op_SetInstance_is_empty, ps) guard_table /\ In (mkpath [DelCheck; VGuard] TGuard) ps /\
             forallb (fun p => match p_term p with TDb | TAssert => false | _ => true end) ps = true.
Proof. eexists. split; [cbn; tauto|]. split; [cbn; tauto | reflexivity]. Qed.

Lemma flush_paths :
  exists ps, In (Op_Entity_flush, ps) guard_table /\ ps = [mkpath [] TReturn; mkpath [] TGuard].
Proof. eexists. split; [cbn; tauto | reflexivity]. Qed.

Lemma tracked_refuted :
  exists ps p, In (Op_tracked_method_new_func, ps) guard_table /\ In p ps /\ forall st, run st p = [(OSessionOver, true)].
Proof.
  eexists; exists (mkpath [Write] TGuard). split; [cbn; tauto|]. cbn. split; [tauto|]. reflexivity.
Qed.

(* ---------------------------------------------------------------- SessionCache.close: readable snapshots *)

Lemma lookup_filter_keep : forall a l v,
  lookup a l = Some v -> keep (a, v) = true -> lookup a (detach_vals l) = Some v.
Proof.
  intros a l; induction l as [|[k x] r IH]; intros v Hl Hk; cbn in *.
  - discriminate.
  - destruct (Nat.eqb k a) eqn:E.
    + inversion Hl; subst x. apply Nat.eqb_eq in E; subst k.
      unfold keep in *; cbn in *. rewrite Hk. cbn. rewrite Nat.eqb_refl. reflexivity.
    + destruct (keep (k, x)); cbn; [rewrite E|]; apply IH; auto.
Qed.

(* non-strict (or never connected): a loaded scalar and a fully loaded collection read back unchanged *)
Lemma close_keeps_scalar : forall connected o l a v,
  o_vals o = Some l -> lookup a l = Some (AScalar v) ->
  read (close_obj false connected o) a = RValue (AScalar v).
Proof.
  intros connected o l a v Hv Hl. unfold close_obj, read.
  destruct connected; cbn.
  - rewrite Hv; cbn. rewrite (lookup_filter_keep _ _ _ Hl eq_refl). reflexivity.
  - rewrite Hv, Hl. reflexivity.
Qed.

Lemma close_keeps_full_collection : forall connected o l a items,
  o_vals o = Some l -> lookup a l = Some (AColl items true) ->
  read (close_obj false connected o) a = RValue (AColl items true).
Proof.
  intros connected o l a items Hv Hl. unfold close_obj, read.
  destruct connected; cbn.
  - rewrite Hv; cbn. rewrite (lookup_filter_keep _ _ _ Hl eq_refl). reflexivity.
  - rewrite Hv, Hl. reflexivity.
Qed.

Lemma lookup_filter_none : forall a l, lookup a l = None -> lookup a (detach_vals l) = None.
Proof.
  intros a l; induction l as [|[k x] r IH]; intros H; cbn in *; [reflexivity|].
  destruct (Nat.eqb k a) eqn:E; [discriminate|].
  destruct (keep (k, x)); cbn; [rewrite E|]; auto.
Qed.

Lemma lookup_filter_dropped : forall a l items, lookup a l = Some (AColl items false) -> lookup a (detach_vals l) = None
  \/ exists v, lookup a (detach_vals l) = Some v.
Proof. intros. destruct (lookup a (detach_vals l)); eauto. Qed.

(* what was not loaded (or a partially loaded collection) is never invented: reading it is refused *)
Lemma close_unloaded_refused : forall strict o l a,
  o_vals o = Some l -> lookup a l = None -> read (close_obj strict true o) a = RSessionOver.
Proof.
  intros strict o l a Hv Hl. unfold close_obj, read. destruct strict; cbn; [reflexivity|].
  rewrite Hv; cbn. rewrite (lookup_filter_none _ _ Hl). reflexivity.
Qed.

(* strict: nothing stays readable once the session (which had connected) is over *)
Lemma close_strict_unreadable : forall o a, read (close_obj true true o) a = RSessionOver.
Proof. reflexivity. Qed.

(* after close (connected) the object refers to no cache and has no database values *)
Lemma close_detaches : forall strict o, o_cache (close_obj strict true o) = false /\ o_has_db (close_obj strict true o) = false.
Proof. intros [] o; split; reflexivity. Qed.
