(* C09: the queue invariant for ALL histories.  Every object that has something to save (status created / modified / marked_to_delete)
   sits in objects_to_save at its _save_pos_ - for every well-formed or ill-formed schema and every operation list, unless a dirty site
   was reached (the known findings queue-not-queued@... are exactly those sites).  Together with Proofs/SessionQueue.v: in a clean
   history every flush that succeeds saves every object the program created, changed or deleted.

   Jx x s:  (A) a pending object other than x has a _save_pos_;  (B) the slot at an object's _save_pos_ holds that object;
            (C) only pending objects have a _save_pos_.   x = the object being created (Entity.__init__ links it before it is queued).
   Technique as in SessionDbPd.v: one lemma per function of Model/Session.v, statements follow the signatures, proofs by the
   hint-database tactic pqauto; the functions that touch status / _save_pos_ / objects_to_save are done by hand. *)
Require Import PonyV.Gen.SessionFlags PonyV.Model.SessionBase PonyV.Model.SessionDb PonyV.Model.Session.
Require Import PonyV.Proofs.SessionLemmas PonyV.Proofs.SessionState PonyV.Proofs.SessionIdx PonyV.Proofs.SessionDbPd PonyV.Proofs.SessionQueue.
From Coq Require Import Arith.

Section WithSchemaPq.
Variable sch : schema.
Variable xo : option oid.

Definition Jx (s : sess) : Prop :=
  forall o ob, get_obj s o = Some ob ->
    (Some o <> xo -> pending (o_st ob) = true -> exists p, o_pos ob = Some p) /\
    (forall p, o_pos ob = Some p -> nth p (s_tosave s) None = Some o /\ pending (o_st ob) = true).

Definition Pq (s : sess) : Prop := Jx s.
Definition Pqo {A} (r : out A) : Prop := Pq (out_state r).
Definition Pqp {A} (r : sess * A) : Prop := Pq (fst r).
Definition Pqp3 {A B} (r : sess * A * B) : Prop := Pq (fst (fst r)).

Lemma Pqo_Ok_i : forall A s (y : A), Pq s -> Pqo (Ok s y). Proof. auto. Qed.
Lemma Pqo_Err_i : forall A s e, Pq s -> Pqo (@Err A s e). Proof. auto. Qed.
Lemma Pqp_i : forall A s (y : A), Pq s -> Pqp (s, y). Proof. auto. Qed.
Lemma Pqp3_i : forall A B s (y : A) (z : B), Pq s -> Pqp3 (s, y, z). Proof. auto. Qed.
Lemma Pqo_ok : forall A (r : out A) s y, Pqo r -> r = Ok s y -> Pq s. Proof. intros; subst; auto. Qed.
Lemma Pqo_err : forall A (r : out A) s e, Pqo r -> r = Err s e -> Pq s. Proof. intros; subst; auto. Qed.
Lemma Pqp_ok : forall A (r : sess * A) s y, Pqp r -> r = (s, y) -> Pq s. Proof. intros; subst; auto. Qed.
Lemma Pqp3_ok : forall A B (r : sess * A * B) s y z, Pqp3 r -> r = (s, y, z) -> Pq s. Proof. intros; subst; auto. Qed.

Lemma Pq_set_idx : forall s y, Pq s -> Pq (set_idx s y). Proof. intros s y H; exact H. Qed.
Lemma Pq_set_modcoll : forall s y, Pq s -> Pq (set_modcoll s y). Proof. intros s y H; exact H. Qed.
Lemma Pq_set_modified : forall s y, Pq s -> Pq (set_modified s y). Proof. intros s y H; exact H. Qed.
Lemma Pq_set_savedpend : forall s y, Pq s -> Pq (set_savedpend s y). Proof. intros s y H; exact H. Qed.
Lemma Pq_set_handles : forall s y, Pq s -> Pq (set_handles s y). Proof. intros s y H; exact H. Qed.
Lemma Pq_set_collstat : forall s y, Pq s -> Pq (set_collstat s y). Proof. intros s y H; exact H. Qed.
Lemma Pq_set_ordsens : forall s y, Pq s -> Pq (set_ordsens s y). Proof. intros s y H; exact H. Qed.
Lemma Pq_set_db : forall s y, Pq s -> Pq (set_db s y). Proof. intros s y H; exact H. Qed.
Lemma Pq_mark_declined : forall s, Pq s -> Pq (mark_declined s). Proof. intros s H; exact H. Qed.
Lemma Pq_mark_dirty : forall s n, Pq s -> Pq (mark_dirty s n). Proof. intros s n H; exact H. Qed.

(* a change of one object that keeps its status and _save_pos_ *)
Lemma Pq_upd_obj : forall s o f, (forall ob, o_st (f ob) = o_st ob /\ o_pos (f ob) = o_pos ob) -> Pq s -> Pq (upd_obj s o f).
Proof.
  intros s o f F J.
  intros o' ob' G. rewrite get_upd_obj in G. rewrite upd_obj_tosave. destruct (Nat.eqb o o') eqn:E.
  - destruct (get_obj s o') as [ob|] eqn:G0; [|discriminate]. inversion G; subst ob'. destruct (F ob) as [F1 F2]. rewrite F1, F2. apply (J o' ob G0).
  - apply (J o' ob' G).
Qed.

Lemma Pq_put_obj : forall s o ob ob', get_obj s o = Some ob -> o_st ob' = o_st ob -> o_pos ob' = o_pos ob -> Pq s -> Pq (put_obj s o ob').
Proof.
  intros s o ob ob' G S P H. assert (E : put_obj s o ob' = upd_obj s o (fun _ => ob')) by (unfold upd_obj; rewrite G; reflexivity).
  rename H into J.
  intros o' ob2 G2. rewrite get_put_obj in G2. change (s_tosave (put_obj s o ob')) with (s_tosave s). destruct (Nat.eqb o o') eqn:EQ.
  - apply Nat.eqb_eq in EQ. subst o'. rewrite G in G2. inversion G2; subst ob2. rewrite S, P. apply (J o ob G).
  - apply (J o' ob2 G2).
Qed.

(* a new object that has nothing to save *)
Lemma Pq_push_obj : forall s ob, pending (o_st ob) = false -> o_pos ob = None -> Pq s -> Pqp (push_obj s ob).
Proof.
  intros s ob NP PN J; unfold Pqp, push_obj; cbn [fst].
  intros o' ob' G. change (get_obj (fst (push_obj s ob)) o' = Some ob') in G. rewrite get_push_obj in G.
  change (s_tosave (set_objs s (s_objs s ++ [ob]))) with (s_tosave s).
  destruct (Nat.eqb o' (length (s_objs s))). inversion G; subst ob'. split. intros _ P. congruence. intros p P. congruence.
  apply (J o' ob' G).
Qed.

Lemma nth_app_old : forall (l : list (option oid)) y p o, nth p l None = Some o -> nth p (l ++ [y]) None = Some o.
Proof. intros l y p o H. rewrite app_nth1. exact H. destruct (lt_dec p (length l)); auto. rewrite nth_overflow in H by lia. discriminate. Qed.

(* objects_to_save.append(obj) for an object that has just become pending *)
Lemma Jx_queue : forall s o ob, Jx s -> get_obj s o = Some ob -> pending (o_st ob) = true -> Jx (queue s o).
Proof.
  intros s o ob J G P o' ob' G'. unfold queue in *. cbn [set_modified set_tosave s_tosave].
  change (get_obj (upd_obj s o (fun ob0 => ob_set_pos ob0 (Some (length (s_tosave s))))) o' = Some ob') in G'.
  rewrite get_upd_obj in G'. destruct (Nat.eqb o o') eqn:E.
  - apply Nat.eqb_eq in E. subst o'. rewrite G in G'. inversion G'; subst ob'. cbn [ob_set_pos o_pos o_st]. split.
    + intros _ _. eauto.
    + intros p Hp. inversion Hp; subst p. split; [|exact P]. rewrite app_nth2 by lia. rewrite Nat.sub_diag. reflexivity.
  - destruct (J o' ob' G') as [A B]. split. exact A. intros p Hp. destruct (B p Hp) as [B1 B2]. split; auto. apply nth_app_old. exact B1.
Qed.

(* the status part of Attribute.__set__ *)
Lemma Pq_mark_written : forall s o a, Pq s -> Pq (mark_written s o a).
Proof.
  intros s o a J.
  unfold mark_written. destruct (get_obj s o) as [ob|] eqn:G; [|exact J].
  destruct (status_eqb (o_st ob) SCreated); [exact J|].
  assert (J1 : Pq (put_obj s o (ob_put_wbit ob a true))) by (eapply Pq_put_obj; eauto).
  destruct (status_eqb (o_st ob) SModified); [exact J1|].
  set (s1 := put_obj s o (ob_put_wbit ob a true)) in *.
  assert (G1 : get_obj s1 o = Some (ob_put_wbit ob a true)) by (unfold s1; rewrite get_put_obj, Nat.eqb_refl, G; reflexivity).
  set (s2 := upd_obj s1 o (fun ob1 => ob_set_st ob1 SModified)).
  assert (G2 : get_obj s2 o = Some (ob_set_st (ob_put_wbit ob a true) SModified)) by (unfold s2; rewrite get_upd_obj_same, G1; reflexivity).
  (* s2 satisfies Jx except that o is pending with its old position: re-establish through queue *)
  intros o' ob' G'. unfold queue in *. cbn [set_modified set_tosave s_tosave].
  change (get_obj (upd_obj s2 o (fun ob0 => ob_set_pos ob0 (Some (length (s_tosave s2))))) o' = Some ob') in G'.
  rewrite get_upd_obj in G'. destruct (Nat.eqb o o') eqn:E.
  - apply Nat.eqb_eq in E. subst o'. rewrite G2 in G'. inversion G'; subst ob'. cbn [ob_set_pos o_pos o_st ob_set_st]. split.
    + intros _ _. eauto.
    + intros p Hp. inversion Hp; subst p. split; [|reflexivity]. rewrite app_nth2 by lia. rewrite Nat.sub_diag. reflexivity.
  - assert (G1' : get_obj s1 o' = Some ob') by (unfold s2 in G'; rewrite get_upd_obj, E in G'; exact G').
    assert (T : s_tosave s2 = s_tosave s1) by (unfold s2; apply upd_obj_tosave).
    destruct (J1 o' ob' G1') as [A B]. split. exact A. intros p Hp. destruct (B p Hp) as [B1 B2]. split; auto. rewrite T. apply nth_app_old. exact B1.
Qed.

Lemma Pq_db_rev_add : forall s owner a item, Pq s -> Pqo (db_rev_add s owner a item).
Proof.
  intros s owner a item H. unfold db_rev_add. destruct (get_obj s owner) as [ob|] eqn:G; [|exact H].
  destruct (oset ob a) as [sd|]. destruct (sd_full sd). exact H.
  all: unfold Pqo; cbn [out_state]; eapply Pq_put_obj; eauto.
Qed.

Lemma Pq_get_or_seed : forall s e pk, Pq s -> Pqp (get_or_seed sch s e pk).
Proof.
  intros s e pk H. unfold get_or_seed. destruct (idx_get s e 0 (VInt pk)). exact H.
  pose proof (Pq_push_obj s (new_loaded sch e pk) eq_refl eq_refl H) as P. destruct (push_obj s (new_loaded sch e pk)) as [s1 o]. exact P.
Qed.

Hint Resolve Pqo_Ok_i Pqo_Err_i Pqp_i Pqp3_i Pq_set_idx Pq_set_modcoll Pq_set_modified Pq_set_savedpend Pq_set_db
  Pq_set_handles Pq_mark_dirty Pq_set_collstat Pq_set_ordsens Pq_mark_declined Pq_mark_written Pq_db_rev_add Pq_get_or_seed : pq.
Ltac is_not_var r := tryif is_var r then fail else idtac.
Hint Extern 1 (Pq ?s) => match goal with
  | H : ?r = Ok s ?y |- _ => is_not_var r; apply (@Pqo_ok _ r s y); [|exact H]
  | H : ?r = Err s ?y |- _ => is_not_var r; apply (@Pqo_err _ r s y); [|exact H]
  | H : ?r = (s, ?y) |- _ => is_not_var r; apply (@Pqp_ok _ r s y); [|exact H]
  | H : ?r = (s, ?y, ?z) |- _ => is_not_var r; apply (@Pqp3_ok _ _ r s y z); [|exact H]
  end : pq.
Hint Extern 1 => progress cbv zeta : pq.
(* the side condition of Pq_upd_obj: the function keeps status and position *)
Ltac keeps_st := intros; repeat match goal with |- context [match ?y with _ => _ end] => destruct y end; split; reflexivity.
Hint Extern 2 (Pq (upd_obj _ _ _)) => apply Pq_upd_obj; [solve [keeps_st]|] : pq.
Hint Extern 20 => match goal with |- context [match ?y with _ => _ end] => destruct y eqn:? end : pq.
Ltac pqauto := auto 60 with pq.

Lemma Pq_fold_left : forall A (f : sess -> A -> sess) l s, (forall s0 x, Pq s0 -> Pq (f s0 x)) -> Pq s -> Pq (fold_left f l s).
Proof. induction l as [|x l IH]; intros s F H; simpl; auto. Qed.
Hint Resolve Pq_fold_left : pq.




Lemma Pq_idx_put : forall (s : sess) (e : nat) (k : nat) (v : val) (o : oid), Pq s -> Pq (idx_put s e k v o).
Proof. intros. unfold idx_put. pqauto. Qed.
Hint Resolve Pq_idx_put : pq.

Lemma Pq_idx_del : forall (s : sess) (e : nat) (k : nat) (v : val), Pq s -> Pq (idx_del s e k v).
Proof. intros. unfold idx_del. pqauto. Qed.
Hint Resolve Pq_idx_del : pq.




Lemma Pq_modcoll_add : forall (s : sess) (o : oid) (a : nat), Pq s -> Pq (modcoll_add s o a).
Proof. intros. unfold modcoll_add. pqauto. Qed.
Hint Resolve Pq_modcoll_add : pq.

Lemma Pq_rev_add : forall (s : sess) (owner : oid) (a : nat) (item : oid), Pq s -> Pq (rev_add s owner a item).
Proof. intros. unfold rev_add. pqauto. Qed.
Hint Resolve Pq_rev_add : pq.

Lemma Pq_rev_remove : forall (s : sess) (owner : oid) (a : nat) (item : oid), Pq s -> Pq (rev_remove s owner a item).
Proof. intros. unfold rev_remove. pqauto. Qed.
Hint Resolve Pq_rev_remove : pq.


Lemma Pq_parse_cols : forall cols s e a, Pq s -> Pqp (parse_cols sch s e a cols).
Proof.
  induction cols as [|c t IH]; intros s e a H; simpl. pqauto.
  destruct (ref_info sch e a) as [[tgt r]|]; [destruct c|].
  all: try (specialize (IH s e (S a) H); destruct (parse_cols sch s e (S a) t) eqn:?; exact IH).
  pose proof (Pq_get_or_seed s tgt z H) as G. destruct (get_or_seed sch s tgt z) as [s1 o] eqn:?.
  specialize (IH s1 e (S a) G). destruct (parse_cols sch s1 e (S a) t) eqn:?. exact IH.
Qed.
Hint Resolve Pq_parse_cols : pq.



Lemma Pq_db_rev_remove : forall (s : sess) (owner : oid) (a : nat) (item : oid), Pq s -> Pq (db_rev_remove s owner a item).
Proof. intros. unfold db_rev_remove. pqauto. Qed.
Hint Resolve Pq_db_rev_remove : pq.

Lemma Pq_dbset_index : forall (s : sess) (o : oid) (e : nat) (a : nat) (v : val), Pq s -> Pq (dbset_index sch s o e a v).
Proof. intros. unfold dbset_index. pqauto. Qed.
Hint Resolve Pq_dbset_index : pq.

Lemma Pq_dbset_attr : forall (s : sess) (o : oid) (e : nat) (a : nat) (v : val), Pq s -> Pqo (dbset_attr sch s o e a v).
Proof. intros. unfold dbset_attr. pqauto. Qed.
Hint Resolve Pq_dbset_attr : pq.

Lemma Pq_dbset_loop : forall vals s o e a, Pq s -> Pqo (dbset_loop sch s o e a vals).
Proof.
  induction vals as [|v t IH]; intros s o e a H; simpl. pqauto.
  pose proof (Pq_dbset_attr s o e a v H) as G. destruct (dbset_attr sch s o e a v) as [s1 u|s1 er]. apply IH. exact G. exact G.
Qed.
Hint Resolve Pq_dbset_loop : pq.


Lemma Pq_db_set_obj : forall (s : sess) (o : oid) (e : nat) (vals : list val), Pq s -> Pqo (db_set_obj sch s o e vals).
Proof. intros. unfold db_set_obj. pqauto. Qed.
Hint Resolve Pq_db_set_obj : pq.

Lemma Pq_load_row : forall (s : sess) (e : nat) (r : row), Pq s -> Pqo (load_row sch s e r).
Proof. intros. unfold load_row. pqauto. Qed.
Hint Resolve Pq_load_row : pq.

Lemma Pq_load_rows : forall rows s e, Pq s -> Pqo (load_rows sch s e rows).
Proof.
  induction rows as [|r t IH]; intros s e H; simpl. pqauto.
  pose proof (Pq_load_row s e r H) as G. destruct (load_row sch s e r) as [s1 x|s1 er]; [|exact G].
  specialize (IH s1 e G). destruct (load_rows sch s1 e t); exact IH.
Qed.
Hint Resolve Pq_load_rows : pq.


Lemma Pq_load_obj_noflush : forall (s : sess) (o : oid), Pq s -> Pqo (load_obj_noflush sch s o).
Proof. intros. unfold load_obj_noflush. pqauto. Qed.
Hint Resolve Pq_load_obj_noflush : pq.

Lemma Pq_coll_mark_full : forall (s : sess) (o : oid) (a : nat), Pq s -> Pq (coll_mark_full s o a).
Proof. intros. unfold coll_mark_full. pqauto. Qed.
Hint Resolve Pq_coll_mark_full : pq.

Lemma Pq_coll_ensure : forall (s : sess) (o : oid) (a : nat), Pq s -> Pq (coll_ensure s o a).
Proof. intros. unfold coll_ensure. pqauto. Qed.
Hint Resolve Pq_coll_ensure : pq.

Lemma Pq_coll_load_noflush : forall (s : sess) (o : oid) (a : nat), Pq s -> Pqo (coll_load_noflush sch s o a).
Proof. intros. unfold coll_load_noflush. pqauto. Qed.
Hint Resolve Pq_coll_load_noflush : pq.







Lemma Pq_save_principals : forall (rec : sess -> oid -> out unit) ob l s0,
  (forall s1 p, Pq s1 -> Pqo (rec s1 p)) -> Pq s0 -> Pqo (save_principals rec ob s0 l).
Proof.
  induction l as [|a t IH]; intros s0 R H; simpl. pqauto.
  destruct (oval ob a) as [[| | |p]|]; auto.
  destruct (status_eqb (obj_st s0 p) SCreated); auto.
  pose proof (R s0 p H) as G. destruct (rec s0 p) as [s1 u|s1 er]; [apply IH; [exact R|exact G]|exact G].
Qed.
Hint Resolve Pq_save_principals : pq.


(* ---------------------------------------------------------------- saving: _save_created_ / _save_updated_ / _save_deleted_ / _save_ / flush *)

Ltac leaf_err H J :=
  cbv zeta in H;
  repeat match type of H with context [match ?y with _ => _ end] => destruct y eqn:? end;
  try discriminate H; inversion H; subst; exact J.

Lemma Pq_save_created_err : forall s o s' e, save_created sch s o = Err s' e -> Pq s -> Pq s'.
Proof. intros s o s' e H J. unfold save_created in H. leaf_err H J. Qed.
Lemma Pq_save_updated_err : forall s o s' e, save_updated sch s o = Err s' e -> Pq s -> Pq s'.
Proof. intros s o s' e H J. unfold save_updated in H. leaf_err H J. Qed.
Lemma Pq_save_deleted_err : forall s o s' e, save_deleted sch s o = Err s' e -> Pq s -> Pq s'.
Proof. intros s o s' e H J. unfold save_deleted in H. leaf_err H J. Qed.

Lemma Pq_save_obj : forall fuel s o deps, Pq s -> Pqo (save_obj fuel sch s o deps).
Proof.
  induction fuel as [|f IH]; intros s o deps J; simpl. exact J.
  destruct (get_obj s o) as [ob|] eqn:G; [|exact J].
  match goal with |- Pqo (match ?r0 with _ => _ end) => assert (J1 : Pqo r0); [|destruct r0 as [s1 u1|s1 er]; [|exact J1]] end.
  { destruct (status_eqb (o_st ob) SCreated || status_eqb (o_st ob) SModified); [|exact J].
    destruct (mem_nat o deps). exact J. apply Pq_save_principals; auto. }
  unfold Pqo in J1. cbn [out_state] in J1.
  match goal with |- Pqo (match ?r1 with _ => _ end) => destruct r1 as [s2 u2|s2 er] eqn:R1 end.
  2:{ unfold Pqo. cbn [out_state]. destruct (o_st ob); try (inversion R1; subst; exact J1).
      eapply Pq_save_created_err; eauto. eapply Pq_save_updated_err; eauto. eapply Pq_save_deleted_err; eauto. }
  assert (L : leaf s1 s2 o).
  { destruct (o_st ob); try discriminate R1.
    - eapply leaf_save_created; eauto.
    - eapply leaf_save_updated; eauto.
    - eapply leaf_save_deleted; eauto. }
  destruct L as (T & O & N). unfold Pqo. cbn [out_state].
  set (pos := match get_obj s2 o with Some ob2 => o_pos ob2 | None => None end).
  intros o' ob' G'. change (get_obj (upd_obj (unqueue_slot s2 pos) o (fun ob2 => ob_set_pos ob2 None)) o' = Some ob') in G'.
  change (s_tosave (set_savedpend (upd_obj (unqueue_slot s2 pos) o (fun ob2 => ob_set_pos ob2 None)) true))
    with (s_tosave (upd_obj (unqueue_slot s2 pos) o (fun ob2 => ob_set_pos ob2 None))).
  rewrite upd_obj_tosave. rewrite get_upd_obj in G'.
  assert (EU : forall o0, get_obj (unqueue_slot s2 pos) o0 = get_obj s2 o0) by (intro; unfold unqueue_slot; destruct pos; reflexivity).
  destruct (Nat.eqb o o') eqn:E.
  - apply Nat.eqb_eq in E. subst o'. rewrite EU in G'. destruct (get_obj s2 o) as [ob2|] eqn:G2; [|discriminate].
    inversion G'; subst ob'. cbn [ob_set_pos o_st o_pos]. destruct (N ob2 eq_refl) as [NP _]. split.
    + intros _ P. congruence.
    + intros p Hp. discriminate.
  - rewrite EU in G'. apply Nat.eqb_neq in E. rewrite (O o' (not_eq_sym E)) in G'. destruct (J1 o' ob' G') as [A B]. split. exact A.
    intros p' Hp. destruct (B p' Hp) as [B1 B2]. split; [|exact B2].
    unfold unqueue_slot. destruct pos as [p|] eqn:EP; [|rewrite T; exact B1]. cbn [set_tosave s_tosave]. rewrite T.
    destruct (Nat.eq_dec p p') as [->|NE]; [|rewrite nth_upd_nth_other by auto; exact B1]. exfalso.
    unfold pos in EP. destruct (get_obj s2 o) as [ob2|] eqn:G2; [|discriminate]. destruct (N ob2 eq_refl) as (_ & ob1 & G1 & E1).
    rewrite E1 in EP. destruct (J1 o ob1 G1) as [_ B']. destruct (B' p' EP) as [S1 _]. congruence.
Qed.
Hint Resolve Pq_save_obj : pq.

Lemma Pq_flush_loop : forall l s, Pq s -> Pqo (flush_loop sch s l).
Proof.
  induction l as [|i t IH]; intros s H; cbn [flush_loop]. exact H.
  destruct (nth i (s_tosave s) None) as [o|]; auto.
  pose proof (Pq_save_obj (S (length (s_objs s))) s o [] H) as G. destruct (save_obj (S (length (s_objs s))) sch s o []) as [s1 u|s1 er]; [apply IH; exact G|exact G].
Qed.
Hint Resolve Pq_flush_loop : pq.

(* what a successful _save_ does, whatever the invariant: pending objects stay where they were, the saved one is not pending any more *)
Lemma save_principals_qb : forall (rec : sess -> oid -> out unit) ob l s0 s1 u,
  (forall s p s' u', rec s p = Ok s' u' -> qb s s') -> save_principals rec ob s0 l = Ok s1 u -> qb s0 s1.
Proof.
  induction l as [|a t IH]; intros s0 s1 u R H; simpl in H. inversion H; subst. apply qb_refl.
  destruct (oval ob a) as [[| | |p]|]; try (apply (IH _ _ _ R H)).
  destruct (status_eqb (obj_st s0 p) SCreated); [|apply (IH _ _ _ R H)].
  destruct (rec s0 p) as [s2 u2|s2 er] eqn:E; [|discriminate]. eapply qb_trans. apply (R _ _ _ _ E). apply (IH _ _ _ R H).
Qed.

Lemma leaf_qb : forall s1 s2 o, leaf s1 s2 o -> qb s1 s2.
Proof.
  intros s1 s2 o (T & O & N) o' ob' G P. destruct (Nat.eq_dec o' o) as [->|D].
  destruct (N ob' G) as [X _]. congruence. rewrite (O o' D) in G. exists ob'. auto.
Qed.

Lemma save_obj_qb : forall fuel s o deps s' u, save_obj fuel sch s o deps = Ok s' u -> qb s s' /\ nonpending_at s' o.
Proof.
  induction fuel as [|f IH]; intros s o deps s' u H; simpl in H. discriminate.
  destruct (get_obj s o) as [ob|] eqn:G; [|discriminate].
  match type of H with match ?r0 with _ => _ end = _ => destruct r0 as [s1 u1|s1 er] eqn:R0; [|discriminate] end.
  assert (Q1 : qb s s1).
  { destruct (status_eqb (o_st ob) SCreated || status_eqb (o_st ob) SModified).
    - destruct (mem_nat o deps); [discriminate|]. eapply save_principals_qb; [|exact R0]. intros s0 p s0' u0 E. apply (IH _ _ _ _ _ E).
    - inversion R0; subst. apply qb_refl. }
  match type of H with match ?r1 with _ => _ end = _ => destruct r1 as [s2 u2|s2 er] eqn:R1; [|discriminate] end.
  assert (L : leaf s1 s2 o).
  { destruct (o_st ob); try discriminate R1.
    - eapply leaf_save_created; eauto.
    - eapply leaf_save_updated; eauto.
    - eapply leaf_save_deleted; eauto. }
  pose proof (leaf_qb _ _ _ L) as Q2. destruct L as (T & O & N). inversion H; subst s'. clear H.
  set (pos := match get_obj s2 o with Some ob2 => o_pos ob2 | None => None end).
  assert (EU : forall o0, get_obj (unqueue_slot s2 pos) o0 = get_obj s2 o0) by (intro; unfold unqueue_slot; destruct pos; reflexivity).
  assert (NP : nonpending_at (set_savedpend (upd_obj (unqueue_slot s2 pos) o (fun ob2 => ob_set_pos ob2 None)) true) o).
  { intros ob3 G3. change (get_obj (upd_obj (unqueue_slot s2 pos) o (fun ob2 => ob_set_pos ob2 None)) o = Some ob3) in G3.
    rewrite get_upd_obj_same, EU in G3. destruct (get_obj s2 o) as [ob2|] eqn:G2; [|discriminate]. inversion G3. apply (N ob2 eq_refl). }
  split; [|exact NP].
  eapply qb_trans; [exact Q1|]. eapply qb_trans; [exact Q2|].
  intros o' ob' G' P'. destruct (Nat.eq_dec o' o) as [->|D]. rewrite (NP ob' G') in P'. discriminate.
  change (get_obj (upd_obj (unqueue_slot s2 pos) o (fun ob2 => ob_set_pos ob2 None)) o' = Some ob') in G'.
  rewrite get_upd_obj_other, EU in G' by auto. exists ob'. auto.
Qed.

Lemma flush_loop_Done_x : forall n i s s' u, Pq s -> Done s i -> flush_loop sch s (seq i n) = Ok s' u -> Pq s' /\ Done s' (i + n).
Proof.
  induction n as [|n IH]; intros i s s' u J D H; cbn [seq flush_loop] in H.
  - inversion H; subst. rewrite Nat.add_0_r. auto.
  - replace (i + S n)%nat with (S i + n)%nat by lia.
    destruct (nth i (s_tosave s) None) as [o|] eqn:SL.
    + destruct (save_obj (S (length (s_objs s))) sch s o []) as [s1 u1|s1 er] eqn:SV; [|discriminate].
      pose proof (Pq_save_obj (S (length (s_objs s))) s o [] J) as J1. rewrite SV in J1.
      destruct (save_obj_qb _ _ _ _ _ _ SV) as [Q1 NP].
      apply (IH (S i) s1 s' u J1); [|exact H].
      intros o' ob' p G' P' E'. pose proof (qb_Done s s1 i Q1 D o' ob' p G' P' E') as LE.
      destruct (Nat.eq_dec p i) as [->|NE]; [|lia]. exfalso.
      destruct (Q1 o' ob' G' P') as (ob0 & G0 & P0 & E0). destruct (J o' ob0 G0) as [_ B]. rewrite <- E0 in B. destruct (B i E') as [SL0 _].
      rewrite SL in SL0. inversion SL0; subst o'. rewrite (NP ob' G') in P'. discriminate.
    + apply (IH (S i) s s' u J); [|exact H].
      intros o' ob' p G' P' E'. pose proof (D o' ob' p G' P' E') as LE.
      destruct (Nat.eq_dec p i) as [->|NE]; [|lia]. exfalso. destruct (J o' ob' G') as [_ B]. destruct (B i E') as [SL0 _]. congruence.
Qed.

Lemma Pq_calc_modcoll_x : forall s, Pq s -> Pq (calc_modcoll s).
Proof.
  intros s J o ob G. destruct (calc_modcoll_frame s) as [CT CO]. specialize (CO o). rewrite G in CO.
  destruct (get_obj s o) as [b|] eqn:GB; [|contradiction]. destruct CO as [C1 C2]. rewrite C1, C2, CT. apply (J o b GB).
Qed.

Lemma Pq_flush : forall s, Pq s -> Pqo (flush sch s).
Proof.
  intros s J. unfold flush. destruct (s_savedpend s). exact J. destruct (negb (s_modified s)). exact J.
  match goal with |- Pqo (if ?c then _ else _) => destruct c end. exact J. cbv zeta.
  pose proof (Pq_calc_modcoll_x s J) as J0.
  destruct (flush_loop sch (calc_modcoll s) (seq 0 (length (s_tosave (calc_modcoll s))))) as [s2 u2|s2 er] eqn:FL.
  2:{ pose proof (Pq_flush_loop (seq 0 (length (s_tosave (calc_modcoll s)))) _ J0) as X. rewrite FL in X. exact X. }
  assert (D0 : Done (calc_modcoll s) 0) by (intros ? ? ? ? ? ?; lia).
  destruct (flush_loop_Done_x _ 0 _ s2 u2 J0 D0 FL) as [J2 D2]. rewrite Nat.add_0_l in D2.
  rewrite <- (flush_loop_len _ _ _ _ _ FL) in D2.
  (* no object keeps a position: its slot would lie beyond the queue *)
  assert (NOPOS : forall o ob p, get_obj s2 o = Some ob -> o_pos ob = Some p -> False).
  { intros o ob p G E. destruct (J2 o ob G) as [_ B]. destruct (B p E) as [SL PN]. pose proof (D2 o ob p G PN E) as LE.
    rewrite nth_overflow in SL by lia. discriminate. }
  unfold Pqo. cbn [out_state]. intros o ob G. change (get_obj s2 o = Some ob) in G. split.
  - intros NX PN. destruct (J2 o ob G) as [A _]. destruct (A NX PN) as [p E]. exfalso. eapply NOPOS; eauto.
  - intros p E. exfalso. eapply NOPOS; eauto.
Qed.
Hint Resolve Pq_flush : pq.



Lemma Pq_calc_modcoll : forall (s : sess), Pq s -> Pq (calc_modcoll s).
Proof. intros. unfold calc_modcoll. pqauto. Qed.
Hint Resolve Pq_calc_modcoll : pq.




Lemma Pq_auto_flush : forall (s : sess), Pq s -> Pqo (auto_flush sch s).
Proof. intros. unfold auto_flush. pqauto. Qed.
Hint Resolve Pq_auto_flush : pq.

Lemma Pq_handle_of : forall (s : sess) (o : oid), Pq s -> Pqp (handle_of s o).
Proof. intros. unfold handle_of. pqauto. Qed.
Hint Resolve Pq_handle_of : pq.

Lemma Pq_handles_of : forall os s, Pq s -> Pqp (handles_of s os).
Proof.
  induction os as [|o t IH]; intros s H; simpl. pqauto.
  pose proof (Pq_handle_of s o H) as G. destruct (handle_of s o) as [s1 h]. specialize (IH s1 G). destruct (handles_of s1 t). exact IH.
Qed.
Hint Resolve Pq_handles_of : pq.


Lemma Pq_objs_res : forall (s : sess) (os : list oid), Pq s -> Pqp (objs_res s os).
Proof. intros. unfold objs_res. pqauto. Qed.
Hint Resolve Pq_objs_res : pq.

Lemma Pq_ref_set_rev : forall (s : sess) (item : oid) (a : nat) (newv : val), Pq s -> Pq (ref_set_rev sch s item a newv).
Proof. intros. unfold ref_set_rev. pqauto. Qed.
Hint Resolve Pq_ref_set_rev : pq.

Lemma Pq_ref_set_direct : forall (s : sess) (o : oid) (a : nat) (newv : val), Pq s -> Pq (ref_set_direct sch s o a newv).
Proof. intros. unfold ref_set_direct. pqauto. Qed.
Hint Resolve Pq_ref_set_direct : pq.

Lemma Pq_put_sd : forall (s : sess) (o : oid) (a : nat) (sd : setdata), Pq s -> Pq (put_sd s o a sd).
Proof. intros. unfold put_sd. pqauto. Qed.
Hint Resolve Pq_put_sd : pq.

Lemma Pq_sd_add_item : forall (s : sess) (o : oid) (a : nat) (item : oid), Pq s -> Pq (sd_add_item s o a item).
Proof. intros. unfold sd_add_item. pqauto. Qed.
Hint Resolve Pq_sd_add_item : pq.

Lemma Pq_item_link : forall (s : sess) (o : oid) (a : nat) (r : nat) (item : oid), Pq s -> Pq (item_link sch s o a r item).
Proof. intros. unfold item_link. pqauto. Qed.
Hint Resolve Pq_item_link : pq.

Lemma Pq_coll_load_items : forall (s : sess) (o : oid) (a : nat) (items : list oid), Pq s -> Pqo (coll_load_items sch s o a items).
Proof. intros. unfold coll_load_items. pqauto. Qed.
Hint Resolve Pq_coll_load_items : pq.

Lemma Pq_note_order : forall A (s : sess) (l : list A), Pq s -> Pq (note_order s l).
Proof. intros. unfold note_order. pqauto. Qed.
Hint Resolve Pq_note_order : pq.

Lemma Pq_coll_add : forall (s : sess) (o : oid) (a : nat) (items : list oid), Pq s -> Pqo (coll_add sch s o a items).
Proof. intros. unfold coll_add. pqauto. Qed.
Hint Resolve Pq_coll_add : pq.

Lemma Pq_coll_nonzero : forall (s : sess) (o : oid) (a : nat), Pq s -> Pqo (coll_nonzero sch s o a).
Proof. intros. unfold coll_nonzero. pqauto. Qed.
Hint Resolve Pq_coll_nonzero : pq.

Lemma Pq_fold_out : forall A (f : sess -> A -> out unit) l s, (forall s0 x, Pq s0 -> Pqo (f s0 x)) -> Pq s -> Pqo (fold_out f s l).
Proof.
  induction l as [|x t IH]; intros s F H; simpl. pqauto.
  pose proof (F s x H) as G. destruct (f s x) as [s1 u|s1 er]; [apply IH; [exact F|exact G]|exact G].
Qed.
Hint Resolve Pq_fold_out : pq.


Lemma Pq_coll_assign_gen : forall (del : sess -> oid -> out unit) (s : sess) (o : oid) (a : nat) (items : list oid), (forall s0 x0, Pq s0 -> Pqo (del s0 x0)) -> Pq s -> Pqo (coll_assign_gen del sch s o a items).
Proof. intros. unfold coll_assign_gen. pqauto. Qed.
Hint Resolve Pq_coll_assign_gen : pq.

Lemma Pq_coll_remove_gen : forall (del : sess -> oid -> out unit) (s : sess) (o : oid) (a : nat) (items : list oid), (forall s0 x0, Pq s0 -> Pqo (del s0 x0)) -> Pq s -> Pqo (coll_remove_gen del sch s o a items).
Proof. intros. unfold coll_remove_gen. pqauto. Qed.
Hint Resolve Pq_coll_remove_gen : pq.

Lemma Pq_del_unlink : forall (s : sess) (o : oid) (e : nat) (l : list nat), Pq s -> Pq (del_unlink sch s o e l).
Proof. intros. unfold del_unlink. pqauto. Qed.
Hint Resolve Pq_del_unlink : pq.

Lemma Pq_del_keys : forall (s : sess) (o : oid) (e : nat) (l : list nat), Pq s -> Pq (del_keys sch s o e l).
Proof. intros. unfold del_keys. pqauto. Qed.
Hint Resolve Pq_del_keys : pq.

(* ---------------------------------------------------------------- Entity._delete_, second half *)

Definition stp (o : oid) (st : status) (pos : option nat) (s : sess) : Prop :=
  exists ob, get_obj s o = Some ob /\ o_st ob = st /\ o_pos ob = pos.

Lemma stp_upd_obj : forall o st pos s o2 f, (forall ob, o_st (f ob) = o_st ob /\ o_pos (f ob) = o_pos ob) -> stp o st pos s -> stp o st pos (upd_obj s o2 f).
Proof.
  intros o st pos s o2 f F (ob & G & S & P). unfold stp. rewrite get_upd_obj. destruct (Nat.eqb o2 o).
  - rewrite G. exists (f ob). destruct (F ob) as [F1 F2]. simpl. repeat split; congruence.
  - exists ob. auto.
Qed.

Lemma stp_del_unlink : forall l o st pos s e, stp o st pos s -> stp o st pos (del_unlink sch s o e l).
Proof.
  induction l as [|a l IH]; intros o st pos s e H; unfold del_unlink; simpl. exact H.
  change (stp o st pos (del_unlink sch (match ref_info sch e a, obj_val s o a with Some (_, r_), Some (VRef y) => rev_remove s y r_ o | _, _ => s end) o e l)).
  apply IH. destruct (ref_info sch e a) as [[t r_]|]; [|exact H]. destruct (obj_val s o a) as [[| | |y]|]; try exact H.
  unfold rev_remove, modcoll_add. match goal with |- stp _ _ _ (if ?c then ?u else _) => destruct c; [|change (stp o st pos u)] end;
  (apply stp_upd_obj; [intros ob; destruct (oset ob r_); split; reflexivity|exact H]).
Qed.

Lemma stp_del_keys : forall l o st pos s e, stp o st pos s -> stp o st pos (del_keys sch s o e l).
Proof.
  induction l as [|a l IH]; intros o st pos s e H; unfold del_keys; simpl. exact H.
  match goal with |- stp _ _ _ (fold_left ?f l ?s0) => change (stp o st pos (del_keys sch s0 o e l)) end.
  apply IH. destruct (attr_uniq sch e a); [|exact H]. destruct (obj_val s o a) as [v|]; [|exact H]. destruct (is_vnone v); exact H.
Qed.

Lemma Pq_delete_tail : forall s1 o ob, Pq s1 -> Pqo (delete_tail sch s1 o ob).
Proof.
  intros s1 o ob J. unfold delete_tail. destruct (get_obj s1 o) as [ob1|] eqn:G; [|exact J].
  match goal with |- Pqo (if ?c then _ else _) => destruct c end. exact J. cbv zeta.
  set (attrs := seq 0 (nattrs sch (o_ent ob1))).
  set (s3 := del_keys sch (del_unlink sch s1 o (o_ent ob1) attrs) o (o_ent ob1) attrs).
  assert (J3 : Pq s3) by (unfold s3; pqauto).
  assert (S3 : stp o (o_st ob1) (o_pos ob1) s3).
  { unfold s3. apply stp_del_keys. apply stp_del_unlink. exists ob1. auto. }
  destruct S3 as (ob3 & G3 & ST3 & PO3).
  destruct (status_eqb (o_st ob1) SCreated) eqn:CR.
  - (* created -> cancelled: leaves the queue *)
    assert (J4 : Pq (upd_obj (unqueue_slot s3 (o_pos ob1)) o (fun y => ob_set_st (ob_set_pos y None) SCancelled))).
    { intros o' ob' G'. rewrite upd_obj_tosave. rewrite get_upd_obj in G'.
      assert (EU : forall o0, get_obj (unqueue_slot s3 (o_pos ob1)) o0 = get_obj s3 o0) by (intro; unfold unqueue_slot; destruct (o_pos ob1); reflexivity).
      rewrite EU in G'. destruct (Nat.eqb o o') eqn:E.
      - apply Nat.eqb_eq in E. subst o'. rewrite G3 in G'. inversion G'; subst ob'. cbn [ob_set_st ob_set_pos o_st o_pos]. split.
        intros _ P. discriminate. intros p Hp. discriminate.
      - destruct (J3 o' ob' G') as [A B]. split. exact A. intros p' Hp. destruct (B p' Hp) as [B1 B2]. split; [|exact B2].
        unfold unqueue_slot. destruct (o_pos ob1) as [p|] eqn:EP; [|exact B1]. cbn [set_tosave s_tosave].
        destruct (Nat.eq_dec p p') as [->|NE]; [|rewrite nth_upd_nth_other by auto; exact B1]. exfalso.
        destruct (J3 o ob3 G3) as [_ B']. destruct (B' p' PO3) as [S1 _]. apply Nat.eqb_neq in E. congruence. }
    unfold Pqo. cbn [out_state]. destruct (o_pk ob1); exact J4.
  - (* -> marked_to_delete, queued (a modified object leaves its old slot first) *)
    set (s4 := if status_eqb (o_st ob1) SModified then unqueue_slot s3 (o_pos ob1) else s3).
    unfold Pqo. cbn [out_state].
    assert (G4 : forall o0, get_obj s4 o0 = get_obj s3 o0) by (intro; unfold s4, unqueue_slot; destruct (status_eqb (o_st ob1) SModified); [destruct (o_pos ob1)|]; reflexivity).
    set (s5 := upd_obj s4 o (fun y => ob_set_st y SMarked)).
    assert (G5 : get_obj s5 o = Some (ob_set_st ob3 SMarked)) by (unfold s5; rewrite get_upd_obj_same, G4, G3; reflexivity).
    intros o' ob' G'. unfold queue in *. cbn [set_modified set_tosave s_tosave].
    change (get_obj (upd_obj s5 o (fun ob0 => ob_set_pos ob0 (Some (length (s_tosave s5))))) o' = Some ob') in G'.
    rewrite get_upd_obj in G'. destruct (Nat.eqb o o') eqn:E.
    + apply Nat.eqb_eq in E. subst o'. rewrite G5 in G'. inversion G'; subst ob'. cbn [ob_set_pos ob_set_st o_pos o_st]. split.
      * intros _ _. eauto.
      * intros p Hp. inversion Hp; subst p. split; [|reflexivity]. rewrite app_nth2 by lia. rewrite Nat.sub_diag. reflexivity.
    + assert (G3' : get_obj s3 o' = Some ob') by (unfold s5 in G'; rewrite get_upd_obj, E, G4 in G'; exact G').
      assert (T5 : s_tosave s5 = s_tosave s4) by (unfold s5; apply upd_obj_tosave).
      destruct (J3 o' ob' G3') as [A B]. split. exact A. intros p' Hp. destruct (B p' Hp) as [B1 B2]. split; [|exact B2].
      rewrite T5. apply nth_app_old. unfold s4. destruct (status_eqb (o_st ob1) SModified); [|exact B1].
      unfold unqueue_slot. destruct (o_pos ob1) as [p|] eqn:EP; [|exact B1]. cbn [set_tosave s_tosave].
      destruct (Nat.eq_dec p p') as [->|NE]; [|rewrite nth_upd_nth_other by auto; exact B1]. exfalso.
      destruct (J3 o ob3 G3) as [_ B']. destruct (B' p' PO3) as [S1 _]. apply Nat.eqb_neq in E. congruence.
Qed.
Hint Resolve Pq_delete_tail : pq.


Lemma Pq_delete_obj : forall fuel s o, Pq s -> Pqo (delete_obj fuel sch s o).
Proof.
  induction fuel as [|f IH]; intros s o H; simpl. pqauto.
  destruct (get_obj s o) as [ob|]; [|pqauto]. destruct (is_del (o_st ob)). pqauto.
  match goal with |- Pqo (match ?r0 with _ => _ end) => assert (G : Pqo r0); [|destruct r0 as [s1 u|s1 er]; [|exact G]] end.
  { apply Pq_fold_out; [|exact H]. intros s0 a H0. pqauto. }
  pqauto.
Qed.
Hint Resolve Pq_delete_obj : pq.


Lemma Pq_coll_assign : forall s o a items, Pq s -> Pqo (coll_assign sch s o a items).
Proof. intros. unfold coll_assign. pqauto. Qed.
Lemma Pq_coll_remove : forall s o a items, Pq s -> Pqo (coll_remove sch s o a items).
Proof. intros. unfold coll_remove. pqauto. Qed.
Hint Resolve Pq_coll_assign Pq_coll_remove : pq.


Lemma Pq_put_keys : forall (s : sess) (o : oid) (e : nat) (l : list nat), Pq s -> Pq (put_keys sch s o e l).
Proof. intros. unfold put_keys. pqauto. Qed.
Hint Resolve Pq_put_keys : pq.


Lemma Pq_key_set : forall (s : sess) (o : oid) (e : nat) (a : nat) (nv : val), Pq s -> Pq (key_set s o e a nv).
Proof. intros. unfold key_set. pqauto. Qed.
Hint Resolve Pq_key_set : pq.

Lemma Pq_key_set_index_only : forall (s : sess) (o : oid) (e : nat) (a : nat) (nv : val), Pq s -> Pq (key_set_index_only s o e a nv).
Proof. intros. unfold key_set_index_only. pqauto. Qed.
Hint Resolve Pq_key_set_index_only : pq.

Lemma Pq_key_set_checked : forall (s : sess) (o : oid) (e : nat) (a : nat) (nv : val), Pq s -> Pq (key_set_checked sch s o e a nv).
Proof. intros. unfold key_set_checked. pqauto. Qed.
Hint Resolve Pq_key_set_checked : pq.

Lemma Pq_set_op : forall (s : sess) (h : nat) (a : nat) (v : arg), Pq s -> Pqp (set_op sch s h a v).
Proof. intros. unfold set_op. pqauto. Qed.
Hint Resolve Pq_set_op : pq.

Lemma Pq_setmany_scan : forall l o e acc changed, Pq acc -> Pqp3 (setmany_scan o e acc changed l).
Proof.
  induction l as [|[a v] t IH]; intros o e acc changed H; simpl. pqauto.
  destruct (key_conflict acc o e a v). pqauto. apply IH. pqauto.
Qed.
Hint Resolve Pq_setmany_scan : pq.


Lemma Pq_setmany_apply : forall (o : oid) (e : nat) (acc : sess) (p : nat * val), Pq acc -> Pq (setmany_apply sch o e acc p).
Proof. intros. unfold setmany_apply. pqauto. Qed.
Hint Resolve Pq_setmany_apply : pq.

Lemma Pq_setmany_op : forall (s : sess) (h : nat) (kw : list (nat * arg)), Pq s -> Pqp (setmany_op sch s h kw).
Proof. intros. unfold setmany_op. pqauto. Qed.
Hint Resolve Pq_setmany_op : pq.

Lemma Pq_lift_unit : forall (r : out unit), Pqo r -> Pqp (lift_unit r).
Proof. intros [s u|s e] H; exact H. Qed.
Hint Resolve Pq_lift_unit : pq.

Lemma Pq_delete_op : forall (s : sess) (h : nat), Pq s -> Pqp (delete_op sch s h).
Proof. intros. unfold delete_op. pqauto. Qed.
Hint Resolve Pq_delete_op : pq.

Lemma Pq_coll_op : forall (s : sess) (k : collop) (h : nat) (a : nat) (hs : list nat), Pq s -> Pqp (coll_op sch s k h a hs).
Proof. intros. unfold coll_op. pqauto. Qed.
Hint Resolve Pq_coll_op : pq.

Lemma Pq_read_op : forall (s : sess) (h : nat) (a : nat), Pq s -> Pqp (read_op sch s h a).
Proof. intros. unfold read_op. pqauto. Qed.
Hint Resolve Pq_read_op : pq.

Lemma Pq_pk_op : forall (s : sess) (h : nat), Pq s -> Pqp (pk_op s h).
Proof. intros. unfold pk_op. pqauto. Qed.
Hint Resolve Pq_pk_op : pq.

Lemma Pq_with_set_attr : forall (s : sess) (h : nat) (a : nat) (k : oid -> nat -> nat -> sess * res), Pq s -> (forall x0 y0 z0, Pqp (k x0 y0 z0)) -> Pqp (with_set_attr sch s h a k).
Proof. intros. unfold with_set_attr. pqauto. Qed.
Hint Resolve Pq_with_set_attr : pq.

Lemma Pq_count_op : forall (s : sess) (h : nat) (a : nat), Pq s -> Pqp (count_op sch s h a).
Proof. intros. unfold count_op. pqauto. Qed.
Hint Resolve Pq_count_op : pq.

Lemma Pq_isempty_op : forall (s : sess) (h : nat) (a : nat), Pq s -> Pqp (isempty_op sch s h a).
Proof. intros. unfold isempty_op. pqauto. Qed.
Hint Resolve Pq_isempty_op : pq.

Lemma Pq_contains_op : forall (s : sess) (h : nat) (a : nat) (h2 : nat), Pq s -> Pqp (contains_op sch s h a h2).
Proof. intros. unfold contains_op. pqauto. Qed.
Hint Resolve Pq_contains_op : pq.

Lemma Pq_getpk_op : forall (s : sess) (e : nat) (v : arg), Pq s -> Pqp (getpk_op sch s e v).
Proof. intros. unfold getpk_op. pqauto. Qed.
Hint Resolve Pq_getpk_op : pq.

Lemma Pq_getby_op : forall (s : sess) (e : nat) (a : nat) (v : arg), Pq s -> Pqp (getby_op sch s e a v).
Proof. intros. unfold getby_op. pqauto. Qed.
Hint Resolve Pq_getby_op : pq.

Lemma Pq_select_op : forall (s : sess) (e : nat) (a : nat) (v : arg), Pq s -> Pqp (select_op sch s e a v).
Proof. intros. unfold select_op. pqauto. Qed.
Hint Resolve Pq_select_op : pq.

Lemma Pq_selectall_op : forall (s : sess) (e : nat), Pq s -> Pqp (selectall_op sch s e).
Proof. intros. unfold selectall_op. pqauto. Qed.
Hint Resolve Pq_selectall_op : pq.

Lemma Pq_flush_op : forall s, Pq s -> Pqp (flush_op sch s).
Proof. intros. unfold flush_op. pqauto. Qed.
Hint Resolve Pq_flush_op : pq.

(* Entity.__init__ links the new object (references, collections) before it is queued: these steps keep Jx when the new object is exempt *)
Lemma Pq_new_rel_step : forall o e acc p, Pq acc -> Pq (new_rel_step sch o e acc p).
Proof. intros. unfold new_rel_step. pqauto. Qed.

Lemma Pq_new_rel_fold : forall o e ics acc, Pq acc -> Pq (fold_left (new_rel_step sch o e) ics acc).
Proof. intros. apply Pq_fold_left; auto. intros. apply Pq_new_rel_step; auto. Qed.

Lemma Pq_flushobj_op : forall (s : sess) (h : nat), Pq s -> Pqp (flushobj_op sch s h).
Proof. intros. unfold flushobj_op, flushobj_go. pqauto. Qed.
Hint Resolve Pq_flushobj_op : pq.

Lemma Pq_keep_declined : forall s0 s1, Pq s1 -> Pq (keep_declined s0 s1).
Proof. intros. unfold keep_declined. pqauto. Qed.

Definition is_new_op (o : op) : bool := match o with ONew _ _ _ => true | _ => false end.

Lemma Pq_step_plain : forall s op, is_txn_op op = false -> is_new_op op = false -> Pq s -> Pq (fst (step sch s op)).
Proof.
  intros s op T N H. change (Pqp (step sch s op)). unfold step. destruct (s_declined s). pqauto.
  destruct op; try discriminate T; try discriminate N; pqauto.
Qed.
End WithSchemaPq.

(* ---------------------------------------------------------------- creation, step, all histories *)

Lemma Jx_reset : forall xo d, Jx xo (reset_sess d).
Proof. intros xo d o ob G. unfold get_obj, reset_sess in G. cbn [s_objs] in G. destruct o; discriminate. Qed.

Lemma Jx_exempt : forall s o, Jx None s -> Jx (Some o) s.
Proof. intros s o J o' ob G. destruct (J o' ob G) as [A B]. split; auto. intros _ P. apply A; auto. discriminate. Qed.

Lemma Jx_include : forall s o, Jx (Some o) s -> (forall ob, get_obj s o = Some ob -> pending (o_st ob) = true -> exists p, o_pos ob = Some p) -> Jx None s.
Proof.
  intros s o J H o' ob G. destruct (J o' ob G) as [A B]. split; auto. intros _ P.
  destruct (Nat.eq_dec o' o) as [->|D]. apply (H ob G P). apply A; auto. congruence.
Qed.

Section WithSchemaPq2.
Variable sch : schema.
Hypothesis WF : wf_schema sch = true.

Lemma Jx_new_op : forall s e pk kw, Pk sch s -> Jx None s ->
  s_dirty (fst (new_op sch s e pk kw)) <> O \/ Jx None (fst (new_op sch s e pk kw)).
Proof.
  intros s e pk kw P J. unfold new_op. destruct (nth_error sch e) as [en|] eqn:EN; [|right; exact J].
  destruct (negb (kw_handles_ok s kw)). right; exact J.
  destruct (existsb _ kw). right; exact J.
  destruct (negb (e_auto en) && match pk with None => true | Some _ => false end). right; exact J.
  destruct (validate_all s (e_attrs en) 0 kw) as [cs| |] eqn:VA; try (right; exact J).
  set (n := length cs). set (ob0 := new_obj_record true e pk cs n).
  destruct (key_conflicts sch s e ob0 (seq 0 n)) eqn:KC. right; exact J.
  destruct (match pk with Some z => match idx_get s e 0 (VInt z) with Some _ => true | None => false end | None => false end) eqn:PC. right; exact J.
  destruct (first_bad_set s cs 0) as [j|] eqn:FB.
  { left. unfold push_obj. cbn [fst]. unfold mark_dirty. cbn [s_dirty]. match goal with |- match ?d with O => _ | S _ => _ end <> O => destruct d; discriminate end. }
  right. unfold push_obj.
  destruct (Pk_new_registered sch s e en pk kw cs EN VA KC PC P) as (P3 & D3 & G3). unfold new_registered in P3, D3, G3. fold n ob0 in P3, D3, G3.
  set (o := length (s_objs s)) in *. set (s1 := set_objs s (s_objs s ++ [ob0])) in *.
  set (s2 := match pk with Some z => idx_put s1 e 0 (VInt z) o | None => s1 end) in *.
  set (s3 := put_keys sch s2 o e (seq 0 n)) in *.
  match goal with |- context [fold_left ?f (combine (seq 0 n) cs) s3] => change f with (new_rel_step sch o e) end.
  set (s4 := fold_left (new_rel_step sch o e) (combine (seq 0 n) cs) s3).
  destruct (new_obj_record_props true e pk cs n) as (OE & OP & OS & OL). fold ob0 in OE, OP, OS, OL.
  assert (OPOS : o_pos ob0 = None) by reflexivity.
  (* the new object is exempt while it is being linked *)
  assert (J1 : Jx (Some o) s1).
  { intros o' ob' G'. change (get_obj (fst (push_obj s ob0)) o' = Some ob') in G'. rewrite get_push_obj in G'. change (s_tosave s1) with (s_tosave s).
    destruct (Nat.eqb o' (length (s_objs s))) eqn:E.
    - apply Nat.eqb_eq in E. inversion G'; subst ob'. split. intros NX. exfalso. apply NX. f_equal. exact E. intros p Hp. rewrite OPOS in Hp. discriminate.
    - destruct (J o' ob' G') as [A B]. split; auto. intros _ PN. apply A; auto. discriminate. }
  assert (J2 : Jx (Some o) s2) by (unfold s2; destruct pk; exact J1).
  assert (J3 : Jx (Some o) s3) by (unfold s3; apply Pq_put_keys; exact J2).
  assert (J4 : Jx (Some o) s4) by (unfold s4; apply Pq_new_rel_fold; exact J3).
  (* it is still `created` when it is queued *)
  assert (F : kframe_d sch s3 s4).
  { apply kframe_d_new_rel_fold; auto.
    { unfold obj_st. rewrite G3, Nat.eqb_refl. rewrite OS. reflexivity. }
    intros p items I SP. pose proof (In_combine_snd _ _ _ _ p I) as IC. rewrite SP in IC.
    pose proof (first_bad_set_none s cs 0 FB items IC) as AD.
    unfold any_del. rewrite <- AD. unfold any_del. apply existsb_ext_eq_in. intros i Hi.
    pose proof (any_del_false_lt s items i AD Hi) as L.
    unfold obj_st. rewrite G3. assert (Nat.eqb i o = false) by (apply Nat.eqb_neq; unfold o; lia). rewrite H. reflexivity. }
  destruct F as (_ & _ & _ & F4). assert (G3o : get_obj s3 o = Some ob0) by (rewrite G3, Nat.eqb_refl; reflexivity).
  destruct (F4 o ob0 G3o) as (ob4 & G4 & KE). destruct KE as (_ & _ & _ & _ & CRE & _).
  assert (P4 : pending (o_st ob4) = true).
  { rewrite OS in CRE. simpl in CRE. destruct (o_st ob4); try discriminate CRE; reflexivity. }
  pose proof (Jx_queue (Some o) s4 o ob4 J4 G4 P4) as J5.
  assert (J6 : Jx None (queue s4 o)).
  { apply (Jx_include _ o J5). intros ob G _. unfold queue in G.
    change (get_obj (upd_obj s4 o (fun ob1 => ob_set_pos ob1 (Some (length (s_tosave s4))))) o = Some ob) in G.
    rewrite get_upd_obj_same, G4 in G. inversion G. cbn [ob_set_pos o_pos]. eauto. }
  pose proof (Pq_handle_of None (queue s4 o) o J6) as J7. destruct (handle_of (queue s4 o) o). exact J7.
Qed.

Definition PQ (s : sess) : Prop := s_dirty s <> O \/ Jx None s.

Lemma PQ_step : forall s op, Pk sch s -> PQ s -> PQ (fst (step sch s op)).
Proof.
  intros s op P H. destruct (dirty_sticky sch) as [SF SS].
  destruct (is_txn_op op) eqn:T.
  - (* commit / rollback / leaving the db_session *)
    unfold step. destruct (s_declined s). exact H.
    assert (FL : PQ (out_state (flush sch s))).
    { destruct H as [D|J]. left. apply SF. exact D. right. apply (Pq_flush sch None s J). }
    assert (RS : forall s0 d, PQ (keep_declined s0 (reset_sess d))).
    { intros s0 d. right. apply Pq_keep_declined. apply Jx_reset. }
    destruct op; try discriminate T.
    + unfold commit_op. destruct (flush sch s) as [s1 u|s1 er]; cbn [fst out_state] in *. exact FL. apply RS.
    + unfold rollback_op. cbn [fst]. apply RS.
    + unfold newsession_op. destruct (flush sch s) as [s1 u|s1 er]; cbn [fst]; apply RS.
  - destruct H as [D|J]. left. apply SS; auto.
    destruct (is_new_op op) eqn:N.
    + destruct op; try discriminate N. unfold step. destruct (s_declined s). right; exact J. apply Jx_new_op; auto.
    + right. apply Pq_step_plain; auto.
Qed.

Lemma PQ_run : forall ops, PQ (run sch ops).
Proof.
  intros ops. unfold run.
  assert (I : Pk sch (init_sess sch) /\ PQ (init_sess sch)).
  { split. apply Pk_init. right. intros o ob G. unfold get_obj, init_sess in G. cbn [s_objs] in G. destruct o; discriminate. }
  revert I. generalize (init_sess sch). induction ops as [|op t IH]; intros s [P H]; simpl. exact H.
  apply IH. split. apply Pk_step; auto. apply PQ_step; auto.
Qed.

(* C09: in every history that reached no dirty site, every object with something to save is queued at its _save_pos_ *)
Theorem queue_invariant_all_histories : forall ops, s_dirty (run sch ops) = O -> Jx None (run sch ops).
Proof. intros ops D. destruct (PQ_run ops) as [X|X]. contradiction. exact X. Qed.

(* ... and therefore a flush that succeeds there saves every object the program created, changed or deleted *)
Theorem flush_completes_all_histories : forall ops s' u, s_dirty (run sch ops) = O -> flush sch (run sch ops) = Ok s' u -> s_modified (run sch ops) = true ->
  forall o ob, get_obj s' o = Some ob -> pending (o_st ob) = false.
Proof.
  intros ops s' u D F M. apply (flush_saves_every_queued_object sch (run sch ops) s' u); auto.
  intros o ob G PN. destruct (queue_invariant_all_histories ops D o ob G) as [A B].
  destruct (A ltac:(discriminate) PN) as [p E]. exists p. split. exact E. apply (B p E).
Qed.
End WithSchemaPq2.
