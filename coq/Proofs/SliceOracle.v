(* C25, Oracle: the generic builder branch under Oracle's SUBSTR ('' is NULL; position 0 counts as 1; a position
   beyond the string or a length < 1 gives NULL).  Same domain as MySQL (generic_ok), non-empty subject string
   (an empty string is NULL in Oracle and outside the statement). *)
Require Import PonyV.Base.PyBase PonyV.Base.Seg PonyV.Sql.SqlAst PonyV.Sql.Dialect PonyV.Gen.StringSlice
               PonyV.Proofs.SegLemmas PonyV.Proofs.SliceProofs.
From Coq Require Import ZifyBool.

Definition ora (r : str) : sval := match r with [] => VNull | _ => VStr r end.

Lemma ora_nil r : r = [] -> ora r = VNull.
Proof. intros ->. reflexivity. Qed.

Definition oracle_body (s : str) (p : Z) (z : option Z) : sval :=
  let n := zlen s in
  if n <? Z.abs p then VNull
  else ora (match z with None => seg s (if p <? 0 then n + p else p - 1) n | Some c => seg s (if p <? 0 then n + p else p - 1) c end).

Lemma oracle_substr_ora s p z :
  oracle_substr s p z = if p =? 0 then oracle_body s 1 z else oracle_body s p z.
Proof.
  unfold oracle_substr, oracle_body, ora. cbv zeta.
  destruct (p =? 0); (destruct (zlen s <? _); [reflexivity|]); destruct z; reflexivity.
Qed.

Ltac solve_ora :=
  repeat (progress (ev; rw));
  repeat (break_bool; repeat (progress (ev; rw)));
  rewrite ?oracle_substr_ora; repeat (break_bool; try lia); unfold oracle_body; cbv zeta; unfold py_slice, adjust;
  repeat (break_bool; try lia);
  try (apply f_equal; seg_lia);
  try (symmetry; apply ora_nil; apply seg_nil; lia).

Lemma slice_oracle env expr s start stop a b :
  s <> [] ->
  eval Oracle env expr = VStr s ->
  bound_ok Oracle env start a -> bound_ok Oracle env stop b ->
  generic_ok (zlen s) a b ->
  eval Oracle env (string_slice false expr start stop) = ora (py_slice s a b).
Proof.
  intros Hne Hs Ha Hb Hok. pose proof (zlen_nonneg s) as Hn.
  assert (Hpos : 0 < zlen s) by (destruct s; [contradiction | unfold zlen; cbn [length]; lia]).
  destruct start as [st|], a as [a|]; try contradiction;
  destruct stop as [sp|], b as [b|]; try contradiction; cbn [bound_ok generic_ok] in *; unfold string_slice.
  - split_bound st Ha; split_bound sp Hb; cbn [as_value]; solve_ora.
  - split_bound st Ha; cbn [as_value]; solve_ora.
  - split_bound sp Hb; cbn [as_value]; solve_ora.
  - solve_ora.
Qed.
