(* C01/C02 - soundness of the translation model by structural induction on the expression (unbounded depth):
   for every typed expression, every row / parameter environment of the declared types and every modelled dialect,
   outside the recorded operator hazards ([safe]), the SQL produced for the expression evaluates to the encoding of
   its value under Pony's three-valued reading ([reval true]); then the filter / projection statements against the
   reference reading ([ref_eval] = [reval false]) on [pos_ok] / [clean] inputs. *)
Require Import PonyV.Base.PyBase PonyV.Model.C01Expr PonyV.Model.C01Sql PonyV.Model.C01Translate PonyV.Model.C01Safe
               PonyV.Proofs.C01Base PonyV.Proofs.C01Ref PonyV.Proofs.C01Monad PonyV.Proofs.C01Ops.
From Coq Require Import ZifyBool.

Section Sound.
Variable d : dname.
Hypothesis Hd : modelled d = true.
Variable en : env.

Notation vden := (vden d en).
Notation cden := (cden d en).
Notation rv := (reval true en).

Definition den (e : expr) (t : ty) : Prop :=
  match t with
  | TV vt => vden (tr d e) vt (rv e)
  | TCond => exists c, rv e = py_of_tv c /\ cden (tr d e) = Some c
  | TNone => tr d e = MNone /\ rv e = PNone
  end.

Lemma den_oden : forall e t, boolable t = true -> den e t -> oden d en (tr d e) (truth3 true (Some t) (rv e)).
Proof.
  intros e t B H. destruct t as [vt| |]; try discriminate B; cbn [den] in H.
  - right. exists vt, (rv e). split; [exact H|]. apply truth_u_truth3.
  - destruct H as [c [E C]]. left. rewrite E. cbn [truth3]. rewrite tv_py_roundtrip. exact C.
Qed.

Lemma forallb_map_eq : forall A B (f : A -> B) (p : B -> bool) l, forallb p (map f l) = forallb (fun x => p (f x)) l.
Proof. induction l as [|x l IH]; [reflexivity|]. cbn. rewrite IH. reflexivity. Qed.
Lemma existsb_map_eq : forall A B (f : A -> B) (p : B -> bool) l, existsb p (map f l) = existsb (fun x => p (f x)) l.
Proof. induction l as [|x l IH]; [reflexivity|]. cbn. rewrite IH. reflexivity. Qed.
Lemma existsb_false_forallb : forall A (p : A -> bool) l, forallb (fun x => negb (p x)) l = true -> existsb p l = false.
Proof. induction l as [|x l IH]; [reflexivity|]. cbn. intro H. apply andb_prop in H. destruct H as [H1 H2]. rewrite (IH H2). destruct (p x); [discriminate|reflexivity]. Qed.

Lemma args_den : forall t args,
  Forall (fun e => forall t0, ty_of e = Some t0 -> env_ok en e = true -> safe d en e = true -> den e t0) args ->
  Forall (fun a => ty_of a = Some (TV t)) args -> forallb (env_ok en) args = true -> forallb (safe d en) args = true ->
  Forall2 (fun m v => vden m t v) (map (tr d) args) (map rv args).
Proof.
  intros t args IH. induction IH as [|a args Ha _ IHl]; intros HT HE HS; [constructor|].
  inversion HT as [|? ? Ta Tr]; subst. cbn [forallb] in HE, HS. apply andb_prop in HE, HS. destruct HE as [E1 E2], HS as [S1 S2].
  cbn [map]. constructor; [exact (Ha (TV t) Ta E1 S1)|auto].
Qed.

Theorem tr_sound : forall e t, ty_of e = Some t -> env_ok en e = true -> safe d en e = true -> den e t.
Proof.
  induction e using expr_ind'; intros T0 Ht Hen Hs; cbn [ty_of] in Ht; cbn [env_ok] in Hen; cbn [safe] in Hs.
  - (* attr *)
    inversion Ht; subst. cbn [den tr reval]. apply andb_prop in Hen. destruct Hen as [H1 H2].
    exists KAttr, (a_null a), (QCol (a_id a)). repeat split; auto.
    intros N V. rewrite N, V in H2. discriminate.
  - inversion Ht; subst. exists KConst, false, (QVal (QLInt z)). repeat split; discriminate.
  - inversion Ht; subst. exists KConst, false, (QVal (QLStr s)). repeat split; discriminate.
  - inversion Ht; subst. exists KConst, false, (QVal (QLBool b)). repeat split; discriminate.
  - inversion Ht; subst. split; reflexivity.
  - (* param *)
    destruct t as [u|]; inversion Ht; subst; cbn [den tr reval].
    + apply andb_prop in Hen. destruct Hen as [H1 H2]. exists KParam, false, (QParam i). repeat split; auto.
      intros _ V. rewrite V in H2. discriminate.
    + split; [reflexivity|]. destruct (param_val en i); try discriminate; reflexivity.
  - (* subquery value *)
    inversion Ht; subst. cbn [den tr reval]. apply andb_prop in Hen. destruct Hen as [H1 H2].
    exists KExpr, n, (QCol i). repeat split; auto.
    intros N V. rewrite N, V in H2. discriminate.
  - (* subquery condition *)
    inversion Ht; subst. cbn [den tr reval C01Monad.cden getsql]. unfold C01Monad.ev. cbn [qeval encenv col_val].
    destruct (attr_val en i) as [| | |b]; try discriminate Hen.
    + exists U. split; [reflexivity|]. apply (dec_tv_of_tv d U).
    + exists (tv_of_bool b). split; [destruct b; reflexivity|]. cbn [enc]. rewrite bv_of_tv. apply dec_tv_of_tv.
  - (* arith *)
    apply andb_prop in Hen. destruct Hen as [E1 E2].
    apply andb_prop in Hs. destruct Hs as [Hs S3]. apply andb_prop in Hs. destruct Hs as [S1 S2].
    destruct (ty_of e1) as [[[]| |]|] eqn:T1; try discriminate; destruct (ty_of e2) as [[[]| |]|] eqn:T2; try discriminate;
      inversion Ht; subst; cbn [den tr reval];
      (eapply arith_den; [exact Hd|exact (IHe1 _ eq_refl E1 S1)|exact (IHe2 _ eq_refl E2 S2)|reflexivity|reflexivity|auto|exact S3]).
  - (* neg *)
    destruct (ty_of e) as [[[]| |]|] eqn:T1; try discriminate. inversion Ht; subst. cbn [den tr reval].
    exact (unary_den d en true _ _ (IHe _ eq_refl Hen Hs)).
  - destruct (ty_of e) as [[[]| |]|] eqn:T1; try discriminate. inversion Ht; subst. cbn [den tr reval].
    exact (unary_den d en false _ _ (IHe _ eq_refl Hen Hs)).
  - (* concat *)
    apply andb_prop in Hen. destruct Hen as [E1 E2]. apply andb_prop in Hs. destruct Hs as [S1 S2].
    destruct (ty_of e1) as [[[]| |]|] eqn:T1; try discriminate; destruct (ty_of e2) as [[[]| |]|] eqn:T2; try discriminate.
    inversion Ht; subst. cbn [den tr reval].
    exact (concat_den d en _ _ _ _ (IHe1 _ eq_refl E1 S1) (IHe2 _ eq_refl E2 S2)).
  - (* len *)
    apply andb_prop in Hs. destruct Hs as [S1 S2].
    destruct (ty_of e) as [[[]| |]|] eqn:T1; try discriminate. inversion Ht; subst. cbn [den tr reval].
    exact (len_den d Hd en _ _ (IHe _ eq_refl Hen S1) S2).
  - (* cmp *)
    apply andb_prop in Hen. destruct Hen as [E1 E2]. apply andb_prop in Hs. destruct Hs as [S1 S2].
    destruct (ty_of e1) as [t1|] eqn:T1; try discriminate. destruct (ty_of e2) as [t2|] eqn:T2; try discriminate.
    specialize (IHe1 _ eq_refl E1 S1). specialize (IHe2 _ eq_refl E2 S2).
    unfold cmp_ty in Ht.
    destruct t1 as [x| |], t2 as [y| |]; try discriminate.
    + (* value, value *)
      destruct (is_identity op) eqn:I; [discriminate|].
      assert (TY : (is_numeric x = true /\ is_numeric y = true) \/ (x = TStr /\ y = TStr)) by (destruct x, y; try discriminate; auto).
      assert (T0 = TCond) by (destruct x, y; try discriminate; congruence). subst.
      cbn [den tr reval]. rewrite T1, T2. exists (cmp3 op (rv e1) (rv e2)). split; [reflexivity|].
      apply (cmp_val_den d en op _ x _ _ y); assumption.
    + (* value, None *)
      destruct (is_ordering op) eqn:O; [discriminate|]. inversion Ht; subst.
      cbn [den tr reval]. rewrite T1, T2. destruct IHe2 as [M2 _]. rewrite M2.
      exists (none_test op (rv e1)). split; [reflexivity|]. apply (cmp_none_den d en op _ x); assumption.
    + (* None, value *)
      destruct (is_ordering op) eqn:O; [discriminate|]. inversion Ht; subst.
      cbn [den tr reval]. rewrite T1, T2. destruct IHe1 as [M1 _]. rewrite M1.
      exists (none_test op (rv e2)). split; [reflexivity|]. apply (cmp_none_den d en op _ y); assumption.
  - (* and *)
    apply andb_prop in Hen. destruct Hen as [E1 E2]. apply andb_prop in Hs. destruct Hs as [S1 S2].
    destruct (ty_of e1) as [t1|] eqn:T1; try discriminate. destruct (ty_of e2) as [t2|] eqn:T2; try discriminate.
    destruct (boolable t1) eqn:B1, (boolable t2) eqn:B2; try discriminate. inversion Ht; subst.
    cbn [den tr reval]. rewrite T1, T2. eexists. split; [reflexivity|].
    exact (logical_den d Hd en true _ _ _ _ (den_oden _ _ B1 (IHe1 _ eq_refl E1 S1)) (den_oden _ _ B2 (IHe2 _ eq_refl E2 S2))).
  - (* or *)
    apply andb_prop in Hen. destruct Hen as [E1 E2]. apply andb_prop in Hs. destruct Hs as [S1 S2].
    destruct (ty_of e1) as [t1|] eqn:T1; try discriminate. destruct (ty_of e2) as [t2|] eqn:T2; try discriminate.
    destruct (boolable t1) eqn:B1, (boolable t2) eqn:B2; try discriminate. inversion Ht; subst.
    cbn [den tr reval]. rewrite T1, T2. eexists. split; [reflexivity|].
    exact (logical_den d Hd en false _ _ _ _ (den_oden _ _ B1 (IHe1 _ eq_refl E1 S1)) (den_oden _ _ B2 (IHe2 _ eq_refl E2 S2))).
  - (* not *)
    apply andb_prop in Hs. destruct Hs as [S1 S2].
    destruct (ty_of e) as [t1|] eqn:T1; try discriminate. destruct (boolable t1) eqn:B1; try discriminate. inversion Ht; subst.
    specialize (IHe _ eq_refl Hen S1). cbn [den tr reval]. rewrite T1.
    destruct t1 as [vt| |]; try discriminate B1; cbn [den] in IHe.
    + (* value *)
      destruct IHe as [k [n [sql [M [Hq [Hty Hn]]]]]]. rewrite M.
      exists (tv_of_bool (negb (truthy (rv e)))). split; [destruct (negb (truthy (rv e))); reflexivity|].
      apply (negate_val_den d Hd en); auto.
      intros P -> K V. rewrite P, V in S2. cbn [andb is_none negb] in S2.
      destruct e; cbn [is_attr negb andb] in S2; try discriminate S2.
      cbn [tr] in M. inversion M. congruence.
    + destruct IHe as [c [E C]]. exists (not3 c). rewrite E, tv_py_roundtrip. split; [reflexivity|].
      apply cden_negate; assumption.
  - (* in *)
    assert (exists t, ty_of e = Some (TV t) /\ (t = TInt \/ t = TStr) /\ forallb (fun l => vty_eqb (lit_vty l) t) items = true /\ T0 = TCond)
      as [t [T1 [Ht2 [Hall ->]]]].
    { destruct (ty_of e) as [[[]| |]|]; try discriminate;
        match type of Ht with (if ?c then _ else _) = _ => destruct c eqn:F end; try discriminate; inversion Ht; eauto 10. }
    specialize (IHe _ T1 Hen Hs). cbn [den tr reval] in *.
    exists (in_ref neg (rv e) items). split; [reflexivity|]. apply (in_den d en neg _ t); assumption.
  - (* if *)
    apply andb_prop in Hen. destruct Hen as [Hen E3]. apply andb_prop in Hen. destruct Hen as [E1 E2].
    apply andb_prop in Hs. destruct Hs as [Hs S3]. apply andb_prop in Hs. destruct Hs as [S1 S2].
    destruct (ty_of e1) as [tc|] eqn:T1; try discriminate.
    destruct (ty_of e2) as [[x| |]|] eqn:T2; try (destruct tc as [[]| |]; discriminate).
    destruct (ty_of e3) as [[y| |]|] eqn:T3; try (destruct tc as [[]| |]; discriminate).
    assert (E : vty_eqb x y = true /\ T0 = TV x /\ (tc = TCond \/ exists u, tc = TV u)).
    { destruct tc as [u| |]; try discriminate; destruct (vty_eqb x y); try discriminate; inversion Ht; eauto. }
    destruct E as [E [-> TC]]. apply vty_eqb_eq in E. subst y.
    specialize (IHe1 _ eq_refl E1 S1). specialize (IHe2 _ eq_refl E2 S2). specialize (IHe3 _ eq_refl E3 S3).
    cbn [den tr reval]. rewrite T1.
    apply (if_den d Hd en); try assumption.
    destruct TC as [->|[u ->]]; cbn [den] in IHe1.
    + destruct IHe1 as [c [Ec C]]. left. rewrite Ec. cbn [truth3]. rewrite tv_py_roundtrip. exact C.
    + right. exists u, (rv e1). rewrite truth_u_truth3. auto.
  - (* coalesce *)
    assert (exists u, T0 = TV u) as [u ->].
    { destruct args as [|a [|b r]]; cbn [map] in Ht; try discriminate; [destruct (ty_of a) as [[u0| |]|]; discriminate|].
      destruct (ty_of a) as [[u0| |]|]; try discriminate. destruct (all_same u0 (ty_of b :: map ty_of r)); inversion Ht. eauto. }
    destruct (list_args_typed _ _ Ht) as [Hall L]. cbn [den tr reval].
    apply coalesce_den; [exact Hd| |rewrite map_length; exact L]. apply args_den; assumption.
  - (* minmax *)
    apply andb_prop in Hs. destruct Hs as [S1 S2].
    assert (exists u, T0 = TV u /\ u <> TBool /\ Forall (fun a => ty_of a = Some (TV u)) args /\ (2 <= length args)%nat) as [u [-> [Hu [Hall L]]]].
    { destruct args as [|a [|b r]]; cbn [map] in Ht; try discriminate.
      - destruct (ty_of a) as [[u0| |]|]; discriminate.
      - destruct (ty_of a) as [[u0| |]|] eqn:Ea; try discriminate. destruct u0; try discriminate.
        + destruct (all_same TInt (ty_of b :: map ty_of r)) eqn:Es; inversion Ht. exists TInt; split; [reflexivity|split; [discriminate|split; [|cbn; lia]]].
          apply all_same_Forall in Es. constructor; [exact Ea|]. change (ty_of b :: map ty_of r) with (map ty_of (b :: r)) in Es. rewrite Forall_map in Es; exact Es.
        + destruct (all_same TStr (ty_of b :: map ty_of r)) eqn:Es; inversion Ht. exists TStr; split; [reflexivity|split; [discriminate|split; [|cbn; lia]]].
          apply all_same_Forall in Es. constructor; [exact Ea|]. change (ty_of b :: map ty_of r) with (map ty_of (b :: r)) in Es. rewrite Forall_map in Es; exact Es. }
    cbn [den tr reval].
    apply minmax_den; [exact Hd|apply args_den; assumption|rewrite map_length; exact L|exact Hu|].
    rewrite forallb_map_eq, existsb_map_eq.
    apply Bool.orb_prop in S2. destruct S2 as [S2|S2]; [apply Bool.orb_prop in S2; destruct S2 as [S2|S2]|].
    + left. destruct (pg d); [discriminate|reflexivity].
    + right. left. exact S2.
    + right. right. apply existsb_false_forallb. exact S2.
Qed.

(* ------------------------------------------------------------------------------------------- filter / projection *)
Theorem filter_pony : forall e t, ty_of e = Some t -> boolable t = true -> env_ok en e = true -> safe d en e = true ->
  exists conds, tr_filter d e = Some conds /\ where_truth d (encenv d en) conds = py_truthy e (rv e).
Proof.
  intros e t Ht B Hen Hs. pose proof (den_oden e t B (tr_sound e t Ht Hen Hs)) as O.
  pose proof (oden_test_sql d Hd en _ _ O) as S. unfold ev in S.
  set (c := truth3 true (Some t) (rv e)) in *.
  assert (PT : py_truthy e (rv e) = match c with T => true | _ => false end).
  { pose proof (truth3_T_iff true e (rv e)) as I. rewrite Ht in I. fold c in I. destruct c, (py_truthy e (rv e)); try reflexivity; intuition congruence. }
  rewrite PT. unfold tr_filter. set (m' := if is_boolm (tr d e) then tr d e else m_nonzero d (tr d e)) in *.
  assert (ONE : where_truth d (encenv d en) [getsql m'] = match c with T => true | _ => false end).
  { unfold where_truth. cbn [map]. rewrite S, qand_list_one. apply sql_truth_of_tv. }
  destruct O as [C|[vt [v [[k [n [sql [M _]]]] _]]]].
  - destruct (cden_boolm _ _ _ _ C) as [Bm _]. unfold m' in *. rewrite Bm in *.
    destruct (tr d e) eqn:M; cbn [C01Monad.cden] in C; try discriminate; try (eexists; split; [reflexivity|exact ONE]).
    eexists. split; [reflexivity|]. unfold where_truth. cbn [getsql qeval] in S. rewrite S. apply sql_truth_of_tv.
  - unfold m' in *. rewrite M in *. destruct vt; unfold is_boolm in *; cbn [mvty m_nonzero] in *; eexists; (split; [reflexivity|exact ONE]).
Qed.

Theorem project_pony : forall e vt, ty_of e = Some (TV vt) -> env_ok en e = true -> safe d en e = true ->
  exists q, tr_project d e = Some q /\ qeval d (encenv d en) q = enc d (rv e) /\ has_vty (rv e) vt = true.
Proof.
  intros e vt Ht Hen Hs. destruct (tr_sound e _ Ht Hen Hs) as [k [n [sql [M [Hq [Hty _]]]]]].
  exists sql. unfold tr_project. rewrite M. auto.
Qed.

Theorem project_cond_pony : forall e, ty_of e = Some TCond -> env_ok en e = true -> safe d en e = true ->
  exists q, tr_project d e = Some q /\ qeval d (encenv d en) q = enc d (rv e).
Proof.
  intros e Ht Hen Hs. destruct (tr_sound e _ Ht Hen Hs) as [c [E C]].
  pose proof (cden_sql _ _ _ _ C) as S. unfold ev in S.
  exists (getsql (tr d e)). unfold tr_project. rewrite E, enc_py_of_tv.
  destruct (tr d e); cbn [C01Monad.cden] in C; try discriminate; auto.
Qed.
End Sound.
