(* C08 (part 1): IntConverter.init = its closed form.  See C08Proofs.v.
   C08: lemmas about the converter validation code translated from /repo (Gen/C08Conv.v).
   The generic lemmas are parameterised by the boolean `*_ignored` flags of Model/C08Spec.v, which are computed from the
   translated code itself (does it drop a declared bound equal to 0?): they go through on code with and without the defect.
   For int/float the current /repo is repaired (2abc421): int_flag_false / real_flag_false compute the flags to false and the
   unrestricted theorems follow; for str (`if max_len and ...`) the flag is still true. *)
Require Import PonyV.Base.PyBase PonyV.Model.C08Base PonyV.Gen.C08Conv PonyV.Model.C08Spec.
From Coq Require Import ZifyBool.
Open Scope Z_scope.

Ltac break_if :=
  match goal with
  | |- context [if ?c then _ else _] => destruct c eqn:?
  end.
Tactic Notation "red1" :=
  cbn [type_lo type_hi eff_size is_uns d_size d_unsigned d_min d_max pick gtb_opt negb andb orb size_okb
       ic_min ic_max ic_size ic_unsigned ge_opt le_opt].
Tactic Notation "red1" "in" hyp(H) :=
  cbn [type_lo type_hi eff_size is_uns d_size d_unsigned d_min d_max pick gtb_opt negb andb orb size_okb
       ic_min ic_max ic_size ic_unsigned ge_opt le_opt] in H.
Ltac fin := try reflexivity; try (exfalso; unfold size_okb in *; lia); try (repeat f_equal; lia).

(* ------------------------------------------------------------------------------------------------ IntConverter.init *)

(* the translated init is the compact closed form, with zb = what the translated code does on a zero bound *)
Lemma int_init_eq uint64 d : init_of uint64 d = int_init_spec int_zero_bound_ignored uint64 d.
Proof.
  destruct d as [s un mn mx].
  unfold init_of, int_init_spec, int_init.
  let v := eval vm_compute in int_zero_bound_ignored in change int_zero_bound_ignored with v.
  red1.
  destruct s as [s|].
  - destruct un as [[|]|], mn as [m|], mx as [M|], uint64; red1;
      repeat (break_if; red1); fin.
  - destruct un as [[|]|], mn as [m|], mx as [M|], uint64; red1;
      repeat (break_if; red1); fin.
Qed.

