(* C01/C02 - the value-level operations of the translation model: comparison monads, arithmetic with the PostgreSQL
   bool/int casts, unary minus / abs, string concatenation, len, in-lists, if-expressions, coalesce, min / max. *)
Require Import PonyV.Base.PyBase PonyV.Model.C01Expr PonyV.Model.C01Sql PonyV.Model.C01Translate PonyV.Model.C01Safe
               PonyV.Proofs.C01Base PonyV.Proofs.C01Ref PonyV.Proofs.C01Monad.
From Coq Require Import ZifyBool.

Section Ops.
Variable d : dname.
Hypothesis Hd : modelled d = true.
Variable en : env.

Notation ev := (ev d en).
Notation vden := (vden d en).
Notation cden := (cden d en).

Ltac dcases := destruct d; try discriminate Hd.

(* numeric reading of a stored value *)
Definition num_q (v : pyv) : qv := match int_of v with Some x => IntV x | None => NullV end.

Lemma num_plain : forall sql v t, ev sql = enc d v -> has_vty v t = true -> is_numeric t = true ->
  (pg d = false \/ t = TInt) -> ev sql = num_q v.
Proof.
  intros sql v t Hs Ht Hn Hc. rewrite Hs. destruct v as [|z|x|b], t; try discriminate; try reflexivity.
  destruct Hc as [P|]; [|discriminate]. unfold num_q, enc, bv. rewrite P. reflexivity.
Qed.

Lemma num_cast : forall sql v, ev sql = enc d v -> has_vty v TBool = true -> pg d = true ->
  ev (QUn QToInt sql) = num_q v.
Proof.
  intros sql v Hs Ht P. unfold C01Monad.ev in *. cbn [qeval qunop]. rewrite Hs.
  destruct v as [|z|x|b]; try discriminate; [reflexivity|]. unfold enc, bv. rewrite P. reflexivity.
Qed.

(* coerce_monads on two numeric value monads (one of them int when not for comparison): both sides read numerically *)
Lemma coerce_num : forall fc k1 t1 n1 s1 v1 k2 t2 n2 s2 v2,
  ev s1 = enc d v1 -> has_vty v1 t1 = true -> ev s2 = enc d v2 -> has_vty v2 t2 = true ->
  is_numeric t1 = true -> is_numeric t2 = true -> (t1 = TInt \/ t2 = TInt) ->
  exists rt l' r', coerce_monads d fc (MVal k1 t1 n1 s1) (MVal k2 t2 n2 s2) = (Some rt, l', r') /\ is_numeric rt = true /\
    (t1 = TInt -> t2 = TInt -> rt = TInt) /\ rt = TInt /\
    ev (getsql l') = num_q v1 /\ ev (getsql r') = num_q v2 /\ mnullable l' = n1 /\ mnullable r' = n2.
Proof.
  intros fc k1 t1 n1 s1 v1 k2 t2 n2 s2 v2 H1 T1 H2 T2 N1 N2 Hi.
  unfold coerce_monads. cbn [mvty].
  destruct t1, t2; try discriminate; try (destruct Hi; discriminate); cbn [coerce_vty vty_eqb orb andb negb].
  - (* int int *) do 3 eexists. split; [reflexivity|]. repeat split; cbn [getsql mnullable]; eauto using num_plain.
  - (* int bool *)
    destruct (pg d) eqn:P; cbn [andb]; do 3 eexists; (split; [reflexivity|]); repeat split; cbn [getsql mnullable to_int]; eauto using num_plain, num_cast.
  - destruct (pg d) eqn:P; cbn [andb]; do 3 eexists; (split; [reflexivity|]); repeat split; cbn [getsql mnullable to_int]; eauto using num_plain, num_cast.
Qed.

(* ------------------------------------------------------------------------------------------- arithmetic *)
Lemma arith_den : forall op ml t1 v1 mr t2 v2,
  vden ml t1 v1 -> vden mr t2 v2 -> is_numeric t1 = true -> is_numeric t2 = true -> (t1 = TInt \/ t2 = TInt) ->
  match int_of v1, int_of v2 with Some x, Some y => arith_safe d op x y | _, _ => true end = true ->
  vden (m_arith d op ml mr) TInt (match int_of v1, int_of v2 with Some x, Some y => PInt (py_arith op x y) | _, _ => PNone end).
Proof.
  intros op ml t1 v1 mr t2 v2 [k1 [n1 [s1 [-> [H1 [T1 _]]]]]] [k2 [n2 [s2 [-> [H2 [T2 _]]]]]] N1 N2 Hi Hs.
  destruct (coerce_num false k1 t1 n1 s1 v1 k2 t2 n2 s2 v2 H1 T1 H2 T2 N1 N2 Hi) as [rt [l' [r' [E [Nr [_ [-> [L [R _]]]]]]]]].
  unfold m_arith. rewrite N1, E. cbn [is_numeric].
  exists KExpr, true, (QBin (qbin_of_aop op) (getsql l') (getsql r')). split; [reflexivity|].
  split; [|split; [|discriminate]].
  - unfold C01Monad.ev in *. cbn [qeval]. rewrite L, R. unfold num_q.
    destruct (int_of v1) as [x|], (int_of v2) as [y|]; cbn [enc].
    + assert (Q : qbinop d (qbin_of_aop op) (IntV x) (IntV y) = qarith d (qbin_of_aop op) (IntV x) (IntV y)) by (destruct op; reflexivity).
      rewrite Q. apply qarith_safe; assumption.
    + destruct op; reflexivity.
    + destruct op; reflexivity.
    + destruct op; reflexivity.
  - destruct (int_of v1), (int_of v2); reflexivity.
Qed.

Lemma unary_den : forall (neg : bool) m v, vden m TInt v ->
  vden (m_unary (if neg then QNeg else QAbs) m) TInt (match v with PInt x => PInt (if neg then - x else Z.abs x) | _ => PNone end).
Proof.
  intros neg m v [k [n [s [-> [H [T N]]]]]]. unfold m_unary. cbn [is_numeric].
  exists KExpr, n, (QUn (if neg then QNeg else QAbs) s). split; [reflexivity|].
  unfold C01Monad.ev in *. cbn [qeval]. rewrite H.
  destruct v as [|z|x|b]; try discriminate T; (split; [destruct neg; reflexivity|split; [reflexivity|]]).
  - exact N.
  - discriminate.
Qed.

Lemma concat_den : forall ml v1 mr v2, vden ml TStr v1 -> vden mr TStr v2 ->
  vden (m_concat ml mr) TStr (match v1, v2 with PStr x, PStr y => PStr (x ++ y) | _, _ => PNone end).
Proof.
  intros ml v1 mr v2 [k1 [n1 [s1 [-> [H1 [T1 N1]]]]]] [k2 [n2 [s2 [-> [H2 [T2 N2]]]]]]. unfold m_concat.
  exists KExpr, (n1 || n2), (QBin QConcat s1 s2). split; [reflexivity|].
  unfold C01Monad.ev in *. cbn [qeval qbinop]. rewrite H1, H2.
  destruct v1 as [|z|x|b], v2 as [|z'|y|b']; try discriminate T1; try discriminate T2; (split; [reflexivity|split; [reflexivity|]]);
    intro E; apply Bool.orb_false_elim in E; destruct E as [E1 E2]; auto; discriminate.
Qed.

Lemma len_den : forall m v, vden m TStr v ->
  match d, v with DMysql, PStr s => ascii s | _, _ => true end = true ->
  vden (m_len m) TInt (match v with PStr x => PInt (zlen x) | _ => PNone end).
Proof.
  intros m v [k [n [s [-> [H [T N]]]]]] Hs.
  assert (G : vden (MVal KExpr TInt true (QUn QLen s)) TInt (match v with PStr x => PInt (zlen x) | _ => PNone end)).
  { exists KExpr, true, (QUn QLen s). split; [reflexivity|]. unfold C01Monad.ev in *. cbn [qeval qunop]. rewrite H.
    destruct v as [|z|x|b]; try discriminate T; (split; [|split; [reflexivity|discriminate]]); [reflexivity|].
    cbn [enc]. f_equal. apply ascii_qlen. destruct d; try reflexivity; exact Hs. }
  unfold m_len. destruct k; try exact G. destruct s; try exact G. destruct v0; try exact G.
  (* StringConstMonad.len *)
  unfold C01Monad.ev in H. cbn in H. destruct v as [|z|x|b]; try discriminate T; cbn in H; try discriminate H.
  inversion H; subst. exists KConst, false, (QVal (QLInt (zlen x))). repeat split; discriminate.
Qed.

(* ------------------------------------------------------------------------------------------- comparisons *)
Lemma qisnull_enc : forall neg v, qisnull d neg (enc d v) = bv d (if is_none v then negb neg else neg).
Proof. intros neg v. destruct v as [|z|x|b]; try reflexivity. cbn [enc is_none]. unfold bv. destruct (pg d) eqn:P; cbn [qisnull]; unfold bv; rewrite P; reflexivity. Qed.

Lemma cmp_none_den : forall op m t v, vden m t v -> is_ordering op = false ->
  cden (mk_cmp d op m MNone) = Some (none_test op v) /\ cden (mk_cmp d op MNone m) = Some (none_test op v).
Proof.
  intros op m t v [k [n [s [-> [H [T N]]]]]] Ho.
  assert (G : forall neg : bool, cden (MCmp (if neg then CIsNot else CIs) (MVal k t n s) MNone) = Some (tv_of_bool (if neg then negb (is_none v) else is_none v))).
  { intro neg. destruct neg; cbn [C01Monad.cden getsql]; unfold C01Monad.ev in *; cbn [qeval qunop]; rewrite H, qisnull_enc, bv_of_tv, dec_tv_of_tv;
      destruct (is_none v); reflexivity. }
  unfold mk_cmp. cbn [is_err is_nonem orb].
  destruct op; try discriminate Ho; cbn [none_test]; split;
    first [exact (G false) | exact (G true)].
Qed.

Lemma qcmp_enc_bool : forall op v1 v2, has_vty v1 TBool = true -> has_vty v2 TBool = true ->
  qcmp d op (enc d v1) (enc d v2) = of_tv d (cmp3 op v1 v2).
Proof.
  intros op v1 v2 T1 T2.
  destruct v1 as [|z|x|b], v2 as [|z'|y|b']; try discriminate T1; try discriminate T2; cbn [enc cmp3 int_of]; unfold bv;
    destruct (pg d) eqn:P; cbn [qcmp]; try reflexivity; unfold bv; rewrite P, ?bool_compare_b2z;
    destruct (cmp_res op (b2z b ?= b2z b')); unfold of_tv, tv_of_bool, bv; rewrite P; reflexivity.
Qed.

Lemma qcmp_num : forall op v1 v2 t1 t2, has_vty v1 t1 = true -> has_vty v2 t2 = true -> is_numeric t1 = true -> is_numeric t2 = true ->
  qcmp d op (num_q v1) (num_q v2) = of_tv d (cmp3 op v1 v2).
Proof.
  intros op v1 v2 t1 t2 T1 T2 N1 N2.
  destruct v1 as [|z|x|b], v2 as [|z'|y|b']; try (destruct t1; discriminate); try (destruct t2; discriminate);
    unfold num_q; cbn [int_of qcmp cmp3]; rewrite ?bv_of_tv; reflexivity.
Qed.

Lemma qcmp_str : forall op v1 v2, has_vty v1 TStr = true -> has_vty v2 TStr = true ->
  qcmp d op (enc d v1) (enc d v2) = of_tv d (cmp3 op v1 v2).
Proof.
  intros op v1 v2 T1 T2.
  destruct v1 as [|z|x|b], v2 as [|z'|y|b']; try discriminate T1; try discriminate T2; cbn [enc qcmp cmp3]; rewrite ?bv_of_tv; reflexivity.
Qed.

Lemma cmp_val_den : forall op ml t1 v1 mr t2 v2,
  vden ml t1 v1 -> vden mr t2 v2 -> is_identity op = false ->
  ((is_numeric t1 = true /\ is_numeric t2 = true) \/ (t1 = TStr /\ t2 = TStr)) ->
  cden (mk_cmp d op ml mr) = Some (cmp3 op v1 v2).
Proof.
  intros op ml t1 v1 mr t2 v2 [k1 [n1 [s1 [-> [H1 [T1 _]]]]]] [k2 [n2 [s2 [-> [H2 [T2 _]]]]]] Ho Hty.
  unfold mk_cmp. cbn [is_err is_nonem orb mvty].
  assert (OP : match op with CIs => CEq | CIsNot => CNe | o => o end = op) by (destruct op; try reflexivity; discriminate).
  rewrite OP.
  assert (CMP : comparable (is_ordering op) t1 t2 = true).
  { destruct Hty as [[A B]|[-> ->]]; [destruct t1, t2; try discriminate; reflexivity|reflexivity]. }
  rewrite CMP.
  assert (Q : forall a b, ev (QBin (qbin_of op) a b) = qcmp d op (ev a) (ev b)).
  { intros a b. unfold C01Monad.ev. cbn [qeval]. destruct op; try discriminate Ho; reflexivity. }
  destruct Hty as [[N1 N2]|[-> ->]].
  - (* numeric *)
    destruct (vty_eqb t1 TBool && vty_eqb t2 TBool) eqn:BB.
    + (* bool bool: no cast *)
      apply andb_prop in BB; destruct BB as [B1 B2]. apply vty_eqb_eq in B1, B2. subst.
      unfold coerce_monads. cbn [mvty coerce_vty vty_eqb orb andb negb].
      replace (match op with CIs => true | CIsNot => true | _ => false end) with false by (destruct op; try reflexivity; discriminate).
      cbn [C01Monad.cden getsql].
      replace (match op with CIs => QUn QIsNull s1 | CIsNot => QUn QIsNotNull s1 | _ => QBin (qbin_of op) s1 s2 end) with (QBin (qbin_of op) s1 s2)
        by (destruct op; try reflexivity; discriminate).
      rewrite Q, H1, H2, (qcmp_enc_bool op v1 v2 T1 T2). apply dec_tv_of_tv.
    + (* at least one int *)
      assert (Hi : t1 = TInt \/ t2 = TInt) by (destruct t1, t2; try discriminate; auto).
      destruct (coerce_num true k1 t1 n1 s1 v1 k2 t2 n2 s2 v2 H1 T1 H2 T2 N1 N2 Hi) as [rt [l' [r' [E [_ [_ [_ [L [R _]]]]]]]]].
      rewrite E. cbn [C01Monad.cden getsql].
      replace (match op with CIs => QUn QIsNull (getsql l') | CIsNot => QUn QIsNotNull (getsql l') | _ => QBin (qbin_of op) (getsql l') (getsql r') end)
        with (QBin (qbin_of op) (getsql l') (getsql r')) by (destruct op; try reflexivity; discriminate).
      rewrite Q, L, R, (qcmp_num op v1 v2 t1 t2 T1 T2 N1 N2). apply dec_tv_of_tv.
  - (* str *)
    unfold coerce_monads. cbn [mvty coerce_vty vty_eqb orb andb negb]. cbn [C01Monad.cden getsql].
    replace (match op with CIs => QUn QIsNull s1 | CIsNot => QUn QIsNotNull s1 | _ => QBin (qbin_of op) s1 s2 end) with (QBin (qbin_of op) s1 s2)
      by (destruct op; try reflexivity; discriminate).
    rewrite Q, H1, H2, (qcmp_str op v1 v2 T1 T2). apply dec_tv_of_tv.
Qed.

(* ------------------------------------------------------------------------------------------- in / not in *)
Lemma qor_list_of_tvs : forall cs, qor_list d (map (of_tv d) cs) = of_tv d (fold_right or3 F cs).
Proof.
  intro cs. unfold qor_list. replace (all_some (map (as_tv d) (map (of_tv d) cs))) with (Some cs); [reflexivity|].
  induction cs as [|c cs IH]; [reflexivity|]. cbn [map all_some]. rewrite as_tv_of_tv, <- IH. reflexivity.
Qed.

Lemma qcmp_enc_lit : forall t v l, has_vty v t = true -> (t = TInt \/ t = TStr) -> lit_vty l = t ->
  qcmp d CEq (enc d v) (enc d (lit_val l)) = of_tv d (cmp3 CEq v (lit_val l)).
Proof.
  intros t v l T Ht Hl. destruct Ht; subst t.
  - destruct l; try discriminate Hl. destruct v as [|z'|x|b]; try discriminate T; cbn [enc lit_val qcmp cmp3 int_of]; rewrite ?bv_of_tv; reflexivity.
  - destruct l; try discriminate Hl. apply qcmp_str; [exact T|reflexivity].
Qed.

Lemma qin_nonempty : forall neg v its, its <> [] ->
  qin d neg v its = if neg then qnot d (qor_list d (map (qcmp d CEq v) its)) else qor_list d (map (qcmp d CEq v) its).
Proof. intros neg v its H. destruct its; [congruence|reflexivity]. Qed.

Definition in_ref (neg : bool) (v : pyv) (items : list lit) : tv :=
  let r := fold_right (fun l acc => or3 (cmp3 CEq v (lit_val l)) acc) F items in if neg then not3 r else r.

Lemma in_den : forall neg m t v items, vden m t v -> (t = TInt \/ t = TStr) ->
  forallb (fun l => vty_eqb (lit_vty l) t) items = true ->
  cden (m_in neg m items) = Some (in_ref neg v items).
Proof.
  intros neg m t v items [k [n [s [-> [H [T N]]]]]] Ht Hall.
  rewrite forallb_forall in Hall.
  assert (Hl : forall l, In l items -> lit_vty l = t) by (intros l Hin; apply vty_eqb_eq; auto).
  unfold m_in.
  replace (forallb (fun l => comparable false t (lit_vty l)) items) with true.
  2:{ symmetry. apply forallb_forall. intros l Hin. rewrite (Hl l Hin). destruct Ht; subst; reflexivity. }
  cbn [C01Monad.cden getsql]. unfold C01Monad.ev in *. cbn [qeval]. rewrite H, map_map. cbn [qeval].
  assert (M : map (fun l => qlit_val d (qlit_of l)) items = map (fun l => enc d (lit_val l)) items).
  { apply map_ext. intro l. destruct l; reflexivity. }
  rewrite M. unfold in_ref.
  destruct items as [|i items].
  - unfold qin. cbn [map fold_right]. rewrite enc_not_bad, bv_of_tv, dec_tv_of_tv. destruct neg; reflexivity.
  - rewrite qin_nonempty by (cbn [map]; discriminate).
    set (its := i :: items) in *. rewrite map_map.
    assert (E : map (fun l => qcmp d CEq (enc d v) (enc d (lit_val l))) its = map (of_tv d) (map (fun l => cmp3 CEq v (lit_val l)) its)).
    { rewrite map_map. apply map_ext_in. intros l Hin. apply (qcmp_enc_lit t); auto. }
    rewrite E, qor_list_of_tvs.
    assert (F2 : fold_right or3 F (map (fun l => cmp3 CEq v (lit_val l)) its) = fold_right (fun l acc => or3 (cmp3 CEq v (lit_val l)) acc) F its).
    { clear. induction its as [|l its IH]; [reflexivity|]. cbn [map fold_right]. rewrite IH. reflexivity. }
    rewrite F2. destruct neg; rewrite ?qnot_of_tv; apply dec_tv_of_tv.
Qed.

(* ------------------------------------------------------------------------------------------- if-expression *)
Lemma if_den : forall mc c mt t vt mf vf,
  (cden mc = Some c \/ exists tc v, vden mc tc v /\ c = truth_u v) ->
  vden mt t vt -> vden mf t vf ->
  vden (m_if d mc mt mf) t (match c with T => vt | _ => vf end).
Proof.
  intros mc c mt t vt mf vf Hc [k1 [n1 [s1 [-> [H1 [T1 N1]]]]]] [k2 [n2 [s2 [-> [H2 [T2 N2]]]]]].
  assert (O : oden d en mc c) by (destruct Hc as [Hc|[tc [v [Hv ->]]]]; [left; exact Hc|right; eauto]).
  destruct (oden_ok _ _ _ _ O) as [E1 E2].
  pose proof (oden_test_sql d Hd en _ _ O) as S.
  unfold m_if. rewrite E1, E2. cbn [is_err orb mvty].
  set (c' := if is_boolm mc then mc else m_nonzero d mc) in *.
  assert (C' : (if is_boolm mc then Some mc else match mc with MVal _ _ _ _ => Some (m_nonzero d mc) | _ => None end) = Some c').
  { unfold c'. destruct (is_boolm mc) eqn:B; [reflexivity|].
    destruct Hc as [Hc|[tc [v [[k [n [s [-> _]]]] _]]]]; [destruct (cden_boolm _ _ _ _ Hc) as [B' _]; congruence|reflexivity]. }
  rewrite C'. replace (coerce_vty t t) with (Some t) by (destruct t; reflexivity).
  exists KExpr, (mnullable c' || n1 || n2), (QCase (getsql c') s1 s2). split; [reflexivity|].
  unfold C01Monad.ev in *. cbn [qeval]. rewrite S, H1, H2. unfold qcase. rewrite as_tv_of_tv, !enc_not_bad. cbn [orb].
  rewrite (compat_enc d vt vf t T1 T2). cbn [negb]. rewrite Bool.andb_false_r.
  split; [destruct c; reflexivity|]. split; [destruct c; assumption|].
  intro E. apply Bool.orb_false_elim in E. destruct E as [E E3]. apply Bool.orb_false_elim in E. destruct E as [_ E4].
  destruct c; auto.
Qed.

(* ------------------------------------------------------------------------------------------- coalesce *)
Lemma coalesce_type_same : forall t ms, Forall (fun m => mvty m = Some t) ms -> coalesce_type t ms = Some t.
Proof. intros t ms H. induction H as [|m ms Hm _ IH]; [reflexivity|]. cbn [coalesce_type]. rewrite Hm, vty_eqb_refl. exact IH. Qed.

Lemma vden_mvty : forall m t v, vden m t v -> mvty m = Some t.
Proof. intros m t v [k [n [s [-> _]]]]. reflexivity. Qed.

Lemma vden_sqls : forall t ms vs, Forall2 (fun m v => vden m t v) ms vs ->
  map (qeval d (encenv d en)) (map getsql ms) = map (enc d) vs.
Proof.
  intros t ms vs H. induction H as [|m v ms vs [k [n [s [-> [Hs _]]]]] _ IH]; [reflexivity|].
  cbn [map getsql]. unfold C01Monad.ev in Hs. rewrite Hs, IH. reflexivity.
Qed.

Lemma one_kind_enc : forall t vs, Forall (fun v => has_vty v t = true) vs -> one_kind (map (enc d) vs) = true.
Proof.
  intros t vs H. induction H as [|v vs Hv Hvs IH]; [reflexivity|]. cbn [map one_kind]. rewrite IH, Bool.andb_true_r.
  apply forallb_forall. intros q Hq. apply in_map_iff in Hq. destruct Hq as [w [<- Hw]].
  rewrite Forall_forall in Hvs. apply (compat_enc d v w t); auto.
Qed.

Lemma no_bad_enc : forall vs, existsb is_bad (map (enc d) vs) = false.
Proof. induction vs as [|v vs IH]; [reflexivity|]. cbn [map existsb]. rewrite enc_not_bad, IH. reflexivity. Qed.

Lemma first_nonnull_enc : forall vs, first_nonnull (map (enc d) vs) = enc d (first_some vs).
Proof.
  induction vs as [|v vs IH]; [reflexivity|]. cbn [map]. destruct v as [|z|x|b]; cbn [enc first_nonnull first_some]; try reflexivity; [exact IH|].
  unfold bv. destruct (pg d); reflexivity.
Qed.

Lemma vden_vals_ty : forall t ms vs, Forall2 (fun m v => vden m t v) ms vs -> Forall (fun v => has_vty v t = true) vs.
Proof. intros t ms vs H. induction H as [|m v ms vs [k [n [s [_ [_ [T _]]]]]] _ IH]; constructor; auto. Qed.

Lemma first_some_nonnull : forall t ms vs, Forall2 (fun m v => vden m t v) ms vs -> forallb mnullable ms = false -> first_some vs <> PNone.
Proof.
  intros t ms vs H. induction H as [|m v ms vs [k [n [s [-> [_ [_ N]]]]]] _ IH]; intro E; [discriminate|].
  cbn [forallb mnullable] in E. destruct n.
  - cbn [andb] in E. specialize (IH E). cbn [first_some]. destruct v; auto; discriminate.
  - specialize (N eq_refl). cbn [first_some]. destruct v; auto; discriminate.
Qed.

Lemma coalesce_den : forall t ms vs, Forall2 (fun m v => vden m t v) ms vs -> (2 <= length ms)%nat ->
  vden (m_coalesce ms) t (first_some vs).
Proof.
  intros t ms vs H L.
  assert (MT : Forall (fun m => mvty m = Some t) ms).
  { clear L. induction H as [|m v ms vs Hm _ IH]; constructor; eauto using vden_mvty. }
  unfold m_coalesce. destruct ms as [|m [|m2 r]]; cbn in L; try lia.
  inversion MT as [|? ? M1 MR]; subst. rewrite M1, (coalesce_type_same t _ MR).
  exists KExpr, (forallb mnullable (m :: m2 :: r)), (QCoalesce (map getsql (m :: m2 :: r))). split; [reflexivity|].
  unfold C01Monad.ev. cbn [qeval]. rewrite (vden_sqls t _ _ H). unfold qcoalesce.
  rewrite no_bad_enc, (one_kind_enc t _ (vden_vals_ty _ _ _ H)). cbn [negb]. rewrite Bool.andb_false_r.
  split; [apply first_nonnull_enc|]. split; [apply has_vty_first_some; eapply vden_vals_ty; eauto|].
  intro E. eapply first_some_nonnull; eauto.
Qed.

(* ------------------------------------------------------------------------------------------- min / max *)
Lemma minmax2_none_l : forall m v, minmax2 m PNone v = PNone.
Proof. reflexivity. Qed.
Lemma fold_minmax_none : forall m vs, fold_left (minmax2 m) vs PNone = PNone.
Proof. induction vs as [|v vs IH]; [reflexivity|]. cbn [fold_left]. exact IH. Qed.
Lemma minmax2_none_r : forall m v, minmax2 m v PNone = PNone.
Proof. destruct v; reflexivity. Qed.

Lemma minmax_list_none : forall m vs, existsb is_none vs = true -> minmax_list m vs = PNone.
Proof.
  intros m vs H. destruct vs as [|v vs]; [discriminate|]. cbn [minmax_list]. revert v H.
  induction vs as [|w vs IH]; intros v H; cbn [existsb] in H.
  - rewrite Bool.orb_false_r in H. destruct v; try discriminate. reflexivity.
  - cbn [fold_left]. destruct (is_none v) eqn:Ev.
    + destruct v; try discriminate. cbn. apply fold_minmax_none.
    + cbn [orb] in H. apply IH. cbn [existsb]. destruct (is_none w) eqn:Ew.
      * destruct w; try discriminate. rewrite minmax2_none_r. reflexivity.
      * cbn [orb] in H. rewrite H. apply Bool.orb_true_r.
Qed.

Definition plainv (t : vty) (v : pyv) : Prop := has_vty v t = true /\ v <> PNone.

Lemma minmax2_plain : forall m t a b, t <> TBool -> plainv t a -> plainv t b ->
  plainv t (minmax2 m a b) /\ qminmax2 m (enc d a) (enc d b) = enc d (minmax2 m a b).
Proof.
  intros m t a b Ht [Ta Na] [Tb Nb].
  destruct a as [|x|x|x], b as [|y|y|y], t; try discriminate; try congruence; cbn [enc minmax2 qminmax2]; unfold pick, qpick; destruct m;
    match goal with |- context [if ?c then _ else _] => destruct c end; repeat split; try reflexivity; discriminate.
Qed.

Lemma fold_minmax_plain : forall m t vs v, t <> TBool -> Forall (plainv t) vs -> plainv t v ->
  plainv t (fold_left (minmax2 m) vs v) /\ fold_left (qminmax2 m) (map (enc d) vs) (enc d v) = enc d (fold_left (minmax2 m) vs v).
Proof.
  intros m t vs. induction vs as [|w vs IH]; intros v Ht Hvs Hv; [split; [exact Hv|reflexivity]|].
  inversion Hvs as [|? ? Hw Hr]; subst. cbn [map fold_left].
  destruct (minmax2_plain m t v w Ht Hv Hw) as [P E]. rewrite E. apply IH; assumption.
Qed.

Lemma filter_nonnull_enc : forall vs, existsb is_none vs = false -> filter (fun v => negb (is_null v)) (map (enc d) vs) = map (enc d) vs.
Proof.
  induction vs as [|v vs IH]; intro H; [reflexivity|]. cbn [existsb] in H. apply Bool.orb_false_elim in H. destruct H as [H1 H2].
  cbn [map filter]. rewrite enc_is_null, H1. cbn [negb]. rewrite (IH H2). reflexivity.
Qed.

Lemma filter_allnull_enc : forall vs, forallb is_none vs = true -> filter (fun v => negb (is_null v)) (map (enc d) vs) = [].
Proof.
  induction vs as [|v vs IH]; intro H; [reflexivity|]. cbn [forallb] in H. apply andb_prop in H. destruct H as [H1 H2].
  cbn [map filter]. rewrite enc_is_null, H1. cbn [negb]. exact (IH H2).
Qed.

Lemma existsb_null_enc : forall vs, existsb is_null (map (enc d) vs) = existsb is_none vs.
Proof. induction vs as [|v vs IH]; [reflexivity|]. cbn [map existsb]. rewrite enc_is_null, IH. reflexivity. Qed.

Lemma minmax_den : forall is_max t ms vs, Forall2 (fun m v => vden m t v) ms vs -> (2 <= length ms)%nat -> t <> TBool ->
  (pg d = false \/ forallb is_none vs = true \/ existsb is_none vs = false) ->
  vden (m_minmax d is_max ms) t (minmax_list is_max vs).
Proof.
  intros is_max t ms vs H L Ht Hsafe.
  assert (MT : Forall (fun m => mvty m = Some t) ms).
  { clear L Hsafe. induction H as [|m v ms vs Hm _ IH]; constructor; eauto using vden_mvty. }
  assert (ID : map (fun a => match mvty a with Some TBool => to_int a | _ => a end) ms = ms).
  { clear - MT Ht. induction MT as [|m ms Hm _ IH]; [reflexivity|]. cbn [map]. rewrite Hm, IH. destruct t; try reflexivity; congruence. }
  unfold m_minmax. destruct ms as [|m [|m2 r]]; cbn in L; try lia.
  inversion MT as [|? ? M1 MR]; subst. rewrite M1, (coalesce_type_same t _ MR).
  replace (if is_numeric t && pg d then map (fun a => match mvty a with Some TBool => to_int a | _ => a end) (m :: m2 :: r) else m :: m2 :: r)
    with (m :: m2 :: r) by (rewrite ID; destruct (is_numeric t && pg d); reflexivity).
  exists KExpr, (existsb mnullable (m :: m2 :: r)), (QMinMax is_max (map getsql (m :: m2 :: r))). split; [reflexivity|].
  pose proof (vden_vals_ty _ _ _ H) as VT.
  unfold C01Monad.ev. cbn [qeval]. rewrite (vden_sqls t _ _ H). unfold qminmax. rewrite no_bad_enc, existsb_null_enc.
  assert (NN : existsb mnullable (m :: m2 :: r) = false -> existsb is_none vs = false).
  { clear - H. induction H as [|a v ms vs [k [n [s [-> [_ [_ N]]]]]] _ IH]; intro E; [reflexivity|].
    cbn [existsb mnullable] in E. apply Bool.orb_false_elim in E. destruct E as [E1 E2]. cbn [existsb]. rewrite (IH E2), Bool.orb_false_r.
    specialize (N E1). destruct v; try reflexivity; congruence. }
  assert (PL : existsb is_none vs = false -> Forall (plainv t) vs).
  { clear - VT. induction VT as [|v vs Hv _ IH]; intro E; constructor; cbn [existsb] in E; apply Bool.orb_false_elim in E; destruct E as [E1 E2]; auto.
    split; [exact Hv|]. destruct v; try discriminate; congruence. }
  destruct (existsb is_none vs) eqn:EN.
  - (* some argument is None *)
    rewrite (minmax_list_none _ _ EN).
    assert (R : (if true && minmax_null d then NullV else match filter (fun v => negb (is_null v)) (map (enc d) vs) with
                  | [] => NullV | v :: r0 => match v with IntV _ | StrV _ => fold_left (qminmax2 is_max) r0 v | _ => ErrV end end) = NullV).
    { unfold minmax_null. destruct Hsafe as [P|[A|A]]; [rewrite P; reflexivity| |discriminate A].
      destruct (pg d); [|reflexivity]. cbn [negb andb]. rewrite (filter_allnull_enc _ A). reflexivity. }
    rewrite R. split; [reflexivity|]. split; [reflexivity|]. intro E. specialize (NN E). discriminate NN.
  - cbn [andb]. rewrite (filter_nonnull_enc _ EN). specialize (PL eq_refl).
    destruct vs as [|v vs]; [inversion H|]. inversion PL as [|? ? Pv Pr]; subst. cbn [map minmax_list].
    destruct (fold_minmax_plain is_max t vs v Ht Pr Pv) as [[T N] E].
    assert (K : match enc d v with IntV _ | StrV _ => fold_left (qminmax2 is_max) (map (enc d) vs) (enc d v) | _ => ErrV end
                = fold_left (qminmax2 is_max) (map (enc d) vs) (enc d v)).
    { destruct Pv as [Tv Nv]. destruct v, t; try discriminate; try congruence; reflexivity. }
    rewrite K, E. split; [reflexivity|]. split; [exact T|]. intros _. exact N.
Qed.
End Ops.
