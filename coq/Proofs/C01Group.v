(* C01/C02 - GROUP BY with selected aggregates / several aggregates per query: the SQL groups (kept rows partitioned by the values of
   the key columns) are the Python groups (the comprehension's rows partitioned by the values of the key expressions), and every
   item of every group has Python's value. *)
Require Import PonyV.Base.PyBase PonyV.Model.C01Expr PonyV.Model.C01Sql PonyV.Model.C01Translate PonyV.Model.C01Safe
               PonyV.Model.C01Eqb PonyV.Model.C01Query PonyV.Model.C01Aggr PonyV.Model.C01Group
               PonyV.Proofs.C01Base PonyV.Proofs.C01Ref PonyV.Proofs.C01Ops PonyV.Proofs.C01Rows PonyV.Proofs.C01Aggr.
From Coq Require Import ZifyBool.

(* ------------------------------------------------------------------------------------------- grouping only looks at the relation *)
Lemma dedup_ext_in : forall A (e1 e2 : A -> A -> bool) l, (forall x y, In x l -> In y l -> e1 x y = e2 x y) -> dedup e1 l = dedup e2 l.
Proof.
  induction l as [|x r IH]; intro H; [reflexivity|]. cbn [dedup].
  rewrite <- (IH (fun a b Ha Hb => H a b (or_intror Ha) (or_intror Hb))). f_equal.
  apply filter_ext_in'. intros y Hy. apply dedup_incl in Hy. rewrite (H x y (or_introl eq_refl) (or_intror Hy)). reflexivity.
Qed.

Lemma groups_ext : forall A b (s1 s2 : A -> A -> bool) l, (forall x y, In x l -> In y l -> s1 x y = s2 x y) ->
  groups_of b s1 l = groups_of b s2 l.
Proof.
  intros A b s1 s2 l H. unfold groups_of. destruct b; [|reflexivity]. rewrite (dedup_ext_in A s1 s2 l H).
  apply map_ext_in. intros r Hr. apply dedup_incl in Hr. apply filter_ext_in'. intros y Hy. apply H; assumption.
Qed.

Lemma groups_are_filters : forall A b (s : A -> A -> bool) l grp, In grp (groups_of b s l) -> exists f, grp = filter f l.
Proof.
  intros A b s l grp H. unfold groups_of in H. destruct b.
  - apply in_map_iff in H. destruct H as [r [<- _]]. eauto.
  - destruct H as [<-|[]]. exists (fun _ => true). clear. induction l as [|x l IH]; [reflexivity|]. cbn. rewrite <- IH. reflexivity.
Qed.

Lemma qvs_enc : forall d ts a b, Forall2 (fun v t => has_vty v t = true) a ts -> Forall2 (fun v t => has_vty v t = true) b ts ->
  qvs_eqb (map (enc d) a) (map (enc d) b) = pyvs_eqb a b.
Proof.
  intros d ts a b Ha. revert b. induction Ha as [|x t a ts Hx _ IH]; intros b Hb; inversion Hb as [|y t' b' ts' Hy Hr]; subst; [reflexivity|].
  cbn [map qvs_eqb pyvs_eqb]. rewrite (qv_eqb_enc d t x y Hx Hy), (IH b' Hr). reflexivity.
Qed.

Section Group.
Variable d : dname.
Hypothesis Hd : modelled d = true.

Definition vdom (en : env) (e : expr) : Prop := env_ok en e = true /\ safe d en e = true /\ clean en e = true.

Definition item_dom (en : env) (it : sitem) : Prop :=
  match it with
  | SKey e | SAgg (GAgg _ _ e) => vdom en e
  | SAgg _ => True
  end.

Definition grow_ok (filt : option expr) (items : list sitem) (en : env) : Prop :=
  match filt with None => True | Some c => env_ok en c = true /\ safe d en c = true /\ pos_ok en c = true end /\
  Forall (item_dom en) items.

Definition item_safe (it : sitem) : bool := match it with SKey _ => true | SAgg g => aggr_safe d g end.

Fixpoint key_types (items : list sitem) : list vty :=
  match items with
  | [] => []
  | SKey e :: r => match ty_of e with Some (TV t) => t :: key_types r | _ => key_types r end
  | SAgg _ :: r => key_types r
  end.

(* the key columns of a row: stored forms of the key expressions' values *)
Lemma keys_sound : forall items qitems en, tr_items d items = Some qitems -> Forall (item_dom en) items ->
  map (qeval d (encenv d en)) (qkeys qitems) = map (enc d) (map (ref_eval en) (skeys items)) /\
  Forall2 (fun v t => has_vty v t = true) (map (ref_eval en) (skeys items)) (key_types items) /\
  nonempty (qkeys qitems) = nonempty (skeys items).
Proof.
  induction items as [|it r IH]; intros qitems en E Dom.
  - inversion E; subst. repeat split; constructor.
  - cbn [tr_items] in E. destruct (tr_item d it) as [q|] eqn:Ei; [|discriminate]. destruct (tr_items d r) as [qs|] eqn:Er; [|discriminate].
    inversion E; subst qitems. inversion Dom as [|? ? D1 D2]; subst. destruct (IH qs en eq_refl D2) as [K1 [K2 K3]].
    destruct it as [e|g]; cbn [tr_item] in Ei.
    + destruct (ty_of e) as [[t| |]|] eqn:Te; try discriminate. destruct (tr_project d e) as [q0|] eqn:Q; [|discriminate]. inversion Ei; subst q.
      destruct D1 as [A4 [A5 A6]]. destruct (project_ref d Hd en e t Te A4 A5 A6) as [q' [E' [Qv _]]]. rewrite Q in E'. inversion E'; subst q'.
      cbn [qkeys skeys flat_map app map key_types]. rewrite Te. fold (qkeys qs). fold (skeys r). rewrite Qv, K1. repeat split.
      constructor; [|exact K2]. unfold ref_eval. rewrite <- (clean_same en e A6). exact (reval_typed true en e (TV t) Te A4).
    + destruct (tr_aggr d 0%nat g) as [qa|]; [|discriminate]. inversion Ei; subst q. cbn [qkeys skeys flat_map app key_types].
      fold (qkeys qs). fold (skeys r). repeat split; assumption.
Qed.

Theorem group_sound : forall table filt items qitems conds,
  filt_typed filt = true -> tr_where d filt = Some conds -> tr_items d items = Some qitems ->
  forallb item_safe items = true ->
  keys_ok (map (fun en => attr_val en 0%nat) table) = true ->
  Forall (grow_ok filt items) table ->
  sql_group_rows d qitems conds table = map (map (enca d)) (py_group_rows items filt table).
Proof.
  intros table filt items qitems conds Tf EC EI Safe Keys Hall. rewrite Forall_forall in Hall.
  assert (FE : filter (fun en => where_truth d (encenv d en) conds) table = filter (keeps filt) table).
  { apply filter_ext_in'. intros en Hin. destruct (Hall en Hin) as [Hf _]. destruct filt as [c|]; cbn [tr_where keeps filt_typed] in *.
    - destruct (ty_of c) as [t|] eqn:Tc; [|discriminate]. destruct Hf as [A1 [A2 A3]].
      destruct (filter_ref d Hd en c t Tc Tf A1 A2 A3) as [c' [E' W]]. rewrite EC in E'. inversion E'; subst. exact W.
    - inversion EC; subst. unfold where_truth, qand_list. cbn [map all_some fold_right keeps]. apply (sql_truth_of_tv d T). }
  unfold sql_group_rows, py_group_rows. rewrite FE. set (kept := filter (keeps filt) table).
  assert (KIn : forall en, In en kept -> In en table) by (intros en H; apply filter_In in H; tauto).
  assert (NE : nonempty (qkeys qitems) = nonempty (skeys items)).
  {
    clear -EI. revert qitems EI. induction items as [|it r IH]; intros qitems EI; [inversion EI; reflexivity|].
    cbn [tr_items] in EI. destruct (tr_item d it) as [q|] eqn:Ei; [|discriminate]. destruct (tr_items d r) as [qs|]; [|discriminate]. inversion EI; subst.
    destruct it as [e|g]; cbn [tr_item] in Ei.
    - destruct (ty_of e) as [[t| |]|]; try discriminate. destruct (tr_project d e); [|discriminate]. inversion Ei; subst. reflexivity.
    - destruct (tr_aggr d 0%nat g); [|discriminate]. inversion Ei; subst. cbn [qkeys skeys flat_map app]. apply IH. reflexivity. }
  assert (SS : forall x y, In x kept -> In y kept -> sql_same d (qkeys qitems) x y = py_same (skeys items) x y).
  { intros x y Hx Hy. unfold sql_same, py_same.
    destruct (keys_sound items qitems x EI (proj2 (Hall x (KIn x Hx)))) as [X1 [X2 _]].
    destruct (keys_sound items qitems y EI (proj2 (Hall y (KIn y Hy)))) as [Y1 [Y2 _]].
    rewrite X1, Y1. apply (qvs_enc d (key_types items)); assumption. }
  rewrite NE, (groups_ext env (nonempty (skeys items)) _ _ kept SS), map_map.
  apply map_ext_in. intros grp Hg.
  destruct (groups_are_filters _ _ _ _ _ Hg) as [f Ef].
  assert (GIn : forall en, In en grp -> In en table) by (intros en H; rewrite Ef in H; apply filter_In in H; apply KIn; tauto).
  assert (GK : keys_ok (map (fun en => attr_val en 0%nat) grp) = true).
  { rewrite Ef. apply keys_ok_filter. unfold kept. apply keys_ok_filter. exact Keys. }
  clear Hg Ef.
  (* item by item *)
  assert (Items : forall its qits, tr_items d its = Some qits -> forallb item_safe its = true ->
                  (forall en, In en grp -> Forall (item_dom en) its) ->
                  map (sql_item d grp) qits = map (enca d) (map (py_item grp) its)).
  { induction its as [|it r IH]; intros qits E S D.
    - inversion E; subst. reflexivity.
    - cbn [tr_items] in E. destruct (tr_item d it) as [q|] eqn:Ei; [|discriminate]. destruct (tr_items d r) as [qs|] eqn:Er; [|discriminate].
      inversion E; subst qits. cbn [forallb] in S. apply andb_prop in S. destruct S as [S1 S2].
      cbn [map]. rewrite (IH qs eq_refl S2) by (intros en He; specialize (D en He); inversion D; assumption). f_equal.
      destruct it as [e|g]; cbn [tr_item] in Ei.
      + destruct (ty_of e) as [[t| |]|] eqn:Te; try discriminate. destruct (tr_project d e) as [q0|] eqn:Q; [|discriminate]. inversion Ei; subst q.
        cbn [sql_item py_item]. destruct grp as [|r0 g0]; [reflexivity|]. cbn [enca].
        specialize (D r0 (or_introl eq_refl)). inversion D as [|? ? D1 _]; subst. cbn [item_dom] in D1. destruct D1 as [A4 [A5 A6]].
        destruct (project_ref d Hd r0 e t Te A4 A5 A6) as [q' [E' [Qv _]]]. rewrite Q in E'. inversion E'; subst. exact Qv.
      + destruct (tr_aggr d 0%nat g) as [qa|] eqn:Ea; [|discriminate]. inversion Ei; subst q. cbn [sql_item py_item].
        apply (aggr_sound d Hd grp None g [] qa eq_refl eq_refl Ea S1 GK).
        apply Forall_forall. intros en He. split; [exact I|]. specialize (D en He). inversion D as [|? ? D1 _]; subst.
        destruct g; exact D1 || exact I. }
  cbv beta. apply (Items items qitems EI Safe). intros en He. exact (proj2 (Hall en (GIn en He))).
Qed.
End Group.
