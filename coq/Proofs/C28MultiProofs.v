(* C28 - several owners (Model/C28Multi.v): every container reachable from slot i's root is bound to exactly the owner of slot i,
   also after values were read from one slot and stored into another; each slot's row follows its own value. *)
From Coq Require Import ZArith List Bool Lia.
Require Import PonyV.Base.PyBase PonyV.Model.C28Tracked PonyV.Gen.Mutators PonyV.Model.C28Wrapped PonyV.Model.C28Multi PonyV.Proofs.C28Proofs.
#[local] Open Scope Z_scope.

(* in session k slot number base+j is bound to owner (k, base+j) and its row is in step with its value or queued for UPDATE *)
Fixpoint winv (k base : nat) (w : world) : Prop :=
  match w with
  | [] => True
  | st :: w' => tagged (k, base) (root st) = true /\ synced st /\ winv k (S base) w'
  end.

Section WithWr.
Variable wr : mname -> bool.
Hypothesis all_ok : forall a, act_ok wr a = true.

Lemma step_act_owner o st p a : tagged o (root st) = true -> synced st ->
  tagged o (root (step wr st (OAct p a))) = true /\ synced (step wr st (OAct p a)).
Proof.
  intros Ht Hs. split.
  - cbn [step]. destruct (update_at wr p a (root st)) as [[t' ch]|] eqn:E; [|assumption].
    cbn [root]. now destruct (update_at_inv wr o a (all_ok a) p _ _ _ Ht E).
  - assert (Hok : op_ok wr (OAct p a) = true) by (cbn; apply all_ok).
    destruct (step_inv wr st (OAct p a) Hok (ex_intro _ o Ht) Hs) as [_ H]. exact H.
Qed.

Lemma upd_inv k (f : state -> state) :
  (forall o st, tagged o (root st) = true -> synced st -> tagged o (root (f st)) = true /\ synced (f st)) ->
  forall w i base, winv k base w -> winv k base (upd i f w).
Proof.
  intros Hf. induction w as [|st w IH]; intros i base H; [destruct i; exact I|].
  destruct H as [Ht [Hs Hw]]. destruct i as [|i]; cbn [upd winv].
  - destruct (Hf _ _ Ht Hs) as [Ht' Hs']. repeat split; assumption.
  - repeat split; try assumption. now apply IH.
Qed.

Lemma commit_inv k : forall w base, winv k base w -> winv k base (map commit w).
Proof.
  induction w as [|st w IH]; intros base H; [exact I|]. destruct H as [Ht [Hs Hw]]. cbn [map winv]. repeat split.
  - now rewrite commit_root.
  - right. now destruct (commit_synced st Hs).
  - now apply IH.
Qed.

Lemma reload_inv k k' : forall w base, winv k base w -> winv k' base (reload_from k' base wr w).
Proof.
  induction w as [|st w IH]; intros base H; [exact I|]. destruct H as [Ht [Hs Hw]]. cbn [reload_from winv]. repeat split.
  - cbn [step root]. apply tagged_wrap.
  - assert (Hok : op_ok wr (ONewSession (k', base)) = true) by reflexivity.
    now destruct (step_inv wr st _ Hok (ex_intro _ _ Ht) Hs).
  - now apply IH.
Qed.

Lemma wstep_inv k w x : winv k 0 w -> exists k', winv k' 0 (wstep wr w x).
Proof.
  intros H. destruct x as [i p a|src sp dst dp s| |k']; cbn [wstep].
  - exists k. apply upd_inv; [|assumption]. intros o st Ht Hs. now apply step_act_owner.
  - exists k. destruct (nth_error w src) as [ssrc|]; [|assumption]. destruct (subtree sp (root ssrc)) as [t|]; [|assumption].
    apply upd_inv; [|assumption]. intros o st Ht Hs. now apply step_act_owner.
  - exists k. now apply commit_inv.
  - exists k'. now apply (reload_inv k k').
Qed.

Lemma wrun_inv ops : forall k w, winv k 0 w -> exists k', winv k' 0 (wrun wr ops w).
Proof.
  unfold wrun. induction ops as [|x ops IH]; intros k w H; cbn [fold_left]; [now exists k|].
  destruct (wstep_inv k w x H) as [k' H']. now apply (IH k').
Qed.

Lemma winv_persisted k : forall w base, winv k base w ->
  Forall (fun st => dbval (commit st) = canon (untrack (root (commit st)))) w.
Proof.
  induction w as [|st w IH]; intros base H; [constructor|]. destruct H as [_ [Hs Hw]]. constructor.
  - now destruct (commit_synced st Hs).
  - now apply (IH (S base)).
Qed.

Lemma nth_upd_other (f : state -> state) : forall w i j, i <> j -> nth_error (upd i f w) j = nth_error w j.
Proof.
  induction w as [|st w IH]; intros i j Hne; [destruct i; reflexivity|].
  destruct i as [|i], j as [|j]; cbn [upd nth_error]; try reflexivity; [congruence | apply IH; congruence].
Qed.

(* the slot a value is only READ from is left exactly as it was: neither its value nor its write bit nor its tags change *)
Lemma copy_source_untouched w src sp dst dp s : src <> dst ->
  nth_error (wstep wr w (WCopy src sp dst dp s)) src = nth_error w src.
Proof.
  intros Hne. cbn [wstep]. destruct (nth_error w src) as [ssrc|] eqn:E; [|now rewrite E].
  destruct (subtree sp (root ssrc)); [|exact E]. rewrite nth_upd_other by congruence. exact E.
Qed.

(* and every other slot as well *)
Lemma copy_others_untouched w src sp dst dp s j : j <> dst ->
  nth_error (wstep wr w (WCopy src sp dst dp s)) j = nth_error w j.
Proof.
  intros Hne. cbn [wstep]. destruct (nth_error w src) as [ssrc|]; [|reflexivity].
  destruct (subtree sp (root ssrc)); [|reflexivity]. now rewrite nth_upd_other by congruence.
Qed.
End WithWr.

Lemma wload_inv k : forall docs base, winv k base (wload_from k base docs).
Proof.
  induction docs as [|v docs IH]; intros base; [exact I|]. cbn [wload_from winv].
  destruct (load_inv (k, base) v) as [_ Hs]. repeat split; [apply tagged_wrap | exact Hs | apply IH].
Qed.

(* instances for the tables generated from /repo *)
Lemma multi_wrap_inv ops k docs : exists k', winv k' 0 (wrun wr_gen ops (wload_from k 0 docs)).
Proof. apply (wrun_inv wr_gen act_ok_gen ops k). apply wload_inv. Qed.

Lemma multi_persisted ops k docs :
  Forall (fun st => dbval (commit st) = canon (untrack (root (commit st)))) (wrun wr_gen ops (wload_from k 0 docs)).
Proof. destruct (multi_wrap_inv ops k docs) as [k' H]. now apply (winv_persisted k' _ 0). Qed.

(* sample: a nested list is read from slot 0 and stored into slot 1, everything is flushed, then changed in place through slot 1 *)
Definition w_docs : list jv := [JDict [([116], JList [JNum 1; JNum 2])]; JDict [([116], JList [])]].
Definition w_ops : list wop :=
  [WCopy 0 [KKey [116]] 1 [] (SSetD [116]); WCommit; WAct 1 [KKey [116]] (AL (LAppend (JNum 3)))].
Lemma multi_sample :
  map (fun st => (dirty st, dbval (commit st))) (wrun wr_gen w_ops (wload_from 0 0 w_docs))
  = [(false, JDict [([116], JList [JNum 1; JNum 2])]); (true, JDict [([116], JList [JNum 1; JNum 2; JNum 3])])].
Proof. vm_compute. reflexivity. Qed.
