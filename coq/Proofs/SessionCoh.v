(* C09 / C10: cache / database coherence for scalar attributes, for ALL histories of Stage 1 schemas WITHOUT Required references
   (no ON DELETE CASCADE: a DELETE then changes no scalar column of another row).

   Cq s (for every cached object ob of s, d = the transaction's database):
     (L) one written-bit per value slot;  (S) an object whose status is loaded / inserted / updated has no written bit set;
     (C) a created object has no database values;
     (R) if the status is loaded / modified / inserted / updated, every row of the object's table with the object's primary key agrees
         with it: for a scalar attribute a,  dbvals[a] = v  ->  column a = v   ("dbvals mirror rows")   and
         a NOT written  ->  vals[a] = v  ->  column a = v                       ("unwritten values are the row's values");
     (E) such an object that is not a seed has a row;
   plus: both databases keep their key constraints and shape, and the primary-key index only names objects with that key.

   Cq holds unconditionally through every function that does not save; the saving functions (UPDATE / DELETE of one object must not
   change what another cached object mirrors) need the identity map (Inv_idx of Proofs/SessionIdx.v), i.e. a clean state.
   Technique as in SessionDbPd.v / SessionQueueInv.v: one lemma per function of Model/Session.v, hint-database tactic cqauto; the
   functions that touch vals / dbvals / wbits / status / the database are done by hand. *)
Require Import PonyV.Gen.SessionFlags PonyV.Model.SessionBase PonyV.Model.SessionDb PonyV.Model.Session.
Require Import PonyV.Proofs.SessionLemmas PonyV.Proofs.SessionState PonyV.Proofs.SessionDbInv PonyV.Proofs.SessionIdx PonyV.Proofs.SessionDbPd PonyV.Proofs.SessionQueue PonyV.Proofs.SessionQueueInv.
From Coq Require Import Arith Permutation.

Definition no_req_refs (sch : schema) : bool :=
  forallb (fun en => forallb (fun at_ => match a_kind at_ with KRef _ _ => negb (a_req at_) | _ => true end) (e_attrs en)) sch.

Definition scalar (sch : schema) (e a : nat) : bool :=
  match get_attr sch e a with Some at_ => is_scalar_kind (a_kind at_) | None => false end.
Definition notref (v : val) : bool := match v with VRef _ => false | _ => true end.
Definition synced (st : status) : bool := match st with SLoaded | SModified | SInserted | SUpdated => true | _ => false end.
Definition settled (st : status) : bool := match st with SLoaded | SInserted | SUpdated => true | _ => false end.

(* ---------------------------------------------------------------- the database statements, row by row *)

Lemma nodup_pk_eq : forall rows r1 r2, NoDup (map r_pk rows) -> In r1 rows -> In r2 rows -> r_pk r1 = r_pk r2 -> r1 = r2.
Proof.
  induction rows as [|x t IH]; intros r1 r2 N I1 I2 E. contradiction. simpl in N. inversion N; subst.
  destruct I1 as [->|I1], I2 as [->|I2]; auto.
  - exfalso. apply H1. rewrite E. apply in_map. exact I2.
  - exfalso. apply H1. rewrite <- E. apply in_map. exact I1.
Qed.

Lemma In_combine_seq : forall A (l : list A) k i x, In (i, x) (combine (seq k (length l)) l) -> (k <= i)%nat /\ nth_error l (i - k) = Some x.
Proof.
  induction l as [|y t IH]; intros k i x H; simpl in H. contradiction.
  destruct H as [H|H]. inversion H; subst. rewrite Nat.sub_diag. auto.
  destruct (IH (S k) i x H) as [L E]. split. lia. replace (i - k)%nat with (S (i - S k)) by lia. exact E.
Qed.

Section WithSchemaCq.
Variable sch : schema.

Definition dbwf0 (d : db) : Prop := length (d_tabs d) = length sch /\ db_ok sch d.

Lemma dbwf0_init : dbwf0 (db_init sch).
Proof. split. unfold db_init. cbn [d_tabs]. apply map_length. apply db_ok_init. Qed.

Lemma dbwf0_nodup : forall d e r1 r2, dbwf0 d -> In r1 (tab d e) -> In r2 (tab d e) -> r_pk r1 = r_pk r2 -> r1 = r2.
Proof.
  intros d e r1 r2 [L OK] I1 I2 E. destruct (nth_error sch e) as [en|] eqn:N.
  - destruct (OK e en N) as [ND _]. eapply nodup_pk_eq; eauto.
  - exfalso. apply nth_error_None in N. unfold tab in I1. rewrite nth_overflow in I1 by lia. contradiction.
Qed.

Lemma db_insert0_spec : forall d e pk cols d' pk', dbwf0 d -> db_insert sch d e pk cols = inr (d', pk') ->
  dbwf0 d' /\
  (forall r, In r (tab d e) -> r_pk r <> pk') /\
  (forall e' r, In r (tab d' e') <-> (In r (tab d e') \/ (e' = e /\ r = mkRow pk' cols))) /\
  (match pk with Some z => pk' = z | None => True end).
Proof.
  intros d e pk cols d' pk' W H. split. { destruct W as [L OK]. split. 2: eapply db_insert_ok; eauto.
    unfold db_insert in H. repeat match type of H with context [if ?c then _ else _] => destruct c end; try discriminate.
    all: inversion H; subst; unfold set_seq, set_tab; cbn [d_tabs]; rewrite upd_nth_length; exact L. }
  destruct W as [L OK]. unfold db_insert in H.
  set (p := match pk with Some z => z | None => Z.max (seq_of d e) (max_pk (tab d e)) + 1 end) in *.
  destruct (has_row d e p) eqn:HR; [discriminate|].
  destruct (negb (notnull_ok sch e cols)) eqn:NN; [discriminate|].
  destruct (negb (uniq_ok sch e cols (tab d e))); [discriminate|]. destruct (negb (fk_ok sch d e cols)); [discriminate|].
  assert (EL : (e < length (d_tabs d))%nat).
  { apply negb_false_iff in NN. unfold notnull_ok in NN. destruct (nth_error sch e) eqn:N; [|discriminate].
    rewrite L. apply nth_error_Some. congruence. }
  assert (T : forall e', tab d' e' = if Nat.eqb e e' then insert_by row_le (mkRow p cols) (tab d e) else tab d e').
  { intros e'. destruct (ent_auto sch e); inversion H; subst; rewrite ?tab_set_seq; rewrite tab_set_tab;
    apply Nat.ltb_lt in EL; rewrite EL, andb_true_r; reflexivity. }
  assert (P : pk' = p) by (destruct (ent_auto sch e); inversion H; reflexivity). subst pk'.
  split; [|split].
  - intros r I E. unfold has_row in HR. destruct (find_row (tab d e) p) eqn:F; [discriminate|].
    apply find_row_none_notin in F. apply F. rewrite <- E. apply in_map. exact I.
  - intros e' r. rewrite T. destruct (Nat.eqb e e') eqn:EE.
    + apply Nat.eqb_eq in EE. subst e'. split.
      * intros I. apply (Permutation_in _ (insert_by_perm _ row_le _ _)) in I. destruct I as [<-|I]; auto.
      * intros [I|[_ ->]]; apply (Permutation_in _ (Permutation_sym (insert_by_perm _ row_le _ _))); simpl; auto.
    + apply Nat.eqb_neq in EE. split; auto. intros [I|[E _]]; auto. congruence.
  - unfold p. destruct pk; auto.
Qed.

Lemma db_update0_spec : forall d e pk asg d', dbwf0 d -> db_update sch d e pk asg = inr d' ->
  dbwf0 d' /\
  exists r0, In r0 (tab d e) /\ r_pk r0 = pk /\
  (forall e' r, In r (tab d' e') -> (In r (tab d e') /\ (e' = e -> r_pk r <> pk)) \/ (e' = e /\ r = mkRow pk (apply_asg (r_cols r0) asg))) /\
  In (mkRow pk (apply_asg (r_cols r0) asg)) (tab d' e) /\
  (forall e' r, In r (tab d e') -> (e' <> e \/ r_pk r <> pk) -> In r (tab d' e')).
Proof.
  intros d e pk asg d' W H. split. { destruct W as [L OK]. split. 2: eapply db_update_ok; eauto.
    unfold db_update in H. destruct (find_row (tab d e) pk); [|discriminate].
    repeat match type of H with context [if ?c then _ else _] => destruct c end; try discriminate.
    inversion H; subst; unfold set_tab; cbn [d_tabs]; rewrite upd_nth_length; exact L. }
  destruct W as [L OK]. unfold db_update in H. destruct (find_row (tab d e) pk) as [r0|] eqn:F; [|discriminate].
  destruct (negb (notnull_ok sch e (apply_asg (r_cols r0) asg))) eqn:NN; [discriminate|].
  destruct (negb (uniq_ok sch e _ _)); [discriminate|]. destruct (negb (fk_ok sch d e _)); [discriminate|]. inversion H; subst d'; clear H.
  assert (EL : (e < length (d_tabs d))%nat).
  { apply negb_false_iff in NN. unfold notnull_ok in NN. destruct (nth_error sch e) eqn:N; [|discriminate].
    rewrite L. apply nth_error_Some. congruence. }
  apply Nat.ltb_lt in EL. destruct (find_row_some _ _ _ F) as [I0 P0]. exists r0. split; [exact I0|]. split; [exact P0|].
  set (r' := mkRow pk (apply_asg (r_cols r0) asg)).
  assert (T : forall e', tab (set_tab d e (replace_row (tab d e) r')) e' = if Nat.eqb e e' then replace_row (tab d e) r' else tab d e').
  { intros e'. rewrite tab_set_tab, EL, andb_true_r. reflexivity. }
  split; [|split].
  - intros e' r. rewrite T. destruct (Nat.eqb e e') eqn:EE.
    + apply Nat.eqb_eq in EE. subst e'. intros I. apply In_replace_row in I. destruct I as [[-> _]|[I N]]; auto.
    + apply Nat.eqb_neq in EE. intros I. left. split; auto; congruence.
  - rewrite T, Nat.eqb_refl. unfold replace_row. apply in_map_iff. exists r0. split; auto. cbn [r_pk r']. rewrite P0, Z.eqb_refl. reflexivity.
  - intros e' r I C. rewrite T. destruct (Nat.eqb e e') eqn:EE; auto. apply Nat.eqb_eq in EE. subst e'.
    unfold replace_row. apply in_map_iff. exists r. split; auto. cbn [r_pk r']. destruct (Z.eqb (r_pk r) pk) eqn:Z; auto.
    apply Z.eqb_eq in Z. destruct C; congruence.
Qed.

(* DELETE on a schema without Required references: the row goes, reference columns that pointed to it become NULL, nothing else changes *)
Definition drel (e0 : nat) (pk0 : Z) (d d' : db) : Prop :=
  length (d_tabs d') = length (d_tabs d) /\
  (forall e' r', In r' (tab d' e') -> exists r, In r (tab d e') /\ r_pk r = r_pk r' /\ length (r_cols r') = length (r_cols r) /\ forall a, scalar sch e' a = true -> col r' a = col r a) /\
  (forall e' r, In r (tab d e') -> (e' = e0 /\ r_pk r = pk0) \/ exists r', In r' (tab d' e') /\ r_pk r' = r_pk r).

Lemma drel_refl : forall e0 pk0 d, drel e0 pk0 d d.
Proof. intros. split; auto. split; intros e' r I; eauto 10. Qed.

Lemma drel_trans : forall e0 pk0 d1 d2 d3, drel e0 pk0 d1 d2 -> drel e0 pk0 d2 d3 -> drel e0 pk0 d1 d3.
Proof.
  intros e0 pk0 d1 d2 d3 (A1 & A2 & A3) (B1 & B2 & B3). split. congruence. split.
  - intros e' r3 I. destruct (B2 e' r3 I) as (r2 & I2 & P2 & L2 & C2). destruct (A2 e' r2 I2) as (r1 & I1 & P1 & L1 & C1).
    exists r1. split; auto. split. congruence. split. congruence. intros a S. rewrite C2, C1; auto.
  - intros e' r1 I. destruct (A3 e' r1 I) as [X|(r2 & I2 & P2)]; auto. destruct (B3 e' r2 I2) as [[X Y]|(r3 & I3 & P3)].
    left. split; congruence. right. exists r3. split; auto. congruence.
Qed.

Lemma drel_fold : forall A e0 pk0 (f : db -> A -> db) l d, (forall d0 x, In x l -> drel e0 pk0 d0 (f d0 x)) -> drel e0 pk0 d (fold_left f l d).
Proof.
  intros A e0 pk0 f l. induction l as [|x l IH]; intros d H; simpl. apply drel_refl.
  eapply drel_trans. apply H. left. reflexivity. apply IH. intros. apply H. right. assumption.
Qed.

Lemma drel_set_tab : forall e0 pk0 d e rows,
  (forall r', In r' rows -> exists r, In r (tab d e) /\ r_pk r = r_pk r' /\ length (r_cols r') = length (r_cols r) /\ forall a, scalar sch e a = true -> col r' a = col r a) ->
  (forall r, In r (tab d e) -> (e = e0 /\ r_pk r = pk0) \/ exists r', In r' rows /\ r_pk r' = r_pk r) ->
  drel e0 pk0 d (set_tab d e rows).
Proof.
  intros e0 pk0 d e rows B F. split. unfold set_tab. cbn [d_tabs]. apply upd_nth_length. split.
  - intros e' r'. rewrite tab_set_tab. destruct (Nat.eqb e e' && Nat.ltb e (length (d_tabs d))) eqn:C.
    + apply andb_true_iff in C. destruct C as [C _]. apply Nat.eqb_eq in C. subst e'. apply B.
    + intros I. exists r'. auto 10.
  - intros e' r I. destruct (Nat.eqb e e' && Nat.ltb e (length (d_tabs d))) eqn:C.
    + pose proof C as C'. apply andb_true_iff in C. destruct C as [C _]. apply Nat.eqb_eq in C. subst e'.
      destruct (F r I) as [X|(r' & I' & P')]; auto. right. exists r'. split; auto. rewrite tab_set_tab, C'. exact I'.
    + right. exists r. split; auto. rewrite tab_set_tab, C. exact I.
Qed.

Hypothesis NR : no_req_refs sch = true.

Lemma nr_not_req : forall e en a at_ t r, nth_error sch e = Some en -> nth_error (e_attrs en) a = Some at_ -> a_kind at_ = KRef t r -> a_req at_ = false.
Proof.
  intros e en a at_ t r N1 N2 K. unfold no_req_refs in NR. rewrite forallb_forall in NR. specialize (NR en (nth_error_In _ _ N1)).
  rewrite forallb_forall in NR. specialize (NR at_ (nth_error_In _ _ N2)). rewrite K in NR. apply negb_true_iff in NR. exact NR.
Qed.

Lemma db_delete_rec_drel : forall fuel d e pk, drel e pk d (db_delete_rec fuel sch d e pk).
Proof.
  intros [|f] d e pk; cbn [db_delete_rec]. apply drel_refl.
  eapply drel_trans.
  - apply (drel_set_tab e pk d e (filter (fun r => negb (Z.eqb (r_pk r) pk)) (tab d e))).
    + intros r' I. apply filter_In in I. exists r'. repeat split; tauto.
    + intros r I. destruct (Z.eqb (r_pk r) pk) eqn:Z. left. apply Z.eqb_eq in Z. auto.
      right. exists r. split; auto. apply filter_In. rewrite Z. auto.
  - apply drel_fold. intros d0 [e2 en] I2. apply In_combine_seq in I2. destruct I2 as [_ N2]. rewrite Nat.sub_0_r in N2.
    apply drel_fold. intros d1 [a at_] I1. apply In_combine_seq in I1. destruct I1 as [_ N1]. rewrite Nat.sub_0_r in N1.
    destruct (a_kind at_) eqn:K; try apply drel_refl. destruct (Nat.eqb tgt e); [|apply drel_refl].
    rewrite (nr_not_req e2 en a at_ tgt rev N2 N1 K).
    assert (NS : scalar sch e2 a = false). { unfold scalar, get_attr. rewrite N2, N1, K. reflexivity. }
    apply drel_set_tab.
    + intros r' I. apply in_map_iff in I. destruct I as (r & E & I). exists r. split; auto. subst r'.
      destruct (val_eqb (col r a) (VInt pk)); auto. split. reflexivity. split. unfold set_col. cbn [r_cols]. apply upd_nth_length. intros a' S. unfold col, set_col. cbn [r_cols].
      apply nth_upd_nth_other. intro X. subst a'. congruence.
    + intros r I. right. exists (if val_eqb (col r a) (VInt pk) then set_col r a VNone else r). split.
      apply in_map_iff. exists r. auto. destruct (val_eqb (col r a) (VInt pk)); reflexivity.
Qed.

Lemma db_delete0_spec : forall d e pk d', dbwf0 d -> db_delete sch d e pk = inr d' -> dbwf0 d' /\ drel e pk d d'.
Proof.
  intros d e pk d' [L OK] H. pose proof (db_delete_ok _ _ _ _ _ OK H) as OK'. unfold db_delete in H. inversion H; subst d'.
  pose proof (db_delete_rec_drel (S (db_rows_total d)) d e pk) as R. split; auto. split; auto. destruct R as [R _]. congruence.
Qed.


(* every row has one column per attribute *)
Definition rshape (d : db) : Prop := forall e r, In r (tab d e) -> length (r_cols r) = nattrs sch e.
Definition dbwf (d : db) : Prop := dbwf0 d /\ rshape d.

Lemma dbwf_init : dbwf (db_init sch).
Proof.
  split. apply dbwf0_init. intros e r I. exfalso. unfold tab, db_init in I. cbn [d_tabs] in I.
  destruct (nth_in_or_default e (map (fun _ : ent => @nil row) sch) []) as [X|X].
  - apply in_map_iff in X. destruct X as (x & X & _). rewrite <- X in I. contradiction.
  - rewrite X in I. contradiction.
Qed.

Lemma dbwf_nodup : forall d e r1 r2, dbwf d -> In r1 (tab d e) -> In r2 (tab d e) -> r_pk r1 = r_pk r2 -> r1 = r2.
Proof. intros d e r1 r2 [W _]. apply dbwf0_nodup. exact W. Qed.

Lemma apply_asg_length : forall asg cols, length (apply_asg cols asg) = length cols.
Proof. induction asg as [|[a v] t IH]; intros cols; simpl. reflexivity. rewrite IH. apply upd_nth_length. Qed.

Lemma db_insert_spec : forall d e pk cols d' pk', dbwf d -> length cols = nattrs sch e -> db_insert sch d e pk cols = inr (d', pk') ->
  dbwf d' /\
  (forall r, In r (tab d e) -> r_pk r <> pk') /\
  (forall e' r, In r (tab d' e') <-> (In r (tab d e') \/ (e' = e /\ r = mkRow pk' cols))) /\
  (match pk with Some z => pk' = z | None => True end).
Proof.
  intros d e pk cols d' pk' [W SH] LC H. destruct (db_insert0_spec d e pk cols d' pk' W H) as (W' & A & B & C).
  split; [|auto]. split. exact W'. intros e' r I. apply B in I. destruct I as [I|[-> ->]]. apply SH. exact I. exact LC.
Qed.

Lemma db_update_spec : forall d e pk asg d', dbwf d -> db_update sch d e pk asg = inr d' ->
  dbwf d' /\
  exists r0, In r0 (tab d e) /\ r_pk r0 = pk /\
  (forall e' r, In r (tab d' e') -> (In r (tab d e') /\ (e' = e -> r_pk r <> pk)) \/ (e' = e /\ r = mkRow pk (apply_asg (r_cols r0) asg))) /\
  In (mkRow pk (apply_asg (r_cols r0) asg)) (tab d' e) /\
  (forall e' r, In r (tab d e') -> (e' <> e \/ r_pk r <> pk) -> In r (tab d' e')).
Proof.
  intros d e pk asg d' [W SH] H. destruct (db_update0_spec d e pk asg d' W H) as (W' & r0 & I0 & P0 & A & B & C).
  split. 2:{ exists r0. auto. } split. exact W'. intros e' r I. apply A in I. destruct I as [[I _]|[-> ->]]. apply SH. exact I.
  cbn [r_cols]. rewrite apply_asg_length. apply SH. exact I0.
Qed.

Lemma db_delete_spec : forall d e pk d', dbwf d -> db_delete sch d e pk = inr d' -> dbwf d' /\ drel e pk d d'.
Proof.
  intros d e pk d' [W SH] H. destruct (db_delete0_spec d e pk d' W H) as [W' R]. split; [|exact R]. split. exact W'.
  intros e' r' I. destruct R as (_ & R & _). destruct (R e' r' I) as (r & I0 & _ & L & _). rewrite L. apply SH. exact I0.
Qed.

(* ---------------------------------------------------------------- the invariant *)

Definition row_agrees (ob : obj) (r : row) : Prop :=
  forall a v, scalar sch (o_ent ob) a = true -> notref v = true ->
    (odbval ob a = Some v -> col r a = v) /\ (owbit ob a = false -> oval ob a = Some v -> col r a = v).

(* the clauses that need no database *)
Definition obj_shape (ob : obj) : Prop :=
  (length (o_wbits ob) = length (o_vals ob) /\ length (o_dbvals ob) = length (o_vals ob)) /\
  (settled (o_st ob) = true -> forall a, owbit ob a = false) /\
  (o_st ob = SCreated -> forall a, odbval ob a = None).

(* the clauses about the object's row; claimed for the object that the primary-key index names, unless it is still to be inserted *)
Definition obj_rows (d : db) (ob : obj) : Prop :=
  status_eqb (o_st ob) SCreated = false ->
  (forall z r, o_pk ob = Some z -> In r (tab d (o_ent ob)) -> r_pk r = z -> row_agrees ob r) /\
  (o_seed ob = false -> forall z, o_pk ob = Some z -> exists r, In r (tab d (o_ent ob)) /\ r_pk r = z).

Definition indexed_ok (s : sess) (e : nat) (z : Z) (o : oid) : Prop :=
  exists ob, get_obj s o = Some ob /\ o_ent ob = e /\ o_pk ob = Some z /\ is_gone (o_st ob) = false /\ obj_rows (s_db s) ob.

Definition Cq (s : sess) : Prop :=
  dbwf (s_db s) /\ dbwf (s_committed s) /\
  (forall o ob, get_obj s o = Some ob -> obj_shape ob) /\
  (forall e z o, idx_get s e O (VInt z) = Some o -> indexed_ok s e z o).

Definition Cqo {A} (r : out A) : Prop := Cq (out_state r).
Definition Cqp {A} (r : sess * A) : Prop := Cq (fst r).
Definition Cqp3 {A B} (r : sess * A * B) : Prop := Cq (fst (fst r)).

Lemma Cqo_Ok_i : forall A s (y : A), Cq s -> Cqo (Ok s y). Proof. auto. Qed.
Lemma Cqo_Err_i : forall A s e, Cq s -> Cqo (@Err A s e). Proof. auto. Qed.
Lemma Cqp_i : forall A s (y : A), Cq s -> Cqp (s, y). Proof. auto. Qed.
Lemma Cqp3_i : forall A B s (y : A) (z : B), Cq s -> Cqp3 (s, y, z). Proof. auto. Qed.
Lemma Cqo_ok : forall A (r : out A) s y, Cqo r -> r = Ok s y -> Cq s. Proof. intros; subst; auto. Qed.
Lemma Cqo_err : forall A (r : out A) s e, Cqo r -> r = Err s e -> Cq s. Proof. intros; subst; auto. Qed.
Lemma Cqp_ok : forall A (r : sess * A) s y, Cqp r -> r = (s, y) -> Cq s. Proof. intros; subst; auto. Qed.
Lemma Cqp3_ok : forall A B (r : sess * A * B) s y z, Cqp3 r -> r = (s, y, z) -> Cq s. Proof. intros; subst; auto. Qed.

Lemma Cq_fields : forall s s', s_objs s' = s_objs s -> s_idx s' = s_idx s -> s_db s' = s_db s -> s_committed s' = s_committed s -> Cq s -> Cq s'.
Proof.
  intros s s' E1 E2 E3 E4 (A & B & C & D). unfold Cq, indexed_ok, get_obj, idx_get in *. rewrite E1, E2, E3, E4. auto.
Qed.

Lemma Cq_set_tosave : forall s y, Cq s -> Cq (set_tosave s y). Proof. intros s y H; eapply Cq_fields; eauto. Qed.
Lemma Cq_set_modcoll : forall s y, Cq s -> Cq (set_modcoll s y). Proof. intros s y H; eapply Cq_fields; eauto. Qed.
Lemma Cq_set_modified : forall s y, Cq s -> Cq (set_modified s y). Proof. intros s y H; eapply Cq_fields; eauto. Qed.
Lemma Cq_set_savedpend : forall s y, Cq s -> Cq (set_savedpend s y). Proof. intros s y H; eapply Cq_fields; eauto. Qed.
Lemma Cq_set_handles : forall s y, Cq s -> Cq (set_handles s y). Proof. intros s y H; eapply Cq_fields; eauto. Qed.
Lemma Cq_set_collstat : forall s y, Cq s -> Cq (set_collstat s y). Proof. intros s y H; eapply Cq_fields; eauto. Qed.
Lemma Cq_set_ordsens : forall s y, Cq s -> Cq (set_ordsens s y). Proof. intros s y H; eapply Cq_fields; eauto. Qed.
Lemma Cq_mark_declined : forall s, Cq s -> Cq (mark_declined s). Proof. intros s H; eapply Cq_fields; eauto. Qed.
Lemma Cq_mark_dirty : forall s n, Cq s -> Cq (mark_dirty s n). Proof. intros s n H; eapply Cq_fields; eauto. Qed.
Lemma Cq_unqueue_slot : forall s p, Cq s -> Cq (unqueue_slot s p). Proof. intros s [p|] H; [eapply Cq_fields; eauto|exact H]. Qed.

(* one object changes, keeping entity and primary key *)
Lemma Cq_upd_obj_gen : forall s o f,
  (forall ob, get_obj s o = Some ob -> o_ent (f ob) = o_ent ob /\ o_pk (f ob) = o_pk ob /\ (is_gone (o_st ob) = false -> is_gone (o_st (f ob)) = false) /\
     (obj_shape ob -> obj_shape (f ob)) /\ (is_gone (o_st ob) = false -> obj_shape ob -> obj_rows (s_db s) ob -> obj_rows (s_db s) (f ob))) ->
  Cq s -> Cq (upd_obj s o f).
Proof.
  intros s o f F (A & B & C & D). unfold Cq. rewrite upd_obj_db.
  assert (EC : s_committed (upd_obj s o f) = s_committed s) by (unfold upd_obj; destruct (get_obj s o); reflexivity).
  rewrite EC. split; [exact A|]. split; [exact B|]. split.
  - intros o' ob' G. rewrite get_upd_obj in G. destruct (Nat.eqb o o') eqn:E.
    + apply Nat.eqb_eq in E. subst o'. destruct (get_obj s o) as [ob|] eqn:G0; [|discriminate]. inversion G; subst ob'.
      destruct (F ob eq_refl) as (_ & _ & _ & F4 & _). apply F4. apply (C o ob G0).
    + apply (C o' ob' G).
  - intros e z o' I. unfold idx_get in I. rewrite upd_obj_idx in I. destruct (D e z o' I) as (ob & G & E1 & E2 & E3 & E4).
    unfold indexed_ok. rewrite get_upd_obj, upd_obj_db. destruct (Nat.eqb o o') eqn:E.
    + apply Nat.eqb_eq in E. subst o'. rewrite G. cbn [option_map]. destruct (F ob G) as (F1 & F2 & F3 & F4 & F5).
      exists (f ob). split; auto. split. congruence. split. congruence. split; auto. apply F5; auto. apply (C o ob G).
    + exists ob. auto.
Qed.

Definition cohsame (ob ob' : obj) : Prop :=
  o_ent ob' = o_ent ob /\ o_pk ob' = o_pk ob /\ o_st ob' = o_st ob /\ o_vals ob' = o_vals ob /\ o_dbvals ob' = o_dbvals ob /\
  o_wbits ob' = o_wbits ob /\ o_seed ob' = o_seed ob.

Lemma cohsame_shape : forall ob ob', cohsame ob ob' -> obj_shape ob -> obj_shape ob'.
Proof. intros ob ob' (E1 & E2 & E3 & E4 & E5 & E6 & E7). unfold obj_shape, owbit, odbval. rewrite E3, E4, E5, E6. auto. Qed.
Lemma cohsame_rows : forall d ob ob', cohsame ob ob' -> obj_rows d ob -> obj_rows d ob'.
Proof. intros d ob ob' (E1 & E2 & E3 & E4 & E5 & E6 & E7). unfold obj_rows, row_agrees, owbit, odbval, oval. rewrite E1, E2, E3, E4, E5, E6, E7. auto. Qed.

Lemma Cq_upd_obj : forall s o f, (forall ob, cohsame ob (f ob)) -> Cq s -> Cq (upd_obj s o f).
Proof.
  intros s o f F H. apply Cq_upd_obj_gen; auto. intros ob G. pose proof (F ob) as S. pose proof S as (E1 & E2 & E3 & _).
  split; auto. split; auto. split. rewrite E3. auto. split. apply cohsame_shape; auto. intros _ _. apply cohsame_rows; auto.
Qed.

Lemma put_obj_upd : forall s o ob ob', get_obj s o = Some ob -> put_obj s o ob' = upd_obj s o (fun _ => ob').
Proof. intros s o ob ob' G. unfold upd_obj. rewrite G. reflexivity. Qed.

Lemma Cq_put_obj : forall s o ob ob', get_obj s o = Some ob -> cohsame ob ob' -> Cq s -> Cq (put_obj s o ob').
Proof.
  intros s o ob ob' G S H. rewrite (put_obj_upd s o ob ob' G). apply Cq_upd_obj_gen; auto. intros ob0 G0. rewrite G in G0. inversion G0; subst ob0.
  pose proof S as (E1 & E2 & E3 & _). split; auto. split; auto. split. rewrite E3. auto. split. apply cohsame_shape; auto. intros _ _. apply cohsame_rows; auto.
Qed.

(* a new object, not yet in any index *)
Lemma Cq_push_obj : forall s ob, obj_shape ob -> Cq s -> Cqp (push_obj s ob).
Proof.
  intros s ob S (A & B & C & D). unfold Cqp, push_obj. cbn [fst]. unfold Cq. cbn [set_objs s_db s_committed].
  split; [exact A|]. split; [exact B|]. split.
  - intros o' ob' G. change (get_obj (fst (push_obj s ob)) o' = Some ob') in G. rewrite get_push_obj in G.
    destruct (Nat.eqb o' (length (s_objs s))). inversion G; subst; exact S. apply (C o' ob' G).
  - intros e z o' I. change (idx_get s e 0 (VInt z) = Some o') in I. destruct (D e z o' I) as (ob1 & G & R). exists ob1. split; auto.
    change (get_obj (fst (push_obj s ob)) o' = Some ob1). rewrite get_push_obj_old; auto. eapply get_obj_lt; eauto.
Qed.

Lemma Cq_idx_put_S : forall s e a v o, Cq s -> Cq (idx_put s e (S a) v o).
Proof.
  intros s e a v o (A & B & C & D). split; [exact A|]. split; [exact B|]. split; [exact C|].
  intros e' z o' I. rewrite idx_get_put_other in I by congruence. apply (D e' z o' I).
Qed.

Lemma Cq_idx_put_O : forall s e z o, Cq s -> indexed_ok s e z o -> Cq (idx_put s e O (VInt z) o).
Proof.
  intros s e z o (A & B & C & D) K. split; [exact A|]. split; [exact B|]. split; [exact C|].
  intros e' z' o' I. destruct (ikey_dec (e, O, VInt z) (e', O, VInt z')) as [X|X].
  - inversion X; subst. rewrite idx_get_put_same in I. inversion I; subst. exact K.
  - rewrite idx_get_put_other in I by exact X. apply (D e' z' o' I).
Qed.

Lemma Cq_idx_del : forall s e k v, Cq s -> Cq (idx_del s e k v).
Proof.
  intros s e k v (A & B & C & D). split; [exact A|]. split; [exact B|]. split; [exact C|].
  intros e' z o' I. destruct (ikey_dec (e, k, v) (e', O, VInt z)) as [X|X].
  - inversion X; subst. rewrite idx_get_del_same in I. discriminate.
  - rewrite idx_get_del_other in I by exact X. apply (D e' z o' I).
Qed.

Lemma get_obj_fields : forall s s' o, s_objs s' = s_objs s -> get_obj s' o = get_obj s o.
Proof. intros s s' o E. unfold get_obj. rewrite E. reflexivity. Qed.

(* object by object *)
Lemma Cq_pointwise : forall s s', s_idx s' = s_idx s -> s_db s' = s_db s -> s_committed s' = s_committed s ->
  (forall o, match get_obj s o with
             | Some ob => exists ob', get_obj s' o = Some ob' /\ o_ent ob' = o_ent ob /\ o_pk ob' = o_pk ob /\
                          (is_gone (o_st ob) = false -> is_gone (o_st ob') = false) /\ (obj_shape ob -> obj_shape ob') /\
                          (is_gone (o_st ob) = false -> obj_shape ob -> obj_rows (s_db s) ob -> obj_rows (s_db s) ob')
             | None => get_obj s' o = None end) -> Cq s -> Cq s'.
Proof.
  intros s s' E2 E3 E4 F (A & B & C & D). unfold Cq. rewrite E3, E4. split; [exact A|]. split; [exact B|]. split.
  - intros o ob' G. specialize (F o). destruct (get_obj s o) as [ob|] eqn:G0; [|congruence].
    destruct F as (ob2 & G2 & _ & _ & _ & F4 & _). rewrite G in G2. inversion G2; subst ob2. apply F4. apply (C o ob G0).
  - intros e z o I. unfold idx_get in I. rewrite E2 in I. destruct (D e z o I) as (ob & G & E1 & P & L & R).
    specialize (F o). rewrite G in F. destruct F as (ob' & G' & F1 & F2 & F3 & F4 & F5). exists ob'. rewrite E3.
    split; auto. split. congruence. split. congruence. split; auto. apply F5; auto. apply (C o ob G).
Qed.

Lemma owbit_put_true : forall ob a a', owbit (ob_put_wbit ob a true) a' = false -> owbit ob a' = false.
Proof.
  intros ob a a'. unfold owbit, ob_put_wbit. cbn [ob_set_wbits o_wbits]. destruct (Nat.eq_dec a a') as [->|N].
  - destruct (lt_dec a' (length (o_wbits ob))). rewrite nth_upd_nth_same by assumption. discriminate. rewrite upd_nth_overflow by lia. auto.
  - rewrite nth_upd_nth_other by assumption. auto.
Qed.

Lemma owbit_put_same : forall ob a, (a < length (o_wbits ob))%nat -> owbit (ob_put_wbit ob a true) a = true.
Proof. intros ob a L. unfold owbit, ob_put_wbit. cbn [ob_set_wbits o_wbits]. apply nth_upd_nth_same. exact L. Qed.

Lemma shape_put_wbit : forall ob a, settled (o_st ob) = false -> obj_shape ob -> obj_shape (ob_put_wbit ob a true).
Proof.
  intros ob a NS (L & S & C). unfold obj_shape. cbn [ob_put_wbit ob_set_wbits o_wbits o_vals o_st]. rewrite upd_nth_length.
  split; auto. split. congruence. exact C.
Qed.

Lemma rows_put_wbit : forall d ob a, obj_rows d ob -> obj_rows d (ob_put_wbit ob a true).
Proof.
  intros d ob a R NC. destruct (R NC) as [R1 R2]. split; [|exact R2]. intros z r P I E a' v S NV. destruct (R1 z r P I E a' v S NV) as [X Y].
  split. exact X. intros W. apply Y. eapply owbit_put_true; eauto.
Qed.

(* the status part of Attribute.__set__: loaded / inserted / updated / (marked) -> modified, the bit is set *)
Definition mw_obj (ob : obj) (a : nat) (p : option nat) : obj :=
  if status_eqb (o_st ob) SCreated then ob
  else if status_eqb (o_st ob) SModified then ob_put_wbit ob a true
  else ob_set_pos (ob_set_st (ob_put_wbit ob a true) SModified) p.

Lemma mark_written_get : forall s o a o', get_obj (mark_written s o a) o' =
  if Nat.eqb o o' then option_map (fun ob => mw_obj ob a (Some (length (s_tosave s)))) (get_obj s o') else get_obj s o'.
Proof.
  intros s o a o'. unfold mark_written. destruct (get_obj s o) as [ob|] eqn:G.
  2:{ destruct (Nat.eqb o o') eqn:E; auto. apply Nat.eqb_eq in E. subst. rewrite G. reflexivity. }
  unfold mw_obj. destruct (status_eqb (o_st ob) SCreated) eqn:SC.
  { destruct (Nat.eqb o o') eqn:E; auto. apply Nat.eqb_eq in E. subst. rewrite G. cbn [option_map]. rewrite SC. reflexivity. }
  destruct (status_eqb (o_st ob) SModified) eqn:SM.
  { rewrite get_put_obj. destruct (Nat.eqb o o') eqn:E; auto. apply Nat.eqb_eq in E. subst. rewrite G. cbn [option_map]. rewrite SC, SM. reflexivity. }
  unfold queue. set (s2 := upd_obj (put_obj s o (ob_put_wbit ob a true)) o (fun ob1 => ob_set_st ob1 SModified)).
  erewrite (get_obj_fields (upd_obj s2 o (fun ob0 => ob_set_pos ob0 (Some (length (s_tosave s2)))))) by reflexivity. unfold s2.
  rewrite !get_upd_obj, get_put_obj. rewrite upd_obj_tosave. change (s_tosave (put_obj s o (ob_put_wbit ob a true))) with (s_tosave s).
  destruct (Nat.eqb o o') eqn:E; auto. apply Nat.eqb_eq in E. subst. rewrite G. cbn [option_map]. rewrite SC, SM. reflexivity.
Qed.

Lemma mark_written_fields : forall s o a, s_idx (mark_written s o a) = s_idx s /\ s_db (mark_written s o a) = s_db s /\ s_committed (mark_written s o a) = s_committed s.
Proof.
  intros s o a. unfold mark_written. destruct (get_obj s o) as [ob|]; auto. destruct (status_eqb (o_st ob) SCreated); auto.
  destruct (status_eqb (o_st ob) SModified); auto. unfold queue. cbn [set_modified set_tosave s_idx s_db s_committed].
  rewrite !upd_obj_idx, !upd_obj_db. split; auto. split; auto. unfold upd_obj. repeat match goal with |- context [match ?x with _ => _ end] => destruct x end; reflexivity.
Qed.

Lemma Cq_mark_written : forall s o a, Cq s -> Cq (mark_written s o a).
Proof.
  intros s o a H. destruct (mark_written_fields s o a) as (F1 & F2 & F3). apply (Cq_pointwise s); auto.
  intros o'. rewrite mark_written_get. destruct (get_obj s o') as [ob|] eqn:G; [|destruct (Nat.eqb o o'); reflexivity].
  destruct (Nat.eqb o o'); [|exists ob; auto 10]. cbn [option_map]. eexists. split. reflexivity. unfold mw_obj.
  destruct (status_eqb (o_st ob) SCreated) eqn:SC; [auto 10|]. destruct (status_eqb (o_st ob) SModified) eqn:SM.
  - split; auto. split; auto. split; auto. split. apply shape_put_wbit. destruct (o_st ob); try discriminate; reflexivity.
    intros _ _. apply rows_put_wbit.
  - split; auto. split; auto. split. reflexivity. split.
    + intros (L & S & C). unfold obj_shape. cbn [ob_set_pos ob_set_st ob_put_wbit ob_set_wbits o_wbits o_vals o_st o_dbvals odbval]. rewrite upd_nth_length.
      split; auto. split; discriminate.
    + intros NG _ R NC. assert (NC0 : status_eqb (o_st ob) SCreated = false) by exact SC.
      pose proof (rows_put_wbit (s_db s) ob a R NC0) as [R1 R2]. split; [exact R1|exact R2].
Qed.

Definition Wr (s : sess) (o : oid) (a : nat) : Prop :=
  forall ob, get_obj s o = Some ob -> o_st ob = SCreated \/ owbit ob a = true \/ (length (o_vals ob) <= a)%nat.

Lemma status_eqb_true : forall a b, status_eqb a b = true -> a = b.
Proof. intros [] []; simpl; intros; try discriminate; reflexivity. Qed.

Lemma mark_written_Wr : forall s o a, Cq s -> Wr (mark_written s o a) o a.
Proof.
  intros s o a (_ & _ & C & _) ob' G. rewrite mark_written_get, Nat.eqb_refl in G. destruct (get_obj s o) as [ob|] eqn:G0; [|discriminate].
  inversion G; subst ob'. destruct (C o ob G0) as (L & _). unfold mw_obj.
  destruct (status_eqb (o_st ob) SCreated) eqn:SC. left. apply status_eqb_true. exact SC.
  right. destruct (lt_dec a (length (o_vals ob))) as [LT|GE].
  - left. destruct (status_eqb (o_st ob) SModified); [|cbn [owbit ob_set_pos ob_set_st o_wbits]]; apply owbit_put_same; lia.
  - right. destruct (status_eqb (o_st ob) SModified); cbn; lia.
Qed.

(* vals[a] := x for an attribute that is not scalar, or after its bit was set *)
Lemma Cq_put_val : forall s o a x, Cq s ->
  (forall ob, get_obj s o = Some ob -> scalar sch (o_ent ob) a = false \/ o_st ob = SCreated \/ owbit ob a = true \/ (length (o_vals ob) <= a)%nat) ->
  Cq (upd_obj s o (fun ob => ob_put_val ob a x)).
Proof.
  intros s o a x H W. apply Cq_upd_obj_gen; auto. intros ob G. split; auto. split; auto. split; auto. split.
  - intros (L & S & C). unfold obj_shape. cbn [ob_put_val ob_set_vals o_wbits o_vals o_st]. rewrite upd_nth_length. auto.
  - intros _ _ R NC. destruct (R NC) as [R1 R2]. split; [|exact R2]. intros z r P I E a' v S NV.
    destruct (R1 z r P I E a' v S NV) as [X Y]. split. exact X. intros WB OV. apply Y; auto.
    cbn [ob_put_val ob_set_vals o_ent] in S. unfold owbit in WB. cbn [ob_put_val ob_set_vals o_wbits] in WB.
    unfold oval in *. cbn [ob_put_val ob_set_vals o_vals] in OV.
    destruct (W ob G) as [NS|[CR|[WT|GE]]].
    + rewrite nth_upd_nth_other in OV; auto. intro; subst; congruence.
    + cbn [ob_put_val ob_set_vals o_st] in NC. rewrite CR in NC. discriminate.
    + rewrite nth_upd_nth_other in OV; auto. intro; subst. unfold owbit in WT. congruence.
    + rewrite upd_nth_overflow in OV by exact GE. exact OV.
Qed.

(* ---------------------------------------------------------------- automation (as in SessionQueueInv.v) *)

Lemma Cq_db_rev_add : forall s owner a item, Cq s -> Cqo (db_rev_add s owner a item).
Proof.
  intros s owner a item H. unfold db_rev_add. destruct (get_obj s owner) as [ob|] eqn:G; [|exact H].
  destruct (oset ob a) as [sd|]. destruct (sd_full sd). exact H.
  all: unfold Cqo; cbn [out_state]; eapply Cq_put_obj; eauto; repeat split; reflexivity.
Qed.

Lemma nth_upd_nth_cases : forall A (l : list A) i j x d,
  nth j (upd_nth l i x) d = if Nat.eqb i j && Nat.ltb i (length l) then x else nth j l d.
Proof.
  intros. destruct (Nat.eqb i j) eqn:E; simpl.
  - apply Nat.eqb_eq in E. subst j. destruct (Nat.ltb i (length l)) eqn:L.
    apply Nat.ltb_lt in L. apply nth_upd_nth_same. exact L. apply Nat.ltb_ge in L. rewrite upd_nth_overflow by exact L. reflexivity.
  - apply Nat.eqb_neq in E. apply nth_upd_nth_other. exact E.
Qed.

Lemma shape_new_loaded : forall e pk, obj_shape (new_loaded sch e pk).
Proof.
  intros. unfold obj_shape, new_loaded, owbit, odbval. cbn. rewrite !repeat_length. split; auto. split. intros _ a. apply List.nth_repeat. discriminate.
Qed.

Lemma Cq_get_or_seed : forall s e pk, Cq s -> Cqp (get_or_seed sch s e pk).
Proof.
  intros s e pk H. unfold get_or_seed. destruct (idx_get s e 0 (VInt pk)). exact H.
  pose proof (Cq_push_obj s (new_loaded sch e pk) (shape_new_loaded e pk) H) as P.
  pose proof (get_push_obj_new s (new_loaded sch e pk)) as G.
  destruct (push_obj s (new_loaded sch e pk)) as [s1 o] eqn:PU. unfold Cqp in *. cbn [fst snd] in *.
  apply Cq_idx_put_O. exact P. exists (new_loaded sch e pk). split. exact G. split. reflexivity. split. reflexivity. split. reflexivity.
  intros _. split. 2: discriminate. intros z r _ _ _ a v _ _. unfold odbval, oval, new_loaded. cbn. rewrite !List.nth_repeat. split; discriminate.
Qed.

Hint Resolve Cqo_Ok_i Cqo_Err_i Cqp_i Cqp3_i Cq_set_tosave Cq_set_modcoll Cq_set_modified Cq_set_savedpend
  Cq_set_handles Cq_mark_dirty Cq_set_collstat Cq_set_ordsens Cq_mark_declined Cq_unqueue_slot Cq_mark_written Cq_db_rev_add Cq_get_or_seed
  Cq_idx_put_S Cq_idx_del : cq.
Ltac is_not_var r := tryif is_var r then fail else idtac.
Hint Extern 1 (Cq ?s) => match goal with
  | H : ?r = Ok s ?y |- _ => is_not_var r; apply (@Cqo_ok _ r s y); [|exact H]
  | H : ?r = Err s ?y |- _ => is_not_var r; apply (@Cqo_err _ r s y); [|exact H]
  | H : ?r = (s, ?y) |- _ => is_not_var r; apply (@Cqp_ok _ r s y); [|exact H]
  | H : ?r = (s, ?y, ?z) |- _ => is_not_var r; apply (@Cqp3_ok _ _ r s y z); [|exact H]
  end : cq.
Hint Extern 1 => progress cbv zeta : cq.
Ltac keeps_same := intros; repeat match goal with |- context [match ?y with _ => _ end] => destruct y end; unfold cohsame; repeat split; reflexivity.
Hint Extern 2 (Cq (upd_obj _ _ _)) => apply Cq_upd_obj; [solve [keeps_same]|] : cq.
Hint Extern 20 => match goal with |- context [match ?y with _ => _ end] => destruct y eqn:? end : cq.
Ltac cqauto := auto 60 with cq.

Lemma Cq_fold_left : forall A (f : sess -> A -> sess) l s, (forall s0 x, Cq s0 -> Cq (f s0 x)) -> Cq s -> Cq (fold_left f l s).
Proof. induction l as [|x l IH]; intros s F H; simpl; auto. Qed.
Hint Resolve Cq_fold_left : cq.

Lemma Cq_queue : forall s o, Cq s -> Cq (queue s o).
Proof. intros. unfold queue. cqauto. Qed.
Hint Resolve Cq_queue : cq.

Lemma Cq_modcoll_add : forall (s : sess) (o : oid) (a : nat), Cq s -> Cq (modcoll_add s o a).
Proof. intros. unfold modcoll_add. cqauto. Qed.
Hint Resolve Cq_modcoll_add : cq.

Lemma Cq_rev_add : forall (s : sess) (owner : oid) (a : nat) (item : oid), Cq s -> Cq (rev_add s owner a item).
Proof. intros. unfold rev_add. cqauto. Qed.
Hint Resolve Cq_rev_add : cq.

Lemma Cq_rev_remove : forall (s : sess) (owner : oid) (a : nat) (item : oid), Cq s -> Cq (rev_remove s owner a item).
Proof. intros. unfold rev_remove. cqauto. Qed.
Hint Resolve Cq_rev_remove : cq.

Lemma Cq_parse_cols : forall cols s e a, Cq s -> Cqp (parse_cols sch s e a cols).
Proof.
  induction cols as [|c t IH]; intros s e a H; simpl. cqauto.
  destruct (ref_info sch e a) as [[tgt r]|]; [destruct c|].
  all: try (specialize (IH s e (S a) H); destruct (parse_cols sch s e (S a) t) eqn:?; exact IH).
  pose proof (Cq_get_or_seed s tgt z H) as G. destruct (get_or_seed sch s tgt z) as [s1 o] eqn:?.
  specialize (IH s1 e (S a) G). destruct (parse_cols sch s1 e (S a) t) eqn:?. exact IH.
Qed.
Hint Resolve Cq_parse_cols : cq.

Lemma Cq_db_rev_remove : forall (s : sess) (owner : oid) (a : nat) (item : oid), Cq s -> Cq (db_rev_remove s owner a item).
Proof. intros. unfold db_rev_remove. cqauto. Qed.
Hint Resolve Cq_db_rev_remove : cq.

Lemma Cq_dbset_index : forall (s : sess) (o : oid) (e : nat) (a : nat) (v : val), Cq s -> Cq (dbset_index sch s o e a v).
Proof. intros. unfold dbset_index. cqauto. Qed.
Hint Resolve Cq_dbset_index : cq.

(* ---------------------------------------------------------------- loading a row *)

(* what a load keeps of every object: entity, status, primary key; and the database *)
Definition eps_same (s s' : sess) : Prop :=
  s_db s' = s_db s /\ forall o, obj_ent s' o = obj_ent s o /\ obj_st s' o = obj_st s o /\ obj_pk s' o = obj_pk s o.

Lemma eps_refl : forall s, eps_same s s. Proof. intros s. split; auto. Qed.
Lemma eps_trans : forall s1 s2 s3, eps_same s1 s2 -> eps_same s2 s3 -> eps_same s1 s3.
Proof.
  intros s1 s2 s3 [A1 A2] [B1 B2]. split. congruence. intros o. destruct (A2 o) as (X1 & X2 & X3), (B2 o) as (Y1 & Y2 & Y3). repeat split; congruence.
Qed.
Lemma eps_objs : forall s s', s_objs s' = s_objs s -> s_db s' = s_db s -> eps_same s s'.
Proof. intros s s' E D. split; auto. intros o. unfold obj_ent, obj_st, obj_pk, get_obj. rewrite E. auto. Qed.
Lemma eps_upd_obj : forall s o f, (forall ob, o_ent (f ob) = o_ent ob /\ o_st (f ob) = o_st ob /\ o_pk (f ob) = o_pk ob) -> eps_same s (upd_obj s o f).
Proof.
  intros s o f F. split. apply upd_obj_db. intros o'. unfold obj_ent, obj_st, obj_pk. rewrite get_upd_obj.
  destruct (Nat.eqb o o'); auto. destruct (get_obj s o') as [ob|]; cbn [option_map]; auto.
Qed.
Lemma eps_put_obj : forall s o ob ob', get_obj s o = Some ob -> o_ent ob' = o_ent ob -> o_st ob' = o_st ob -> o_pk ob' = o_pk ob -> eps_same s (put_obj s o ob').
Proof.
  intros s o ob ob' G E1 E2 E3. rewrite (put_obj_upd s o ob ob' G). split. apply upd_obj_db. intros o'. unfold obj_ent, obj_st, obj_pk. rewrite get_upd_obj.
  destruct (Nat.eqb o o') eqn:E; auto. apply Nat.eqb_eq in E. subst o'. rewrite G. cbn [option_map]. auto.
Qed.
Lemma eps_db_rev_add : forall s w a i, eps_same s (out_state (db_rev_add s w a i)).
Proof.
  intros. unfold db_rev_add. destruct (get_obj s w) as [ob|] eqn:G; [|apply eps_refl]. destruct (oset ob a) as [sd|]. destruct (sd_full sd). apply eps_refl.
  all: cbn [out_state]; eapply eps_put_obj; eauto.
Qed.
Lemma eps_dbset_index : forall s o e a v, eps_same s (dbset_index sch s o e a v).
Proof.
  intros. apply eps_objs; unfold dbset_index; repeat match goal with |- context [match ?y with _ => _ end] => destruct y end; reflexivity.
Qed.
Lemma eps_mark_dirty : forall s n, eps_same s (mark_dirty s n). Proof. intros. apply eps_objs; reflexivity. Qed.

Definition LoadPre (s : sess) (o : oid) (e : nat) (r : row) : Prop :=
  obj_ent s o = e /\ obj_pk s o = Some (r_pk r) /\ obj_st s o <> SCreated /\ In r (tab (s_db s) e).

Lemma LoadPre_eps : forall s s' o e r, eps_same s s' -> LoadPre s o e r -> LoadPre s' o e r.
Proof. intros s s' o e r [D F] (A & B & C & I). destruct (F o) as (X & Y & Z). unfold LoadPre. rewrite X, Y, Z, D. auto. Qed.

(* dbvals[a] := v (and vals[a] := v) with the value of the object's own row *)
Lemma Cq_load_val : forall s o e r a v (both : bool), Cq s -> LoadPre s o e r -> (scalar sch e a = true -> v = col r a) ->
  Cq (upd_obj s o (fun ob => if both then ob_put_val (ob_put_dbval ob a (Some v)) a (Some v) else ob_put_dbval ob a (Some v))).
Proof.
  intros s o e r a v both H (PE & PP & PS & PI) HV. pose proof H as (W & _). apply Cq_upd_obj_gen; auto. intros ob G.
  unfold obj_ent, obj_pk, obj_st in *. rewrite G in *.
  split. destruct both; reflexivity. split. destruct both; reflexivity. split. destruct both; auto. split.
  - intros (L & S & C). unfold obj_shape, owbit, odbval. destruct both; cbn; rewrite ?upd_nth_length; (split; [exact L|]); (split; [exact S|]); intros X; contradiction.
  - intros _ _ R NC. assert (NC0 : status_eqb (o_st ob) SCreated = false) by (destruct both; exact NC). destruct (R NC0) as [R1 R2].
    split. 2:{ destruct both; exact R2. }
    intros z r' P I E a' v' S NV. assert (P0 : o_pk ob = Some z) by (destruct both; exact P).
    assert (I0 : In r' (tab (s_db s) (o_ent ob))) by (destruct both; exact I). assert (S0 : scalar sch (o_ent ob) a' = true) by (destruct both; exact S).
    destruct (R1 z r' P0 I0 E a' v' S0 NV) as [X Y].
    assert (RR : r' = r). { apply (dbwf_nodup (s_db s) e); auto. rewrite <- PE. exact I0. congruence. }
    assert (K : Nat.eqb a a' = true -> col r' a' = v). { intros EA. apply Nat.eqb_eq in EA. subst a'. rewrite RR. symmetry. apply HV. rewrite <- PE. exact S0. }
    split.
    + intros DV. assert (DV0 : nth a' (upd_nth (o_dbvals ob) a (Some v)) None = Some v') by (destruct both; exact DV).
      rewrite nth_upd_nth_cases in DV0. destruct (Nat.eqb a a' && Nat.ltb a (length (o_dbvals ob))) eqn:C.
      * apply andb_true_iff in C. destruct C as [C _]. inversion DV0; subst v'. apply K. exact C.
      * apply X. exact DV0.
    + destruct both.
      * intros WB OV. unfold owbit in WB. cbn in WB. unfold oval in OV. cbn in OV. rewrite nth_upd_nth_cases in OV.
        destruct (Nat.eqb a a' && Nat.ltb a (length (o_vals ob))) eqn:C.
        -- apply andb_true_iff in C. destruct C as [C _]. inversion OV; subst v'. apply K. exact C.
        -- apply Y; auto.
      * intros WB OV. apply Y; auto.
Qed.

Lemma Cq_dbset_attr : forall s o e r a v, Cq s -> LoadPre s o e r -> (scalar sch e a = true -> v = col r a) ->
  Cqo (dbset_attr sch s o e a v) /\ eps_same s (out_state (dbset_attr sch s o e a v)).
Proof.
  intros s o e r a v H LP HV. unfold Cqo, dbset_attr.
  destruct (get_obj s o) as [ob|] eqn:G; [|split; [exact H|apply eps_refl]]. destruct (get_attr sch e a) as [at_|] eqn:GA; [|split; [exact H|apply eps_refl]].
  destruct (is_set_kind (a_kind at_)); [split; [exact H|apply eps_refl]|].
  destruct (odbval ob a) as [old|]. { destruct (val_eqb old v); cbn [out_state]; split; auto using Cq_mark_dirty, eps_refl, eps_mark_dirty. }
  assert (K : forall s1 (both : bool), Cq s1 -> eps_same s s1 ->
     Cq (upd_obj s1 o (fun ob => if both then ob_put_val (ob_put_dbval ob a (Some v)) a (Some v) else ob_put_dbval ob a (Some v))) /\
     eps_same s (upd_obj s1 o (fun ob => if both then ob_put_val (ob_put_dbval ob a (Some v)) a (Some v) else ob_put_dbval ob a (Some v)))).
  { intros s1 both H1 E1. split. apply (Cq_load_val s1 o e r a v both); auto. eapply LoadPre_eps; eauto.
    eapply eps_trans. exact E1. apply eps_upd_obj. intros ob0. destruct both; auto. }
  destruct (owbit ob a).
  - assert (D : Cq (upd_obj s o (fun ob2 => ob_put_dbval ob2 a (Some v))) /\ eps_same s (upd_obj s o (fun ob2 => ob_put_dbval ob2 a (Some v)))).
    { apply (K s false); auto using eps_refl. }
    destruct (a_kind at_) eqn:KD; try (cbn [out_state]; exact D). destruct v; try (cbn [out_state]; exact D).
    pose proof (Cq_db_rev_add s o0 rev o H) as C1. pose proof (eps_db_rev_add s o0 rev o) as E1.
    destruct (db_rev_add s o0 rev o) as [s1 u|s1 er]; unfold Cqo in C1; cbn [out_state] in *.
    + destruct (K s1 false C1 E1) as [K1 K2]. split. apply Cq_mark_dirty. exact K1. eapply eps_trans. exact K2. apply eps_mark_dirty.
    + split. apply Cq_mark_dirty. exact C1. eapply eps_trans. exact E1. apply eps_mark_dirty.
  - destruct (oval ob a). { cbn [out_state]. split; auto using Cq_mark_dirty, eps_mark_dirty. }
    match goal with |- context [if ?c then _ else _] => destruct c end. { cbn [out_state]. split; auto using Cq_mark_dirty, eps_mark_dirty. }
    assert (D : forall s1, Cq s1 -> eps_same s s1 ->
       Cq (upd_obj (dbset_index sch s1 o e a v) o (fun ob2 => ob_put_val (ob_put_dbval ob2 a (Some v)) a (Some v))) /\
       eps_same s (upd_obj (dbset_index sch s1 o e a v) o (fun ob2 => ob_put_val (ob_put_dbval ob2 a (Some v)) a (Some v)))).
    { intros s1 H1 E1. apply (K (dbset_index sch s1 o e a v) true). apply Cq_dbset_index. exact H1. eapply eps_trans. exact E1. apply eps_dbset_index. }
    destruct (a_kind at_) eqn:KD; try (cbn [out_state]; apply D; auto using eps_refl). destruct v; try (cbn [out_state]; apply D; auto using eps_refl).
    pose proof (Cq_db_rev_add s o0 rev o H) as C1. pose proof (eps_db_rev_add s o0 rev o) as E1.
    destruct (db_rev_add s o0 rev o) as [s1 u|s1 er]; unfold Cqo in C1; cbn [out_state] in *.
    + apply D; auto.
    + split. apply Cq_mark_dirty. exact C1. eapply eps_trans. exact E1. apply eps_mark_dirty.
Qed.

Lemma Cq_dbset_loop : forall r vals s o e a, Cq s -> LoadPre s o e r ->
  (forall i, scalar sch e (a + i) = true -> nth i vals VNone = col r (a + i)) ->
  Cqo (dbset_loop sch s o e a vals) /\ eps_same s (out_state (dbset_loop sch s o e a vals)).
Proof.
  intros r. induction vals as [|v t IH]; intros s o e a H LP HV; cbn [dbset_loop]. split. exact H. apply eps_refl.
  destruct (Cq_dbset_attr s o e r a v H LP) as [C1 E1]. { intros S. specialize (HV O). rewrite Nat.add_0_r in HV. apply HV. exact S. }
  destruct (dbset_attr sch s o e a v) as [s1 u|s1 er]; unfold Cqo in C1; cbn [out_state] in *. 2:{ split; auto. }
  destruct (IH s1 o e (S a) C1) as [C2 E2]. eapply LoadPre_eps; eauto. { intros i SI. specialize (HV (Datatypes.S i)). rewrite Nat.add_succ_r in HV. apply HV. exact SI. }
  split. exact C2. eapply eps_trans; eauto.
Qed.

Lemma Cq_db_set_obj : forall r vals s o e, Cq s -> LoadPre s o e r ->
  (forall i, scalar sch e i = true -> nth i vals VNone = col r i) ->
  Cqo (db_set_obj sch s o e vals) /\ eps_same s (out_state (db_set_obj sch s o e vals)).
Proof.
  intros r vals s o e H LP HV. unfold db_set_obj.
  assert (E0 : eps_same s (upd_obj s o (fun ob => ob_set_seed ob false))) by (apply eps_upd_obj; auto).
  assert (C0 : Cq (upd_obj s o (fun ob => ob_set_seed ob false))).
  { apply Cq_upd_obj_gen; auto. intros ob G. split; auto. split; auto. split; auto. split. auto.
    intros _ _ R NC. destruct (R NC) as [R1 R2]. split. exact R1. intros _ z P. destruct LP as (PE & PP & PS & PI).
    unfold obj_ent, obj_pk in *. rewrite G in *. exists r. cbn [ob_set_seed o_ent o_pk] in *. split. congruence. congruence. }
  destruct (Cq_dbset_loop r vals _ o e O C0 (LoadPre_eps _ _ _ _ _ E0 LP) HV) as [C1 E1]. split. exact C1. eapply eps_trans; eauto.
Qed.

Lemma db_get_or_seed : forall s e pk, s_db (fst (get_or_seed sch s e pk)) = s_db s.
Proof. intros. unfold get_or_seed. destruct (idx_get s e 0 (VInt pk)); reflexivity. Qed.

Lemma db_parse_cols : forall cols s e a, s_db (fst (parse_cols sch s e a cols)) = s_db s.
Proof.
  induction cols as [|c t IH]; intros s e a; simpl. reflexivity.
  destruct (ref_info sch e a) as [[tgt r]|]; [destruct c|].
  all: try (specialize (IH s e (S a)); destruct (parse_cols sch s e (S a) t) eqn:?; exact IH).
  pose proof (db_get_or_seed s tgt z) as G. destruct (get_or_seed sch s tgt z) as [s1 o] eqn:?.
  specialize (IH s1 e (S a)). destruct (parse_cols sch s1 e (S a) t) eqn:?. cbn [fst] in *. congruence.
Qed.

Lemma parse_cols_scalar : forall cols s e a i, ref_info sch e (a + i) = None -> nth i (snd (parse_cols sch s e a cols)) VNone = nth i cols VNone.
Proof.
  induction cols as [|c t IH]; intros s e a i R; simpl. reflexivity.
  destruct i as [|i].
  - rewrite Nat.add_0_r in R. rewrite R. destruct (parse_cols sch s e (S a) t). reflexivity.
  - assert (R' : ref_info sch e (S a + i) = None) by (rewrite <- R; f_equal; lia).
    destruct (ref_info sch e a) as [[tgt r]|]; [destruct c|].
    all: try (specialize (IH s e (S a) i R'); destruct (parse_cols sch s e (S a) t) eqn:?; exact IH).
    destruct (get_or_seed sch s tgt z) as [s1 o]. specialize (IH s1 e (S a) i R'). destruct (parse_cols sch s1 e (S a) t) eqn:?. exact IH.
Qed.

Lemma get_or_seed_indexed : forall s e pk, idx_get (fst (get_or_seed sch s e pk)) e O (VInt pk) = Some (snd (get_or_seed sch s e pk)).
Proof.
  intros. unfold get_or_seed. destruct (idx_get s e 0 (VInt pk)) eqn:I. exact I.
  cbn [push_obj fst snd]. apply idx_get_put_same.
Qed.

Lemma scalar_not_ref : forall e a, scalar sch e a = true -> ref_info sch e a = None.
Proof. intros e a. unfold scalar, ref_info. destruct (get_attr sch e a) as [at_|]; [|discriminate]. destruct (a_kind at_); simpl; congruence. Qed.

Lemma Cq_load_row : forall s e r, In r (tab (s_db s) e) -> Cq s -> Cqo (load_row sch s e r) /\ s_db (out_state (load_row sch s e r)) = s_db s.
Proof.
  intros s e r I H. unfold load_row.
  pose proof (Cq_parse_cols (r_cols r) s e O H) as C1. pose proof (db_parse_cols (r_cols r) s e O) as D1.
  pose proof (parse_cols_scalar (r_cols r) s e O) as V1.
  destruct (parse_cols sch s e 0 (r_cols r)) as [s1 vals]. unfold Cqp in C1. cbn [fst snd] in *.
  pose proof (Cq_get_or_seed s1 e (r_pk r) C1) as C2. pose proof (db_get_or_seed s1 e (r_pk r)) as D2. pose proof (get_or_seed_indexed s1 e (r_pk r)) as X2.
  destruct (get_or_seed sch s1 e (r_pk r)) as [s2 o]. unfold Cqp in C2. cbn [fst snd] in *.
  destruct (is_del (obj_st s2 o)). { split. exact C2. cbn [out_state]. congruence. }
  destruct (status_eqb (obj_st s2 o) SCreated) eqn:SC. { split. apply Cq_mark_dirty. exact C2. cbn [out_state mark_dirty s_db]. congruence. }
  assert (LP : LoadPre s2 o (obj_ent s2 o) r).
  { destruct C2 as (_ & _ & _ & D). destruct (D e (r_pk r) o X2) as (ob & G & E1 & E2 & _). unfold LoadPre, obj_ent, obj_pk, obj_st in *. rewrite G in *.
    split; auto. split; auto. split. intro X. rewrite X in SC. discriminate. rewrite E1, D2, D1. exact I. }
  destruct (Cq_db_set_obj r vals s2 o (obj_ent s2 o) C2 LP) as [C3 E3].
  { intros i S. rewrite V1. reflexivity. apply scalar_not_ref. destruct LP as (PE & _). destruct C2 as (_ & _ & _ & D). destruct (D e (r_pk r) o X2) as (ob & G & E1 & _).
    unfold obj_ent in S. rewrite G in S. rewrite E1 in S. exact S. }
  destruct E3 as [E3 _]. destruct (db_set_obj sch s2 o (obj_ent s2 o) vals); unfold Cqo in C3; cbn [out_state] in *; split; auto; congruence.
Qed.

Lemma Cq_load_rows : forall rows s e, incl rows (tab (s_db s) e) -> Cq s -> Cqo (load_rows sch s e rows).
Proof.
  induction rows as [|r t IH]; intros s e I H; cbn [load_rows]. exact H.
  destruct (Cq_load_row s e r) as [C1 D1]; auto. apply I. left. reflexivity.
  destruct (load_row sch s e r) as [s1 x|s1 er]; unfold Cqo in C1; cbn [out_state] in *; [|exact C1].
  assert (C2 : Cqo (load_rows sch s1 e t)). { apply IH; auto. rewrite D1. intros x0 X. apply I. right. exact X. }
  destruct (load_rows sch s1 e t); exact C2.
Qed.
Hint Resolve Cq_load_rows : cq.

Lemma firstn_incl_own : forall A n (l : list A), incl (firstn n l) l.
Proof. induction n as [|n IH]; intros [|x l]; simpl; try (intros y Y; contradiction). intros y [->|Y]. left. reflexivity. right. apply IH. exact Y. Qed.
Ltac incl_tab := unfold query_rows, select_eq;
  repeat match goal with |- context [match ?x with _ => _ end] => destruct x end;
  first [apply incl_refl | apply incl_filter | apply incl_nil_l
        | eapply incl_tran; [apply firstn_incl_own|]; first [apply incl_refl | apply incl_filter | apply incl_nil_l]].
Hint Extern 1 (incl _ (tab _ _)) => solve [incl_tab] : cq.
Lemma Cq_load_obj_noflush : forall (s : sess) (o : oid), Cq s -> Cqo (load_obj_noflush sch s o).
Proof. intros. unfold load_obj_noflush. cqauto. Qed.
Hint Resolve Cq_load_obj_noflush : cq.

Lemma Cq_coll_mark_full : forall (s : sess) (o : oid) (a : nat), Cq s -> Cq (coll_mark_full s o a).
Proof. intros. unfold coll_mark_full. cqauto. Qed.
Hint Resolve Cq_coll_mark_full : cq.

Lemma Cq_coll_ensure : forall (s : sess) (o : oid) (a : nat), Cq s -> Cq (coll_ensure s o a).
Proof. intros. unfold coll_ensure. cqauto. Qed.
Hint Resolve Cq_coll_ensure : cq.

Lemma Cq_coll_load_noflush : forall (s : sess) (o : oid) (a : nat), Cq s -> Cqo (coll_load_noflush sch s o a).
Proof. intros. unfold coll_load_noflush. cqauto. Qed.
Hint Resolve Cq_coll_load_noflush : cq.

Lemma Cq_handle_of : forall (s : sess) (o : oid), Cq s -> Cqp (handle_of s o).
Proof. intros. unfold handle_of. cqauto. Qed.
Hint Resolve Cq_handle_of : cq.

Lemma Cq_handles_of : forall os s, Cq s -> Cqp (handles_of s os).
Proof.
  induction os as [|o t IH]; intros s H; simpl. cqauto.
  pose proof (Cq_handle_of s o H) as G. destruct (handle_of s o) as [s1 h]. specialize (IH s1 G). destruct (handles_of s1 t). exact IH.
Qed.
Hint Resolve Cq_handles_of : cq.

Lemma Cq_objs_res : forall (s : sess) (os : list oid), Cq s -> Cqp (objs_res s os).
Proof. intros. unfold objs_res. cqauto. Qed.
Hint Resolve Cq_objs_res : cq.

Lemma Cq_put_sd : forall (s : sess) (o : oid) (a : nat) (sd : setdata), Cq s -> Cq (put_sd s o a sd).
Proof. intros. unfold put_sd. cqauto. Qed.
Hint Resolve Cq_put_sd : cq.

Lemma Cq_sd_add_item : forall (s : sess) (o : oid) (a : nat) (item : oid), Cq s -> Cq (sd_add_item s o a item).
Proof. intros. unfold sd_add_item. cqauto. Qed.
Hint Resolve Cq_sd_add_item : cq.

Lemma Cq_note_order : forall A (s : sess) (l : list A), Cq s -> Cq (note_order s l).
Proof. intros. unfold note_order. cqauto. Qed.
Hint Resolve Cq_note_order : cq.


(* ---------------------------------------------------------------- a frame for the functions that assign values: every object keeps entity and
   primary key, created objects stay created, written bits stay set, the number of value slots stays *)
Section Frame.
Variable s0 : sess.
Definition Os (s : sess) : Prop :=
  s_db s = s_db s0 /\
  forall o, match get_obj s0 o with
            | Some ob => exists ob', get_obj s o = Some ob' /\ o_ent ob' = o_ent ob /\ o_pk ob' = o_pk ob /\
                         status_eqb (o_st ob') SCreated = status_eqb (o_st ob) SCreated /\ (forall a, owbit ob a = true -> owbit ob' a = true) /\
                         length (o_vals ob') = length (o_vals ob)
            | None => get_obj s o = None end.

Lemma Os_fields : forall s s', s_objs s' = s_objs s -> s_db s' = s_db s -> Os s -> Os s'.
Proof. intros s s' E D [A B]. split. congruence. intros o. specialize (B o). unfold get_obj in *. rewrite E. exact B. Qed.

Lemma Os_upd_obj : forall s o f,
  (forall ob, o_ent (f ob) = o_ent ob /\ o_pk (f ob) = o_pk ob /\ status_eqb (o_st (f ob)) SCreated = status_eqb (o_st ob) SCreated /\
              (forall a, owbit ob a = true -> owbit (f ob) a = true) /\ length (o_vals (f ob)) = length (o_vals ob)) ->
  Os s -> Os (upd_obj s o f).
Proof.
  intros s o f F [A B]. split. rewrite upd_obj_db. exact A. intros o'. specialize (B o'). rewrite get_upd_obj.
  destruct (get_obj s0 o') as [ob|].
  - destruct B as (ob1 & G & B1 & B2 & B3 & B4 & B5). rewrite G. destruct (Nat.eqb o o'). 2:{ exists ob1. auto 10. }
    cbn [option_map]. destruct (F ob1) as (F1 & F2 & F3 & F4 & F5). exists (f ob1). split; auto. split. congruence. split. congruence.
    split. congruence. split. auto. congruence.
  - rewrite B. destruct (Nat.eqb o o'); reflexivity.
Qed.

Lemma Os_mark_written : forall s o a, Os s -> Os (mark_written s o a).
Proof.
  intros s o a [A B]. destruct (mark_written_fields s o a) as (_ & F2 & _). split. congruence. intros o'. specialize (B o'). rewrite mark_written_get.
  destruct (get_obj s0 o') as [ob|].
  - destruct B as (ob1 & G & B1 & B2 & B3 & B4 & B5). rewrite G. destruct (Nat.eqb o o'). 2:{ exists ob1. auto 10. }
    cbn [option_map]. eexists. split. reflexivity. unfold mw_obj. destruct (status_eqb (o_st ob1) SCreated) eqn:SC. { repeat split; auto; congruence. }
    assert (WB : forall a0, owbit ob a0 = true -> owbit (ob_put_wbit ob1 a true) a0 = true).
    { intros a0 W. specialize (B4 a0 W). destruct (owbit (ob_put_wbit ob1 a true) a0) eqn:X; auto. apply owbit_put_true in X. congruence. }
    destruct (status_eqb (o_st ob1) SModified); cbn; repeat split; auto; congruence.
  - rewrite B. destruct (Nat.eqb o o'); reflexivity.
Qed.

Lemma Os_idx_put : forall s e k v o, Os s -> Os (idx_put s e k v o). Proof. intros. eapply Os_fields; eauto. Qed.
Lemma Os_idx_del : forall s e k v, Os s -> Os (idx_del s e k v). Proof. intros. eapply Os_fields; eauto. Qed.
Lemma Os_mark_dirty : forall s n, Os s -> Os (mark_dirty s n). Proof. intros. eapply Os_fields; eauto. Qed.
Lemma Os_set_modcoll : forall s y, Os s -> Os (set_modcoll s y). Proof. intros. eapply Os_fields; eauto. Qed.
Lemma Os_fold_left : forall A (f : sess -> A -> sess) l s, (forall s1 x, Os s1 -> Os (f s1 x)) -> Os s -> Os (fold_left f l s).
Proof. induction l as [|x l IH]; intros s F H; simpl; auto. Qed.

Hint Resolve Os_mark_written Os_idx_put Os_idx_del Os_mark_dirty Os_set_modcoll Os_fold_left : os.
Ltac keeps_os := intros; repeat match goal with |- context [match ?y with _ => _ end] => destruct y end; unfold owbit; cbn;
  repeat split; auto using upd_nth_length.
Hint Extern 2 (Os (upd_obj _ _ _)) => apply Os_upd_obj; [solve [keeps_os]|] : os.
Hint Extern 1 => progress cbv zeta : os.
Hint Extern 20 => match goal with |- context [match ?y with _ => _ end] => destruct y eqn:? end : os.
Ltac osauto := auto 40 with os.

Lemma Os_modcoll_add : forall s o a, Os s -> Os (modcoll_add s o a). Proof. intros. unfold modcoll_add. osauto. Qed.
Hint Resolve Os_modcoll_add : os.
Lemma Os_rev_add : forall s w a i, Os s -> Os (rev_add s w a i). Proof. intros. unfold rev_add. osauto. Qed.
Lemma Os_rev_remove : forall s w a i, Os s -> Os (rev_remove s w a i). Proof. intros. unfold rev_remove. osauto. Qed.
Hint Resolve Os_rev_add Os_rev_remove : os.
Lemma Os_key_set : forall s o e a nv, Os s -> Os (key_set s o e a nv). Proof. intros. unfold key_set. osauto. Qed.
Hint Resolve Os_key_set : os.
Lemma Os_key_set_checked : forall s o e a nv, Os s -> Os (key_set_checked sch s o e a nv). Proof. intros. unfold key_set_checked. osauto. Qed.
Lemma Os_ref_set_direct : forall s o a nv, Os s -> Os (ref_set_direct sch s o a nv). Proof. intros. unfold ref_set_direct. osauto. Qed.
Hint Resolve Os_key_set_checked Os_ref_set_direct : os.
Lemma Os_setmany_apply : forall o e s p, Os s -> Os (setmany_apply sch o e s p). Proof. intros. unfold setmany_apply. osauto. Qed.
Lemma Os_del_unlink : forall s o e l, Os s -> Os (del_unlink sch s o e l). Proof. intros. unfold del_unlink. osauto. Qed.
Lemma Os_del_keys : forall s o e l, Os s -> Os (del_keys sch s o e l). Proof. intros. unfold del_keys. osauto. Qed.
End Frame.

Lemma Os_refl : forall s, Os s s.
Proof. intros s. split; auto. intros o. destruct (get_obj s o) as [ob|]; auto. exists ob. auto 10. Qed.

Lemma Os_Wr : forall s s' o a, Os s s' -> Wr s o a -> Wr s' o a.
Proof.
  intros s s' o a [_ B] W ob' G. specialize (B o). destruct (get_obj s o) as [ob|] eqn:G0; [|congruence].
  destruct B as (ob1 & G1 & _ & _ & B3 & B4 & B5). rewrite G in G1. inversion G1; subst ob1. destruct (W ob G0) as [X|[X|X]]; auto. left. apply status_eqb_true. rewrite B3, X. reflexivity. right. right. lia.
Qed.

(* ---------------------------------------------------------------- assignments *)

Lemma ref_not_scalar : forall e a p, ref_info sch e a = Some p -> scalar sch e a = false.
Proof. intros e a p. unfold ref_info, scalar. destruct (get_attr sch e a) as [at_|]; [|discriminate]. destruct (a_kind at_); simpl; congruence. Qed.

Lemma mark_written_ent : forall s o a o', obj_ent (mark_written s o a) o' = obj_ent s o'.
Proof.
  intros. unfold obj_ent. rewrite mark_written_get. destruct (Nat.eqb o o'); auto. destruct (get_obj s o') as [ob|]; auto. cbn [option_map].
  unfold mw_obj. destruct (status_eqb (o_st ob) SCreated); auto. destruct (status_eqb (o_st ob) SModified); reflexivity.
Qed.

Lemma Cq_put_ref : forall s o a x p, Cq s -> ref_info sch (obj_ent s o) a = Some p -> Cq (upd_obj s o (fun ob => ob_put_val ob a x)).
Proof.
  intros s o a x p H R. apply Cq_put_val; auto. intros ob G. left. unfold obj_ent in R. rewrite G in R. eapply ref_not_scalar; eauto.
Qed.

Lemma Cq_ref_set_rev : forall (s : sess) (item : oid) (a : nat) (newv : val), Cq s -> Cq (ref_set_rev sch s item a newv).
Proof.
  intros s item a newv H. unfold ref_set_rev. destruct (ref_info sch (obj_ent s item) a) as [[t r]|] eqn:RI; [|exact H].
  pose proof (Cq_mark_written s item a H) as C1. destruct (oval_eqb (obj_val s item a) (Some newv)); [exact C1|].
  assert (C2 : Cq (upd_obj (mark_written s item a) item (fun ob => ob_put_val ob a (Some newv)))).
  { eapply Cq_put_ref; eauto. rewrite mark_written_ent. exact RI. }
  destruct (obj_val s item a) as [[| | |x]|]; cqauto.
Qed.
Hint Resolve Cq_ref_set_rev : cq.

Lemma Cq_ref_set_direct : forall (s : sess) (o : oid) (a : nat) (newv : val), Cq s -> Cq (ref_set_direct sch s o a newv).
Proof.
  intros s o a newv H. unfold ref_set_direct. destruct (ref_info sch (obj_ent s o) a) as [[t r]|] eqn:RI; [|exact H].
  match goal with |- context [if ?c then _ else _] => destruct c end; [exact H|].
  pose proof (Cq_mark_written s o a H) as C1. destruct (oval_eqb (obj_val s o a) (Some newv)); [exact C1|].
  assert (C2 : Cq (upd_obj (mark_written s o a) o (fun ob => ob_put_val ob a (Some newv)))).
  { eapply Cq_put_ref; eauto. rewrite mark_written_ent. exact RI. }
  destruct (obj_val s o a) as [[| | |x]|]; destruct newv; cqauto.
Qed.
Hint Resolve Cq_ref_set_direct : cq.

Lemma Cq_key_set : forall s o e a nv, Cq s -> Wr s o a -> Cq (key_set s o e a nv).
Proof.
  intros s o e a nv H W. unfold key_set. destruct (get_obj s o) as [ob|] eqn:G; [|exact H].
  match goal with |- context [if ?c then _ else _] => destruct c end; [exact H|].
  destruct (oval_eqb (oval ob a) (Some nv)); [exact H|].
  apply Cq_put_val. cqauto. intros ob1 G1. right. apply W. rewrite <- G1. symmetry. apply get_obj_fields.
  destruct (is_vnone nv); destruct (oval ob a) as [ov|]; try destruct (is_vnone ov); reflexivity.
Qed.

Lemma Cq_key_set_checked : forall s o e a nv, Cq s -> Wr s o a -> Cq (key_set_checked sch s o e a nv).
Proof. intros. unfold key_set_checked. destruct (negb (attr_uniq sch e a) || key_conflict s o e a nv). cqauto. apply Cq_key_set; auto. Qed.

Lemma Cq_set_plain : forall s o a x, Cq s -> Cq (upd_obj (mark_written s o a) o (fun ob => ob_put_val ob a x)).
Proof. intros s o a x H. apply Cq_put_val. cqauto. intros ob G. right. apply (mark_written_Wr s o a H ob G). Qed.
Lemma Cq_key_set_mw : forall s o e a nv, Cq s -> Cq (key_set (mark_written s o a) o e a nv).
Proof. intros s o e a nv H. apply Cq_key_set. cqauto. apply mark_written_Wr. exact H. Qed.
Hint Resolve Cq_set_plain Cq_key_set_mw : cq.

Lemma Cq_setmany_apply : forall o e s p, Cq s -> Wr s o (fst p) -> Cq (setmany_apply sch o e s p).
Proof.
  intros o e s p H W. unfold setmany_apply. destruct (attr_uniq sch e (fst p)). apply Cq_key_set_checked; auto.
  destruct (attr_is_ref sch e (fst p)). cqauto. apply Cq_put_val; auto.
Qed.

Lemma Cq_setmany_fold : forall o e l s, Cq s -> (forall p, In p l -> Wr s o (fst p)) -> Cq (fold_left (setmany_apply sch o e) l s).
Proof.
  intros o e. induction l as [|p l IH]; intros s H W; simpl. exact H.
  apply IH. apply Cq_setmany_apply; auto. apply W. left. reflexivity.
  intros q Q. apply (Os_Wr s). apply Os_setmany_apply. apply Os_refl. apply W. right. exact Q.
Qed.

Lemma mark_fold_Wr : forall o (l : list (nat * val)) s, Cq s ->
  Cq (fold_left (fun acc p => mark_written acc o (fst p)) l s) /\ forall p, In p l -> Wr (fold_left (fun acc p => mark_written acc o (fst p)) l s) o (fst p).
Proof.
  intros o. induction l as [|q l IH]; intros s H; simpl. split. exact H. intros p [].
  destruct (IH (mark_written s o (fst q)) (Cq_mark_written s o (fst q) H)) as [C W]. split. exact C.
  intros p [->|I]. 2: apply W; exact I.
  apply (Os_Wr (mark_written s o (fst p))). apply Os_fold_left. intros. apply Os_mark_written. assumption. apply Os_refl. apply mark_written_Wr. exact H.
Qed.

Lemma Cq_setmany_core : forall o e F (avs : list (nat * val)) s, Cq s ->
  Cq (fold_left (setmany_apply sch o e) (filter F avs) (fold_left (fun acc p => mark_written acc o (fst p)) avs s)).
Proof.
  intros o e F avs s H. destruct (mark_fold_Wr o avs s H) as [C W]. apply Cq_setmany_fold. exact C.
  intros p I. apply W. apply filter_In in I. tauto.
Qed.
Hint Resolve Cq_setmany_core : cq.
Lemma Cq_item_link : forall (s : sess) (o : oid) (a : nat) (r : nat) (item : oid), Cq s -> Cq (item_link sch s o a r item).
Proof. intros. unfold item_link. cqauto. Qed.
Hint Resolve Cq_item_link : cq.

Lemma Cq_coll_load_items : forall (s : sess) (o : oid) (a : nat) (items : list oid), Cq s -> Cqo (coll_load_items sch s o a items).
Proof. intros. unfold coll_load_items. cqauto. Qed.
Hint Resolve Cq_coll_load_items : cq.

Lemma Cq_coll_add : forall (s : sess) (o : oid) (a : nat) (items : list oid), Cq s -> Cqo (coll_add sch s o a items).
Proof. intros. unfold coll_add. cqauto. Qed.
Hint Resolve Cq_coll_add : cq.

Lemma Cq_coll_nonzero : forall (s : sess) (o : oid) (a : nat), Cq s -> Cqo (coll_nonzero sch s o a).
Proof. intros. unfold coll_nonzero. cqauto. Qed.
Hint Resolve Cq_coll_nonzero : cq.

Lemma Cq_fold_out : forall A (f : sess -> A -> out unit) l s, (forall s0 x, Cq s0 -> Cqo (f s0 x)) -> Cq s -> Cqo (fold_out f s l).
Proof.
  induction l as [|x t IH]; intros s F H; simpl. cqauto.
  pose proof (F s x H) as G. destruct (f s x) as [s1 u|s1 er]; [apply IH; [exact F|exact G]|exact G].
Qed.
Hint Resolve Cq_fold_out : cq.

Lemma Cq_coll_assign_gen : forall (del : sess -> oid -> out unit) (s : sess) (o : oid) (a : nat) (items : list oid), (forall s0 x0, Cq s0 -> Cqo (del s0 x0)) -> Cq s -> Cqo (coll_assign_gen del sch s o a items).
Proof. intros. unfold coll_assign_gen. cqauto. Qed.
Hint Resolve Cq_coll_assign_gen : cq.

Lemma Cq_coll_remove_gen : forall (del : sess -> oid -> out unit) (s : sess) (o : oid) (a : nat) (items : list oid), (forall s0 x0, Cq s0 -> Cqo (del s0 x0)) -> Cq s -> Cqo (coll_remove_gen del sch s o a items).
Proof. intros. unfold coll_remove_gen. cqauto. Qed.
Hint Resolve Cq_coll_remove_gen : cq.

Lemma Cq_del_unlink : forall (s : sess) (o : oid) (e : nat) (l : list nat), Cq s -> Cq (del_unlink sch s o e l).
Proof. intros. unfold del_unlink. cqauto. Qed.
Hint Resolve Cq_del_unlink : cq.

Lemma Cq_del_keys : forall (s : sess) (o : oid) (e : nat) (l : list nat), Cq s -> Cq (del_keys sch s o e l).
Proof. intros. unfold del_keys. cqauto. Qed.
Hint Resolve Cq_del_keys : cq.


(* ---------------------------------------------------------------- delete *)

(* an object that no index entry names (any more) may change at will *)
Lemma Cq_upd_hidden : forall s s' o f, Cq s -> s_objs s' = s_objs (upd_obj s o f) -> s_db s' = s_db s -> s_committed s' = s_committed s ->
  (forall ob, get_obj s o = Some ob -> obj_shape ob -> obj_shape (f ob)) ->
  (forall e z o', idx_get s' e O (VInt z) = Some o' -> idx_get s e O (VInt z) = Some o' /\ o' <> o) -> Cq s'.
Proof.
  intros s s' o f (A & B & C & D) E1 E3 E4 F X. unfold Cq. rewrite E3, E4. split; [exact A|]. split; [exact B|]. split.
  - intros o' ob' G. rewrite (get_obj_fields _ _ o' E1) in G. rewrite get_upd_obj in G. destruct (Nat.eqb o o') eqn:E.
    + apply Nat.eqb_eq in E. subst o'. destruct (get_obj s o) as [ob|] eqn:G0; [|discriminate]. inversion G; subst ob'. apply F; auto. apply (C o ob G0).
    + apply (C o' ob' G).
  - intros e z o' I. destruct (X e z o' I) as [I0 N]. destruct (D e z o' I0) as (ob & G & R). exists ob. rewrite E3. split; auto.
    rewrite (get_obj_fields _ _ o' E1). rewrite get_upd_obj_other; auto.
Qed.

Lemma Cq_kill : forall s o f ob, Cq s -> get_obj s o = Some ob -> (obj_shape ob -> obj_shape (f ob)) ->
  Cq (match o_pk ob with Some pk => idx_del (upd_obj s o f) (o_ent ob) O (VInt pk) | None => upd_obj s o f end).
Proof.
  intros s o f ob H G F. pose proof H as (_ & _ & _ & D).
  assert (K : forall e z, idx_get s e O (VInt z) = Some o -> e = o_ent ob /\ o_pk ob = Some z).
  { intros e z I. destruct (D e z o I) as (ob1 & G1 & E1 & E2 & _). rewrite G in G1. inversion G1; subst ob1. auto. }
  destruct (o_pk ob) as [pk|] eqn:P.
  - apply (Cq_upd_hidden s _ o f H); auto. apply upd_obj_db. unfold upd_obj. rewrite G. reflexivity.
    intros ob0 G0. rewrite G in G0. inversion G0; subst ob0. exact F.
    intros e z o' I. destruct (ikey_dec (o_ent ob, O, VInt pk) (e, O, VInt z)) as [X|X].
    + inversion X; subst. rewrite idx_get_del_same in I. discriminate.
    + rewrite idx_get_del_other in I by exact X. unfold idx_get in I. rewrite upd_obj_idx in I. split. exact I.
      intros ->. destruct (K e z I) as [K1 K2]. inversion K2; subst. congruence.
  - apply (Cq_upd_hidden s _ o f H); auto. apply upd_obj_db. unfold upd_obj. rewrite G. reflexivity.
    intros ob0 G0. rewrite G in G0. inversion G0; subst ob0. exact F.
    intros e z o' I. unfold idx_get in I. rewrite upd_obj_idx in I. split. exact I. intros ->. destruct (K e z I) as [_ K2]. discriminate.
Qed.

Lemma Cq_delete_tail : forall s1 o ob, Cq s1 -> Cqo (delete_tail sch s1 o ob).
Proof.
  intros s1 o ob H. unfold delete_tail. destruct (get_obj s1 o) as [ob1|] eqn:G; [|exact H].
  match goal with |- context [if ?c then _ else _] => destruct c end. cqauto.
  set (attrs := seq 0 (nattrs sch (o_ent ob1))). set (s3 := del_keys sch (del_unlink sch s1 o (o_ent ob1) attrs) o (o_ent ob1) attrs).
  assert (C3 : Cq s3) by (unfold s3, del_keys, del_unlink; cqauto).
  assert (O3 : Os s1 s3) by (unfold s3; apply Os_del_keys; apply Os_del_unlink; apply Os_refl).
  destruct O3 as [_ O3]. specialize (O3 o). rewrite G in O3. destruct O3 as (ob3 & G3 & E1 & E2 & E3 & _).
  destruct (status_eqb (o_st ob1) SCreated) eqn:SC; unfold Cqo; cbn [out_state].
  - pose proof (Cq_kill (unqueue_slot s3 (o_pos ob1)) o (fun x => ob_set_st (ob_set_pos x None) SCancelled) ob3) as K.
    rewrite E1, E2 in K. apply K. cqauto. rewrite <- G3. destruct (o_pos ob1); reflexivity.
    intros (L & _ & _). split. exact L. split; discriminate.
  - assert (M : forall s4, Cq s4 -> get_obj s4 o = Some ob3 -> Cq (queue (upd_obj s4 o (fun x => ob_set_st x SMarked)) o)).
    { intros s4 C4 G4. apply Cq_queue. apply Cq_upd_obj_gen; auto. intros ob0 G0. rewrite G4 in G0. inversion G0; subst ob0.
      split; auto. split; auto. split. reflexivity. split. intros (L & _ & _). split. exact L. split; discriminate.
      intros _ _ R _. apply R. congruence. }
    destruct (status_eqb (o_st ob1) SModified); apply M; auto. cqauto. rewrite <- G3. destruct (o_pos ob1); reflexivity.
Qed.
Hint Resolve Cq_delete_tail : cq.

Lemma Cq_delete_obj : forall fuel s o, Cq s -> Cqo (delete_obj fuel sch s o).
Proof.
  induction fuel as [|f IH]; intros s o H; simpl. cqauto.
  destruct (get_obj s o) as [ob|]; [|cqauto]. destruct (is_del (o_st ob)). cqauto.
  match goal with |- Cqo (match ?r0 with _ => _ end) => assert (G : Cqo r0); [|destruct r0 as [s1 u|s1 er]; [|exact G]] end.
  { apply Cq_fold_out; [|exact H]. intros s0 a H0. cqauto. }
  cqauto.
Qed.
Hint Resolve Cq_delete_obj : cq.

Lemma Cq_coll_assign : forall s o a items, Cq s -> Cqo (coll_assign sch s o a items).
Proof. intros. unfold coll_assign. cqauto. Qed.
Lemma Cq_coll_remove : forall s o a items, Cq s -> Cqo (coll_remove sch s o a items).
Proof. intros. unfold coll_remove. cqauto. Qed.
Hint Resolve Cq_coll_assign Cq_coll_remove : cq.
Lemma Cq_put_keys : forall (s : sess) (o : oid) (e : nat) (l : list nat), Cq s -> Cq (put_keys sch s o e l).
Proof. intros. unfold put_keys. cqauto. Qed.
Hint Resolve Cq_put_keys : cq.

Lemma Cq_key_set_index_only : forall (s : sess) (o : oid) (e : nat) (a : nat) (nv : val), Cq s -> Cq (key_set_index_only s o e a nv).
Proof. intros. unfold key_set_index_only. cqauto. Qed.
Hint Resolve Cq_key_set_index_only : cq.

Lemma Cq_set_op : forall (s : sess) (h : nat) (a : nat) (v : arg), Cq s -> Cqp (set_op sch s h a v).
Proof. intros. unfold set_op. cqauto. Qed.
Hint Resolve Cq_set_op : cq.

Lemma Cq_setmany_scan : forall l o e acc changed, Cq acc -> Cqp3 (setmany_scan o e acc changed l).
Proof.
  induction l as [|[a v] t IH]; intros o e acc changed H; simpl. cqauto.
  destruct (key_conflict acc o e a v). cqauto. apply IH. cqauto.
Qed.
Hint Resolve Cq_setmany_scan : cq.

Lemma Cq_setmany_op : forall (s : sess) (h : nat) (kw : list (nat * arg)), Cq s -> Cqp (setmany_op sch s h kw).
Proof. intros. unfold setmany_op. cqauto. Qed.
Hint Resolve Cq_setmany_op : cq.

Lemma Cq_lift_unit : forall (r : out unit), Cqo r -> Cqp (lift_unit r).
Proof. intros [s u|s e] H; exact H. Qed.
Hint Resolve Cq_lift_unit : cq.

Lemma Cq_delete_op : forall (s : sess) (h : nat), Cq s -> Cqp (delete_op sch s h).
Proof. intros. unfold delete_op. cqauto. Qed.
Hint Resolve Cq_delete_op : cq.

Lemma Cq_coll_op : forall (s : sess) (k : collop) (h : nat) (a : nat) (hs : list nat), Cq s -> Cqp (coll_op sch s k h a hs).
Proof. intros. unfold coll_op. cqauto. Qed.
Hint Resolve Cq_coll_op : cq.

Lemma Cq_pk_op : forall (s : sess) (h : nat), Cq s -> Cqp (pk_op s h).
Proof. intros. unfold pk_op. cqauto. Qed.
Hint Resolve Cq_pk_op : cq.

Lemma Cq_with_set_attr : forall (s : sess) (h : nat) (a : nat) (k : oid -> nat -> nat -> sess * res), Cq s -> (forall x0 y0 z0, Cqp (k x0 y0 z0)) -> Cqp (with_set_attr sch s h a k).
Proof. intros. unfold with_set_attr. cqauto. Qed.
Hint Resolve Cq_with_set_attr : cq.

Lemma Cq_count_op : forall (s : sess) (h : nat) (a : nat), Cq s -> Cqp (count_op sch s h a).
Proof. intros. unfold count_op. cqauto. Qed.
Hint Resolve Cq_count_op : cq.

Lemma Cq_keep_declined : forall s0 s1, Cq s1 -> Cq (keep_declined s0 s1).
Proof. intros. unfold keep_declined. cqauto. Qed.
Hint Resolve Cq_keep_declined : cq.


(* ---------------------------------------------------------------- Entity.__init__ *)

Lemma shape_new_obj_record : forall nr e pk cs upto, obj_shape (new_obj_record nr e pk cs upto).
Proof.
  intros. unfold obj_shape, new_obj_record, odbval. cbn. rewrite map_length, combine_length, seq_length, !repeat_length, Nat.min_id.
  split. split; reflexivity. split. discriminate. intros _ a. apply List.nth_repeat.
Qed.

Lemma Cq_new_registered : forall s ob s1 o, Cq s -> obj_shape ob -> o_st ob = SCreated -> push_obj s ob = (s1, o) ->
  Cq (match o_pk ob with Some z => idx_put s1 (o_ent ob) O (VInt z) o | None => s1 end).
Proof.
  intros s ob s1 o H SH ST PU. pose proof (Cq_push_obj s ob SH H) as P. pose proof (get_push_obj_new s ob) as G. rewrite PU in P, G. unfold Cqp in P. cbn [fst snd] in *.
  destruct (o_pk ob) as [z|] eqn:PK; [|exact P]. apply Cq_idx_put_O. exact P. exists ob. split. exact G. split. reflexivity. split. exact PK.
  split. rewrite ST. reflexivity. intros NC. rewrite ST in NC. discriminate.
Qed.

Lemma Cq_new_op : forall s e pk kw, Cq s -> Cqp (new_op sch s e pk kw).
Proof.
  intros s e pk kw H. unfold new_op. destruct (nth_error sch e) as [en|]; [|cqauto].
  destruct (negb (kw_handles_ok s kw)); [cqauto|]. destruct (existsb _ kw); [cqauto|].
  match goal with |- context [if ?c then _ else _] => destruct c; [cqauto|] end.
  destruct (validate_all s (e_attrs en) 0 kw) as [cs| |]; [|cqauto|cqauto]. cbv zeta.
  destruct (key_conflicts sch s e _ _); [cqauto|].
  match goal with |- context [if ?c then _ else _] => destruct c; [cqauto|] end.
  destruct (first_bad_set s cs 0) as [j|].
  - destruct (push_obj s (new_obj_record false e pk cs j)) as [s1 o] eqn:PU.
    pose proof (Cq_new_registered s _ s1 o H (shape_new_obj_record false e pk cs j) eq_refl PU) as K. cbn [new_obj_record o_pk o_ent] in K.
    unfold Cqp. cbn [fst]. apply Cq_mark_dirty. exact K.
  - destruct (push_obj s (new_obj_record true e pk cs (length cs))) as [s1 o] eqn:PU.
    pose proof (Cq_new_registered s _ s1 o H (shape_new_obj_record true e pk cs (length cs)) eq_refl PU) as K. cbn [new_obj_record o_pk o_ent] in K.
    match goal with |- context [handle_of (queue ?s4 o) o] => assert (C4 : Cq s4) end.
    { apply Cq_fold_left. 2:{ apply Cq_put_keys. exact K. } intros s0 p H0. cqauto. }
    pose proof (Cq_handle_of _ o (Cq_queue _ o C4)) as C5. destruct (handle_of _ o) as [s5 h]. exact C5.
Qed.
Hint Resolve Cq_new_op : cq.

(* ---------------------------------------------------------------- saving.  An INSERT / UPDATE / DELETE for one object must leave what every OTHER cached
   object mirrors untouched: that is the identity map (no second live object with the same entity and primary key), i.e. Inv_idx. *)

Definition Uq (s : sess) : Prop :=
  forall o ob z, get_obj s o = Some ob -> o_pk ob = Some z -> is_gone (o_st ob) = false -> idx_get s (o_ent ob) O (VInt z) = Some o.

Lemma Uq_of_Pk : forall s, Pk sch s -> s_dirty s = O -> Uq s /\ Inv_shape sch s.
Proof.
  intros s [X|[I SH]] D. contradiction. split; auto. intros o ob z G P L. apply (I (o_ent ob) O (VInt z) o). exists ob. split; auto. split; auto.
  unfold kview. cbn. rewrite L, P. reflexivity.
Qed.

Definition dback (e : nat) (z : Z) (d d' : db) : Prop :=
  forall e2 r', In r' (tab d' e2) -> (e2 = e /\ r_pk r' = z) \/ exists r, In r (tab d e2) /\ r_pk r = r_pk r' /\ forall a, scalar sch e2 a = true -> col r' a = col r a.
Definition dfwd (e : nat) (z : Z) (d d' : db) : Prop :=
  forall e2 r, In r (tab d e2) -> (e2 = e /\ r_pk r = z) \/ exists r', In r' (tab d' e2) /\ r_pk r' = r_pk r.

Lemma rows_transfer : forall e z d d' ob, dback e z d d' -> dfwd e z d d' -> (o_ent ob <> e \/ o_pk ob <> Some z) -> obj_rows d ob -> obj_rows d' ob.
Proof.
  intros e z d d' ob B F N R NC. destruct (R NC) as [R1 R2]. split.
  - intros z2 r' P I E. destruct (B _ r' I) as [[X Y]|(r & I0 & P0 & C0)]. { exfalso. destruct N; congruence. }
    intros a v S NV. assert (E0 : r_pk r = z2) by congruence. destruct (R1 z2 r P I0 E0 a v S NV) as [X Y]. rewrite (C0 a S). split; auto.
  - intros SD z2 P. destruct (R2 SD z2 P) as (r & I & E). destruct (F _ r I) as [[X Y]|(r' & I' & P')]. { exfalso. destruct N; congruence. }
    exists r'. split; auto. congruence.
Qed.

(* the state after one statement for the object o (entity e, primary key z) *)
Lemma Cq_assemble : forall s s' o ob ob' e z d',
  Cq s -> get_obj s o = Some ob ->
  s_objs s' = s_objs (upd_obj s o (fun _ => ob')) -> s_db s' = d' -> s_committed s' = s_committed s ->
  o_ent ob = e -> o_ent ob' = e -> o_pk ob' = Some z -> (o_pk ob = Some z \/ o_pk ob = None) ->
  dbwf d' -> dback e z (s_db s) d' -> dfwd e z (s_db s) d' -> obj_shape ob' ->
  (forall e2 z2 o2, idx_get s' e2 O (VInt z2) = Some o2 -> (e2 = e /\ z2 = z /\ o2 = o) \/ ((e2 <> e \/ z2 <> z) /\ idx_get s e2 O (VInt z2) = Some o2)) ->
  (idx_get s' e O (VInt z) = Some o -> is_gone (o_st ob') = false /\ obj_rows d' ob') ->
  Cq s'.
Proof.
  intros s s' o ob ob' e z d' (A & B & C & D) G E1 E3 E4 EN EN' PK' PK W BK FW SH IX OWN. unfold Cq. rewrite E3, E4.
  assert (GO : forall o2, get_obj s' o2 = if Nat.eqb o o2 then Some ob' else get_obj s o2).
  { intros o2. rewrite (get_obj_fields _ _ o2 E1). rewrite get_upd_obj. destruct (Nat.eqb o o2) eqn:E; auto. apply Nat.eqb_eq in E. subst o2. rewrite G. reflexivity. }
  split; [exact W|]. split; [exact B|]. split.
  - intros o2 ob2 G2. rewrite GO in G2. destruct (Nat.eqb o o2). inversion G2; subst; exact SH. apply (C o2 ob2 G2).
  - intros e2 z2 o2 I. destruct (IX e2 z2 o2 I) as [(-> & -> & ->)|[N I0]].
    + destruct (OWN I) as [NG R]. exists ob'. rewrite GO, Nat.eqb_refl, E3. auto 10.
    + destruct (D e2 z2 o2 I0) as (ob2 & G2 & X1 & X2 & X3 & X4). assert (NE : o2 <> o).
      { intros ->. rewrite G in G2. inversion G2; subst ob2. destruct PK as [PK|PK]; destruct N as [N|N]; try congruence. }
      exists ob2. rewrite GO. destruct (Nat.eqb o o2) eqn:E. apply Nat.eqb_eq in E. congruence. rewrite E3. split; auto. split; auto. split; auto. split; auto.
      eapply rows_transfer; eauto. destruct N as [N|N]; [left|right]; congruence.
Qed.

Lemma nth_map_seq : forall A (f : nat -> A) n a d, (a < n)%nat -> nth a (map f (seq O n)) d = f a.
Proof. intros. rewrite (nth_indep _ d (f O)) by (rewrite map_length, seq_length; exact H). rewrite map_nth. rewrite seq_nth by exact H. reflexivity. Qed.

Lemma scalar_facts : forall e a, scalar sch e a = true -> attr_is_set sch e a = false /\ (a < nattrs sch e)%nat.
Proof.
  intros e a S. unfold scalar, attr_is_set in *. destruct (get_attr sch e a) as [at_|] eqn:G; [|discriminate]. split.
  destruct (a_kind at_); simpl in *; congruence. eapply get_attr_lt; eauto.
Qed.

Lemma val_to_db_notref : forall s v, notref v = true -> val_to_db s v = v.
Proof. intros s [] H; simpl in *; congruence. Qed.


Lemma apply_asg_app : forall a1 a2 cols, apply_asg cols (a1 ++ a2) = apply_asg (apply_asg cols a1) a2.
Proof. induction a1 as [|[a v] t IH]; intros a2 cols; simpl. reflexivity. apply IH. Qed.

Lemma existsb_eqb_notin : forall a l, ~ In a l -> existsb (Nat.eqb a) l = false.
Proof.
  intros a l N. destruct (existsb (Nat.eqb a) l) eqn:E; auto. apply existsb_exists in E. destruct E as (x & I & E). apply Nat.eqb_eq in E. subst x. contradiction.
Qed.
Lemma existsb_eqb_in : forall a l, In a l -> existsb (Nat.eqb a) l = true.
Proof. intros a l I. apply existsb_exists. exists a. split; auto. apply Nat.eqb_refl. Qed.

Lemma apply_asg_flat : forall (c : nat -> bool) (w : nat -> val) l cols a, NoDup l -> (a < length cols)%nat ->
  nth a (apply_asg cols (flat_map (fun x => if c x then [(x, w x)] else []) l)) VNone =
  if existsb (Nat.eqb a) l && c a then w a else nth a cols VNone.
Proof.
  induction l as [|x l IH]; intros cols a ND LT; simpl. reflexivity.
  inversion ND; subst. rewrite apply_asg_app. destruct (c x) eqn:CX; simpl.
  - rewrite IH by (auto; rewrite upd_nth_length; auto). destruct (Nat.eqb a x) eqn:E; simpl.
    + apply Nat.eqb_eq in E. subst x. rewrite CX. rewrite (existsb_eqb_notin a l H1). simpl. apply nth_upd_nth_same; auto.
    + apply Nat.eqb_neq in E. rewrite nth_upd_nth_other by auto. reflexivity.
  - rewrite IH by auto. destruct (Nat.eqb a x) eqn:E; simpl; auto. apply Nat.eqb_eq in E. subst x. rewrite CX, andb_false_r. reflexivity.
Qed.

Lemma aupd_spec : forall ob l acc, o_vals acc = o_vals ob ->
  let r := fold_left (fun acc a => if owbit ob a then match oval acc a with Some v => ob_put_dbval acc a (Some v) | None => acc end else acc) l acc in
  o_vals r = o_vals ob /\ o_wbits r = o_wbits acc /\ o_st r = o_st acc /\ o_ent r = o_ent acc /\ o_pk r = o_pk acc /\ o_seed r = o_seed acc /\
  length (o_dbvals r) = length (o_dbvals acc) /\
  (forall a v, odbval r a = Some v -> odbval acc a = Some v \/ (owbit ob a = true /\ oval ob a = Some v)) /\
  (forall a, ~ In a l -> odbval r a = odbval acc a) /\
  (forall a v, In a l -> (a < length (o_dbvals acc))%nat -> owbit ob a = true -> oval ob a = Some v -> odbval r a = Some v).
Proof.
  intros ob. induction l as [|x l IH]; intros acc EV; cbn [fold_left]. { cbv zeta. repeat split; auto. intros a v []. }
  set (acc1 := if owbit ob x then match oval acc x with Some v => ob_put_dbval acc x (Some v) | None => acc end else acc).
  assert (F1 : o_vals acc1 = o_vals acc /\ o_wbits acc1 = o_wbits acc /\ o_st acc1 = o_st acc /\ o_ent acc1 = o_ent acc /\ o_pk acc1 = o_pk acc /\ o_seed acc1 = o_seed acc /\
               length (o_dbvals acc1) = length (o_dbvals acc)).
  { unfold acc1. destruct (owbit ob x); [destruct (oval acc x)|]; cbn; rewrite ?upd_nth_length; auto 10. }
  destruct F1 as (V1 & W1 & S1 & E1 & P1 & D1 & L1).
  assert (DV : forall a, odbval acc1 a = if Nat.eqb x a && Nat.ltb x (length (o_dbvals acc)) && owbit ob x then (match oval ob x with Some v => Some v | None => odbval acc a end) else odbval acc a).
  { intros a. unfold acc1. destruct (owbit ob x). 2:{ rewrite andb_false_r. reflexivity. } rewrite andb_true_r.
    unfold oval at 1. rewrite EV. fold (oval ob x). destruct (oval ob x) as [v|].
    - unfold odbval. cbn. apply nth_upd_nth_cases.
    - destruct (Nat.eqb x a && Nat.ltb x (length (o_dbvals acc))); reflexivity. }
  specialize (IH acc1 (eq_trans V1 EV)). cbv zeta in IH. destruct IH as (A1 & A2 & A3 & A4 & A5 & A6 & A7 & A8 & A9 & A10). cbv zeta.
  split. exact A1. split. congruence. split. congruence. split. congruence. split. congruence. split. congruence. split. congruence. split; [|split].
  - intros a v H. destruct (A8 a v H) as [X|X]; auto. rewrite DV in X.
    destruct (Nat.eqb x a && Nat.ltb x (length (o_dbvals acc)) && owbit ob x) eqn:C; auto.
    apply andb_true_iff in C. destruct C as [C C3]. apply andb_true_iff in C. destruct C as [C1 C2]. apply Nat.eqb_eq in C1. subst a.
    destruct (oval ob x) as [v0|] eqn:OV; auto.
  - intros a N. rewrite A9 by (intro; apply N; right; assumption). rewrite DV. assert (Nat.eqb x a = false) by (apply Nat.eqb_neq; intro; apply N; left; assumption).
    rewrite H. reflexivity.
  - intros a v I LT WB OV. destruct (in_dec Nat.eq_dec a l) as [IL|NL]. apply A10; auto. congruence.
    destruct I as [->|I]; [|contradiction]. rewrite A9 by exact NL. rewrite DV, Nat.eqb_refl, WB, OV. apply Nat.ltb_lt in LT. rewrite LT. reflexivity.
Qed.

Definition Fo (r : out unit) : Prop := match r with Ok s1 _ => Cq s1 /\ s_dirty s1 = O | Err s1 _ => Cq s1 \/ s_dirty s1 <> O end.

Lemma flat_map_nil : forall A B (f : A -> list B) l, flat_map f l = [] -> forall x, In x l -> f x = [].
Proof. induction l as [|y l IH]; intros H x I; simpl in *. contradiction. apply app_eq_nil in H. destruct H as [H1 H2]. destruct I as [->|I]; auto. Qed.

Lemma dback_refl : forall e z d, dback e z d d. Proof. intros e z d e2 r I. right. exists r. auto. Qed.
Lemma dfwd_refl : forall e z d, dfwd e z d d. Proof. intros e z d e2 r I. right. exists r. auto. Qed.

(* UPDATE: the new status of the object, given what the row looks like afterwards *)
Lemma Cq_updated_state : forall s s1 o ob z d',
  Cq s -> Uq s -> Inv_shape sch s -> get_obj s o = Some ob -> o_st ob = SModified -> o_pk ob = Some z ->
  s_objs s1 = s_objs s -> s_idx s1 = s_idx s -> s_db s1 = d' -> s_committed s1 = s_committed s ->
  dbwf d' -> dback (o_ent ob) z (s_db s) d' -> dfwd (o_ent ob) z (s_db s) d' ->
  (forall a, scalar sch (o_ent ob) a = true -> owbit ob a = true -> oval ob a <> None) ->
  (forall r, In r (tab d' (o_ent ob)) -> r_pk r = z -> forall a v, scalar sch (o_ent ob) a = true -> notref v = true ->
     (owbit ob a = true -> oval ob a = Some v -> col r a = v) /\
     (owbit ob a = false -> exists r0, In r0 (tab (s_db s) (o_ent ob)) /\ r_pk r0 = z /\ col r a = col r0 a)) ->
  (o_seed ob = false -> exists r, In r (tab d' (o_ent ob)) /\ r_pk r = z) ->
  Cq (upd_obj s1 o (fun ob2 => ob_set_wbits (ob_set_st (after_update_vals sch ob2) SUpdated) (repeat false (nattrs sch (o_ent ob))))).
Proof.
  intros s s1 o ob z d' H U SHP G ST PK E1 E2 E3 E4 W BK FW NM ROW EX.
  pose proof H as (_ & _ & C & D).
  pose proof (aupd_spec ob (seq O (nattrs sch (o_ent ob))) ob eq_refl) as A. cbv zeta in A. fold (after_update_vals sch ob) in A.
  destruct A as (A1 & A2 & A3 & A4 & A5 & A6 & A7 & A8 & A9 & A10).
  set (ob' := ob_set_wbits (ob_set_st (after_update_vals sch ob) SUpdated) (repeat false (nattrs sch (o_ent ob)))).
  assert (IO : idx_get s (o_ent ob) O (VInt z) = Some o). { apply U; auto. rewrite ST. reflexivity. }
  destruct (D _ _ _ IO) as (ob0 & G0 & _ & _ & _ & R0). rewrite G in G0. inversion G0; subst ob0.
  assert (NC : status_eqb (o_st ob) SCreated = false) by (rewrite ST; reflexivity). destruct (R0 NC) as [R1 R2].
  destruct (C o ob G) as ((L1 & L2) & _ & _). pose proof (SHP o ob G) as LV.
  apply (Cq_assemble s _ o ob ob' (o_ent ob) z d'); [exact H|exact G| | | |reflexivity| | |left; exact PK|exact W|exact BK|exact FW| | |].
  - rewrite <- (get_obj_fields s s1 o E1) in G. unfold upd_obj at 1. rewrite G. cbn [put_obj set_objs s_objs]. rewrite E1.
    unfold upd_obj. rewrite (get_obj_fields s s1 o E1) in G. rewrite G. reflexivity.
  - rewrite upd_obj_db. exact E3.
  - unfold upd_obj. destruct (get_obj s1 o); cbn; exact E4.
  - unfold ob'. cbn. exact A4.
  - unfold ob'. cbn. congruence.
  - unfold obj_shape, ob', owbit, odbval. cbn. rewrite repeat_length, A1, A7. split. split; congruence. split. intros _ a. apply List.nth_repeat. discriminate.
  - intros e2 z2 o2 I. unfold idx_get in I. rewrite upd_obj_idx, E2 in I. fold (idx_get s e2 O (VInt z2)) in I.
    destruct (Nat.eq_dec e2 (o_ent ob)) as [->|NE]; [|right; auto]. destruct (Z.eq_dec z2 z) as [->|NZ]; [|right; auto].
    left. split; auto. split; auto. congruence.
  - intros _. split. reflexivity. intros _. split.
    + intros z2 r P I E. assert (Z2 : z2 = z) by (unfold ob' in P; cbn in P; congruence). rewrite Z2 in E.
      assert (I' : In r (tab d' (o_ent ob))) by (unfold ob' in I; cbn in I; rewrite A4 in I; exact I).
      intros a v S NV. assert (S' : scalar sch (o_ent ob) a = true) by (unfold ob' in S; cbn in S; rewrite A4 in S; exact S).
      destruct (ROW r I' E a v S' NV) as [RW1 RW2]. destruct (scalar_facts _ _ S') as [NS LT].
      assert (OLD : owbit ob a = false -> (odbval ob a = Some v -> col r a = v) /\ (oval ob a = Some v -> col r a = v)).
      { intros WB. destruct (RW2 WB) as (r0 & I0 & P0 & C0). destruct (R1 z r0 PK I0 P0 a v S' NV) as [X Y]. rewrite C0. auto. }
      split.
      * intros DV. assert (DV' : odbval (after_update_vals sch ob) a = Some v) by exact DV.
        destruct (owbit ob a) eqn:WB.
        -- destruct (oval ob a) as [v1|] eqn:OV. 2:{ exfalso. apply (NM a S' WB OV). }
           assert (X : odbval (after_update_vals sch ob) a = Some v1) by (apply A10; auto; [apply in_seq; lia | lia]).
           rewrite X in DV'. inversion DV'; subst. apply RW1; auto.
        -- destruct (OLD eq_refl) as [O1 O2]. destruct (A8 a v DV') as [X|[X _]]. apply O1; exact X. congruence.
      * intros _ OV. assert (OV' : oval ob a = Some v). { unfold oval in *. unfold ob' in OV. cbn in OV. rewrite A1 in OV. exact OV. }
        destruct (owbit ob a) eqn:WB. apply RW1; auto. destruct (OLD eq_refl) as [O1 O2]. apply O2; exact OV'.
    + intros SD z2 P. assert (z2 = z) by (unfold ob' in P; cbn in P; congruence). subst z2. unfold ob'. cbn. rewrite A4. apply EX. unfold ob' in SD. cbn in SD. congruence.
Qed.

Lemma Fo_save_updated : forall s o, Pk sch s -> s_dirty s = O -> Cq s -> Fo (save_updated sch s o).
Proof.
  intros s o PK D H. destruct (Uq_of_Pk s PK D) as [U SHP]. unfold save_updated.
  destruct (get_obj s o) as [ob|] eqn:G; [|left; exact H].
  destruct (negb (status_eqb (o_st ob) SModified)) eqn:SM. { left. apply Cq_mark_dirty. exact H. }
  apply negb_false_iff in SM. apply status_eqb_true in SM. cbv zeta.
  match goal with |- context [if existsb ?f ?l then _ else _] => destruct (existsb f l) eqn:MS end. { left; exact H. }
  assert (NM : forall a, scalar sch (o_ent ob) a = true -> owbit ob a = true -> oval ob a <> None).
  { intros a S WB OV. destruct (scalar_facts _ _ S) as [NS LT]. assert (X : existsb (fun a => negb (attr_is_set sch (o_ent ob) a) && owbit ob a && match oval ob a with None => true | Some _ => false end) (seq 0 (nattrs sch (o_ent ob))) = true).
    { apply existsb_exists. exists a. split. apply in_seq. lia. rewrite NS, WB, OV. reflexivity. } congruence. }
  pose proof H as (W & _).
  destruct (written_asg sch s ob) as [|p asg'] eqn:ASG.
  - (* nothing to write *)
    assert (NW : forall a, scalar sch (o_ent ob) a = true -> owbit ob a = false).
    { intros a S. destruct (scalar_facts _ _ S) as [NS LT]. unfold written_asg in ASG.
      pose proof (flat_map_nil _ _ _ _ ASG a) as X. cbv beta in X. rewrite NS in X. simpl in X. destruct (owbit ob a); auto. discriminate X. apply in_seq. lia. }
    destruct (o_pk ob) as [z|] eqn:P.
    + split. 2:{ rewrite upd_obj_dirty. exact D. }
      assert (IO : idx_get s (o_ent ob) O (VInt z) = Some o). { apply U; auto. rewrite SM. reflexivity. }
      pose proof H as (_ & _ & _ & DD). destruct (DD _ _ _ IO) as (ob0 & G0 & _ & _ & _ & R0). rewrite G in G0. inversion G0; subst ob0.
      assert (NC : status_eqb (o_st ob) SCreated = false) by (rewrite SM; reflexivity). destruct (R0 NC) as [R1 R2].
      apply (Cq_updated_state s s o ob z (s_db s)); auto using dback_refl, dfwd_refl.
      * intros r I E a v S NV. split. intros WB. rewrite (NW a S) in WB. discriminate. intros _. exists r. auto.
    + (* no primary key: no index entry names the object *)
      split. 2:{ rewrite upd_obj_dirty. exact D. }
      apply (Cq_upd_hidden s _ o _ H eq_refl (upd_obj_db _ _ _)). unfold upd_obj. destruct (get_obj s o); reflexivity.
      * intros ob0 G0 SH0. rewrite G in G0. inversion G0; subst ob0. destruct SH0 as ((L1 & L2) & _ & _). pose proof (SHP o ob G) as LV.
        pose proof (aupd_spec ob (seq O (nattrs sch (o_ent ob))) ob eq_refl) as A. cbv zeta in A. fold (after_update_vals sch ob) in A.
        destruct A as (A1 & A2 & A3 & A4 & A5 & A6 & A7 & _).
        unfold obj_shape, owbit, odbval. cbn. rewrite repeat_length, A1, A7. split. split; congruence. split. intros _ a. apply List.nth_repeat. discriminate.
      * intros e z o' I. unfold idx_get in I. rewrite upd_obj_idx in I. split. exact I. intros ->.
        pose proof H as (_ & _ & _ & DD). destruct (DD e z o I) as (ob0 & G0 & _ & P0 & _). rewrite G in G0. inversion G0; subst ob0. congruence.
  - destruct (o_pk ob) as [z|] eqn:P; [|left; exact H].
    destruct (db_update sch (s_db s) (o_ent ob) z (p :: asg')) as [[]|d'] eqn:DU; try (left; auto using Cq_mark_declined; fail).
    destruct (db_update_spec _ _ _ _ _ W DU) as (W' & r0 & I0 & P0 & UA & UB & UC).
    split. 2:{ rewrite upd_obj_dirty. exact D. }
    apply (Cq_updated_state s (set_db s d') o ob z d'); auto.
    + intros e2 r' I. destruct (UA e2 r' I) as [[I1 N1]|[-> ->]]. right. exists r'. auto. left. auto.
    + intros e2 r I. destruct (Nat.eq_dec e2 (o_ent ob)) as [->|NE]. destruct (Z.eq_dec (r_pk r) z) as [EZ|NZ]. left; auto.
      right. exists r. split; auto. right. exists r. split; auto.
    + intros r I E a v S NV. destruct (UA _ r I) as [[I1 N1]|[_ ->]]. { exfalso. apply N1; auto. }
      destruct (scalar_facts _ _ S) as [NS LT]. pose proof W as [_ RS]. pose proof (RS _ _ I0) as LR.
      assert (CA : col (mkRow z (apply_asg (r_cols r0) (p :: asg'))) a =
                   if owbit ob a then match oval ob a with Some v0 => val_to_db s v0 | None => VNone end else col r0 a).
      { unfold col. cbn [r_cols]. rewrite <- ASG. unfold written_asg.
        rewrite (apply_asg_flat (fun a => negb (attr_is_set sch (o_ent ob) a) && owbit ob a) (fun a => match oval ob a with Some v0 => val_to_db s v0 | None => VNone end)).
        rewrite existsb_eqb_in by (apply in_seq; lia). rewrite NS. reflexivity. apply seq_NoDup. lia. }
      rewrite CA. split.
      * intros WB OV. rewrite WB, OV. apply val_to_db_notref. exact NV.
      * intros WB. rewrite WB. exists r0. auto.
    + intros _. exists (mkRow z (apply_asg (r_cols r0) (p :: asg'))). split; auto.
Qed.

Lemma Fo_save_deleted : forall s o, Pk sch s -> s_dirty s = O -> Cq s -> Fo (save_deleted sch s o).
Proof.
  intros s o PK D H. unfold save_deleted. destruct (get_obj s o) as [ob|] eqn:G; [|left; exact H].
  destruct (negb (status_eqb (o_st ob) SMarked)) eqn:SM. { left. apply Cq_mark_dirty. exact H. }
  apply negb_false_iff in SM. apply status_eqb_true in SM.
  destruct (o_pk ob) as [z|] eqn:P; [|left; exact H]. pose proof H as (W & _).
  destruct (db_delete sch (s_db s) (o_ent ob) z) as [er|d'] eqn:DD; [left; apply Cq_mark_declined; exact H|].
  destruct (db_delete_spec _ _ _ _ W DD) as (W' & (RL & RB & RF)).
  split. 2:{ cbn [idx_del set_idx s_dirty]. rewrite upd_obj_dirty. exact D. }
  apply (Cq_assemble s _ o ob (ob_set_st ob SDeleted) (o_ent ob) z d'); [exact H|exact G| | | |reflexivity|reflexivity|exact P|left; exact P|exact W'| | | | |].
  - unfold idx_del, upd_obj. cbn [set_idx s_objs]. change (get_obj (set_db s d') o) with (get_obj s o). rewrite G. reflexivity.
  - cbn [idx_del set_idx s_db]. rewrite upd_obj_db. reflexivity.
  - unfold idx_del, upd_obj. change (get_obj (set_db s d') o) with (get_obj s o). rewrite G. reflexivity.
  - intros e2 r' I. right. destruct (RB e2 r' I) as (r & I0 & P0 & _ & C0). exists r. auto.
  - exact RF.
  - pose proof H as (_ & _ & C & _). destruct (C o ob G) as (L & _ & _). split. exact L. split; discriminate.
  - intros e2 z2 o2 I. destruct (ikey_dec (o_ent ob, O, VInt z) (e2, O, VInt z2)) as [X|X].
    + inversion X; subst. rewrite idx_get_del_same in I. discriminate.
    + rewrite idx_get_del_other in I by exact X. unfold idx_get in I. rewrite upd_obj_idx in I. right. split; auto.
      destruct (Nat.eq_dec e2 (o_ent ob)) as [->|NE]; auto. destruct (Z.eq_dec z2 z) as [->|NZ]; auto; try congruence.
  - intros I. rewrite idx_get_del_same in I. discriminate.
Qed.

Lemma ains_spec : forall e l acc,
  let r := fold_left (fun acc a => if attr_is_set sch e a then acc
                                   else match oval acc a with
                                        | Some VNone => ob_put_dbval (ob_put_val acc a None) a None
                                        | Some v => ob_put_dbval acc a (Some v)
                                        | None => acc end) l acc in
  o_wbits r = o_wbits acc /\ o_st r = o_st acc /\ o_ent r = o_ent acc /\ o_pk r = o_pk acc /\ o_seed r = o_seed acc /\
  length (o_vals r) = length (o_vals acc) /\ length (o_dbvals r) = length (o_dbvals acc) /\
  (forall a v, oval r a = Some v -> oval acc a = Some v) /\
  (forall a v, odbval r a = Some v -> odbval acc a = Some v \/ (oval acc a = Some v /\ attr_is_set sch e a = false)).
Proof.
  intros e. induction l as [|x l IH]; intros acc; cbn [fold_left]. { cbv zeta. repeat split; auto. }
  set (acc1 := if attr_is_set sch e x then acc else match oval acc x with
                                        | Some VNone => ob_put_dbval (ob_put_val acc x None) x None
                                        | Some v => ob_put_dbval acc x (Some v)
                                        | None => acc end).
  assert (F1 : o_wbits acc1 = o_wbits acc /\ o_st acc1 = o_st acc /\ o_ent acc1 = o_ent acc /\ o_pk acc1 = o_pk acc /\ o_seed acc1 = o_seed acc /\
               length (o_vals acc1) = length (o_vals acc) /\ length (o_dbvals acc1) = length (o_dbvals acc) /\
               (forall a v, oval acc1 a = Some v -> oval acc a = Some v) /\
               (forall a v, odbval acc1 a = Some v -> odbval acc a = Some v \/ (oval acc a = Some v /\ attr_is_set sch e a = false))).
  { unfold acc1. destruct (attr_is_set sch e x) eqn:AS. { repeat split; auto. }
    destruct (oval acc x) as [[| | |]|] eqn:OV; unfold oval, odbval; cbn; rewrite ?upd_nth_length; repeat split; auto; intros a v; rewrite ?nth_upd_nth_cases;
      try (destruct (Nat.eqb x a && Nat.ltb x (length (o_vals acc))); [discriminate|auto]; fail);
      try (destruct (Nat.eqb x a && Nat.ltb x (length (o_dbvals acc))); [discriminate|auto]; fail);
      try (destruct (Nat.eqb x a && Nat.ltb x (length (o_dbvals acc))) eqn:C; [|auto]; intros X; inversion X; subst; try discriminate;
           apply andb_true_iff in C; destruct C as [C _]; apply Nat.eqb_eq in C; subst a; right; split; [exact OV|exact AS]). }
  destruct F1 as (W1 & S1 & E1 & P1 & D1 & LV1 & LD1 & OV1 & DV1).
  specialize (IH acc1). cbv zeta in IH. destruct IH as (A1 & A2 & A3 & A4 & A5 & A6 & A7 & A8 & A9). cbv zeta.
  split. congruence. split. congruence. split. congruence. split. congruence. split. congruence. split. congruence. split. congruence. split.
  - intros a v X. apply OV1. apply A8. exact X.
  - intros a v X. destruct (A9 a v X) as [Y|[Y Z]]. apply DV1. exact Y. right. split; auto.
Qed.

Lemma row_of_obj_length : forall s ob, length (row_of_obj sch s ob) = nattrs sch (o_ent ob).
Proof. intros. unfold row_of_obj. rewrite map_length, seq_length. reflexivity. Qed.

Lemma row_of_obj_col : forall s ob a v, scalar sch (o_ent ob) a = true -> notref v = true -> oval ob a = Some v -> nth a (row_of_obj sch s ob) VNone = v.
Proof.
  intros s ob a v S NV OV. destruct (scalar_facts _ _ S) as [NS LT]. unfold row_of_obj. rewrite nth_map_seq by exact LT. rewrite NS, OV. apply val_to_db_notref. exact NV.
Qed.

(* INSERT: the new state of the object *)
Lemma Cq_inserted_state : forall s s2 o ob d' newpk,
  Cq s -> Inv_shape sch s -> get_obj s o = Some ob -> o_st ob = SCreated ->
  db_insert sch (s_db s) (o_ent ob) (o_pk ob) (row_of_obj sch s ob) = inr (d', newpk) ->
  s_objs s2 = s_objs s -> s_db s2 = d' -> s_committed s2 = s_committed s ->
  (forall e2 z2 o2, idx_get s2 e2 O (VInt z2) = Some o2 -> (e2 = o_ent ob /\ z2 = newpk /\ o2 = o) \/ ((e2 <> o_ent ob \/ z2 <> newpk) /\ idx_get s e2 O (VInt z2) = Some o2)) ->
  Cq (upd_obj s2 o (fun ob2 => after_insert_vals sch (ob_set_wbits (ob_set_st (ob_set_pk ob2 (Some newpk)) SInserted) (repeat false (nattrs sch (o_ent ob)))))).
Proof.
  intros s s2 o ob d' newpk H SHP G ST DI E1 E3 E4 IX. pose proof H as (W & _ & C & _).
  destruct (db_insert_spec _ _ _ _ _ _ W (row_of_obj_length s ob) DI) as (W' & IA & IB & IC).
  set (ob0 := ob_set_wbits (ob_set_st (ob_set_pk ob (Some newpk)) SInserted) (repeat false (nattrs sch (o_ent ob)))).
  pose proof (ains_spec (o_ent ob0) (seq O (nattrs sch (o_ent ob0))) ob0) as A. cbv zeta in A. fold (after_insert_vals sch ob0) in A.
  destruct A as (A1 & A2 & A3 & A4 & A5 & A6 & A7 & A8 & A9).
  destruct (C o ob G) as ((L1 & L2) & _ & CR). pose proof (SHP o ob G) as LV. specialize (CR ST).
  apply (Cq_assemble s _ o ob (after_insert_vals sch ob0) (o_ent ob) newpk d'); [exact H|exact G| | | |reflexivity| | | |exact W'| | | |  |].
  - rewrite <- (get_obj_fields s s2 o E1) in G. unfold upd_obj at 1. rewrite G. cbn [put_obj set_objs s_objs]. rewrite E1.
    unfold upd_obj. rewrite (get_obj_fields s s2 o E1) in G. rewrite G. reflexivity.
  - rewrite upd_obj_db. exact E3.
  - unfold upd_obj. destruct (get_obj s2 o); cbn; exact E4.
  - rewrite A3. reflexivity.
  - rewrite A4. reflexivity.
  - destruct (o_pk ob) as [z0|]; auto. left. congruence.
  - intros e2 r' I. apply IB in I. destruct I as [I|[-> ->]]. right. exists r'. auto. left. auto.
  - intros e2 r I. right. exists r. split; auto. apply IB. auto.
  - unfold obj_shape, owbit, odbval. rewrite A1, A2, A6, A7. unfold ob0. cbn. rewrite repeat_length. split. split; congruence. split. intros _ a. apply List.nth_repeat. discriminate.
  - intros e2 z2 o2 I. apply IX. unfold idx_get in *. rewrite upd_obj_idx in I. exact I.
  - intros _. split. rewrite A2. reflexivity. intros _. split.
    + intros z2 r P I E. rewrite A4 in P. unfold ob0 in P. cbn in P. assert (Z2 : z2 = newpk) by congruence. rewrite Z2 in E. rewrite A3 in I. unfold ob0 in I. cbn in I.
      apply IB in I. destruct I as [I|[_ ->]]. { exfalso. apply (IA r I). exact E. }
      intros a v S NV. rewrite A3 in S. unfold ob0 in S. cbn in S. unfold col. cbn [r_cols]. split.
      * intros DV. destruct (A9 a v DV) as [X|[X _]]. unfold ob0, odbval in X. cbn in X. fold (odbval ob a) in X. rewrite CR in X. discriminate.
        apply row_of_obj_col; auto.
      * intros _ OV. apply row_of_obj_col; auto. apply (A8 a v OV).
    + intros _ z2 P. rewrite A4 in P. unfold ob0 in P. cbn in P. inversion P; subst z2. rewrite A3. unfold ob0. cbn.
      exists (mkRow newpk (row_of_obj sch s ob)). split; auto. apply IB. auto.
Qed.

Lemma Fo_save_created : forall s o, Pk sch s -> s_dirty s = O -> Cq s -> Fo (save_created sch s o).
Proof.
  intros s o PK D H. destruct (Uq_of_Pk s PK D) as [U SHP]. unfold save_created.
  destruct (get_obj s o) as [ob|] eqn:G; [|left; exact H].
  destruct (negb (status_eqb (o_st ob) SCreated)) eqn:SM. { left. apply Cq_mark_dirty. exact H. }
  apply negb_false_iff in SM. apply status_eqb_true in SM. cbv zeta.
  destruct (db_insert sch (s_db s) (o_ent ob) (o_pk ob) (row_of_obj sch s ob)) as [[]|[d' newpk]] eqn:DI; try (left; exact H).
  pose proof H as (W & _). destruct (db_insert_spec _ _ _ _ _ _ W (row_of_obj_length s ob) DI) as (_ & _ & _ & IC).
  assert (IXS : forall o1, idx_get s (o_ent ob) O (VInt newpk) = Some o1 -> o1 = o ->
     forall e2 z2 o2, idx_get (set_db s d') e2 O (VInt z2) = Some o2 -> (e2 = o_ent ob /\ z2 = newpk /\ o2 = o) \/ ((e2 <> o_ent ob \/ z2 <> newpk) /\ idx_get s e2 O (VInt z2) = Some o2)).
  { intros o1 I1 -> e2 z2 o2 I. change (idx_get s e2 0 (VInt z2) = Some o2) in I.
    destruct (Nat.eq_dec e2 (o_ent ob)) as [->|NE]; [|right; auto]. destruct (Z.eq_dec z2 newpk) as [->|NZ]; [|right; auto]. left. split; auto. split; auto. congruence. }
  destruct (o_pk ob) as [z0|] eqn:P.
  - subst newpk. split. 2:{ rewrite upd_obj_dirty. exact D. }
    apply (Cq_inserted_state s (set_db s d') o ob d' z0); auto. rewrite P. exact DI.
    apply (IXS o); auto. rewrite <- P in *. apply U; auto. rewrite SM. reflexivity.
  - destruct (idx_get (set_db s d') (o_ent ob) O (VInt newpk)) as [o2|] eqn:I2.
    + destruct (Nat.eqb o2 o) eqn:EO.
      * apply Nat.eqb_eq in EO. subst o2. split. 2:{ rewrite upd_obj_dirty. exact D. }
        apply (Cq_inserted_state s (set_db s d') o ob d' newpk); auto. rewrite P. exact DI. apply (IXS o); auto.
      * right. cbn. rewrite D. discriminate.
    + split. 2:{ rewrite upd_obj_dirty. exact D. }
      apply (Cq_inserted_state s (idx_put (set_db s d') (o_ent ob) O (VInt newpk) o) o ob d' newpk); auto. rewrite P. exact DI.
      intros e2 z2 o3 I. destruct (ikey_dec (o_ent ob, O, VInt newpk) (e2, O, VInt z2)) as [X|X].
      * inversion X; subst. rewrite idx_get_put_same in I. inversion I; subst. left. auto.
      * rewrite idx_get_put_other in I by exact X. right. split; auto.
        destruct (Nat.eq_dec e2 (o_ent ob)) as [->|NE]; auto. destruct (Z.eq_dec z2 newpk) as [->|NZ]; auto; try congruence.
Qed.

Lemma Fo_save_principals : forall (rec : sess -> oid -> out unit) ob l s0,
  (forall s1 p, Pk sch s1 -> s_dirty s1 = O -> Cq s1 -> Fo (rec s1 p)) -> (forall s1 p, Pk sch s1 -> Pk sch (out_state (rec s1 p))) ->
  Pk sch s0 -> s_dirty s0 = O -> Cq s0 -> Fo (save_principals rec ob s0 l).
Proof.
  induction l as [|a t IH]; intros s0 R1 R2 PK D H; simpl. split; auto.
  destruct (oval ob a) as [[| | |p]|]; try (apply IH; auto; fail).
  destruct (status_eqb (obj_st s0 p) SCreated); [|apply IH; auto].
  pose proof (R1 s0 p PK D H) as F. pose proof (R2 s0 p PK) as P1. destruct (rec s0 p) as [s1 u|s1 er]; [|exact F].
  destruct F as [C1 D1]. apply IH; auto.
Qed.

Lemma Fo_save_obj : forall fuel s o deps, Pk sch s -> s_dirty s = O -> Cq s -> Fo (save_obj fuel sch s o deps).
Proof.
  induction fuel as [|f IH]; intros s o deps PK D H; simpl. left; exact H.
  destruct (get_obj s o) as [ob|] eqn:G; [|left; exact H].
  match goal with |- Fo (match ?r0 with _ => _ end) => assert (J : Fo r0 /\ Pk sch (out_state r0)); [|destruct r0 as [s1 u1|s1 er]; [|exact (proj1 J)]] end.
  { destruct (status_eqb (o_st ob) SCreated || status_eqb (o_st ob) SModified). 2:{ split. split; auto. exact PK. }
    destruct (mem_nat o deps). split. left; exact H. exact PK. split.
    apply Fo_save_principals; auto. intros. apply Pk_save_obj; auto. apply Pk_save_principals; auto. intros. apply Pk_save_obj; auto. }
  destruct J as [[C1 D1] P1]. cbn [out_state] in P1.
  match goal with |- Fo (match ?r1 with _ => _ end) => assert (J : Fo r1); [|destruct r1 as [s2 u2|s2 er]; [|exact J]] end.
  { destruct (o_st ob); try (left; exact C1). apply Fo_save_created; auto. apply Fo_save_updated; auto. apply Fo_save_deleted; auto. }
  destruct J as [C2 D2]. split. cqauto. cbn [set_savedpend s_dirty]. rewrite upd_obj_dirty.
  destruct (match get_obj s2 o with Some ob2 => o_pos ob2 | None => None end); exact D2.
Qed.

Lemma Fo_flush_loop : forall l s, Pk sch s -> s_dirty s = O -> Cq s -> Fo (flush_loop sch s l).
Proof.
  induction l as [|i t IH]; intros s PK D H; cbn [flush_loop]. split; auto.
  destruct (nth i (s_tosave s) None) as [o|]; [|apply IH; auto].
  pose proof (Fo_save_obj (S (length (s_objs s))) s o [] PK D H) as F. pose proof (Pk_save_obj sch (S (length (s_objs s))) s o [] PK) as P1.
  destruct (save_obj (S (length (s_objs s))) sch s o []) as [s1 u|s1 er]; [|exact F]. destruct F as [C1 D1]. apply IH; auto.
Qed.

Lemma Cq_calc_modcoll : forall (s : sess), Cq s -> Cq (calc_modcoll s).
Proof. intros. unfold calc_modcoll. cqauto. Qed.

Lemma calc_modcoll_dirty : forall s, s_dirty (calc_modcoll s) = s_dirty s.
Proof.
  intros s. unfold calc_modcoll. cbn [set_modcoll s_dirty]. generalize (s_modcoll s). intros l. revert s. induction l as [|p l IH]; intros s; simpl. reflexivity.
  rewrite IH. apply upd_obj_dirty.
Qed.

Lemma Fo_flush : forall s, Pk sch s -> s_dirty s = O -> Cq s -> Fo (flush sch s).
Proof.
  intros s PK D H. unfold flush. destruct (s_savedpend s). left; exact H. destruct (negb (s_modified s)). split; auto.
  match goal with |- context [if ?c then _ else _] => destruct c end. left. apply Cq_mark_declined. exact H.
  cbv zeta. assert (P0 : Pk sch (calc_modcoll s)) by (eapply kframe_Pk; eauto; apply kframe_calc_modcoll).
  pose proof (Fo_flush_loop (seq O (length (s_tosave (calc_modcoll s)))) (calc_modcoll s) P0 (eq_trans (calc_modcoll_dirty s) D) (Cq_calc_modcoll s H)) as F.
  destruct (flush_loop sch (calc_modcoll s) (seq 0 (length (s_tosave (calc_modcoll s))))) as [s2 u|s2 er]; [|exact F].
  destruct F as [C2 D2]. split. cqauto. exact D2.
Qed.

Lemma Fo_auto_flush : forall s, Pk sch s -> s_dirty s = O -> Cq s -> Fo (auto_flush sch s).
Proof. intros s PK D H. unfold auto_flush. destruct (s_modified s). apply Fo_flush; auto. split; auto. Qed.

(* ---------------------------------------------------------------- the operations that flush first *)

Definition Go (r : sess * res) : Prop := Cq (fst r) \/ s_dirty (fst r) <> O.

Ltac prelude := repeat match goal with |- context [match ?y with _ => _ end] => lazymatch y with auto_flush _ _ => fail | _ => destruct y eqn:? end end.
Ltac finish_cq := left; match goal with |- Cq (fst ?b) => change (Cqp b) end; cqauto.
Ltac after_flush s0 F :=
  first [ solve [finish_cq]
        | destruct (auto_flush sch s0) as [?s1 ?u|?s1 ?er] eqn:?AF; cbn [Fo] in F;
          [ let C1 := fresh "C1" in let D1 := fresh "D1" in destruct F as [C1 D1]; finish_cq | exact F ] ].

Lemma Go_read_op : forall s h a, Pk sch s -> s_dirty s = O -> Cq s -> Go (read_op sch s h a).
Proof.
  intros s h a PK D H. pose proof (Fo_auto_flush s PK D H) as F. unfold Go, read_op. prelude; after_flush s F.
Qed.

Lemma Cq_load_row_found : forall s e z r, find_row (tab (s_db s) e) z = Some r -> Cq s -> Cqo (load_row sch s e r).
Proof. intros s e z r F H. apply Cq_load_row; auto. apply (find_row_some _ _ _ F). Qed.
Hint Extern 2 (Cqo (load_row _ ?s ?e ?r)) => match goal with F : find_row (tab (s_db s) e) _ = Some r |- _ => apply (Cq_load_row_found _ _ _ _ F) end : cq.

Lemma Go_contains_op : forall s h a h2, Pk sch s -> s_dirty s = O -> Cq s -> Go (contains_op sch s h a h2).
Proof. intros s h a h2 PK D H. pose proof (Fo_auto_flush s PK D H) as F. unfold Go, contains_op, with_set_attr. prelude; after_flush s F. Qed.
Lemma Go_getpk_op : forall s e v, Pk sch s -> s_dirty s = O -> Cq s -> Go (getpk_op sch s e v).
Proof. intros s e v PK D H. pose proof (Fo_auto_flush s PK D H) as F. unfold Go, getpk_op. prelude; after_flush s F. Qed.
Lemma Go_getby_op : forall s e a v, Pk sch s -> s_dirty s = O -> Cq s -> Go (getby_op sch s e a v).
Proof. intros s e a v PK D H. pose proof (Fo_auto_flush s PK D H) as F. unfold Go, getby_op. prelude; after_flush s F. Qed.
Lemma Go_select_op : forall s e a v, Pk sch s -> s_dirty s = O -> Cq s -> Go (select_op sch s e a v).
Proof. intros s e a v PK D H. pose proof (Fo_auto_flush s PK D H) as F. unfold Go, select_op. prelude; after_flush s F. Qed.
Lemma Go_selectall_op : forall s e, Pk sch s -> s_dirty s = O -> Cq s -> Go (selectall_op sch s e).
Proof. intros s e PK D H. pose proof (Fo_auto_flush s PK D H) as F. unfold Go, selectall_op. prelude; after_flush s F. Qed.

Lemma Go_isempty_op : forall s h a, Pk sch s -> s_dirty s = O -> Cq s -> Go (isempty_op sch s h a).
Proof.
  intros s h a PK D H. unfold Go, isempty_op, with_set_attr.
  destruct (hget s h) as [o|]; [|left; exact H]. destruct (get_attr sch (obj_ent s o) a) as [at_|]; [|left; exact H].
  destruct (a_kind at_); try (left; exact H). destruct (is_del (obj_st s o)); [left; exact H|].
  assert (P0 : Pk sch (coll_ensure s o a)) by (eapply kframe_Pk; [apply kframe_coll_ensure|exact PK]).
  assert (D0 : s_dirty (coll_ensure s o a) = O) by (unfold coll_ensure; rewrite upd_obj_dirty; exact D).
  pose proof (Fo_auto_flush _ P0 D0 (Cq_coll_ensure s o a H)) as F. cbv zeta. prelude; after_flush (coll_ensure s o a) F.
Qed.

Lemma Go_lift_unit : forall r, Fo r -> Go (lift_unit r).
Proof. intros [s u|s e] F; unfold Go, lift_unit; cbn [fst]. left. apply F. exact F. Qed.

Lemma Go_flushobj_op : forall s h, Pk sch s -> s_dirty s = O -> Cq s -> Go (flushobj_op sch s h).
Proof.
  intros s h PK D H. unfold Go, flushobj_op. destruct (hget s h) as [o|]; [|left; exact H]. destruct (get_obj s o) as [ob|]; [|left; exact H].
  assert (K : Cq (fst (flushobj_go sch s o ob)) \/ s_dirty (fst (flushobj_go sch s o ob)) <> O).
  { unfold flushobj_go. destruct (o_pos ob); [|left; exact H]. destruct (s_savedpend s); [left; exact H|].
    pose proof (Fo_save_obj (S (length (s_objs s))) s o [] PK D H) as F. destruct (save_obj (S (length (s_objs s))) sch s o []) as [s1 u|s1 er]; cbn [fst].
    left. apply Cq_set_savedpend. apply F. exact F. }
  destruct (o_st ob); try exact K; try (left; exact H).
  match goal with |- context [if ?c then _ else _] => destruct c end; [left; apply Cq_mark_declined; exact H|exact K].
Qed.

Lemma Cq_reset : forall d, dbwf d -> Cq (reset_sess d).
Proof.
  intros d W. split; [exact W|]. split; [exact W|]. split.
  - intros o ob G. unfold get_obj, reset_sess in G. cbn [s_objs] in G. destruct o; discriminate.
  - intros e z o I. discriminate.
Qed.

Lemma Cq_commit : forall s, Cq s -> Cq (set_committed s (s_db s)).
Proof. intros s (A & B & C & D). split; [exact A|]. split; [exact A|]. split; [exact C|exact D]. Qed.

(* ---------------------------------------------------------------- both databases are well shaped in every history *)
Definition Qw (d c : db) (_ : nat) : Prop := dbwf d /\ dbwf c.

Lemma Qw_generic : (forall s, Pd Qw s -> Pd Qw (out_state (flush sch s))) /\ (forall s op, is_txn_op op = false -> Pd Qw s -> Pd Qw (fst (step sch s op))) /\
  (forall s0 s1, Pd Qw s1 -> Pd Qw (keep_declined s0 s1)).
Proof.
  apply (Pd_generic sch Qw).
  - intros d c n e pk cols d' pk' [A B] L I. split; [|exact B]. apply (db_insert_spec _ _ _ _ _ _ A L I).
  - intros d c n e pk asg d' [A B] I. split; [|exact B]. apply (db_update_spec _ _ _ _ _ A I).
  - intros d c n e pk d' [A B] I. split; [|exact B]. apply (db_delete_spec _ _ _ _ A I).
  - intros d c n site H. exact H.
Qed.

Lemma Qw_step : forall s op, Pd Qw s -> Pd Qw (fst (step sch s op)).
Proof.
  intros s op H. destruct Qw_generic as (F & S & K). destruct (is_txn_op op) eqn:T; [|apply S; assumption].
  unfold step. destruct (s_declined s). exact H.
  destruct op; try discriminate T.
  - unfold commit_op. pose proof (F s H) as G. destruct (flush sch s) as [s1 u|s1 er]; cbn [fst].
    + split; apply G.
    + apply K. split; apply G.
  - unfold rollback_op. cbn [fst]. apply K. split; apply H.
  - unfold newsession_op. pose proof (F s H) as G. destruct (flush sch s) as [s1 u|s1 er]; cbn [fst]; apply K; split; apply G.
Qed.

Lemma Qw_run : forall ops, Pd Qw (run sch ops).
Proof.
  intros ops. unfold run. assert (I : Pd Qw (init_sess sch)) by (split; apply dbwf_init). revert I. generalize (init_sess sch).
  induction ops as [|op t IH]; intros s P; simpl. exact P. apply IH. apply Qw_step. exact P.
Qed.

(* ---------------------------------------------------------------- all histories *)
Hypothesis WF : wf_schema sch = true.

Definition CQ (s : sess) : Prop := s_dirty s <> O \/ Cq s.

Lemma CQ_step : forall s op, Pk sch s -> Pd Qw s -> CQ s -> CQ (fst (step sch s op)).
Proof.
  intros s op PK W H. destruct (dirty_sticky sch) as [DF DS]. destruct Qw_generic as (WFl & _ & _).
  assert (RS : forall s0 d, dbwf d -> CQ (keep_declined s0 (reset_sess d))).
  { intros s0 d X. right. apply Cq_keep_declined. apply Cq_reset. exact X. }
  destruct (Nat.eq_dec (s_dirty s) O) as [D|D].
  2:{ destruct (is_txn_op op) eqn:T; [|left; apply DS; auto].
      unfold step. destruct (s_declined s). left; exact D. destruct op; try discriminate T.
      - unfold commit_op. pose proof (DF s D) as X. pose proof (WFl s W) as G. destruct (flush sch s) as [s1 u|s1 er]; cbn [fst out_state] in *.
        left. exact X. apply RS. apply G.
      - unfold rollback_op. cbn [fst]. apply RS. apply W.
      - unfold newsession_op. pose proof (WFl s W) as G. destruct (flush sch s) as [s1 u|s1 er]; cbn [fst out_state] in *; apply RS; apply G. }
  destruct H as [X|H]; [contradiction|].
  assert (GO : forall r, Go r -> CQ (fst r)) by (intros r [X|X]; [right|left]; exact X).
  unfold step. destruct (s_declined s). right; exact H.
  destruct op.
  - right. apply Cq_new_op. exact H.
  - right. apply Cq_set_op. exact H.
  - right. apply Cq_setmany_op. exact H.
  - right. apply Cq_delete_op. exact H.
  - right. apply Cq_coll_op. exact H.
  - right. apply Cq_coll_op. exact H.
  - right. apply Cq_coll_op. exact H.
  - apply GO. apply Go_read_op; auto.
  - right. apply Cq_pk_op. exact H.
  - right. apply Cq_count_op. exact H.
  - apply GO. apply Go_isempty_op; auto.
  - apply GO. apply Go_contains_op; auto.
  - apply GO. apply Go_getpk_op; auto.
  - apply GO. apply Go_getby_op; auto.
  - apply GO. apply Go_select_op; auto.
  - apply GO. apply Go_selectall_op; auto.
  - apply GO. unfold flush_op. apply Go_lift_unit. apply Fo_flush; auto.
  - unfold commit_op. pose proof (Fo_flush s PK D H) as F. pose proof (WFl s W) as G. destruct (flush sch s) as [s1 u|s1 er]; cbn [fst out_state] in *.
    right. apply Cq_commit. apply F. apply RS. apply G.
  - unfold rollback_op. cbn [fst]. apply RS. apply W.
  - unfold newsession_op. pose proof (WFl s W) as G. destruct (flush sch s) as [s1 u|s1 er]; cbn [fst out_state] in *; apply RS; apply G.
  - apply GO. apply Go_flushobj_op; auto.
Qed.

Lemma CQ_run : forall ops, CQ (run sch ops).
Proof.
  intros ops. unfold run.
  assert (I : Pk sch (init_sess sch) /\ Pd Qw (init_sess sch) /\ CQ (init_sess sch)).
  { split. apply Pk_init; auto. split. split; apply dbwf_init. right. unfold init_sess. apply (Cq_reset (db_init sch)). apply dbwf_init. }
  revert I. generalize (init_sess sch). induction ops as [|op t IH]; intros s (P & W & C); simpl. exact C.
  apply IH. split. apply Pk_step; auto. split. apply Qw_step; auto. apply CQ_step; auto.
Qed.

(* cache / database coherence holds in every clean history *)
Theorem coherence_all_histories : forall ops, s_dirty (run sch ops) = O -> Cq (run sch ops).
Proof. intros ops D. destruct (CQ_run ops) as [X|X]. contradiction. exact X. Qed.

(* ---------------------------------------------------------------- what the invariant says to the program *)

(* C09: after a successful commit the committed row of an object holds exactly the object's scalar values *)
Theorem committed_scalars : forall ops s',
  s_dirty (run sch ops) = O -> step sch (run sch ops) OCommit = (s', ROk) ->
  forall o ob z, get_obj s' o = Some ob -> o_pk ob = Some z -> settled (o_st ob) = true -> o_seed ob = false ->
  exists r, In r (tab (s_committed s') (o_ent ob)) /\ r_pk r = z /\
            forall a v, scalar sch (o_ent ob) a = true -> notref v = true -> oval ob a = Some v -> col r a = v.
Proof.
  intros ops s' D ST o ob z G P SE SD.
  pose proof (coherence_all_histories ops D) as H. pose proof (Pk_run sch WF ops) as PK.
  unfold step in ST. destruct (s_declined (run sch ops)); [discriminate|]. unfold commit_op in ST.
  pose proof (Fo_flush _ PK D H) as F. pose proof (Pk_flush sch _ PK) as P1.
  destruct (flush sch (run sch ops)) as [s1 u|s1 er]; [|inversion ST].
  inversion ST; subst s'. clear ST. destruct F as [C1 D1]. cbn [out_state] in P1.
  destruct (Uq_of_Pk s1 P1 D1) as [U _]. change (get_obj s1 o = Some ob) in G.
  assert (NG : is_gone (o_st ob) = false) by (destruct (o_st ob); try discriminate SE; reflexivity).
  pose proof (U o ob z G P NG) as I. destruct C1 as (_ & _ & C & DD). destruct (DD _ _ _ I) as (ob0 & G0 & _ & _ & _ & R). rewrite G in G0. inversion G0; subst ob0.
  assert (NC : status_eqb (o_st ob) SCreated = false) by (destruct (o_st ob); try discriminate SE; reflexivity).
  destruct (R NC) as [R1 R2]. destruct (R2 SD z P) as (r & IR & PR). exists r. cbn [set_committed s_committed]. split; auto. split; auto.
  intros a v S NV OV. destruct (R1 z r P IR PR a v S NV) as [_ Y]. apply Y; auto. destruct (C o ob G) as (_ & SS & _). apply SS. exact SE.
Qed.

Lemma not_pending_settled : forall st, pending st = false -> is_del st = false -> settled st = true.
Proof. intros []; simpl; intros; try discriminate; reflexivity. Qed.

(* ... and when the transaction had anything to save, that covers every object the program did not delete *)
Theorem committed_scalars_every_live_object : forall ops s',
  s_dirty (run sch ops) = O -> s_modified (run sch ops) = true -> step sch (run sch ops) OCommit = (s', ROk) ->
  forall o ob z, get_obj s' o = Some ob -> o_pk ob = Some z -> is_del (o_st ob) = false -> o_seed ob = false ->
  exists r, In r (tab (s_committed s') (o_ent ob)) /\ r_pk r = z /\
            forall a v, scalar sch (o_ent ob) a = true -> notref v = true -> oval ob a = Some v -> col r a = v.
Proof.
  intros ops s' D M ST o ob z G P ND SD. apply (committed_scalars ops s' D ST o ob z G P); auto.
  apply not_pending_settled; auto.
  unfold step in ST. destruct (s_declined (run sch ops)); [discriminate|]. unfold commit_op in ST.
  destruct (flush sch (run sch ops)) as [s1 u|s1 er] eqn:F; [|inversion ST]. inversion ST; subst s'.
  apply (flush_completes_all_histories sch WF ops s1 u D F M o ob). exact G.
Qed.

(* C10: a scalar attribute that is loaded reads as its cached value, and unless the program wrote it in this transaction that value is
   the one in the object's row of the transaction's database; the remembered database value (dbvals) is the row's value too *)
Theorem scalar_read_is_database_value : forall ops h a o ob z v,
  s_dirty (run sch ops) = O -> hget (run sch ops) h = Some o -> get_obj (run sch ops) o = Some ob ->
  status_eqb (o_st ob) SCreated = false -> is_gone (o_st ob) = false -> o_pk ob = Some z ->
  scalar sch (o_ent ob) a = true -> oval ob a = Some v -> notref v = true ->
  snd (read_op sch (run sch ops) h a) = RVal v /\
  (forall r, In r (tab (s_db (run sch ops)) (o_ent ob)) -> r_pk r = z ->
      (owbit ob a = false -> col r a = v) /\ (forall w, odbval ob a = Some w -> notref w = true -> col r a = w)) /\
  (o_seed ob = false -> exists r, In r (tab (s_db (run sch ops)) (o_ent ob)) /\ r_pk r = z).
Proof.
  intros ops h a o ob z v D HG G NC NG P S OV NV.
  pose proof (coherence_all_histories ops D) as H. pose proof (Pk_run sch WF ops) as PK.
  destruct (Uq_of_Pk _ PK D) as [U _]. pose proof (U o ob z G P NG) as I.
  destruct H as (_ & _ & C & DD). destruct (DD _ _ _ I) as (ob0 & G0 & _ & _ & _ & R). rewrite G in G0. inversion G0; subst ob0.
  destruct (R NC) as [R1 R2]. split; [|split].
  - unfold read_op. rewrite HG. unfold obj_ent, obj_st, obj_val. rewrite G. unfold scalar in S.
    destruct (get_attr sch (o_ent ob) a) as [at_|]; [|discriminate]. destruct (a_kind at_) eqn:K; try discriminate S; rewrite NG; cbv zeta; rewrite OV;
      destruct v; try discriminate NV; reflexivity.
  - intros r IR PR. split. intros WB. destruct (R1 z r P IR PR a v S NV) as [_ Y]. apply Y; auto.
    intros w DW NW. destruct (R1 z r P IR PR a w S NW) as [X _]. apply X; auto.
  - intros SD. apply R2; auto.
Qed.
End WithSchemaCq.
