(* C03 - sanity of the code-generation model: running the compiled stream (Model/C03Decomp.v, exec) gives the meaning of the
   source expression (eval), for every expression without conditional expressions, at every modelled position. *)
From Coq Require Import List Bool Arith Lia.
Import ListNotations.
Require Import PonyV.Model.C03Bexp PonyV.Model.C03Decomp PonyV.Model.C03Family PonyV.Proofs.C03Checker PonyV.Proofs.C03Roundtrip.

(* ------------------------------------------------------------------ length of the generated code *)
Lemma elen_list_cons2' : forall cnd x y s,
  elen_list cnd (x :: y :: s) = (if cnd then elen true x else elen false x + 3) + elen_list cnd (y :: s).
Proof. reflexivity. Qed.

Lemma comp_and_cons2f : forall next next2 c x y s p,
  comp_and false next next2 c (x :: y :: s) p =
  comp false x p next c ++ [ICopy; jump_to false next2; IPopTop] ++ comp_and false next next2 c (y :: s) (p + elen false x + 3).
Proof. reflexivity. Qed.
Lemma comp_or_cons2f : forall next next2 c x y s p,
  comp_or false next next2 c (x :: y :: s) p =
  comp false x p next c ++ [ICopy; jump_to true next2; IPopTop] ++ comp_or false next next2 c (y :: s) (p + elen false x + 3).
Proof. reflexivity. Qed.

Lemma length_comp : forall e cnd p next c, length (comp cnd e p next c) = elen cnd e.
Proof.
  induction e as [n|v|e IH|l IH|l IH|t a b IHt IHa IHb|ne a b IHa IHb|neg e IH] using bexp_ind2; intros cnd p next c.
  - destruct cnd; reflexivity.
  - destruct cnd; reflexivity.
  - cbn [comp elen]. destruct cnd; [apply IH|].
    destruct e; try (rewrite app_length, IH; cbn [length]; lia).
    (* Not (IsNone ..) *)
    rewrite app_length. cbn [length].
    specialize (IH false p next c). cbn [comp elen] in IH. rewrite app_length in IH. cbn [length] in IH. lia.
  - rewrite comp_And, elen_And.
    set (n2 := if cnd then _ else _). clearbody n2. revert p.
    induction l as [|x r IHl]; intro p; [reflexivity|].
    inversion IH as [|? ? Px Pr]; subst.
    destruct r as [|y s]; [cbn [comp_and elen_list]; apply Px|].
    rewrite elen_list_cons2'. destruct cnd.
    + rewrite comp_and_cons2, app_length, Px, (IHl Pr). reflexivity.
    + rewrite comp_and_cons2f, !app_length, Px, (IHl Pr). cbn [length]. lia.
  - rewrite comp_Or, elen_Or.
    set (n2 := if cnd then _ else _). clearbody n2. revert p.
    induction l as [|x r IHl]; intro p; [reflexivity|].
    inversion IH as [|? ? Px Pr]; subst.
    destruct r as [|y s]; [cbn [comp_or elen_list]; apply Px|].
    rewrite elen_list_cons2'. destruct cnd.
    + rewrite comp_or_cons2, app_length, Px, (IHl Pr). reflexivity.
    + rewrite comp_or_cons2f, !app_length, Px, (IHl Pr). cbn [length]. lia.
  - cbn [comp elen]. rewrite !app_length, IHt, IHa, IHb. cbn [length]. lia.
  - cbn [comp elen]. rewrite !app_length, IHa, IHb. destruct cnd; cbn [length]; lia.
  - cbn [comp elen]. rewrite app_length, IH. destruct cnd; cbn [length]; lia.
Qed.


(* ------------------------------------------------------------------ single steps of exec *)
Definition instr_at (code : list instr) (pc : nat) (ins : instr) : Prop := 2 <= pc /\ nth_error code (pc - 2) = Some ins.

(* (fuel, pc, stack) --> (fuel', pc', stack'): same final outcome, and the fuel still covers the rest of the stream *)
Definition steps (code : list instr) (rho : env) (a b : nat * nat * list val) : Prop :=
  let '(f, p, s) := a in let '(f', p', s') := b in
  length code + 3 <= f' + p' /\ exec f rho code p s = exec f' rho code p' s'.

Lemma steps_trans : forall code rho a b c, steps code rho a b -> steps code rho b c -> steps code rho a c.
Proof. intros code rho [[f p] s] [[f1 p1] s1] [[f2 p2] s2] [H1 E1] [H2 E2]. split; [assumption | congruence]. Qed.

Lemma steps_refl : forall code rho f p s, length code + 3 <= f + p -> steps code rho (f, p, s) (f, p, s).
Proof. intros. split; [assumption|reflexivity]. Qed.

Lemma instr_at_lt : forall code pc ins, instr_at code pc ins -> pc - 2 < length code.
Proof. intros code pc ins [_ H]. apply nth_error_Some. congruence. Qed.

Lemma exec_unfold : forall f rho code pc stk ins, instr_at code pc ins ->
  exec (S f) rho code pc stk =
  match ins, stk with
  | ILoad n, _ => exec f rho code (S pc) (rho n :: stk)
  | IConst v, _ => exec f rho code (S pc) (v :: stk)
  | INot, x :: r => exec f rho code (S pc) (of_bool (negb (truthy x)) :: r)
  | ICmp ne, b :: a :: r => exec f rho code (S pc) (of_bool (xorb ne (val_eqb a b)) :: r)
  | IIs neg, x :: r => exec f rho code (S pc) (of_bool (xorb neg (val_eqb x VNone)) :: r)
  | ICopy, x :: r => exec f rho code (S pc) (x :: x :: r)
  | IPopTop, _ :: r => exec f rho code (S pc) r
  | IJump c t, x :: r => if Bool.eqb (truthy x) c then exec f rho code t r else exec f rho code (S pc) r
  | IJumpNone c t, x :: r => if Bool.eqb (val_eqb x VNone) c then exec f rho code t r else exec f rho code (S pc) r
  | IBack c, x :: r => if Bool.eqb (truthy x) c then OSkip else exec f rho code (S pc) r
  | IBackNone c, x :: r => if Bool.eqb (val_eqb x VNone) c then OSkip else exec f rho code (S pc) r
  | IFwd t, _ => exec f rho code t stk
  | IPushComp, _ => exec f rho code (S pc) stk
  | ILoadElt, _ => OYield None
  | IYield, x :: _ => OYield (Some x)
  | IReturn, x :: _ => OYield (Some x)
  | _, _ => OStuck
  end.
Proof.
  intros f rho code pc stk ins [Hpc Hn]. cbn [exec]. rewrite Hn.
  replace (pc <? 2) with false by (symmetry; apply Nat.ltb_ge; assumption). reflexivity.
Qed.

Lemma fuel_pos : forall code pc ins f, instr_at code pc ins -> length code + 3 <= f + pc -> exists f0, f = S f0.
Proof.
  intros code pc ins f H Hf. pose proof (instr_at_lt _ _ _ H) as Hlt. destruct H as [Hpc _].
  destruct f as [|f0]; [lia|]. exists f0. reflexivity.
Qed.

(* an instruction that falls through, transforming the stack *)
Lemma step_wfe : forall code rho pc ins stk stk' f,
  instr_at code pc ins -> length code + 3 <= f + pc ->
  (forall f0, exec (S f0) rho code pc stk = exec f0 rho code (S pc) stk') ->
  exists f', steps code rho (f, pc, stk) (f', S pc, stk').
Proof.
  intros code rho pc ins stk stk' f Hat Hf Hex. destruct (fuel_pos _ _ _ _ Hat Hf) as [f0 ->].
  exists f0. split; [lia | apply Hex].
Qed.

Lemma instr_at_mid : forall pre seg suf k ins,
  nth_error seg k = Some ins -> instr_at (pre ++ seg ++ suf) (pos_of (length pre) + k) ins.
Proof.
  intros pre seg suf k ins H. split; [unfold pos_of; lia|].
  replace (pos_of (length pre) + k - 2) with (length pre + k) by (unfold pos_of; lia).
  rewrite nth_error_app2 by lia. replace (length pre + k - length pre) with k by lia.
  rewrite nth_error_app1; [assumption|]. apply nth_error_Some. congruence.
Qed.

(* ------------------------------------------------------------------ what a piece of code does *)
(* value context: from (p, stk) to (p', v :: stk) *)
Definition post_val (code : list instr) (rho : env) (v : val) (fuel p : nat) (stk : list val) (p' : nat) : Prop :=
  exists f', steps code rho (fuel, p, stk) (f', p', v :: stk).

(* condition context: if the truth value b equals c, control goes to `next` (the loop top = the element is skipped),
   otherwise it falls through to pend; the stack is stk1 afterwards *)
Definition post_cond (code : list instr) (rho : env) (b c : bool) (next : tgt) (fuel p : nat) (stk0 stk1 : list val) (pend : nat) : Prop :=
  if Bool.eqb b c then
    match next with
    | TAt t => exists f', steps code rho (fuel, p, stk0) (f', t, stk1)
    | TTop => exec fuel rho code p stk0 = OSkip
    end
  else exists f', steps code rho (fuel, p, stk0) (f', pend, stk1).

Lemma post_cond_pre : forall code rho b c next f p s f1 p1 s1 stk1 pend,
  steps code rho (f, p, s) (f1, p1, s1) -> post_cond code rho b c next f1 p1 s1 stk1 pend -> post_cond code rho b c next f p s stk1 pend.
Proof.
  intros code rho b c next f p s f1 p1 s1 stk1 pend Hs Hp. unfold post_cond in *.
  destruct (Bool.eqb b c).
  - destruct next as [|t].
    + destruct Hs as [_ E]. rewrite E. assumption.
    + destruct Hp as [f' Hp]. exists f'. eapply steps_trans; eassumption.
  - destruct Hp as [f' Hp]. exists f'. eapply steps_trans; eassumption.
Qed.

Lemma post_val_pre : forall code rho v f p s f1 p1 p',
  steps code rho (f, p, s) (f1, p1, s) -> post_val code rho v f1 p1 s p' -> post_val code rho v f p s p'.
Proof. intros code rho v f p s f1 p1 p' Hs [f' Hp]. exists f'. eapply steps_trans; eassumption. Qed.

(* the conditional jump at the end of a condition *)
Lemma step_jump : forall code rho q c next v stk f,
  instr_at code q (jump_to c next) -> length code + 3 <= f + q -> (forall t, next = TAt t -> q < t) ->
  post_cond code rho (truthy v) c next f q (v :: stk) stk (S q).
Proof.
  intros code rho q c next v stk f Hat Hf Hfw. destruct (fuel_pos _ _ _ _ Hat Hf) as [f0 ->].
  unfold post_cond, steps. 
  destruct next as [|t]; cbn [jump_to] in *.
  - destruct (Bool.eqb (truthy v) c) eqn:E.
    + rewrite (exec_unfold f0 rho code q (v :: stk) _ Hat), E. reflexivity.
    + exists f0. rewrite (exec_unfold f0 rho code q (v :: stk) _ Hat), E. split; [lia|reflexivity].
  - specialize (Hfw t eq_refl). destruct (Bool.eqb (truthy v) c) eqn:E; exists f0;
      rewrite (exec_unfold f0 rho code q (v :: stk) _ Hat), E; (split; [lia|reflexivity]).
Qed.

Lemma step_jump_none : forall code rho q c next v stk f,
  instr_at code q (jump_none_to c next) -> length code + 3 <= f + q -> (forall t, next = TAt t -> q < t) ->
  post_cond code rho (val_eqb v VNone) c next f q (v :: stk) stk (S q).
Proof.
  intros code rho q c next v stk f Hat Hf Hfw. destruct (fuel_pos _ _ _ _ Hat Hf) as [f0 ->].
  unfold post_cond, steps.
  destruct next as [|t]; cbn [jump_none_to] in *.
  - destruct (Bool.eqb (val_eqb v VNone) c) eqn:E.
    + rewrite (exec_unfold f0 rho code q (v :: stk) _ Hat), E. reflexivity.
    + exists f0. rewrite (exec_unfold f0 rho code q (v :: stk) _ Hat), E. split; [lia|reflexivity].
  - specialize (Hfw t eq_refl). destruct (Bool.eqb (val_eqb v VNone) c) eqn:E; exists f0;
      rewrite (exec_unfold f0 rho code q (v :: stk) _ Hat), E; (split; [lia|reflexivity]).
Qed.

Lemma truthy_of_bool : forall b, truthy (of_bool b) = b.
Proof. intros []; reflexivity. Qed.

Lemma wfe_go : forall m,
  (fix go (l : list bexp) : bool := match l with [] => true | x :: r => wfe x && go r end) m = forallb wfe m.
Proof. induction m as [|x r IH]; [reflexivity|]. cbn [forallb]. rewrite <- IH. reflexivity. Qed.

Lemma wfe_And : forall l, wfe (And l) = true -> l <> [] /\ forallb wfe l = true.
Proof. intros [|x r] H; [discriminate H|]. split; [discriminate|]. rewrite <- wfe_go. exact H. Qed.
Lemma wfe_Or : forall l, wfe (Or l) = true -> l <> [] /\ forallb wfe l = true.
Proof. intros [|x r] H; [discriminate H|]. split; [discriminate|]. rewrite <- wfe_go. exact H. Qed.

(* ------------------------------------------------------------------ the statement proved by induction on the expression *)
Definition sound_at (e : bexp) : Prop :=
  forall cnd code pre suf next c rho stk fuel,
  wfe e = true ->
  code = pre ++ comp cnd e (pos_of (length pre)) next c ++ suf ->
  length code + 3 <= fuel + pos_of (length pre) ->
  (forall t, next = TAt t -> pos_of (length pre) + elen cnd e <= t) ->
  if cnd then post_cond code rho (truthy (eval rho e)) c next fuel (pos_of (length pre)) stk stk (pos_of (length pre) + elen true e)
  else post_val code rho (eval rho e) fuel (pos_of (length pre)) stk (pos_of (length pre) + elen false e).

(* value-context use of an induction hypothesis, with the code re-associated by the caller *)
Lemma use_val : forall e code pre suf next c rho stk fuel,
  sound_at e -> wfe e = true ->
  code = pre ++ comp false e (pos_of (length pre)) next c ++ suf ->
  length code + 3 <= fuel + pos_of (length pre) ->
  post_val code rho (eval rho e) fuel (pos_of (length pre)) stk (pos_of (length pre) + elen false e).
Proof.
  intros e code pre suf next c rho stk fuel H Hi Hc Hf.
  (* in value context `next` is not used by comp; any forward target will do *)
  assert (Hirr : forall n1 c1 n2 c2 p, comp false e p n1 c1 = comp false e p n2 c2).
  { clear. induction e as [n|v|e IH|l IH|l IH|t a b IHt IHa IHb|ne a b IHa IHb|neg e IH] using bexp_ind2; intros n1 c1 n2 c2 p;
      try reflexivity.
    - cbn [comp]. destruct e; try (rewrite (IH n1 c1 n2 c2 p); reflexivity).
      specialize (IH n1 c1 n2 c2 p). cbn [comp] in IH. apply app_inv_tail in IH. rewrite IH. reflexivity.
    - rewrite !comp_And. generalize (TAt (p + elen false (And l))). intro n0. revert p.
      induction l as [|x r IHl]; intro p; [reflexivity|]. inversion IH as [|? ? Px Pr]; subst.
      destruct r as [|y s]; [cbn [comp_and]; apply Px|].
      rewrite !comp_and_cons2f, (Px n1 c1 n2 c2 p), (IHl Pr). reflexivity.
    - rewrite !comp_Or. generalize (TAt (p + elen false (Or l))). intro n0. revert p.
      induction l as [|x r IHl]; intro p; [reflexivity|]. inversion IH as [|? ? Px Pr]; subst.
      destruct r as [|y s]; [cbn [comp_or]; apply Px|].
      rewrite !comp_or_cons2f, (Px n1 c1 n2 c2 p), (IHl Pr). reflexivity.
    - cbn [comp]. rewrite (IHa n1 c1 n2 c2), (IHb n1 c1 n2 c2). reflexivity.
    - cbn [comp]. rewrite (IHa n1 c1 n2 c2), (IHb n1 c1 n2 c2). reflexivity.
    - cbn [comp]. rewrite (IH n1 c1 n2 c2). reflexivity. }
  rewrite (Hirr next c TTop false) in Hc.
  apply (H false code pre suf TTop false rho stk fuel Hi Hc Hf). intros t Ht. discriminate Ht.
Qed.

(* ------------------------------------------------------------------ and / or over a list of operands *)
Lemma has_ifexp_And : forall l, has_ifexp (And l) = existsb has_ifexp l.
Proof. intro l. cbn [has_ifexp]. induction l as [|x r IH]; [reflexivity|]. cbn [existsb]. rewrite <- IH. reflexivity. Qed.
Lemma has_ifexp_Or : forall l, has_ifexp (Or l) = existsb has_ifexp l.
Proof. intro l. cbn [has_ifexp]. induction l as [|x r IH]; [reflexivity|]. cbn [existsb]. rewrite <- IH. reflexivity. Qed.

Lemma pos_of_app : forall (pre seg : list instr), pos_of (length (pre ++ seg)) = pos_of (length pre) + length seg.
Proof. intros. rewrite app_length. unfold pos_of. lia. Qed.

Lemma and_cond_list : forall l, Forall sound_at l -> l <> [] ->
  forall code pre suf next next2 c rho stk fuel pend,
  forallb wfe l = true ->
  code = pre ++ comp_and true next next2 c l (pos_of (length pre)) ++ suf ->
  length code + 3 <= fuel + pos_of (length pre) ->
  pend = pos_of (length pre) + elen_list true l ->
  next2 = (if c then TAt pend else next) ->
  (forall t, next = TAt t -> pend <= t) ->
  post_cond code rho (truthy (eval_and rho l)) c next fuel (pos_of (length pre)) stk stk pend.
Proof.
  induction l as [|x r IHl]; intros HF Hne code pre suf next next2 c rho stk fuel pend Hif Hcode Hfuel Hpend Hn2 Hfw; [congruence|].
  inversion HF as [|? ? Hx Hr]; subst x0 l.
  cbn [forallb] in Hif. apply andb_true_iff in Hif. destruct Hif as [Hifx Hifr].
  destruct r as [|y s].
  - cbn [comp_and elen_list eval_and] in *. subst pend.
    apply (Hx true code pre suf next c rho stk fuel Hifx Hcode Hfuel). intros t Ht. apply Hfw. assumption.
  - rewrite comp_and_cons2, <- app_assoc in Hcode. rewrite elen_list_cons2' in Hpend.
    set (p := pos_of (length pre)) in *.
    assert (Hx' := Hx true code pre (comp_and true next next2 c (y :: s) (p + elen true x) ++ suf) next2 false rho stk fuel Hifx Hcode Hfuel).
    assert (Hfw2 : forall t, next2 = TAt t -> p + elen true x <= t).
    { intros t Ht. subst next2. destruct c; [injection Ht as <-; lia | apply Hfw in Ht; lia]. }
    specialize (Hx' Hfw2). fold p in Hx'. cbn [eval_and]. unfold post_cond in Hx'.
    destruct (truthy (eval rho x)) eqn:Etx; cbn [Bool.eqb] in Hx'.
    + (* x is true: fall through to the remaining operands *)
      destruct Hx' as [f1 Hs1]. eapply post_cond_pre; [exact Hs1|].
      assert (Hcode2 : code = (pre ++ comp true x p next2 false) ++ comp_and true next next2 c (y :: s) (p + elen true x) ++ suf)
        by (rewrite <- app_assoc; exact Hcode).
      assert (Hp2 : pos_of (length (pre ++ comp true x p next2 false)) = p + elen true x) by (rewrite pos_of_app, length_comp; reflexivity).
      rewrite <- Hp2 in Hcode2 |- *.
      apply (IHl Hr ltac:(discriminate) code _ suf next next2 c rho stk f1 pend Hifr Hcode2).
      * destruct Hs1 as [H _]. rewrite Hp2. exact H.
      * rewrite Hp2. lia.
      * assumption.
      * assumption.
    + (* x is false: the whole `and` is false *)
      unfold post_cond. rewrite Etx. subst next2. destruct c; cbn [Bool.eqb] in *.
      * destruct Hx' as [f1 Hs1]. exists f1. exact Hs1.
      * exact Hx'.
Qed.

Lemma or_cond_list : forall l, Forall sound_at l -> l <> [] ->
  forall code pre suf next next2 c rho stk fuel pend,
  forallb wfe l = true ->
  code = pre ++ comp_or true next next2 c l (pos_of (length pre)) ++ suf ->
  length code + 3 <= fuel + pos_of (length pre) ->
  pend = pos_of (length pre) + elen_list true l ->
  next2 = (if c then next else TAt pend) ->
  (forall t, next = TAt t -> pend <= t) ->
  post_cond code rho (truthy (eval_or rho l)) c next fuel (pos_of (length pre)) stk stk pend.
Proof.
  induction l as [|x r IHl]; intros HF Hne code pre suf next next2 c rho stk fuel pend Hif Hcode Hfuel Hpend Hn2 Hfw; [congruence|].
  inversion HF as [|? ? Hx Hr]; subst x0 l.
  cbn [forallb] in Hif. apply andb_true_iff in Hif. destruct Hif as [Hifx Hifr].
  destruct r as [|y s].
  - cbn [comp_or elen_list eval_or] in *. subst pend.
    apply (Hx true code pre suf next c rho stk fuel Hifx Hcode Hfuel). intros t Ht. apply Hfw. assumption.
  - rewrite comp_or_cons2, <- app_assoc in Hcode. rewrite elen_list_cons2' in Hpend.
    set (p := pos_of (length pre)) in *.
    assert (Hx' := Hx true code pre (comp_or true next next2 c (y :: s) (p + elen true x) ++ suf) next2 true rho stk fuel Hifx Hcode Hfuel).
    assert (Hfw2 : forall t, next2 = TAt t -> p + elen true x <= t).
    { intros t Ht. subst next2. destruct c; [apply Hfw in Ht; lia | injection Ht as <-; lia]. }
    specialize (Hx' Hfw2). fold p in Hx'. cbn [eval_or]. unfold post_cond in Hx'.
    destruct (truthy (eval rho x)) eqn:Etx; cbn [Bool.eqb] in Hx'.
    + (* x is true: the whole `or` is true *)
      unfold post_cond. rewrite Etx. subst next2. destruct c; cbn [Bool.eqb] in *.
      * exact Hx'.
      * destruct Hx' as [f1 Hs1]. exists f1. exact Hs1.
    + (* x is false: go on *)
      destruct Hx' as [f1 Hs1]. eapply post_cond_pre; [exact Hs1|].
      assert (Hcode2 : code = (pre ++ comp true x p next2 true) ++ comp_or true next next2 c (y :: s) (p + elen true x) ++ suf)
        by (rewrite <- app_assoc; exact Hcode).
      assert (Hp2 : pos_of (length (pre ++ comp true x p next2 true)) = p + elen true x) by (rewrite pos_of_app, length_comp; reflexivity).
      rewrite <- Hp2 in Hcode2 |- *.
      apply (IHl Hr ltac:(discriminate) code _ suf next next2 c rho stk f1 pend Hifr Hcode2).
      * destruct Hs1 as [H _]. rewrite Hp2. exact H.
      * rewrite Hp2. lia.
      * assumption.
      * assumption.
Qed.

(* value context: x ; COPY ; POP_JUMP_IF_FALSE end ; POP_TOP ; ... *)
Lemma nth_error_3 : forall (a b c : instr) k ins, nth_error [a; b; c] k = Some ins -> True.
Proof. trivial. Qed.

Lemma and_val_list : forall l, Forall sound_at l -> l <> [] ->
  forall code pre suf next c rho stk fuel pend,
  forallb wfe l = true ->
  code = pre ++ comp_and false next (TAt pend) c l (pos_of (length pre)) ++ suf ->
  length code + 3 <= fuel + pos_of (length pre) ->
  pend = pos_of (length pre) + elen_list false l ->
  post_val code rho (eval_and rho l) fuel (pos_of (length pre)) stk pend.
Proof.
  induction l as [|x r IHl]; intros HF Hne code pre suf next c rho stk fuel pend Hif Hcode Hfuel Hpend; [congruence|].
  inversion HF as [|? ? Hx Hr]; subst x0 l.
  cbn [forallb] in Hif. apply andb_true_iff in Hif. destruct Hif as [Hifx Hifr].
  destruct r as [|y s].
  - cbn [comp_and elen_list eval_and] in *. subst pend. apply (use_val x code pre suf next c rho stk fuel Hx Hifx Hcode Hfuel).
  - rewrite comp_and_cons2f, <- !app_assoc in Hcode. rewrite elen_list_cons2' in Hpend.
    set (p := pos_of (length pre)) in *.
    destruct (use_val x code pre _ next c rho stk fuel Hx Hifx Hcode Hfuel) as [f1 Hs1]. fold p in Hs1.
    set (v := eval rho x) in *. set (p1 := p + elen false x) in *.
    (* the three plumbing instructions *)
    assert (Hc3 : code = (pre ++ comp false x p next c) ++ [ICopy; jump_to false (TAt pend); IPopTop] ++ (comp_and false next (TAt pend) c (y :: s) (p + elen false x + 3) ++ suf)).
    { rewrite Hcode. rewrite <- !app_assoc. reflexivity. }
    assert (Hp1 : pos_of (length (pre ++ comp false x p next c)) = p1) by (rewrite pos_of_app, length_comp; reflexivity).
    assert (Hat0 : instr_at code (p1 + 0) ICopy) by (rewrite Hc3, <- Hp1; apply instr_at_mid; reflexivity).
    assert (Hat1 : instr_at code (p1 + 1) (IJump false pend)) by (rewrite Hc3, <- Hp1; apply instr_at_mid; reflexivity).
    assert (Hat2 : instr_at code (p1 + 2) IPopTop) by (rewrite Hc3, <- Hp1; apply instr_at_mid; reflexivity).
    rewrite Nat.add_0_r in Hat0.
    assert (Hf1 : length code + 3 <= f1 + p1) by (destruct Hs1 as [H _]; exact H).
    destruct (fuel_pos _ _ _ _ Hat0 Hf1) as [f2 ->].
    assert (Hf2 : length code + 3 <= f2 + (p1 + 1)) by lia.
    destruct (fuel_pos _ _ _ _ Hat1 Hf2) as [f3 ->].
    cbn [eval_and]. fold v.
    destruct (truthy v) eqn:Etv.
    + (* v is true: POP_TOP and go on with the rest *)
      assert (Hf3 : length code + 3 <= f3 + (p1 + 2)) by lia.
      destruct (fuel_pos _ _ _ _ Hat2 Hf3) as [f4 ->].
      assert (Hsteps : steps code rho (fuel, p, stk) (f4, p1 + 3, stk)).
      { eapply steps_trans; [exact Hs1|]. split; [lia|].
        rewrite (exec_unfold _ rho code p1 (v :: stk) _ Hat0).
        replace (S p1) with (p1 + 1) by lia. rewrite (exec_unfold _ rho code (p1 + 1) (v :: v :: stk) _ Hat1). rewrite Etv. cbn [Bool.eqb].
        replace (S (p1 + 1)) with (p1 + 2) by lia. rewrite (exec_unfold _ rho code (p1 + 2) (v :: stk) _ Hat2).
        replace (S (p1 + 2)) with (p1 + 3) by lia. reflexivity. }
      eapply post_val_pre; [exact Hsteps|].
      assert (Hcode2 : code = (pre ++ comp false x p next c ++ [ICopy; jump_to false (TAt pend); IPopTop]) ++ comp_and false next (TAt pend) c (y :: s) (p + elen false x + 3) ++ suf).
      { rewrite Hcode. rewrite <- !app_assoc. reflexivity. }
      assert (Hp2 : pos_of (length (pre ++ comp false x p next c ++ [ICopy; jump_to false (TAt pend); IPopTop])) = p1 + 3).
      { rewrite pos_of_app, app_length, length_comp. cbn [length]. unfold p1. lia. }
      replace (p + elen false x + 3) with (p1 + 3) in Hcode2 by (unfold p1; lia).
      rewrite <- Hp2 in Hcode2 |- *.
      apply (IHl Hr ltac:(discriminate) code _ suf next c rho stk f4 pend Hifr Hcode2).
      * rewrite Hp2. lia.
      * rewrite Hp2. unfold p1. lia.
    + (* v is false: it is the value of the `and`; jump to the end *)
      exists f3. eapply steps_trans; [exact Hs1|]. split.
      * assert (p1 + 1 < pend) by (unfold p1; rewrite Hpend; lia). lia.
      * rewrite (exec_unfold _ rho code p1 (v :: stk) _ Hat0).
        replace (S p1) with (p1 + 1) by lia. rewrite (exec_unfold _ rho code (p1 + 1) (v :: v :: stk) _ Hat1). rewrite Etv. reflexivity.
Qed.

Lemma or_val_list : forall l, Forall sound_at l -> l <> [] ->
  forall code pre suf next c rho stk fuel pend,
  forallb wfe l = true ->
  code = pre ++ comp_or false next (TAt pend) c l (pos_of (length pre)) ++ suf ->
  length code + 3 <= fuel + pos_of (length pre) ->
  pend = pos_of (length pre) + elen_list false l ->
  post_val code rho (eval_or rho l) fuel (pos_of (length pre)) stk pend.
Proof.
  induction l as [|x r IHl]; intros HF Hne code pre suf next c rho stk fuel pend Hif Hcode Hfuel Hpend; [congruence|].
  inversion HF as [|? ? Hx Hr]; subst x0 l.
  cbn [forallb] in Hif. apply andb_true_iff in Hif. destruct Hif as [Hifx Hifr].
  destruct r as [|y s].
  - cbn [comp_or elen_list eval_or] in *. subst pend. apply (use_val x code pre suf next c rho stk fuel Hx Hifx Hcode Hfuel).
  - rewrite comp_or_cons2f, <- !app_assoc in Hcode. rewrite elen_list_cons2' in Hpend.
    set (p := pos_of (length pre)) in *.
    destruct (use_val x code pre _ next c rho stk fuel Hx Hifx Hcode Hfuel) as [f1 Hs1]. fold p in Hs1.
    set (v := eval rho x) in *. set (p1 := p + elen false x) in *.
    assert (Hc3 : code = (pre ++ comp false x p next c) ++ [ICopy; jump_to true (TAt pend); IPopTop] ++ (comp_or false next (TAt pend) c (y :: s) (p + elen false x + 3) ++ suf)).
    { rewrite Hcode. rewrite <- !app_assoc. reflexivity. }
    assert (Hp1 : pos_of (length (pre ++ comp false x p next c)) = p1) by (rewrite pos_of_app, length_comp; reflexivity).
    assert (Hat0 : instr_at code (p1 + 0) ICopy) by (rewrite Hc3, <- Hp1; apply instr_at_mid; reflexivity).
    assert (Hat1 : instr_at code (p1 + 1) (IJump true pend)) by (rewrite Hc3, <- Hp1; apply instr_at_mid; reflexivity).
    assert (Hat2 : instr_at code (p1 + 2) IPopTop) by (rewrite Hc3, <- Hp1; apply instr_at_mid; reflexivity).
    rewrite Nat.add_0_r in Hat0.
    assert (Hf1 : length code + 3 <= f1 + p1) by (destruct Hs1 as [H _]; exact H).
    destruct (fuel_pos _ _ _ _ Hat0 Hf1) as [f2 ->].
    assert (Hf2 : length code + 3 <= f2 + (p1 + 1)) by lia.
    destruct (fuel_pos _ _ _ _ Hat1 Hf2) as [f3 ->].
    cbn [eval_or]. fold v.
    destruct (truthy v) eqn:Etv.
    + (* v is true: it is the value of the `or`; jump to the end *)
      exists f3. eapply steps_trans; [exact Hs1|]. split.
      * assert (p1 + 1 < pend) by (unfold p1; rewrite Hpend; lia). lia.
      * rewrite (exec_unfold _ rho code p1 (v :: stk) _ Hat0).
        replace (S p1) with (p1 + 1) by lia. rewrite (exec_unfold _ rho code (p1 + 1) (v :: v :: stk) _ Hat1). rewrite Etv. reflexivity.
    + assert (Hf3 : length code + 3 <= f3 + (p1 + 2)) by lia.
      destruct (fuel_pos _ _ _ _ Hat2 Hf3) as [f4 ->].
      assert (Hsteps : steps code rho (fuel, p, stk) (f4, p1 + 3, stk)).
      { eapply steps_trans; [exact Hs1|]. split; [lia|].
        rewrite (exec_unfold _ rho code p1 (v :: stk) _ Hat0).
        replace (S p1) with (p1 + 1) by lia. rewrite (exec_unfold _ rho code (p1 + 1) (v :: v :: stk) _ Hat1). rewrite Etv. cbn [Bool.eqb].
        replace (S (p1 + 1)) with (p1 + 2) by lia. rewrite (exec_unfold _ rho code (p1 + 2) (v :: stk) _ Hat2).
        replace (S (p1 + 2)) with (p1 + 3) by lia. reflexivity. }
      eapply post_val_pre; [exact Hsteps|].
      assert (Hcode2 : code = (pre ++ comp false x p next c ++ [ICopy; jump_to true (TAt pend); IPopTop]) ++ comp_or false next (TAt pend) c (y :: s) (p + elen false x + 3) ++ suf).
      { rewrite Hcode. rewrite <- !app_assoc. reflexivity. }
      assert (Hp2 : pos_of (length (pre ++ comp false x p next c ++ [ICopy; jump_to true (TAt pend); IPopTop])) = p1 + 3).
      { rewrite pos_of_app, app_length, length_comp. cbn [length]. unfold p1. lia. }
      replace (p + elen false x + 3) with (p1 + 3) in Hcode2 by (unfold p1; lia).
      rewrite <- Hp2 in Hcode2 |- *.
      apply (IHl Hr ltac:(discriminate) code _ suf next c rho stk f4 pend Hifr Hcode2).
      * rewrite Hp2. lia.
      * rewrite Hp2. unfold p1. lia.
Qed.

(* ------------------------------------------------------------------ the induction *)
Definition sound_at' (e : bexp) : Prop := sound_at e /\ forall neg e2, e = IsNone neg e2 -> sound_at e2.

Lemma eqb_negb_shift : forall a c, Bool.eqb (negb a) c = Bool.eqb a (negb c).
Proof. intros [] []; reflexivity. Qed.
Lemma eqb_xorb_shift : forall neg b c, Bool.eqb (xorb neg b) c = Bool.eqb b (xorb c neg).
Proof. intros [] [] []; reflexivity. Qed.

(* one instruction appended to a value computation *)
Lemma val_then_op : forall e op code pre suf next c rho stk fuel stk',
  sound_at e -> wfe e = true ->
  code = pre ++ comp false e (pos_of (length pre)) next c ++ [op] ++ suf ->
  length code + 3 <= fuel + pos_of (length pre) ->
  (forall f0 pc, instr_at code pc op -> exec (S f0) rho code pc (eval rho e :: stk) = exec f0 rho code (S pc) stk') ->
  exists f', steps code rho (fuel, pos_of (length pre), stk) (f', pos_of (length pre) + S (elen false e), stk').
Proof.
  intros e op code pre suf next c rho stk fuel stk' He Hs Hcode Hfuel Hop. set (p := pos_of (length pre)) in *.
  destruct (use_val e code pre _ next c rho stk fuel He Hs Hcode Hfuel) as [f1 Hs1]. fold p in Hs1.
  set (p1 := p + elen false e) in *.
  assert (Hc2 : code = (pre ++ comp false e p next c) ++ [op] ++ suf) by (rewrite Hcode, <- !app_assoc; reflexivity).
  assert (Hp1 : pos_of (length (pre ++ comp false e p next c)) = p1) by (rewrite pos_of_app, length_comp; reflexivity).
  assert (Hat : instr_at code (p1 + 0) op) by (rewrite Hc2, <- Hp1; apply instr_at_mid; reflexivity).
  rewrite Nat.add_0_r in Hat.
  assert (Hf1 : length code + 3 <= f1 + p1) by (destruct Hs1 as [H _]; exact H).
  destruct (fuel_pos _ _ _ _ Hat Hf1) as [f2 ->].
  exists f2. eapply steps_trans; [exact Hs1|]. split; [lia|].
  rewrite (Hop f2 p1 Hat). replace (p + S (elen false e)) with (S p1) by (unfold p1; lia). reflexivity.
Qed.

Lemma sound_all : forall e, sound_at' e.
Proof.
  induction e as [n|v|e IH|l IH|l IH|t a b IHt IHa IHb|ne a b IHa IHb|neg e IH] using bexp_ind2.
  - (* Atom *)
    split; [|intros; discriminate].
    intros cnd code pre suf next c rho stk fuel _ Hcode Hfuel Hfw. set (p := pos_of (length pre)) in *.
    destruct cnd; cbn [comp elen eval] in *.
    + assert (Hat0 : instr_at code (p + 0) (ILoad n)) by (rewrite Hcode; apply instr_at_mid; reflexivity).
      assert (Hat1 : instr_at code (p + 1) (jump_to c next)) by (rewrite Hcode; apply instr_at_mid; reflexivity).
      rewrite Nat.add_0_r in Hat0. destruct (fuel_pos _ _ _ _ Hat0 Hfuel) as [f0 ->].
      eapply post_cond_pre.
      * split; [|apply (exec_unfold f0 rho code p stk _ Hat0)]. lia.
      * replace (S p) with (p + 1) by lia. replace (p + 2) with (S (p + 1)) by lia.
        apply step_jump; [assumption | lia |]. intros t Ht. apply Hfw in Ht. lia.
    + assert (Hat0 : instr_at code (p + 0) (ILoad n)) by (rewrite Hcode; apply instr_at_mid; reflexivity).
      rewrite Nat.add_0_r in Hat0. destruct (fuel_pos _ _ _ _ Hat0 Hfuel) as [f0 ->].
      exists f0. split; [lia|]. rewrite (exec_unfold f0 rho code p stk _ Hat0). replace (p + 1) with (S p) by lia. reflexivity.
  - (* Const *)
    split; [|intros; discriminate].
    intros cnd code pre suf next c rho stk fuel _ Hcode Hfuel Hfw. set (p := pos_of (length pre)) in *.
    destruct cnd; cbn [comp elen eval] in *.
    + assert (Hat0 : instr_at code (p + 0) (IConst v)) by (rewrite Hcode; apply instr_at_mid; reflexivity).
      assert (Hat1 : instr_at code (p + 1) (jump_to c next)) by (rewrite Hcode; apply instr_at_mid; reflexivity).
      rewrite Nat.add_0_r in Hat0. destruct (fuel_pos _ _ _ _ Hat0 Hfuel) as [f0 ->].
      eapply post_cond_pre.
      * split; [|apply (exec_unfold f0 rho code p stk _ Hat0)]. lia.
      * replace (S p) with (p + 1) by lia. replace (p + 2) with (S (p + 1)) by lia.
        apply step_jump; [assumption | lia |]. intros t Ht. apply Hfw in Ht. lia.
    + assert (Hat0 : instr_at code (p + 0) (IConst v)) by (rewrite Hcode; apply instr_at_mid; reflexivity).
      rewrite Nat.add_0_r in Hat0. destruct (fuel_pos _ _ _ _ Hat0 Hfuel) as [f0 ->].
      exists f0. split; [lia|]. rewrite (exec_unfold f0 rho code p stk _ Hat0). replace (p + 1) with (S p) by lia. reflexivity.
  - (* Not *)
    destruct IH as [IHe IHis]. split; [|intros; discriminate].
    intros cnd code pre suf next c rho stk fuel Hif Hcode Hfuel Hfw. set (p := pos_of (length pre)) in *.
    cbn [wfe] in Hif. destruct cnd.
    + (* condition: the jump sense is inverted *)
      cbn [comp elen eval] in *. rewrite truthy_of_bool.
      assert (H := IHe true code pre suf next (negb c) rho stk fuel Hif Hcode Hfuel Hfw).
      unfold post_cond in *. rewrite eqb_negb_shift. exact H.
    + (* value *)
      assert (Hcase : (exists neg e2, e = IsNone neg e2) \/ (forall neg e2, e <> IsNone neg e2)).
      { destruct e; try (right; intros; discriminate). left. eexists. eexists. reflexivity. }
      destruct Hcase as [[neg [e2 ->]]|Hn].
      * (* not (e2 is None): one inverted IS_OP *)
        cbn [comp elen eval wfe] in *. rewrite <- app_assoc in Hcode.
        unfold post_val. apply (val_then_op e2 (IIs (negb neg)) code pre suf next c rho stk fuel _ (IHis neg e2 eq_refl) Hif Hcode Hfuel).
        intros f0 pc Hat. rewrite (exec_unfold _ rho code pc _ _ Hat). rewrite truthy_of_bool.
        do 3 f_equal. destruct neg, (val_eqb (eval rho e2) VNone); reflexivity.
      * assert (Hcomp : comp false (Not e) p next c = comp false e p next c ++ [INot]).
        { cbn [comp]. destruct e; try reflexivity. exfalso. eapply Hn. reflexivity. }
        assert (Hlen : elen false (Not e) = S (elen false e)).
        { cbn [elen]. destruct e; try reflexivity. exfalso. eapply Hn. reflexivity. }
        rewrite Hcomp, <- app_assoc in Hcode. rewrite Hlen. cbn [eval].
        unfold post_val. apply (val_then_op e INot code pre suf next c rho stk fuel _ IHe Hif Hcode Hfuel).
        intros f0 pc Hat. rewrite (exec_unfold _ rho code pc _ _ Hat). reflexivity.
  - (* And *)
    split; [|intros; discriminate].
    assert (HF : Forall sound_at l) by (eapply Forall_impl; [|exact IH]; intros x [H _]; exact H).
    intros cnd code pre suf next c rho stk fuel Hif Hcode Hfuel Hfw. set (p := pos_of (length pre)) in *.
    apply wfe_And in Hif. destruct Hif as [Hne Hall].
    rewrite comp_And in Hcode. rewrite eval_And.
    destruct cnd; rewrite ?elen_And in *.
    + apply (and_cond_list l HF Hne code pre suf next _ c rho stk fuel (p + elen_list true l) Hall Hcode Hfuel eq_refl eq_refl).
      intros t Ht. apply Hfw. assumption.
    + apply (and_val_list l HF Hne code pre suf next c rho stk fuel (p + elen_list false l) Hall Hcode Hfuel eq_refl).
  - (* Or *)
    split; [|intros; discriminate].
    assert (HF : Forall sound_at l) by (eapply Forall_impl; [|exact IH]; intros x [H _]; exact H).
    intros cnd code pre suf next c rho stk fuel Hif Hcode Hfuel Hfw. set (p := pos_of (length pre)) in *.
    apply wfe_Or in Hif. destruct Hif as [Hne Hall].
    rewrite comp_Or in Hcode. rewrite eval_Or.
    destruct cnd; rewrite ?elen_Or in *.
    + apply (or_cond_list l HF Hne code pre suf next _ c rho stk fuel (p + elen_list true l) Hall Hcode Hfuel eq_refl eq_refl).
      intros t Ht. apply Hfw. assumption.
    + apply (or_val_list l HF Hne code pre suf next c rho stk fuel (p + elen_list false l) Hall Hcode Hfuel eq_refl).
  - (* IfExp: test in condition context, then one of the branches; JUMP_FORWARD over the else-branch *)
    destruct IHt as [IHt _]. destruct IHa as [IHa _]. destruct IHb as [IHb _]. split; [|intros; discriminate].
    intros cnd code pre suf next c rho stk fuel Hif Hcode Hfuel Hfw. set (p := pos_of (length pre)) in *.
    cbn [wfe] in Hif. apply andb_true_iff in Hif. destruct Hif as [Hif Hwb]. apply andb_true_iff in Hif. destruct Hif as [Hwt Hwa].
    cbn [comp] in Hcode. cbn [eval].
    set (pa := p + elen true t) in *. set (pb := pa + elen cnd a + 1) in *. set (pe := pb + elen cnd b) in *.
    assert (Hlen : elen cnd (IfExp t a b) = elen true t + elen cnd a + 1 + elen cnd b) by reflexivity.
    assert (Hpe : p + elen cnd (IfExp t a b) = pe) by (rewrite Hlen; unfold pe, pb, pa; lia).
    (* the test *)
    assert (Ht := IHt true code pre (comp cnd a pa next c ++ [IFwd pe] ++ comp cnd b pb next c ++ suf) (TAt pb) false rho stk fuel Hwt
                      ltac:(rewrite Hcode, <- !app_assoc; reflexivity) Hfuel ltac:(intros t0 Ht0; injection Ht0 as <-; unfold pb, pa; lia)).
    cbn beta iota in Ht. unfold post_cond in Ht. fold p pa in Ht.
    (* code re-associated for the two branches *)
    assert (Hca : code = (pre ++ comp true t p (TAt pb) false) ++ comp cnd a pa next c ++ ([IFwd pe] ++ comp cnd b pb next c ++ suf))
      by (rewrite Hcode, <- !app_assoc; reflexivity).
    assert (Hpa : pos_of (length (pre ++ comp true t p (TAt pb) false)) = pa) by (rewrite pos_of_app, length_comp; reflexivity).
    assert (Hcb : code = (pre ++ comp true t p (TAt pb) false ++ comp cnd a pa next c ++ [IFwd pe]) ++ comp cnd b pb next c ++ suf)
      by (rewrite Hcode, <- !app_assoc; reflexivity).
    assert (Hpb : pos_of (length (pre ++ comp true t p (TAt pb) false ++ comp cnd a pa next c ++ [IFwd pe])) = pb).
    { rewrite pos_of_app, !app_length, !length_comp. cbn [length]. unfold pb, pa. lia. }
    assert (Hcj : code = (pre ++ comp true t p (TAt pb) false ++ comp cnd a pa next c) ++ [IFwd pe] ++ (comp cnd b pb next c ++ suf))
      by (rewrite Hcode, <- !app_assoc; reflexivity).
    assert (Hpj : pos_of (length (pre ++ comp true t p (TAt pb) false ++ comp cnd a pa next c)) = pa + elen cnd a).
    { rewrite pos_of_app, !app_length, !length_comp. unfold pa. lia. }
    assert (Hatj : instr_at code (pa + elen cnd a) (IFwd pe)).
    { rewrite Hcj at 1. rewrite <- Hpj. rewrite <- (Nat.add_0_r (pos_of _)). apply instr_at_mid. reflexivity. }
    destruct (truthy (eval rho t)) eqn:Ett; cbn [Bool.eqb] in Ht.
    + (* test true: branch a, then jump over b *)
      destruct Ht as [f1 Hs1].
      assert (Hf1 : length code + 3 <= f1 + pos_of (length (pre ++ comp true t p (TAt pb) false))) by (rewrite Hpa; destruct Hs1 as [H _]; exact H).
      remember (pre ++ comp true t p (TAt pb) false) as prea eqn:Eprea.
      rewrite <- Hpa in Hca.
      assert (Ha := IHa cnd code _ _ next c rho stk f1 Hwa Hca Hf1).
      rewrite Hpa in Ha.
      assert (Hfwa : forall t0, next = TAt t0 -> pa + elen cnd a <= t0).
      { intros t0 Ht0. apply Hfw in Ht0. rewrite Hlen in Ht0. unfold pa. lia. }
      specialize (Ha Hfwa).
      assert (Hskip : forall f2 stk2, length code + 3 <= f2 + (pa + elen cnd a) ->
                exists f3, steps code rho (f2, pa + elen cnd a, stk2) (f3, pe, stk2)).
      { intros f2 stk2 Hf2. destruct (fuel_pos _ _ _ _ Hatj Hf2) as [f3 ->]. exists f3. split.
        - unfold pe, pb. lia.
        - rewrite (exec_unfold f3 rho code _ stk2 _ Hatj). reflexivity. }
      destruct cnd.
      * eapply post_cond_pre; [exact Hs1|]. unfold post_cond in *. rewrite Hpe.
        destruct (Bool.eqb (truthy (eval rho a)) c); [exact Ha|].
        destruct Ha as [f2 Hs2]. destruct (Hskip f2 stk ltac:(destruct Hs2 as [H _]; exact H)) as [f3 Hs3].
        exists f3. eapply steps_trans; eassumption.
      * unfold post_val in *. rewrite Hpe. destruct Ha as [f2 Hs2].
        destruct (Hskip f2 (eval rho a :: stk) ltac:(destruct Hs2 as [H _]; exact H)) as [f3 Hs3].
        exists f3. eapply steps_trans; [exact Hs1|]. eapply steps_trans; eassumption.
    + (* test false: branch b *)
      destruct Ht as [f1 Hs1].
      assert (Hf1 : length code + 3 <= f1 + pos_of (length (pre ++ comp true t p (TAt pb) false ++ comp cnd a pa next c ++ [IFwd pe])))
        by (rewrite Hpb; destruct Hs1 as [H _]; exact H).
      remember (pre ++ comp true t p (TAt pb) false ++ comp cnd a pa next c ++ [IFwd pe]) as preb eqn:Epreb.
      rewrite <- Hpb in Hcb.
      assert (Hb := IHb cnd code _ _ next c rho stk f1 Hwb Hcb Hf1).
      rewrite Hpb in Hb.
      assert (Hfwb : forall t0, next = TAt t0 -> pb + elen cnd b <= t0).
      { intros t0 Ht0. apply Hfw in Ht0. rewrite Hlen in Ht0. unfold pb, pa. lia. }
      specialize (Hb Hfwb). fold pe in Hb.
      destruct cnd.
      * eapply post_cond_pre; [exact Hs1|]. rewrite Hpe. exact Hb.
      * unfold post_val in *. rewrite Hpe. destruct Hb as [f2 Hs2]. exists f2. eapply steps_trans; eassumption.
  - (* Cmp *)
    destruct IHa as [IHa _]. destruct IHb as [IHb _]. split; [|intros; discriminate].
    intros cnd code pre suf next c rho stk fuel Hif Hcode Hfuel Hfw. set (p := pos_of (length pre)) in *.
    cbn [wfe] in Hif. apply andb_true_iff in Hif. destruct Hif as [Hsa Hsb].
    cbn [comp] in Hcode. rewrite <- !app_assoc in Hcode.
    (* a, then b, then COMPARE_OP *)
    destruct (use_val a code pre _ next c rho stk fuel IHa Hsa Hcode Hfuel) as [f1 Hs1]. fold p in Hs1.
    set (pa := p + elen false a) in *.
    assert (Hcb : code = (pre ++ comp false a p next c) ++ comp false b pa next c ++ [ICmp ne] ++ (if cnd then [jump_to c next] else []) ++ suf).
    { rewrite Hcode, <- !app_assoc. reflexivity. }
    assert (Hpa : pos_of (length (pre ++ comp false a p next c)) = pa) by (rewrite pos_of_app, length_comp; reflexivity).
    rewrite <- Hpa in Hcb.
    assert (Hf1 : length code + 3 <= f1 + pos_of (length (pre ++ comp false a p next c))) by (rewrite Hpa; destruct Hs1 as [H _]; exact H).
    assert (Hvb := val_then_op b (ICmp ne) code (pre ++ comp false a p next c) ((if cnd then [jump_to c next] else []) ++ suf) next c rho
                     (eval rho a :: stk) f1 (of_bool (xorb ne (val_eqb (eval rho a) (eval rho b))) :: stk) IHb Hsb Hcb Hf1).
    rewrite Hpa in Hvb.
    destruct Hvb as [f2 Hs2].
    { intros f0 pc Hat. rewrite (exec_unfold _ rho code pc _ _ Hat). reflexivity. }
    set (pc := pa + S (elen false b)) in *.
    assert (Hsteps : steps code rho (fuel, p, stk) (f2, pc, of_bool (xorb ne (val_eqb (eval rho a) (eval rho b))) :: stk))
      by (eapply steps_trans; eassumption).
    destruct cnd; cbn [elen eval].
    + (* then the conditional jump *)
      eapply post_cond_pre; [exact Hsteps|].
      assert (Hcj : code = (pre ++ comp false a p next c ++ comp false b pa next c ++ [ICmp ne]) ++ [jump_to c next] ++ suf).
      { rewrite Hcode, <- !app_assoc. reflexivity. }
      assert (Hpj : pos_of (length (pre ++ comp false a p next c ++ comp false b pa next c ++ [ICmp ne])) = pc).
      { rewrite pos_of_app, !app_length, !length_comp. cbn [length]. unfold pc, pa. lia. }
      assert (Hat : instr_at code (pc + 0) (jump_to c next)) by (rewrite Hcj, <- Hpj; apply instr_at_mid; reflexivity).
      rewrite Nat.add_0_r in Hat.
      replace (p + (elen false a + elen false b + 2)) with (S pc) by (unfold pc, pa; lia).
      apply step_jump; [assumption | destruct Hs2 as [H _]; exact H |].
      intros t Ht. apply Hfw in Ht. cbn [elen] in Ht. unfold pc, pa. lia.
    + replace (p + (elen false a + elen false b + 1)) with pc by (unfold pc, pa; lia). exists f2. exact Hsteps.
  - (* IsNone *)
    destruct IH as [IHe _]. split; [|intros neg0 e2 Heq; injection Heq as _ <-; exact IHe].
    intros cnd code pre suf next c rho stk fuel Hif Hcode Hfuel Hfw. set (p := pos_of (length pre)) in *.
    cbn [wfe] in Hif. cbn [comp] in Hcode. destruct cnd; cbn [elen eval].
    + (* POP_JUMP_IF_(NOT_)NONE *)
      rewrite <- app_assoc in Hcode.
      destruct (use_val e code pre _ next c rho stk fuel IHe Hif Hcode Hfuel) as [f1 Hs1]. fold p in Hs1.
      set (p1 := p + elen false e) in *.
      eapply post_cond_pre; [exact Hs1|].
      assert (Hc2 : code = (pre ++ comp false e p next c) ++ [jump_none_to (xorb c neg) next] ++ suf) by (rewrite Hcode, <- !app_assoc; reflexivity).
      assert (Hp1 : pos_of (length (pre ++ comp false e p next c)) = p1) by (rewrite pos_of_app, length_comp; reflexivity).
      assert (Hat : instr_at code (p1 + 0) (jump_none_to (xorb c neg) next)) by (rewrite Hc2, <- Hp1; apply instr_at_mid; reflexivity).
      rewrite Nat.add_0_r in Hat.
      replace (p + (elen false e + 1)) with (S p1) by (unfold p1; lia).
      rewrite truthy_of_bool.
      assert (H := step_jump_none code rho p1 (xorb c neg) next (eval rho e) stk f1 Hat ltac:(destruct Hs1 as [H _]; exact H)).
      unfold post_cond in *. rewrite eqb_xorb_shift. apply H.
      intros t Ht. apply Hfw in Ht. cbn [elen] in Ht. unfold p1. lia.
    + rewrite <- app_assoc in Hcode. replace (p + (elen false e + 1)) with (p + S (elen false e)) by lia.
      unfold post_val. apply (val_then_op e (IIs neg) code pre suf next c rho stk fuel _ IHe Hif Hcode Hfuel).
      intros f0 pc Hat. rewrite (exec_unfold _ rho code pc _ _ Hat). reflexivity.
Qed.

(* ------------------------------------------------------------------ expressions without conditional expressions *)
Lemma simple_go : forall m,
  (fix go (l : list bexp) : bool := match l with [] => true | x :: r => simple x && go r end) m = forallb simple m.
Proof. induction m as [|x r IH]; [reflexivity|]. cbn [forallb]. rewrite <- IH. reflexivity. Qed.
Lemma simple_And : forall l, simple (And l) = true -> l <> [] /\ forallb simple l = true.
Proof. intros [|x r] H; [discriminate H|]. split; [discriminate|]. rewrite <- simple_go. exact H. Qed.
Lemma simple_Or : forall l, simple (Or l) = true -> l <> [] /\ forallb simple l = true.
Proof. intros [|x r] H; [discriminate H|]. split; [discriminate|]. rewrite <- simple_go. exact H. Qed.

Lemma wfe_And_intro : forall l, l <> [] -> forallb wfe l = true -> wfe (And l) = true.
Proof. intros [|x r] Hne H; [congruence|]. cbn [wfe]. rewrite wfe_go. exact H. Qed.
Lemma wfe_Or_intro : forall l, l <> [] -> forallb wfe l = true -> wfe (Or l) = true.
Proof. intros [|x r] Hne H; [congruence|]. cbn [wfe]. rewrite wfe_go. exact H. Qed.

Lemma simple_wfe : forall e, simple e = true -> wfe e = true.
Proof.
  induction e as [n|v|e IH|l IH|l IH|t a b IHt IHa IHb|ne a b IHa IHb|neg e IH] using bexp_ind2; intro H; try reflexivity; try (apply IH; exact H).
  - apply simple_And in H. destruct H as [Hne Hall]. apply wfe_And_intro; [exact Hne|].
    apply forallb_forall. intros x Hx. rewrite Forall_forall in IH. apply IH; [exact Hx|]. rewrite forallb_forall in Hall. apply Hall. exact Hx.
  - apply simple_Or in H. destruct H as [Hne Hall]. apply wfe_Or_intro; [exact Hne|].
    apply forallb_forall. intros x Hx. rewrite Forall_forall in IH. apply IH; [exact Hx|]. rewrite forallb_forall in Hall. apply Hall. exact Hx.
  - discriminate H.
  - cbn [simple wfe] in *. apply andb_true_iff in H. destruct H as [H1 H2]. rewrite IHa, IHb by assumption. reflexivity.
Qed.

(* ------------------------------------------------------------------ no JUMP_FORWARD without conditional expressions *)
Ltac nofwd_list next :=
  let t := fresh "t" in let Hin := fresh "Hin" in
  intros t Hin; cbn [In] in Hin;
  repeat (destruct Hin as [Hin|Hin]; [try discriminate Hin; try (destruct next; discriminate Hin)|]); try destruct Hin.

Lemma no_fwd_comp : forall e cnd p next c, simple e = true -> no_fwd (comp cnd e p next c).
Proof.
  induction e as [n|v|e IH|l IH|l IH|t a b IHt IHa IHb|ne a b IHa IHb|neg e IH] using bexp_ind2; intros cnd p next c Hs.
  - destruct cnd; cbn [comp]; nofwd_list next.
  - destruct cnd; cbn [comp]; nofwd_list next.
  - cbn [simple] in Hs. cbn [comp]. destruct cnd; [apply IH; assumption|].
    destruct e; try (apply no_fwd_app; [apply IH; assumption | nofwd_list next]).
    cbn [simple] in Hs. specialize (IH false p next c Hs). cbn [comp] in IH.
    intros t Hin. apply in_app_or in Hin. destruct Hin as [Hin|[Hin|[]]]; [|discriminate Hin].
    apply (IH t). apply in_or_app. left. assumption.
  - apply simple_And in Hs. destruct Hs as [_ Hall]. rewrite comp_And.
    set (n2 := if cnd then _ else _). clearbody n2. revert p.
    induction l as [|x r IHl]; intro p; [intros t []|].
    inversion IH as [|? ? Px Pr]; subst. cbn [forallb] in Hall. apply andb_true_iff in Hall. destruct Hall as [Hx Hr].
    destruct r as [|y s]; [cbn [comp_and]; apply Px; assumption|].
    destruct cnd.
    + rewrite comp_and_cons2. apply no_fwd_app; [apply Px; assumption | apply IHl; assumption].
    + rewrite comp_and_cons2f. apply no_fwd_app; [apply Px; assumption|]. apply no_fwd_app; [|apply IHl; assumption].
      nofwd_list n2.
  - apply simple_Or in Hs. destruct Hs as [_ Hall]. rewrite comp_Or.
    set (n2 := if cnd then _ else _). clearbody n2. revert p.
    induction l as [|x r IHl]; intro p; [intros t []|].
    inversion IH as [|? ? Px Pr]; subst. cbn [forallb] in Hall. apply andb_true_iff in Hall. destruct Hall as [Hx Hr].
    destruct r as [|y s]; [cbn [comp_or]; apply Px; assumption|].
    destruct cnd.
    + rewrite comp_or_cons2. apply no_fwd_app; [apply Px; assumption | apply IHl; assumption].
    + rewrite comp_or_cons2f. apply no_fwd_app; [apply Px; assumption|]. apply no_fwd_app; [|apply IHl; assumption].
      nofwd_list n2.
  - discriminate Hs.
  - cbn [simple] in Hs. apply andb_true_iff in Hs. destruct Hs as [Ha Hb]. cbn [comp].
    apply no_fwd_app; [apply IHa; assumption|]. apply no_fwd_app; [apply IHb; assumption|].
    apply no_fwd_app; [nofwd_list next|]. destruct cnd; nofwd_list next.
  - cbn [simple] in Hs. cbn [comp]. apply no_fwd_app; [apply IH; assumption|].
    destruct cnd; nofwd_list next.
Qed.

(* ------------------------------------------------------------------ the theorem *)
Lemma exec_load_elt : forall code rho f pc stk, instr_at code pc ILoadElt -> length code + 3 <= f + pc -> exec f rho code pc stk = OYield None.
Proof. intros code rho f pc stk Hat Hf. destruct (fuel_pos _ _ _ _ Hat Hf) as [f0 ->]. rewrite (exec_unfold f0 rho code pc stk _ Hat). reflexivity. Qed.
Lemma exec_yield : forall code rho f pc x stk, instr_at code pc IYield -> length code + 3 <= f + pc -> exec f rho code pc (x :: stk) = OYield (Some x).
Proof. intros code rho f pc x stk Hat Hf. destruct (fuel_pos _ _ _ _ Hat Hf) as [f0 ->]. rewrite (exec_unfold f0 rho code pc _ _ Hat). reflexivity. Qed.
Lemma exec_return : forall code rho f pc x stk, instr_at code pc IReturn -> length code + 3 <= f + pc -> exec f rho code pc (x :: stk) = OYield (Some x).
Proof. intros code rho f pc x stk Hat Hf. destruct (fuel_pos _ _ _ _ Hat Hf) as [f0 ->]. rewrite (exec_unfold f0 rho code pc _ _ Hat). reflexivity. Qed.
Lemma exec_push_comp : forall code rho f pc stk, instr_at code pc IPushComp -> length code + 3 <= f + pc ->
  exists f0, f = S f0 /\ exec f rho code pc stk = exec f0 rho code (S pc) stk.
Proof. intros code rho f pc stk Hat Hf. destruct (fuel_pos _ _ _ _ Hat Hf) as [f0 ->]. exists f0. split; [reflexivity|]. rewrite (exec_unfold f0 rho code pc stk _ Hat). reflexivity. Qed.

(* code = pre ++ seg ++ suf: the instruction k places after seg *)
Lemma instr_at_after : forall pre seg suf k ins,
  nth_error suf k = Some ins -> instr_at (pre ++ seg ++ suf) (pos_of (length pre) + length seg + k) ins.
Proof.
  intros pre seg suf k ins H. rewrite app_assoc. rewrite <- (app_nil_r suf).
  replace (pos_of (length pre) + length seg + k) with (pos_of (length (pre ++ seg)) + k) by (rewrite pos_of_app; reflexivity).
  apply instr_at_mid. assumption.
Qed.

(* a condition at the head of `seg ++ suf`, preceded by pre *)
Lemma cond_code_sound : forall e rho pre suf fuel,
  wfe e = true -> sound_at e ->
  let code := pre ++ comp true e (pos_of (length pre)) TTop false ++ suf in
  length code + 3 <= fuel + pos_of (length pre) ->
  (forall f, length code + 3 <= f + (pos_of (length pre) + elen true e) -> exec f rho code (pos_of (length pre) + elen true e) [] = OYield None) ->
  exec fuel rho code (pos_of (length pre)) [] = if truthy (eval rho e) then OYield None else OSkip.
Proof.
  intros e rho pre suf fuel Hs He code Hfuel Hrest.
  assert (H := He true code pre suf TTop false rho [] fuel Hs eq_refl Hfuel ltac:(intros t Ht; discriminate Ht)).
  unfold post_cond in H. destruct (truthy (eval rho e)); cbn [Bool.eqb] in H; [|exact H].
  destruct H as [f' [Hf E]]. rewrite E. apply Hrest. exact Hf.
Qed.

Lemma val_code_sound : forall e rho pre suf fuel,
  wfe e = true -> sound_at e ->
  let code := pre ++ comp false e (pos_of (length pre)) TTop false ++ suf in
  length code + 3 <= fuel + pos_of (length pre) ->
  (forall f, length code + 3 <= f + (pos_of (length pre) + elen false e) ->
             exec f rho code (pos_of (length pre) + elen false e) [eval rho e] = OYield (Some (eval rho e))) ->
  exec fuel rho code (pos_of (length pre)) [] = OYield (Some (eval rho e)).
Proof.
  intros e rho pre suf fuel Hs He code Hfuel Hrest.
  destruct (use_val e code pre suf TTop false rho [] fuel He Hs eq_refl Hfuel) as [f' [Hf E]].
  rewrite E. apply Hrest. exact Hf.
Qed.

Definition raw (ps : position) (e : bexp) : list instr :=
  match ps with
  | PFilter => comp true e (pos_of 0) TTop false ++ [ILoadElt; IYield]
  | PFilter2 => comp true e (pos_of 0) TTop false ++ [IPushComp; ILoadElt; IYield]
  | PFilter3 => IPushComp :: comp true e (pos_of 1) TTop false ++ [ILoadElt; IYield]
  | PElt => comp false e (pos_of 0) TTop false ++ [IYield]
  | PLambda => comp false e (pos_of 0) TTop false ++ [IReturn]
  end.

Lemma compile_raw : forall ps e, compile ps e = thread (raw ps e).
Proof. intros [] e; reflexivity. Qed.

(* the stream before jump threading *)
Lemma raw_sound : forall ps e rho, wfe e = true -> exec (S (length (raw ps e))) rho (raw ps e) 2 [] = meaning ps rho e.
Proof.
  intros ps e rho Hw. destruct (sound_all e) as [He _].
  destruct ps; unfold raw, meaning.
  - (* filter *)
    change (comp true e (pos_of 0) TTop false ++ [ILoadElt; IYield]) with ([] ++ comp true e (pos_of (length (@nil instr))) TTop false ++ [ILoadElt; IYield]).
    change 2 with (pos_of (length (@nil instr))) at 1.
    apply cond_code_sound; [assumption | assumption | cbn [length app]; unfold pos_of; lia |].
    intros f Hf. rewrite <- (length_comp e true (pos_of (length (@nil instr))) TTop false) in *.
    rewrite <- (Nat.add_0_r (_ + length _)) in *. apply exec_load_elt; [|assumption].
    apply instr_at_after. reflexivity.
  - (* filter of the first of two loops *)
    change (comp true e (pos_of 0) TTop false ++ [IPushComp; ILoadElt; IYield]) with ([] ++ comp true e (pos_of (length (@nil instr))) TTop false ++ [IPushComp; ILoadElt; IYield]).
    change 2 with (pos_of (length (@nil instr))) at 1.
    apply cond_code_sound; [assumption | assumption | cbn [length app]; unfold pos_of; lia |].
    intros f Hf. rewrite <- (length_comp e true (pos_of (length (@nil instr))) TTop false) in *.
    set (code := [] ++ comp true e (pos_of (length (@nil instr))) TTop false ++ [IPushComp; ILoadElt; IYield]) in *.
    set (q := pos_of (length (@nil instr)) + length (comp true e (pos_of (length (@nil instr))) TTop false)) in *.
    assert (Hat0 : instr_at code (q + 0) IPushComp) by (apply instr_at_after; reflexivity).
    assert (Hat1 : instr_at code (q + 1) ILoadElt) by (apply instr_at_after; reflexivity).
    rewrite Nat.add_0_r in Hat0.
    destruct (exec_push_comp code rho f q [] Hat0 Hf) as [f0 [-> E]]. rewrite E.
    replace (S q) with (q + 1) by lia. apply exec_load_elt; [assumption | lia].
  - (* filter of the second loop *)
    set (code := IPushComp :: comp true e (pos_of 1) TTop false ++ [ILoadElt; IYield]).
    assert (Hat0 : instr_at code 2 IPushComp) by (split; [lia | reflexivity]).
    destruct (exec_push_comp code rho (S (length code)) 2 [] Hat0 ltac:(lia)) as [f0 [Hf0 E]]. rewrite E.
    injection Hf0 as <-.
    change code with ([IPushComp] ++ comp true e (pos_of (length [IPushComp])) TTop false ++ [ILoadElt; IYield]).
    change 3 with (pos_of (length [IPushComp])).
    apply cond_code_sound; [assumption | assumption | unfold code; cbn [length app]; unfold pos_of; lia |].
    intros f Hf. rewrite <- (length_comp e true (pos_of (length [IPushComp])) TTop false) in *.
    rewrite <- (Nat.add_0_r (_ + length _)) in *. apply exec_load_elt; [|assumption].
    apply instr_at_after. reflexivity.
  - (* element *)
    change (comp false e (pos_of 0) TTop false ++ [IYield]) with ([] ++ comp false e (pos_of (length (@nil instr))) TTop false ++ [IYield]).
    change 2 with (pos_of (length (@nil instr))) at 1.
    apply val_code_sound; [assumption | assumption | cbn [length app]; unfold pos_of; lia |].
    intros f Hf. rewrite <- (length_comp e false (pos_of (length (@nil instr))) TTop false) in *.
    rewrite <- (Nat.add_0_r (_ + length _)) in *. apply exec_yield; [|assumption].
    apply instr_at_after. reflexivity.
  - (* lambda body *)
    change (comp false e (pos_of 0) TTop false ++ [IReturn]) with ([] ++ comp false e (pos_of (length (@nil instr))) TTop false ++ [IReturn]).
    change 2 with (pos_of (length (@nil instr))) at 1.
    apply val_code_sound; [assumption | assumption | cbn [length app]; unfold pos_of; lia |].
    intros f Hf. rewrite <- (length_comp e false (pos_of (length (@nil instr))) TTop false) in *.
    rewrite <- (Nat.add_0_r (_ + length _)) in *. apply exec_return; [|assumption].
    apply instr_at_after. reflexivity.
Qed.

(* ------------------------------------------------------------------ jump threading preserves the meaning of a stream *)
Section Thread.
  Variable rho : env.

  (* exec with the recursive call abstracted *)
  Definition ebody (code : list instr) (k : nat -> list val -> outcome) (pc : nat) (stk : list val) : outcome :=
    match nth_error code (pc - 2) with
    | None => OStuck
    | Some ins =>
        if Nat.ltb pc 2 then OStuck else
        let nxt := S pc in
        match ins, stk with
        | ILoad n, _ => k nxt (rho n :: stk)
        | IConst v, _ => k nxt (v :: stk)
        | INot, x :: r => k nxt (of_bool (negb (truthy x)) :: r)
        | ICmp ne, b :: a :: r => k nxt (of_bool (xorb ne (val_eqb a b)) :: r)
        | IIs neg, x :: r => k nxt (of_bool (xorb neg (val_eqb x VNone)) :: r)
        | ICopy, x :: r => k nxt (x :: x :: r)
        | IPopTop, _ :: r => k nxt r
        | IJump c t, x :: r => if Bool.eqb (truthy x) c then k t r else k nxt r
        | IJumpNone c t, x :: r => if Bool.eqb (val_eqb x VNone) c then k t r else k nxt r
        | IBack c, x :: r => if Bool.eqb (truthy x) c then OSkip else k nxt r
        | IBackNone c, x :: r => if Bool.eqb (val_eqb x VNone) c then OSkip else k nxt r
        | IFwd t, _ => k t stk
        | IPushComp, _ => k nxt stk
        | ILoadElt, _ => OYield None
        | IYield, x :: _ => OYield (Some x)
        | IReturn, x :: _ => OYield (Some x)
        | _, _ => OStuck
        end
    end.

  Lemma exec_S : forall code f pc stk, exec (S f) rho code pc stk = ebody code (exec f rho code) pc stk.
  Proof. reflexivity. Qed.

  Lemma ebody_ext : forall code (k1 k2 : nat -> list val -> outcome) pc stk,
    (forall pc' stk', k1 pc' stk' <> OStuck -> k2 pc' stk' = k1 pc' stk') ->
    ebody code k1 pc stk <> OStuck -> ebody code k2 pc stk = ebody code k1 pc stk.
  Proof.
    intros code k1 k2 pc stk Hk H. unfold ebody in *.
    destruct (nth_error code (pc - 2)) as [ins|]; [|reflexivity].
    destruct (Nat.ltb pc 2); [reflexivity|].
    destruct ins; destruct stk as [|x [|y r]]; try reflexivity; try (apply Hk; exact H);
      try (destruct (Bool.eqb _ _); try reflexivity; apply Hk; exact H).
  Qed.

  Lemma exec_mono1 : forall code f pc stk, exec f rho code pc stk <> OStuck -> exec (S f) rho code pc stk = exec f rho code pc stk.
  Proof.
    intros code. induction f as [|f IH]; intros pc stk H; [exfalso; apply H; reflexivity|].
    rewrite (exec_S code (S f)), (exec_S code f) in *. apply ebody_ext; [|exact H].
    intros pc' stk' H'. apply IH. exact H'.
  Qed.

  Lemma exec_mono : forall code f' f pc stk, f' <= f -> exec f' rho code pc stk <> OStuck -> exec f rho code pc stk = exec f' rho code pc stk.
  Proof.
    intros code f' f pc stk Hle H. induction Hle as [|f Hle IH]; [reflexivity|].
    rewrite exec_mono1; [exact IH | rewrite IH; exact H].
  Qed.

  (* jumping to the end of a chain of JUMP_FORWARDs instead of its start changes nothing *)
  Lemma ft_chain : forall code n t f stk, exec f rho code t stk <> OStuck ->
    exists f', f' <= f /\ exec f rho code t stk = exec f' rho code (final_target n code t) stk.
  Proof.
    intros code. induction n as [|n IH]; intros t f stk H; [exists f; split; [lia|reflexivity]|].
    cbn [final_target]. destruct (nth_error code (t - 2)) as [ins|] eqn:En; [|exists f; split; [lia|reflexivity]].
    destruct ins; try (exists f; split; [lia|reflexivity]).
    destruct (Nat.leb 2 t) eqn:Et; [|exists f; split; [lia|reflexivity]].
    destruct f as [|f0]; [exfalso; apply H; reflexivity|].
    assert (Hstep : exec (S f0) rho code t stk = exec f0 rho code t0 stk).
    { rewrite exec_S. unfold ebody. rewrite En. apply Nat.leb_le in Et.
      replace (t <? 2) with false by (symmetry; apply Nat.ltb_ge; exact Et). reflexivity. }
    rewrite Hstep in *. destruct (IH t0 f0 stk H) as [f' [Hle E]]. exists f'. split; [lia|exact E].
  Qed.

  Lemma nth_thread : forall code i,
    nth_error (thread code) i =
    match nth_error code i with
    | Some ins => Some (match target_of ins with Some t => retarget ins (final_target (length code) code t) | None => ins end)
    | None => None
    end.
  Proof. intros code i. unfold thread. rewrite nth_error_map. destruct (nth_error code i); reflexivity. Qed.

  Theorem exec_thread : forall code f pc stk,
    exec f rho code pc stk <> OStuck -> exec f rho (thread code) pc stk = exec f rho code pc stk.
  Proof.
    intros code f. induction f as [f IHf] using lt_wf_ind. intros pc stk H.
    destruct f as [|f0]; [reflexivity|].
    rewrite (exec_S (thread code)), (exec_S code) in *. unfold ebody in *. rewrite nth_thread.
    destruct (nth_error code (pc - 2)) as [ins|]; [|reflexivity].
    destruct (Nat.ltb pc 2); [reflexivity|].
    assert (Hsame : forall pc' stk', exec f0 rho code pc' stk' <> OStuck -> exec f0 rho (thread code) pc' stk' = exec f0 rho code pc' stk')
      by (intros; apply IHf; [lia|assumption]).
    assert (Hjump : forall t stk', exec f0 rho code t stk' <> OStuck ->
              exec f0 rho (thread code) (final_target (length code) code t) stk' = exec f0 rho code t stk').
    { intros t stk' Hn. destruct (ft_chain code (length code) t f0 stk' Hn) as [f' [Hle E]].
      rewrite E. assert (Hn' : exec f' rho code (final_target (length code) code t) stk' <> OStuck) by (rewrite <- E; exact Hn).
      assert (Ht : exec f' rho (thread code) (final_target (length code) code t) stk' = exec f' rho code (final_target (length code) code t) stk').
      { apply IHf; [lia | exact Hn']. }
      rewrite <- Ht. apply exec_mono; [exact Hle | rewrite Ht; exact Hn']. }
    destruct ins; cbn [target_of retarget]; destruct stk as [|x [|y r]]; try reflexivity; try (apply Hsame; exact H); try (apply Hjump; exact H);
      try (destruct (Bool.eqb _ _); try reflexivity; first [apply Hsame; exact H | apply Hjump; exact H]).
  Qed.
End Thread.

(* ------------------------------------------------------------------ the theorem with conditional expressions *)
Lemma meaning_not_stuck : forall ps rho e, meaning ps rho e <> OStuck.
Proof. intros [] rho e; unfold meaning; try destruct (truthy (eval rho e)); discriminate. Qed.

Lemma length_thread : forall code, length (thread code) = length code.
Proof. intro code. unfold thread. apply map_length. Qed.

Theorem compile_sound_full : forall ps e rho, wfe e = true -> run_code rho (compile ps e) = meaning ps rho e.
Proof.
  intros ps e rho Hw. unfold run_code. rewrite compile_raw, length_thread.
  rewrite exec_thread; [apply raw_sound; exact Hw|].
  rewrite raw_sound by exact Hw. apply meaning_not_stuck.
Qed.

Theorem compile_sound_simple : forall ps e rho, simple e = true -> run_code rho (compile ps e) = meaning ps rho e.
Proof. intros ps e rho Hs. apply compile_sound_full. apply simple_wfe. exact Hs. Qed.
