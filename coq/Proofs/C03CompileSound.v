(* C03 - sanity of the code-generation model: running the compiled stream (Model/C03Decomp.v, exec) gives the meaning of the
   source expression (eval), for every expression without conditional expressions, at every modelled position. *)
From Coq Require Import List Bool Arith Lia.
Import ListNotations.
Require Import PonyV.Model.C03Bexp PonyV.Model.C03Decomp PonyV.Proofs.C03Checker PonyV.Proofs.C03Roundtrip.

(* ------------------------------------------------------------------ length of the generated code *)
Lemma elen_list_cons2' : forall cnd x y s,
  elen_list cnd (x :: y :: s) = (if cnd then elen true x else elen false x + 3) + elen_list cnd (y :: s).
Proof. reflexivity. Qed.

Lemma comp_and_cons2f : forall next next2 c x y s p,
  comp_and false next next2 c (x :: y :: s) p =
  comp false x p next c ++ [ICopy; jump_to false next2; IPopTop] ++ comp_and false next next2 c (y :: s) (p + elen false x + 3).
Proof. reflexivity. Qed.
Lemma comp_or_cons2f : forall next next2 c x y s p,
  comp_or false next next2 c (x :: y :: s) p =
  comp false x p next c ++ [ICopy; jump_to true next2; IPopTop] ++ comp_or false next next2 c (y :: s) (p + elen false x + 3).
Proof. reflexivity. Qed.

Lemma length_comp : forall e cnd p next c, length (comp cnd e p next c) = elen cnd e.
Proof.
  induction e as [n|v|e IH|l IH|l IH|t a b IHt IHa IHb|ne a b IHa IHb|neg e IH] using bexp_ind2; intros cnd p next c.
  - destruct cnd; reflexivity.
  - destruct cnd; reflexivity.
  - cbn [comp elen]. destruct cnd; [apply IH|].
    destruct e; try (rewrite app_length, IH; cbn [length]; lia).
    (* Not (IsNone ..) *)
    rewrite app_length. cbn [length].
    specialize (IH false p next c). cbn [comp elen] in IH. rewrite app_length in IH. cbn [length] in IH. lia.
  - rewrite comp_And, elen_And.
    set (n2 := if cnd then _ else _). clearbody n2. revert p.
    induction l as [|x r IHl]; intro p; [reflexivity|].
    inversion IH as [|? ? Px Pr]; subst.
    destruct r as [|y s]; [cbn [comp_and elen_list]; apply Px|].
    rewrite elen_list_cons2'. destruct cnd.
    + rewrite comp_and_cons2, app_length, Px, (IHl Pr). reflexivity.
    + rewrite comp_and_cons2f, !app_length, Px, (IHl Pr). cbn [length]. lia.
  - rewrite comp_Or, elen_Or.
    set (n2 := if cnd then _ else _). clearbody n2. revert p.
    induction l as [|x r IHl]; intro p; [reflexivity|].
    inversion IH as [|? ? Px Pr]; subst.
    destruct r as [|y s]; [cbn [comp_or elen_list]; apply Px|].
    rewrite elen_list_cons2'. destruct cnd.
    + rewrite comp_or_cons2, app_length, Px, (IHl Pr). reflexivity.
    + rewrite comp_or_cons2f, !app_length, Px, (IHl Pr). cbn [length]. lia.
  - cbn [comp elen]. rewrite !app_length, IHt, IHa, IHb. cbn [length]. lia.
  - cbn [comp elen]. rewrite !app_length, IHa, IHb. destruct cnd; cbn [length]; lia.
  - cbn [comp elen]. rewrite app_length, IH. destruct cnd; cbn [length]; lia.
Qed.


(* ------------------------------------------------------------------ single steps of exec *)
Definition instr_at (code : list instr) (pc : nat) (ins : instr) : Prop := 2 <= pc /\ nth_error code (pc - 2) = Some ins.

(* (fuel, pc, stack) --> (fuel', pc', stack'): same final outcome, and the fuel still covers the rest of the stream *)
Definition steps (code : list instr) (rho : env) (a b : nat * nat * list val) : Prop :=
  let '(f, p, s) := a in let '(f', p', s') := b in
  length code + 3 <= f' + p' /\ exec f rho code p s = exec f' rho code p' s'.

Lemma steps_trans : forall code rho a b c, steps code rho a b -> steps code rho b c -> steps code rho a c.
Proof. intros code rho [[f p] s] [[f1 p1] s1] [[f2 p2] s2] [H1 E1] [H2 E2]. split; [assumption | congruence]. Qed.

Lemma steps_refl : forall code rho f p s, length code + 3 <= f + p -> steps code rho (f, p, s) (f, p, s).
Proof. intros. split; [assumption|reflexivity]. Qed.

Lemma instr_at_lt : forall code pc ins, instr_at code pc ins -> pc - 2 < length code.
Proof. intros code pc ins [_ H]. apply nth_error_Some. congruence. Qed.

Lemma exec_unfold : forall f rho code pc stk ins, instr_at code pc ins ->
  exec (S f) rho code pc stk =
  match ins, stk with
  | ILoad n, _ => exec f rho code (S pc) (rho n :: stk)
  | IConst v, _ => exec f rho code (S pc) (v :: stk)
  | INot, x :: r => exec f rho code (S pc) (of_bool (negb (truthy x)) :: r)
  | ICmp ne, b :: a :: r => exec f rho code (S pc) (of_bool (xorb ne (val_eqb a b)) :: r)
  | IIs neg, x :: r => exec f rho code (S pc) (of_bool (xorb neg (val_eqb x VNone)) :: r)
  | ICopy, x :: r => exec f rho code (S pc) (x :: x :: r)
  | IPopTop, _ :: r => exec f rho code (S pc) r
  | IJump c t, x :: r => if Bool.eqb (truthy x) c then exec f rho code t r else exec f rho code (S pc) r
  | IJumpNone c t, x :: r => if Bool.eqb (val_eqb x VNone) c then exec f rho code t r else exec f rho code (S pc) r
  | IBack c, x :: r => if Bool.eqb (truthy x) c then OSkip else exec f rho code (S pc) r
  | IBackNone c, x :: r => if Bool.eqb (val_eqb x VNone) c then OSkip else exec f rho code (S pc) r
  | IFwd t, _ => exec f rho code t stk
  | IPushComp, _ => exec f rho code (S pc) stk
  | ILoadElt, _ => OYield None
  | IYield, x :: _ => OYield (Some x)
  | IReturn, x :: _ => OYield (Some x)
  | _, _ => OStuck
  end.
Proof.
  intros f rho code pc stk ins [Hpc Hn]. cbn [exec]. rewrite Hn.
  replace (pc <? 2) with false by (symmetry; apply Nat.ltb_ge; assumption). reflexivity.
Qed.

Lemma fuel_pos : forall code pc ins f, instr_at code pc ins -> length code + 3 <= f + pc -> exists f0, f = S f0.
Proof.
  intros code pc ins f H Hf. pose proof (instr_at_lt _ _ _ H) as Hlt. destruct H as [Hpc _].
  destruct f as [|f0]; [lia|]. exists f0. reflexivity.
Qed.

(* an instruction that falls through, transforming the stack *)
Lemma step_simple : forall code rho pc ins stk stk' f,
  instr_at code pc ins -> length code + 3 <= f + pc ->
  (forall f0, exec (S f0) rho code pc stk = exec f0 rho code (S pc) stk') ->
  exists f', steps code rho (f, pc, stk) (f', S pc, stk').
Proof.
  intros code rho pc ins stk stk' f Hat Hf Hex. destruct (fuel_pos _ _ _ _ Hat Hf) as [f0 ->].
  exists f0. split; [lia | apply Hex].
Qed.

Lemma instr_at_mid : forall pre seg suf k ins,
  nth_error seg k = Some ins -> instr_at (pre ++ seg ++ suf) (pos_of (length pre) + k) ins.
Proof.
  intros pre seg suf k ins H. split; [unfold pos_of; lia|].
  replace (pos_of (length pre) + k - 2) with (length pre + k) by (unfold pos_of; lia).
  rewrite nth_error_app2 by lia. replace (length pre + k - length pre) with k by lia.
  rewrite nth_error_app1; [assumption|]. apply nth_error_Some. congruence.
Qed.
