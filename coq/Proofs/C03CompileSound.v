(* C03 - sanity of the code-generation model: running the compiled stream (Model/C03Decomp.v, exec) gives the meaning of the
   source expression (eval), for every expression without conditional expressions, at every modelled position. *)
From Coq Require Import List Bool Arith Lia.
Import ListNotations.
Require Import PonyV.Model.C03Bexp PonyV.Model.C03Decomp PonyV.Proofs.C03Checker PonyV.Proofs.C03Roundtrip.

(* ------------------------------------------------------------------ length of the generated code *)
Lemma elen_list_cons2' : forall cnd x y s,
  elen_list cnd (x :: y :: s) = (if cnd then elen true x else elen false x + 3) + elen_list cnd (y :: s).
Proof. reflexivity. Qed.

Lemma comp_and_cons2f : forall next next2 c x y s p,
  comp_and false next next2 c (x :: y :: s) p =
  comp false x p next c ++ [ICopy; jump_to false next2; IPopTop] ++ comp_and false next next2 c (y :: s) (p + elen false x + 3).
Proof. reflexivity. Qed.
Lemma comp_or_cons2f : forall next next2 c x y s p,
  comp_or false next next2 c (x :: y :: s) p =
  comp false x p next c ++ [ICopy; jump_to true next2; IPopTop] ++ comp_or false next next2 c (y :: s) (p + elen false x + 3).
Proof. reflexivity. Qed.

Lemma length_comp : forall e cnd p next c, length (comp cnd e p next c) = elen cnd e.
Proof.
  induction e as [n|v|e IH|l IH|l IH|t a b IHt IHa IHb|ne a b IHa IHb|neg e IH] using bexp_ind2; intros cnd p next c.
  - destruct cnd; reflexivity.
  - destruct cnd; reflexivity.
  - cbn [comp elen]. destruct cnd; [apply IH|].
    destruct e; try (rewrite app_length, IH; cbn [length]; lia).
    (* Not (IsNone ..) *)
    rewrite app_length. cbn [length].
    specialize (IH false p next c). cbn [comp elen] in IH. rewrite app_length in IH. cbn [length] in IH. lia.
  - rewrite comp_And, elen_And.
    set (n2 := if cnd then _ else _). clearbody n2. revert p.
    induction l as [|x r IHl]; intro p; [reflexivity|].
    inversion IH as [|? ? Px Pr]; subst.
    destruct r as [|y s]; [cbn [comp_and elen_list]; apply Px|].
    rewrite elen_list_cons2'. destruct cnd.
    + rewrite comp_and_cons2, app_length, Px, (IHl Pr). reflexivity.
    + rewrite comp_and_cons2f, !app_length, Px, (IHl Pr). cbn [length]. lia.
  - rewrite comp_Or, elen_Or.
    set (n2 := if cnd then _ else _). clearbody n2. revert p.
    induction l as [|x r IHl]; intro p; [reflexivity|].
    inversion IH as [|? ? Px Pr]; subst.
    destruct r as [|y s]; [cbn [comp_or elen_list]; apply Px|].
    rewrite elen_list_cons2'. destruct cnd.
    + rewrite comp_or_cons2, app_length, Px, (IHl Pr). reflexivity.
    + rewrite comp_or_cons2f, !app_length, Px, (IHl Pr). cbn [length]. lia.
  - cbn [comp elen]. rewrite !app_length, IHt, IHa, IHb. cbn [length]. lia.
  - cbn [comp elen]. rewrite !app_length, IHa, IHb. destruct cnd; cbn [length]; lia.
  - cbn [comp elen]. rewrite app_length, IH. destruct cnd; cbn [length]; lia.
Qed.


(* ------------------------------------------------------------------ single steps of exec *)
Definition instr_at (code : list instr) (pc : nat) (ins : instr) : Prop := 2 <= pc /\ nth_error code (pc - 2) = Some ins.

(* (fuel, pc, stack) --> (fuel', pc', stack'): same final outcome, and the fuel still covers the rest of the stream *)
Definition steps (code : list instr) (rho : env) (a b : nat * nat * list val) : Prop :=
  let '(f, p, s) := a in let '(f', p', s') := b in
  length code + 3 <= f' + p' /\ exec f rho code p s = exec f' rho code p' s'.

Lemma steps_trans : forall code rho a b c, steps code rho a b -> steps code rho b c -> steps code rho a c.
Proof. intros code rho [[f p] s] [[f1 p1] s1] [[f2 p2] s2] [H1 E1] [H2 E2]. split; [assumption | congruence]. Qed.

Lemma steps_refl : forall code rho f p s, length code + 3 <= f + p -> steps code rho (f, p, s) (f, p, s).
Proof. intros. split; [assumption|reflexivity]. Qed.

Lemma instr_at_lt : forall code pc ins, instr_at code pc ins -> pc - 2 < length code.
Proof. intros code pc ins [_ H]. apply nth_error_Some. congruence. Qed.

Lemma exec_unfold : forall f rho code pc stk ins, instr_at code pc ins ->
  exec (S f) rho code pc stk =
  match ins, stk with
  | ILoad n, _ => exec f rho code (S pc) (rho n :: stk)
  | IConst v, _ => exec f rho code (S pc) (v :: stk)
  | INot, x :: r => exec f rho code (S pc) (of_bool (negb (truthy x)) :: r)
  | ICmp ne, b :: a :: r => exec f rho code (S pc) (of_bool (xorb ne (val_eqb a b)) :: r)
  | IIs neg, x :: r => exec f rho code (S pc) (of_bool (xorb neg (val_eqb x VNone)) :: r)
  | ICopy, x :: r => exec f rho code (S pc) (x :: x :: r)
  | IPopTop, _ :: r => exec f rho code (S pc) r
  | IJump c t, x :: r => if Bool.eqb (truthy x) c then exec f rho code t r else exec f rho code (S pc) r
  | IJumpNone c t, x :: r => if Bool.eqb (val_eqb x VNone) c then exec f rho code t r else exec f rho code (S pc) r
  | IBack c, x :: r => if Bool.eqb (truthy x) c then OSkip else exec f rho code (S pc) r
  | IBackNone c, x :: r => if Bool.eqb (val_eqb x VNone) c then OSkip else exec f rho code (S pc) r
  | IFwd t, _ => exec f rho code t stk
  | IPushComp, _ => exec f rho code (S pc) stk
  | ILoadElt, _ => OYield None
  | IYield, x :: _ => OYield (Some x)
  | IReturn, x :: _ => OYield (Some x)
  | _, _ => OStuck
  end.
Proof.
  intros f rho code pc stk ins [Hpc Hn]. cbn [exec]. rewrite Hn.
  replace (pc <? 2) with false by (symmetry; apply Nat.ltb_ge; assumption). reflexivity.
Qed.

Lemma fuel_pos : forall code pc ins f, instr_at code pc ins -> length code + 3 <= f + pc -> exists f0, f = S f0.
Proof.
  intros code pc ins f H Hf. pose proof (instr_at_lt _ _ _ H) as Hlt. destruct H as [Hpc _].
  destruct f as [|f0]; [lia|]. exists f0. reflexivity.
Qed.

(* an instruction that falls through, transforming the stack *)
Lemma step_simple : forall code rho pc ins stk stk' f,
  instr_at code pc ins -> length code + 3 <= f + pc ->
  (forall f0, exec (S f0) rho code pc stk = exec f0 rho code (S pc) stk') ->
  exists f', steps code rho (f, pc, stk) (f', S pc, stk').
Proof.
  intros code rho pc ins stk stk' f Hat Hf Hex. destruct (fuel_pos _ _ _ _ Hat Hf) as [f0 ->].
  exists f0. split; [lia | apply Hex].
Qed.

Lemma instr_at_mid : forall pre seg suf k ins,
  nth_error seg k = Some ins -> instr_at (pre ++ seg ++ suf) (pos_of (length pre) + k) ins.
Proof.
  intros pre seg suf k ins H. split; [unfold pos_of; lia|].
  replace (pos_of (length pre) + k - 2) with (length pre + k) by (unfold pos_of; lia).
  rewrite nth_error_app2 by lia. replace (length pre + k - length pre) with k by lia.
  rewrite nth_error_app1; [assumption|]. apply nth_error_Some. congruence.
Qed.

(* ------------------------------------------------------------------ what a piece of code does *)
(* value context: from (p, stk) to (p', v :: stk) *)
Definition post_val (code : list instr) (rho : env) (v : val) (fuel p : nat) (stk : list val) (p' : nat) : Prop :=
  exists f', steps code rho (fuel, p, stk) (f', p', v :: stk).

(* condition context: if the truth value b equals c, control goes to `next` (the loop top = the element is skipped),
   otherwise it falls through to pend; the stack is stk1 afterwards *)
Definition post_cond (code : list instr) (rho : env) (b c : bool) (next : tgt) (fuel p : nat) (stk0 stk1 : list val) (pend : nat) : Prop :=
  if Bool.eqb b c then
    match next with
    | TAt t => exists f', steps code rho (fuel, p, stk0) (f', t, stk1)
    | TTop => exec fuel rho code p stk0 = OSkip
    end
  else exists f', steps code rho (fuel, p, stk0) (f', pend, stk1).

Lemma post_cond_pre : forall code rho b c next f p s f1 p1 s1 stk1 pend,
  steps code rho (f, p, s) (f1, p1, s1) -> post_cond code rho b c next f1 p1 s1 stk1 pend -> post_cond code rho b c next f p s stk1 pend.
Proof.
  intros code rho b c next f p s f1 p1 s1 stk1 pend Hs Hp. unfold post_cond in *.
  destruct (Bool.eqb b c).
  - destruct next as [|t].
    + destruct Hs as [_ E]. rewrite E. assumption.
    + destruct Hp as [f' Hp]. exists f'. eapply steps_trans; eassumption.
  - destruct Hp as [f' Hp]. exists f'. eapply steps_trans; eassumption.
Qed.

Lemma post_val_pre : forall code rho v f p s f1 p1 p',
  steps code rho (f, p, s) (f1, p1, s) -> post_val code rho v f1 p1 s p' -> post_val code rho v f p s p'.
Proof. intros code rho v f p s f1 p1 p' Hs [f' Hp]. exists f'. eapply steps_trans; eassumption. Qed.

(* the conditional jump at the end of a condition *)
Lemma step_jump : forall code rho q c next v stk f,
  instr_at code q (jump_to c next) -> length code + 3 <= f + q -> (forall t, next = TAt t -> q < t) ->
  post_cond code rho (truthy v) c next f q (v :: stk) stk (S q).
Proof.
  intros code rho q c next v stk f Hat Hf Hfw. destruct (fuel_pos _ _ _ _ Hat Hf) as [f0 ->].
  unfold post_cond, steps. 
  destruct next as [|t]; cbn [jump_to] in *.
  - destruct (Bool.eqb (truthy v) c) eqn:E.
    + rewrite (exec_unfold f0 rho code q (v :: stk) _ Hat), E. reflexivity.
    + exists f0. rewrite (exec_unfold f0 rho code q (v :: stk) _ Hat), E. split; [lia|reflexivity].
  - specialize (Hfw t eq_refl). destruct (Bool.eqb (truthy v) c) eqn:E; exists f0;
      rewrite (exec_unfold f0 rho code q (v :: stk) _ Hat), E; (split; [lia|reflexivity]).
Qed.

Lemma step_jump_none : forall code rho q c next v stk f,
  instr_at code q (jump_none_to c next) -> length code + 3 <= f + q -> (forall t, next = TAt t -> q < t) ->
  post_cond code rho (val_eqb v VNone) c next f q (v :: stk) stk (S q).
Proof.
  intros code rho q c next v stk f Hat Hf Hfw. destruct (fuel_pos _ _ _ _ Hat Hf) as [f0 ->].
  unfold post_cond, steps.
  destruct next as [|t]; cbn [jump_none_to] in *.
  - destruct (Bool.eqb (val_eqb v VNone) c) eqn:E.
    + rewrite (exec_unfold f0 rho code q (v :: stk) _ Hat), E. reflexivity.
    + exists f0. rewrite (exec_unfold f0 rho code q (v :: stk) _ Hat), E. split; [lia|reflexivity].
  - specialize (Hfw t eq_refl). destruct (Bool.eqb (val_eqb v VNone) c) eqn:E; exists f0;
      rewrite (exec_unfold f0 rho code q (v :: stk) _ Hat), E; (split; [lia|reflexivity]).
Qed.

Lemma truthy_of_bool : forall b, truthy (of_bool b) = b.
Proof. intros []; reflexivity. Qed.

(* ------------------------------------------------------------------ the statement proved by induction on the expression *)
Definition sound_at (e : bexp) : Prop :=
  forall cnd code pre suf next c rho stk fuel,
  has_ifexp e = false ->
  code = pre ++ comp cnd e (pos_of (length pre)) next c ++ suf ->
  length code + 3 <= fuel + pos_of (length pre) ->
  (forall t, next = TAt t -> pos_of (length pre) + elen cnd e <= t) ->
  if cnd then post_cond code rho (truthy (eval rho e)) c next fuel (pos_of (length pre)) stk stk (pos_of (length pre) + elen true e)
  else post_val code rho (eval rho e) fuel (pos_of (length pre)) stk (pos_of (length pre) + elen false e).

(* value-context use of an induction hypothesis, with the code re-associated by the caller *)
Lemma use_val : forall e code pre suf next c rho stk fuel,
  sound_at e -> has_ifexp e = false ->
  code = pre ++ comp false e (pos_of (length pre)) next c ++ suf ->
  length code + 3 <= fuel + pos_of (length pre) ->
  post_val code rho (eval rho e) fuel (pos_of (length pre)) stk (pos_of (length pre) + elen false e).
Proof.
  intros e code pre suf next c rho stk fuel H Hi Hc Hf.
  (* in value context `next` is not used by comp; any forward target will do *)
  assert (Hirr : forall n1 c1 n2 c2 p, comp false e p n1 c1 = comp false e p n2 c2).
  { clear. induction e as [n|v|e IH|l IH|l IH|t a b IHt IHa IHb|ne a b IHa IHb|neg e IH] using bexp_ind2; intros n1 c1 n2 c2 p;
      try reflexivity.
    - cbn [comp]. destruct e; try (rewrite (IH n1 c1 n2 c2 p); reflexivity).
      specialize (IH n1 c1 n2 c2 p). cbn [comp] in IH. apply app_inv_tail in IH. rewrite IH. reflexivity.
    - rewrite !comp_And. generalize (TAt (p + elen false (And l))). intro n0. revert p.
      induction l as [|x r IHl]; intro p; [reflexivity|]. inversion IH as [|? ? Px Pr]; subst.
      destruct r as [|y s]; [cbn [comp_and]; apply Px|].
      rewrite !comp_and_cons2f, (Px n1 c1 n2 c2 p), (IHl Pr). reflexivity.
    - rewrite !comp_Or. generalize (TAt (p + elen false (Or l))). intro n0. revert p.
      induction l as [|x r IHl]; intro p; [reflexivity|]. inversion IH as [|? ? Px Pr]; subst.
      destruct r as [|y s]; [cbn [comp_or]; apply Px|].
      rewrite !comp_or_cons2f, (Px n1 c1 n2 c2 p), (IHl Pr). reflexivity.
    - cbn [comp]. rewrite (IHa n1 c1 n2 c2), (IHb n1 c1 n2 c2). reflexivity.
    - cbn [comp]. rewrite (IHa n1 c1 n2 c2), (IHb n1 c1 n2 c2). reflexivity.
    - cbn [comp]. rewrite (IH n1 c1 n2 c2). reflexivity. }
  rewrite (Hirr next c TTop false) in Hc.
  apply (H false code pre suf TTop false rho stk fuel Hi Hc Hf). intros t Ht. discriminate Ht.
Qed.

(* ------------------------------------------------------------------ and / or over a list of operands *)
Lemma has_ifexp_And : forall l, has_ifexp (And l) = existsb has_ifexp l.
Proof. intro l. cbn [has_ifexp]. induction l as [|x r IH]; [reflexivity|]. cbn [existsb]. rewrite <- IH. reflexivity. Qed.
Lemma has_ifexp_Or : forall l, has_ifexp (Or l) = existsb has_ifexp l.
Proof. intro l. cbn [has_ifexp]. induction l as [|x r IH]; [reflexivity|]. cbn [existsb]. rewrite <- IH. reflexivity. Qed.

Lemma pos_of_app : forall (pre seg : list instr), pos_of (length (pre ++ seg)) = pos_of (length pre) + length seg.
Proof. intros. rewrite app_length. unfold pos_of. lia. Qed.

Lemma and_cond_list : forall l, Forall sound_at l -> l <> [] ->
  forall code pre suf next next2 c rho stk fuel pend,
  existsb has_ifexp l = false ->
  code = pre ++ comp_and true next next2 c l (pos_of (length pre)) ++ suf ->
  length code + 3 <= fuel + pos_of (length pre) ->
  pend = pos_of (length pre) + elen_list true l ->
  next2 = (if c then TAt pend else next) ->
  (forall t, next = TAt t -> pend <= t) ->
  post_cond code rho (truthy (eval_and rho l)) c next fuel (pos_of (length pre)) stk stk pend.
Proof.
  induction l as [|x r IHl]; intros HF Hne code pre suf next next2 c rho stk fuel pend Hif Hcode Hfuel Hpend Hn2 Hfw; [congruence|].
  inversion HF as [|? ? Hx Hr]; subst x0 l.
  cbn [existsb] in Hif. apply orb_false_iff in Hif. destruct Hif as [Hifx Hifr].
  destruct r as [|y s].
  - cbn [comp_and elen_list eval_and] in *. subst pend.
    apply (Hx true code pre suf next c rho stk fuel Hifx Hcode Hfuel). intros t Ht. apply Hfw. assumption.
  - rewrite comp_and_cons2, <- app_assoc in Hcode. rewrite elen_list_cons2' in Hpend.
    set (p := pos_of (length pre)) in *.
    assert (Hx' := Hx true code pre (comp_and true next next2 c (y :: s) (p + elen true x) ++ suf) next2 false rho stk fuel Hifx Hcode Hfuel).
    assert (Hfw2 : forall t, next2 = TAt t -> p + elen true x <= t).
    { intros t Ht. subst next2. destruct c; [injection Ht as <-; lia | apply Hfw in Ht; lia]. }
    specialize (Hx' Hfw2). fold p in Hx'. cbn [eval_and]. unfold post_cond in Hx'.
    destruct (truthy (eval rho x)) eqn:Etx; cbn [Bool.eqb] in Hx'.
    + (* x is true: fall through to the remaining operands *)
      destruct Hx' as [f1 Hs1]. eapply post_cond_pre; [exact Hs1|].
      assert (Hcode2 : code = (pre ++ comp true x p next2 false) ++ comp_and true next next2 c (y :: s) (p + elen true x) ++ suf)
        by (rewrite <- app_assoc; exact Hcode).
      assert (Hp2 : pos_of (length (pre ++ comp true x p next2 false)) = p + elen true x) by (rewrite pos_of_app, length_comp; reflexivity).
      rewrite <- Hp2 in Hcode2 |- *.
      apply (IHl Hr ltac:(discriminate) code _ suf next next2 c rho stk f1 pend Hifr Hcode2).
      * destruct Hs1 as [H _]. rewrite Hp2. exact H.
      * rewrite Hp2. lia.
      * assumption.
      * assumption.
    + (* x is false: the whole `and` is false *)
      unfold post_cond. subst next2. destruct c; cbn [Bool.eqb].
      * destruct Hx' as [f1 Hs1]. exists f1. exact Hs1.
      * exact Hx'.
Qed.

Lemma or_cond_list : forall l, Forall sound_at l -> l <> [] ->
  forall code pre suf next next2 c rho stk fuel pend,
  existsb has_ifexp l = false ->
  code = pre ++ comp_or true next next2 c l (pos_of (length pre)) ++ suf ->
  length code + 3 <= fuel + pos_of (length pre) ->
  pend = pos_of (length pre) + elen_list true l ->
  next2 = (if c then next else TAt pend) ->
  (forall t, next = TAt t -> pend <= t) ->
  post_cond code rho (truthy (eval_or rho l)) c next fuel (pos_of (length pre)) stk stk pend.
Proof.
  induction l as [|x r IHl]; intros HF Hne code pre suf next next2 c rho stk fuel pend Hif Hcode Hfuel Hpend Hn2 Hfw; [congruence|].
  inversion HF as [|? ? Hx Hr]; subst x0 l.
  cbn [existsb] in Hif. apply orb_false_iff in Hif. destruct Hif as [Hifx Hifr].
  destruct r as [|y s].
  - cbn [comp_or elen_list eval_or] in *. subst pend.
    apply (Hx true code pre suf next c rho stk fuel Hifx Hcode Hfuel). intros t Ht. apply Hfw. assumption.
  - rewrite comp_or_cons2, <- app_assoc in Hcode. rewrite elen_list_cons2' in Hpend.
    set (p := pos_of (length pre)) in *.
    assert (Hx' := Hx true code pre (comp_or true next next2 c (y :: s) (p + elen true x) ++ suf) next2 true rho stk fuel Hifx Hcode Hfuel).
    assert (Hfw2 : forall t, next2 = TAt t -> p + elen true x <= t).
    { intros t Ht. subst next2. destruct c; [apply Hfw in Ht; lia | injection Ht as <-; lia]. }
    specialize (Hx' Hfw2). fold p in Hx'. cbn [eval_or]. unfold post_cond in Hx'.
    destruct (truthy (eval rho x)) eqn:Etx; cbn [Bool.eqb] in Hx'.
    + (* x is true: the whole `or` is true *)
      unfold post_cond. rewrite Etx. subst next2. destruct c; cbn [Bool.eqb].
      * exact Hx'.
      * destruct Hx' as [f1 Hs1]. exists f1. exact Hs1.
    + (* x is false: go on *)
      destruct Hx' as [f1 Hs1]. eapply post_cond_pre; [exact Hs1|].
      assert (Hcode2 : code = (pre ++ comp true x p next2 true) ++ comp_or true next next2 c (y :: s) (p + elen true x) ++ suf)
        by (rewrite <- app_assoc; exact Hcode).
      assert (Hp2 : pos_of (length (pre ++ comp true x p next2 true)) = p + elen true x) by (rewrite pos_of_app, length_comp; reflexivity).
      rewrite <- Hp2 in Hcode2 |- *.
      apply (IHl Hr ltac:(discriminate) code _ suf next next2 c rho stk f1 pend Hifr Hcode2).
      * destruct Hs1 as [H _]. rewrite Hp2. exact H.
      * rewrite Hp2. lia.
      * assumption.
      * assumption.
Qed.
