(* C12: both ends of every relationship agree, for every history.  Views of the state, the invariant Inv_rel, its frame. *)
Require Import PonyV.Model.SessionBase PonyV.Model.SessionDb PonyV.Model.Session.
Require Import PonyV.Proofs.SessionLemmas PonyV.Proofs.SessionState PonyV.Proofs.SessionIdx.
From Coq Require Import Arith.

(* ---------------------------------------------------------------- views *)

Definition vex (s : sess) (o : oid) : bool := match get_obj s o with Some _ => true | None => false end.
Definition vlive (s : sess) (o : oid) : bool := match get_obj s o with Some ob => negb (is_del (o_st ob)) | None => false end.
Definition vent (s : sess) (o : oid) : nat := obj_ent s o.
(* the object a reference attribute points to (None: not loaded, or None) *)
Definition vref (s : sess) (o : oid) (a : nat) : option oid :=
  match obj_val s o a with Some (VRef x) => Some x | _ => None end.
Definition vitems (s : sess) (o : oid) (r : nat) : list oid := coll_items s o r.
Definition vslen (s : sess) (o : oid) : nat := match get_obj s o with Some ob => length (o_sets ob) | None => O end.

(* every object has one SetData slot per attribute of its entity *)
Definition Inv_sshape (sch : schema) (s : sess) : Prop :=
  forall o ob, get_obj s o = Some ob -> length (o_sets ob) = nattrs sch (o_ent ob).

(* b.a is a reference attribute whose reverse is attribute r of entity t *)
Definition is_ref_of (sch : schema) (s : sess) (b : oid) (a t r : nat) : Prop := ref_info sch (vent s b) a = Some (t, r).

Definition Inv_rel (sch : schema) (s : sess) : Prop :=
  (* typing: a loaded reference points to an existing object of the target entity *)
  (forall b a t r x, vex s b = true -> is_ref_of sch s b a t r -> vref s b a = Some x -> vex s x = true /\ vent s x = t) /\
  (* a live object is a member of the collection of the object it refers to *)
  (forall b a t r x, vlive s b = true -> is_ref_of sch s b a t r -> vref s b a = Some x -> In b (vitems s x r)) /\
  (* every member of a collection is live and refers back *)
  (forall x r b, In b (vitems s x r) -> vlive s b = true /\ exists a t, is_ref_of sch s b a t r /\ vref s b a = Some x).

Definition Pkr (sch : schema) (s : sess) : Prop :=
  s_dirty s <> O \/ (Inv_idx sch s /\ Inv_shape sch s /\ Inv_sshape sch s /\ Inv_rel sch s).

Lemma Pkr_Pk : forall sch s, Pkr sch s -> Pk sch s.
Proof. intros sch s [D|(I & SH & _)]. left; auto. right; auto. Qed.

Lemma sshape_vslen : forall sch s o, Inv_sshape sch s -> vex s o = true -> vslen s o = nattrs sch (vent s o).
Proof. intros sch s o SS E. unfold vex, vslen, vent, obj_ent in *. destruct (get_obj s o) as [ob|] eqn:G; try discriminate. apply (SS o ob G). Qed.

(* ---------------------------------------------------------------- frame: the relationship views are unchanged *)

Definition rframe (sch : schema) (s s' : sess) : Prop :=
  s_dirty s' = s_dirty s /\
  forall o, vex s' o = vex s o /\ vlive s' o = vlive s o /\ vent s' o = vent s o /\ vslen s' o = vslen s o /\
            (forall a t r, ref_info sch (vent s o) a = Some (t, r) -> vref s' o a = vref s o a) /\
            (forall r y, In y (vitems s' o r) <-> In y (vitems s o r)).

Lemma rframe_refl : forall sch s, rframe sch s s.
Proof. intros sch s. split; auto. intros o. split; [|split; [|split; [|split; [|split]]]]; auto. intros; tauto. Qed.

Lemma rframe_trans : forall sch s1 s2 s3, rframe sch s1 s2 -> rframe sch s2 s3 -> rframe sch s1 s3.
Proof.
  intros sch s1 s2 s3 [D1 F1] [D2 F2]. split. congruence. intros o.
  destruct (F1 o) as (A1 & A2 & A3 & A6 & A4 & A5). destruct (F2 o) as (B1 & B2 & B3 & B6 & B4 & B5).
  split. congruence. split. congruence. split. congruence. split. congruence. split.
  - intros a t r H. rewrite (B4 a t r) by (rewrite A3; exact H). apply (A4 a t r H).
  - intros r y. split; intro H. apply A5. apply B5. exact H. apply B5. apply A5. exact H.
Qed.

Lemma rframe_Inv : forall sch s s', rframe sch s s' -> Inv_rel sch s -> Inv_rel sch s'.
Proof.
  intros sch s s' [_ F] (R0 & R1 & R2). unfold Inv_rel, is_ref_of in *. split; [|split].
  - intros b a t r x H H0 H1. destruct (F b) as (A1 & A2 & A3 & _ & A4 & A5). rewrite A1 in H. rewrite A3 in H0. rewrite (A4 a t r H0) in H1.
    destruct (R0 b a t r x H H0 H1) as [E1 E2]. destruct (F x) as (X1 & _ & X3 & _). rewrite X1, X3. auto.
  - intros b a t r x H H0 H1. destruct (F b) as (A1 & A2 & A3 & _ & A4 & A5). rewrite A2 in H. rewrite A3 in H0. rewrite (A4 a t r H0) in H1.
    destruct (F x) as (_ & _ & _ & _ & _ & X5). apply X5. eapply R1; eauto.
  - intros x r b H. destruct (F x) as (_ & _ & _ & _ & _ & X5). apply X5 in H. destruct (R2 x r b H) as [L (a & t & H1 & H2)].
    destruct (F b) as (_ & A2 & A3 & _ & A4 & _). split. rewrite A2. exact L. exists a, t. rewrite A3. split. exact H1. rewrite (A4 a t r H1). exact H2.
Qed.

Lemma rframe_sshape : forall sch s s', rframe sch s s' -> Inv_sshape sch s -> Inv_sshape sch s'.
Proof.
  intros sch s s' [_ F] SS o ob' G'. destruct (F o) as (A1 & _ & A3 & A6 & _).
  unfold vex, vent, vslen, obj_ent in *. rewrite G' in *. destruct (get_obj s o) as [ob|] eqn:G; try discriminate.
  rewrite A6, A3. apply (SS o ob G).
Qed.

(* a state function that is a frame for both invariants *)
Definition Fr (sch : schema) (s s' : sess) : Prop := kframe sch s s' /\ rframe sch s s'.

Lemma Fr_refl : forall sch s, Fr sch s s. Proof. intros. split. apply kframe_refl. apply rframe_refl. Qed.
Lemma Fr_trans : forall sch s1 s2 s3, Fr sch s1 s2 -> Fr sch s2 s3 -> Fr sch s1 s3.
Proof. intros sch s1 s2 s3 [A B] [C D]. split. eapply kframe_trans; eauto. eapply rframe_trans; eauto. Qed.

Lemma Fr_Pkr : forall sch s s', Fr sch s s' -> Pkr sch s -> Pkr sch s'.
Proof.
  intros sch s s' [K R] [D|(I & SH & SS & RL)].
  - left. destruct R as [R _]. congruence.
  - right. split; [|split; [|split]]. eapply kframe_Inv; eauto. eapply kframe_shape; eauto. eapply rframe_sshape; eauto. eapply rframe_Inv; eauto.
Qed.

Lemma rframe_Pkr : forall sch s s', rframe sch s s' -> Pk sch s' -> Pkr sch s -> Pkr sch s'.
Proof.
  intros sch s s' R P [D|(I & SH & SS & RL)].
  - left. destruct R as [R _]. congruence.
  - destruct P as [D'|[I' SH']]. left; auto. right. split; [|split; [|split]]; auto. eapply rframe_sshape; eauto. eapply rframe_Inv; eauto.
Qed.

(* object-wise criterion *)
Definition oref (ob : obj) (a : nat) : option oid := match oval ob a with Some (VRef y) => Some y | _ => None end.
Definition oitems (ob : obj) (r : nat) : list oid := match oset ob r with Some sd => sd_items sd | None => [] end.

Definition robj_eq (sch : schema) (a b : obj) : Prop :=
  o_ent a = o_ent b /\ is_del (o_st a) = is_del (o_st b) /\ length (o_sets a) = length (o_sets b) /\
  (forall x t r, ref_info sch (o_ent a) x = Some (t, r) -> oref a x = oref b x) /\
  (forall r y, In y (oitems a r) <-> In y (oitems b r)).

Lemma robj_eq_refl : forall sch a, robj_eq sch a a.
Proof. intros. unfold robj_eq. split; [|split; [|split; [|split]]]; auto. intros; tauto. Qed.

Lemma robj_eq_trans : forall sch a b c, robj_eq sch a b -> robj_eq sch b c -> robj_eq sch a c.
Proof.
  intros sch a b c (A1 & A2 & A5 & A3 & A4) (B1 & B2 & B5 & B3 & B4). split. congruence. split. congruence. split. congruence. split.
  - intros x t r H. rewrite (A3 x t r H). apply (B3 x t r). rewrite <- A1. exact H.
  - intros r y. rewrite (A4 r y). apply B4.
Qed.

Lemma vref_get : forall s o ob a, get_obj s o = Some ob -> vref s o a = oref ob a.
Proof. intros. unfold vref, oref, obj_val. rewrite H. reflexivity. Qed.
Lemma vitems_get : forall s o ob r, get_obj s o = Some ob -> vitems s o r = oitems ob r.
Proof. intros. unfold vitems, coll_items, oitems. rewrite H. reflexivity. Qed.

Lemma rframe_objs : forall sch s s',
  s_dirty s' = s_dirty s -> length (s_objs s') = length (s_objs s) ->
  (forall o a, get_obj s o = Some a -> exists b, get_obj s' o = Some b /\ robj_eq sch a b) -> rframe sch s s'.
Proof.
  intros sch s s' D L H. split; auto. intros o.
  destruct (get_obj s o) as [a|] eqn:G.
  - destruct (H o a G) as (b & Hb & (E1 & E2 & E5 & E3 & E4)).
    unfold vex, vlive, vent, vslen, obj_ent. rewrite G, Hb. split; [reflexivity|]. split; [congruence|]. split; [congruence|]. split; [congruence|]. split.
    + intros x t r HR. rewrite (vref_get s' o b x Hb), (vref_get s o a x G). symmetry. apply (E3 x t r HR).
    + intros r y. rewrite (vitems_get s' o b r Hb), (vitems_get s o a r G). split; intro I; apply (E4 r y); exact I.
  - pose proof (get_obj_None_len s s' o L G) as G'. unfold vex, vlive, vent, vslen, vref, vitems, obj_ent, obj_val, coll_items. rewrite G, G'.
    split; [reflexivity|]. split; [reflexivity|]. split; [reflexivity|]. split; [reflexivity|]. split; [reflexivity|]. intros. tauto.
Qed.

Lemma rframe_fields : forall sch s s', s_objs s' = s_objs s -> s_dirty s' = s_dirty s -> rframe sch s s'.
Proof.
  intros sch s s' H D. apply rframe_objs; auto. congruence. intros o a G. exists a. split. unfold get_obj in *. congruence. apply robj_eq_refl.
Qed.

Lemma rframe_upd_obj : forall sch s o f, (forall ob, get_obj s o = Some ob -> robj_eq sch ob (f ob)) -> rframe sch s (upd_obj s o f).
Proof.
  intros sch s o f H. apply rframe_objs. apply upd_obj_dirty. apply upd_obj_length.
  intros o' a Ha. rewrite get_upd_obj. destruct (Nat.eqb o o') eqn:E.
  - apply Nat.eqb_eq in E. subst. rewrite Ha. simpl. exists (f a). split; auto.
  - exists a. split; auto. apply robj_eq_refl.
Qed.

Lemma rframe_put_obj : forall sch s o ob ob', get_obj s o = Some ob -> robj_eq sch ob ob' -> rframe sch s (put_obj s o ob').
Proof.
  intros sch s o ob ob' G K. apply rframe_objs. reflexivity. unfold put_obj, set_objs. cbn [s_objs]. apply upd_nth_length.
  intros o' a Ha. rewrite get_put_obj. destruct (Nat.eqb o o') eqn:E.
  - apply Nat.eqb_eq in E. subst. rewrite Ha. exists ob'. split; auto. congruence.
  - exists a. split; auto. apply robj_eq_refl.
Qed.

(* ---------------------------------------------------------------- functions that are frames for both invariants *)

Lemma robj_eq_pos : forall sch ob x, robj_eq sch ob (ob_set_pos ob x). Proof. intros. unfold robj_eq. split; [|split; [|split; [|split]]]; auto. intros; tauto. Qed.
Lemma robj_eq_wbit : forall sch ob a b, robj_eq sch ob (ob_put_wbit ob a b). Proof. intros. unfold robj_eq. split; [|split; [|split; [|split]]]; auto. intros; tauto. Qed.
Lemma robj_eq_dbval : forall sch ob a x, robj_eq sch ob (ob_put_dbval ob a x). Proof. intros. unfold robj_eq. split; [|split; [|split; [|split]]]; auto. intros; tauto. Qed.
Lemma robj_eq_seed : forall sch ob x, robj_eq sch ob (ob_set_seed ob x). Proof. intros. unfold robj_eq. split; [|split; [|split; [|split]]]; auto. intros; tauto. Qed.
Lemma robj_eq_wbits : forall sch ob x, robj_eq sch ob (ob_set_wbits ob x). Proof. intros. unfold robj_eq. split; [|split; [|split; [|split]]]; auto. intros; tauto. Qed.
Lemma robj_eq_pk : forall sch ob x, robj_eq sch ob (ob_set_pk ob x). Proof. intros. unfold robj_eq. split; [|split; [|split; [|split]]]; auto. intros; tauto. Qed.

Lemma robj_eq_st : forall sch ob st, is_del (o_st ob) = is_del st -> robj_eq sch ob (ob_set_st ob st).
Proof. intros. unfold robj_eq. split; [|split; [|split; [|split]]]; auto. intros; tauto. Qed.

Lemma oref_put_other : forall ob a v x, a <> x -> oref (ob_put_val ob a v) x = oref ob x.
Proof. intros. unfold oref. rewrite oval_put_other by assumption. reflexivity. Qed.

Lemma robj_eq_val : forall sch ob a v, ref_info sch (o_ent ob) a = None -> robj_eq sch ob (ob_put_val ob a v).
Proof.
  intros sch ob a v N. unfold robj_eq. split; [|split; [|split; [|split]]]; auto.
  - intros x t r H. destruct (Nat.eq_dec a x). subst. congruence. symmetry. apply oref_put_other. assumption.
  - intros; tauto.
Qed.

Lemma oitems_put_set_other : forall ob a sd r, a <> r -> oitems (ob_put_set ob a sd) r = oitems ob r.
Proof. intros. unfold oitems, oset, ob_put_set, ob_set_sets. cbn [o_sets]. rewrite nth_upd_nth_other by assumption. reflexivity. Qed.

Lemma oset_put_same_or : forall ob a sd, oset (ob_put_set ob a sd) a = sd \/ (oset (ob_put_set ob a sd) a = oset ob a /\ (length (o_sets ob) <= a)%nat).
Proof.
  intros. unfold oset, ob_put_set, ob_set_sets. cbn [o_sets]. destruct (lt_dec a (length (o_sets ob))).
  - left. apply nth_upd_nth_same. assumption.
  - right. split; [|lia]. assert (E : upd_nth (o_sets ob) a sd = o_sets ob).
    { revert a n. induction (o_sets ob) as [|y l IH]; intros a n; destruct a; simpl in *; auto; try lia. f_equal. apply IH. lia. }
    rewrite E. reflexivity.
Qed.

(* replacing a SetData by one with the same members *)
Lemma robj_eq_set_same : forall sch ob a sd,
  (forall y, In y (sd_items sd) <-> In y (oitems ob a)) -> robj_eq sch ob (ob_put_set ob a (Some sd)).
Proof.
  intros sch ob a sd H. unfold robj_eq. split; [|split; [|split; [|split]]]; auto.
  { unfold ob_put_set, ob_set_sets. cbn [o_sets]. symmetry. apply upd_nth_length. }
  intros r y. destruct (Nat.eq_dec a r) as [->|N].
  - unfold oitems at 2. destruct (oset_put_same_or ob r (Some sd)) as [E|[E _]]; rewrite E.
    + symmetry. apply H.
    + fold (oitems ob r). tauto.
  - rewrite oitems_put_set_other by assumption. tauto.
Qed.

Lemma Fr_fields : forall sch s s', s_objs s' = s_objs s -> s_idx s' = s_idx s -> s_dirty s' = s_dirty s -> Fr sch s s'.
Proof. intros. split. apply kframe_fields; auto. apply rframe_fields; auto. Qed.

Lemma Fr_upd_obj : forall sch s o f,
  (forall ob, get_obj s o = Some ob -> kobj_eq sch ob (f ob) /\ robj_eq sch ob (f ob)) -> Fr sch s (upd_obj s o f).
Proof. intros. split. apply kframe_upd_obj. intros. apply H; auto. apply rframe_upd_obj. intros. apply H; auto. Qed.

Lemma Fr_queue : forall sch s o, Fr sch s (queue s o).
Proof.
  intros. split. apply kframe_queue. unfold queue. eapply rframe_trans; [|apply rframe_fields; reflexivity].
  apply rframe_upd_obj. intros. apply robj_eq_pos.
Qed.

Lemma Fr_unqueue : forall sch s p, Fr sch s (unqueue_slot s p).
Proof. intros. unfold unqueue_slot. destruct p. apply Fr_fields; reflexivity. apply Fr_refl. Qed.

Lemma Fr_modcoll_add : forall sch s o a, Fr sch s (modcoll_add s o a).
Proof. intros. unfold modcoll_add. destruct (existsb _ _). apply Fr_refl. apply Fr_fields; reflexivity. Qed.

Lemma Fr_note_order : forall sch A s (l : list A), Fr sch s (note_order s l).
Proof. intros. unfold note_order. destruct l as [|? [|? ?]]; try apply Fr_refl. apply Fr_fields; reflexivity. Qed.

Lemma rframe_mark_written : forall sch s o a, is_del (obj_st s o) = false -> rframe sch s (mark_written s o a).
Proof.
  intros sch s o a D. unfold mark_written. destruct (get_obj s o) as [ob|] eqn:G; [|apply rframe_refl].
  rewrite (obj_st_get s o ob G) in D.
  destruct (status_eqb (o_st ob) SCreated); [apply rframe_refl|].
  assert (F1 : rframe sch s (put_obj s o (ob_put_wbit ob a true))) by (eapply rframe_put_obj; eauto; apply robj_eq_wbit).
  destruct (status_eqb (o_st ob) SModified); auto.
  eapply rframe_trans. apply F1. eapply rframe_trans; [|apply (Fr_queue sch)].
  apply rframe_upd_obj. intros ob1 G1. rewrite get_put_obj in G1. rewrite Nat.eqb_refl, G in G1. inversion G1; subst.
  apply robj_eq_st. cbn [o_st ob_put_wbit ob_set_wbits]. rewrite D. reflexivity.
Qed.

Lemma Fr_mark_written : forall sch s o a, is_del (obj_st s o) = false -> Fr sch s (mark_written s o a).
Proof. intros. split. apply kframe_mark_written; auto. apply rframe_mark_written; auto. Qed.

Lemma Fr_coll_ensure : forall sch s o a, Fr sch s (coll_ensure s o a).
Proof.
  intros. split. apply kframe_coll_ensure. unfold coll_ensure. apply rframe_upd_obj. intros ob G.
  destruct (oset ob a) eqn:E. apply robj_eq_refl. apply robj_eq_set_same. intros y. unfold oitems. rewrite E. simpl. tauto.
Qed.

Lemma Fr_coll_mark_full : forall sch s o a, Fr sch s (coll_mark_full s o a).
Proof.
  intros. split. apply kframe_coll_mark_full. unfold coll_mark_full. apply rframe_upd_obj. intros ob G.
  apply robj_eq_set_same. intros y. unfold oitems. destruct (oset ob a); simpl; tauto.
Qed.

Lemma rframe_fold : forall sch A (f : sess -> A -> sess) l s,
  (forall s x, rframe sch s (f s x)) -> rframe sch s (fold_left f l s).
Proof.
  intros sch A f l. induction l; intros s H; simpl. apply rframe_refl.
  eapply rframe_trans. apply H. apply IHl. assumption.
Qed.

Lemma Fr_fold : forall sch A (f : sess -> A -> sess) l s, (forall s x, Fr sch s (f s x)) -> Fr sch s (fold_left f l s).
Proof.
  intros. split. apply kframe_fold. intros. apply H. apply rframe_fold. intros. apply H.
Qed.

Lemma Fr_calc_modcoll : forall sch s, Fr sch s (calc_modcoll s).
Proof.
  intros. split. apply kframe_calc_modcoll. unfold calc_modcoll. eapply rframe_trans; [|apply rframe_fields; reflexivity].
  apply rframe_fold. intros s0 x. apply rframe_upd_obj. intros ob G. destruct (oset ob (snd x)) eqn:E.
  apply robj_eq_set_same. intros y. unfold oitems. rewrite E. simpl. tauto. apply robj_eq_refl.
Qed.

Lemma Fr_put_sd_same : forall sch s o a sd,
  (forall y, In y (sd_items sd) <-> In y (vitems s o a)) -> Fr sch s (put_sd s o a sd).
Proof.
  intros. split. apply kframe_put_sd. unfold put_sd. apply rframe_upd_obj. intros ob G. apply robj_eq_set_same.
  intros y. rewrite (H y). rewrite (vitems_get s o ob a G). tauto.
Qed.

Lemma rframe_idx : forall sch s x, rframe sch s (set_idx s x).
Proof. intros. apply rframe_fields; reflexivity. Qed.

(* ---------------------------------------------------------------- re-linking one reference *)

Definition opt_is (x : option oid) (o : oid) : bool := match x with Some z => Nat.eqb z o | None => false end.

Lemma opt_is_true : forall x o, opt_is x o = true <-> x = Some o.
Proof. intros [z|] o; simpl; split; intro H; try discriminate. apply Nat.eqb_eq in H. congruence. inversion H. apply Nat.eqb_refl. Qed.

(* b.a (a reference with reverse attribute r) changes from oldx to newx; the collection of the old target loses b, the one of
   the new target gains it; nothing else changes *)
Lemma Inv_relink : forall sch s s' b a t r (oldx newx : option oid),
  wf_schema sch = true -> Inv_rel sch s ->
  vlive s b = true -> is_ref_of sch s b a t r -> vref s b a = oldx -> oldx <> newx ->
  (forall y, newx = Some y -> vex s y = true /\ vent s y = t) ->
  (forall o, vex s' o = vex s o /\ vlive s' o = vlive s o /\ vent s' o = vent s o) ->
  (forall o a' t' r', ref_info sch (vent s o) a' = Some (t', r') ->
       vref s' o a' = if Nat.eqb o b && Nat.eqb a' a then newx else vref s o a') ->
  (forall o r' y, In y (vitems s' o r') <->
       (if opt_is oldx o && Nat.eqb r' r then In y (vitems s o r') /\ y <> b
        else if opt_is newx o && Nat.eqb r' r then y = b \/ In y (vitems s o r')
        else In y (vitems s o r'))) ->
  Inv_rel sch s'.
Proof.
  intros sch s s' b a t r oldx newx WF (R0 & R1 & R2) LB RB OLD NE NEW V1 V2 V3.
  unfold Inv_rel, is_ref_of in *.
  assert (LBex : vex s b = true) by (unfold vlive, vex in *; destruct (get_obj s b); auto; discriminate).
  (* two reference attributes of b with the same reverse index and the same target are one attribute *)
  assert (UNIQ : forall a' t' x, ref_info sch (vent s b) a' = Some (t', r) -> vref s b a' = Some x -> vref s b a = Some x -> a' = a).
  { intros a' t' x H1 H2 H3. destruct (R0 b a' t' r x LBex H1 H2) as [_ E1]. destruct (R0 b a t r x LBex RB H3) as [_ E2].
    assert (t' = t) by congruence. subst t'.
    pose proof (wf_ref_set sch _ _ _ _ WF H1) as S1. pose proof (wf_ref_set sch _ _ _ _ WF RB) as S2. congruence. }
  split; [|split].
  - (* typing *)
    intros b' a' t' r' x EX RI VR. destruct (V1 b') as (E1 & E2 & E3). rewrite E1 in EX. rewrite E3 in RI.
    rewrite (V2 b' a' t' r' RI) in VR.
    destruct (Nat.eqb b' b && Nat.eqb a' a) eqn:C.
    + apply andb_true_iff in C. destruct C as [C1 C2]. apply Nat.eqb_eq in C1, C2. subst b' a'.
      assert (t' = t) by congruence. subst t'. destruct (NEW x VR) as [N1 N2]. destruct (V1 x) as (X1 & _ & X3). rewrite X1, X3. auto.
    + destruct (R0 b' a' t' r' x EX RI VR) as [N1 N2]. destruct (V1 x) as (X1 & _ & X3). rewrite X1, X3. auto.
  - (* a live referrer is a member *)
    intros b' a' t' r' x LV RI VR. destruct (V1 b') as (E1 & E2 & E3). rewrite E2 in LV. rewrite E3 in RI.
    rewrite (V2 b' a' t' r' RI) in VR. apply V3.
    destruct (Nat.eqb b' b && Nat.eqb a' a) eqn:C.
    + apply andb_true_iff in C. destruct C as [C1 C2]. apply Nat.eqb_eq in C1, C2. subst b' a'.
      assert (r' = r) by congruence. subst r'. rewrite Nat.eqb_refl, andb_true_r.
      destruct (opt_is oldx x) eqn:O1. apply opt_is_true in O1. congruence.
      assert (O2 : opt_is newx x = true) by (apply opt_is_true; exact VR). rewrite O2. left. reflexivity.
    + pose proof (R1 b' a' t' r' x LV RI VR) as M.
      destruct (opt_is oldx x && Nat.eqb r' r) eqn:O1.
      * split; auto. intro EB. subst b'. apply andb_true_iff in O1. destruct O1 as [O1 O3]. apply opt_is_true in O1. apply Nat.eqb_eq in O3. subst r'.
        assert (a' = a) by (apply (UNIQ a' t' x RI VR); congruence). subst a'. rewrite !Nat.eqb_refl in C. discriminate.
      * destruct (opt_is newx x && Nat.eqb r' r); auto.
  - (* every member is live and refers back *)
    intros x r' y M. apply V3 in M.
    assert (OLDCASE : forall y', In y' (vitems s x r') -> (y' = b -> ~ (oldx = Some x /\ r' = r)) ->
              vlive s' y' = true /\ exists a0 t0, ref_info sch (vent s' y') a0 = Some (t0, r') /\ vref s' y' a0 = Some x).
    { intros y' MY NB. destruct (R2 x r' y' MY) as [LV (a0 & t0 & RI & VR)]. destruct (V1 y') as (E1 & E2 & E3).
      split. congruence. exists a0, t0. rewrite E3. split; auto. rewrite (V2 y' a0 t0 r' RI).
      destruct (Nat.eqb y' b && Nat.eqb a0 a) eqn:C; auto.
      apply andb_true_iff in C. destruct C as [C1 C2]. apply Nat.eqb_eq in C1, C2. subst y' a0.
      exfalso. apply (NB eq_refl). split. congruence. congruence. }
    destruct (opt_is oldx x && Nat.eqb r' r) eqn:O1.
    + destruct M as [M NB]. apply OLDCASE; auto.
    + destruct (opt_is newx x && Nat.eqb r' r) eqn:O2.
      * destruct M as [M|M].
        -- subst y. apply andb_true_iff in O2. destruct O2 as [O2 O3]. apply opt_is_true in O2. apply Nat.eqb_eq in O3. subst r'.
           destruct (V1 b) as (E1 & E2 & E3). split. congruence. exists a, t. rewrite E3. split; auto.
           rewrite (V2 b a t r RB). rewrite !Nat.eqb_refl. exact O2.
        -- apply OLDCASE; auto. intros EB [H1 H2]. subst r'. assert (opt_is oldx x = true) by (apply opt_is_true; exact H1).
           rewrite H, Nat.eqb_refl in O1. discriminate.
      * apply OLDCASE; auto. intros EB [H1 H2]. subst r'. assert (opt_is oldx x = true) by (apply opt_is_true; exact H1).
        rewrite H, Nat.eqb_refl in O1. discriminate.
Qed.

(* ---------------------------------------------------------------- views after the primitive steps *)

Definition vsame1 (s s' : sess) : Prop :=
  forall o, vex s' o = vex s o /\ vlive s' o = vlive s o /\ vent s' o = vent s o /\ vslen s' o = vslen s o.

Lemma vsame1_refl : forall s, vsame1 s s. Proof. intros s o. auto. Qed.
Lemma vsame1_trans : forall s1 s2 s3, vsame1 s1 s2 -> vsame1 s2 s3 -> vsame1 s1 s3.
Proof. intros s1 s2 s3 A B o. destruct (A o) as (A1 & A2 & A3 & A4). destruct (B o) as (B1 & B2 & B3 & B4). repeat split; congruence. Qed.

Lemma rframe_vsame1 : forall sch s s', rframe sch s s' -> vsame1 s s'.
Proof. intros sch s s' [_ F] o. destruct (F o) as (A1 & A2 & A3 & A4 & _). auto. Qed.

(* upd_obj with a function that keeps entity, status and the number of slots *)
Lemma vsame1_upd_obj : forall s o f,
  (forall ob, o_ent (f ob) = o_ent ob /\ o_st (f ob) = o_st ob /\ length (o_sets (f ob)) = length (o_sets ob)) -> vsame1 s (upd_obj s o f).
Proof.
  intros s o f H o'. unfold vex, vlive, vent, vslen, obj_ent. rewrite get_upd_obj. destruct (Nat.eqb o o'); auto.
  destruct (get_obj s o') as [ob|]; simpl; auto. destruct (H ob) as (A & B & C). rewrite A, B, C. auto.
Qed.

Lemma vsame1_fields : forall s s', s_objs s' = s_objs s -> vsame1 s s'.
Proof. intros s s' H o. unfold vex, vlive, vent, vslen, obj_ent, get_obj. rewrite H. auto. Qed.

Lemma vref_fields : forall s s' o a, s_objs s' = s_objs s -> vref s' o a = vref s o a.
Proof. intros. unfold vref, obj_val, get_obj. rewrite H. reflexivity. Qed.
Lemma vitems_fields : forall s s' o r, s_objs s' = s_objs s -> vitems s' o r = vitems s o r.
Proof. intros. unfold vitems, coll_items, get_obj. rewrite H. reflexivity. Qed.

(* changing the SetData of (w, r) by a function on SetData *)
Definition upd_sd (s : sess) (w : oid) (r : nat) (g : option setdata -> option setdata) : sess :=
  upd_obj s w (fun ob => ob_put_set ob r (g (oset ob r))).

Lemma upd_sd_views : forall s w r g,
  vsame1 s (upd_sd s w r g) /\ (forall o a, vref (upd_sd s w r g) o a = vref s o a) /\
  (forall o r', (Nat.eqb o w && Nat.eqb r' r) = false -> vitems (upd_sd s w r g) o r' = vitems s o r').
Proof.
  intros. unfold upd_sd. split; [|split].
  - apply vsame1_upd_obj. intros ob. repeat split; auto. unfold ob_put_set, ob_set_sets. cbn [o_sets]. apply upd_nth_length.
  - intros o a. unfold vref, obj_val. rewrite get_upd_obj. destruct (Nat.eqb w o); auto. destruct (get_obj s o); reflexivity.
  - intros o r' H. unfold vitems, coll_items. rewrite get_upd_obj. destruct (Nat.eqb w o) eqn:E; auto.
    apply Nat.eqb_eq in E. subst o. rewrite Nat.eqb_refl in H. simpl in H. apply Nat.eqb_neq in H.
    destruct (get_obj s w) as [ob|]; simpl; auto. fold (oitems (ob_put_set ob r (g (oset ob r))) r'). fold (oitems ob r').
    apply oitems_put_set_other. auto.
Qed.

Lemma upd_sd_items_same : forall s w r g ob,
  get_obj s w = Some ob -> (r < length (o_sets ob))%nat ->
  vitems (upd_sd s w r g) w r = match g (oset ob r) with Some sd => sd_items sd | None => [] end.
Proof.
  intros. unfold upd_sd, vitems, coll_items. rewrite get_upd_obj_same, H. simpl.
  unfold oset, ob_put_set, ob_set_sets. cbn [o_sets]. rewrite nth_upd_nth_same by assumption. reflexivity.
Qed.

(* adding an item to the collection (w, r): rev_add, sd_add_item, the successful db_rev_add *)
Definition adds_item (s s' : sess) (w : oid) (r : nat) (i : oid) : Prop :=
  vsame1 s s' /\ (forall o a, vref s' o a = vref s o a) /\
  (forall o r' y, In y (vitems s' o r') <-> (if Nat.eqb o w && Nat.eqb r' r then y = i \/ In y (vitems s o r') else In y (vitems s o r'))).

Lemma adds_item_upd_sd : forall s w r i g,
  vex s w = true -> (r < vslen s w)%nat ->
  (forall osd, exists sd, g osd = Some sd /\ forall y, In y (sd_items sd) <-> y = i \/ In y (match osd with Some sd0 => sd_items sd0 | None => [] end)) ->
  adds_item s (upd_sd s w r g) w r i.
Proof.
  intros s w r i g EX LT G. destruct (upd_sd_views s w r g) as (A & B & C). split; [exact A|]. split; [exact B|].
  intros o r' y. destruct (Nat.eqb o w && Nat.eqb r' r) eqn:E.
  - apply andb_true_iff in E. destruct E as [E1 E2]. apply Nat.eqb_eq in E1, E2. subst o r'.
    unfold vex, vslen in *. destruct (get_obj s w) as [ob|] eqn:GW; try discriminate.
    rewrite (upd_sd_items_same s w r g ob GW LT). destruct (G (oset ob r)) as (sd & E & M). rewrite E. rewrite M.
    unfold vitems, coll_items. rewrite GW. tauto.
  - rewrite (C o r' E). tauto.
Qed.

Lemma rev_add_adds : forall s w r i, vex s w = true -> (r < vslen s w)%nat -> adds_item s (rev_add s w r i) w r i.
Proof.
  intros s w r i EX LT. unfold rev_add.
  set (g := fun osd => Some (sd_rev_add (match osd with Some sd => sd | None => sd_empty end) i)).
  assert (A : adds_item s (upd_sd s w r g) w r i).
  { apply adds_item_upd_sd; auto. intros osd. eexists. split. reflexivity. intros y. unfold sd_rev_add. cbn [sd_items].
    rewrite In_add_nat. destruct osd; simpl; tauto. }
  destruct A as (A1 & A2 & A3). unfold upd_sd, g in *.
  split; [|split].
  - eapply vsame1_trans. exact A1. apply vsame1_fields. unfold modcoll_add. destruct (existsb _ _); reflexivity.
  - intros o a. rewrite <- A2. apply vref_fields. unfold modcoll_add. destruct (existsb _ _); reflexivity.
  - intros o r' y. rewrite <- A3. rewrite vitems_fields. tauto. unfold modcoll_add. destruct (existsb _ _); reflexivity.
Qed.

Lemma sd_add_item_adds : forall s w r i, vex s w = true -> (r < vslen s w)%nat -> adds_item s (sd_add_item s w r i) w r i.
Proof.
  intros s w r i EX LT. unfold sd_add_item.
  set (g := fun osd => match osd with
                       | Some sd => Some (mkSd (add_nat i (sd_items sd)) (sd_added sd) (sd_removed sd) (sd_full sd) (sd_count sd))
                       | None => Some (mkSd [i] [] [] false None) end).
  assert (A : adds_item s (upd_sd s w r g) w r i).
  { apply adds_item_upd_sd; auto. intros osd. destruct osd as [sd|]; eexists; (split; [reflexivity|]); intros y; cbn [sd_items].
    rewrite In_add_nat. tauto. simpl. tauto. }
  unfold upd_sd, g in A.
  assert (E : upd_obj s w (fun ob => match oset ob r with
        | Some sd => ob_put_set ob r (Some (mkSd (add_nat i (sd_items sd)) (sd_added sd) (sd_removed sd) (sd_full sd) (sd_count sd)))
        | None => ob_put_set ob r (Some (mkSd [i] [] [] false None)) end) =
     upd_obj s w (fun ob => ob_put_set ob r (match oset ob r with
        | Some sd => Some (mkSd (add_nat i (sd_items sd)) (sd_added sd) (sd_removed sd) (sd_full sd) (sd_count sd))
        | None => Some (mkSd [i] [] [] false None) end))).
  { unfold upd_obj. destruct (get_obj s w) as [ob|]; auto. destruct (oset ob r); reflexivity. }
  rewrite E. exact A.
Qed.

Lemma db_rev_add_adds : forall s w r i s1 u, vex s w = true -> (r < vslen s w)%nat ->
  db_rev_add s w r i = Ok s1 u -> adds_item s s1 w r i.
Proof.
  intros s w r i s1 u EX LT H. unfold db_rev_add in H. unfold vex in EX. destruct (get_obj s w) as [ob|] eqn:GW; try discriminate.
  set (g := fun osd => match osd with
                       | Some sd => Some (mkSd (add_nat i (sd_items sd)) (sd_added sd) (sd_removed sd) false (sd_count sd))
                       | None => Some (mkSd [i] [] [] false None) end).
  assert (A : adds_item s (upd_sd s w r g) w r i).
  { apply adds_item_upd_sd; auto. unfold vex. rewrite GW. reflexivity. intros osd. destruct osd as [sd|]; eexists; (split; [reflexivity|]); intros y; cbn [sd_items].
    rewrite In_add_nat. tauto. simpl. tauto. }
  assert (E : s1 = upd_sd s w r g).
  { unfold upd_sd, upd_obj, g. rewrite GW. destruct (oset ob r) as [sd|].
    - destruct (sd_full sd); inversion H. reflexivity.
    - inversion H. reflexivity. }
  rewrite E. exact A.
Qed.

(* removing an item from (w, r): rev_remove *)
Definition removes_item (s s' : sess) (w : oid) (r : nat) (i : oid) : Prop :=
  vsame1 s s' /\ (forall o a, vref s' o a = vref s o a) /\
  (forall o r' y, In y (vitems s' o r') <-> (if Nat.eqb o w && Nat.eqb r' r then In y (vitems s o r') /\ y <> i else In y (vitems s o r'))).

Lemma rev_remove_removes : forall s w r i, removes_item s (rev_remove s w r i) w r i.
Proof.
  intros s w r i. unfold rev_remove.
  set (g := fun osd : option setdata => match osd with Some sd => Some (sd_rev_remove sd i) | None => None end).
  assert (E : upd_obj s w (fun ob => match oset ob r with Some sd => ob_put_set ob r (Some (sd_rev_remove sd i)) | None => ob end) = upd_sd s w r g
              \/ (exists ob, get_obj s w = Some ob /\ oset ob r = None)).
  { unfold upd_sd, upd_obj, g. destruct (get_obj s w) as [ob|] eqn:GW; auto. destruct (oset ob r) eqn:OS; auto. right. exists ob. auto. }
  assert (M : forall s0, s_objs s0 = s_objs (upd_obj s w (fun ob => match oset ob r with Some sd => ob_put_set ob r (Some (sd_rev_remove sd i)) | None => ob end)) ->
              removes_item s s0 w r i).
  2:{ apply M. unfold modcoll_add. destruct (existsb _ _); reflexivity. }
  intros s0 H0.
  assert (K : removes_item s (upd_obj s w (fun ob => match oset ob r with Some sd => ob_put_set ob r (Some (sd_rev_remove sd i)) | None => ob end)) w r i).
  { destruct E as [E|(ob & GW & OS)].
    - rewrite E. destruct (upd_sd_views s w r g) as (A & B & C). split; [exact A|]. split; [exact B|].
      intros o r' y. destruct (Nat.eqb o w && Nat.eqb r' r) eqn:EQ.
      + apply andb_true_iff in EQ. destruct EQ as [E1 E2]. apply Nat.eqb_eq in E1, E2. subst o r'.
        destruct (get_obj s w) as [ob|] eqn:GW.
        * destruct (lt_dec r (length (o_sets ob))) as [LT|GE].
          -- rewrite (upd_sd_items_same s w r g ob GW LT). unfold vitems, coll_items. rewrite GW. unfold g.
             destruct (oset ob r) as [sd|]; simpl. rewrite In_remove_nat. tauto. tauto.
          -- unfold vitems, coll_items, upd_sd. rewrite get_upd_obj_same, GW. simpl.
             destruct (oset_put_same_or ob r (g (oset ob r))) as [X|[X _]].
             ++ exfalso. unfold oset, ob_put_set, ob_set_sets in X. cbn [o_sets] in X.
                assert (N : nth r (upd_nth (o_sets ob) r (g (nth r (o_sets ob) None))) None = None).
                { apply nth_overflow. rewrite upd_nth_length. lia. }
                assert (N2 : nth r (o_sets ob) None = None) by (apply nth_overflow; lia).
                rewrite N2 in *. unfold g in *. simpl in *. rewrite X. rewrite N2. simpl. tauto.
             ++ rewrite X. assert (N2 : oset ob r = None) by (unfold oset; apply nth_overflow; lia). rewrite N2. simpl. tauto.
        * unfold vitems, coll_items, upd_sd. rewrite get_upd_obj_same, GW. simpl. tauto.
      + rewrite (C o r' EQ). tauto.
    - assert (ID : upd_obj s w (fun ob0 => match oset ob0 r with Some sd => ob_put_set ob0 r (Some (sd_rev_remove sd i)) | None => ob0 end) = put_obj s w ob).
      { unfold upd_obj. rewrite GW, OS. reflexivity. }
      rewrite ID. split; [|split].
      + intros o. unfold vex, vlive, vent, vslen, obj_ent. rewrite get_put_obj. destruct (Nat.eqb w o) eqn:EQ; auto.
        apply Nat.eqb_eq in EQ. subst o. rewrite GW. auto.
      + intros o a. unfold vref, obj_val. rewrite get_put_obj. destruct (Nat.eqb w o) eqn:EQ; auto. apply Nat.eqb_eq in EQ. subst o. rewrite GW. reflexivity.
      + intros o r' y. assert (V : vitems (put_obj s w ob) o r' = vitems s o r').
        { unfold vitems, coll_items. rewrite get_put_obj. destruct (Nat.eqb w o) eqn:EQ; auto. apply Nat.eqb_eq in EQ. subst o. rewrite GW. reflexivity. }
        rewrite V. destruct (Nat.eqb o w && Nat.eqb r' r) eqn:EQ; [|tauto].
        apply andb_true_iff in EQ. destruct EQ as [E1 E2]. apply Nat.eqb_eq in E1, E2. subst o r'.
        unfold vitems, coll_items. rewrite GW, OS. simpl. tauto. }
  destruct K as (K1 & K2 & K3). split; [|split].
  - eapply vsame1_trans. exact K1. apply vsame1_fields. exact H0.
  - intros o a. rewrite <- K2. apply vref_fields. exact H0.
  - intros o r' y. rewrite <- K3. rewrite (vitems_fields _ s0 o r') by (symmetry; exact H0). tauto.
Qed.
