(* C12: both ends of every relationship agree, for every history.  Views of the state, the invariant Inv_rel, its frame. *)
Require Import PonyV.Gen.SessionFlags PonyV.Model.SessionBase PonyV.Model.SessionDb PonyV.Model.Session.
Require Import PonyV.Proofs.SessionLemmas PonyV.Proofs.SessionState PonyV.Proofs.SessionIdx.
From Coq Require Import Arith.

(* ---------------------------------------------------------------- views *)

Definition vex (s : sess) (o : oid) : bool := match get_obj s o with Some _ => true | None => false end.
Definition vlive (s : sess) (o : oid) : bool := match get_obj s o with Some ob => negb (is_del (o_st ob)) | None => false end.
Definition vent (s : sess) (o : oid) : nat := obj_ent s o.
(* the object a reference attribute points to (None: not loaded, or None) *)
Definition vref (s : sess) (o : oid) (a : nat) : option oid :=
  match obj_val s o a with Some (VRef x) => Some x | _ => None end.
Definition vitems (s : sess) (o : oid) (r : nat) : list oid := coll_items s o r.
Definition vslen (s : sess) (o : oid) : nat := match get_obj s o with Some ob => length (o_sets ob) | None => O end.

(* every object has one SetData slot per attribute of its entity *)
Definition Inv_sshape (sch : schema) (s : sess) : Prop :=
  forall o ob, get_obj s o = Some ob -> length (o_sets ob) = nattrs sch (o_ent ob).

(* b.a is a reference attribute whose reverse is attribute r of entity t *)
Definition is_ref_of (sch : schema) (s : sess) (b : oid) (a t r : nat) : Prop := ref_info sch (vent s b) a = Some (t, r).

Definition Inv_rel (sch : schema) (s : sess) : Prop :=
  (* typing: a loaded reference points to an existing object of the target entity *)
  (forall b a t r x, vex s b = true -> is_ref_of sch s b a t r -> vref s b a = Some x -> vex s x = true /\ vent s x = t) /\
  (* a live object is a member of the collection of the object it refers to *)
  (forall b a t r x, vlive s b = true -> is_ref_of sch s b a t r -> vref s b a = Some x -> In b (vitems s x r)) /\
  (* every member of a collection is live and refers back *)
  (forall x r b, In b (vitems s x r) -> vlive s b = true /\ exists a t, is_ref_of sch s b a t r /\ vref s b a = Some x).

Definition Pkr (sch : schema) (s : sess) : Prop :=
  s_dirty s <> O \/ (Inv_idx sch s /\ Inv_shape sch s /\ Inv_sshape sch s /\ Inv_rel sch s).

Lemma Pkr_Pk : forall sch s, Pkr sch s -> Pk sch s.
Proof. intros sch s [D|(I & SH & _)]. left; auto. right; auto. Qed.

Lemma sshape_vslen : forall sch s o, Inv_sshape sch s -> vex s o = true -> vslen s o = nattrs sch (vent s o).
Proof. intros sch s o SS E. unfold vex, vslen, vent, obj_ent in *. destruct (get_obj s o) as [ob|] eqn:G; try discriminate. apply (SS o ob G). Qed.

(* ---------------------------------------------------------------- frame: the relationship views are unchanged *)

Definition rframe (sch : schema) (s s' : sess) : Prop :=
  s_dirty s' = s_dirty s /\
  forall o, vex s' o = vex s o /\ vlive s' o = vlive s o /\ vent s' o = vent s o /\ vslen s' o = vslen s o /\
            (forall a t r, ref_info sch (vent s o) a = Some (t, r) -> vref s' o a = vref s o a) /\
            (forall r y, In y (vitems s' o r) <-> In y (vitems s o r)).

Lemma rframe_refl : forall sch s, rframe sch s s.
Proof. intros sch s. split; auto. intros o. split; [|split; [|split; [|split; [|split]]]]; auto. intros; tauto. Qed.

Lemma rframe_trans : forall sch s1 s2 s3, rframe sch s1 s2 -> rframe sch s2 s3 -> rframe sch s1 s3.
Proof.
  intros sch s1 s2 s3 [D1 F1] [D2 F2]. split. congruence. intros o.
  destruct (F1 o) as (A1 & A2 & A3 & A6 & A4 & A5). destruct (F2 o) as (B1 & B2 & B3 & B6 & B4 & B5).
  split. congruence. split. congruence. split. congruence. split. congruence. split.
  - intros a t r H. rewrite (B4 a t r) by (rewrite A3; exact H). apply (A4 a t r H).
  - intros r y. split; intro H. apply A5. apply B5. exact H. apply B5. apply A5. exact H.
Qed.

Lemma rframe_Inv : forall sch s s', rframe sch s s' -> Inv_rel sch s -> Inv_rel sch s'.
Proof.
  intros sch s s' [_ F] (R0 & R1 & R2). unfold Inv_rel, is_ref_of in *. split; [|split].
  - intros b a t r x H H0 H1. destruct (F b) as (A1 & A2 & A3 & _ & A4 & A5). rewrite A1 in H. rewrite A3 in H0. rewrite (A4 a t r H0) in H1.
    destruct (R0 b a t r x H H0 H1) as [E1 E2]. destruct (F x) as (X1 & _ & X3 & _). rewrite X1, X3. auto.
  - intros b a t r x H H0 H1. destruct (F b) as (A1 & A2 & A3 & _ & A4 & A5). rewrite A2 in H. rewrite A3 in H0. rewrite (A4 a t r H0) in H1.
    destruct (F x) as (_ & _ & _ & _ & _ & X5). apply X5. eapply R1; eauto.
  - intros x r b H. destruct (F x) as (_ & _ & _ & _ & _ & X5). apply X5 in H. destruct (R2 x r b H) as [L (a & t & H1 & H2)].
    destruct (F b) as (_ & A2 & A3 & _ & A4 & _). split. rewrite A2. exact L. exists a, t. rewrite A3. split. exact H1. rewrite (A4 a t r H1). exact H2.
Qed.

Lemma rframe_sshape : forall sch s s', rframe sch s s' -> Inv_sshape sch s -> Inv_sshape sch s'.
Proof.
  intros sch s s' [_ F] SS o ob' G'. destruct (F o) as (A1 & _ & A3 & A6 & _).
  unfold vex, vent, vslen, obj_ent in *. rewrite G' in *. destruct (get_obj s o) as [ob|] eqn:G; try discriminate.
  rewrite A6, A3. apply (SS o ob G).
Qed.

(* a state function that is a frame for both invariants *)
Definition Fr (sch : schema) (s s' : sess) : Prop := kframe sch s s' /\ rframe sch s s'.

Lemma Fr_refl : forall sch s, Fr sch s s. Proof. intros. split. apply kframe_refl. apply rframe_refl. Qed.
Lemma Fr_trans : forall sch s1 s2 s3, Fr sch s1 s2 -> Fr sch s2 s3 -> Fr sch s1 s3.
Proof. intros sch s1 s2 s3 [A B] [C D]. split. eapply kframe_trans; eauto. eapply rframe_trans; eauto. Qed.

Lemma Fr_Pkr : forall sch s s', Fr sch s s' -> Pkr sch s -> Pkr sch s'.
Proof.
  intros sch s s' [K R] [D|(I & SH & SS & RL)].
  - left. destruct R as [R _]. congruence.
  - right. split; [|split; [|split]]. eapply kframe_Inv; eauto. eapply kframe_shape; eauto. eapply rframe_sshape; eauto. eapply rframe_Inv; eauto.
Qed.

Lemma rframe_Pkr : forall sch s s', rframe sch s s' -> Pk sch s' -> Pkr sch s -> Pkr sch s'.
Proof.
  intros sch s s' R P [D|(I & SH & SS & RL)].
  - left. destruct R as [R _]. congruence.
  - destruct P as [D'|[I' SH']]. left; auto. right. split; [|split; [|split]]; auto. eapply rframe_sshape; eauto. eapply rframe_Inv; eauto.
Qed.

(* object-wise criterion *)
Definition oref (ob : obj) (a : nat) : option oid := match oval ob a with Some (VRef y) => Some y | _ => None end.
Definition oitems (ob : obj) (r : nat) : list oid := match oset ob r with Some sd => sd_items sd | None => [] end.

Definition robj_eq (sch : schema) (a b : obj) : Prop :=
  o_ent a = o_ent b /\ is_del (o_st a) = is_del (o_st b) /\ length (o_sets a) = length (o_sets b) /\
  (forall x t r, ref_info sch (o_ent a) x = Some (t, r) -> oref a x = oref b x) /\
  (forall r y, In y (oitems a r) <-> In y (oitems b r)).

Lemma robj_eq_refl : forall sch a, robj_eq sch a a.
Proof. intros. unfold robj_eq. split; [|split; [|split; [|split]]]; auto. intros; tauto. Qed.

Lemma robj_eq_trans : forall sch a b c, robj_eq sch a b -> robj_eq sch b c -> robj_eq sch a c.
Proof.
  intros sch a b c (A1 & A2 & A5 & A3 & A4) (B1 & B2 & B5 & B3 & B4). split. congruence. split. congruence. split. congruence. split.
  - intros x t r H. rewrite (A3 x t r H). apply (B3 x t r). rewrite <- A1. exact H.
  - intros r y. rewrite (A4 r y). apply B4.
Qed.

Lemma vref_get : forall s o ob a, get_obj s o = Some ob -> vref s o a = oref ob a.
Proof. intros. unfold vref, oref, obj_val. rewrite H. reflexivity. Qed.
Lemma vitems_get : forall s o ob r, get_obj s o = Some ob -> vitems s o r = oitems ob r.
Proof. intros. unfold vitems, coll_items, oitems. rewrite H. reflexivity. Qed.

Lemma rframe_objs : forall sch s s',
  s_dirty s' = s_dirty s -> length (s_objs s') = length (s_objs s) ->
  (forall o a, get_obj s o = Some a -> exists b, get_obj s' o = Some b /\ robj_eq sch a b) -> rframe sch s s'.
Proof.
  intros sch s s' D L H. split; auto. intros o.
  destruct (get_obj s o) as [a|] eqn:G.
  - destruct (H o a G) as (b & Hb & (E1 & E2 & E5 & E3 & E4)).
    unfold vex, vlive, vent, vslen, obj_ent. rewrite G, Hb. split; [reflexivity|]. split; [congruence|]. split; [congruence|]. split; [congruence|]. split.
    + intros x t r HR. rewrite (vref_get s' o b x Hb), (vref_get s o a x G). symmetry. apply (E3 x t r HR).
    + intros r y. rewrite (vitems_get s' o b r Hb), (vitems_get s o a r G). split; intro I; apply (E4 r y); exact I.
  - pose proof (get_obj_None_len s s' o L G) as G'. unfold vex, vlive, vent, vslen, vref, vitems, obj_ent, obj_val, coll_items. rewrite G, G'.
    split; [reflexivity|]. split; [reflexivity|]. split; [reflexivity|]. split; [reflexivity|]. split; [reflexivity|]. intros. tauto.
Qed.

Lemma rframe_fields : forall sch s s', s_objs s' = s_objs s -> s_dirty s' = s_dirty s -> rframe sch s s'.
Proof.
  intros sch s s' H D. apply rframe_objs; auto. congruence. intros o a G. exists a. split. unfold get_obj in *. congruence. apply robj_eq_refl.
Qed.

Lemma rframe_upd_obj : forall sch s o f, (forall ob, get_obj s o = Some ob -> robj_eq sch ob (f ob)) -> rframe sch s (upd_obj s o f).
Proof.
  intros sch s o f H. apply rframe_objs. apply upd_obj_dirty. apply upd_obj_length.
  intros o' a Ha. rewrite get_upd_obj. destruct (Nat.eqb o o') eqn:E.
  - apply Nat.eqb_eq in E. subst. rewrite Ha. simpl. exists (f a). split; auto.
  - exists a. split; auto. apply robj_eq_refl.
Qed.

Lemma rframe_put_obj : forall sch s o ob ob', get_obj s o = Some ob -> robj_eq sch ob ob' -> rframe sch s (put_obj s o ob').
Proof.
  intros sch s o ob ob' G K. apply rframe_objs. reflexivity. unfold put_obj, set_objs. cbn [s_objs]. apply upd_nth_length.
  intros o' a Ha. rewrite get_put_obj. destruct (Nat.eqb o o') eqn:E.
  - apply Nat.eqb_eq in E. subst. rewrite Ha. exists ob'. split; auto. congruence.
  - exists a. split; auto. apply robj_eq_refl.
Qed.

(* ---------------------------------------------------------------- functions that are frames for both invariants *)

Lemma robj_eq_pos : forall sch ob x, robj_eq sch ob (ob_set_pos ob x). Proof. intros. unfold robj_eq. split; [|split; [|split; [|split]]]; auto. intros; tauto. Qed.
Lemma robj_eq_wbit : forall sch ob a b, robj_eq sch ob (ob_put_wbit ob a b). Proof. intros. unfold robj_eq. split; [|split; [|split; [|split]]]; auto. intros; tauto. Qed.
Lemma robj_eq_dbval : forall sch ob a x, robj_eq sch ob (ob_put_dbval ob a x). Proof. intros. unfold robj_eq. split; [|split; [|split; [|split]]]; auto. intros; tauto. Qed.
Lemma robj_eq_seed : forall sch ob x, robj_eq sch ob (ob_set_seed ob x). Proof. intros. unfold robj_eq. split; [|split; [|split; [|split]]]; auto. intros; tauto. Qed.
Lemma robj_eq_wbits : forall sch ob x, robj_eq sch ob (ob_set_wbits ob x). Proof. intros. unfold robj_eq. split; [|split; [|split; [|split]]]; auto. intros; tauto. Qed.
Lemma robj_eq_pk : forall sch ob x, robj_eq sch ob (ob_set_pk ob x). Proof. intros. unfold robj_eq. split; [|split; [|split; [|split]]]; auto. intros; tauto. Qed.

Lemma robj_eq_st : forall sch ob st, is_del (o_st ob) = is_del st -> robj_eq sch ob (ob_set_st ob st).
Proof. intros. unfold robj_eq. split; [|split; [|split; [|split]]]; auto. intros; tauto. Qed.

Lemma oref_put_other : forall ob a v x, a <> x -> oref (ob_put_val ob a v) x = oref ob x.
Proof. intros. unfold oref. rewrite oval_put_other by assumption. reflexivity. Qed.

Lemma robj_eq_val : forall sch ob a v, ref_info sch (o_ent ob) a = None -> robj_eq sch ob (ob_put_val ob a v).
Proof.
  intros sch ob a v N. unfold robj_eq. split; [|split; [|split; [|split]]]; auto.
  - intros x t r H. destruct (Nat.eq_dec a x). subst. congruence. symmetry. apply oref_put_other. assumption.
  - intros; tauto.
Qed.

Lemma oitems_put_set_other : forall ob a sd r, a <> r -> oitems (ob_put_set ob a sd) r = oitems ob r.
Proof. intros. unfold oitems, oset, ob_put_set, ob_set_sets. cbn [o_sets]. rewrite nth_upd_nth_other by assumption. reflexivity. Qed.

Lemma oset_put_same_or : forall ob a sd, oset (ob_put_set ob a sd) a = sd \/ (oset (ob_put_set ob a sd) a = oset ob a /\ (length (o_sets ob) <= a)%nat).
Proof.
  intros. unfold oset, ob_put_set, ob_set_sets. cbn [o_sets]. destruct (lt_dec a (length (o_sets ob))).
  - left. apply nth_upd_nth_same. assumption.
  - right. split; [|lia]. assert (E : upd_nth (o_sets ob) a sd = o_sets ob).
    { revert a n. induction (o_sets ob) as [|y l IH]; intros a n; destruct a; simpl in *; auto; try lia. f_equal. apply IH. lia. }
    rewrite E. reflexivity.
Qed.

(* replacing a SetData by one with the same members *)
Lemma robj_eq_set_same : forall sch ob a sd,
  (forall y, In y (sd_items sd) <-> In y (oitems ob a)) -> robj_eq sch ob (ob_put_set ob a (Some sd)).
Proof.
  intros sch ob a sd H. unfold robj_eq. split; [|split; [|split; [|split]]]; auto.
  { unfold ob_put_set, ob_set_sets. cbn [o_sets]. symmetry. apply upd_nth_length. }
  intros r y. destruct (Nat.eq_dec a r) as [->|N].
  - unfold oitems at 2. destruct (oset_put_same_or ob r (Some sd)) as [E|[E _]]; rewrite E.
    + symmetry. apply H.
    + fold (oitems ob r). tauto.
  - rewrite oitems_put_set_other by assumption. tauto.
Qed.

Lemma Fr_fields : forall sch s s', s_objs s' = s_objs s -> s_idx s' = s_idx s -> s_dirty s' = s_dirty s -> Fr sch s s'.
Proof. intros. split. apply kframe_fields; auto. apply rframe_fields; auto. Qed.

Lemma Fr_upd_obj : forall sch s o f,
  (forall ob, get_obj s o = Some ob -> kobj_eq sch ob (f ob) /\ robj_eq sch ob (f ob)) -> Fr sch s (upd_obj s o f).
Proof. intros. split. apply kframe_upd_obj. intros. apply H; auto. apply rframe_upd_obj. intros. apply H; auto. Qed.

Lemma Fr_queue : forall sch s o, Fr sch s (queue s o).
Proof.
  intros. split. apply kframe_queue. unfold queue. eapply rframe_trans; [|apply rframe_fields; reflexivity].
  apply rframe_upd_obj. intros. apply robj_eq_pos.
Qed.

Lemma Fr_unqueue : forall sch s p, Fr sch s (unqueue_slot s p).
Proof. intros. unfold unqueue_slot. destruct p. apply Fr_fields; reflexivity. apply Fr_refl. Qed.

Lemma Fr_modcoll_add : forall sch s o a, Fr sch s (modcoll_add s o a).
Proof. intros. unfold modcoll_add. destruct (existsb _ _). apply Fr_refl. apply Fr_fields; reflexivity. Qed.

Lemma Fr_note_order : forall sch A s (l : list A), Fr sch s (note_order s l).
Proof. intros. unfold note_order. destruct l as [|? [|? ?]]; try apply Fr_refl. apply Fr_fields; reflexivity. Qed.

Lemma rframe_mark_written : forall sch s o a, is_del (obj_st s o) = false -> rframe sch s (mark_written s o a).
Proof.
  intros sch s o a D. unfold mark_written. destruct (get_obj s o) as [ob|] eqn:G; [|apply rframe_refl].
  rewrite (obj_st_get s o ob G) in D.
  destruct (status_eqb (o_st ob) SCreated); [apply rframe_refl|].
  assert (F1 : rframe sch s (put_obj s o (ob_put_wbit ob a true))) by (eapply rframe_put_obj; eauto; apply robj_eq_wbit).
  destruct (status_eqb (o_st ob) SModified); auto.
  eapply rframe_trans. apply F1. eapply rframe_trans; [|apply (Fr_queue sch)].
  apply rframe_upd_obj. intros ob1 G1. rewrite get_put_obj in G1. rewrite Nat.eqb_refl, G in G1. inversion G1; subst.
  apply robj_eq_st. cbn [o_st ob_put_wbit ob_set_wbits]. rewrite D. reflexivity.
Qed.

Lemma Fr_mark_written : forall sch s o a, is_del (obj_st s o) = false -> Fr sch s (mark_written s o a).
Proof. intros. split. apply kframe_mark_written; auto. apply rframe_mark_written; auto. Qed.

Lemma Fr_coll_ensure : forall sch s o a, Fr sch s (coll_ensure s o a).
Proof.
  intros. split. apply kframe_coll_ensure. unfold coll_ensure. apply rframe_upd_obj. intros ob G.
  destruct (oset ob a) eqn:E. apply robj_eq_refl. apply robj_eq_set_same. intros y. unfold oitems. rewrite E. simpl. tauto.
Qed.

Lemma Fr_coll_mark_full : forall sch s o a, Fr sch s (coll_mark_full s o a).
Proof.
  intros. split. apply kframe_coll_mark_full. unfold coll_mark_full. apply rframe_upd_obj. intros ob G.
  apply robj_eq_set_same. intros y. unfold oitems. destruct (oset ob a); simpl; tauto.
Qed.

Lemma rframe_fold : forall sch A (f : sess -> A -> sess) l s,
  (forall s x, rframe sch s (f s x)) -> rframe sch s (fold_left f l s).
Proof.
  intros sch A f l. induction l; intros s H; simpl. apply rframe_refl.
  eapply rframe_trans. apply H. apply IHl. assumption.
Qed.

Lemma Fr_fold : forall sch A (f : sess -> A -> sess) l s, (forall s x, Fr sch s (f s x)) -> Fr sch s (fold_left f l s).
Proof.
  intros. split. apply kframe_fold. intros. apply H. apply rframe_fold. intros. apply H.
Qed.

Lemma Fr_calc_modcoll : forall sch s, Fr sch s (calc_modcoll s).
Proof.
  intros. split. apply kframe_calc_modcoll. unfold calc_modcoll. eapply rframe_trans; [|apply rframe_fields; reflexivity].
  apply rframe_fold. intros s0 x. apply rframe_upd_obj. intros ob G. destruct (oset ob (snd x)) eqn:E.
  apply robj_eq_set_same. intros y. unfold oitems. rewrite E. simpl. tauto. apply robj_eq_refl.
Qed.

Lemma Fr_put_sd_same : forall sch s o a sd,
  (forall y, In y (sd_items sd) <-> In y (vitems s o a)) -> Fr sch s (put_sd s o a sd).
Proof.
  intros. split. apply kframe_put_sd. unfold put_sd. apply rframe_upd_obj. intros ob G. apply robj_eq_set_same.
  intros y. rewrite (H y). rewrite (vitems_get s o ob a G). tauto.
Qed.

Lemma rframe_idx : forall sch s x, rframe sch s (set_idx s x).
Proof. intros. apply rframe_fields; reflexivity. Qed.

(* ---------------------------------------------------------------- re-linking one reference *)

Definition opt_is (x : option oid) (o : oid) : bool := match x with Some z => Nat.eqb z o | None => false end.

Lemma opt_is_true : forall x o, opt_is x o = true <-> x = Some o.
Proof. intros [z|] o; simpl; split; intro H; try discriminate. apply Nat.eqb_eq in H. congruence. inversion H. apply Nat.eqb_refl. Qed.

(* b.a (a reference with reverse attribute r) changes from oldx to newx; the collection of the old target loses b, the one of
   the new target gains it; nothing else changes *)
Lemma Inv_relink : forall sch s s' b a t r (oldx newx : option oid),
  wf_schema sch = true -> Inv_rel sch s ->
  vlive s b = true -> is_ref_of sch s b a t r -> vref s b a = oldx -> oldx <> newx ->
  (forall y, newx = Some y -> vex s y = true /\ vent s y = t) ->
  (forall o, vex s' o = vex s o /\ vlive s' o = vlive s o /\ vent s' o = vent s o) ->
  (forall o a' t' r', ref_info sch (vent s o) a' = Some (t', r') ->
       vref s' o a' = if Nat.eqb o b && Nat.eqb a' a then newx else vref s o a') ->
  (forall o r' y, In y (vitems s' o r') <->
       (if opt_is oldx o && Nat.eqb r' r then In y (vitems s o r') /\ y <> b
        else if opt_is newx o && Nat.eqb r' r then y = b \/ In y (vitems s o r')
        else In y (vitems s o r'))) ->
  Inv_rel sch s'.
Proof.
  intros sch s s' b a t r oldx newx WF (R0 & R1 & R2) LB RB OLD NE NEW V1 V2 V3.
  unfold Inv_rel, is_ref_of in *.
  assert (LBex : vex s b = true) by (unfold vlive, vex in *; destruct (get_obj s b); auto; discriminate).
  (* two reference attributes of b with the same reverse index and the same target are one attribute *)
  assert (UNIQ : forall a' t' x, ref_info sch (vent s b) a' = Some (t', r) -> vref s b a' = Some x -> vref s b a = Some x -> a' = a).
  { intros a' t' x H1 H2 H3. destruct (R0 b a' t' r x LBex H1 H2) as [_ E1]. destruct (R0 b a t r x LBex RB H3) as [_ E2].
    assert (t' = t) by congruence. subst t'.
    pose proof (wf_ref_set sch _ _ _ _ WF H1) as S1. pose proof (wf_ref_set sch _ _ _ _ WF RB) as S2. congruence. }
  split; [|split].
  - (* typing *)
    intros b' a' t' r' x EX RI VR. destruct (V1 b') as (E1 & E2 & E3). rewrite E1 in EX. rewrite E3 in RI.
    rewrite (V2 b' a' t' r' RI) in VR.
    destruct (Nat.eqb b' b && Nat.eqb a' a) eqn:C.
    + apply andb_true_iff in C. destruct C as [C1 C2]. apply Nat.eqb_eq in C1, C2. subst b' a'.
      assert (t' = t) by congruence. subst t'. destruct (NEW x VR) as [N1 N2]. destruct (V1 x) as (X1 & _ & X3). rewrite X1, X3. auto.
    + destruct (R0 b' a' t' r' x EX RI VR) as [N1 N2]. destruct (V1 x) as (X1 & _ & X3). rewrite X1, X3. auto.
  - (* a live referrer is a member *)
    intros b' a' t' r' x LV RI VR. destruct (V1 b') as (E1 & E2 & E3). rewrite E2 in LV. rewrite E3 in RI.
    rewrite (V2 b' a' t' r' RI) in VR. apply V3.
    destruct (Nat.eqb b' b && Nat.eqb a' a) eqn:C.
    + apply andb_true_iff in C. destruct C as [C1 C2]. apply Nat.eqb_eq in C1, C2. subst b' a'.
      assert (r' = r) by congruence. subst r'. rewrite Nat.eqb_refl, andb_true_r.
      destruct (opt_is oldx x) eqn:O1. apply opt_is_true in O1. congruence.
      assert (O2 : opt_is newx x = true) by (apply opt_is_true; exact VR). rewrite O2. left. reflexivity.
    + pose proof (R1 b' a' t' r' x LV RI VR) as M.
      destruct (opt_is oldx x && Nat.eqb r' r) eqn:O1.
      * split; auto. intro EB. subst b'. apply andb_true_iff in O1. destruct O1 as [O1 O3]. apply opt_is_true in O1. apply Nat.eqb_eq in O3. subst r'.
        assert (a' = a) by (apply (UNIQ a' t' x RI VR); congruence). subst a'. rewrite !Nat.eqb_refl in C. discriminate.
      * destruct (opt_is newx x && Nat.eqb r' r); auto.
  - (* every member is live and refers back *)
    intros x r' y M. apply V3 in M.
    assert (OLDCASE : forall y', In y' (vitems s x r') -> (y' = b -> ~ (oldx = Some x /\ r' = r)) ->
              vlive s' y' = true /\ exists a0 t0, ref_info sch (vent s' y') a0 = Some (t0, r') /\ vref s' y' a0 = Some x).
    { intros y' MY NB. destruct (R2 x r' y' MY) as [LV (a0 & t0 & RI & VR)]. destruct (V1 y') as (E1 & E2 & E3).
      split. congruence. exists a0, t0. rewrite E3. split; auto. rewrite (V2 y' a0 t0 r' RI).
      destruct (Nat.eqb y' b && Nat.eqb a0 a) eqn:C; auto.
      apply andb_true_iff in C. destruct C as [C1 C2]. apply Nat.eqb_eq in C1, C2. subst y' a0.
      exfalso. apply (NB eq_refl). split. congruence. congruence. }
    destruct (opt_is oldx x && Nat.eqb r' r) eqn:O1.
    + destruct M as [M NB]. apply OLDCASE; auto.
    + destruct (opt_is newx x && Nat.eqb r' r) eqn:O2.
      * destruct M as [M|M].
        -- subst y. apply andb_true_iff in O2. destruct O2 as [O2 O3]. apply opt_is_true in O2. apply Nat.eqb_eq in O3. subst r'.
           destruct (V1 b) as (E1 & E2 & E3). split. congruence. exists a, t. rewrite E3. split; auto.
           rewrite (V2 b a t r RB). rewrite !Nat.eqb_refl. exact O2.
        -- apply OLDCASE; auto. intros EB [H1 H2]. subst r'. assert (opt_is oldx x = true) by (apply opt_is_true; exact H1).
           rewrite H, Nat.eqb_refl in O1. discriminate.
      * apply OLDCASE; auto. intros EB [H1 H2]. subst r'. assert (opt_is oldx x = true) by (apply opt_is_true; exact H1).
        rewrite H, Nat.eqb_refl in O1. discriminate.
Qed.

(* ---------------------------------------------------------------- views after the primitive steps *)

Definition vsame1 (s s' : sess) : Prop :=
  forall o, vex s' o = vex s o /\ vlive s' o = vlive s o /\ vent s' o = vent s o /\ vslen s' o = vslen s o.

Lemma vsame1_refl : forall s, vsame1 s s. Proof. intros s o. auto. Qed.
Lemma vsame1_trans : forall s1 s2 s3, vsame1 s1 s2 -> vsame1 s2 s3 -> vsame1 s1 s3.
Proof. intros s1 s2 s3 A B o. destruct (A o) as (A1 & A2 & A3 & A4). destruct (B o) as (B1 & B2 & B3 & B4). repeat split; congruence. Qed.

Lemma rframe_vsame1 : forall sch s s', rframe sch s s' -> vsame1 s s'.
Proof. intros sch s s' [_ F] o. destruct (F o) as (A1 & A2 & A3 & A4 & _). auto. Qed.

(* upd_obj with a function that keeps entity, status and the number of slots *)
Lemma vsame1_upd_obj : forall s o f,
  (forall ob, o_ent (f ob) = o_ent ob /\ o_st (f ob) = o_st ob /\ length (o_sets (f ob)) = length (o_sets ob)) -> vsame1 s (upd_obj s o f).
Proof.
  intros s o f H o'. unfold vex, vlive, vent, vslen, obj_ent. rewrite get_upd_obj. destruct (Nat.eqb o o'); auto.
  destruct (get_obj s o') as [ob|]; simpl; auto. destruct (H ob) as (A & B & C). rewrite A, B, C. auto.
Qed.

Lemma vsame1_fields : forall s s', s_objs s' = s_objs s -> vsame1 s s'.
Proof. intros s s' H o. unfold vex, vlive, vent, vslen, obj_ent, get_obj. rewrite H. auto. Qed.

Lemma vref_fields : forall s s' o a, s_objs s' = s_objs s -> vref s' o a = vref s o a.
Proof. intros. unfold vref, obj_val, get_obj. rewrite H. reflexivity. Qed.
Lemma vitems_fields : forall s s' o r, s_objs s' = s_objs s -> vitems s' o r = vitems s o r.
Proof. intros. unfold vitems, coll_items, get_obj. rewrite H. reflexivity. Qed.

(* changing the SetData of (w, r) by a function on SetData *)
Definition upd_sd (s : sess) (w : oid) (r : nat) (g : option setdata -> option setdata) : sess :=
  upd_obj s w (fun ob => ob_put_set ob r (g (oset ob r))).

Lemma upd_sd_views : forall s w r g,
  vsame1 s (upd_sd s w r g) /\ (forall o a, vref (upd_sd s w r g) o a = vref s o a) /\
  (forall o r', (Nat.eqb o w && Nat.eqb r' r) = false -> vitems (upd_sd s w r g) o r' = vitems s o r').
Proof.
  intros. unfold upd_sd. split; [|split].
  - apply vsame1_upd_obj. intros ob. repeat split; auto. unfold ob_put_set, ob_set_sets. cbn [o_sets]. apply upd_nth_length.
  - intros o a. unfold vref, obj_val. rewrite get_upd_obj. destruct (Nat.eqb w o); auto. destruct (get_obj s o); reflexivity.
  - intros o r' H. unfold vitems, coll_items. rewrite get_upd_obj. destruct (Nat.eqb w o) eqn:E; auto.
    apply Nat.eqb_eq in E. subst o. rewrite Nat.eqb_refl in H. simpl in H. apply Nat.eqb_neq in H.
    destruct (get_obj s w) as [ob|]; simpl; auto. fold (oitems (ob_put_set ob r (g (oset ob r))) r'). fold (oitems ob r').
    apply oitems_put_set_other. auto.
Qed.

Lemma upd_sd_items_same : forall s w r g ob,
  get_obj s w = Some ob -> (r < length (o_sets ob))%nat ->
  vitems (upd_sd s w r g) w r = match g (oset ob r) with Some sd => sd_items sd | None => [] end.
Proof.
  intros. unfold upd_sd, vitems, coll_items. rewrite get_upd_obj_same, H. simpl.
  unfold oset, ob_put_set, ob_set_sets. cbn [o_sets]. rewrite nth_upd_nth_same by assumption. reflexivity.
Qed.

(* adding an item to the collection (w, r): rev_add, sd_add_item, the successful db_rev_add *)
Definition adds_item (s s' : sess) (w : oid) (r : nat) (i : oid) : Prop :=
  vsame1 s s' /\ (forall o a, vref s' o a = vref s o a) /\
  (forall o r' y, In y (vitems s' o r') <-> (if Nat.eqb o w && Nat.eqb r' r then y = i \/ In y (vitems s o r') else In y (vitems s o r'))).

Lemma adds_item_upd_sd : forall s w r i g,
  vex s w = true -> (r < vslen s w)%nat ->
  (forall osd, exists sd, g osd = Some sd /\ forall y, In y (sd_items sd) <-> y = i \/ In y (match osd with Some sd0 => sd_items sd0 | None => [] end)) ->
  adds_item s (upd_sd s w r g) w r i.
Proof.
  intros s w r i g EX LT G. destruct (upd_sd_views s w r g) as (A & B & C). split; [exact A|]. split; [exact B|].
  intros o r' y. destruct (Nat.eqb o w && Nat.eqb r' r) eqn:E.
  - apply andb_true_iff in E. destruct E as [E1 E2]. apply Nat.eqb_eq in E1, E2. subst o r'.
    unfold vex, vslen in *. destruct (get_obj s w) as [ob|] eqn:GW; try discriminate.
    rewrite (upd_sd_items_same s w r g ob GW LT). destruct (G (oset ob r)) as (sd & E & M). rewrite E. rewrite M.
    unfold vitems, coll_items. rewrite GW. tauto.
  - rewrite (C o r' E). tauto.
Qed.

Lemma adds_item_fields : forall s s1 s2 w r i, adds_item s s1 w r i -> s_objs s2 = s_objs s1 -> adds_item s s2 w r i.
Proof.
  intros s s1 s2 w r i (A1 & A2 & A3) H. split; [|split].
  - eapply vsame1_trans. exact A1. apply vsame1_fields. exact H.
  - intros o a. rewrite <- A2. apply vref_fields. exact H.
  - intros o r' y. rewrite <- A3. rewrite (vitems_fields s1 s2 o r' H). tauto.
Qed.

Lemma rev_add_adds : forall s w r i, vex s w = true -> (r < vslen s w)%nat -> adds_item s (rev_add s w r i) w r i.
Proof.
  intros s w r i EX LT. unfold rev_add.
  set (g := fun osd => Some (sd_rev_add (match osd with Some sd => sd | None => sd_empty end) i)).
  assert (A : adds_item s (upd_sd s w r g) w r i).
  { apply adds_item_upd_sd; auto. intros osd. eexists. split. reflexivity. intros y. unfold sd_rev_add. cbn [sd_items].
    rewrite In_add_nat. destruct osd; simpl; tauto. }
  eapply adds_item_fields. exact A. unfold modcoll_add. destruct (existsb _ _); reflexivity.
Qed.

Lemma sd_add_item_adds : forall s w r i, vex s w = true -> (r < vslen s w)%nat -> adds_item s (sd_add_item s w r i) w r i.
Proof.
  intros s w r i EX LT. unfold sd_add_item.
  set (g := fun osd => match osd with
                       | Some sd => Some (mkSd (add_nat i (sd_items sd)) (sd_added sd) (sd_removed sd) (sd_full sd) (sd_count sd))
                       | None => Some (mkSd [i] [] [] false None) end).
  assert (A : adds_item s (upd_sd s w r g) w r i).
  { apply adds_item_upd_sd; auto. intros osd. destruct osd as [sd|]; eexists; (split; [reflexivity|]); intros y; cbn [sd_items].
    rewrite In_add_nat. tauto. simpl. split; intro HH; destruct HH as [HH|[]]; auto. }
  unfold upd_sd, g in A.
  assert (E : upd_obj s w (fun ob => match oset ob r with
        | Some sd => ob_put_set ob r (Some (mkSd (add_nat i (sd_items sd)) (sd_added sd) (sd_removed sd) (sd_full sd) (sd_count sd)))
        | None => ob_put_set ob r (Some (mkSd [i] [] [] false None)) end) =
     upd_obj s w (fun ob => ob_put_set ob r (match oset ob r with
        | Some sd => Some (mkSd (add_nat i (sd_items sd)) (sd_added sd) (sd_removed sd) (sd_full sd) (sd_count sd))
        | None => Some (mkSd [i] [] [] false None) end))).
  { unfold upd_obj. destruct (get_obj s w) as [ob|]; auto. destruct (oset ob r); reflexivity. }
  rewrite E. exact A.
Qed.

Lemma db_rev_add_adds : forall s w r i s1 u, vex s w = true -> (r < vslen s w)%nat ->
  db_rev_add s w r i = Ok s1 u -> adds_item s s1 w r i.
Proof.
  intros s w r i s1 u EX LT H. unfold db_rev_add in H. unfold vex in EX. destruct (get_obj s w) as [ob|] eqn:GW; try discriminate.
  set (g := fun osd => match osd with
                       | Some sd => Some (mkSd (add_nat i (sd_items sd)) (sd_added sd) (sd_removed sd) false (sd_count sd))
                       | None => Some (mkSd [i] [] [] false None) end).
  assert (A : adds_item s (upd_sd s w r g) w r i).
  { apply adds_item_upd_sd; auto. unfold vex. rewrite GW. reflexivity. intros osd. destruct osd as [sd|]; eexists; (split; [reflexivity|]); intros y; cbn [sd_items].
    rewrite In_add_nat. tauto. simpl. split; intro HH; destruct HH as [HH|[]]; auto. }
  assert (E : s1 = upd_sd s w r g).
  { unfold upd_sd, upd_obj, g. rewrite GW. destruct (oset ob r) as [sd|].
    - destruct (sd_full sd); inversion H. reflexivity.
    - inversion H. reflexivity. }
  rewrite E. exact A.
Qed.

(* removing an item from (w, r): rev_remove *)
Definition removes_item (s s' : sess) (w : oid) (r : nat) (i : oid) : Prop :=
  vsame1 s s' /\ (forall o a, vref s' o a = vref s o a) /\
  (forall o r' y, In y (vitems s' o r') <-> (if Nat.eqb o w && Nat.eqb r' r then In y (vitems s o r') /\ y <> i else In y (vitems s o r'))).

Lemma rev_remove_removes : forall s w r i, removes_item s (rev_remove s w r i) w r i.
Proof.
  intros s w r i. unfold rev_remove.
  set (g := fun osd : option setdata => match osd with Some sd => Some (sd_rev_remove sd i) | None => None end).
  assert (E : upd_obj s w (fun ob => match oset ob r with Some sd => ob_put_set ob r (Some (sd_rev_remove sd i)) | None => ob end) = upd_sd s w r g
              \/ (exists ob, get_obj s w = Some ob /\ oset ob r = None)).
  { unfold upd_sd, upd_obj, g. destruct (get_obj s w) as [ob|] eqn:GW; auto. destruct (oset ob r) eqn:OS; auto. right. exists ob. auto. }
  assert (M : forall s0, s_objs s0 = s_objs (upd_obj s w (fun ob => match oset ob r with Some sd => ob_put_set ob r (Some (sd_rev_remove sd i)) | None => ob end)) ->
              removes_item s s0 w r i).
  2:{ apply M. unfold modcoll_add. destruct (existsb _ _); reflexivity. }
  intros s0 H0.
  assert (K : removes_item s (upd_obj s w (fun ob => match oset ob r with Some sd => ob_put_set ob r (Some (sd_rev_remove sd i)) | None => ob end)) w r i).
  { destruct E as [E|(ob & GW & OS)].
    - rewrite E. destruct (upd_sd_views s w r g) as (A & B & C). split; [exact A|]. split; [exact B|].
      intros o r' y. destruct (Nat.eqb o w && Nat.eqb r' r) eqn:EQ.
      + apply andb_true_iff in EQ. destruct EQ as [E1 E2]. apply Nat.eqb_eq in E1, E2. subst o r'.
        destruct (get_obj s w) as [ob|] eqn:GW.
        * destruct (lt_dec r (length (o_sets ob))) as [LT|GE].
          -- rewrite (upd_sd_items_same s w r g ob GW LT). unfold vitems, coll_items. rewrite GW. unfold g.
             destruct (oset ob r) as [sd|]; simpl. rewrite In_remove_nat. tauto. tauto.
          -- assert (N2 : oset ob r = None) by (unfold oset; apply nth_overflow; lia).
             unfold vitems, coll_items, upd_sd. rewrite get_upd_obj_same, GW. simpl.
             unfold ob_put_set, ob_set_sets, oset. cbn [o_sets]. rewrite upd_nth_overflow by lia.
             fold (oset ob r). rewrite N2. simpl. tauto.
        * unfold vitems, coll_items, upd_sd. rewrite get_upd_obj_same, GW. simpl. tauto.
      + rewrite (C o r' EQ). tauto.
    - assert (ID : upd_obj s w (fun ob0 => match oset ob0 r with Some sd => ob_put_set ob0 r (Some (sd_rev_remove sd i)) | None => ob0 end) = put_obj s w ob).
      { unfold upd_obj. rewrite GW, OS. reflexivity. }
      rewrite ID. split; [|split].
      + intros o. unfold vex, vlive, vent, vslen, obj_ent. rewrite get_put_obj. destruct (Nat.eqb w o) eqn:EQ; auto.
        apply Nat.eqb_eq in EQ. subst o. rewrite GW. auto.
      + intros o a. unfold vref, obj_val. rewrite get_put_obj. destruct (Nat.eqb w o) eqn:EQ; auto. apply Nat.eqb_eq in EQ. subst o. rewrite GW. reflexivity.
      + intros o r' y. assert (V : vitems (put_obj s w ob) o r' = vitems s o r').
        { unfold vitems, coll_items. rewrite get_put_obj. destruct (Nat.eqb w o) eqn:EQ; auto. apply Nat.eqb_eq in EQ. subst o. rewrite GW. reflexivity. }
        rewrite V. destruct (Nat.eqb o w && Nat.eqb r' r) eqn:EQ; [|tauto].
        apply andb_true_iff in EQ. destruct EQ as [E1 E2]. apply Nat.eqb_eq in E1, E2. subst o r'.
        unfold vitems, coll_items. rewrite GW, OS. simpl. tauto. }
  destruct K as (K1 & K2 & K3). split; [|split].
  - eapply vsame1_trans. exact K1. apply vsame1_fields. exact H0.
  - intros o a. rewrite <- K2. apply vref_fields. exact H0.
  - intros o r' y. rewrite <- K3. rewrite (vitems_fields _ s0 o r' H0). tauto.
Qed.

Lemma ooid_dec : forall a b : option oid, {a = b} + {a <> b}.
Proof. decide equality. apply Nat.eq_dec. Qed.

Definition ref_of (v : val) : option oid := match v with VRef y => Some y | _ => None end.

Definition sets_val (f : obj -> obj) (a : nat) (v : val) : Prop :=
  forall ob, o_ent (f ob) = o_ent ob /\ o_st (f ob) = o_st ob /\ o_sets (f ob) = o_sets ob /\ o_vals (f ob) = upd_nth (o_vals ob) a (Some v).

Lemma sets_val_put : forall a v, sets_val (fun ob => ob_put_val ob a (Some v)) a v.
Proof. intros a v ob. auto. Qed.
Lemma sets_val_put_db : forall a v d, sets_val (fun ob => ob_put_val (ob_put_dbval ob a d) a (Some v)) a v.
Proof. intros a v d ob. auto. Qed.

Lemma put_val_views_gen : forall s o a v f ob, sets_val f a v -> get_obj s o = Some ob -> (a < length (o_vals ob))%nat ->
  let s' := upd_obj s o f in
  vsame1 s s' /\ (forall o' r', vitems s' o' r' = vitems s o' r') /\
  (forall o' a', vref s' o' a' = if Nat.eqb o' o && Nat.eqb a' a then ref_of v else vref s o' a').
Proof.
  intros s o a v f ob SV G LT s'. unfold s'. split; [|split].
  - apply vsame1_upd_obj. intros ob0. destruct (SV ob0) as (A & B & C & D). rewrite C. auto.
  - intros o' r'. unfold vitems, coll_items. rewrite get_upd_obj. destruct (Nat.eqb o o'); auto. destruct (get_obj s o') as [ob0|]; simpl; auto.
    unfold oset. destruct (SV ob0) as (_ & _ & C & _). rewrite C. reflexivity.
  - intros o' a'. unfold vref, obj_val. rewrite get_upd_obj. rewrite (Nat.eqb_sym o' o). destruct (Nat.eqb o o') eqn:E; simpl; auto.
    apply Nat.eqb_eq in E. subst o'. rewrite G. simpl. destruct (SV ob) as (_ & _ & _ & D). unfold oval. rewrite D.
    destruct (Nat.eqb a' a) eqn:E2.
    + apply Nat.eqb_eq in E2. subst a'. rewrite nth_upd_nth_same by assumption. destruct v; reflexivity.
    + apply Nat.eqb_neq in E2. rewrite nth_upd_nth_other by auto. reflexivity.
Qed.

Lemma put_val_views : forall s o a v ob, get_obj s o = Some ob -> (a < length (o_vals ob))%nat ->
  let s' := upd_obj s o (fun ob0 => ob_put_val ob0 a (Some v)) in
  vsame1 s s' /\ (forall o' r', vitems s' o' r' = vitems s o' r') /\
  (forall o' a', vref s' o' a' = if Nat.eqb o' o && Nat.eqb a' a then ref_of v else vref s o' a').
Proof. intros s o a v ob G LT. apply (put_val_views_gen s o a v _ ob (sets_val_put a v) G LT). Qed.

Lemma set_info_lt : forall sch t r p, set_info sch t r = Some p -> (r < nattrs sch t)%nat.
Proof. intros. unfold set_info in H. destruct (get_attr sch t r) eqn:G; try discriminate. eapply get_attr_lt; eauto. Qed.
Lemma ref_info_lt : forall sch e a p, ref_info sch e a = Some p -> (a < nattrs sch e)%nat.
Proof. intros. unfold ref_info in H. destruct (get_attr sch e a) eqn:G; try discriminate. eapply get_attr_lt; eauto. Qed.

Section RelLeaves.
Variable sch : schema.
Hypothesis WF : wf_schema sch = true.

(* the common core of Attribute.__set__ on a reference: value, old collection, new collection; `add` is the way the new
   owner's collection receives the item (rev_add or sd_add_item) *)
Lemma Inv_rel_set_ref : forall s b a t r newv (add : sess -> oid -> nat -> oid -> sess),
  (forall s0 w r0 i, vex s0 w = true -> (r0 < vslen s0 w)%nat -> adds_item s0 (add s0 w r0 i) w r0 i) ->
  Inv_shape sch s -> Inv_sshape sch s -> Inv_rel sch s ->
  vlive s b = true -> ref_info sch (vent s b) a = Some (t, r) ->
  (forall y, newv = VRef y -> vex s y = true /\ vent s y = t) ->
  vref s b a <> ref_of newv ->
  let s2 := upd_obj s b (fun ob => ob_put_val ob a (Some newv)) in
  let s3 := match vref s b a with Some x => rev_remove s2 x r b | None => s2 end in
  let s4 := match newv with VRef y => add s3 y r b | _ => s3 end in
  Inv_rel sch s4.
Proof.
  intros s b a t r newv add ADD SH SS R LB RI TY NE s2 s3 s4.
  assert (EXb : vex s b = true) by (unfold vlive, vex in *; destruct (get_obj s b); auto; discriminate).
  unfold vex in EXb. destruct (get_obj s b) as [ob|] eqn:GB; try discriminate.
  assert (LT : (a < length (o_vals ob))%nat).
  { rewrite (SH b ob GB). unfold vent, obj_ent in RI. rewrite GB in RI. eapply ref_info_lt; eauto. }
  destruct (put_val_views s b a newv ob GB LT) as (P1 & P2 & P3). fold s2 in P1, P2, P3.
  (* s3 *)
  assert (V3 : vsame1 s s3 /\ (forall o' a', vref s3 o' a' = if Nat.eqb o' b && Nat.eqb a' a then ref_of newv else vref s o' a') /\
               (forall o r' y, In y (vitems s3 o r') <-> (if opt_is (vref s b a) o && Nat.eqb r' r then In y (vitems s o r') /\ y <> b else In y (vitems s o r')))).
  { unfold s3. destruct (vref s b a) as [x|] eqn:OLD.
    - destruct (rev_remove_removes s2 x r b) as (Q1 & Q2 & Q3). split; [|split].
      + eapply vsame1_trans; eauto.
      + intros. rewrite Q2. apply P3.
      + intros o r' y. rewrite Q3. simpl. rewrite (Nat.eqb_sym x o). rewrite !P2. tauto.
    - split; [exact P1|]. split; [exact P3|]. intros o r' y. simpl. rewrite P2. tauto. }
  destruct V3 as (W1 & W2 & W3).
  (* s4 *)
  assert (V4 : vsame1 s s4 /\ (forall o' a', vref s4 o' a' = if Nat.eqb o' b && Nat.eqb a' a then ref_of newv else vref s o' a') /\
               (forall o r' y, In y (vitems s4 o r') <->
                  (if opt_is (ref_of newv) o && Nat.eqb r' r then y = b \/ In y (vitems s3 o r') else In y (vitems s3 o r')))).
  { unfold s4. destruct newv as [| | |y]; try (split; [exact W1|]; split; [exact W2|]; intros; simpl; tauto).
    destruct (TY y eq_refl) as [EY TE].
    assert (EX3 : vex s3 y = true) by (destruct (W1 y) as (A & _); congruence).
    assert (LT3 : (r < vslen s3 y)%nat).
    { destruct (W1 y) as (_ & _ & _ & A). rewrite A. rewrite (sshape_vslen sch s y SS EY). rewrite TE.
      eapply set_info_lt. eapply wf_ref_set; eauto. }
    destruct (ADD s3 y r b EX3 LT3) as (Q1 & Q2 & Q3). split; [|split].
    - eapply vsame1_trans; eauto.
    - intros. rewrite Q2. apply W2.
    - intros o r' z. rewrite Q3. simpl. rewrite (Nat.eqb_sym y o). tauto. }
  destruct V4 as (X1 & X2 & X3).
  eapply (Inv_relink sch s s4 b a t r (vref s b a) (ref_of newv) WF R LB RI eq_refl NE).
  - intros y H. destruct newv; simpl in H; try discriminate. inversion H; subst. apply TY. reflexivity.
  - intros o. destruct (X1 o) as (A & B & C & _). auto.
  - intros o a' t' r' _. apply X2.
  - intros o r' y. rewrite X3.
    destruct (opt_is (vref s b a) o && Nat.eqb r' r) eqn:O1.
    + assert (O2 : opt_is (ref_of newv) o && Nat.eqb r' r = false).
      { apply andb_true_iff in O1. destruct O1 as [O1 O3]. rewrite O3, andb_true_r. apply opt_is_true in O1.
        destruct (opt_is (ref_of newv) o) eqn:O4; auto. apply opt_is_true in O4. congruence. }
      rewrite O2. rewrite W3, O1. tauto.
    + destruct (opt_is (ref_of newv) o && Nat.eqb r' r); rewrite W3, O1; tauto.
Qed.
End RelLeaves.

Section RelLeaves2.
Variable sch : schema.
Hypothesis WF : wf_schema sch = true.

Lemma vlive_not_del : forall s o, vex s o = true -> is_del (obj_st s o) = false -> vlive s o = true.
Proof. intros s o E D. unfold vex, vlive, obj_st in *. destruct (get_obj s o); try discriminate. rewrite D. reflexivity. Qed.

Lemma vref_obj_val : forall s o a, vref s o a = match obj_val s o a with Some (VRef x) => Some x | _ => None end.
Proof. reflexivity. Qed.

Lemma oval_eqb_false_ref : forall old newv, oval_eqb old (Some newv) = false ->
  match old with Some (VRef x) => Some x | _ => None end = ref_of newv -> ref_of newv = None.
Proof.
  intros old newv H E. destruct newv as [| | |y]; auto. simpl in E. destruct old as [[| | |x]|]; try discriminate.
  inversion E; subst. simpl in H. rewrite Nat.eqb_refl in H. discriminate.
Qed.

(* a value change that leaves the reference view alone is a frame for the relationship invariant *)
Lemma rframe_put_val_noref_gen : forall s o a v f, sets_val f a v -> vex s o = true ->
  (forall ob, get_obj s o = Some ob -> (a < length (o_vals ob))%nat) ->
  vref s o a = None -> ref_of v = None -> rframe sch s (upd_obj s o f).
Proof.
  intros s o a v f SV EX LT OLD NEW. unfold vex in EX. destruct (get_obj s o) as [ob|] eqn:G; try discriminate.
  destruct (put_val_views_gen s o a v f ob SV G (LT ob eq_refl)) as (P1 & P2 & P3).
  split. apply upd_obj_dirty. intros o'. destruct (P1 o') as (A & B & C & D). split; [exact A|]. split; [exact B|]. split; [exact C|]. split; [exact D|]. split.
  - intros a' t r _. rewrite P3. destruct (Nat.eqb o' o && Nat.eqb a' a) eqn:E; auto.
    apply andb_true_iff in E. destruct E as [E1 E2]. apply Nat.eqb_eq in E1, E2. subst. congruence.
  - intros r y. rewrite P2. tauto.
Qed.

Lemma rframe_put_val_noref : forall s o a v, vex s o = true ->
  (forall ob, get_obj s o = Some ob -> (a < length (o_vals ob))%nat) ->
  vref s o a = None -> ref_of v = None -> rframe sch s (upd_obj s o (fun ob => ob_put_val ob a (Some v))).
Proof. intros. eapply rframe_put_val_noref_gen; eauto. apply sets_val_put. Qed.

Definition set_ref_gen (add : sess -> oid -> nat -> oid -> sess) (s : sess) (b : oid) (a r : nat) (newv : val) : sess :=
  let old := obj_val s b a in
  let s1 := mark_written s b a in
  if oval_eqb old (Some newv) then s1
  else
    let s2 := upd_obj s1 b (fun ob => ob_put_val ob a (Some newv)) in
    let s3 := match old with Some (VRef x) => rev_remove s2 x r b | _ => s2 end in
    match newv with VRef y => add s3 y r b | _ => s3 end.

Lemma vsame1_sshape : forall sA sB, vsame1 sA sB -> Inv_sshape sch sA -> Inv_sshape sch sB.
Proof.
  intros sA sB V S0 o2 ob2 G2. destruct (V o2) as (A & _ & C & D). unfold vex, vent, vslen, obj_ent in *. rewrite G2 in *.
  destruct (get_obj sA o2) as [obA|] eqn:GA; try discriminate. rewrite D, C. apply (S0 o2 obA GA).
Qed.

Lemma kframe_set_ref_gen : forall add s b a r v t,
  (forall s0 w r0 i, kframe sch s0 (add s0 w r0 i)) ->
  is_del (obj_st s b) = false -> ref_info sch (vent s b) a = Some (t, r) -> kframe sch s (set_ref_gen add s b a r v).
Proof.
  intros add s b a r v t KA ND RI. unfold set_ref_gen.
  pose proof (kframe_mark_written sch s b a ND) as F1.
  destruct (oval_eqb (obj_val s b a) (Some v)); auto.
  assert (F2 : kframe sch s (upd_obj (mark_written s b a) b (fun ob => ob_put_val ob a (Some v)))).
  { eapply kframe_trans. apply F1. eapply kframe_put_ref_val; eauto. rewrite (kframe_obj_ent sch s _ b F1). eauto. }
  set (s3 := match obj_val s b a with Some (VRef x) => rev_remove _ x r b | _ => _ end).
  assert (F3 : kframe sch s s3).
  { unfold s3. destruct (obj_val s b a) as [[| | |x]|]; auto. eapply kframe_trans. apply F2. apply kframe_rev_remove. }
  destruct v; auto. eapply kframe_trans. apply F3. apply KA.
Qed.

Lemma Pkr_set_ref_gen : forall add s b a v t r,
  (forall s0 w r0 i, vex s0 w = true -> (r0 < vslen s0 w)%nat -> adds_item s0 (add s0 w r0 i) w r0 i) ->
  (forall s0 w r0 i, kframe sch s0 (add s0 w r0 i)) ->
  Pkr sch s -> vex s b = true -> is_del (obj_st s b) = false -> ref_info sch (vent s b) a = Some (t, r) ->
  (forall y, v = VRef y -> vex s y = true /\ vent s y = t) ->
  Pkr sch (set_ref_gen add s b a r v).
Proof.
  intros add s o a v t r ADD KA P EX ND RI TY.
  pose proof (kframe_set_ref_gen add s o a r v t KA ND RI) as KF.
  pose proof (kframe_Pk sch s _ KF (Pkr_Pk sch s P)) as PK.
  destruct P as [D|(I & SH & SS & R)].
  { left. destruct KF as (_ & DD & _). congruence. }
  destruct PK as [D'|[I' SH']]. left; exact D'. right. split; [exact I'|]. split; [exact SH'|].
  unfold set_ref_gen in *.
  pose proof (Fr_mark_written sch s o a ND) as F1. set (s1 := mark_written s o a) in *.
  destruct F1 as [K1 R1]. pose proof (rframe_Inv sch s s1 R1 R) as RL1. pose proof (rframe_sshape sch s s1 R1 SS) as SS1.
  pose proof (kframe_shape sch s s1 K1 SH) as SH1. pose proof (rframe_vsame1 sch s s1 R1) as VS1.
  destruct (oval_eqb (obj_val s o a) (Some v)) eqn:SAME. split; assumption.
  assert (EX1 : vex s1 o = true) by (destruct (VS1 o) as (A & _); congruence).
  assert (LV1 : vlive s1 o = true) by (destruct (VS1 o) as (_ & B & _); rewrite B; apply vlive_not_del; auto).
  assert (RI1 : ref_info sch (vent s1 o) a = Some (t, r)) by (destruct (VS1 o) as (_ & _ & C & _); rewrite C; exact RI).
  assert (VR1 : vref s1 o a = vref s o a) by (destruct R1 as [_ F]; destruct (F o) as (_ & _ & _ & _ & A & _); apply (A a t r RI)).
  assert (TY1 : forall y, v = VRef y -> vex s1 y = true /\ vent s1 y = t).
  { intros y H. destruct (TY y H) as [A B]. destruct (VS1 y) as (C & _ & D & _). split; congruence. }
  assert (OV : match obj_val s o a with Some (VRef x) => Some x | _ => None end = vref s1 o a) by (rewrite VR1; reflexivity).
  destruct (ooid_dec (vref s1 o a) (ref_of v)) as [EQ|NE].
  - assert (NV : ref_of v = None) by (apply (oval_eqb_false_ref (obj_val s o a) v SAME); rewrite OV; exact EQ).
    assert (OLD : vref s1 o a = None) by congruence.
    assert (X : match obj_val s o a with Some (VRef x) => rev_remove (upd_obj s1 o (fun ob => ob_put_val ob a (Some v))) x r o | _ => upd_obj s1 o (fun ob => ob_put_val ob a (Some v)) end
                = upd_obj s1 o (fun ob => ob_put_val ob a (Some v))).
    { rewrite OLD in OV. destruct (obj_val s o a) as [[| | |x]|]; try reflexivity. discriminate. }
    rewrite X. assert (Y : match v with VRef y => add (upd_obj s1 o (fun ob => ob_put_val ob a (Some v))) y r o | _ => upd_obj s1 o (fun ob => ob_put_val ob a (Some v)) end
                = upd_obj s1 o (fun ob => ob_put_val ob a (Some v))) by (destruct v; try reflexivity; discriminate).
    rewrite Y.
    assert (RF : rframe sch s1 (upd_obj s1 o (fun ob => ob_put_val ob a (Some v)))).
    { apply rframe_put_val_noref; auto. intros ob G. rewrite (SH1 o ob G). unfold vent, obj_ent in RI1. rewrite G in RI1. eapply ref_info_lt; eauto. }
    split. eapply rframe_sshape; eauto. eapply rframe_Inv; eauto.
  - pose proof (Inv_rel_set_ref sch WF s1 o a t r v add ADD SH1 SS1 RL1 LV1 RI1 TY1 NE) as IR.
    cbv zeta in IR. rewrite <- OV in IR.
    assert (E3 : match match obj_val s o a with Some (VRef x) => Some x | _ => None end with
                 | Some x => rev_remove (upd_obj s1 o (fun ob => ob_put_val ob a (Some v))) x r o
                 | None => upd_obj s1 o (fun ob => ob_put_val ob a (Some v)) end =
                 match obj_val s o a with Some (VRef x) => rev_remove (upd_obj s1 o (fun ob => ob_put_val ob a (Some v))) x r o | _ => upd_obj s1 o (fun ob => ob_put_val ob a (Some v)) end).
    { destruct (obj_val s o a) as [[| | |x]|]; reflexivity. }
    rewrite E3 in IR. split; [|exact IR].
    refine (vsame1_sshape s1 _ _ SS1).
    assert (V2 : vsame1 s1 (upd_obj s1 o (fun ob => ob_put_val ob a (Some v)))) by (apply vsame1_upd_obj; intros; auto).
    assert (V3 : vsame1 s1 (match obj_val s o a with Some (VRef x) => rev_remove (upd_obj s1 o (fun ob => ob_put_val ob a (Some v))) x r o | _ => upd_obj s1 o (fun ob => ob_put_val ob a (Some v)) end)).
    { destruct (obj_val s o a) as [[| | |x]|]; auto. eapply vsame1_trans. exact V2. apply (rev_remove_removes _ x r o). }
    destruct v as [| | |y]; auto.
    eapply vsame1_trans. exact V3.
    destruct (TY1 y eq_refl) as [EY TE].
    apply (ADD _ y r o).
    + destruct (V3 y) as (A & _). congruence.
    + destruct (V3 y) as (_ & _ & _ & A). rewrite A. rewrite (sshape_vslen sch s1 y SS1 EY). rewrite TE. eapply set_info_lt. eapply wf_ref_set; eauto.
Qed.

Definition target_ok (s : sess) (t : nat) (v : val) : bool :=
  match v with
  | VRef y => match get_obj s y with Some oby => Nat.eqb (o_ent oby) t | None => false end
  | _ => true
  end.

Lemma ref_set_direct_gen : forall s o a v, ref_set_direct sch s o a v =
  match ref_info sch (obj_ent s o) a with Some (t, r) => if negb (target_ok s t v) then s else set_ref_gen rev_add s o a r v | None => s end.
Proof.
  intros. unfold ref_set_direct, set_ref_gen, target_ok. destruct (ref_info sch (obj_ent s o) a) as [[t r]|]; auto.
Qed.

Lemma ref_set_rev_gen : forall s o a v, ref_set_rev sch s o a v =
  match ref_info sch (obj_ent s o) a with Some (_, r) => set_ref_gen (fun s0 _ _ _ => s0) s o a r v | None => s end.
Proof.
  intros. unfold ref_set_rev, set_ref_gen. destruct (ref_info sch (obj_ent s o) a) as [[t r]|]; auto.
  destruct (oval_eqb (obj_val s o a) (Some v)); auto. destruct v; reflexivity.
Qed.

Lemma Pkr_ref_set_direct : forall s o a v,
  Pkr sch s -> vex s o = true -> is_del (obj_st s o) = false -> Pkr sch (ref_set_direct sch s o a v).
Proof.
  intros s o a v P EX ND. rewrite ref_set_direct_gen. destruct (ref_info sch (obj_ent s o) a) as [[t r]|] eqn:RI; auto.
  destruct (target_ok s t v) eqn:TK; simpl; auto.
  eapply Pkr_set_ref_gen; eauto. apply rev_add_adds. intros. apply kframe_rev_add.
  intros y H. subst v. unfold target_ok in TK. unfold vex, vent, obj_ent. destruct (get_obj s y) as [oby|]; try discriminate.
  apply Nat.eqb_eq in TK. auto.
Qed.

(* the collection side unlinks an item: item.a = None *)
Lemma Pkr_unlink_item : forall s item a, Pkr sch s -> vex s item = true -> is_del (obj_st s item) = false ->
  Pkr sch (ref_set_rev sch s item a VNone).
Proof.
  intros s item a P EX ND. rewrite ref_set_rev_gen. destruct (ref_info sch (obj_ent s item) a) as [[t r]|] eqn:RI; auto.
  assert (E : set_ref_gen (fun s0 _ _ _ => s0) s item a r VNone = set_ref_gen rev_add s item a r VNone).
  { unfold set_ref_gen. destruct (oval_eqb (obj_val s item a) (Some VNone)); reflexivity. }
  rewrite E. eapply Pkr_set_ref_gen; eauto. apply rev_add_adds. intros. apply kframe_rev_add. intros y H. discriminate.
Qed.
Lemma Pkr_item_link : forall s o a r item,
  Pkr sch s -> vex s item = true -> is_del (obj_st s item) = false -> Pkr sch (item_link sch s o a r item).
Proof.
  intros s o a r item P EX ND. unfold item_link.
  destruct (ref_info sch (obj_ent s item) r) as [[t' a']|] eqn:RI0; auto.
  destruct (get_obj s o) as [obo|] eqn:GO; auto.
  destruct (Nat.eqb a' a && Nat.eqb t' (o_ent obo)) eqn:GU; auto.
  apply andb_true_iff in GU. destruct GU as [GU1 GU2]. apply Nat.eqb_eq in GU1, GU2. subst a' t'.
  assert (EXO : vex s o = true) by (unfold vex; rewrite GO; reflexivity).
  assert (RI : ref_info sch (obj_ent s item) r = Some (vent s o, a)) by (unfold vent, obj_ent; rewrite GO; exact RI0).
  clear RI0.
  rewrite ref_set_rev_gen. rewrite RI. unfold set_ref_gen.
  destruct (oval_eqb (obj_val s item r) (Some (VRef o))) eqn:SAME.
  - (* already linked: only the membership is (re)asserted *)
    apply oval_eqb_eq in SAME.
    pose proof (Fr_mark_written sch s item r ND) as F1. pose proof (Fr_Pkr sch s _ F1 P) as P1.
    set (s1 := mark_written s item r) in *. destruct F1 as [K1 R1].
    pose proof (kframe_Pk sch s1 _ (kframe_sd_add_item sch s1 o a item) (Pkr_Pk sch s1 P1)) as PK.
    destruct P1 as [D|(I & SH & SS & R)]. { left. rewrite (proj1 (proj2 (kframe_sd_add_item sch s1 o a item))). exact D. }
    destruct PK as [D'|[I' SH']]. left; exact D'. right. split; [exact I'|]. split; [exact SH'|].
    pose proof (rframe_vsame1 sch s s1 R1) as VS1.
    assert (EXO1 : vex s1 o = true) by (destruct (VS1 o) as (A & _); congruence).
    assert (LT : (a < vslen s1 o)%nat).
    { rewrite (sshape_vslen sch s1 o SS EXO1). destruct (VS1 o) as (_ & _ & C & _). rewrite C.
      eapply set_info_lt. eapply wf_ref_set; eauto. }
    destruct (sd_add_item_adds s1 o a item EXO1 LT) as (A1 & A2 & A3).
    assert (MEM : In item (vitems s1 o a)).
    { destruct R as (_ & R1' & _). apply (R1' item r (vent s o) a o).
      - destruct (VS1 item) as (_ & B & _). rewrite B. apply vlive_not_del; auto.
      - unfold is_ref_of. destruct (VS1 item) as (_ & _ & C & _). rewrite C. exact RI.
      - destruct R1 as [_ F]. destruct (F item) as (_ & _ & _ & _ & X & _). rewrite (X r (vent s o) a RI). unfold vref. rewrite SAME. reflexivity. }
    assert (RF : rframe sch s1 (sd_add_item s1 o a item)).
    { split. apply (proj1 (proj2 (kframe_sd_add_item sch s1 o a item))). intros o'. destruct (A1 o') as (B1 & B2 & B3 & B4).
      split; [exact B1|]. split; [exact B2|]. split; [exact B3|]. split; [exact B4|]. split.
      - intros. apply A2.
      - intros r' y. rewrite A3. destruct (Nat.eqb o' o && Nat.eqb r' a) eqn:E; [|tauto].
        apply andb_true_iff in E. destruct E as [E1 E2]. apply Nat.eqb_eq in E1, E2. subst o' r'. split; [|auto]. intros [H|H]; subst; auto. }
    split. eapply rframe_sshape; eauto. eapply rframe_Inv; eauto.
  - assert (E : sd_add_item (match obj_val s item r with
                              | Some (VRef x) => rev_remove (upd_obj (mark_written s item r) item (fun ob => ob_put_val ob r (Some (VRef o)))) x a item
                              | _ => upd_obj (mark_written s item r) item (fun ob => ob_put_val ob r (Some (VRef o))) end) o a item
               = set_ref_gen sd_add_item s item r a (VRef o)).
    { unfold set_ref_gen. rewrite SAME. reflexivity. }
    rewrite E. eapply Pkr_set_ref_gen; eauto. apply sd_add_item_adds. intros. apply kframe_sd_add_item.
    intros y H. inversion H; subst. auto.
Qed.
End RelLeaves2.

Section RelLeaves3.
Variable sch : schema.
Hypothesis WF : wf_schema sch = true.

(* pushing an object without references or collections *)
Lemma Inv_rel_push : forall s ob, Inv_rel sch s ->
  (forall a, oref ob a = None) -> (forall r, oitems ob r = []) -> Inv_rel sch (fst (push_obj s ob)).
Proof.
  intros s ob (R0 & R1 & R2) NR NI. set (s' := fst (push_obj s ob)). set (n := length (s_objs s)).
  assert (OLD : forall o, (o < n)%nat -> get_obj s' o = get_obj s o) by (intros; apply get_push_obj_old; auto).
  assert (NEW : get_obj s' n = Some ob) by (apply (get_push_obj_new s ob)).
  assert (EXLT : forall o, vex s o = true -> (o < n)%nat).
  { intros o H. unfold vex in H. destruct (get_obj s o) eqn:G; try discriminate. eapply get_obj_lt; eauto. }
  assert (VO : forall o, (o < n)%nat -> vex s' o = vex s o /\ vlive s' o = vlive s o /\ vent s' o = vent s o /\
                 (forall a, vref s' o a = vref s o a) /\ (forall r, vitems s' o r = vitems s o r)).
  { intros o L. unfold vex, vlive, vent, vref, vitems, obj_ent, obj_val, coll_items. rewrite (OLD o L). auto. }
  assert (VN : (forall a, vref s' n a = None) /\ (forall r, vitems s' n r = [])).
  { split; intros. rewrite (vref_get s' n ob a NEW). apply NR. rewrite (vitems_get s' n ob r NEW). apply NI. }
  assert (GE : forall o, (n < o)%nat -> get_obj s' o = None).
  { intros o L. apply get_obj_ge. unfold s', push_obj, set_objs. cbn [fst s_objs]. rewrite app_length. simpl. fold n. lia. }
  assert (EX' : forall o, vex s' o = true -> (o < n)%nat \/ o = n).
  { intros o H. destruct (lt_dec n o). unfold vex in H. rewrite (GE o l) in H. discriminate. lia. }
  unfold Inv_rel, is_ref_of. split; [|split].
  - intros b a t r x EX RI VR. destruct (EX' b EX) as [L| ->]; [|rewrite (proj1 VN) in VR; discriminate].
    destruct (VO b L) as (A & B & C & D & E). rewrite A in EX. rewrite C in RI. rewrite D in VR.
    destruct (R0 b a t r x EX RI VR) as [X1 X2]. destruct (VO x (EXLT x X1)) as (A' & _ & C' & _). rewrite A', C'. auto.
  - intros b a t r x LV RI VR. assert (EX : vex s' b = true) by (unfold vlive, vex in *; destruct (get_obj s' b); auto; discriminate).
    destruct (EX' b EX) as [L| ->]; [|rewrite (proj1 VN) in VR; discriminate].
    destruct (VO b L) as (A & B & C & D & E). rewrite B in LV. rewrite C in RI. rewrite D in VR.
    destruct (R0 b a t r x (eq_trans (eq_sym A) EX) RI VR) as [X1 X2]. destruct (VO x (EXLT x X1)) as (_ & _ & _ & _ & E'). rewrite E'. eapply R1; eauto.
  - intros x r b M. destruct (lt_dec x n) as [L|GEx].
    + destruct (VO x L) as (_ & _ & _ & _ & E). rewrite E in M. destruct (R2 x r b M) as [LV (a & t & RI & VR)].
      assert (LB : (b < n)%nat) by (apply EXLT; unfold vlive, vex in *; destruct (get_obj s b); auto; discriminate).
      destruct (VO b LB) as (_ & B & C & D & _). split. congruence. exists a, t. rewrite C, D. auto.
    + exfalso. destruct (Nat.eq_dec x n) as [->|NE]. rewrite (proj2 VN) in M. destruct M.
      unfold vitems, coll_items in M. rewrite (GE x) in M by lia. destruct M.
Qed.

Lemma sshape_push : forall s ob, Inv_sshape sch s -> length (o_sets ob) = nattrs sch (o_ent ob) -> Inv_sshape sch (fst (push_obj s ob)).
Proof.
  intros s ob SS L o ob' G. rewrite get_push_obj in G. destruct (Nat.eqb o (length (s_objs s))). inversion G; subst; auto. apply (SS o ob' G).
Qed.

Lemma oref_new_loaded : forall e pk a, oref (new_loaded sch e pk) a = None.
Proof. intros. unfold oref, oval, new_loaded. cbn [o_vals]. rewrite nth_repeat_same. reflexivity. Qed.
Lemma oitems_new_loaded : forall e pk r, oitems (new_loaded sch e pk) r = [].
Proof. intros. unfold oitems, oset, new_loaded. cbn [o_sets]. rewrite nth_repeat_same. reflexivity. Qed.

Lemma Pkr_get_or_seed : forall s e pk, Pkr sch s -> Pkr sch (fst (get_or_seed sch s e pk)).
Proof.
  intros s e pk P. pose proof (Pk_get_or_seed sch s e pk (Pkr_Pk sch s P)) as PK.
  destruct P as [D|(I & SH & SS & R)]. left. rewrite get_or_seed_dirty. exact D.
  destruct PK as [D'|[I' SH']]. left; exact D'. right. split; [exact I'|]. split; [exact SH'|].
  destruct (idx_get s e O (VInt pk)) eqn:G.
  - unfold get_or_seed. rewrite G. auto.
  - rewrite (get_or_seed_none sch s e pk G). cbn [fst]. split.
    + eapply (rframe_sshape sch (fst (push_obj s (new_loaded sch e pk)))). apply rframe_fields; reflexivity.
      apply sshape_push; auto. unfold new_loaded. cbn [o_sets o_ent]. apply repeat_length.
    + eapply (rframe_Inv sch (fst (push_obj s (new_loaded sch e pk)))). apply rframe_fields; reflexivity.
      apply Inv_rel_push; auto. apply oref_new_loaded. apply oitems_new_loaded.
Qed.

(* the object registered under (e, pk) has entity e *)
Lemma get_or_seed_ent : forall s e pk, Inv_idx sch s ->
  vex (fst (get_or_seed sch s e pk)) (snd (get_or_seed sch s e pk)) = true /\ vent (fst (get_or_seed sch s e pk)) (snd (get_or_seed sch s e pk)) = e.
Proof.
  intros s e pk I. destruct (idx_get s e O (VInt pk)) as [o|] eqn:G.
  - unfold get_or_seed. rewrite G. cbn [fst snd]. apply (I e O (VInt pk) o) in G. destruct G as (ob & Hb & He & _).
    unfold vex, vent, obj_ent. rewrite Hb. auto.
  - rewrite (get_or_seed_none sch s e pk G). cbn [fst snd]. unfold vex, vent, obj_ent. rewrite get_obj_idx_put.
    rewrite (get_push_obj s (new_loaded sch e pk)). rewrite Nat.eqb_refl. auto.
Qed.
End RelLeaves3.

Section RelLeaves4.
Variable sch : schema.
Hypothesis WF : wf_schema sch = true.

Lemma Pkr_of_parts : forall s, Pk sch s -> (s_dirty s = O -> Inv_sshape sch s /\ Inv_rel sch s) -> Pkr sch s.
Proof.
  intros s [D|[I SH]] H. left; exact D. destruct (Nat.eq_dec (s_dirty s) O) as [Z|NZ].
  right. destruct (H Z). auto. left; exact NZ.
Qed.

Lemma Pkr_dirty : forall s site, site <> O -> Pkr sch (mark_dirty s site).
Proof. intros. left. unfold mark_dirty. cbn [s_dirty]. destruct (s_dirty s); auto. Qed.

Lemma Pkr_dirty_keep : forall s site, Pkr sch s -> Pkr sch (mark_dirty s site).
Proof.
  intros s site [D|H]. left. unfold mark_dirty. cbn [s_dirty]. destruct (s_dirty s); congruence.
  destruct site. right. exact H. apply Pkr_dirty. discriminate.
Qed.

Lemma kind_ref_info : forall e a at_ t r, get_attr sch e a = Some at_ -> a_kind at_ = KRef t r -> ref_info sch e a = Some (t, r).
Proof. intros. unfold ref_info. rewrite H, H0. reflexivity. Qed.
Lemma kind_noref_info : forall e a at_, get_attr sch e a = Some at_ -> is_ref_kind (a_kind at_) = false -> ref_info sch e a = None.
Proof. intros. unfold ref_info. rewrite H. destruct (a_kind at_); try reflexivity. discriminate. Qed.

Lemma robj_eq_sets_val_noref : forall f a v ob, sets_val f a v -> ref_info sch (o_ent ob) a = None -> robj_eq sch ob (f ob).
Proof.
  intros f a v ob SV N. destruct (SV ob) as (A & B & C & D). unfold robj_eq. rewrite A, B, C. split; [|split; [|split; [|split]]]; auto.
  - intros x t r H. destruct (Nat.eq_dec a x). subst. congruence. unfold oref, oval. rewrite D. rewrite nth_upd_nth_other by auto. reflexivity.
  - intros r y. unfold oitems, oset. rewrite C. tauto.
Qed.

Lemma dbset_index_objs : forall s o e a v, s_objs (dbset_index sch s o e a v) = s_objs s.
Proof.
  intros. unfold dbset_index. destruct (attr_uniq sch e a && negb (oval_eqb (obj_val s o a) (Some v))); auto.
  destruct (is_vnone v); destruct (obj_val s o a) as [ov|]; try destruct (is_vnone ov); reflexivity.
Qed.

Lemma dbset_attr_dirty_mono : forall s o e a v, s_dirty s <> O -> s_dirty (out_state (dbset_attr sch s o e a v)) <> O.
Proof.
  intros s o e a v D. unfold dbset_attr. destruct (get_obj s o) as [ob|]; auto. destruct (get_attr sch e a) as [at_|]; auto.
  destruct (is_set_kind (a_kind at_)); auto. destruct (odbval ob a) as [old|].
  { destruct (val_eqb old v); auto. simpl. unfold mark_dirty. cbn [s_dirty]. destruct (s_dirty s); congruence. }
  destruct (owbit ob a).
  { destruct (a_kind at_); try (simpl; rewrite upd_obj_dirty; exact D).
    destruct v; try (simpl; rewrite upd_obj_dirty; exact D).
    destruct (db_rev_add s o0 rev o); simpl; unfold mark_dirty; cbn [s_dirty]; match goal with |- context [match ?x with O => _ | S _ => _ end] => destruct x end; discriminate. }
  destruct (oval ob a). { simpl. unfold mark_dirty. cbn [s_dirty]. destruct (s_dirty s); congruence. }
  match goal with |- context [if ?c then _ else _] => destruct c end. { simpl. unfold mark_dirty. cbn [s_dirty]. destruct (s_dirty s); congruence. }
  match goal with |- context [match ?r0 with Ok _ _ => _ | Err _ _ => _ end] => set (r1 := r0) end.
  assert (DR : s_dirty (out_state r1) = s_dirty s).
  { unfold r1. destruct (a_kind at_); auto. destruct v; auto. apply (proj1 (proj2 (kframe_db_rev_add sch s o0 rev o))). }
  destruct r1 as [s1 u|s1 er]; simpl in *.
  - rewrite upd_obj_dirty, dbset_index_dirty. congruence.
  - unfold mark_dirty. cbn [s_dirty]. destruct (s_dirty s1); congruence.
Qed.

Lemma Pkr_dbset_attr : forall s o e a v,
  Pkr sch s -> obj_ent s o = e -> vex s o = true -> is_del (obj_st s o) = false ->
  (forall y t r, v = VRef y -> ref_info sch e a = Some (t, r) -> vex s y = true /\ vent s y = t) ->
  Pkr sch (out_state (dbset_attr sch s o e a v)).
Proof.
  intros s o e a v P EE EX ND TY.
  pose proof (Pk_dbset_attr sch s o e a v (Pkr_Pk sch s P) EE ND) as PK.
  destruct P as [D|(I & SH & SS & R)]. { left. apply dbset_attr_dirty_mono. exact D. }
  apply Pkr_of_parts; auto. intros CLEAN.
  unfold dbset_attr in *.
  destruct (get_obj s o) as [ob|] eqn:G; [|auto].
  assert (EO : o_ent ob = e) by (rewrite <- EE; unfold obj_ent; rewrite G; reflexivity).
  destruct (get_attr sch e a) as [at_|] eqn:GA; [|auto].
  destruct (is_set_kind (a_kind at_)) eqn:ISK; [auto|].
  destruct (odbval ob a) as [old|].
  { destruct (val_eqb old v); auto. }
  destruct (owbit ob a).
  { assert (Q : rframe sch s (upd_obj s o (fun ob2 => ob_put_dbval ob2 a (Some v)))) by (apply rframe_upd_obj; intros; apply robj_eq_dbval).
    destruct (a_kind at_) as [| |t r|t r]; try (split; [eapply rframe_sshape|eapply rframe_Inv]; eauto; fail).
    destruct v; try (split; [eapply rframe_sshape|eapply rframe_Inv]; eauto; fail).
    exfalso. destruct (db_rev_add s o0 r o); simpl in CLEAN; unfold mark_dirty in CLEAN; cbn [s_dirty] in CLEAN;
      match type of CLEAN with context [match ?x with O => _ | S _ => _ end] => destruct x end; discriminate. }
  destruct (oval ob a) eqn:OV. { auto. }
  match goal with |- context [if ?c then _ else _] => destruct c eqn:CF end. { auto. }
  assert (LTa : (a < length (o_vals ob))%nat).
  { rewrite (SH o ob G). rewrite EO. eapply get_attr_lt; eauto. }
  assert (VR0 : vref s o a = None) by (rewrite (vref_get s o ob a G); unfold oref; rewrite OV; reflexivity).
  assert (LIVE : vlive s o = true) by (apply vlive_not_del; auto).
  assert (SV := sets_val_put_db a v (Some v)).
  (* the cases without a new link: the relationship views do not change *)
  assert (NOLINK : ref_info sch e a = None \/ ref_of v = None ->
            Inv_sshape sch (upd_obj (dbset_index sch s o e a v) o (fun ob2 => ob_put_val (ob_put_dbval ob2 a (Some v)) a (Some v))) /\
            Inv_rel sch (upd_obj (dbset_index sch s o e a v) o (fun ob2 => ob_put_val (ob_put_dbval ob2 a (Some v)) a (Some v)))).
  { intros C.
    assert (RF : rframe sch s (upd_obj (dbset_index sch s o e a v) o (fun ob2 => ob_put_val (ob_put_dbval ob2 a (Some v)) a (Some v)))).
    { eapply rframe_trans. apply (rframe_fields sch s (dbset_index sch s o e a v)). apply dbset_index_objs. apply dbset_index_dirty.
      destruct C as [C|C].
      - apply rframe_upd_obj. intros ob2 G2. apply (robj_eq_sets_val_noref _ a v ob2 SV).
        unfold get_obj in G2. rewrite dbset_index_objs in G2. fold (get_obj s o) in G2. rewrite G in G2. inversion G2. subst ob2. rewrite EO. exact C.
      - eapply (rframe_put_val_noref_gen sch (dbset_index sch s o e a v) o a v _ SV); auto.
        + unfold vex, get_obj. rewrite dbset_index_objs. fold (get_obj s o). rewrite G. reflexivity.
        + intros ob2 G2. unfold get_obj in G2. rewrite dbset_index_objs in G2. fold (get_obj s o) in G2. rewrite G in G2. inversion G2. subst ob2. exact LTa.
        + unfold vref, obj_val, get_obj. rewrite dbset_index_objs. fold (get_obj s o). rewrite G, OV. reflexivity. }
    split. eapply rframe_sshape; eauto. eapply rframe_Inv; eauto. }
  destruct (a_kind at_) as [| |t r|t r] eqn:K; try discriminate.
  - cbn [out_state] in *. apply NOLINK. left. eapply kind_noref_info; eauto. rewrite K. reflexivity.
  - cbn [out_state] in *. apply NOLINK. left. eapply kind_noref_info; eauto. rewrite K. reflexivity.
  - assert (RI : ref_info sch e a = Some (t, r)) by (eapply kind_ref_info; eauto).
    destruct v as [| | |y]; try (cbn [out_state] in *; apply NOLINK; right; reflexivity).
    destruct (TY y t r eq_refl RI) as [EY TE].
    assert (LTr : (r < vslen s y)%nat).
    { rewrite (sshape_vslen sch s y SS EY). rewrite TE. eapply set_info_lt. eapply wf_ref_set; eauto. }
    destruct (db_rev_add s y r o) as [s1 u|s1 er] eqn:DB; cbn [out_state] in *; [|exfalso; unfold mark_dirty in CLEAN; cbn [s_dirty] in CLEAN; destruct (s_dirty s1); discriminate].
    destruct (db_rev_add_adds s y r o s1 u EY LTr DB) as (A1 & A2 & A3).
    assert (NU : attr_uniq sch e a = false) by (eapply wf_ref_not_uniq; eauto).
    assert (DI : dbset_index sch s1 o e a (VRef y) = s1) by (unfold dbset_index; rewrite NU; reflexivity).
    rewrite DI in *.
    pose proof (kframe_db_rev_add sch s y r o) as KF. rewrite DB in KF. cbn [out_state] in KF.
    destruct KF as (_ & _ & _ & KO). destruct (KO o ob G) as (ob1 & G1 & KE).
    assert (LT1 : (a < length (o_vals ob1))%nat) by (destruct KE as (_ & _ & _ & _ & _ & L & _); rewrite <- L; exact LTa).
    destruct (put_val_views_gen s1 o a (VRef y) _ ob1 SV G1 LT1) as (P1 & P2 & P3).
    split.
    + eapply vsame1_sshape. eapply vsame1_trans. exact A1. exact P1. exact SS.
    + eapply (Inv_relink sch s _ o a t r None (Some y) WF R LIVE).
      * unfold is_ref_of, vent. rewrite EE. exact RI.
      * exact VR0.
      * discriminate.
      * intros y0 H. inversion H; subst. auto.
      * intros o'. destruct (A1 o') as (B1 & B2 & B3 & _). destruct (P1 o') as (C1 & C2 & C3 & _). repeat split; congruence.
      * intros o' a' t' r' _. rewrite P3. rewrite A2. reflexivity.
      * intros o' r' z. rewrite P2. rewrite A3. simpl. rewrite (Nat.eqb_sym y o'). tauto.
Qed.
End RelLeaves4.

(* ---------------------------------------------------------------- loading rows *)

(* objects stay, with their entity *)
Definition emono (s s' : sess) : Prop := forall o ob, get_obj s o = Some ob -> exists ob', get_obj s' o = Some ob' /\ o_ent ob' = o_ent ob.

Lemma emono_refl : forall s, emono s s. Proof. intros s o ob G. exists ob. auto. Qed.
Lemma emono_trans : forall s1 s2 s3, emono s1 s2 -> emono s2 s3 -> emono s1 s3.
Proof. intros s1 s2 s3 A B o ob G. destruct (A o ob G) as (ob2 & G2 & E2). destruct (B o ob2 G2) as (ob3 & G3 & E3). exists ob3. split; auto. congruence. Qed.
Lemma emono_fields : forall s s', s_objs s' = s_objs s -> emono s s'.
Proof. intros s s' H o ob G. exists ob. split; auto. unfold get_obj in *. congruence. Qed.
Lemma emono_upd_obj : forall s o f, (forall ob, o_ent (f ob) = o_ent ob) -> emono s (upd_obj s o f).
Proof.
  intros s o f H o' ob G. rewrite get_upd_obj. destruct (Nat.eqb o o'). rewrite G. simpl. exists (f ob). auto. exists ob. auto.
Qed.
Lemma emono_kframe : forall sch s s', kframe sch s s' -> emono s s'.
Proof. intros sch s s' (_ & _ & _ & F) o ob G. destruct (F o ob G) as (b & Hb & K). exists b. split; auto. destruct K as (K & _). auto. Qed.
Lemma emono_push : forall s ob, emono s (fst (push_obj s ob)).
Proof. intros s ob o ob0 G. exists ob0. split; auto. rewrite get_push_obj_old; auto. eapply get_obj_lt; eauto. Qed.

Lemma emono_vex : forall s s' o, emono s s' -> vex s o = true -> vex s' o = true /\ vent s' o = vent s o.
Proof.
  intros s s' o M E. unfold vex, vent, obj_ent in *. destruct (get_obj s o) as [ob|] eqn:G; try discriminate.
  destruct (M o ob G) as (ob' & G' & EE). rewrite G'. auto.
Qed.

Section RelLoad.
Variable sch : schema.
Hypothesis WF : wf_schema sch = true.

Lemma emono_get_or_seed : forall s e pk, emono s (fst (get_or_seed sch s e pk)).
Proof.
  intros. unfold get_or_seed. destruct (idx_get s e O (VInt pk)). apply emono_refl.
  cbn [fst]. eapply emono_trans. apply emono_push. apply emono_fields. reflexivity.
Qed.

Lemma emono_dbset_attr : forall s o e a v, emono s (out_state (dbset_attr sch s o e a v)).
Proof.
  intros. unfold dbset_attr. destruct (get_obj s o) as [ob|] eqn:G; [|apply emono_refl].
  destruct (get_attr sch e a) as [at_|]; [|apply emono_refl].
  destruct (is_set_kind (a_kind at_)); [apply emono_refl|].
  destruct (odbval ob a) as [old|].
  { destruct (val_eqb old v). apply emono_refl. simpl. apply emono_fields. reflexivity. }
  destruct (owbit ob a).
  { destruct (a_kind at_) as [| |t r|t r]; try (simpl; apply emono_upd_obj; intros; auto).
    destruct v; try (simpl; apply emono_upd_obj; intros; auto).
    pose proof (emono_kframe sch s _ (kframe_db_rev_add sch s o0 r o)) as E1. destruct (db_rev_add s o0 r o) as [s1 u|s1 er]; simpl in *.
    - eapply emono_trans. apply E1. eapply emono_trans; [|apply emono_fields; reflexivity]. apply emono_upd_obj. intros; auto.
    - eapply emono_trans. apply E1. apply emono_fields. reflexivity. }
  destruct (oval ob a). { simpl. apply emono_fields. reflexivity. }
  match goal with |- context [if ?c then _ else _] => destruct c end. { simpl. apply emono_fields. reflexivity. }
  assert (E1 : emono s (out_state (match a_kind at_, v with KRef _ r, VRef y => db_rev_add s y r o | _, _ => Ok s tt end))).
  { destruct (a_kind at_); try apply emono_refl. destruct v; try apply emono_refl. apply (emono_kframe sch). apply kframe_db_rev_add. }
  destruct (match a_kind at_, v with KRef _ r, VRef y => db_rev_add s y r o | _, _ => Ok s tt end) as [s1 u|s1 er]; simpl in *.
  - eapply emono_trans. apply E1. eapply emono_trans. apply emono_fields. apply dbset_index_objs. apply emono_upd_obj. intros; auto.
  - eapply emono_trans. apply E1. apply emono_fields. reflexivity.
Qed.

(* the reference values of a parsed row point to existing objects of the right entities *)
Definition typed_vals (s : sess) (e a0 : nat) (vals : list val) : Prop :=
  forall i y t r, nth_error vals i = Some (VRef y) -> ref_info sch e (a0 + i) = Some (t, r) -> vex s y = true /\ vent s y = t.

Lemma typed_vals_emono : forall s s' e a0 vals, emono s s' -> typed_vals s e a0 vals -> typed_vals s' e a0 vals.
Proof.
  intros s s' e a0 vals M T i y t r N RI. destruct (T i y t r N RI) as [A B]. destruct (emono_vex s s' y M A) as [C D]. split; congruence.
Qed.

Lemma Pkr_dbset_loop : forall vals s o e a,
  Pkr sch s -> obj_ent s o = e -> vex s o = true -> is_del (obj_st s o) = false -> typed_vals s e a vals ->
  Pkr sch (out_state (dbset_loop sch s o e a vals)).
Proof.
  induction vals as [|v t IH]; intros s o e a P EE EX ND TV; simpl. exact P.
  assert (TYv : forall y t0 r, v = VRef y -> ref_info sch e a = Some (t0, r) -> vex s y = true /\ vent s y = t0).
  { intros y t0 r H RI. subst v. apply (TV O y t0 r). reflexivity. rewrite Nat.add_0_r. exact RI. }
  pose proof (Pkr_dbset_attr sch WF s o e a v P EE EX ND TYv) as P1.
  pose proof (est_same_dbset_attr sch s o e a v o) as [E1 E2].
  pose proof (emono_dbset_attr s o e a v) as M.
  destruct (dbset_attr sch s o e a v) as [s1 u|s1 er]; simpl in *; auto.
  apply IH; auto. congruence. apply (emono_vex s s1 o M EX). rewrite E2. exact ND.
  apply (typed_vals_emono s s1 e (S a) t M). intros i y t0 r N RI. apply (TV (S i) y t0 r). exact N.
  replace (a + S i)%nat with (S a + i)%nat by lia. exact RI.
Qed.

Lemma Fr_seed_off : forall s o, Fr sch s (upd_obj s o (fun ob => ob_set_seed ob false)).
Proof. intros. apply Fr_upd_obj. intros. split. apply kobj_eq_seed. apply robj_eq_seed. Qed.

Lemma Pkr_db_set_obj : forall s o e vals,
  Pkr sch s -> obj_ent s o = e -> vex s o = true -> is_del (obj_st s o) = false -> typed_vals s e O vals ->
  Pkr sch (out_state (db_set_obj sch s o e vals)).
Proof.
  intros s o e vals P EE EX ND TV. unfold db_set_obj.
  pose proof (Fr_seed_off s o) as F. destruct F as [KF RF].
  apply Pkr_dbset_loop.
  - eapply Fr_Pkr; eauto. split; auto.
  - rewrite (kframe_obj_ent sch s _ o KF). exact EE.
  - destruct (rframe_vsame1 sch s _ RF o) as (A & _). congruence.
  - rewrite (kframe_is_del sch s _ o KF). exact ND.
  - eapply typed_vals_emono; eauto. eapply emono_kframe; eauto.
Qed.

Lemma parse_cols_dirty : forall cols s e a, s_dirty (fst (parse_cols sch s e a cols)) = s_dirty s.
Proof.
  induction cols as [|c t IH]; intros s e a; simpl. reflexivity.
  destruct (ref_info sch e a) as [[tgt r]|].
  - destruct c; try (specialize (IH s e (S a)); destruct (parse_cols sch s e (S a) t); exact IH).
    pose proof (get_or_seed_dirty sch s tgt z) as D1. destruct (get_or_seed sch s tgt z) as [s1 o]. simpl in D1.
    specialize (IH s1 e (S a)). destruct (parse_cols sch s1 e (S a) t). simpl in *. congruence.
  - specialize (IH s e (S a)). destruct (parse_cols sch s e (S a) t). exact IH.
Qed.

Lemma Pkr_parse_cols : forall cols s e a, Pkr sch s -> Pkr sch (fst (parse_cols sch s e a cols)).
Proof.
  induction cols as [|c t IH]; intros s e a P; simpl. exact P.
  destruct (ref_info sch e a) as [[tgt r]|].
  - destruct c; try (specialize (IH s e (S a) P); destruct (parse_cols sch s e (S a) t); exact IH).
    pose proof (Pkr_get_or_seed sch s tgt z P) as P1. destruct (get_or_seed sch s tgt z) as [s1 o]. simpl in P1.
    specialize (IH s1 e (S a) P1). destruct (parse_cols sch s1 e (S a) t). exact IH.
  - specialize (IH s e (S a) P). destruct (parse_cols sch s e (S a) t). exact IH.
Qed.

Lemma emono_parse_cols : forall cols s e a, emono s (fst (parse_cols sch s e a cols)).
Proof.
  induction cols as [|c t IH]; intros s e a; simpl. apply emono_refl.
  destruct (ref_info sch e a) as [[tgt r]|].
  - destruct c; try (specialize (IH s e (S a)); destruct (parse_cols sch s e (S a) t); exact IH).
    pose proof (emono_get_or_seed s tgt z) as M1. destruct (get_or_seed sch s tgt z) as [s1 o]. simpl in M1.
    specialize (IH s1 e (S a)). destruct (parse_cols sch s1 e (S a) t). simpl in *. eapply emono_trans; eauto.
  - specialize (IH s e (S a)). destruct (parse_cols sch s e (S a) t). exact IH.
Qed.

Lemma typed_parse_cols : forall cols s e a, Pk sch s -> s_dirty s = O ->
  typed_vals (fst (parse_cols sch s e a cols)) e a (snd (parse_cols sch s e a cols)).
Proof.
  induction cols as [|c t IH]; intros s e a P CL; simpl.
  - intros i y t0 r N. destruct i; discriminate.
  - assert (INV : Inv_idx sch s) by (destruct P as [D|[I _]]; [congruence|exact I]).
    destruct (ref_info sch e a) as [[tgt r]|] eqn:RI.
    + destruct c as [|z| |].
      1,3,4: (specialize (IH s e (S a) P CL); destruct (parse_cols sch s e (S a) t) as [s2 vs]; simpl in *;
              intros i y t0 r0 N RI0; destruct i; [simpl in N; discriminate|]; simpl in N;
              apply (IH i y t0 r0 N); replace (S a + i)%nat with (a + S i)%nat by lia; exact RI0).
      pose proof (get_or_seed_ent sch s tgt z INV) as [EX EN].
      pose proof (Pk_get_or_seed sch s tgt z P) as P1. pose proof (get_or_seed_dirty sch s tgt z) as D1.
      destruct (get_or_seed sch s tgt z) as [s1 o]. simpl in *.
      assert (CL1 : s_dirty s1 = O) by congruence.
      specialize (IH s1 e (S a) P1 CL1). pose proof (emono_parse_cols t s1 e (S a)) as M.
      destruct (parse_cols sch s1 e (S a) t) as [s2 vs]. simpl in *.
      intros i y t0 r0 N RI0. destruct i.
      * simpl in N. inversion N; subst y. rewrite Nat.add_0_r in RI0. assert (t0 = tgt) by congruence. subst t0.
        destruct (emono_vex s1 s2 o M EX) as [A B]. split; congruence.
      * simpl in N. apply (IH i y t0 r0 N). replace (S a + i)%nat with (a + S i)%nat by lia. exact RI0.
    + specialize (IH s e (S a) P CL). destruct (parse_cols sch s e (S a) t) as [s2 vs]. simpl in *.
      intros i y t0 r0 N RI0. destruct i.
      * simpl in N. rewrite Nat.add_0_r in RI0. congruence.
      * simpl in N. apply (IH i y t0 r0 N). replace (S a + i)%nat with (a + S i)%nat by lia. exact RI0.
Qed.
End RelLoad.

Section RelLoad2.
Variable sch : schema.
Hypothesis WF : wf_schema sch = true.

Lemma dbset_loop_dirty_mono : forall vals s o e a, s_dirty s <> O -> s_dirty (out_state (dbset_loop sch s o e a vals)) <> O.
Proof.
  induction vals as [|v t IH]; intros s o e a D; simpl. exact D.
  pose proof (dbset_attr_dirty_mono sch s o e a v D) as D1. destruct (dbset_attr sch s o e a v) as [s1 u|s1 er]; simpl in *; auto.
Qed.

Lemma load_row_dirty_mono : forall s e r, s_dirty s <> O -> s_dirty (out_state (load_row sch s e r)) <> O.
Proof.
  intros s e r D. unfold load_row.
  pose proof (parse_cols_dirty sch (r_cols r) s e O) as D1. destruct (parse_cols sch s e 0 (r_cols r)) as [s1 vals]. simpl in D1.
  pose proof (get_or_seed_dirty sch s1 e (r_pk r)) as D2. destruct (get_or_seed sch s1 e (r_pk r)) as [s2 o]. simpl in D2.
  assert (D3 : s_dirty s2 <> O) by congruence.
  destruct (is_del (obj_st s2 o)). exact D3.
  destruct (status_eqb (obj_st s2 o) SCreated). simpl. unfold mark_dirty. cbn [s_dirty]. destruct (s_dirty s2); congruence.
  unfold db_set_obj.
  assert (D4 : s_dirty (upd_obj s2 o (fun ob => ob_set_seed ob false)) <> O) by (rewrite upd_obj_dirty; exact D3).
  pose proof (dbset_loop_dirty_mono vals _ o (obj_ent s2 o) O D4) as D5.
  destruct (dbset_loop sch (upd_obj s2 o (fun ob => ob_set_seed ob false)) o (obj_ent s2 o) 0 vals); exact D5.
Qed.

Lemma Pkr_load_row : forall s e r, Pkr sch s -> Pkr sch (out_state (load_row sch s e r)).
Proof.
  intros s e r P. destruct (Nat.eq_dec (s_dirty s) O) as [CL|DI]; [|left; apply load_row_dirty_mono; exact DI].
  unfold load_row.
  pose proof (Pkr_parse_cols sch (r_cols r) s e O P) as P1. pose proof (parse_cols_dirty sch (r_cols r) s e O) as D1.
  pose proof (typed_parse_cols sch (r_cols r) s e O (Pkr_Pk sch s P) CL) as TV.
  destruct (parse_cols sch s e 0 (r_cols r)) as [s1 vals]. simpl in P1, D1, TV.
  assert (CL1 : s_dirty s1 = O) by congruence.
  assert (I1 : Inv_idx sch s1) by (destruct P1 as [D|(I & _)]; [congruence|exact I]).
  pose proof (Pkr_get_or_seed sch s1 e (r_pk r) P1) as P2. pose proof (get_or_seed_ent sch s1 e (r_pk r) I1) as [EX EN].
  pose proof (emono_get_or_seed sch s1 e (r_pk r)) as M.
  destruct (get_or_seed sch s1 e (r_pk r)) as [s2 o]. simpl in P2, EX, EN, M.
  destruct (is_del (obj_st s2 o)) eqn:ND. exact P2.
  destruct (status_eqb (obj_st s2 o) SCreated). simpl. apply Pkr_dirty. discriminate.
  assert (P3 : Pkr sch (out_state (db_set_obj sch s2 o (obj_ent s2 o) vals))).
  { apply Pkr_db_set_obj; auto. unfold vent in EN. rewrite EN. eapply typed_vals_emono; eauto. }
  destruct (db_set_obj sch s2 o (obj_ent s2 o) vals); exact P3.
Qed.

Lemma Pkr_load_rows : forall rows s e, Pkr sch s -> Pkr sch (out_state (load_rows sch s e rows)).
Proof.
  induction rows as [|r t IH]; intros s e P; simpl. exact P.
  pose proof (Pkr_load_row s e r P) as P1. destruct (load_row sch s e r) as [s1 x|s1 er]; simpl in *; auto.
  specialize (IH s1 e P1). destruct (load_rows sch s1 e t); exact IH.
Qed.

Lemma Pkr_load_obj_noflush : forall s o, Pkr sch s -> Pkr sch (out_state (load_obj_noflush sch s o)).
Proof.
  intros s o P. unfold load_obj_noflush. destruct (get_obj s o) as [ob|]; [|exact P].
  destruct (o_pk ob) as [pk|]; [|exact P].
  match goal with |- context [load_rows sch s ?e ?rows] => pose proof (Pkr_load_rows rows s e P) as P1; destruct (load_rows sch s e rows) as [s1 os|s1 er] end; simpl in *; auto.
  destruct (mem_nat o os); exact P1.
Qed.

Lemma Pkr_fields : forall s s', s_objs s' = s_objs s -> s_idx s' = s_idx s -> s_dirty s' = s_dirty s -> Pkr sch s -> Pkr sch s'.
Proof. intros. eapply Fr_Pkr; eauto. apply Fr_fields; auto. Qed.

Lemma Pkr_coll_load_noflush : forall s o a, Pkr sch s -> Pkr sch (out_state (coll_load_noflush sch s o a)).
Proof.
  intros s o a P. unfold coll_load_noflush.
  assert (P0 : Pkr sch (coll_ensure s o a)) by (eapply Fr_Pkr; eauto; apply Fr_coll_ensure).
  destruct (coll_full (coll_ensure s o a) o a). exact P0.
  destruct (get_obj (coll_ensure s o a) o) as [ob|]; [|exact P0].
  destruct (set_info sch (obj_ent (coll_ensure s o a) o) a) as [[t r]|]; [|exact P0].
  match goal with |- context [load_rows sch ?s1 t ?rows] =>
    assert (P1 : Pkr sch s1) by (eapply Fr_Pkr; [apply Fr_fold; intros; apply Fr_coll_ensure | exact P0]);
    pose proof (Pkr_load_rows rows s1 t P1) as P2; destruct (load_rows sch s1 t rows) as [s2 os|s2 er] end; cbn [out_state] in *; auto.
  eapply Pkr_fields; [reflexivity|reflexivity|reflexivity|].
  eapply Fr_Pkr; [apply Fr_fold; intros; apply Fr_coll_mark_full | exact P2].
Qed.

Lemma Pkr_coll_load_items : forall s o a items, Pkr sch s -> Pkr sch (out_state (coll_load_items sch s o a items)).
Proof.
  intros s o a items P. unfold coll_load_items.
  assert (P0 : Pkr sch (coll_ensure s o a)) by (eapply Fr_Pkr; eauto; apply Fr_coll_ensure).
  destruct (coll_full (coll_ensure s o a) o a). exact P0.
  destruct (set_info sch (obj_ent (coll_ensure s o a) o) a) as [[t r]|]; [|exact P0].
  destruct items as [|i items]. apply Pkr_coll_load_noflush. exact P0.
  match goal with |- context [match ?u with [] => _ | _ :: _ => _ end] => destruct u end. exact P0.
  destruct (sd_items (get_sd (coll_ensure s o a) o a)).
  - match goal with |- context [load_rows sch ?s1 t ?rows] =>
      pose proof (Pkr_load_rows rows s1 t P0) as P2; destruct (load_rows sch s1 t rows) as [s2 os|s2 er] end; exact P2.
  - apply Pkr_coll_load_noflush. exact P0.
Qed.
End RelLoad2.

(* ---------------------------------------------------------------- flush *)

Section RelFlush.
Variable sch : schema.
Hypothesis WF : wf_schema sch = true.

Lemma after_update_vals_sets : forall ob, o_sets (after_update_vals sch ob) = o_sets ob.
Proof.
  intros. unfold after_update_vals. generalize (seq O (nattrs sch (o_ent ob))). intro l.
  assert (H : forall acc, o_sets (fold_left (fun acc a => if owbit ob a then match oval acc a with Some v => ob_put_dbval acc a (Some v) | None => acc end else acc) l acc) = o_sets acc).
  { induction l as [|a l IH]; intros acc; simpl. auto. rewrite IH. destruct (owbit ob a); auto. destruct (oval acc a); auto. }
  apply H.
Qed.

Lemma oref_put_none : forall ob a x, oval ob a = Some VNone -> oref (ob_put_val ob a None) x = oref ob x.
Proof.
  intros. unfold oref. destruct (Nat.eq_dec a x) as [->|N].
  - rewrite H. unfold oval, ob_put_val, ob_set_vals. cbn [o_vals]. destruct (lt_dec x (length (o_vals ob))).
    + rewrite nth_upd_nth_same by assumption. reflexivity.
    + rewrite upd_nth_overflow by lia. unfold oval in H. rewrite H. reflexivity.
  - rewrite oval_put_other by assumption. reflexivity.
Qed.

Lemma after_insert_vals_rel : forall ob, o_sets (after_insert_vals sch ob) = o_sets ob /\ forall x, oref (after_insert_vals sch ob) x = oref ob x.
Proof.
  intros. unfold after_insert_vals. generalize (seq O (nattrs sch (o_ent ob))). intro l.
  set (step := fun acc a => if attr_is_set sch (o_ent ob) a then acc
                            else match oval acc a with
                                 | Some VNone => ob_put_dbval (ob_put_val acc a None) a None
                                 | Some v => ob_put_dbval acc a (Some v)
                                 | None => acc end).
  assert (ST : forall acc a, o_sets (step acc a) = o_sets acc /\ forall x, oref (step acc a) x = oref acc x).
  { intros acc a. unfold step. destruct (attr_is_set sch (o_ent ob) a). auto.
    destruct (oval acc a) as [v|] eqn:OV; [|auto]. destruct v; try (split; auto; fail).
    split. reflexivity. intros x. change (oref (ob_put_dbval (ob_put_val acc a None) a None) x) with (oref (ob_put_val acc a None) x).
    apply oref_put_none. exact OV. }
  assert (H : forall acc, o_sets (fold_left step l acc) = o_sets acc /\ forall x, oref (fold_left step l acc) x = oref acc x).
  { induction l as [|a l IH]; intros acc; cbn [fold_left]. auto.
    destruct (IH (step acc a)) as (A & B). destruct (ST acc a) as (A1 & B1). split. congruence. intros x. rewrite B. apply B1. }
  apply H.
Qed.

Lemma Pkr_save_updated : forall s o, Pkr sch s -> Pkr sch (out_state (save_updated sch s o)).
Proof.
  intros s o P. pose proof (Pk_save_updated sch s o (Pkr_Pk sch s P)) as PK. unfold save_updated in *.
  destruct (get_obj s o) as [ob|] eqn:G; [|exact P].
  destruct (status_eqb (o_st ob) SModified) eqn:ST; cbn [negb] in *; [|apply Pkr_dirty; discriminate].
  match goal with |- context [if ?c then _ else _] => destruct c end. exact P.
  assert (RF : forall s1, get_obj s1 o = Some ob ->
     rframe sch s1 (upd_obj s1 o (fun ob2 => ob_set_wbits (ob_set_st (after_update_vals sch ob2) SUpdated) (repeat false (nattrs sch (o_ent ob)))))).
  { intros s1 G1. apply rframe_upd_obj. intros ob2 G2. rewrite G1 in G2. inversion G2; subst ob2.
    destruct (after_update_vals_same sch ob) as (A & B & C & D). pose proof (after_update_vals_sets ob) as E.
    unfold robj_eq. cbn [o_ent o_st o_sets ob_set_wbits ob_set_st]. rewrite A, E. split; [reflexivity|]. split.
    { apply status_eqb_eq in ST. rewrite ST. reflexivity. } split; [reflexivity|]. split.
    - intros x t r _. unfold oref, oval. cbn [o_vals ob_set_wbits ob_set_st]. rewrite D. reflexivity.
    - intros r y. unfold oitems, oset. cbn [o_sets ob_set_wbits ob_set_st]. rewrite E. tauto. }
  destruct (written_asg sch s ob) as [|p l] eqn:W.
  - cbn [out_state] in *. eapply rframe_Pkr; [apply RF; exact G | exact PK | exact P].
  - destruct (o_pk ob) as [pk|]; [|exact P].
    destruct (db_update sch (s_db s) (o_ent ob) pk (p :: l)) as [er|d'].
    + destruct er; exact P.
    + cbn [out_state] in *. eapply rframe_Pkr; [| exact PK | exact P].
      eapply rframe_trans. apply (rframe_fields sch s (set_db s d')); reflexivity. apply RF. exact G.
Qed.

Lemma Pkr_save_deleted : forall s o, Pkr sch s -> Pkr sch (out_state (save_deleted sch s o)).
Proof.
  intros s o P. pose proof (Pk_save_deleted sch s o (Pkr_Pk sch s P)) as PK. unfold save_deleted in *.
  destruct (get_obj s o) as [ob|] eqn:G; [|exact P].
  destruct (status_eqb (o_st ob) SMarked) eqn:ST; cbn [negb out_state] in *; [|apply Pkr_dirty; discriminate].
  apply status_eqb_eq in ST.
  destruct (o_pk ob) as [pk|]; [|exact P].
  remember (db_delete sch (s_db s) (o_ent ob) pk) as dd eqn:DDel. clear DDel. destruct dd as [er|d']; cbn [out_state] in *. exact P.
  eapply rframe_Pkr; [| exact PK | exact P].
  eapply rframe_trans. apply (rframe_fields sch s (set_db s d')); reflexivity.
  eapply rframe_trans; [|apply rframe_fields; reflexivity].
  apply rframe_upd_obj. intros ob2 G2. change (get_obj (set_db s d') o) with (get_obj s o) in G2. rewrite G in G2. inversion G2; subst ob2.
  apply robj_eq_st. rewrite ST. reflexivity.
Qed.

Lemma Pkr_save_created : forall s o, Pkr sch s -> Pkr sch (out_state (save_created sch s o)).
Proof.
  intros s o P. pose proof (Pk_save_created sch s o (Pkr_Pk sch s P)) as PK. unfold save_created in *.
  destruct (get_obj s o) as [ob|] eqn:G; [|exact P].
  destruct (status_eqb (o_st ob) SCreated) eqn:ST; cbn [negb out_state] in *; [|apply Pkr_dirty; discriminate].
  apply status_eqb_eq in ST.
  remember (db_insert sch (s_db s) (o_ent ob) (o_pk ob) (row_of_obj sch s ob)) as di eqn:DI. clear DI.
  destruct di as [er|[d' newpk]]. { destruct er; exact P. }
  set (F := fun ob2 => after_insert_vals sch (ob_set_wbits (ob_set_st (ob_set_pk ob2 (Some newpk)) SInserted) (repeat false (nattrs sch (o_ent ob))))) in *.
  assert (RF : forall s1, s_objs s1 = s_objs s -> s_dirty s1 = s_dirty s -> rframe sch s (upd_obj s1 o F)).
  { intros s1 O1 D1. eapply rframe_trans. apply (rframe_fields sch s s1); auto.
    apply rframe_upd_obj. intros ob2 G2. unfold get_obj in G2. rewrite O1 in G2. fold (get_obj s o) in G2. rewrite G in G2. inversion G2; subst ob2.
    unfold F. destruct (after_insert_vals_props sch (ob_set_wbits (ob_set_st (ob_set_pk ob (Some newpk)) SInserted) (repeat false (nattrs sch (o_ent ob))))) as (A & B & _).
    destruct (after_insert_vals_rel (ob_set_wbits (ob_set_st (ob_set_pk ob (Some newpk)) SInserted) (repeat false (nattrs sch (o_ent ob))))) as (C & D).
    unfold robj_eq. rewrite A, B, C. cbn [o_ent o_st o_sets ob_set_wbits ob_set_st ob_set_pk]. split; [reflexivity|]. split.
    { rewrite ST. reflexivity. } split; [reflexivity|]. split.
    - intros x t r _. rewrite D. reflexivity.
    - intros r y. unfold oitems, oset. rewrite C. cbn [o_sets ob_set_wbits ob_set_st ob_set_pk]. tauto. }
  destruct (o_pk ob) as [z|].
  - cbn [out_state] in *. eapply rframe_Pkr; [apply RF; reflexivity | exact PK | exact P].
  - destruct (idx_get (set_db s d') (o_ent ob) O (VInt newpk)) as [o2|].
    + destruct (Nat.eqb o2 o); cbn [out_state] in *; [|apply Pkr_dirty; discriminate].
      eapply rframe_Pkr; [apply RF; reflexivity | exact PK | exact P].
    + cbn [out_state] in *. eapply rframe_Pkr; [apply RF; reflexivity | exact PK | exact P].
Qed.

Lemma Pkr_save_principals : forall rec ob l s,
  (forall s p, Pkr sch s -> Pkr sch (out_state (rec s p))) -> Pkr sch s -> Pkr sch (out_state (save_principals rec ob s l)).
Proof.
  intros rec ob l. induction l as [|a l IH]; intros s R P; simpl. exact P.
  destruct (oval ob a) as [[| | |p]|]; try (apply IH; auto; fail).
  destruct (status_eqb (obj_st s p) SCreated); [|apply IH; auto].
  pose proof (R s p P) as P1. destruct (rec s p) as [s1 u|s1 er]; [|exact P1]. apply IH; auto.
Qed.

Lemma Pkr_save_obj : forall fuel s o deps, Pkr sch s -> Pkr sch (out_state (save_obj fuel sch s o deps)).
Proof.
  intros fuel. induction fuel as [|f IH]; intros s o deps P; simpl. exact P.
  destruct (get_obj s o) as [ob|] eqn:G; [|exact P].
  match goal with |- context [match ?r0 with Ok _ _ => _ | Err _ _ => _ end] => set (r := r0) end.
  assert (P0 : Pkr sch (out_state r)).
  { unfold r. destruct (status_eqb (o_st ob) SCreated || status_eqb (o_st ob) SModified); [|exact P].
    destruct (mem_nat o deps). exact P. apply Pkr_save_principals; auto. }
  destruct r as [s1 u|s1 er]; [|exact P0]. cbn [out_state] in P0.
  match goal with |- context [match ?r1 with Ok _ _ => _ | Err _ _ => _ end] => set (r2 := r1) end.
  assert (P1 : Pkr sch (out_state r2)).
  { unfold r2. destruct (o_st ob); try exact P0. apply Pkr_save_created; auto. apply Pkr_save_updated; auto. apply Pkr_save_deleted; auto. }
  destruct r2 as [s2 u2|s2 er]; [|exact P1]. cbn [out_state] in *.
  eapply Pkr_fields; [reflexivity|reflexivity|reflexivity|].
  eapply Fr_Pkr; [|exact P1]. eapply Fr_trans. apply Fr_unqueue. apply Fr_upd_obj. intros. split. apply kobj_eq_pos. apply robj_eq_pos.
Qed.

Lemma Pkr_flush_loop : forall l s, Pkr sch s -> Pkr sch (out_state (flush_loop sch s l)).
Proof.
  intros l. induction l as [|i l IH]; intros s P; cbn [flush_loop]. exact P.
  destruct (nth i (s_tosave s) None) as [o|]; [|apply IH; auto].
  pose proof (Pkr_save_obj (S (length (s_objs s))) s o [] P) as P1.
  remember (save_obj (S (length (s_objs s))) sch s o []) as r eqn:R. clear R.
  destruct r as [s1 u|s1 er]; [|exact P1]. apply IH; auto.
Qed.

Lemma Pkr_flush : forall s, Pkr sch s -> Pkr sch (out_state (flush sch s)).
Proof.
  intros s P. unfold flush. destruct (s_savedpend s). exact P. destruct (negb (s_modified s)). exact P.
  match goal with |- context [if ?c then _ else _] => destruct c end. exact P.
  assert (P0 : Pkr sch (calc_modcoll s)) by (eapply Fr_Pkr; eauto; apply Fr_calc_modcoll).
  pose proof (Pkr_flush_loop (seq O (length (s_tosave (calc_modcoll s)))) (calc_modcoll s) P0) as P1.
  destruct (flush_loop sch (calc_modcoll s) (seq 0 (length (s_tosave (calc_modcoll s))))) as [s2 u|s2 er]; exact P1.
Qed.

Lemma Pkr_auto_flush : forall s, Pkr sch s -> Pkr sch (out_state (auto_flush sch s)).
Proof. intros. unfold auto_flush. destruct (s_modified s). apply Pkr_flush; auto. exact H. Qed.
End RelFlush.

(* ---------------------------------------------------------------- collections and deletion *)

Section RelColl.
Variable sch : schema.
Hypothesis WF : wf_schema sch = true.

Lemma not_del_vex : forall s i, is_del (obj_st s i) = false -> vex s i = true.
Proof. intros s i H. unfold obj_st, vex in *. destruct (get_obj s i); auto. Qed.

Lemma Pkr_fold_items : forall (f : sess -> oid -> sess) l s,
  (forall s i, Pkr sch s -> vex s i = true -> is_del (obj_st s i) = false -> Pkr sch (f s i)) ->
  (forall s i, is_del (obj_st s i) = false -> kframe sch s (f s i)) ->
  Pkr sch s -> any_del s l = false -> Pkr sch (fold_left f l s).
Proof.
  intros f l. induction l as [|i l IH]; intros s HP HK P D; simpl. exact P.
  unfold any_del in D. simpl in D. apply orb_false_iff in D. destruct D as [D1 D2].
  pose proof (HK s i D1) as F. apply IH; auto. apply HP; auto. apply not_del_vex; auto.
  unfold any_del. rewrite <- D2. apply existsb_ext_eq. intros x. apply (kframe_is_del sch s (f s i) x F).
Qed.

Lemma Pkr_fold_out : forall A (f : sess -> A -> out unit) l s,
  (forall s x, Pkr sch s -> Pkr sch (out_state (f s x))) -> Pkr sch s -> Pkr sch (out_state (fold_out f s l)).
Proof.
  intros A f l. induction l as [|x l IH]; intros s H P; simpl. exact P.
  pose proof (H s x P) as P1. destruct (f s x) as [s1 u|s1 er]; [|exact P1]. apply IH; auto.
Qed.

Lemma Fr_put_sd_members : forall s o a sd, (forall y, In y (sd_items sd) <-> In y (sd_items (get_sd s o a))) -> Fr sch s (put_sd s o a sd).
Proof.
  intros. apply Fr_put_sd_same. intros y. rewrite (H y). unfold get_sd, vitems, coll_items.
  destruct (get_obj s o) as [ob|]; simpl. destruct (oset ob a); simpl; tauto. tauto.
Qed.

Lemma dirty_final_sd : forall s o a sd b, s_dirty (set_modified (modcoll_add (put_sd s o a sd) o a) b) = s_dirty s.
Proof.
  intros. cbn [s_dirty set_modified]. unfold modcoll_add. destruct (existsb _ _); cbn [s_dirty set_modcoll]; unfold put_sd; apply upd_obj_dirty.
Qed.

Lemma Pkr_coll_add : forall s o a items, Pkr sch s -> Pkr sch (out_state (coll_add sch s o a items)).
Proof.
  intros s o a items P. unfold coll_add. destruct items as [|i0 items0]. exact P.
  set (items := i0 :: items0). set (items1 := if has_sd s o a then diff_nat items (sd_items (get_sd s o a)) else items).
  match goal with |- context [match ?r0 with Ok _ _ => _ | Err _ _ => _ end] => set (r := r0) end.
  assert (P0 : Pkr sch (out_state r)).
  { unfold r. destruct (has_sd s o a && coll_full s o a). exact P. apply Pkr_coll_load_items; auto. }
  destruct r as [s1 u|s1 er]; [|exact P0]. cbn [out_state] in P0.
  destruct (any_del s1 (diff_nat items1 (sd_items (get_sd s1 o a)))) eqn:AD. exact P0.
  destruct (set_info sch (obj_ent s1 o) a) as [[t r_]|]; [|exact P0].
  set (items2 := diff_nat items1 (sd_items (get_sd s1 o a))) in *.
  assert (P2 : Pkr sch (fold_left (fun acc i => item_link sch acc o a r_ i) items2 (note_order s1 items2))).
  { apply Pkr_fold_items.
    - intros. apply Pkr_item_link; auto.
    - intros. apply kframe_item_link; auto.
    - eapply Fr_Pkr; [apply Fr_note_order|exact P0].
    - rewrite (any_del_kframe sch s1 (note_order s1 items2) items2 (kframe_note_order sch oid s1 items2)). exact AD. }
  set (s2 := fold_left (fun acc i => item_link sch acc o a r_ i) items2 (note_order s1 items2)) in *.
  destruct (Nat.eqb (s_dirty s2) O && negb (subset_nat items2 (sd_items (get_sd s2 o a)))) eqn:CND. { simpl. apply Pkr_dirty. discriminate. }
  apply andb_false_iff in CND. destruct CND as [DZ|SUB].
  { left. cbn [out_state]. rewrite dirty_final_sd. apply Nat.eqb_neq in DZ. exact DZ. }
  apply negb_false_iff in SUB.
  cbn [out_state]. eapply Pkr_fields; [reflexivity|reflexivity|reflexivity|].
  eapply Fr_Pkr; [|exact P2]. eapply Fr_trans; [|apply Fr_modcoll_add].
  apply Fr_put_sd_members. intros y. unfold bookkeeping_add. cbn [sd_items]. rewrite In_union_nat.
  rewrite subset_nat_spec in SUB. split; [intros [H|H]; auto|auto].
Qed.

Lemma Pkr_coll_nonzero : forall s o a, Pkr sch s -> Pkr sch (out_state (coll_nonzero sch s o a)).
Proof.
  intros s o a P. unfold coll_nonzero.
  match goal with |- context [match ?r0 with Ok _ _ => _ | Err _ _ => _ end] => set (r := r0) end.
  assert (P0 : Pkr sch (out_state r)). { unfold r. destruct (has_sd s o a). exact P. apply Pkr_coll_load_noflush; auto. }
  destruct r as [s1 u|s1 er]; [|exact P0]. cbn [out_state] in P0.
  destruct (sd_items (get_sd s1 o a)). 2: exact P0.
  destruct (coll_full s1 o a). exact P0.
  pose proof (Pkr_coll_load_noflush sch WF s1 o a P0) as P1. destruct (coll_load_noflush sch s1 o a); exact P1.
Qed.

Lemma has_sd_false_items : forall s o a, has_sd s o a = false -> sd_items (get_sd s o a) = [].
Proof. intros. unfold has_sd, get_sd in *. destruct (get_obj s o) as [ob|]; auto. destruct (oset ob a); auto. discriminate. Qed.

Lemma any_del_split : forall s l, any_del s l = false -> forall i, In i l -> is_del (obj_st s i) = false.
Proof.
  intros s l H i I. unfold any_del in H. destruct (is_del (obj_st s i)) eqn:D; auto.
  assert (existsb (fun i0 => is_del (obj_st s i0)) l = true) by (apply existsb_exists; exists i; auto). congruence.
Qed.

Lemma Pkr_coll_assign_gen : forall del s o a items,
  (forall s x, Pkr sch s -> Pkr sch (out_state (del s x))) ->
  Pkr sch s -> Pkr sch (out_state (coll_assign_gen del sch s o a items)).
Proof.
  intros del s o a items DEL P. unfold coll_assign_gen.
  match goal with |- context [match ?r0 with Ok _ _ => _ | Err _ _ => _ end] => set (r := r0) end.
  assert (P0 : Pkr sch (out_state r)).
  { unfold r. destruct (has_sd s o a) eqn:HS.
    - destruct (coll_full s o a). exact P. apply Pkr_coll_load_noflush; auto.
    - destruct (status_eqb (obj_st s o) SCreated). 2: apply Pkr_coll_load_noflush; auto.
      simpl. eapply Fr_Pkr; [|exact P]. apply Fr_put_sd_members. intros y. rewrite (has_sd_false_items s o a HS). simpl. tauto. }
  destruct r as [s1 u|s1 er]; [|exact P0]. cbn [out_state] in P0.
  destruct (seteq_nat items (sd_items (get_sd s1 o a))). exact P0.
  set (to_add := diff_nat items (sd_items (get_sd s1 o a))). set (to_remove := diff_nat (sd_items (get_sd s1 o a)) items).
  destruct (any_del s1 to_add) eqn:AD.
  { destruct (set_cascade sch (obj_ent s1 o) a && match to_remove with [] => false | _ => true end); simpl.
    apply Pkr_dirty_keep. exact P0. exact P0. }
  destruct (set_info sch (obj_ent s1 o) a) as [[t r_]|]; [|exact P0].
  set (s1' := note_order (note_order s1 to_remove) to_add).
  assert (F1 : Fr sch s1 s1') by (unfold s1'; eapply Fr_trans; apply Fr_note_order).
  pose proof (Fr_Pkr sch _ _ F1 P0) as P1.
  destruct (negb (set_cascade sch (obj_ent s1 o) a) && any_del s1 to_remove) eqn:AR. simpl. apply Pkr_dirty. discriminate.
  match goal with |- context [match ?r0 with Ok _ _ => _ | Err _ _ => _ end] => set (r2 := r0) end.
  assert (P2 : Pkr sch (out_state r2)).
  { unfold r2. destruct (set_cascade sch (obj_ent s1 o) a) eqn:SC.
    - apply Pkr_fold_out; auto.
    - simpl in AR. cbn [out_state]. apply Pkr_fold_items; auto.
      + intros. apply Pkr_unlink_item; auto.
      + intros. apply kframe_ref_set_rev; auto.
      + rewrite (any_del_kframe sch s1 s1' to_remove (proj1 F1)). exact AR. }
  destruct r2 as [s2 u2|s2 er]; [|exact P2]. cbn [out_state] in P2.
  destruct (any_del s2 to_add) eqn:AD2. simpl. apply Pkr_dirty. discriminate.
  assert (P3 : Pkr sch (fold_left (fun acc i => item_link sch acc o a r_ i) to_add s2)).
  { apply Pkr_fold_items; auto. intros. apply Pkr_item_link; auto. intros. apply kframe_item_link; auto. }
  set (s3 := fold_left (fun acc i => item_link sch acc o a r_ i) to_add s2) in *.
  destruct (Nat.eqb (s_dirty s3) O && negb (seteq_nat (sd_items (get_sd s3 o a)) items)) eqn:CND. { simpl. apply Pkr_dirty. discriminate. }
  apply andb_false_iff in CND. destruct CND as [DZ|SEQ].
  { left. cbn [out_state]. rewrite dirty_final_sd. apply Nat.eqb_neq in DZ. exact DZ. }
  apply negb_false_iff in SEQ.
  cbn [out_state]. eapply Pkr_fields; [reflexivity|reflexivity|reflexivity|].
  eapply Fr_Pkr; [|exact P3]. eapply Fr_trans; [|apply Fr_modcoll_add].
  apply Fr_put_sd_members. rewrite seteq_nat_spec in SEQ. intros y.
  match goal with |- In y (sd_items ?X) <-> _ => assert (EI : sd_items X = items) end.
  { destruct to_remove; destruct to_add; reflexivity. }
  rewrite EI. symmetry. apply SEQ.
Qed.

Lemma Pkr_coll_remove_gen : forall del s o a items,
  (forall s x, Pkr sch s -> Pkr sch (out_state (del s x))) ->
  Pkr sch s -> Pkr sch (out_state (coll_remove_gen del sch s o a items)).
Proof.
  intros del s o a items DEL P. unfold coll_remove_gen.
  set (items0 := if has_sd s o a then diff_nat items (sd_removed (get_sd s o a)) else items).
  destruct items0 as [|i0 it0] eqn:I0. exact P. rewrite <- I0. clear I0.
  match goal with |- context [match ?r0 with Ok _ _ => _ | Err _ _ => _ end] => set (r := r0) end.
  assert (P0 : Pkr sch (out_state r)).
  { unfold r. destruct (has_sd s o a && coll_full s o a). exact P. apply Pkr_coll_load_items; auto. }
  destruct r as [s1 u|s1 er]; [|exact P0]. cbn [out_state] in P0.
  set (items1 := inter_nat items0 (sd_items (get_sd s1 o a))).
  destruct (set_info sch (obj_ent s1 o) a) as [[t r_]|]; [|exact P0].
  set (s1' := note_order s1 items1).
  assert (F1 : Fr sch s1 s1') by (apply Fr_note_order).
  pose proof (Fr_Pkr sch _ _ F1 P0) as P1.
  destruct (negb (set_cascade sch (obj_ent s1 o) a) && any_del s1 items1) eqn:AR. simpl. apply Pkr_dirty. discriminate.
  match goal with |- context [match ?r0 with Ok _ _ => _ | Err _ _ => _ end] => set (r2 := r0) end.
  assert (P2 : Pkr sch (out_state r2)).
  { unfold r2. destruct (set_cascade sch (obj_ent s1 o) a) eqn:SC.
    - apply Pkr_fold_out; auto.
    - simpl in AR. cbn [out_state]. apply Pkr_fold_items; auto.
      + intros. apply Pkr_unlink_item; auto.
      + intros. apply kframe_ref_set_rev; auto.
      + rewrite (any_del_kframe sch s1 s1' items1 (proj1 F1)). exact AR. }
  destruct r2 as [s2 u2|s2 er]; [|exact P2]. cbn [out_state] in P2.
  destruct (Nat.eqb (s_dirty s2) O && existsb (fun i => mem_nat i (sd_items (get_sd s2 o a))) items1) eqn:CND. { simpl. apply Pkr_dirty. discriminate. }
  destruct remove_rebooks_one_to_many; [|exact P2].
  apply andb_false_iff in CND. destruct CND as [DZ|EXB].
  { left. cbn [out_state]. rewrite dirty_final_sd. apply Nat.eqb_neq in DZ. exact DZ. }
  cbn [out_state]. eapply Pkr_fields; [reflexivity|reflexivity|reflexivity|].
  eapply Fr_Pkr; [|exact P2]. eapply Fr_trans; [|apply Fr_modcoll_add].
  apply Fr_put_sd_members. intros y. unfold bookkeeping_remove. cbn [sd_items]. rewrite In_diff_nat. split; [tauto|].
  intros H. split; auto. intro I. assert (existsb (fun i => mem_nat i (sd_items (get_sd s2 o a))) items1 = true).
  { apply existsb_exists. exists y. split; auto. apply mem_nat_In. exact H. } congruence.
Qed.
(* the unlinking half of Entity._delete_ *)
Lemma del_unlink_views : forall l s o e,
  let s' := del_unlink sch s o e l in
  vsame1 s s' /\ (forall o' a, vref s' o' a = vref s o' a) /\
  (forall w r' y, In y (vitems s' w r') <->
     In y (vitems s w r') /\ ~ (y = o /\ exists a t, In a l /\ ref_info sch e a = Some (t, r') /\ vref s o a = Some w)).
Proof.
  induction l as [|a l IH]; intros s o e; cbn zeta.
  - unfold del_unlink. simpl. split; [apply vsame1_refl|]. split; [reflexivity|]. intros w r' y. split; [intro H; split; auto; intros [_ (a & t & [] & _)]|tauto].
  - unfold del_unlink. simpl. fold (del_unlink sch).
    set (s1 := match ref_info sch e a, obj_val s o a with Some (_, r_), Some (VRef x) => rev_remove s x r_ o | _, _ => s end).
    change (fold_left _ l s1) with (del_unlink sch s1 o e l).
    assert (ST : vsame1 s s1 /\ (forall o' a', vref s1 o' a' = vref s o' a') /\
                 (forall w r' y, In y (vitems s1 w r') <-> In y (vitems s w r') /\ ~ (y = o /\ exists t, ref_info sch e a = Some (t, r') /\ vref s o a = Some w))).
    { unfold s1. destruct (ref_info sch e a) as [[t r_]|] eqn:RI.
      - destruct (obj_val s o a) as [[| | |x]|] eqn:OV;
          try (split; [apply vsame1_refl|]; split; [reflexivity|]; intros w r' y; split; [intro H; split; auto; intros [_ (t0 & _ & V)]; unfold vref in V; rewrite OV in V; discriminate | tauto]).
        destruct (rev_remove_removes s x r_ o) as (A & B & C). split; [exact A|]. split; [exact B|].
        intros w r' y. rewrite C. destruct (Nat.eqb w x && Nat.eqb r' r_) eqn:E.
        + apply andb_true_iff in E. destruct E as [E1 E2]. apply Nat.eqb_eq in E1, E2. subst w r'. split.
          * intros [H N]. split; auto. intros [Y _]. contradiction.
          * intros [H N]. split; auto. intro Y. apply N. split; auto. exists t. split; auto. unfold vref. rewrite OV. reflexivity.
        + split. intro H. split; auto. intros [Y (t0 & R0 & V)]. unfold vref in V. rewrite OV in V. inversion V; subst w.
          assert (r' = r_) by congruence. subst r'. rewrite !Nat.eqb_refl in E. discriminate. tauto.
      - split; [apply vsame1_refl|]. split; [reflexivity|]. intros w r' y. split; [intro H; split; auto; intros [_ (t0 & R0 & _)]; discriminate | tauto]. }
    destruct ST as (A1 & A2 & A3). destruct (IH s1 o e) as (B1 & B2 & B3). cbn zeta in B1, B2, B3.
    split; [eapply vsame1_trans; eauto|]. split; [intros; rewrite B2; apply A2|].
    intros w r' y. rewrite B3. rewrite A3. split.
    + intros [[H N1] N2]. split; auto. intros [Y (a0 & t & [I|I] & RI & V)].
      * subst a0. apply N1. split; auto. exists t. auto.
      * apply N2. split; auto. exists a0, t. split; auto. split; auto. rewrite A2. exact V.
    + intros [H N]. split; [split; auto|].
      * intros [Y (t & RI & V)]. apply N. split; auto. exists a, t. split; [left; reflexivity|auto].
      * intros [Y (a0 & t & I & RI & V)]. apply N. split; auto. exists a0, t. split; [right; exact I|]. split; auto. rewrite <- A2. exact V.
Qed.
Lemma Inv_rel_delete : forall s1 s' o,
  Inv_rel sch s1 -> vex s1 o = true ->
  let e := vent s1 o in
  let s2 := del_unlink sch s1 o e (seq O (nattrs sch e)) in
  (forall o', vex s' o' = vex s2 o' /\ vent s' o' = vent s2 o' /\ vlive s' o' = (if Nat.eqb o' o then false else vlive s2 o') /\
              (forall a, vref s' o' a = vref s2 o' a) /\ (forall r y, In y (vitems s' o' r) <-> In y (vitems s2 o' r))) ->
  Inv_rel sch s'.
Proof.
  intros s1 s' o (R0 & R1 & R2) EXO e s2 V.
  destruct (del_unlink_views (seq O (nattrs sch e)) s1 o e) as (U1 & U2 & U3). fold s2 in U1, U2, U3.
  unfold Inv_rel, is_ref_of in *. split; [|split].
  - intros b a t r x EX RI VR. destruct (V b) as (A & B & C & D & E). destruct (U1 b) as (A1 & _ & B1 & _).
    rewrite A, A1 in EX. rewrite B, B1 in RI. rewrite D, U2 in VR.
    destruct (R0 b a t r x EX RI VR) as [X1 X2]. destruct (V x) as (A' & B' & _). destruct (U1 x) as (A1' & _ & B1' & _).
    rewrite A', A1', B', B1'. auto.
  - intros b a t r x LV RI VR. destruct (V b) as (A & B & C & D & E). destruct (U1 b) as (A1 & L1 & B1 & _).
    rewrite C in LV. destruct (Nat.eqb b o) eqn:BO; try discriminate. apply Nat.eqb_neq in BO.
    rewrite L1 in LV. rewrite B, B1 in RI. rewrite D, U2 in VR.
    destruct (V x) as (_ & _ & _ & _ & E'). apply E'. apply U3. split. eapply R1; eauto. intros [Y _]. contradiction.
  - intros x r b M. destruct (V x) as (_ & _ & _ & _ & E'). apply E' in M. apply U3 in M. destruct M as [M N].
    destruct (R2 x r b M) as [LV (a & t & RI & VR)].
    assert (BO : b <> o).
    { intro Y. subst b. apply N. split; auto. exists a, t. split; [|split; auto].
      apply in_seq. pose proof (ref_info_lt sch _ _ _ RI). fold e in H. lia. }
    destruct (V b) as (A & B & C & D & E). destruct (U1 b) as (A1 & L1 & B1 & _).
    split. rewrite C. apply Nat.eqb_neq in BO. rewrite BO. congruence.
    exists a, t. rewrite B, B1, D, U2. auto.
Qed.

Lemma Pkr_delete_tail : forall s1 o ob, Pkr sch s1 -> is_del (o_st ob) = false -> Pkr sch (out_state (delete_tail sch s1 o ob)).
Proof.
  intros s1 o ob P ND. pose proof (Pk_delete_tail sch s1 o ob (Pkr_Pk sch s1 P) ND) as PK. unfold delete_tail in *.
  destruct (get_obj s1 o) as [ob1|] eqn:G1; [|exact P].
  destruct (negb (status_eqb (o_st ob1) (o_st ob)) || negb (Nat.eqb (o_ent ob1) (o_ent ob))) eqn:CHK. exact P.
  set (e := o_ent ob1) in *. set (attrs := seq O (nattrs sch e)) in *.
  set (s2 := del_unlink sch s1 o e attrs) in *. set (s3 := del_keys sch s2 o e attrs) in *.
  destruct (del_keys_objs sch attrs s2 o e) as [OBJ3 DIRTY3]. fold s3 in OBJ3, DIRTY3.
  destruct (kframe_del_unlink sch attrs s1 o e) as (_ & DIRTY2 & _). fold s2 in DIRTY2.
  destruct P as [D|(I & SH & SS & R)].
  { left. destruct (status_eqb (o_st ob1) SCreated); cbn [out_state].
    - destruct (o_pk ob1); rewrite ?idx_del_dirty, upd_obj_dirty, unqueue_dirty; congruence.
    - rewrite queue_dirty, upd_obj_dirty. destruct (status_eqb (o_st ob1) SModified); rewrite ?unqueue_dirty; congruence. }
  apply Pkr_of_parts; auto. intros CLEAN.
  assert (EXO : vex s1 o = true) by (unfold vex; rewrite G1; reflexivity).
  assert (EV : e = vent s1 o) by (unfold e, vent, obj_ent; rewrite G1; reflexivity).
  (* views of a state whose objects are those of s3 except that o got a deleted status *)
  assert (KILL : forall s' (g : obj -> obj),
            (forall x, o_ent (g x) = o_ent x /\ o_vals (g x) = o_vals x /\ o_sets (g x) = o_sets x /\ is_del (o_st (g x)) = true) ->
            (forall o', get_obj s' o' = if Nat.eqb o' o then option_map g (get_obj s3 o) else get_obj s3 o') ->
            Inv_sshape sch s' /\ Inv_rel sch s').
  { intros s' g HG GO.
    assert (G32 : forall o', get_obj s3 o' = get_obj s2 o') by (intros; unfold get_obj; rewrite OBJ3; reflexivity).
    assert (VW : forall o', vex s' o' = vex s2 o' /\ vent s' o' = vent s2 o' /\ vslen s' o' = vslen s2 o' /\ vlive s' o' = (if Nat.eqb o' o then false else vlive s2 o') /\
                 (forall a, vref s' o' a = vref s2 o' a) /\ (forall r, vitems s' o' r = vitems s2 o' r)).
    { intros o'. unfold vex, vent, vslen, vlive, vref, vitems, obj_ent, obj_val, coll_items. rewrite GO. destruct (Nat.eqb o' o) eqn:E.
      - apply Nat.eqb_eq in E. subst o'. rewrite G32. destruct (get_obj s2 o) as [x|]; simpl; [|repeat split; auto].
        destruct (HG x) as (A & B & C & D). rewrite A, D. unfold oval, oset. rewrite B, C. repeat split; auto.
      - rewrite G32. repeat split; auto. }
    split.
    - intros o' ob' G'. destruct (VW o') as (A & B & C & _). unfold vex, vent, vslen, obj_ent in *. rewrite G' in *.
      destruct (get_obj s2 o') as [x|] eqn:G2; try discriminate.
      pose proof (rframe_sshape sch s1 s2) as RS. rewrite C, B. 
      assert (SS2 : Inv_sshape sch s2).
      { apply (vsame1_sshape sch s1 s2); auto. apply (del_unlink_views attrs s1 o e). }
      apply (SS2 o' x G2).
    - pose proof (Inv_rel_delete s1 s' o R EXO) as IRD. cbv zeta in IRD. rewrite <- EV in IRD. apply IRD.
      intros o'. destruct (VW o') as (A & B & C & D & E & F).
      split; [exact A|]. split; [exact B|]. split; [exact D|]. split; [exact E|]. intros r y. rewrite F. tauto. }
  destruct (status_eqb (o_st ob1) SCreated); cbn [out_state] in *.
  - apply (KILL _ (fun x => ob_set_st (ob_set_pos x None) SCancelled)).
    + intros x. auto.
    + intros o'. replace (get_obj (match o_pk ob1 with Some pk => idx_del (upd_obj (unqueue_slot s3 (o_pos ob1)) o (fun x => ob_set_st (ob_set_pos x None) SCancelled)) e 0 (VInt pk) | None => upd_obj (unqueue_slot s3 (o_pos ob1)) o (fun x => ob_set_st (ob_set_pos x None) SCancelled) end) o')
        with (get_obj (upd_obj (unqueue_slot s3 (o_pos ob1)) o (fun x => ob_set_st (ob_set_pos x None) SCancelled)) o') by (destruct (o_pk ob1); reflexivity).
      rewrite get_upd_obj. rewrite (Nat.eqb_sym o' o).
      assert (UQ : forall o2, get_obj (unqueue_slot s3 (o_pos ob1)) o2 = get_obj s3 o2) by (intros; unfold unqueue_slot; destruct (o_pos ob1); reflexivity).
      rewrite !UQ. destruct (Nat.eqb o o') eqn:E; auto. apply Nat.eqb_eq in E. subst o'. reflexivity.
  - set (s4 := if status_eqb (o_st ob1) SModified then unqueue_slot s3 (o_pos ob1) else s3) in *.
    assert (O4 : forall o2, get_obj s4 o2 = get_obj s3 o2) by (intros; unfold s4, unqueue_slot; destruct (status_eqb (o_st ob1) SModified); try destruct (o_pos ob1); reflexivity).
    set (s5 := upd_obj s4 o (fun x => ob_set_st x SMarked)) in *.
    apply (KILL _ (fun x => ob_set_pos (ob_set_st x SMarked) (Some (length (s_tosave s5))))).
    + intros x. auto.
    + intros o'. unfold queue.
      change (get_obj (set_modified (set_tosave (upd_obj s5 o (fun ob0 => ob_set_pos ob0 (Some (length (s_tosave s5))))) (s_tosave s5 ++ [Some o])) true) o')
        with (get_obj (upd_obj s5 o (fun ob0 => ob_set_pos ob0 (Some (length (s_tosave s5))))) o').
      rewrite get_upd_obj. rewrite (Nat.eqb_sym o' o).
      assert (G5 : get_obj s5 o' = if Nat.eqb o o' then option_map (fun x => ob_set_st x SMarked) (get_obj s3 o') else get_obj s3 o').
      { unfold s5. rewrite get_upd_obj. rewrite O4. reflexivity. }
      rewrite G5. destruct (Nat.eqb o o') eqn:E; auto. apply Nat.eqb_eq in E. subst o'. destruct (get_obj s3 o); reflexivity.
Qed.
End RelColl.

Section RelOps.
Variable sch : schema.
Hypothesis WF : wf_schema sch = true.

Lemma Pkr_delete_obj : forall fuel s o, Pkr sch s -> Pkr sch (out_state (delete_obj fuel sch s o)).
Proof.
  induction fuel as [|f IH]; intros s o P; cbn [delete_obj]. exact P.
  destruct (get_obj s o) as [ob|] eqn:G; [|exact P].
  destruct (is_del (o_st ob)) eqn:ND. exact P.
  match goal with |- context [match ?r0 with Ok _ _ => _ | Err _ _ => _ end] => set (r := r0) end.
  assert (P0 : Pkr sch (out_state r)).
  { unfold r. apply Pkr_fold_out; auto. intros s0 a P0.
    destruct (attr_is_set sch (o_ent ob) a && Nat.ltb a (nattrs sch (o_ent ob))); [|exact P0].
    pose proof (Pkr_coll_nonzero sch WF s0 o a P0) as P1. destruct (coll_nonzero sch s0 o a) as [s1 b|s1 er]; [|exact P1].
    cbn [out_state] in P1. destruct b; [|exact P1].
    destruct (set_cascade sch (o_ent ob) a).
    - match goal with |- context [match ?r1 with Ok _ _ => _ | Err _ _ => _ end] => set (r2 := r1) end.
      assert (P2 : Pkr sch (out_state r2)). { unfold r2. destruct (coll_full s1 o a). exact P1. apply Pkr_coll_load_noflush; auto. }
      destruct r2 as [s2 u|s2 er]; [|exact P2]. cbn [out_state] in P2.
      destruct (copy_assert_fails s2 o a). exact P2.
      apply Pkr_fold_out; auto. eapply Fr_Pkr; [apply Fr_note_order|exact P2].
    - apply Pkr_coll_assign_gen; auto. }
  destruct r as [s1 u|s1 er]; [|exact P0]. cbn [out_state] in P0.
  apply Pkr_delete_tail; auto.
Qed.

Lemma Pkr_coll_assign : forall s o a items, Pkr sch s -> Pkr sch (out_state (coll_assign sch s o a items)).
Proof. intros. unfold coll_assign. apply Pkr_coll_assign_gen; auto. intros. apply Pkr_delete_obj; auto. Qed.
Lemma Pkr_coll_remove : forall s o a items, Pkr sch s -> Pkr sch (out_state (coll_remove sch s o a items)).
Proof. intros. unfold coll_remove. apply Pkr_coll_remove_gen; auto. intros. apply Pkr_delete_obj; auto. Qed.

Lemma Pkr_handle_of : forall s o, Pkr sch s -> Pkr sch (fst (handle_of s o)).
Proof. intros. unfold handle_of. destruct (index_of o (s_handles s) 0); simpl; auto. Qed.
Lemma Pkr_handles_of : forall os s, Pkr sch s -> Pkr sch (fst (handles_of s os)).
Proof.
  induction os as [|o t IH]; intros s P; simpl. exact P.
  pose proof (Pkr_handle_of s o P) as P1. destruct (handle_of s o) as [s1 h]. simpl in P1.
  specialize (IH s1 P1). destruct (handles_of s1 t). exact IH.
Qed.
Lemma Pkr_objs_res : forall s os, Pkr sch s -> Pkr sch (fst (objs_res s os)).
Proof.
  intros. unfold objs_res. pose proof (Pkr_handles_of (sort_by (obj_le s) os) s H) as P1.
  destruct (handles_of s (sort_by (obj_le s) os)). exact P1.
Qed.

Lemma Pkr_lift_unit : forall r, Pkr sch (out_state r) -> Pkr sch (fst (lift_unit r)).
Proof. intros [s u|s er] H; exact H. Qed.

(* a plain (non-key, non-reference) value *)
Lemma Fr_put_plain_val : forall s o a v, attr_uniq sch (obj_ent s o) a = false -> ref_info sch (obj_ent s o) a = None ->
  Fr sch s (upd_obj s o (fun ob => ob_put_val ob a v)).
Proof.
  intros. apply Fr_upd_obj. intros ob G. rewrite (obj_ent_get s o ob G) in *. split. apply kobj_eq_val; auto. apply robj_eq_val; auto.
Qed.

(* key_set changes a unique scalar attribute: invisible for the relationship views *)
Lemma rframe_key_set : forall s o e a nv, attr_uniq sch e a = true -> rframe sch s (key_set s o e a nv).
Proof.
  intros s o e a nv U. unfold key_set. destruct (get_obj s o) as [ob|] eqn:G; [|apply rframe_refl].
  destruct (is_del (o_st ob) || negb (Nat.eqb (o_ent ob) e)) eqn:GU. apply rframe_refl.
  apply orb_false_iff in GU. destruct GU as [_ EE]. apply negb_false_iff in EE. apply Nat.eqb_eq in EE.
  destruct (oval_eqb (oval ob a) (Some nv)). apply rframe_refl.
  eapply rframe_trans; [|apply rframe_upd_obj].
  - apply rframe_fields. destruct (oval ob a) as [ov|]; try destruct (is_vnone ov); destruct (is_vnone nv); reflexivity.
    destruct (oval ob a) as [ov|]; try destruct (is_vnone ov); destruct (is_vnone nv); reflexivity.
  - intros ob2 G2. apply robj_eq_val.
    assert (get_obj s o = Some ob2).
    { rewrite <- G2. destruct (oval ob a) as [ov|]; try destruct (is_vnone ov); destruct (is_vnone nv); reflexivity. }
    rewrite G in H. inversion H; subst ob2. rewrite EE.
    destruct (ref_info sch e a) as [p|] eqn:RI; auto. rewrite (wf_ref_not_uniq sch e a p WF RI) in U. discriminate.
Qed.

Lemma Pkr_key_set : forall s o e a nv,
  Pkr sch s -> attr_uniq sch e a = true -> key_conflict s o e a nv = false -> Pkr sch (key_set s o e a nv).
Proof.
  intros. eapply rframe_Pkr; eauto. apply rframe_key_set; auto. apply Pk_key_set; auto. apply Pkr_Pk; auto.
Qed.

Lemma Pkr_key_set_checked : forall s o e a nv, Pkr sch s -> Pkr sch (key_set_checked sch s o e a nv).
Proof.
  intros. unfold key_set_checked. destruct (negb (attr_uniq sch e a) || key_conflict s o e a nv) eqn:C.
  apply Pkr_dirty_keep. exact H. apply orb_false_iff in C. destruct C as [C1 C2]. apply negb_false_iff in C1.
  apply Pkr_key_set; auto.
Qed.

Lemma kind_plain_info : forall e a at_, get_attr sch e a = Some at_ -> is_ref_kind (a_kind at_) = false -> ref_info sch e a = None.
Proof. intros. unfold ref_info. rewrite H. destruct (a_kind at_); try reflexivity. discriminate. Qed.

Lemma Pkr_set_op : forall s h a v, Pkr sch s -> Pkr sch (fst (set_op sch s h a v)).
Proof.
  intros s h a v P. unfold set_op. destruct (hget s h) as [o|]; [|exact P].
  destruct (get_attr sch (obj_ent s o) a) as [at_|] eqn:GA; [|exact P].
  destruct (is_set_kind (a_kind at_)). exact P.
  destruct (negb (handles_ok s (arg_handles v))). exact P.
  destruct (is_del (obj_st s o)) eqn:ND. exact P.
  destruct (validate s at_ (Some v)) as [nv| |]; try exact P.
  pose proof (Fr_mark_written sch s o a ND) as F1.
  destruct (is_ref_kind (a_kind at_)) eqn:RK.
  { cbn [fst]. apply Pkr_ref_set_direct; auto. apply not_del_vex; auto. }
  destruct (negb (a_uniq at_)) eqn:NU.
  { cbn [fst]. eapply Fr_Pkr; [|exact P]. eapply Fr_trans. exact F1. apply Fr_put_plain_val.
    - rewrite (kframe_obj_ent sch s _ o (proj1 F1)). rewrite (attr_uniq_get sch _ _ _ GA). apply negb_true_iff in NU. exact NU.
    - rewrite (kframe_obj_ent sch s _ o (proj1 F1)). eapply kind_plain_info; eauto. }
  pose proof (Fr_Pkr sch _ _ F1 P) as P1.
  destruct (oval_eqb (obj_val s o a) (Some nv)). exact P1.
  destruct (key_conflict (mark_written s o a) o (obj_ent s o) a nv) eqn:KC.
  { cbn [fst]. eapply Pkr_fields; [reflexivity|reflexivity|reflexivity|exact P]. }
  cbn [fst]. apply Pkr_key_set; auto. rewrite (attr_uniq_get sch _ _ _ GA). apply negb_false_iff in NU. exact NU.
Qed.
End RelOps.

Section RelOps2.
Variable sch : schema.
Hypothesis WF : wf_schema sch = true.

Lemma attr_is_ref_info : forall e a, attr_is_ref sch e a = false -> ref_info sch e a = None.
Proof. intros. unfold attr_is_ref, ref_info in *. destruct (get_attr sch e a) as [at_|]; auto. destruct (a_kind at_); auto. discriminate. Qed.

Lemma setmany_apply_okr : forall s o e p,
  Pkr sch s -> is_del (obj_st s o) = false -> obj_ent s o = e ->
  Pkr sch (setmany_apply sch o e s p) /\ is_del (obj_st (setmany_apply sch o e s p) o) = false /\ obj_ent (setmany_apply sch o e s p) o = e.
Proof.
  intros s o e p P ND EE. destruct (setmany_apply_ok sch WF s o e p (Pkr_Pk sch s P) ND EE) as (_ & B & C). split; [|auto].
  unfold setmany_apply. destruct (attr_uniq sch e (fst p)) eqn:U.
  - apply Pkr_key_set_checked; auto.
  - destruct (attr_is_ref sch e (fst p)) eqn:AR.
    + apply Pkr_ref_set_direct; auto. apply not_del_vex; auto.
    + eapply Fr_Pkr; [|exact P]. apply Fr_put_plain_val. rewrite EE; exact U. rewrite EE. apply attr_is_ref_info; auto.
Qed.

Lemma Pkr_setmany_op : forall s h kw, Pkr sch s -> Pkr sch (fst (setmany_op sch s h kw)).
Proof.
  intros s h kw P. unfold setmany_op. destruct (hget s h) as [o|]; [|exact P].
  set (e := obj_ent s o).
  destruct (existsb _ kw). exact P. destruct (negb (kw_handles_ok s kw)). exact P.
  destruct (is_del (obj_st s o)). exact P.
  destruct (validate_kw sch s e kw) as [cs| |]; try exact P.
  set (avs := flat_map (fun p => match snd p with CVal v => [(fst p, v)] | CSet _ => [] end) cs).
  set (cavs := flat_map (fun p => match snd p with CSet l => [(fst p, l)] | CVal _ => [] end) cs).
  match goal with |- context [match ?r0 with Ok _ _ => _ | Err _ _ => _ end] => set (r := r0) end.
  assert (P0 : Pkr sch (out_state r)).
  { unfold r. destruct avs. exact P. match goal with |- context [if ?c then _ else _] => destruct c end. apply Pkr_load_obj_noflush; auto. exact P. }
  destruct r as [s1 u|s1 er]; [|exact P0]. cbn [out_state] in P0.
  destruct (is_del (obj_st s1 o) || negb (Nat.eqb (obj_ent s1 o) e)) eqn:CHK. cbn [fst]. apply Pkr_dirty. discriminate.
  apply orb_false_iff in CHK. destruct CHK as [ND1 EE1]. apply negb_false_iff in EE1. apply Nat.eqb_eq in EE1.
  set (s2 := fold_left (fun acc p => mark_written acc o (fst p)) avs s1).
  assert (F2 : Fr sch s1 s2).
  { unfold s2. clear -ND1. revert s1 ND1. induction avs as [|p t IH]; intros s1 ND1; simpl. apply Fr_refl.
    pose proof (Fr_mark_written sch s1 o (fst p) ND1) as F. eapply Fr_trans. exact F. apply IH.
    rewrite (kframe_is_del sch s1 _ o (proj1 F)). exact ND1. }
  pose proof (Fr_Pkr sch _ _ F2 P0) as P2.
  assert (ND2 : is_del (obj_st s2 o) = false) by (rewrite (kframe_is_del sch s1 s2 o (proj1 F2)); exact ND1).
  assert (EE2 : obj_ent s2 o = e) by (rewrite (kframe_obj_ent sch s1 s2 o (proj1 F2)); exact EE1).
  set (avs' := filter (fun p => negb (oval_eqb (obj_val s2 o (fst p)) (Some (snd p)))) avs).
  match goal with |- context [setmany_scan o e s2 false ?k] => destruct (setmany_scan o e s2 false k) as [[sio ch] cf] end.
  match goal with |- context [if ?c then (mark_declined s, RDecline) else _] => destruct c end. exact P.
  destruct cf. { destruct entity_set_registers_undo; cbn [fst]. exact P0. destruct ch. apply Pkr_dirty. discriminate. exact P2. }
  assert (P3 : Pkr sch (fold_left (setmany_apply sch o e) avs' s2)).
  { generalize avs'. intro l. generalize P2 ND2 EE2. generalize s2. clear -WF.
    induction l as [|p t IH]; intros s0 Q2 D2 E2; simpl. exact Q2.
    destruct (setmany_apply_okr s0 o e p Q2 D2 E2) as (A & B & C). apply IH; auto. }
  pose proof (Pkr_fold_out sch _ (fun acc p => coll_assign sch acc o (fst p) (snd p)) cavs _ (fun s0 x P0 => Pkr_coll_assign sch WF s0 o (fst x) (snd x) P0) P3) as P4.
  destruct (fold_out (fun acc p => coll_assign sch acc o (fst p) (snd p)) (fold_left (setmany_apply sch o e) avs' s2) cavs) as [s4 u4|s4 er].
  - exact P4.
  - cbn [fst]. apply Pkr_dirty. discriminate.
Qed.

(* creation *)
Lemma Pkr_new_rel_step : forall o e acc p,
  Pkr sch acc -> is_del (obj_st acc o) = false ->
  (forall items, snd p = CSet items -> any_del acc items = false) -> Pkr sch (new_rel_step sch o e acc p).
Proof.
  intros o e acc p P NDO AL. unfold new_rel_step. destruct (snd p) as [v|items] eqn:SP.
  - destruct v; try exact P. apply Pkr_ref_set_direct; auto. apply not_del_vex; auto.
  - destruct items as [|i0 it0]. exact P. set (items := i0 :: it0) in *.
    destruct (set_info sch e (fst p)) as [[t r_]|]; [|exact P].
    set (acc1 := fold_left (fun ac i => item_link sch ac o (fst p) r_ i) items (note_order acc items)).
    assert (P1 : Pkr sch acc1).
    { unfold acc1. apply Pkr_fold_items.
      - intros. apply Pkr_item_link; auto.
      - intros. apply kframe_item_link; auto.
      - eapply Fr_Pkr; [apply Fr_note_order|exact P].
      - rewrite (any_del_kframe sch acc (note_order acc items) items (kframe_note_order sch oid acc items)). apply AL. reflexivity. }
    destruct (negb (Nat.eqb (s_dirty acc1) O) || seteq_nat (sd_items (get_sd acc1 o (fst p))) items) eqn:CND.
    + apply orb_true_iff in CND. destruct CND as [DZ|SEQ].
      { left. rewrite dirty_final_sd. apply negb_true_iff in DZ. apply Nat.eqb_neq in DZ. exact DZ. }
      eapply Pkr_fields; [reflexivity|reflexivity|reflexivity|]. eapply Fr_Pkr; [|exact P1]. eapply Fr_trans; [|apply Fr_modcoll_add].
      apply Fr_put_sd_members. intros y. cbn [sd_items]. rewrite seteq_nat_spec in SEQ. symmetry. apply SEQ.
    + left. cbn [s_dirty set_modified]. unfold modcoll_add. destruct (existsb _ _); cbn [s_dirty set_modcoll]; unfold put_sd; rewrite upd_obj_dirty; unfold mark_dirty; cbn [s_dirty]; destruct (s_dirty acc1); discriminate.
Qed.

Lemma Pkr_new_rel_fold : forall o e ics acc, Pkr sch acc -> is_del (obj_st acc o) = false ->
  (forall p items, In p ics -> snd p = CSet items -> any_del acc items = false) ->
  Pkr sch (fold_left (new_rel_step sch o e) ics acc).
Proof.
  intros o e ics. induction ics as [|p t IH]; intros acc P NDO AL; simpl. exact P.
  assert (F : kframe_d sch acc (new_rel_step sch o e acc p)).
  { apply kframe_d_new_rel_step; auto. intros items H. apply (AL p items); auto. left. reflexivity. }
  apply IH.
  - apply Pkr_new_rel_step; auto. intros items H. apply (AL p items); auto. left. reflexivity.
  - rewrite (kframe_d_is_del sch acc _ o F). exact NDO.
  - intros q items I H. rewrite (any_del_kframe_d sch acc _ items F). apply (AL q items); auto. right. exact I.
Qed.
End RelOps2.

Section RelOps3.
Variable sch : schema.
Hypothesis WF : wf_schema sch = true.

Lemma oref_new_obj_record : forall e pk cs n a, oref (new_obj_record true e pk cs n) a = None.
Proof.
  intros. unfold oref, oval, new_obj_record. cbn [o_vals].
  destruct (nth_error (map (fun p => if Nat.ltb (fst p) n then cval_init true (snd p) else None) (combine (seq 0 (length cs)) cs)) a) as [x|] eqn:N.
  - rewrite (nth_error_nth _ _ None N). apply nth_error_In in N. apply in_map_iff in N. destruct N as (p & E & _). subst x.
    destruct (Nat.ltb (fst p) n); auto. destruct (snd p) as [v|l]; simpl; auto. destruct v; reflexivity.
  - rewrite nth_overflow. reflexivity. apply nth_error_None. exact N.
Qed.

Lemma oitems_new_obj_record : forall e pk cs n r, oitems (new_obj_record true e pk cs n) r = [].
Proof.
  intros. unfold oitems, oset, new_obj_record. cbn [o_sets].
  match goal with |- context [nth r ?l None] => destruct (nth_error l r) as [x|] eqn:N end.
  - rewrite (nth_error_nth _ _ None N). apply nth_error_In in N. apply in_map_iff in N. destruct N as (p & E & _). subst x.
    destruct (snd p); auto. destruct (Nat.leb (fst p) n); reflexivity.
  - rewrite nth_overflow. reflexivity. apply nth_error_None. exact N.
Qed.

Lemma Pkr_new_op : forall s e pk kw, Pkr sch s -> Pkr sch (fst (new_op sch s e pk kw)).
Proof.
  intros s e pk kw P. unfold new_op. destruct (nth_error sch e) as [en|] eqn:EN; [|exact P].
  destruct (negb (kw_handles_ok s kw)). exact P.
  destruct (existsb _ kw). exact P.
  destruct (negb (e_auto en) && match pk with None => true | Some _ => false end). exact P.
  destruct (validate_all s (e_attrs en) 0 kw) as [cs| |] eqn:VA; try exact P.
  set (n := length cs). set (ob0 := new_obj_record true e pk cs n).
  destruct (key_conflicts sch s e ob0 (seq 0 n)) eqn:KC. exact P.
  destruct (match pk with Some z => match idx_get s e 0 (VInt z) with Some _ => true | None => false end | None => false end) eqn:PC. exact P.
  destruct (first_bad_set s cs 0) as [j|] eqn:FB.
  { unfold push_obj. cbn [fst]. apply Pkr_dirty. discriminate. }
  unfold push_obj.
  destruct (Pk_new_registered sch s e en pk kw cs EN VA KC PC (Pkr_Pk sch s P)) as (PK3 & D3 & G3). unfold new_registered in PK3, D3, G3. fold n ob0 in PK3, D3, G3.
  set (o := length (s_objs s)) in *. set (s1 := set_objs s (s_objs s ++ [ob0])) in *.
  set (s2 := match pk with Some z => idx_put s1 e 0 (VInt z) o | None => s1 end) in *.
  set (s3 := put_keys sch s2 o e (seq 0 n)) in *.
  destruct (new_obj_record_props true e pk cs n) as (OE & OP & OS & OL). fold ob0 in OE, OP, OS, OL.
  assert (P3 : Pkr sch s3).
  { destruct P as [D|(I & SH & SS & R)]. left; congruence.
    apply Pkr_of_parts; auto. intros _.
    assert (O3 : s_objs s3 = s_objs (fst (push_obj s ob0))).
    { destruct (put_keys_objs sch (seq 0 n) s2 o e) as [A _]. fold s3 in A. rewrite A. unfold s2. destruct pk; reflexivity. }
    assert (RF : rframe sch (fst (push_obj s ob0)) s3) by (apply rframe_fields; auto).
    split.
    - eapply rframe_sshape; eauto. apply sshape_push; auto. unfold ob0, new_obj_record. cbn [o_sets o_ent].
      rewrite map_length, combine_length, seq_length. unfold n. rewrite Nat.min_id.
      rewrite (validate_all_length s _ _ _ _ VA). symmetry. unfold nattrs. rewrite EN. reflexivity.
    - eapply rframe_Inv; eauto. apply Inv_rel_push; auto. intros. apply oref_new_obj_record. intros. apply oitems_new_obj_record. }
  match goal with |- context [fold_left ?f (combine (seq 0 n) cs) s3] => change f with (new_rel_step sch o e) end.
  set (s4 := fold_left (new_rel_step sch o e) (combine (seq 0 n) cs) s3).
  assert (P4 : Pkr sch s4).
  2:{ pose proof (Pkr_handle_of sch (queue s4 o) o (Fr_Pkr sch _ _ (Fr_queue sch s4 o) P4)) as P5.
      destruct (handle_of (queue s4 o) o). exact P5. }
  apply Pkr_new_rel_fold; auto.
  { unfold obj_st. rewrite G3, Nat.eqb_refl. rewrite OS. reflexivity. }
  intros p items I SP. pose proof (In_combine_snd _ _ _ _ p I) as IC. rewrite SP in IC.
  pose proof (first_bad_set_none s cs 0 FB items IC) as AD.
  unfold any_del. rewrite <- AD. unfold any_del. apply existsb_ext_eq_in. intros i Hi.
  pose proof (any_del_false_lt s items i AD Hi) as L.
  unfold obj_st. rewrite G3. assert (Nat.eqb i o = false) by (apply Nat.eqb_neq; unfold o; lia). rewrite H. reflexivity.
Qed.

Lemma Pkr_delete_op : forall s h, Pkr sch s -> Pkr sch (fst (delete_op sch s h)).
Proof.
  intros s h P. unfold delete_op. destruct (hget s h) as [o|]; [|exact P].
  assert (H : Pkr sch (out_state (delete_obj (del_fuel sch s) sch s o))) by (apply Pkr_delete_obj; auto). destruct (delete_obj (del_fuel sch s) sch s o) as [s1 u|s1 er]; cbn [fst].
  exact H. apply Pkr_dirty. discriminate.
Qed.

Lemma Pkr_coll_op : forall s k h a hs, Pkr sch s -> Pkr sch (fst (coll_op sch s k h a hs)).
Proof.
  intros s k h a hs P. unfold coll_op. destruct (hget s h) as [o|]; [|exact P].
  destruct (get_attr sch (obj_ent s o) a) as [at_|]; [|exact P].
  destruct (a_kind at_); try exact P.
  destruct (negb (handles_ok s hs)). exact P. destruct (is_del (obj_st s o)). exact P.
  destruct (validate_set s tgt (Some (AObjs hs))) as [items| |]; try exact P.
  apply Pkr_lift_unit. destruct k. apply Pkr_coll_add; auto. apply Pkr_coll_remove; auto. apply Pkr_coll_assign; auto.
Qed.

Lemma Pkr_read_op : forall s h a, Pkr sch s -> Pkr sch (fst (read_op sch s h a)).
Proof.
  intros s h a P. unfold read_op. destruct (hget s h) as [o|]; [|exact P].
  destruct (get_attr sch (obj_ent s o) a) as [at_|]; [|exact P].
  destruct (a_kind at_) eqn:K.
  1,2,3: (destruct (is_gone (obj_st s o)); [exact P|];
    assert (FIN : forall s1, Pkr sch s1 -> Pkr sch (fst (match obj_val s1 o a with
            | Some (VRef x) => let '(s2, hx) := handle_of s1 x in (s2, RObj hx)
            | Some VNone => if is_ref_kind (a_kind at_) then (s1, RNoneObj) else (s1, RVal VNone)
            | Some v => (s1, RVal v)
            | None => (s1, RErr EKeyError) end)));
    [ intros s1 P1; destruct (obj_val s1 o a) as [[| | |x]|]; try exact P1;
      try (destruct (is_ref_kind (a_kind at_)); exact P1);
      try (pose proof (Pkr_handle_of sch s1 x P1) as Q; destruct (handle_of s1 x); exact Q) |];
    rewrite K in FIN;
    destruct (obj_val s o a) as [v0|] eqn:OV;
    [ destruct v0 as [| | |x]; try exact P;
      try (match goal with |- context [if ?c then _ else _] => destruct c end; exact P);
      try (pose proof (Pkr_handle_of sch s x P) as Q; destruct (handle_of s x); exact Q) |];
    pose proof (Pkr_auto_flush sch s P) as P1; destruct (auto_flush sch s) as [s1 u|s1 er]; [|exact P1];
    pose proof (Pkr_load_obj_noflush sch WF s1 o P1) as P2; destruct (load_obj_noflush sch s1 o) as [s2 u2|s2 er]; [|exact P2];
    apply FIN; exact P2).
  destruct (is_del (obj_st s o)). exact P.
  destruct (has_sd s o a && coll_full s o a).
  { destruct (copy_assert_fails s o a). exact P. apply Pkr_objs_res; auto. }
  pose proof (Pkr_auto_flush sch s P) as P1. destruct (auto_flush sch s) as [s1 u|s1 er]; [|exact P1].
  pose proof (Pkr_coll_load_noflush sch WF s1 o a P1) as P2. destruct (coll_load_noflush sch s1 o a) as [s2 u2|s2 er]; [|exact P2].
  destruct (copy_assert_fails s2 o a). exact P2. apply Pkr_objs_res; auto.
Qed.

Lemma Pkr_with_set_attr : forall s h a k,
  (forall o tg r, Pkr sch (fst (k o tg r))) -> Pkr sch s -> Pkr sch (fst (with_set_attr sch s h a k)).
Proof.
  intros s h a k K P. unfold with_set_attr. destruct (hget s h) as [o|]; [|exact P].
  destruct (get_attr sch (obj_ent s o) a) as [at_|]; [|exact P]. destruct (a_kind at_); try exact P. apply K.
Qed.

Lemma Pkr_count_op : forall s h a, Pkr sch s -> Pkr sch (fst (count_op sch s h a)).
Proof.
  intros s h a P. unfold count_op. apply Pkr_with_set_attr; auto. intros o tg r.
  destruct (is_del (obj_st s o)). exact P.
  assert (P0 : Pkr sch (coll_ensure s o a)) by (eapply Fr_Pkr; [apply Fr_coll_ensure|exact P]).
  destruct (sd_count (get_sd (coll_ensure s o a) o a)).
  - destruct (has_sd s o a); assumption.
  - cbn [fst]. eapply Fr_Pkr; [|exact P0]. apply Fr_put_sd_members. intros y. cbn [sd_items]. tauto.
Qed.

Lemma Pkr_isempty_op : forall s h a, Pkr sch s -> Pkr sch (fst (isempty_op sch s h a)).
Proof.
  intros s h a P. unfold isempty_op. apply Pkr_with_set_attr; auto. intros o tg r.
  destruct (is_del (obj_st s o)). exact P.
  assert (P0 : Pkr sch (coll_ensure s o a)) by (eapply Fr_Pkr; [apply Fr_coll_ensure|exact P]).
  repeat (match goal with |- context [if ?c then _ else _] => destruct c end; try exact P0).
  pose proof (Pkr_auto_flush sch _ P0) as P1. destruct (auto_flush sch (coll_ensure s o a)) as [s1 u|s1 er]; [|exact P1].
  match goal with |- context [load_rows sch s1 tg ?rows] => pose proof (Pkr_load_rows sch WF rows s1 tg P1) as P2; destruct (load_rows sch s1 tg rows) as [s2 os|s2 er] end; [|exact P2].
  destruct (sd_items (get_sd s2 o a)) eqn:IT. 2: exact P2.
  cbn [fst]. eapply Fr_Pkr; [|exact P2]. apply Fr_put_sd_members. intros y. cbn [sd_items]. rewrite IT. tauto.
Qed.

Lemma Pkr_contains_op : forall s h a h2, Pkr sch s -> Pkr sch (fst (contains_op sch s h a h2)).
Proof.
  intros s h a h2 P. unfold contains_op. apply Pkr_with_set_attr; auto. intros o tg r.
  destruct (hget s h2) as [item|]; [|exact P]. destruct (is_del (obj_st s o)). exact P.
  destruct (negb (Nat.eqb (obj_ent s item) tg)). exact P.
  destruct (obj_val s item r) eqn:OV. exact P.
  pose proof (Pkr_auto_flush sch s P) as P1. destruct (auto_flush sch s) as [s1 u|s1 er]; [|exact P1].
  pose proof (Pkr_load_obj_noflush sch WF s1 item P1) as P2. destruct (load_obj_noflush sch s1 item) as [s2 u2|s2 er]; [|exact P2].
  destruct (obj_val s2 item r); exact P2.
Qed.

Lemma Pkr_getpk_op : forall s e v, Pkr sch s -> Pkr sch (fst (getpk_op sch s e v)).
Proof.
  intros s e v P. unfold getpk_op. destruct (nth_error sch e) as [en|]; [|exact P].
  destruct v; try exact P.
  - destruct (e_auto en); [|exact P]. pose proof (Pkr_auto_flush sch s P) as P1. destruct (auto_flush sch s); exact P1.
  - destruct (idx_get s e 0 (VInt z)) as [o|].
    + destruct (status_eqb (obj_st s o) SMarked). exact P. pose proof (Pkr_handle_of sch s o P) as Q. destruct (handle_of s o). exact Q.
    + pose proof (Pkr_auto_flush sch s P) as P1. destruct (auto_flush sch s) as [s1 u|s1 er]; [|exact P1].
      destruct (find_row (tab (s_db s1) e) z) as [r|]; [|exact P1].
      pose proof (Pkr_load_row sch WF s1 e r P1) as P2. destruct (load_row sch s1 e r) as [s2 [o|]|s2 er]; try exact P2.
      pose proof (Pkr_handle_of sch s2 o P2) as Q. destruct (handle_of s2 o). exact Q.
Qed.

Lemma Pkr_getby_op : forall s e a v, Pkr sch s -> Pkr sch (fst (getby_op sch s e a v)).
Proof.
  intros s e a v P. unfold getby_op. destruct (get_attr sch e a) as [at_|]; [|exact P].
  destruct (negb (handles_ok s (arg_handles v))). exact P.
  destruct (a_kind at_) eqn:K.
  4:{ destruct (validate_set s tgt (Some v)); exact P. }
  all: destruct (validate s at_ (Some v)) as [cv| |]; try exact P;
    (match goal with |- context [match ?c with Some _ => _ | None => _ end] => destruct c as [o|] end;
     [ repeat (match goal with |- context [if ?c then _ else _] => destruct c end; try exact P);
       pose proof (Pkr_handle_of sch s o P) as Q; destruct (handle_of s o); exact Q |]);
    pose proof (Pkr_auto_flush sch s P) as P1; destruct (auto_flush sch s) as [s1 u|s1 er]; [|exact P1];
    match goal with |- context [if ?c then _ else _] => destruct c end; [exact P1|];
    match goal with |- context [load_rows sch s1 ?ee ?rows] => pose proof (Pkr_load_rows sch WF rows s1 ee P1) as P2; destruct (load_rows sch s1 ee rows) as [s2 [|o os]|s2 er] end; try exact P2;
    pose proof (Pkr_handle_of sch s2 o P2) as Q; destruct (handle_of s2 o); exact Q.
Qed.

Lemma Pkr_select_op : forall s e a v, Pkr sch s -> Pkr sch (fst (select_op sch s e a v)).
Proof.
  intros s e a v P. unfold select_op. destruct (get_attr sch e a) as [at_|]; [|exact P].
  destruct (negb (handles_ok s (arg_handles v))). exact P.
  destruct (a_kind at_); try exact P;
    (destruct (validate s at_ (Some v)) as [cv| |]; try exact P;
     pose proof (Pkr_auto_flush sch s P) as P1; destruct (auto_flush sch s) as [s1 u|s1 er]; [|exact P1];
     match goal with |- context [load_rows sch s1 ?ee ?rows] => pose proof (Pkr_load_rows sch WF rows s1 ee P1) as P2; destruct (load_rows sch s1 ee rows) as [s2 os|s2 er] end; [|exact P2];
     apply Pkr_objs_res; auto).
Qed.

Lemma Pkr_selectall_op : forall s e, Pkr sch s -> Pkr sch (fst (selectall_op sch s e)).
Proof.
  intros s e P. unfold selectall_op. destruct (nth_error sch e); [|exact P].
  pose proof (Pkr_auto_flush sch s P) as P1. destruct (auto_flush sch s) as [s1 u|s1 er]; [|exact P1].
  pose proof (Pkr_load_rows sch WF (tab (s_db s1) e) s1 e P1) as P2. destruct (load_rows sch s1 e (tab (s_db s1) e)) as [s2 os|s2 er]; [|exact P2].
  apply Pkr_objs_res; auto.
Qed.

Lemma Inv_rel_empty : forall s, s_objs s = [] -> Inv_rel sch s /\ Inv_sshape sch s.
Proof.
  intros s E. assert (G : forall o, get_obj s o = None) by (intros; unfold get_obj; rewrite E; destruct o; reflexivity).
  split; [split; [|split]|].
  - intros b a t r x EX. unfold vex in EX. rewrite G in EX. discriminate.
  - intros b a t r x LV. unfold vlive in LV. rewrite G in LV. discriminate.
  - intros x r b M. unfold vitems, coll_items in M. rewrite G in M. destruct M.
  - intros o ob H. rewrite G in H. discriminate.
Qed.

Lemma Pkr_reset : forall d, Pkr sch (reset_sess d).
Proof.
  intros. destruct (Pk_reset sch d) as [D|[I SH]]. left; exact D. right. destruct (Inv_rel_empty (reset_sess d) eq_refl). auto.
Qed.

Lemma Pkr_keep_declined : forall s0 s1, Pkr sch s1 -> Pkr sch (keep_declined s0 s1).
Proof. intros. unfold keep_declined. destruct (s_declined s0); exact H. Qed.

Lemma Pkr_flushobj_op : forall s h, Pkr sch s -> Pkr sch (fst (flushobj_op sch s h)).
Proof.
  intros s h P. unfold flushobj_op. destruct (hget s h) as [o|]; [|exact P]. destruct (get_obj s o) as [ob|]; [|exact P].
  assert (X : Pkr sch (fst (flushobj_go sch s o ob))).
  { unfold flushobj_go. destruct (o_pos ob); [|exact P]. destruct (s_savedpend s). exact P.
    assert (Q : Pkr sch (out_state (save_obj (S (length (s_objs s))) sch s o []))) by (apply Pkr_save_obj; auto).
    destruct (save_obj (S (length (s_objs s))) sch s o []) as [s1 u|s1 er]; exact Q. }
  destruct (o_st ob); try exact P; try exact X.
  match goal with |- context [if ?c then _ else _] => destruct c end. exact P. exact X.
Qed.

Lemma Pkr_step : forall s op, Pkr sch s -> Pkr sch (fst (step sch s op)).
Proof.
  intros s op P. unfold step. destruct (s_declined s). exact P.
  destruct op.
  - apply Pkr_new_op; auto.
  - apply Pkr_set_op; auto.
  - apply Pkr_setmany_op; auto.
  - apply Pkr_delete_op; auto.
  - apply Pkr_coll_op; auto.
  - apply Pkr_coll_op; auto.
  - apply Pkr_coll_op; auto.
  - apply Pkr_read_op; auto.
  - unfold pk_op. destruct (hget s h); exact P.
  - apply Pkr_count_op; auto.
  - apply Pkr_isempty_op; auto.
  - apply Pkr_contains_op; auto.
  - apply Pkr_getpk_op; auto.
  - apply Pkr_getby_op; auto.
  - apply Pkr_select_op; auto.
  - apply Pkr_selectall_op; auto.
  - unfold flush_op. apply Pkr_lift_unit. apply Pkr_flush; auto.
  - unfold commit_op. pose proof (Pkr_flush sch s P) as P1. destruct (flush sch s) as [s1 u|s1 er]; cbn [fst].
    exact P1. apply Pkr_keep_declined. apply Pkr_reset.
  - unfold rollback_op. cbn [fst]. apply Pkr_keep_declined. apply Pkr_reset.
  - unfold newsession_op. destruct (flush sch s) as [s1 u|s1 er]; cbn [fst]; apply Pkr_keep_declined; apply Pkr_reset.
  - apply Pkr_flushobj_op; auto.
Qed.

Lemma Pkr_init : Pkr sch (init_sess sch).
Proof.
  destruct (Pk_init sch) as [D|[I SH]]. left; exact D. right. destruct (Inv_rel_empty (init_sess sch) eq_refl). auto.
Qed.

Lemma Pkr_run : forall ops, Pkr sch (run sch ops).
Proof.
  intros ops. unfold run. generalize (init_sess sch) Pkr_init. induction ops as [|op t IH]; intros s P; simpl. exact P.
  apply IH. apply Pkr_step. exact P.
Qed.

(* C12 *)
Theorem rel_invariant_all_histories : forall ops, s_dirty (run sch ops) = O -> Inv_rel sch (run sch ops).
Proof. intros ops D. destruct (Pkr_run ops) as [H|(_ & _ & _ & H)]. contradiction. exact H. Qed.
End RelOps3.
