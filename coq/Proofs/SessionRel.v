(* C12: both ends of every relationship agree, for every history.  Views of the state, the invariant Inv_rel, its frame. *)
Require Import PonyV.Model.SessionBase PonyV.Model.SessionDb PonyV.Model.Session.
Require Import PonyV.Proofs.SessionLemmas PonyV.Proofs.SessionState PonyV.Proofs.SessionIdx.
From Coq Require Import Arith.

(* ---------------------------------------------------------------- views *)

Definition vex (s : sess) (o : oid) : bool := match get_obj s o with Some _ => true | None => false end.
Definition vlive (s : sess) (o : oid) : bool := match get_obj s o with Some ob => negb (is_del (o_st ob)) | None => false end.
Definition vent (s : sess) (o : oid) : nat := obj_ent s o.
(* the object a reference attribute points to (None: not loaded, or None) *)
Definition vref (s : sess) (o : oid) (a : nat) : option oid :=
  match obj_val s o a with Some (VRef x) => Some x | _ => None end.
Definition vitems (s : sess) (o : oid) (r : nat) : list oid := coll_items s o r.
Definition vslen (s : sess) (o : oid) : nat := match get_obj s o with Some ob => length (o_sets ob) | None => O end.

(* every object has one SetData slot per attribute of its entity *)
Definition Inv_sshape (sch : schema) (s : sess) : Prop :=
  forall o ob, get_obj s o = Some ob -> length (o_sets ob) = nattrs sch (o_ent ob).

(* b.a is a reference attribute whose reverse is attribute r of entity t *)
Definition is_ref_of (sch : schema) (s : sess) (b : oid) (a t r : nat) : Prop := ref_info sch (vent s b) a = Some (t, r).

Definition Inv_rel (sch : schema) (s : sess) : Prop :=
  (* typing: a loaded reference points to an existing object of the target entity *)
  (forall b a t r x, vex s b = true -> is_ref_of sch s b a t r -> vref s b a = Some x -> vex s x = true /\ vent s x = t) /\
  (* a live object is a member of the collection of the object it refers to *)
  (forall b a t r x, vlive s b = true -> is_ref_of sch s b a t r -> vref s b a = Some x -> In b (vitems s x r)) /\
  (* every member of a collection is live and refers back *)
  (forall x r b, In b (vitems s x r) -> vlive s b = true /\ exists a t, is_ref_of sch s b a t r /\ vref s b a = Some x).

Definition Pkr (sch : schema) (s : sess) : Prop :=
  s_dirty s <> O \/ (Inv_idx sch s /\ Inv_shape sch s /\ Inv_sshape sch s /\ Inv_rel sch s).

Lemma Pkr_Pk : forall sch s, Pkr sch s -> Pk sch s.
Proof. intros sch s [D|(I & SH & _)]. left; auto. right; auto. Qed.

Lemma sshape_vslen : forall sch s o, Inv_sshape sch s -> vex s o = true -> vslen s o = nattrs sch (vent s o).
Proof. intros sch s o SS E. unfold vex, vslen, vent, obj_ent in *. destruct (get_obj s o) as [ob|] eqn:G; try discriminate. apply (SS o ob G). Qed.

(* ---------------------------------------------------------------- frame: the relationship views are unchanged *)

Definition rframe (sch : schema) (s s' : sess) : Prop :=
  s_dirty s' = s_dirty s /\
  forall o, vex s' o = vex s o /\ vlive s' o = vlive s o /\ vent s' o = vent s o /\ vslen s' o = vslen s o /\
            (forall a t r, ref_info sch (vent s o) a = Some (t, r) -> vref s' o a = vref s o a) /\
            (forall r y, In y (vitems s' o r) <-> In y (vitems s o r)).

Lemma rframe_refl : forall sch s, rframe sch s s.
Proof. intros sch s. split; auto. intros o. split; [|split; [|split; [|split; [|split]]]]; auto. intros; tauto. Qed.

Lemma rframe_trans : forall sch s1 s2 s3, rframe sch s1 s2 -> rframe sch s2 s3 -> rframe sch s1 s3.
Proof.
  intros sch s1 s2 s3 [D1 F1] [D2 F2]. split. congruence. intros o.
  destruct (F1 o) as (A1 & A2 & A3 & A6 & A4 & A5). destruct (F2 o) as (B1 & B2 & B3 & B6 & B4 & B5).
  split. congruence. split. congruence. split. congruence. split. congruence. split.
  - intros a t r H. rewrite (B4 a t r) by (rewrite A3; exact H). apply (A4 a t r H).
  - intros r y. split; intro H. apply A5. apply B5. exact H. apply B5. apply A5. exact H.
Qed.

Lemma rframe_Inv : forall sch s s', rframe sch s s' -> Inv_rel sch s -> Inv_rel sch s'.
Proof.
  intros sch s s' [_ F] (R0 & R1 & R2). unfold Inv_rel, is_ref_of in *. split; [|split].
  - intros b a t r x H H0 H1. destruct (F b) as (A1 & A2 & A3 & _ & A4 & A5). rewrite A1 in H. rewrite A3 in H0. rewrite (A4 a t r H0) in H1.
    destruct (R0 b a t r x H H0 H1) as [E1 E2]. destruct (F x) as (X1 & _ & X3 & _). rewrite X1, X3. auto.
  - intros b a t r x H H0 H1. destruct (F b) as (A1 & A2 & A3 & _ & A4 & A5). rewrite A2 in H. rewrite A3 in H0. rewrite (A4 a t r H0) in H1.
    destruct (F x) as (_ & _ & _ & _ & _ & X5). apply X5. eapply R1; eauto.
  - intros x r b H. destruct (F x) as (_ & _ & _ & _ & _ & X5). apply X5 in H. destruct (R2 x r b H) as [L (a & t & H1 & H2)].
    destruct (F b) as (_ & A2 & A3 & _ & A4 & _). split. rewrite A2. exact L. exists a, t. rewrite A3. split. exact H1. rewrite (A4 a t r H1). exact H2.
Qed.

Lemma rframe_sshape : forall sch s s', rframe sch s s' -> Inv_sshape sch s -> Inv_sshape sch s'.
Proof.
  intros sch s s' [_ F] SS o ob' G'. destruct (F o) as (A1 & _ & A3 & A6 & _).
  unfold vex, vent, vslen, obj_ent in *. rewrite G' in *. destruct (get_obj s o) as [ob|] eqn:G; try discriminate.
  rewrite A6, A3. apply (SS o ob G).
Qed.

(* a state function that is a frame for both invariants *)
Definition Fr (sch : schema) (s s' : sess) : Prop := kframe sch s s' /\ rframe sch s s'.

Lemma Fr_refl : forall sch s, Fr sch s s. Proof. intros. split. apply kframe_refl. apply rframe_refl. Qed.
Lemma Fr_trans : forall sch s1 s2 s3, Fr sch s1 s2 -> Fr sch s2 s3 -> Fr sch s1 s3.
Proof. intros sch s1 s2 s3 [A B] [C D]. split. eapply kframe_trans; eauto. eapply rframe_trans; eauto. Qed.

Lemma Fr_Pkr : forall sch s s', Fr sch s s' -> Pkr sch s -> Pkr sch s'.
Proof.
  intros sch s s' [K R] [D|(I & SH & SS & RL)].
  - left. destruct R as [R _]. congruence.
  - right. split; [|split; [|split]]. eapply kframe_Inv; eauto. eapply kframe_shape; eauto. eapply rframe_sshape; eauto. eapply rframe_Inv; eauto.
Qed.

Lemma rframe_Pkr : forall sch s s', rframe sch s s' -> Pk sch s' -> Pkr sch s -> Pkr sch s'.
Proof.
  intros sch s s' R P [D|(I & SH & SS & RL)].
  - left. destruct R as [R _]. congruence.
  - destruct P as [D'|[I' SH']]. left; auto. right. split; [|split; [|split]]; auto. eapply rframe_sshape; eauto. eapply rframe_Inv; eauto.
Qed.

(* object-wise criterion *)
Definition oref (ob : obj) (a : nat) : option oid := match oval ob a with Some (VRef y) => Some y | _ => None end.
Definition oitems (ob : obj) (r : nat) : list oid := match oset ob r with Some sd => sd_items sd | None => [] end.

Definition robj_eq (sch : schema) (a b : obj) : Prop :=
  o_ent a = o_ent b /\ is_del (o_st a) = is_del (o_st b) /\ length (o_sets a) = length (o_sets b) /\
  (forall x t r, ref_info sch (o_ent a) x = Some (t, r) -> oref a x = oref b x) /\
  (forall r y, In y (oitems a r) <-> In y (oitems b r)).

Lemma robj_eq_refl : forall sch a, robj_eq sch a a.
Proof. intros. unfold robj_eq. split; [|split; [|split; [|split]]]; auto. intros; tauto. Qed.

Lemma robj_eq_trans : forall sch a b c, robj_eq sch a b -> robj_eq sch b c -> robj_eq sch a c.
Proof.
  intros sch a b c (A1 & A2 & A5 & A3 & A4) (B1 & B2 & B5 & B3 & B4). split. congruence. split. congruence. split. congruence. split.
  - intros x t r H. rewrite (A3 x t r H). apply (B3 x t r). rewrite <- A1. exact H.
  - intros r y. rewrite (A4 r y). apply B4.
Qed.

Lemma vref_get : forall s o ob a, get_obj s o = Some ob -> vref s o a = oref ob a.
Proof. intros. unfold vref, oref, obj_val. rewrite H. reflexivity. Qed.
Lemma vitems_get : forall s o ob r, get_obj s o = Some ob -> vitems s o r = oitems ob r.
Proof. intros. unfold vitems, coll_items, oitems. rewrite H. reflexivity. Qed.

Lemma rframe_objs : forall sch s s',
  s_dirty s' = s_dirty s -> length (s_objs s') = length (s_objs s) ->
  (forall o a, get_obj s o = Some a -> exists b, get_obj s' o = Some b /\ robj_eq sch a b) -> rframe sch s s'.
Proof.
  intros sch s s' D L H. split; auto. intros o.
  destruct (get_obj s o) as [a|] eqn:G.
  - destruct (H o a G) as (b & Hb & (E1 & E2 & E5 & E3 & E4)).
    unfold vex, vlive, vent, vslen, obj_ent. rewrite G, Hb. split; [reflexivity|]. split; [congruence|]. split; [congruence|]. split; [congruence|]. split.
    + intros x t r HR. rewrite (vref_get s' o b x Hb), (vref_get s o a x G). symmetry. apply (E3 x t r HR).
    + intros r y. rewrite (vitems_get s' o b r Hb), (vitems_get s o a r G). split; intro I; apply (E4 r y); exact I.
  - pose proof (get_obj_None_len s s' o L G) as G'. unfold vex, vlive, vent, vslen, vref, vitems, obj_ent, obj_val, coll_items. rewrite G, G'.
    split; [reflexivity|]. split; [reflexivity|]. split; [reflexivity|]. split; [reflexivity|]. split; [reflexivity|]. intros. tauto.
Qed.

Lemma rframe_fields : forall sch s s', s_objs s' = s_objs s -> s_dirty s' = s_dirty s -> rframe sch s s'.
Proof.
  intros sch s s' H D. apply rframe_objs; auto. congruence. intros o a G. exists a. split. unfold get_obj in *. congruence. apply robj_eq_refl.
Qed.

Lemma rframe_upd_obj : forall sch s o f, (forall ob, get_obj s o = Some ob -> robj_eq sch ob (f ob)) -> rframe sch s (upd_obj s o f).
Proof.
  intros sch s o f H. apply rframe_objs. apply upd_obj_dirty. apply upd_obj_length.
  intros o' a Ha. rewrite get_upd_obj. destruct (Nat.eqb o o') eqn:E.
  - apply Nat.eqb_eq in E. subst. rewrite Ha. simpl. exists (f a). split; auto.
  - exists a. split; auto. apply robj_eq_refl.
Qed.

Lemma rframe_put_obj : forall sch s o ob ob', get_obj s o = Some ob -> robj_eq sch ob ob' -> rframe sch s (put_obj s o ob').
Proof.
  intros sch s o ob ob' G K. apply rframe_objs. reflexivity. unfold put_obj, set_objs. cbn [s_objs]. apply upd_nth_length.
  intros o' a Ha. rewrite get_put_obj. destruct (Nat.eqb o o') eqn:E.
  - apply Nat.eqb_eq in E. subst. rewrite Ha. exists ob'. split; auto. congruence.
  - exists a. split; auto. apply robj_eq_refl.
Qed.

(* ---------------------------------------------------------------- functions that are frames for both invariants *)

Lemma robj_eq_pos : forall sch ob x, robj_eq sch ob (ob_set_pos ob x). Proof. intros. unfold robj_eq. split; [|split; [|split; [|split]]]; auto. intros; tauto. Qed.
Lemma robj_eq_wbit : forall sch ob a b, robj_eq sch ob (ob_put_wbit ob a b). Proof. intros. unfold robj_eq. split; [|split; [|split; [|split]]]; auto. intros; tauto. Qed.
Lemma robj_eq_dbval : forall sch ob a x, robj_eq sch ob (ob_put_dbval ob a x). Proof. intros. unfold robj_eq. split; [|split; [|split; [|split]]]; auto. intros; tauto. Qed.
Lemma robj_eq_seed : forall sch ob x, robj_eq sch ob (ob_set_seed ob x). Proof. intros. unfold robj_eq. split; [|split; [|split; [|split]]]; auto. intros; tauto. Qed.
Lemma robj_eq_wbits : forall sch ob x, robj_eq sch ob (ob_set_wbits ob x). Proof. intros. unfold robj_eq. split; [|split; [|split; [|split]]]; auto. intros; tauto. Qed.
Lemma robj_eq_pk : forall sch ob x, robj_eq sch ob (ob_set_pk ob x). Proof. intros. unfold robj_eq. split; [|split; [|split; [|split]]]; auto. intros; tauto. Qed.

Lemma robj_eq_st : forall sch ob st, is_del (o_st ob) = is_del st -> robj_eq sch ob (ob_set_st ob st).
Proof. intros. unfold robj_eq. split; [|split; [|split; [|split]]]; auto. intros; tauto. Qed.

Lemma oref_put_other : forall ob a v x, a <> x -> oref (ob_put_val ob a v) x = oref ob x.
Proof. intros. unfold oref. rewrite oval_put_other by assumption. reflexivity. Qed.

Lemma robj_eq_val : forall sch ob a v, ref_info sch (o_ent ob) a = None -> robj_eq sch ob (ob_put_val ob a v).
Proof.
  intros sch ob a v N. unfold robj_eq. split; [|split; [|split; [|split]]]; auto.
  - intros x t r H. destruct (Nat.eq_dec a x). subst. congruence. symmetry. apply oref_put_other. assumption.
  - intros; tauto.
Qed.

Lemma oitems_put_set_other : forall ob a sd r, a <> r -> oitems (ob_put_set ob a sd) r = oitems ob r.
Proof. intros. unfold oitems, oset, ob_put_set, ob_set_sets. cbn [o_sets]. rewrite nth_upd_nth_other by assumption. reflexivity. Qed.

Lemma oset_put_same_or : forall ob a sd, oset (ob_put_set ob a sd) a = sd \/ (oset (ob_put_set ob a sd) a = oset ob a /\ (length (o_sets ob) <= a)%nat).
Proof.
  intros. unfold oset, ob_put_set, ob_set_sets. cbn [o_sets]. destruct (lt_dec a (length (o_sets ob))).
  - left. apply nth_upd_nth_same. assumption.
  - right. split; [|lia]. assert (E : upd_nth (o_sets ob) a sd = o_sets ob).
    { revert a n. induction (o_sets ob) as [|y l IH]; intros a n; destruct a; simpl in *; auto; try lia. f_equal. apply IH. lia. }
    rewrite E. reflexivity.
Qed.

(* replacing a SetData by one with the same members *)
Lemma robj_eq_set_same : forall sch ob a sd,
  (forall y, In y (sd_items sd) <-> In y (oitems ob a)) -> robj_eq sch ob (ob_put_set ob a (Some sd)).
Proof.
  intros sch ob a sd H. unfold robj_eq. split; [|split; [|split; [|split]]]; auto.
  { unfold ob_put_set, ob_set_sets. cbn [o_sets]. symmetry. apply upd_nth_length. }
  intros r y. destruct (Nat.eq_dec a r) as [->|N].
  - unfold oitems at 2. destruct (oset_put_same_or ob r (Some sd)) as [E|[E _]]; rewrite E.
    + symmetry. apply H.
    + fold (oitems ob r). tauto.
  - rewrite oitems_put_set_other by assumption. tauto.
Qed.

Lemma Fr_fields : forall sch s s', s_objs s' = s_objs s -> s_idx s' = s_idx s -> s_dirty s' = s_dirty s -> Fr sch s s'.
Proof. intros. split. apply kframe_fields; auto. apply rframe_fields; auto. Qed.

Lemma Fr_upd_obj : forall sch s o f,
  (forall ob, get_obj s o = Some ob -> kobj_eq sch ob (f ob) /\ robj_eq sch ob (f ob)) -> Fr sch s (upd_obj s o f).
Proof. intros. split. apply kframe_upd_obj. intros. apply H; auto. apply rframe_upd_obj. intros. apply H; auto. Qed.

Lemma Fr_queue : forall sch s o, Fr sch s (queue s o).
Proof.
  intros. split. apply kframe_queue. unfold queue. eapply rframe_trans; [|apply rframe_fields; reflexivity].
  apply rframe_upd_obj. intros. apply robj_eq_pos.
Qed.

Lemma Fr_unqueue : forall sch s p, Fr sch s (unqueue_slot s p).
Proof. intros. unfold unqueue_slot. destruct p. apply Fr_fields; reflexivity. apply Fr_refl. Qed.

Lemma Fr_modcoll_add : forall sch s o a, Fr sch s (modcoll_add s o a).
Proof. intros. unfold modcoll_add. destruct (existsb _ _). apply Fr_refl. apply Fr_fields; reflexivity. Qed.

Lemma Fr_note_order : forall sch A s (l : list A), Fr sch s (note_order s l).
Proof. intros. unfold note_order. destruct l as [|? [|? ?]]; try apply Fr_refl. apply Fr_fields; reflexivity. Qed.

Lemma rframe_mark_written : forall sch s o a, is_del (obj_st s o) = false -> rframe sch s (mark_written s o a).
Proof.
  intros sch s o a D. unfold mark_written. destruct (get_obj s o) as [ob|] eqn:G; [|apply rframe_refl].
  rewrite (obj_st_get s o ob G) in D.
  destruct (status_eqb (o_st ob) SCreated); [apply rframe_refl|].
  assert (F1 : rframe sch s (put_obj s o (ob_put_wbit ob a true))) by (eapply rframe_put_obj; eauto; apply robj_eq_wbit).
  destruct (status_eqb (o_st ob) SModified); auto.
  eapply rframe_trans. apply F1. eapply rframe_trans; [|apply (Fr_queue sch)].
  apply rframe_upd_obj. intros ob1 G1. rewrite get_put_obj in G1. rewrite Nat.eqb_refl, G in G1. inversion G1; subst.
  apply robj_eq_st. cbn [o_st ob_put_wbit ob_set_wbits]. rewrite D. reflexivity.
Qed.

Lemma Fr_mark_written : forall sch s o a, is_del (obj_st s o) = false -> Fr sch s (mark_written s o a).
Proof. intros. split. apply kframe_mark_written; auto. apply rframe_mark_written; auto. Qed.

Lemma Fr_coll_ensure : forall sch s o a, Fr sch s (coll_ensure s o a).
Proof.
  intros. split. apply kframe_coll_ensure. unfold coll_ensure. apply rframe_upd_obj. intros ob G.
  destruct (oset ob a) eqn:E. apply robj_eq_refl. apply robj_eq_set_same. intros y. unfold oitems. rewrite E. simpl. tauto.
Qed.

Lemma Fr_coll_mark_full : forall sch s o a, Fr sch s (coll_mark_full s o a).
Proof.
  intros. split. apply kframe_coll_mark_full. unfold coll_mark_full. apply rframe_upd_obj. intros ob G.
  apply robj_eq_set_same. intros y. unfold oitems. destruct (oset ob a); simpl; tauto.
Qed.

Lemma rframe_fold : forall sch A (f : sess -> A -> sess) l s,
  (forall s x, rframe sch s (f s x)) -> rframe sch s (fold_left f l s).
Proof.
  intros sch A f l. induction l; intros s H; simpl. apply rframe_refl.
  eapply rframe_trans. apply H. apply IHl. assumption.
Qed.

Lemma Fr_fold : forall sch A (f : sess -> A -> sess) l s, (forall s x, Fr sch s (f s x)) -> Fr sch s (fold_left f l s).
Proof.
  intros. split. apply kframe_fold. intros. apply H. apply rframe_fold. intros. apply H.
Qed.

Lemma Fr_calc_modcoll : forall sch s, Fr sch s (calc_modcoll s).
Proof.
  intros. split. apply kframe_calc_modcoll. unfold calc_modcoll. eapply rframe_trans; [|apply rframe_fields; reflexivity].
  apply rframe_fold. intros s0 x. apply rframe_upd_obj. intros ob G. destruct (oset ob (snd x)) eqn:E.
  apply robj_eq_set_same. intros y. unfold oitems. rewrite E. simpl. tauto. apply robj_eq_refl.
Qed.

Lemma Fr_put_sd_same : forall sch s o a sd,
  (forall y, In y (sd_items sd) <-> In y (vitems s o a)) -> Fr sch s (put_sd s o a sd).
Proof.
  intros. split. apply kframe_put_sd. unfold put_sd. apply rframe_upd_obj. intros ob G. apply robj_eq_set_same.
  intros y. rewrite (H y). rewrite (vitems_get s o ob a G). tauto.
Qed.

Lemma rframe_idx : forall sch s x, rframe sch s (set_idx s x).
Proof. intros. apply rframe_fields; reflexivity. Qed.

(* ---------------------------------------------------------------- re-linking one reference *)

Definition opt_is (x : option oid) (o : oid) : bool := match x with Some z => Nat.eqb z o | None => false end.

Lemma opt_is_true : forall x o, opt_is x o = true <-> x = Some o.
Proof. intros [z|] o; simpl; split; intro H; try discriminate. apply Nat.eqb_eq in H. congruence. inversion H. apply Nat.eqb_refl. Qed.

(* b.a (a reference with reverse attribute r) changes from oldx to newx; the collection of the old target loses b, the one of
   the new target gains it; nothing else changes *)
Lemma Inv_relink : forall sch s s' b a t r (oldx newx : option oid),
  wf_schema sch = true -> Inv_rel sch s ->
  vlive s b = true -> is_ref_of sch s b a t r -> vref s b a = oldx -> oldx <> newx ->
  (forall y, newx = Some y -> vex s y = true /\ vent s y = t) ->
  (forall o, vex s' o = vex s o /\ vlive s' o = vlive s o /\ vent s' o = vent s o) ->
  (forall o a' t' r', ref_info sch (vent s o) a' = Some (t', r') ->
       vref s' o a' = if Nat.eqb o b && Nat.eqb a' a then newx else vref s o a') ->
  (forall o r' y, In y (vitems s' o r') <->
       (if opt_is oldx o && Nat.eqb r' r then In y (vitems s o r') /\ y <> b
        else if opt_is newx o && Nat.eqb r' r then y = b \/ In y (vitems s o r')
        else In y (vitems s o r'))) ->
  Inv_rel sch s'.
Proof.
  intros sch s s' b a t r oldx newx WF (R0 & R1 & R2) LB RB OLD NE NEW V1 V2 V3.
  unfold Inv_rel, is_ref_of in *.
  assert (LBex : vex s b = true) by (unfold vlive, vex in *; destruct (get_obj s b); auto; discriminate).
  (* two reference attributes of b with the same reverse index and the same target are one attribute *)
  assert (UNIQ : forall a' t' x, ref_info sch (vent s b) a' = Some (t', r) -> vref s b a' = Some x -> vref s b a = Some x -> a' = a).
  { intros a' t' x H1 H2 H3. destruct (R0 b a' t' r x LBex H1 H2) as [_ E1]. destruct (R0 b a t r x LBex RB H3) as [_ E2].
    assert (t' = t) by congruence. subst t'.
    pose proof (wf_ref_set sch _ _ _ _ WF H1) as S1. pose proof (wf_ref_set sch _ _ _ _ WF RB) as S2. congruence. }
  split; [|split].
  - (* typing *)
    intros b' a' t' r' x EX RI VR. destruct (V1 b') as (E1 & E2 & E3). rewrite E1 in EX. rewrite E3 in RI.
    rewrite (V2 b' a' t' r' RI) in VR.
    destruct (Nat.eqb b' b && Nat.eqb a' a) eqn:C.
    + apply andb_true_iff in C. destruct C as [C1 C2]. apply Nat.eqb_eq in C1, C2. subst b' a'.
      assert (t' = t) by congruence. subst t'. destruct (NEW x VR) as [N1 N2]. destruct (V1 x) as (X1 & _ & X3). rewrite X1, X3. auto.
    + destruct (R0 b' a' t' r' x EX RI VR) as [N1 N2]. destruct (V1 x) as (X1 & _ & X3). rewrite X1, X3. auto.
  - (* a live referrer is a member *)
    intros b' a' t' r' x LV RI VR. destruct (V1 b') as (E1 & E2 & E3). rewrite E2 in LV. rewrite E3 in RI.
    rewrite (V2 b' a' t' r' RI) in VR. apply V3.
    destruct (Nat.eqb b' b && Nat.eqb a' a) eqn:C.
    + apply andb_true_iff in C. destruct C as [C1 C2]. apply Nat.eqb_eq in C1, C2. subst b' a'.
      assert (r' = r) by congruence. subst r'. rewrite Nat.eqb_refl, andb_true_r.
      destruct (opt_is oldx x) eqn:O1. apply opt_is_true in O1. congruence.
      assert (O2 : opt_is newx x = true) by (apply opt_is_true; exact VR). rewrite O2. left. reflexivity.
    + pose proof (R1 b' a' t' r' x LV RI VR) as M.
      destruct (opt_is oldx x && Nat.eqb r' r) eqn:O1.
      * split; auto. intro EB. subst b'. apply andb_true_iff in O1. destruct O1 as [O1 O3]. apply opt_is_true in O1. apply Nat.eqb_eq in O3. subst r'.
        assert (a' = a) by (apply (UNIQ a' t' x RI VR); congruence). subst a'. rewrite !Nat.eqb_refl in C. discriminate.
      * destruct (opt_is newx x && Nat.eqb r' r); auto.
  - (* every member is live and refers back *)
    intros x r' y M. apply V3 in M.
    assert (OLDCASE : forall y', In y' (vitems s x r') -> (y' = b -> ~ (oldx = Some x /\ r' = r)) ->
              vlive s' y' = true /\ exists a0 t0, ref_info sch (vent s' y') a0 = Some (t0, r') /\ vref s' y' a0 = Some x).
    { intros y' MY NB. destruct (R2 x r' y' MY) as [LV (a0 & t0 & RI & VR)]. destruct (V1 y') as (E1 & E2 & E3).
      split. congruence. exists a0, t0. rewrite E3. split; auto. rewrite (V2 y' a0 t0 r' RI).
      destruct (Nat.eqb y' b && Nat.eqb a0 a) eqn:C; auto.
      apply andb_true_iff in C. destruct C as [C1 C2]. apply Nat.eqb_eq in C1, C2. subst y' a0.
      exfalso. apply (NB eq_refl). split. congruence. congruence. }
    destruct (opt_is oldx x && Nat.eqb r' r) eqn:O1.
    + destruct M as [M NB]. apply OLDCASE; auto.
    + destruct (opt_is newx x && Nat.eqb r' r) eqn:O2.
      * destruct M as [M|M].
        -- subst y. apply andb_true_iff in O2. destruct O2 as [O2 O3]. apply opt_is_true in O2. apply Nat.eqb_eq in O3. subst r'.
           destruct (V1 b) as (E1 & E2 & E3). split. congruence. exists a, t. rewrite E3. split; auto.
           rewrite (V2 b a t r RB). rewrite !Nat.eqb_refl. exact O2.
        -- apply OLDCASE; auto. intros EB [H1 H2]. subst r'. assert (opt_is oldx x = true) by (apply opt_is_true; exact H1).
           rewrite H, Nat.eqb_refl in O1. discriminate.
      * apply OLDCASE; auto. intros EB [H1 H2]. subst r'. assert (opt_is oldx x = true) by (apply opt_is_true; exact H1).
        rewrite H, Nat.eqb_refl in O1. discriminate.
Qed.

(* ---------------------------------------------------------------- views after the primitive steps *)

Definition vsame1 (s s' : sess) : Prop :=
  forall o, vex s' o = vex s o /\ vlive s' o = vlive s o /\ vent s' o = vent s o /\ vslen s' o = vslen s o.

Lemma vsame1_refl : forall s, vsame1 s s. Proof. intros s o. auto. Qed.
Lemma vsame1_trans : forall s1 s2 s3, vsame1 s1 s2 -> vsame1 s2 s3 -> vsame1 s1 s3.
Proof. intros s1 s2 s3 A B o. destruct (A o) as (A1 & A2 & A3 & A4). destruct (B o) as (B1 & B2 & B3 & B4). repeat split; congruence. Qed.

Lemma rframe_vsame1 : forall sch s s', rframe sch s s' -> vsame1 s s'.
Proof. intros sch s s' [_ F] o. destruct (F o) as (A1 & A2 & A3 & A4 & _). auto. Qed.

(* upd_obj with a function that keeps entity, status and the number of slots *)
Lemma vsame1_upd_obj : forall s o f,
  (forall ob, o_ent (f ob) = o_ent ob /\ o_st (f ob) = o_st ob /\ length (o_sets (f ob)) = length (o_sets ob)) -> vsame1 s (upd_obj s o f).
Proof.
  intros s o f H o'. unfold vex, vlive, vent, vslen, obj_ent. rewrite get_upd_obj. destruct (Nat.eqb o o'); auto.
  destruct (get_obj s o') as [ob|]; simpl; auto. destruct (H ob) as (A & B & C). rewrite A, B, C. auto.
Qed.

Lemma vsame1_fields : forall s s', s_objs s' = s_objs s -> vsame1 s s'.
Proof. intros s s' H o. unfold vex, vlive, vent, vslen, obj_ent, get_obj. rewrite H. auto. Qed.

Lemma vref_fields : forall s s' o a, s_objs s' = s_objs s -> vref s' o a = vref s o a.
Proof. intros. unfold vref, obj_val, get_obj. rewrite H. reflexivity. Qed.
Lemma vitems_fields : forall s s' o r, s_objs s' = s_objs s -> vitems s' o r = vitems s o r.
Proof. intros. unfold vitems, coll_items, get_obj. rewrite H. reflexivity. Qed.

(* changing the SetData of (w, r) by a function on SetData *)
Definition upd_sd (s : sess) (w : oid) (r : nat) (g : option setdata -> option setdata) : sess :=
  upd_obj s w (fun ob => ob_put_set ob r (g (oset ob r))).

Lemma upd_sd_views : forall s w r g,
  vsame1 s (upd_sd s w r g) /\ (forall o a, vref (upd_sd s w r g) o a = vref s o a) /\
  (forall o r', (Nat.eqb o w && Nat.eqb r' r) = false -> vitems (upd_sd s w r g) o r' = vitems s o r').
Proof.
  intros. unfold upd_sd. split; [|split].
  - apply vsame1_upd_obj. intros ob. repeat split; auto. unfold ob_put_set, ob_set_sets. cbn [o_sets]. apply upd_nth_length.
  - intros o a. unfold vref, obj_val. rewrite get_upd_obj. destruct (Nat.eqb w o); auto. destruct (get_obj s o); reflexivity.
  - intros o r' H. unfold vitems, coll_items. rewrite get_upd_obj. destruct (Nat.eqb w o) eqn:E; auto.
    apply Nat.eqb_eq in E. subst o. rewrite Nat.eqb_refl in H. simpl in H. apply Nat.eqb_neq in H.
    destruct (get_obj s w) as [ob|]; simpl; auto. fold (oitems (ob_put_set ob r (g (oset ob r))) r'). fold (oitems ob r').
    apply oitems_put_set_other. auto.
Qed.

Lemma upd_sd_items_same : forall s w r g ob,
  get_obj s w = Some ob -> (r < length (o_sets ob))%nat ->
  vitems (upd_sd s w r g) w r = match g (oset ob r) with Some sd => sd_items sd | None => [] end.
Proof.
  intros. unfold upd_sd, vitems, coll_items. rewrite get_upd_obj_same, H. simpl.
  unfold oset, ob_put_set, ob_set_sets. cbn [o_sets]. rewrite nth_upd_nth_same by assumption. reflexivity.
Qed.

(* adding an item to the collection (w, r): rev_add, sd_add_item, the successful db_rev_add *)
Definition adds_item (s s' : sess) (w : oid) (r : nat) (i : oid) : Prop :=
  vsame1 s s' /\ (forall o a, vref s' o a = vref s o a) /\
  (forall o r' y, In y (vitems s' o r') <-> (if Nat.eqb o w && Nat.eqb r' r then y = i \/ In y (vitems s o r') else In y (vitems s o r'))).

Lemma adds_item_upd_sd : forall s w r i g,
  vex s w = true -> (r < vslen s w)%nat ->
  (forall osd, exists sd, g osd = Some sd /\ forall y, In y (sd_items sd) <-> y = i \/ In y (match osd with Some sd0 => sd_items sd0 | None => [] end)) ->
  adds_item s (upd_sd s w r g) w r i.
Proof.
  intros s w r i g EX LT G. destruct (upd_sd_views s w r g) as (A & B & C). split; [exact A|]. split; [exact B|].
  intros o r' y. destruct (Nat.eqb o w && Nat.eqb r' r) eqn:E.
  - apply andb_true_iff in E. destruct E as [E1 E2]. apply Nat.eqb_eq in E1, E2. subst o r'.
    unfold vex, vslen in *. destruct (get_obj s w) as [ob|] eqn:GW; try discriminate.
    rewrite (upd_sd_items_same s w r g ob GW LT). destruct (G (oset ob r)) as (sd & E & M). rewrite E. rewrite M.
    unfold vitems, coll_items. rewrite GW. tauto.
  - rewrite (C o r' E). tauto.
Qed.

Lemma adds_item_fields : forall s s1 s2 w r i, adds_item s s1 w r i -> s_objs s2 = s_objs s1 -> adds_item s s2 w r i.
Proof.
  intros s s1 s2 w r i (A1 & A2 & A3) H. split; [|split].
  - eapply vsame1_trans. exact A1. apply vsame1_fields. exact H.
  - intros o a. rewrite <- A2. apply vref_fields. exact H.
  - intros o r' y. rewrite <- A3. rewrite (vitems_fields s1 s2 o r' H). tauto.
Qed.

Lemma rev_add_adds : forall s w r i, vex s w = true -> (r < vslen s w)%nat -> adds_item s (rev_add s w r i) w r i.
Proof.
  intros s w r i EX LT. unfold rev_add.
  set (g := fun osd => Some (sd_rev_add (match osd with Some sd => sd | None => sd_empty end) i)).
  assert (A : adds_item s (upd_sd s w r g) w r i).
  { apply adds_item_upd_sd; auto. intros osd. eexists. split. reflexivity. intros y. unfold sd_rev_add. cbn [sd_items].
    rewrite In_add_nat. destruct osd; simpl; tauto. }
  eapply adds_item_fields. exact A. unfold modcoll_add. destruct (existsb _ _); reflexivity.
Qed.

Lemma sd_add_item_adds : forall s w r i, vex s w = true -> (r < vslen s w)%nat -> adds_item s (sd_add_item s w r i) w r i.
Proof.
  intros s w r i EX LT. unfold sd_add_item.
  set (g := fun osd => match osd with
                       | Some sd => Some (mkSd (add_nat i (sd_items sd)) (sd_added sd) (sd_removed sd) (sd_full sd) (sd_count sd))
                       | None => Some (mkSd [i] [] [] false None) end).
  assert (A : adds_item s (upd_sd s w r g) w r i).
  { apply adds_item_upd_sd; auto. intros osd. destruct osd as [sd|]; eexists; (split; [reflexivity|]); intros y; cbn [sd_items].
    rewrite In_add_nat. tauto. simpl. split; intro HH; destruct HH as [HH|[]]; auto. }
  unfold upd_sd, g in A.
  assert (E : upd_obj s w (fun ob => match oset ob r with
        | Some sd => ob_put_set ob r (Some (mkSd (add_nat i (sd_items sd)) (sd_added sd) (sd_removed sd) (sd_full sd) (sd_count sd)))
        | None => ob_put_set ob r (Some (mkSd [i] [] [] false None)) end) =
     upd_obj s w (fun ob => ob_put_set ob r (match oset ob r with
        | Some sd => Some (mkSd (add_nat i (sd_items sd)) (sd_added sd) (sd_removed sd) (sd_full sd) (sd_count sd))
        | None => Some (mkSd [i] [] [] false None) end))).
  { unfold upd_obj. destruct (get_obj s w) as [ob|]; auto. destruct (oset ob r); reflexivity. }
  rewrite E. exact A.
Qed.

Lemma db_rev_add_adds : forall s w r i s1 u, vex s w = true -> (r < vslen s w)%nat ->
  db_rev_add s w r i = Ok s1 u -> adds_item s s1 w r i.
Proof.
  intros s w r i s1 u EX LT H. unfold db_rev_add in H. unfold vex in EX. destruct (get_obj s w) as [ob|] eqn:GW; try discriminate.
  set (g := fun osd => match osd with
                       | Some sd => Some (mkSd (add_nat i (sd_items sd)) (sd_added sd) (sd_removed sd) false (sd_count sd))
                       | None => Some (mkSd [i] [] [] false None) end).
  assert (A : adds_item s (upd_sd s w r g) w r i).
  { apply adds_item_upd_sd; auto. unfold vex. rewrite GW. reflexivity. intros osd. destruct osd as [sd|]; eexists; (split; [reflexivity|]); intros y; cbn [sd_items].
    rewrite In_add_nat. tauto. simpl. split; intro HH; destruct HH as [HH|[]]; auto. }
  assert (E : s1 = upd_sd s w r g).
  { unfold upd_sd, upd_obj, g. rewrite GW. destruct (oset ob r) as [sd|].
    - destruct (sd_full sd); inversion H. reflexivity.
    - inversion H. reflexivity. }
  rewrite E. exact A.
Qed.

(* removing an item from (w, r): rev_remove *)
Definition removes_item (s s' : sess) (w : oid) (r : nat) (i : oid) : Prop :=
  vsame1 s s' /\ (forall o a, vref s' o a = vref s o a) /\
  (forall o r' y, In y (vitems s' o r') <-> (if Nat.eqb o w && Nat.eqb r' r then In y (vitems s o r') /\ y <> i else In y (vitems s o r'))).

Lemma rev_remove_removes : forall s w r i, removes_item s (rev_remove s w r i) w r i.
Proof.
  intros s w r i. unfold rev_remove.
  set (g := fun osd : option setdata => match osd with Some sd => Some (sd_rev_remove sd i) | None => None end).
  assert (E : upd_obj s w (fun ob => match oset ob r with Some sd => ob_put_set ob r (Some (sd_rev_remove sd i)) | None => ob end) = upd_sd s w r g
              \/ (exists ob, get_obj s w = Some ob /\ oset ob r = None)).
  { unfold upd_sd, upd_obj, g. destruct (get_obj s w) as [ob|] eqn:GW; auto. destruct (oset ob r) eqn:OS; auto. right. exists ob. auto. }
  assert (M : forall s0, s_objs s0 = s_objs (upd_obj s w (fun ob => match oset ob r with Some sd => ob_put_set ob r (Some (sd_rev_remove sd i)) | None => ob end)) ->
              removes_item s s0 w r i).
  2:{ apply M. unfold modcoll_add. destruct (existsb _ _); reflexivity. }
  intros s0 H0.
  assert (K : removes_item s (upd_obj s w (fun ob => match oset ob r with Some sd => ob_put_set ob r (Some (sd_rev_remove sd i)) | None => ob end)) w r i).
  { destruct E as [E|(ob & GW & OS)].
    - rewrite E. destruct (upd_sd_views s w r g) as (A & B & C). split; [exact A|]. split; [exact B|].
      intros o r' y. destruct (Nat.eqb o w && Nat.eqb r' r) eqn:EQ.
      + apply andb_true_iff in EQ. destruct EQ as [E1 E2]. apply Nat.eqb_eq in E1, E2. subst o r'.
        destruct (get_obj s w) as [ob|] eqn:GW.
        * destruct (lt_dec r (length (o_sets ob))) as [LT|GE].
          -- rewrite (upd_sd_items_same s w r g ob GW LT). unfold vitems, coll_items. rewrite GW. unfold g.
             destruct (oset ob r) as [sd|]; simpl. rewrite In_remove_nat. tauto. tauto.
          -- assert (N2 : oset ob r = None) by (unfold oset; apply nth_overflow; lia).
             unfold vitems, coll_items, upd_sd. rewrite get_upd_obj_same, GW. simpl.
             unfold ob_put_set, ob_set_sets, oset. cbn [o_sets]. rewrite upd_nth_overflow by lia.
             fold (oset ob r). rewrite N2. simpl. tauto.
        * unfold vitems, coll_items, upd_sd. rewrite get_upd_obj_same, GW. simpl. tauto.
      + rewrite (C o r' EQ). tauto.
    - assert (ID : upd_obj s w (fun ob0 => match oset ob0 r with Some sd => ob_put_set ob0 r (Some (sd_rev_remove sd i)) | None => ob0 end) = put_obj s w ob).
      { unfold upd_obj. rewrite GW, OS. reflexivity. }
      rewrite ID. split; [|split].
      + intros o. unfold vex, vlive, vent, vslen, obj_ent. rewrite get_put_obj. destruct (Nat.eqb w o) eqn:EQ; auto.
        apply Nat.eqb_eq in EQ. subst o. rewrite GW. auto.
      + intros o a. unfold vref, obj_val. rewrite get_put_obj. destruct (Nat.eqb w o) eqn:EQ; auto. apply Nat.eqb_eq in EQ. subst o. rewrite GW. reflexivity.
      + intros o r' y. assert (V : vitems (put_obj s w ob) o r' = vitems s o r').
        { unfold vitems, coll_items. rewrite get_put_obj. destruct (Nat.eqb w o) eqn:EQ; auto. apply Nat.eqb_eq in EQ. subst o. rewrite GW. reflexivity. }
        rewrite V. destruct (Nat.eqb o w && Nat.eqb r' r) eqn:EQ; [|tauto].
        apply andb_true_iff in EQ. destruct EQ as [E1 E2]. apply Nat.eqb_eq in E1, E2. subst o r'.
        unfold vitems, coll_items. rewrite GW, OS. simpl. tauto. }
  destruct K as (K1 & K2 & K3). split; [|split].
  - eapply vsame1_trans. exact K1. apply vsame1_fields. exact H0.
  - intros o a. rewrite <- K2. apply vref_fields. exact H0.
  - intros o r' y. rewrite <- K3. rewrite (vitems_fields _ s0 o r' H0). tauto.
Qed.

Lemma ooid_dec : forall a b : option oid, {a = b} + {a <> b}.
Proof. decide equality. apply Nat.eq_dec. Qed.

Definition ref_of (v : val) : option oid := match v with VRef y => Some y | _ => None end.

Definition sets_val (f : obj -> obj) (a : nat) (v : val) : Prop :=
  forall ob, o_ent (f ob) = o_ent ob /\ o_st (f ob) = o_st ob /\ o_sets (f ob) = o_sets ob /\ o_vals (f ob) = upd_nth (o_vals ob) a (Some v).

Lemma sets_val_put : forall a v, sets_val (fun ob => ob_put_val ob a (Some v)) a v.
Proof. intros a v ob. auto. Qed.
Lemma sets_val_put_db : forall a v d, sets_val (fun ob => ob_put_val (ob_put_dbval ob a d) a (Some v)) a v.
Proof. intros a v d ob. auto. Qed.

Lemma put_val_views_gen : forall s o a v f ob, sets_val f a v -> get_obj s o = Some ob -> (a < length (o_vals ob))%nat ->
  let s' := upd_obj s o f in
  vsame1 s s' /\ (forall o' r', vitems s' o' r' = vitems s o' r') /\
  (forall o' a', vref s' o' a' = if Nat.eqb o' o && Nat.eqb a' a then ref_of v else vref s o' a').
Proof.
  intros s o a v f ob SV G LT s'. unfold s'. split; [|split].
  - apply vsame1_upd_obj. intros ob0. destruct (SV ob0) as (A & B & C & D). rewrite C. auto.
  - intros o' r'. unfold vitems, coll_items. rewrite get_upd_obj. destruct (Nat.eqb o o'); auto. destruct (get_obj s o') as [ob0|]; simpl; auto.
    unfold oset. destruct (SV ob0) as (_ & _ & C & _). rewrite C. reflexivity.
  - intros o' a'. unfold vref, obj_val. rewrite get_upd_obj. rewrite (Nat.eqb_sym o' o). destruct (Nat.eqb o o') eqn:E; simpl; auto.
    apply Nat.eqb_eq in E. subst o'. rewrite G. simpl. destruct (SV ob) as (_ & _ & _ & D). unfold oval. rewrite D.
    destruct (Nat.eqb a' a) eqn:E2.
    + apply Nat.eqb_eq in E2. subst a'. rewrite nth_upd_nth_same by assumption. destruct v; reflexivity.
    + apply Nat.eqb_neq in E2. rewrite nth_upd_nth_other by auto. reflexivity.
Qed.

Lemma put_val_views : forall s o a v ob, get_obj s o = Some ob -> (a < length (o_vals ob))%nat ->
  let s' := upd_obj s o (fun ob0 => ob_put_val ob0 a (Some v)) in
  vsame1 s s' /\ (forall o' r', vitems s' o' r' = vitems s o' r') /\
  (forall o' a', vref s' o' a' = if Nat.eqb o' o && Nat.eqb a' a then ref_of v else vref s o' a').
Proof. intros s o a v ob G LT. apply (put_val_views_gen s o a v _ ob (sets_val_put a v) G LT). Qed.

Lemma set_info_lt : forall sch t r p, set_info sch t r = Some p -> (r < nattrs sch t)%nat.
Proof. intros. unfold set_info in H. destruct (get_attr sch t r) eqn:G; try discriminate. eapply get_attr_lt; eauto. Qed.
Lemma ref_info_lt : forall sch e a p, ref_info sch e a = Some p -> (a < nattrs sch e)%nat.
Proof. intros. unfold ref_info in H. destruct (get_attr sch e a) eqn:G; try discriminate. eapply get_attr_lt; eauto. Qed.

Section RelLeaves.
Variable sch : schema.
Hypothesis WF : wf_schema sch = true.

(* the common core of Attribute.__set__ on a reference: value, old collection, new collection; `add` is the way the new
   owner's collection receives the item (rev_add or sd_add_item) *)
Lemma Inv_rel_set_ref : forall s b a t r newv (add : sess -> oid -> nat -> oid -> sess),
  (forall s0 w r0 i, vex s0 w = true -> (r0 < vslen s0 w)%nat -> adds_item s0 (add s0 w r0 i) w r0 i) ->
  Inv_shape sch s -> Inv_sshape sch s -> Inv_rel sch s ->
  vlive s b = true -> ref_info sch (vent s b) a = Some (t, r) ->
  (forall y, newv = VRef y -> vex s y = true /\ vent s y = t) ->
  vref s b a <> ref_of newv ->
  let s2 := upd_obj s b (fun ob => ob_put_val ob a (Some newv)) in
  let s3 := match vref s b a with Some x => rev_remove s2 x r b | None => s2 end in
  let s4 := match newv with VRef y => add s3 y r b | _ => s3 end in
  Inv_rel sch s4.
Proof.
  intros s b a t r newv add ADD SH SS R LB RI TY NE s2 s3 s4.
  assert (EXb : vex s b = true) by (unfold vlive, vex in *; destruct (get_obj s b); auto; discriminate).
  unfold vex in EXb. destruct (get_obj s b) as [ob|] eqn:GB; try discriminate.
  assert (LT : (a < length (o_vals ob))%nat).
  { rewrite (SH b ob GB). unfold vent, obj_ent in RI. rewrite GB in RI. eapply ref_info_lt; eauto. }
  destruct (put_val_views s b a newv ob GB LT) as (P1 & P2 & P3). fold s2 in P1, P2, P3.
  (* s3 *)
  assert (V3 : vsame1 s s3 /\ (forall o' a', vref s3 o' a' = if Nat.eqb o' b && Nat.eqb a' a then ref_of newv else vref s o' a') /\
               (forall o r' y, In y (vitems s3 o r') <-> (if opt_is (vref s b a) o && Nat.eqb r' r then In y (vitems s o r') /\ y <> b else In y (vitems s o r')))).
  { unfold s3. destruct (vref s b a) as [x|] eqn:OLD.
    - destruct (rev_remove_removes s2 x r b) as (Q1 & Q2 & Q3). split; [|split].
      + eapply vsame1_trans; eauto.
      + intros. rewrite Q2. apply P3.
      + intros o r' y. rewrite Q3. simpl. rewrite (Nat.eqb_sym x o). rewrite !P2. tauto.
    - split; [exact P1|]. split; [exact P3|]. intros o r' y. simpl. rewrite P2. tauto. }
  destruct V3 as (W1 & W2 & W3).
  (* s4 *)
  assert (V4 : vsame1 s s4 /\ (forall o' a', vref s4 o' a' = if Nat.eqb o' b && Nat.eqb a' a then ref_of newv else vref s o' a') /\
               (forall o r' y, In y (vitems s4 o r') <->
                  (if opt_is (ref_of newv) o && Nat.eqb r' r then y = b \/ In y (vitems s3 o r') else In y (vitems s3 o r')))).
  { unfold s4. destruct newv as [| | |y]; try (split; [exact W1|]; split; [exact W2|]; intros; simpl; tauto).
    destruct (TY y eq_refl) as [EY TE].
    assert (EX3 : vex s3 y = true) by (destruct (W1 y) as (A & _); congruence).
    assert (LT3 : (r < vslen s3 y)%nat).
    { destruct (W1 y) as (_ & _ & _ & A). rewrite A. rewrite (sshape_vslen sch s y SS EY). rewrite TE.
      eapply set_info_lt. eapply wf_ref_set; eauto. }
    destruct (ADD s3 y r b EX3 LT3) as (Q1 & Q2 & Q3). split; [|split].
    - eapply vsame1_trans; eauto.
    - intros. rewrite Q2. apply W2.
    - intros o r' z. rewrite Q3. simpl. rewrite (Nat.eqb_sym y o). tauto. }
  destruct V4 as (X1 & X2 & X3).
  eapply (Inv_relink sch s s4 b a t r (vref s b a) (ref_of newv) WF R LB RI eq_refl NE).
  - intros y H. destruct newv; simpl in H; try discriminate. inversion H; subst. apply TY. reflexivity.
  - intros o. destruct (X1 o) as (A & B & C & _). auto.
  - intros o a' t' r' _. apply X2.
  - intros o r' y. rewrite X3.
    destruct (opt_is (vref s b a) o && Nat.eqb r' r) eqn:O1.
    + assert (O2 : opt_is (ref_of newv) o && Nat.eqb r' r = false).
      { apply andb_true_iff in O1. destruct O1 as [O1 O3]. rewrite O3, andb_true_r. apply opt_is_true in O1.
        destruct (opt_is (ref_of newv) o) eqn:O4; auto. apply opt_is_true in O4. congruence. }
      rewrite O2. rewrite W3, O1. tauto.
    + destruct (opt_is (ref_of newv) o && Nat.eqb r' r); rewrite W3, O1; tauto.
Qed.
End RelLeaves.

Section RelLeaves2.
Variable sch : schema.
Hypothesis WF : wf_schema sch = true.

Lemma vlive_not_del : forall s o, vex s o = true -> is_del (obj_st s o) = false -> vlive s o = true.
Proof. intros s o E D. unfold vex, vlive, obj_st in *. destruct (get_obj s o); try discriminate. rewrite D. reflexivity. Qed.

Lemma vref_obj_val : forall s o a, vref s o a = match obj_val s o a with Some (VRef x) => Some x | _ => None end.
Proof. reflexivity. Qed.

Lemma oval_eqb_false_ref : forall old newv, oval_eqb old (Some newv) = false ->
  match old with Some (VRef x) => Some x | _ => None end = ref_of newv -> ref_of newv = None.
Proof.
  intros old newv H E. destruct newv as [| | |y]; auto. simpl in E. destruct old as [[| | |x]|]; try discriminate.
  inversion E; subst. simpl in H. rewrite Nat.eqb_refl in H. discriminate.
Qed.

(* a value change that leaves the reference view alone is a frame for the relationship invariant *)
Lemma rframe_put_val_noref_gen : forall s o a v f, sets_val f a v -> vex s o = true ->
  (forall ob, get_obj s o = Some ob -> (a < length (o_vals ob))%nat) ->
  vref s o a = None -> ref_of v = None -> rframe sch s (upd_obj s o f).
Proof.
  intros s o a v f SV EX LT OLD NEW. unfold vex in EX. destruct (get_obj s o) as [ob|] eqn:G; try discriminate.
  destruct (put_val_views_gen s o a v f ob SV G (LT ob eq_refl)) as (P1 & P2 & P3).
  split. apply upd_obj_dirty. intros o'. destruct (P1 o') as (A & B & C & D). split; [exact A|]. split; [exact B|]. split; [exact C|]. split; [exact D|]. split.
  - intros a' t r _. rewrite P3. destruct (Nat.eqb o' o && Nat.eqb a' a) eqn:E; auto.
    apply andb_true_iff in E. destruct E as [E1 E2]. apply Nat.eqb_eq in E1, E2. subst. congruence.
  - intros r y. rewrite P2. tauto.
Qed.

Lemma rframe_put_val_noref : forall s o a v, vex s o = true ->
  (forall ob, get_obj s o = Some ob -> (a < length (o_vals ob))%nat) ->
  vref s o a = None -> ref_of v = None -> rframe sch s (upd_obj s o (fun ob => ob_put_val ob a (Some v))).
Proof. intros. eapply rframe_put_val_noref_gen; eauto. apply sets_val_put. Qed.

Definition set_ref_gen (add : sess -> oid -> nat -> oid -> sess) (s : sess) (b : oid) (a r : nat) (newv : val) : sess :=
  let old := obj_val s b a in
  let s1 := mark_written s b a in
  if oval_eqb old (Some newv) then s1
  else
    let s2 := upd_obj s1 b (fun ob => ob_put_val ob a (Some newv)) in
    let s3 := match old with Some (VRef x) => rev_remove s2 x r b | _ => s2 end in
    match newv with VRef y => add s3 y r b | _ => s3 end.

Lemma vsame1_sshape : forall sA sB, vsame1 sA sB -> Inv_sshape sch sA -> Inv_sshape sch sB.
Proof.
  intros sA sB V S0 o2 ob2 G2. destruct (V o2) as (A & _ & C & D). unfold vex, vent, vslen, obj_ent in *. rewrite G2 in *.
  destruct (get_obj sA o2) as [obA|] eqn:GA; try discriminate. rewrite D, C. apply (S0 o2 obA GA).
Qed.

Lemma kframe_set_ref_gen : forall add s b a r v t,
  (forall s0 w r0 i, kframe sch s0 (add s0 w r0 i)) ->
  is_del (obj_st s b) = false -> ref_info sch (vent s b) a = Some (t, r) -> kframe sch s (set_ref_gen add s b a r v).
Proof.
  intros add s b a r v t KA ND RI. unfold set_ref_gen.
  pose proof (kframe_mark_written sch s b a ND) as F1.
  destruct (oval_eqb (obj_val s b a) (Some v)); auto.
  assert (F2 : kframe sch s (upd_obj (mark_written s b a) b (fun ob => ob_put_val ob a (Some v)))).
  { eapply kframe_trans. apply F1. eapply kframe_put_ref_val; eauto. rewrite (kframe_obj_ent sch s _ b F1). eauto. }
  set (s3 := match obj_val s b a with Some (VRef x) => rev_remove _ x r b | _ => _ end).
  assert (F3 : kframe sch s s3).
  { unfold s3. destruct (obj_val s b a) as [[| | |x]|]; auto. eapply kframe_trans. apply F2. apply kframe_rev_remove. }
  destruct v; auto. eapply kframe_trans. apply F3. apply KA.
Qed.

Lemma Pkr_set_ref_gen : forall add s b a v t r,
  (forall s0 w r0 i, vex s0 w = true -> (r0 < vslen s0 w)%nat -> adds_item s0 (add s0 w r0 i) w r0 i) ->
  (forall s0 w r0 i, kframe sch s0 (add s0 w r0 i)) ->
  Pkr sch s -> vex s b = true -> is_del (obj_st s b) = false -> ref_info sch (vent s b) a = Some (t, r) ->
  (forall y, v = VRef y -> vex s y = true /\ vent s y = t) ->
  Pkr sch (set_ref_gen add s b a r v).
Proof.
  intros add s o a v t r ADD KA P EX ND RI TY.
  pose proof (kframe_set_ref_gen add s o a r v t KA ND RI) as KF.
  pose proof (kframe_Pk sch s _ KF (Pkr_Pk sch s P)) as PK.
  destruct P as [D|(I & SH & SS & R)].
  { left. destruct KF as (_ & DD & _). congruence. }
  destruct PK as [D'|[I' SH']]. left; exact D'. right. split; [exact I'|]. split; [exact SH'|].
  unfold set_ref_gen in *.
  pose proof (Fr_mark_written sch s o a ND) as F1. set (s1 := mark_written s o a) in *.
  destruct F1 as [K1 R1]. pose proof (rframe_Inv sch s s1 R1 R) as RL1. pose proof (rframe_sshape sch s s1 R1 SS) as SS1.
  pose proof (kframe_shape sch s s1 K1 SH) as SH1. pose proof (rframe_vsame1 sch s s1 R1) as VS1.
  destruct (oval_eqb (obj_val s o a) (Some v)) eqn:SAME. split; assumption.
  assert (EX1 : vex s1 o = true) by (destruct (VS1 o) as (A & _); congruence).
  assert (LV1 : vlive s1 o = true) by (destruct (VS1 o) as (_ & B & _); rewrite B; apply vlive_not_del; auto).
  assert (RI1 : ref_info sch (vent s1 o) a = Some (t, r)) by (destruct (VS1 o) as (_ & _ & C & _); rewrite C; exact RI).
  assert (VR1 : vref s1 o a = vref s o a) by (destruct R1 as [_ F]; destruct (F o) as (_ & _ & _ & _ & A & _); apply (A a t r RI)).
  assert (TY1 : forall y, v = VRef y -> vex s1 y = true /\ vent s1 y = t).
  { intros y H. destruct (TY y H) as [A B]. destruct (VS1 y) as (C & _ & D & _). split; congruence. }
  assert (OV : match obj_val s o a with Some (VRef x) => Some x | _ => None end = vref s1 o a) by (rewrite VR1; reflexivity).
  destruct (ooid_dec (vref s1 o a) (ref_of v)) as [EQ|NE].
  - assert (NV : ref_of v = None) by (apply (oval_eqb_false_ref (obj_val s o a) v SAME); rewrite OV; exact EQ).
    assert (OLD : vref s1 o a = None) by congruence.
    assert (X : match obj_val s o a with Some (VRef x) => rev_remove (upd_obj s1 o (fun ob => ob_put_val ob a (Some v))) x r o | _ => upd_obj s1 o (fun ob => ob_put_val ob a (Some v)) end
                = upd_obj s1 o (fun ob => ob_put_val ob a (Some v))).
    { rewrite OLD in OV. destruct (obj_val s o a) as [[| | |x]|]; try reflexivity. discriminate. }
    rewrite X. assert (Y : match v with VRef y => add (upd_obj s1 o (fun ob => ob_put_val ob a (Some v))) y r o | _ => upd_obj s1 o (fun ob => ob_put_val ob a (Some v)) end
                = upd_obj s1 o (fun ob => ob_put_val ob a (Some v))) by (destruct v; try reflexivity; discriminate).
    rewrite Y.
    assert (RF : rframe sch s1 (upd_obj s1 o (fun ob => ob_put_val ob a (Some v)))).
    { apply rframe_put_val_noref; auto. intros ob G. rewrite (SH1 o ob G). unfold vent, obj_ent in RI1. rewrite G in RI1. eapply ref_info_lt; eauto. }
    split. eapply rframe_sshape; eauto. eapply rframe_Inv; eauto.
  - pose proof (Inv_rel_set_ref sch WF s1 o a t r v add ADD SH1 SS1 RL1 LV1 RI1 TY1 NE) as IR.
    cbv zeta in IR. rewrite <- OV in IR.
    assert (E3 : match match obj_val s o a with Some (VRef x) => Some x | _ => None end with
                 | Some x => rev_remove (upd_obj s1 o (fun ob => ob_put_val ob a (Some v))) x r o
                 | None => upd_obj s1 o (fun ob => ob_put_val ob a (Some v)) end =
                 match obj_val s o a with Some (VRef x) => rev_remove (upd_obj s1 o (fun ob => ob_put_val ob a (Some v))) x r o | _ => upd_obj s1 o (fun ob => ob_put_val ob a (Some v)) end).
    { destruct (obj_val s o a) as [[| | |x]|]; reflexivity. }
    rewrite E3 in IR. split; [|exact IR].
    refine (vsame1_sshape s1 _ _ SS1).
    assert (V2 : vsame1 s1 (upd_obj s1 o (fun ob => ob_put_val ob a (Some v)))) by (apply vsame1_upd_obj; intros; auto).
    assert (V3 : vsame1 s1 (match obj_val s o a with Some (VRef x) => rev_remove (upd_obj s1 o (fun ob => ob_put_val ob a (Some v))) x r o | _ => upd_obj s1 o (fun ob => ob_put_val ob a (Some v)) end)).
    { destruct (obj_val s o a) as [[| | |x]|]; auto. eapply vsame1_trans. exact V2. apply (rev_remove_removes _ x r o). }
    destruct v as [| | |y]; auto.
    eapply vsame1_trans. exact V3.
    destruct (TY1 y eq_refl) as [EY TE].
    apply (ADD _ y r o).
    + destruct (V3 y) as (A & _). congruence.
    + destruct (V3 y) as (_ & _ & _ & A). rewrite A. rewrite (sshape_vslen sch s1 y SS1 EY). rewrite TE. eapply set_info_lt. eapply wf_ref_set; eauto.
Qed.

Lemma ref_set_direct_gen : forall s o a v, ref_set_direct sch s o a v =
  match ref_info sch (obj_ent s o) a with Some (_, r) => set_ref_gen rev_add s o a r v | None => s end.
Proof. intros. unfold ref_set_direct, set_ref_gen. destruct (ref_info sch (obj_ent s o) a) as [[t r]|]; reflexivity. Qed.

Lemma ref_set_rev_gen : forall s o a v, ref_set_rev sch s o a v =
  match ref_info sch (obj_ent s o) a with Some (_, r) => set_ref_gen (fun s0 _ _ _ => s0) s o a r v | None => s end.
Proof.
  intros. unfold ref_set_rev, set_ref_gen. destruct (ref_info sch (obj_ent s o) a) as [[t r]|]; auto.
  destruct (oval_eqb (obj_val s o a) (Some v)); auto. destruct v; reflexivity.
Qed.

Lemma Pkr_ref_set_direct : forall s o a v t r,
  Pkr sch s -> vex s o = true -> is_del (obj_st s o) = false -> ref_info sch (vent s o) a = Some (t, r) ->
  (forall y, v = VRef y -> vex s y = true /\ vent s y = t) ->
  Pkr sch (ref_set_direct sch s o a v).
Proof.
  intros. rewrite ref_set_direct_gen. unfold vent in H2. rewrite H2.
  eapply Pkr_set_ref_gen; eauto. apply rev_add_adds. intros. apply kframe_rev_add.
Qed.

(* the collection side unlinks an item: item.a = None *)
Lemma Pkr_unlink_item : forall s item a, Pkr sch s -> vex s item = true -> is_del (obj_st s item) = false ->
  Pkr sch (ref_set_rev sch s item a VNone).
Proof.
  intros s item a P EX ND. rewrite ref_set_rev_gen. destruct (ref_info sch (obj_ent s item) a) as [[t r]|] eqn:RI; auto.
  assert (E : set_ref_gen (fun s0 _ _ _ => s0) s item a r VNone = set_ref_gen rev_add s item a r VNone).
  { unfold set_ref_gen. destruct (oval_eqb (obj_val s item a) (Some VNone)); reflexivity. }
  rewrite E. eapply Pkr_set_ref_gen; eauto. apply rev_add_adds. intros. apply kframe_rev_add. intros y H. discriminate.
Qed.
Lemma Pkr_item_link : forall s o a r item,
  Pkr sch s -> vex s item = true -> is_del (obj_st s item) = false -> vex s o = true ->
  ref_info sch (vent s item) r = Some (vent s o, a) ->
  Pkr sch (item_link sch s o a r item).
Proof.
  intros s o a r item P EX ND EXO RI. unfold item_link. unfold vent in RI. rewrite RI. rewrite Nat.eqb_refl.
  rewrite ref_set_rev_gen. rewrite RI. unfold set_ref_gen.
  destruct (oval_eqb (obj_val s item r) (Some (VRef o))) eqn:SAME.
  - (* already linked: only the membership is (re)asserted *)
    apply oval_eqb_eq in SAME.
    pose proof (Fr_mark_written sch s item r ND) as F1. pose proof (Fr_Pkr sch s _ F1 P) as P1.
    set (s1 := mark_written s item r) in *. destruct F1 as [K1 R1].
    pose proof (kframe_Pk sch s1 _ (kframe_sd_add_item sch s1 o a item) (Pkr_Pk sch s1 P1)) as PK.
    destruct P1 as [D|(I & SH & SS & R)]. { left. rewrite (proj1 (proj2 (kframe_sd_add_item sch s1 o a item))). exact D. }
    destruct PK as [D'|[I' SH']]. left; exact D'. right. split; [exact I'|]. split; [exact SH'|].
    pose proof (rframe_vsame1 sch s s1 R1) as VS1.
    assert (EXO1 : vex s1 o = true) by (destruct (VS1 o) as (A & _); congruence).
    assert (LT : (a < vslen s1 o)%nat).
    { rewrite (sshape_vslen sch s1 o SS EXO1). destruct (VS1 o) as (_ & _ & C & _). rewrite C.
      eapply set_info_lt. eapply wf_ref_set; eauto. }
    destruct (sd_add_item_adds s1 o a item EXO1 LT) as (A1 & A2 & A3).
    assert (MEM : In item (vitems s1 o a)).
    { destruct R as (_ & R1' & _). apply (R1' item r (vent s o) a o).
      - destruct (VS1 item) as (_ & B & _). rewrite B. apply vlive_not_del; auto.
      - unfold is_ref_of. destruct (VS1 item) as (_ & _ & C & _). rewrite C. exact RI.
      - destruct R1 as [_ F]. destruct (F item) as (_ & _ & _ & _ & X & _). rewrite (X r (vent s o) a RI). unfold vref. rewrite SAME. reflexivity. }
    assert (RF : rframe sch s1 (sd_add_item s1 o a item)).
    { split. apply (proj1 (proj2 (kframe_sd_add_item sch s1 o a item))). intros o'. destruct (A1 o') as (B1 & B2 & B3 & B4).
      split; [exact B1|]. split; [exact B2|]. split; [exact B3|]. split; [exact B4|]. split.
      - intros. apply A2.
      - intros r' y. rewrite A3. destruct (Nat.eqb o' o && Nat.eqb r' a) eqn:E; [|tauto].
        apply andb_true_iff in E. destruct E as [E1 E2]. apply Nat.eqb_eq in E1, E2. subst o' r'. split; [|auto]. intros [H|H]; subst; auto. }
    split. eapply rframe_sshape; eauto. eapply rframe_Inv; eauto.
  - assert (E : sd_add_item (match obj_val s item r with
                              | Some (VRef x) => rev_remove (upd_obj (mark_written s item r) item (fun ob => ob_put_val ob r (Some (VRef o)))) x a item
                              | _ => upd_obj (mark_written s item r) item (fun ob => ob_put_val ob r (Some (VRef o))) end) o a item
               = set_ref_gen sd_add_item s item r a (VRef o)).
    { unfold set_ref_gen. rewrite SAME. reflexivity. }
    rewrite E. eapply Pkr_set_ref_gen; eauto. apply sd_add_item_adds. intros. apply kframe_sd_add_item.
    intros y H. inversion H; subst. auto.
Qed.
End RelLeaves2.

Section RelLeaves3.
Variable sch : schema.
Hypothesis WF : wf_schema sch = true.

(* pushing an object without references or collections *)
Lemma Inv_rel_push : forall s ob, Inv_rel sch s ->
  (forall a, oref ob a = None) -> (forall r, oitems ob r = []) -> Inv_rel sch (fst (push_obj s ob)).
Proof.
  intros s ob (R0 & R1 & R2) NR NI. set (s' := fst (push_obj s ob)). set (n := length (s_objs s)).
  assert (OLD : forall o, (o < n)%nat -> get_obj s' o = get_obj s o) by (intros; apply get_push_obj_old; auto).
  assert (NEW : get_obj s' n = Some ob) by (apply (get_push_obj_new s ob)).
  assert (EXLT : forall o, vex s o = true -> (o < n)%nat).
  { intros o H. unfold vex in H. destruct (get_obj s o) eqn:G; try discriminate. eapply get_obj_lt; eauto. }
  assert (VO : forall o, (o < n)%nat -> vex s' o = vex s o /\ vlive s' o = vlive s o /\ vent s' o = vent s o /\
                 (forall a, vref s' o a = vref s o a) /\ (forall r, vitems s' o r = vitems s o r)).
  { intros o L. unfold vex, vlive, vent, vref, vitems, obj_ent, obj_val, coll_items. rewrite (OLD o L). auto. }
  assert (VN : (forall a, vref s' n a = None) /\ (forall r, vitems s' n r = [])).
  { split; intros. rewrite (vref_get s' n ob a NEW). apply NR. rewrite (vitems_get s' n ob r NEW). apply NI. }
  assert (GE : forall o, (n < o)%nat -> get_obj s' o = None).
  { intros o L. apply get_obj_ge. unfold s', push_obj, set_objs. cbn [fst s_objs]. rewrite app_length. simpl. fold n. lia. }
  assert (EX' : forall o, vex s' o = true -> (o < n)%nat \/ o = n).
  { intros o H. destruct (lt_dec n o). unfold vex in H. rewrite (GE o l) in H. discriminate. lia. }
  unfold Inv_rel, is_ref_of. split; [|split].
  - intros b a t r x EX RI VR. destruct (EX' b EX) as [L| ->]; [|rewrite (proj1 VN) in VR; discriminate].
    destruct (VO b L) as (A & B & C & D & E). rewrite A in EX. rewrite C in RI. rewrite D in VR.
    destruct (R0 b a t r x EX RI VR) as [X1 X2]. destruct (VO x (EXLT x X1)) as (A' & _ & C' & _). rewrite A', C'. auto.
  - intros b a t r x LV RI VR. assert (EX : vex s' b = true) by (unfold vlive, vex in *; destruct (get_obj s' b); auto; discriminate).
    destruct (EX' b EX) as [L| ->]; [|rewrite (proj1 VN) in VR; discriminate].
    destruct (VO b L) as (A & B & C & D & E). rewrite B in LV. rewrite C in RI. rewrite D in VR.
    destruct (R0 b a t r x (eq_trans (eq_sym A) EX) RI VR) as [X1 X2]. destruct (VO x (EXLT x X1)) as (_ & _ & _ & _ & E'). rewrite E'. eapply R1; eauto.
  - intros x r b M. destruct (lt_dec x n) as [L|GEx].
    + destruct (VO x L) as (_ & _ & _ & _ & E). rewrite E in M. destruct (R2 x r b M) as [LV (a & t & RI & VR)].
      assert (LB : (b < n)%nat) by (apply EXLT; unfold vlive, vex in *; destruct (get_obj s b); auto; discriminate).
      destruct (VO b LB) as (_ & B & C & D & _). split. congruence. exists a, t. rewrite C, D. auto.
    + exfalso. destruct (Nat.eq_dec x n) as [->|NE]. rewrite (proj2 VN) in M. destruct M.
      unfold vitems, coll_items in M. rewrite (GE x) in M by lia. destruct M.
Qed.

Lemma sshape_push : forall s ob, Inv_sshape sch s -> length (o_sets ob) = nattrs sch (o_ent ob) -> Inv_sshape sch (fst (push_obj s ob)).
Proof.
  intros s ob SS L o ob' G. rewrite get_push_obj in G. destruct (Nat.eqb o (length (s_objs s))). inversion G; subst; auto. apply (SS o ob' G).
Qed.

Lemma oref_new_loaded : forall e pk a, oref (new_loaded sch e pk) a = None.
Proof. intros. unfold oref, oval, new_loaded. cbn [o_vals]. rewrite nth_repeat_same. reflexivity. Qed.
Lemma oitems_new_loaded : forall e pk r, oitems (new_loaded sch e pk) r = [].
Proof. intros. unfold oitems, oset, new_loaded. cbn [o_sets]. rewrite nth_repeat_same. reflexivity. Qed.

Lemma Pkr_get_or_seed : forall s e pk, Pkr sch s -> Pkr sch (fst (get_or_seed sch s e pk)).
Proof.
  intros s e pk P. pose proof (Pk_get_or_seed sch s e pk (Pkr_Pk sch s P)) as PK.
  destruct P as [D|(I & SH & SS & R)]. left. rewrite get_or_seed_dirty. exact D.
  destruct PK as [D'|[I' SH']]. left; exact D'. right. split; [exact I'|]. split; [exact SH'|].
  destruct (idx_get s e O (VInt pk)) eqn:G.
  - unfold get_or_seed. rewrite G. auto.
  - rewrite (get_or_seed_none sch s e pk G). cbn [fst]. split.
    + eapply (rframe_sshape sch (fst (push_obj s (new_loaded sch e pk)))). apply rframe_fields; reflexivity.
      apply sshape_push; auto. unfold new_loaded. cbn [o_sets o_ent]. apply repeat_length.
    + eapply (rframe_Inv sch (fst (push_obj s (new_loaded sch e pk)))). apply rframe_fields; reflexivity.
      apply Inv_rel_push; auto. apply oref_new_loaded. apply oitems_new_loaded.
Qed.

(* the object registered under (e, pk) has entity e *)
Lemma get_or_seed_ent : forall s e pk, Inv_idx sch s ->
  vex (fst (get_or_seed sch s e pk)) (snd (get_or_seed sch s e pk)) = true /\ vent (fst (get_or_seed sch s e pk)) (snd (get_or_seed sch s e pk)) = e.
Proof.
  intros s e pk I. destruct (idx_get s e O (VInt pk)) as [o|] eqn:G.
  - unfold get_or_seed. rewrite G. cbn [fst snd]. apply (I e O (VInt pk) o) in G. destruct G as (ob & Hb & He & _).
    unfold vex, vent, obj_ent. rewrite Hb. auto.
  - rewrite (get_or_seed_none sch s e pk G). cbn [fst snd]. unfold vex, vent, obj_ent. rewrite get_obj_idx_put.
    rewrite (get_push_obj s (new_loaded sch e pk)). rewrite Nat.eqb_refl. auto.
Qed.
End RelLeaves3.

Section RelLeaves4.
Variable sch : schema.
Hypothesis WF : wf_schema sch = true.

Lemma Pkr_of_parts : forall s, Pk sch s -> (s_dirty s = O -> Inv_sshape sch s /\ Inv_rel sch s) -> Pkr sch s.
Proof.
  intros s [D|[I SH]] H. left; exact D. destruct (Nat.eq_dec (s_dirty s) O) as [Z|NZ].
  right. destruct (H Z). auto. left; exact NZ.
Qed.

Lemma Pkr_dirty : forall s site, site <> O -> Pkr sch (mark_dirty s site).
Proof. intros. left. unfold mark_dirty. cbn [s_dirty]. destruct (s_dirty s); auto. Qed.

Lemma Pkr_dirty_keep : forall s site, Pkr sch s -> Pkr sch (mark_dirty s site).
Proof.
  intros s site [D|H]. left. unfold mark_dirty. cbn [s_dirty]. destruct (s_dirty s); congruence.
  destruct site. right. exact H. apply Pkr_dirty. discriminate.
Qed.

Lemma kind_ref_info : forall e a at_ t r, get_attr sch e a = Some at_ -> a_kind at_ = KRef t r -> ref_info sch e a = Some (t, r).
Proof. intros. unfold ref_info. rewrite H, H0. reflexivity. Qed.
Lemma kind_noref_info : forall e a at_, get_attr sch e a = Some at_ -> is_ref_kind (a_kind at_) = false -> ref_info sch e a = None.
Proof. intros. unfold ref_info. rewrite H. destruct (a_kind at_); try reflexivity. discriminate. Qed.

Lemma robj_eq_sets_val_noref : forall f a v ob, sets_val f a v -> ref_info sch (o_ent ob) a = None -> robj_eq sch ob (f ob).
Proof.
  intros f a v ob SV N. destruct (SV ob) as (A & B & C & D). unfold robj_eq. rewrite A, B, C. split; [|split; [|split; [|split]]]; auto.
  - intros x t r H. destruct (Nat.eq_dec a x). subst. congruence. unfold oref, oval. rewrite D. rewrite nth_upd_nth_other by auto. reflexivity.
  - intros r y. unfold oitems, oset. rewrite C. tauto.
Qed.

Lemma dbset_index_objs : forall s o e a v, s_objs (dbset_index sch s o e a v) = s_objs s.
Proof.
  intros. unfold dbset_index. destruct (attr_uniq sch e a && negb (oval_eqb (obj_val s o a) (Some v))); auto.
  destruct (is_vnone v); destruct (obj_val s o a) as [ov|]; try destruct (is_vnone ov); reflexivity.
Qed.

Lemma dbset_attr_dirty_mono : forall s o e a v, s_dirty s <> O -> s_dirty (out_state (dbset_attr sch s o e a v)) <> O.
Proof.
  intros s o e a v D. unfold dbset_attr. destruct (get_obj s o) as [ob|]; auto. destruct (get_attr sch e a) as [at_|]; auto.
  destruct (is_set_kind (a_kind at_)); auto. destruct (odbval ob a) as [old|].
  { destruct (val_eqb old v); auto. simpl. unfold mark_dirty. cbn [s_dirty]. destruct (s_dirty s); congruence. }
  destruct (owbit ob a).
  { destruct (a_kind at_); try (simpl; rewrite upd_obj_dirty; exact D).
    destruct v; try (simpl; rewrite upd_obj_dirty; exact D).
    destruct (db_rev_add s o0 rev o); simpl; unfold mark_dirty; cbn [s_dirty]; match goal with |- context [match ?x with O => _ | S _ => _ end] => destruct x end; discriminate. }
  destruct (oval ob a). { simpl. unfold mark_dirty. cbn [s_dirty]. destruct (s_dirty s); congruence. }
  match goal with |- context [if ?c then _ else _] => destruct c end. { simpl. unfold mark_dirty. cbn [s_dirty]. destruct (s_dirty s); congruence. }
  match goal with |- context [match ?r0 with Ok _ _ => _ | Err _ _ => _ end] => set (r1 := r0) end.
  assert (DR : s_dirty (out_state r1) = s_dirty s).
  { unfold r1. destruct (a_kind at_); auto. destruct v; auto. apply (proj1 (proj2 (kframe_db_rev_add sch s o0 rev o))). }
  destruct r1 as [s1 u|s1 er]; simpl in *.
  - rewrite upd_obj_dirty, dbset_index_dirty. congruence.
  - unfold mark_dirty. cbn [s_dirty]. destruct (s_dirty s1); congruence.
Qed.

Lemma Pkr_dbset_attr : forall s o e a v,
  Pkr sch s -> obj_ent s o = e -> vex s o = true -> is_del (obj_st s o) = false ->
  (forall y t r, v = VRef y -> ref_info sch e a = Some (t, r) -> vex s y = true /\ vent s y = t) ->
  Pkr sch (out_state (dbset_attr sch s o e a v)).
Proof.
  intros s o e a v P EE EX ND TY.
  pose proof (Pk_dbset_attr sch s o e a v (Pkr_Pk sch s P) EE ND) as PK.
  destruct P as [D|(I & SH & SS & R)]. { left. apply dbset_attr_dirty_mono. exact D. }
  apply Pkr_of_parts; auto. intros CLEAN.
  unfold dbset_attr in *.
  destruct (get_obj s o) as [ob|] eqn:G; [|auto].
  assert (EO : o_ent ob = e) by (rewrite <- EE; unfold obj_ent; rewrite G; reflexivity).
  destruct (get_attr sch e a) as [at_|] eqn:GA; [|auto].
  destruct (is_set_kind (a_kind at_)) eqn:ISK; [auto|].
  destruct (odbval ob a) as [old|].
  { destruct (val_eqb old v); auto. }
  destruct (owbit ob a).
  { assert (Q : rframe sch s (upd_obj s o (fun ob2 => ob_put_dbval ob2 a (Some v)))) by (apply rframe_upd_obj; intros; apply robj_eq_dbval).
    destruct (a_kind at_) as [| |t r|t r]; try (split; [eapply rframe_sshape|eapply rframe_Inv]; eauto; fail).
    destruct v; try (split; [eapply rframe_sshape|eapply rframe_Inv]; eauto; fail).
    exfalso. destruct (db_rev_add s o0 r o); simpl in CLEAN; unfold mark_dirty in CLEAN; cbn [s_dirty] in CLEAN;
      match type of CLEAN with context [match ?x with O => _ | S _ => _ end] => destruct x end; discriminate. }
  destruct (oval ob a) eqn:OV. { auto. }
  match goal with |- context [if ?c then _ else _] => destruct c eqn:CF end. { auto. }
  assert (LTa : (a < length (o_vals ob))%nat).
  { rewrite (SH o ob G). rewrite EO. eapply get_attr_lt; eauto. }
  assert (VR0 : vref s o a = None) by (rewrite (vref_get s o ob a G); unfold oref; rewrite OV; reflexivity).
  assert (LIVE : vlive s o = true) by (apply vlive_not_del; auto).
  assert (SV := sets_val_put_db a v (Some v)).
  (* the cases without a new link: the relationship views do not change *)
  assert (NOLINK : ref_info sch e a = None \/ ref_of v = None ->
            Inv_sshape sch (upd_obj (dbset_index sch s o e a v) o (fun ob2 => ob_put_val (ob_put_dbval ob2 a (Some v)) a (Some v))) /\
            Inv_rel sch (upd_obj (dbset_index sch s o e a v) o (fun ob2 => ob_put_val (ob_put_dbval ob2 a (Some v)) a (Some v)))).
  { intros C.
    assert (RF : rframe sch s (upd_obj (dbset_index sch s o e a v) o (fun ob2 => ob_put_val (ob_put_dbval ob2 a (Some v)) a (Some v)))).
    { eapply rframe_trans. apply (rframe_fields sch s (dbset_index sch s o e a v)). apply dbset_index_objs. apply dbset_index_dirty.
      destruct C as [C|C].
      - apply rframe_upd_obj. intros ob2 G2. apply (robj_eq_sets_val_noref _ a v ob2 SV).
        unfold get_obj in G2. rewrite dbset_index_objs in G2. fold (get_obj s o) in G2. rewrite G in G2. inversion G2. subst ob2. rewrite EO. exact C.
      - eapply (rframe_put_val_noref_gen sch (dbset_index sch s o e a v) o a v _ SV); auto.
        + unfold vex, get_obj. rewrite dbset_index_objs. fold (get_obj s o). rewrite G. reflexivity.
        + intros ob2 G2. unfold get_obj in G2. rewrite dbset_index_objs in G2. fold (get_obj s o) in G2. rewrite G in G2. inversion G2. subst ob2. exact LTa.
        + unfold vref, obj_val, get_obj. rewrite dbset_index_objs. fold (get_obj s o). rewrite G, OV. reflexivity. }
    split. eapply rframe_sshape; eauto. eapply rframe_Inv; eauto. }
  destruct (a_kind at_) as [| |t r|t r] eqn:K; try discriminate.
  - cbn [out_state] in *. apply NOLINK. left. eapply kind_noref_info; eauto. rewrite K. reflexivity.
  - cbn [out_state] in *. apply NOLINK. left. eapply kind_noref_info; eauto. rewrite K. reflexivity.
  - assert (RI : ref_info sch e a = Some (t, r)) by (eapply kind_ref_info; eauto).
    destruct v as [| | |y]; try (cbn [out_state] in *; apply NOLINK; right; reflexivity).
    destruct (TY y t r eq_refl RI) as [EY TE].
    assert (LTr : (r < vslen s y)%nat).
    { rewrite (sshape_vslen sch s y SS EY). rewrite TE. eapply set_info_lt. eapply wf_ref_set; eauto. }
    destruct (db_rev_add s y r o) as [s1 u|s1 er] eqn:DB; cbn [out_state] in *; [|auto].
    destruct (db_rev_add_adds s y r o s1 u EY LTr DB) as (A1 & A2 & A3).
    assert (NU : attr_uniq sch e a = false) by (eapply wf_ref_not_uniq; eauto).
    assert (DI : dbset_index sch s1 o e a (VRef y) = s1) by (unfold dbset_index; rewrite NU; reflexivity).
    rewrite DI in *.
    pose proof (kframe_db_rev_add sch s y r o) as KF. rewrite DB in KF. cbn [out_state] in KF.
    destruct KF as (_ & _ & _ & KO). destruct (KO o ob G) as (ob1 & G1 & KE).
    assert (LT1 : (a < length (o_vals ob1))%nat) by (destruct KE as (_ & _ & _ & _ & _ & L & _); rewrite <- L; exact LTa).
    destruct (put_val_views_gen s1 o a (VRef y) _ ob1 SV G1 LT1) as (P1 & P2 & P3).
    split.
    + eapply vsame1_sshape. eapply vsame1_trans. exact A1. exact P1. exact SS.
    + eapply (Inv_relink sch s _ o a t r None (Some y) WF R LIVE).
      * unfold is_ref_of, vent. rewrite EE. exact RI.
      * exact VR0.
      * discriminate.
      * intros y0 H. inversion H; subst. auto.
      * intros o'. destruct (A1 o') as (B1 & B2 & B3 & _). destruct (P1 o') as (C1 & C2 & C3 & _). repeat split; congruence.
      * intros o' a' t' r' _. rewrite P3. rewrite A2. reflexivity.
      * intros o' r' z. rewrite P2. rewrite A3. simpl. rewrite (Nat.eqb_sym y o'). tauto.
  - discriminate.
Qed.
End RelLeaves4.
