(* C29 - lemmas over Model/C29Json.v *)
From Coq Require Import ZArith List Bool Lia ZifyBool.
Require Import PonyV.Base.PyBase PonyV.Base.Seg PonyV.Proofs.SegLemmas PonyV.Model.C29Json.
#[local] Open Scope Z_scope.

(* ------------------------------------------------------------------ decimal printing and reading back *)
Lemma horner_app l d : horner (l ++ [d]) = 10 * horner l + (d - 48).
Proof. unfold horner. now rewrite fold_left_app. Qed.

Lemma digits_fuel_ok fuel : forall n, 0 <= n < Z.of_nat fuel ->
  horner (digits_fuel fuel n) = n /\ forallb is_digit (digits_fuel fuel n) = true /\ digits_fuel fuel n <> [].
Proof.
  induction fuel as [|f IH]; intros n Hn; [lia|]. cbn [digits_fuel].
  destruct (n <? 10) eqn:E.
  - repeat split; [unfold horner; cbn [fold_left]; lia | cbn [forallb]; unfold is_digit; lia | discriminate].
  - assert (Hq : 0 <= n / 10 < Z.of_nat f) by (split; [apply Z.div_pos; lia | apply Z.div_lt_upper_bound; lia]).
    destruct (IH (n / 10) Hq) as [H1 [H2 H3]]. repeat split.
    + rewrite horner_app, H1. pose proof (Z.div_mod n 10). lia.
    + rewrite forallb_app, H2. cbn [forallb andb]. assert (Hm : 0 <= n mod 10 < 10) by (apply Z.mod_pos_bound; lia).
      unfold is_digit. lia.
    + intros C. apply app_eq_nil in C as [_ C]. discriminate.
Qed.

Lemma digits_ok n : 0 <= n -> horner (digits n) = n /\ forallb is_digit (digits n) = true /\ digits n <> [].
Proof. intros H. unfold digits. apply digits_fuel_ok. lia. Qed.

(* ------------------------------------------------------------------ span *)
Lemma span_app p a c r : forallb p a = true -> p c = false -> span p (a ++ c :: r) = (a, c :: r).
Proof.
  induction a as [|x a IH]; cbn; intros Ha Hc; [now rewrite Hc|].
  apply andb_true_iff in Ha as [Hx Ha]. now rewrite Hx, IH.
Qed.
Lemma span_all p a : forallb p a = true -> span p a = (a, []).
Proof.
  induction a as [|x a IH]; cbn; intros Ha; [reflexivity|].
  apply andb_true_iff in Ha as [Hx Ha]. now rewrite Hx, IH.
Qed.

(* ------------------------------------------------------------------ _parse_path (eval_json_path keys) = keys *)
Section Word.
Variable uw : Z -> bool.

Definition key_ok (k : pkey) : bool :=
  match k with KIdx _ => true | KKey s => forallb (fun c => negb (c =? c_quote)) s end.

(* what may follow an item: nothing, or the first character of the next item *)
Definition starts_item (r : str) : Prop := r = [] \/ exists r', r = c_dot :: r' \/ r = c_lbr :: r'.

Lemma not_word_dot : is_word uw c_dot = false. Proof. reflexivity. Qed.
Lemma not_word_lbr : is_word uw c_lbr = false. Proof. reflexivity. Qed.
Lemma not_word_quote : is_word uw c_quote = false. Proof. reflexivity. Qed.

Lemma span_word s r : forallb (is_word uw) s = true -> starts_item r -> span (is_word uw) (s ++ r) = (s, r).
Proof.
  intros Hs [->|[r' [->| ->]]].
  - rewrite app_nil_r. now apply span_all.
  - apply span_app; [assumption | apply not_word_dot].
  - apply span_app; [assumption | apply not_word_lbr].
Qed.

Lemma ident_word s : is_ident uw s = true -> forallb (is_word uw) s = true /\ s <> [].
Proof.
  destruct s as [|c r]; cbn; [discriminate|]. intros H. apply andb_true_iff in H as [Hc Hr]. split; [|discriminate].
  rewrite Hr, andb_true_r. unfold is_word. unfold is_alpha, c_us in *. destruct (c <? 128) eqn:E; lia.
Qed.

Lemma esc_quote_id s : forallb (fun c => negb (c =? c_quote)) s = true -> esc_quote s = s.
Proof.
  induction s as [|c s IH]; cbn; intros H; [reflexivity|]. apply andb_true_iff in H as [Hc Hs].
  apply negb_true_iff in Hc. rewrite Hc. cbn. f_equal. now apply IH.
Qed.

Lemma digit_not_minus ds r : forallb is_digit ds = true -> ds <> [] ->
  match ds ++ r with m :: r' => if m =? c_minus then (true, r') else (false, ds ++ r) | [] => (false, ds ++ r) end = (false, ds ++ r).
Proof.
  destruct ds as [|d ds]; [congruence|]. cbn. intros H _. apply andb_true_iff in H as [Hd _].
  unfold is_digit, c_minus in *. destruct (d =? 45) eqn:E; [lia | reflexivity].
Qed.

Lemma match_item_ok k r : key_ok k = true -> starts_item r -> match_item uw (path_item uw k ++ r) = Some (k, r).
Proof.
  intros Hk Hr. destruct k as [i|s]; cbn [path_item].
  - (* [%d] *)
    cbn [app match_item]. replace (c_lbr =? c_lbr) with true by reflexivity.
    assert (Hnd : is_digit c_rbr = false) by reflexivity.
    unfold fmt_d. destruct (i <? 0) eqn:Ei.
    + destruct (digits_ok (- i)) as [H1 [H2 H3]]; [lia|].
      cbn [app]. replace (c_minus =? c_minus) with true by reflexivity.
      rewrite <- app_assoc. cbn [app]. rewrite (span_app is_digit (digits (- i)) c_rbr r H2 Hnd).
      destruct (digits (- i)) as [|d ds] eqn:Ed; [congruence|].
      replace (c_rbr =? c_rbr) with true by reflexivity. rewrite H1. do 3 f_equal. lia.
    + destruct (digits_ok i) as [H1 [H2 H3]]; [lia|].
      rewrite <- app_assoc. cbn [app]. rewrite (digit_not_minus (digits i) (c_rbr :: r) H2 H3).
      rewrite (span_app is_digit (digits i) c_rbr r H2 Hnd).
      destruct (digits i) as [|d ds] eqn:Ed; [congruence|].
      replace (c_rbr =? c_rbr) with true by reflexivity. now rewrite H1.
  - destruct (is_ident uw s) eqn:Eid.
    + (* .ident *)
      destruct (ident_word s Eid) as [Hw Hne]. cbn [app match_item].
      replace (c_dot =? c_lbr) with false by reflexivity. replace (c_dot =? c_dot) with true by reflexivity.
      rewrite (span_word s r Hw Hr). destruct s; [congruence | reflexivity].
    + (* ."key" *)
      cbn [key_ok] in Hk. rewrite (esc_quote_id s Hk). cbn [app match_item].
      replace (c_dot =? c_lbr) with false by reflexivity. replace (c_dot =? c_dot) with true by reflexivity.
      cbn [span]. rewrite not_word_quote. replace (c_quote =? c_quote) with true by reflexivity.
      rewrite <- app_assoc. cbn [app].
      rewrite (span_app (fun x => negb (x =? c_quote)) s c_quote r Hk); [reflexivity | reflexivity].
Qed.

Lemma path_item_starts k r : starts_item (path_item uw k ++ r).
Proof.
  right. destruct k as [i|s]; cbn [path_item].
  - eexists. right. reflexivity.
  - destruct (is_ident uw s); eexists; left; reflexivity.
Qed.

Lemma flat_starts keys : starts_item (flat_map (path_item uw) keys).
Proof. destruct keys as [|k ks]; [now left | apply path_item_starts]. Qed.

Lemma path_item_len k : (1 <= length (path_item uw k))%nat.
Proof. destruct k as [i|s]; cbn [path_item]; [|destruct (is_ident uw s)]; cbn [length]; lia. Qed.

Lemma parse_items_ok keys : forallb key_ok keys = true -> forall fuel,
  (length (flat_map (path_item uw) keys) <= fuel)%nat -> parse_items uw fuel (flat_map (path_item uw) keys) = Some keys.
Proof.
  induction keys as [|k ks IH]; intros Hk fuel Hf.
  - destruct fuel; reflexivity.
  - cbn [forallb] in Hk. apply andb_true_iff in Hk as [Hk Hks]. cbn [flat_map] in *.
    rewrite app_length in Hf. pose proof (path_item_len k) as Hl.
    destruct fuel as [|f]; [lia|].
    destruct (path_item uw k ++ flat_map (path_item uw) ks) as [|c rest] eqn:Es.
    { apply app_eq_nil in Es as [Es _]. rewrite Es in Hl. cbn in Hl. lia. }
    cbn [parse_items]. rewrite <- Es. rewrite (match_item_ok k _ Hk (flat_starts ks)).
    rewrite IH; [reflexivity | assumption | lia].
Qed.

(* C29_path_roundtrip *)
Lemma path_roundtrip keys : forallb key_ok keys = true -> parse_path uw (json_path uw keys) = Some keys.
Proof.
  intros Hk. unfold json_path, parse_path. replace (c_dollar =? c_dollar) with true by reflexivity.
  now apply parse_items_ok.
Qed.
End Word.

(* ------------------------------------------------------------------ _traverse is Python indexing *)
Lemma traverse_py v keys : forall x, traverse v keys = TVal x <-> py_path v keys = Some x.
Proof.
  revert v. induction keys as [|k ks IH]; intros v x; cbn [traverse py_path].
  - split; intros H; inversion H; reflexivity.
  - destruct v as [|vb|vz|vn vi vf|vs|l|d]; destruct k as [i|s]; try (split; discriminate).
    + destruct (list_get l i); [apply IH | split; discriminate].
    + destruct (assoc s d); [apply IH | split; discriminate].
Qed.

Lemma traverse_null_py v keys : py_path v keys = None -> traverse v keys = TNull \/ traverse v keys = TRaise.
Proof.
  intros H. destruct (traverse v keys) as [x| |] eqn:E; auto. apply traverse_py in E. congruence.
Qed.

(* the fallback raises only where Python raises *)
Lemma traverse_raise_py v keys : traverse v keys = TRaise -> py_path v keys = None.
Proof.
  intros H. destruct (py_path v keys) as [x|] eqn:E; [|reflexivity]. apply traverse_py in E. congruence.
Qed.

Definition json_contains_sql (v : jv) (keys : list pkey) (k : str) : bool :=
  match traverse v keys with TVal x => json_contains x k | _ => false end.

Lemma contains_py v keys k x : py_path v keys = Some x -> json_contains_sql v keys k = json_contains x k.
Proof. intros H. apply traverse_py in H. unfold json_contains_sql. now rewrite H. Qed.

Definition json_len_sql (v : jv) (keys : list pkey) : option Z :=
  match traverse v keys with TVal x => Some (json_array_length x) | _ => None end.

Lemma len_py v keys l : py_path v keys = Some (JList l) -> json_len_sql v keys = py_len (JList l).
Proof. intros H. apply traverse_py in H. unfold json_len_sql. now rewrite H. Qed.

(* ------------------------------------------------------------------ truthiness *)
Lemma str_eqb_eq a b : str_eqb a b = true <-> a = b.
Proof.
  revert b; induction a as [|x a IH]; intros [|y b]; cbn; split; intros H; try discriminate; try reflexivity.
  - apply andb_true_iff in H as [H1 H2]. apply Z.eqb_eq in H1. apply IH in H2. now subst.
  - inversion H; subst. rewrite Z.eqb_refl. now apply IH.
Qed.

Lemma falsy_In t : existsb (str_eqb t) falsy_texts = true <-> In t falsy_texts.
Proof.
  rewrite existsb_exists. split.
  - intros [y [Hy E]]. apply str_eqb_eq in E. now subst.
  - intros H. exists t. split; [assumption | now apply str_eqb_eq].
Qed.

Lemma digits_head n : 0 <= n -> exists d r, digits n = d :: r /\ is_digit d = true.
Proof.
  intros H. destruct (digits_ok n H) as [_ [H2 H3]]. destruct (digits n) as [|d r]; [congruence|].
  cbn in H2. apply andb_true_iff in H2 as [Hd _]. now exists d, r.
Qed.

Lemma fmt_d_zero z : fmt_d z = [48] <-> z = 0.
Proof.
  split.
  - unfold fmt_d. destruct (z <? 0) eqn:E; [discriminate|]. intros H.
    destruct (digits_ok z) as [H1 _]; [lia|]. rewrite H in H1. cbn in H1. lia.
  - intros ->. reflexivity.
Qed.

Lemma fmt_d_head z : exists c r, fmt_d z = c :: r /\ (c = c_minus \/ is_digit c = true).
Proof.
  unfold fmt_d. destruct (z <? 0) eqn:E.
  - exists c_minus, (digits (- z)). auto.
  - destruct (digits_head z) as [d [r [H1 H2]]]; [lia|]. exists d, r. auto.
Qed.

Lemma jtext_nonempty v : jtext v <> [].
Proof.
  destruct v as [|b|z|neg ip fp|s|l|d]; cbn [jtext]; try discriminate.
  - destruct b; discriminate.
  - destruct (fmt_d_head z) as [c [r [H _]]]. rewrite H. discriminate.
  - destruct neg; cbn; [discriminate|]. intros C. apply app_eq_nil in C as [_ C]. discriminate.
Qed.

Lemma join_nonempty sep x l : x <> [] -> join_with sep (x :: l) <> [].
Proof.
  intros Hx. cbn [join_with]. destruct l; [assumption|]. intros C. apply app_eq_nil in C as [C _]. contradiction.
Qed.

Lemma esc_json_nil s : esc_json s = [] -> s = [].
Proof.
  destruct s as [|c s]; [reflexivity|]. cbn. destruct (c =? c_quote); [discriminate|]. destruct (c =? c_bslash); discriminate.
Qed.

Ltac falsy_cases H :=
  cbn [In falsy_texts] in H;
  repeat (destruct H as [H|H]; [| ]); try contradiction.

Lemma fmt_d_no_dot z : ~ In c_dot (fmt_d z).
Proof.
  unfold fmt_d. destruct (z <? 0) eqn:E.
  - destruct (digits_ok (- z)) as [_ [H2 _]]; [lia|]. intros [C|C]; [discriminate C|].
    rewrite forallb_forall in H2. apply H2 in C. discriminate C.
  - destruct (digits_ok z) as [_ [H2 _]]; [lia|]. intros C.
    rewrite forallb_forall in H2. apply H2 in C. discriminate C.
Qed.

Lemma digits_dot_split ds fp : forallb is_digit ds = true -> ds ++ c_dot :: fp = [48; c_dot; 48] -> ds = [48] /\ fp = [48].
Proof.
  intros Hd E. destruct ds as [|x [|y r]]; cbn in E.
  - discriminate E.
  - inversion E. now split.
  - inversion E as [[Hx Hy Hr]]. cbn in Hd. rewrite Hy in Hd. cbn in Hd. rewrite andb_false_r in Hd. discriminate.
Qed.

Lemma float_text_zero (neg : bool) ip fp : 0 <= ip ->
  (if neg then [c_minus] else @nil Z) ++ digits ip ++ c_dot :: fp = (if neg then [c_minus] else @nil Z) ++ [48; c_dot; 48] ->
  ip = 0 /\ fp = [48].
Proof.
  intros Hip E. destruct (digits_ok ip Hip) as [H1 [H2 _]].
  assert (E' : digits ip ++ c_dot :: fp = [48; c_dot; 48]) by (destruct neg; cbn in E; [now inversion E | exact E]).
  destruct (digits_dot_split _ _ H2 E') as [Hd Hf]. split; [|assumption]. rewrite Hd in H1. cbn in H1. lia.
Qed.

(* C29_nonzero: every value except a float zero that is not spelled 0.0 / -0.0 *)
Lemma nonzero_truthy v : float_wf v = true -> odd_zero_float v = false -> json_nonzero v = py_truthy v.
Proof.
  intros Hwf Hz. unfold json_nonzero.
  destruct v as [|b|z|neg ip fp|s|l|d]; cbn [py_truthy].
  - reflexivity.
  - destruct b; reflexivity.
  - (* int *)
    destruct (z =? 0) eqn:E.
    + apply Z.eqb_eq in E. subst. reflexivity.
    + cbn [negb]. apply negb_true_iff. destruct (existsb (str_eqb (jtext (JInt z))) falsy_texts) eqn:Ex; [|reflexivity].
      apply falsy_In in Ex. cbn [jtext] in Ex. destruct (fmt_d_head z) as [c [r [Hc Hd]]].
      falsy_cases Ex;
        first [ (symmetry in Ex; apply fmt_d_zero in Ex; lia)
              | (exfalso; apply (fmt_d_no_dot z); rewrite <- Ex; cbn; tauto)
              | (rewrite Hc in Ex; inversion Ex; subst c; destruct Hd as [Hd|Hd]; discriminate Hd) ].
  - (* float *)
    cbn [float_wf] in Hwf. assert (Hip : 0 <= ip) by lia.
    cbn [odd_zero_float zero_float] in Hz.
    destruct ((ip =? 0) && forallb (fun c => c =? 48) fp) eqn:Ezero.
    + (* a zero: spelled 0.0 / -0.0, which the list now holds *)
      cbn [andb] in Hz. apply negb_false_iff, str_eqb_eq in Hz. apply andb_true_iff in Ezero as [Ei _]. apply Z.eqb_eq in Ei. subst.
      destruct neg; reflexivity.
    + cbn [negb]. apply negb_true_iff.
      destruct (existsb (str_eqb (jtext (JFloat neg ip fp))) falsy_texts) eqn:Ex; [|reflexivity].
      apply falsy_In in Ex. cbn [jtext] in Ex.
      assert (Hdot : In c_dot ((if neg then [c_minus] else @nil Z) ++ digits ip ++ c_dot :: fp)).
      { apply in_or_app. right. apply in_or_app. right. now left. }
      assert (Hnz : forall neg' : bool, (if neg then [c_minus] else @nil Z) ++ digits ip ++ c_dot :: fp
                                 = (if neg' then [c_minus] else @nil Z) ++ [48; c_dot; 48] -> False).
      { intros neg' E. assert (neg' = neg) as ->.
        { destruct neg, neg'; try reflexivity; cbn [app] in E.
          - unfold c_minus in E. discriminate E.
          - destruct (digits_head ip Hip) as [d0 [r0 [Hd0 Hd1]]]. rewrite Hd0 in E. cbn [app] in E. unfold c_minus in E. inversion E. subst d0. discriminate Hd1. }
        destruct (float_text_zero neg ip fp Hip E) as [-> ->]. cbn in Ezero. discriminate. }
      falsy_cases Ex;
        first [ (exfalso; apply (Hnz false); rewrite <- Ex; reflexivity) | (exfalso; apply (Hnz true); rewrite <- Ex; reflexivity)
              | (exfalso; rewrite <- Ex in Hdot; cbn in Hdot; unfold c_dot, c_quote, c_lbr, c_rbr, c_lbrace, c_rbrace in Hdot; intuition discriminate) ].
  - (* str *)
    destruct s as [|c s].
    + reflexivity.
    + apply negb_true_iff. destruct (existsb (str_eqb (jtext (JStr (c :: s)))) falsy_texts) eqn:Ex; [|reflexivity].
      apply falsy_In in Ex. cbn [jtext] in Ex. falsy_cases Ex; try discriminate Ex.
      inversion Ex as [H]. symmetry in H. apply (app_inv_tail [c_quote] (esc_json (c :: s)) []) in H.
      apply esc_json_nil in H. discriminate.
  - (* list *)
    destruct l as [|x l].
    + reflexivity.
    + apply negb_true_iff. destruct (existsb (str_eqb (jtext (JList (x :: l)))) falsy_texts) eqn:Ex; [|reflexivity].
      apply falsy_In in Ex. cbn [jtext map] in Ex. falsy_cases Ex; try discriminate Ex.
      inversion Ex as [H]. symmetry in H. apply (app_inv_tail [c_rbr] (join_with c_comma (jtext x :: map jtext l)) []) in H.
      apply join_nonempty in H; [contradiction | apply jtext_nonempty].
  - (* dict *)
    destruct d as [|[k x] d].
    + reflexivity.
    + apply negb_true_iff. destruct (existsb (str_eqb (jtext (JDict ((k, x) :: d)))) falsy_texts) eqn:Ex; [|reflexivity].
      apply falsy_In in Ex. cbn [jtext] in Ex.
      match type of Ex with In (_ :: ?b ++ _) _ => set (body := b) in Ex end.
      assert (Hb : body <> []) by (subst body; cbn [map]; apply join_nonempty; discriminate).
      clearbody body. falsy_cases Ex; try discriminate Ex.
      inversion Ex as [H]. symmetry in H. apply (app_inv_tail [c_rbrace] body []) in H. contradiction.
Qed.

(* ------------------------------------------------------------------ arrays *)
Lemma index_forms p len v : 0 <= p <= 1 -> index_const p len v = index_expr p len v.
Proof. intros Hp. unfold index_const, index_expr. destruct (v >=? 0) eqn:E; lia. Qed.

Section Arr.
Context {A : Type}.
Implicit Types l : list A.

Lemma sqlite_index_ok l v : sqlite_array_index l v = arr_get l v.
Proof. reflexivity. Qed.

Lemma sqlite_slice_ok l a b : sqlite_array_slice l a b = py_slice l a b.
Proof. unfold sqlite_array_slice, index_sqlite. destruct a, b; reflexivity. Qed.

(* PostgreSQL subscripts (documented semantics): right for every index and every pair of bounds *)
Lemma pg_index_ok l v : pg_array_index l v = arr_get l v.
Proof.
  unfold pg_array_index, pg_subscript, arr_get, index_const. pose proof (zlen_nonneg l) as Hn.
  set (n := zlen l) in *. destruct (v >=? 0) eqn:E.
  - destruct ((v <? - n) || (n <=? v)) eqn:E1.
    + replace ((v + 1 <? 1) || (n <? v + 1)) with true by lia. reflexivity.
    + replace ((v + 1 <? 1) || (n <? v + 1)) with false by lia. replace (v <? 0) with false by lia. f_equal. lia.
  - replace (Z.abs (v + 1)) with (- (v + 1)) by lia.
    destruct ((v <? - n) || (n <=? v)) eqn:E1.
    + replace ((n - - (v + 1) <? 1) || (n <? n - - (v + 1))) with true by lia. reflexivity.
    + replace ((n - - (v + 1) <? 1) || (n <? n - - (v + 1))) with false by lia. replace (v <? 0) with true by lia. f_equal. lia.
Qed.

Lemma pg_slice_ok l a b : pg_array_slice l a b = py_slice l a b.
Proof.
  unfold pg_array_slice, pg_slice, py_slice, adjust, index_const. pose proof (zlen_nonneg l) as Hn.
  destruct a as [a|], b as [b|]; cbn [option_map];
    repeat match goal with |- context [if ?c then _ else _] => destruct c eqn:? end; seg_lia.
Qed.
End Arr.

(* ------------------------------------------------------------------ witnesses of the recorded findings *)
Definition k_xy : str := [120; c_quote; 121].     (* x DQ y *)
Lemma quote_key_breaks : parse_path ascii_only (json_path ascii_only [KKey k_xy]) <> Some [KKey k_xy].
Proof. vm_compute. discriminate. Qed.

(* a float zero spelled 0.00 (never written by json.dumps) is still truthy in SQL: the reason for the hypothesis of nonzero_truthy *)
Lemma odd_zero_float_truthy : json_nonzero (JFloat false 0 [48; 48]) = true /\ py_truthy (JFloat false 0 [48; 48]) = false.
Proof. split; reflexivity. Qed.

Lemma pg_nonzero_truthy v : pg_json_nonzero v = py_truthy v.
Proof. destruct v as [|b|z|neg ip fp|s|l|d]; cbn; try reflexivity; [now destruct b | now destruct s | now destruct l | now destruct d]. Qed.

Lemma len_dict_wrong : json_array_length (JDict [([112], JInt 1); ([113], JInt 2)]) = 0
                    /\ py_len (JDict [([112], JInt 1); ([113], JInt 2)]) = Some 2.
Proof. split; reflexivity. Qed.
Lemma len_str_wrong : json_array_length (JStr [115; 116; 114]) = 0 /\ py_len (JStr [115; 116; 114]) = Some 3.
Proof. split; reflexivity. Qed.

(* ------------------------------------------------------------------ == with a constant *)
Lemma eq_int_on_ints z c : json_eq_int (JInt z) c = py_eq_int (JInt z) c.
Proof. reflexivity. Qed.
Lemma eq_int_on_bools b c : json_eq_int (JBool b) c = py_eq_int (JBool b) c.
Proof. reflexivity. Qed.
Lemma eq_str_on_strs t s : json_eq_str (JStr t) s = py_eq_str (JStr t) s.
Proof. reflexivity. Qed.
Lemma eq_int_null c : json_eq_int JNull c = py_eq_int JNull c.
Proof. reflexivity. Qed.

Lemma eq_int_wrong_str : json_eq_int (JStr [115; 116; 114]) 0 = true /\ py_eq_int (JStr [115; 116; 114]) 0 = false.
Proof. split; reflexivity. Qed.
Lemma eq_int_wrong_list : json_eq_int (JList [JInt 7]) 0 = true /\ py_eq_int (JList [JInt 7]) 0 = false.
Proof. split; reflexivity. Qed.
Lemma eq_str_wrong_int : json_eq_str (JInt 7) [55] = true /\ py_eq_str (JInt 7) [55] = false.
Proof. split; reflexivity. Qed.

(* ------------------------------------------------------------------ the bind-parameter key of a parameterised JSON path determines the path *)
Lemma paramkey_item_inj a b : paramkey_item a = paramkey_item b -> a = b.
Proof. destruct a, b; cbn; intros H; inversion H; reflexivity. Qed.

Lemma paramkey_sound p : forall q, paramkey p = paramkey q -> p = q.
Proof.
  unfold paramkey. induction p as [|a p IH]; intros [|b q] H; cbn in H; try discriminate; [reflexivity|].
  inversion H as [[Ha Hp]]. f_equal; [now apply paramkey_item_inj | now apply IH].
Qed.

Lemma paramkey_same_path p q : paramkey p = paramkey q -> forall env, resolve env p = resolve env q.
Proof. intros H env. now rewrite (paramkey_sound p q H). Qed.

(* a key that forgets the constant steps is not sound: two paths differing in a literal step would share one parameter *)
Definition forgetful_key (items : list jitem) : list kitem :=
  map (fun i => match i with IParam id => KP id | _ => KNone end) items.
Lemma forgetful_key_unsound :
  forgetful_key [IParam 0; ILit (KKey [108; 111])] = forgetful_key [IParam 0; ILit (KKey [104; 105])]
  /\ resolve (fun _ => KKey [107]) [IParam 0; ILit (KKey [108; 111])] <> resolve (fun _ => KKey [107]) [IParam 0; ILit (KKey [104; 105])].
Proof. split; [reflexivity | discriminate]. Qed.

(* 5 < 12 between two JSON items is false: the texts "5" and "12" are compared *)
Lemma items_ordered_as_text : json_items_lt (JInt 5) (JInt 12) = false /\ json_items_lt (JInt 12) (JInt 5) = true.
Proof. split; reflexivity. Qed.

(* ------------------------------------------------------------------ e.j[p] == e.j[q] between two JSON items compares their JSON texts: right for ints *)
Lemma fmt_d_inj a b : fmt_d a = fmt_d b -> a = b.
Proof.
  unfold fmt_d. destruct (a <? 0) eqn:Ea, (b <? 0) eqn:Eb; intros H.
  - inversion H as [H1]. destruct (digits_ok (- a)) as [Ha _]; [lia|]. destruct (digits_ok (- b)) as [Hb _]; [lia|]. rewrite H1 in Ha. lia.
  - destruct (digits_head b) as [d [r [Hd Hdig]]]; [lia|]. rewrite Hd in H. inversion H. subst d. discriminate Hdig.
  - destruct (digits_head a) as [d [r [Hd Hdig]]]; [lia|]. rewrite Hd in H. inversion H. subst d. discriminate Hdig.
  - destruct (digits_ok a) as [Ha _]; [lia|]. destruct (digits_ok b) as [Hb _]; [lia|]. rewrite H in Ha. lia.
Qed.

Definition json_items_eq (a b : jv) : bool := str_eqb (jtext a) (jtext b).

Lemma items_eq_ints a b : json_items_eq (JInt a) (JInt b) = (a =? b).
Proof.
  unfold json_items_eq. cbn [jtext]. apply Bool.eq_iff_eq_true. rewrite str_eqb_eq, Z.eqb_eq. split; [apply fmt_d_inj | now intros ->].
Qed.

(* ------------------------------------------------------------------ PostgreSQL: the text[] literal PGSQLBuilder.eval_json_path writes is read back by the
   documented array-literal syntax as the texts of the path steps *)
Section PgPath.
Variable uw : Z -> bool.

Definition pg_key_ok (k : pkey) : bool :=
  match k with
  | KIdx _ => true
  | KKey s => forallb (fun c => negb (c =? c_bslash)) s && (negb (is_ident uw s) || negb (is_null_word s))
  end.

Lemma pg_quoted_esc s rest : forallb (fun c => negb (c =? c_bslash)) s = true ->
  pg_quoted (esc_quote s ++ c_quote :: rest) = Some (s, rest).
Proof.
  induction s as [|c s IH]; intros H.
  - cbn. reflexivity.
  - cbn [forallb] in H. apply andb_true_iff in H as [Hc Hs]. apply negb_true_iff in Hc.
    cbn [esc_quote flat_map]. fold (esc_quote s). destruct (c =? c_quote) eqn:Eq.
    + apply Z.eqb_eq in Eq. subst c. cbn [app pg_quoted].
      replace (c_bslash =? c_quote) with false by reflexivity. replace (c_bslash =? c_bslash) with true by reflexivity.
      now rewrite (IH Hs).
    + cbn [app pg_quoted]. rewrite Eq, Hc. now rewrite (IH Hs).
Qed.

Definition after_fn (f : nat) (e : pgelem) (rest : str) : option (list pgelem) :=
  match rest with
  | c :: r => if c =? c_comma then match pg_elems f r with Some es => Some (e :: es) | None => None end
              else if c =? c_rbrace then match r with [] => Some [e] | _ => None end
              else None
  | [] => None
  end.

Definition stops (tail : str) : Prop := exists r, tail = c_comma :: r \/ tail = c_rbrace :: r.

Lemma span_plain w tail : forallb pg_plain w = true -> stops tail -> span pg_plain (w ++ tail) = (w, tail).
Proof. intros Hw [r [->| ->]]; apply span_app; auto. Qed.

Lemma word_plain c : is_word uw c = true -> pg_plain c = true.
Proof.
  unfold is_word, pg_plain, is_alpha, is_digit, c_us, c_comma, c_rbrace, c_lbrace, c_quote, c_bslash.
  destruct (c <? 128) eqn:E; intros H; lia.
Qed.

Lemma digit_plain c : is_digit c = true -> pg_plain c = true.
Proof. unfold is_digit, pg_plain, c_comma, c_rbrace, c_lbrace, c_quote, c_bslash. lia. Qed.

Lemma forallb_impl (p q : Z -> bool) l : (forall c, p c = true -> q c = true) -> forallb p l = true -> forallb q l = true.
Proof. intros H. induction l as [|c l IH]; cbn; [auto|]. intros Hl. apply andb_true_iff in Hl as [H1 H2]. now rewrite (H c H1), IH. Qed.

Lemma fmt_d_plain i : forallb pg_plain (fmt_d i) = true /\ fmt_d i <> [] /\ is_null_word (fmt_d i) = false
                      /\ exists c r, fmt_d i = c :: r /\ (c =? c_quote) = false.
Proof.
  unfold fmt_d. destruct (i <? 0) eqn:E.
  - destruct (digits_ok (- i)) as [_ [H2 H3]]; [lia|]. split; [|split; [|split]].
    + cbn [forallb]. rewrite (forallb_impl is_digit pg_plain _ digit_plain H2). reflexivity.
    + discriminate.
    + reflexivity.
    + exists c_minus, (digits (- i)). split; reflexivity.
  - destruct (digits_ok i) as [_ [H2 H3]]; [lia|]. destruct (digits i) as [|d r] eqn:Ed; [congruence|].
    assert (Hd : is_digit d = true) by (cbn in H2; now apply andb_true_iff in H2 as [H _]).
    split; [|split; [|split]].
    + now apply (forallb_impl is_digit pg_plain _ digit_plain).
    + discriminate.
    + unfold is_null_word, t_null. cbn [map str_eqb]. unfold lower, is_digit in *. replace ((65 <=? d) && (d <=? 90)) with false by lia.
      replace (d =? 110) with false by lia. reflexivity.
    + exists d, r. split; [reflexivity|]. unfold is_digit, c_quote in *. lia.
Qed.

Lemma pg_item_step k tail f : pg_key_ok k = true -> stops tail ->
  pg_elems (S f) (pg_item uw k ++ tail) = after_fn f (PText (pg_key_text k)) tail.
Proof.
  intros Hk Ht. destruct k as [i|s]; cbn [pg_item pg_key_text].
  - destruct (fmt_d_plain i) as [Hp [Hne [Hnull [c [r [Hc Hq]]]]]].
    cbn [pg_elems]. rewrite Hc. cbn [app]. rewrite Hq. rewrite <- Hc. change (c :: r ++ tail) with ((c :: r) ++ tail). rewrite <- Hc.
    rewrite (span_plain _ _ Hp Ht). rewrite Hc at 1. rewrite Hnull. reflexivity.
  - cbn [pg_key_ok] in Hk. apply andb_true_iff in Hk as [Hb Hn].
    destruct (is_ident uw s) eqn:Eid.
    + destruct (ident_word uw s Eid) as [Hw Hne]. cbn [negb orb] in Hn. apply negb_true_iff in Hn.
      destruct s as [|c r]; [congruence|].
      assert (Hq : (c =? c_quote) = false).
      { cbn in Eid. apply andb_true_iff in Eid as [Hc _]. unfold is_alpha, c_us, c_quote in *. lia. }
      cbn [pg_elems app]. rewrite Hq. change (c :: r ++ tail) with ((c :: r) ++ tail).
      rewrite (span_plain _ _ (forallb_impl _ _ _ word_plain Hw) Ht). now rewrite Hn.
    + cbn [pg_elems app]. replace (c_quote =? c_quote) with true by reflexivity.
      rewrite <- app_assoc. cbn [app]. now rewrite (pg_quoted_esc s tail Hb).
Qed.

Lemma pg_item_len k : (1 <= length (pg_item uw k))%nat.
Proof.
  destruct k as [i|s]; cbn [pg_item].
  - destruct (fmt_d_plain i) as [_ [_ [_ [c [r [Hc _]]]]]]. rewrite Hc. cbn. lia.
  - destruct (is_ident uw s) eqn:E; [destruct (ident_word uw s E) as [_ Hne]; destruct s; [congruence | cbn; lia] | cbn; lia].
Qed.

Lemma pg_elems_ok : forall keys k fuel, forallb pg_key_ok (k :: keys) = true ->
  (length (join_comma (map (pg_item uw) (k :: keys)) ++ [c_rbrace]) <= fuel)%nat ->
  pg_elems fuel (join_comma (map (pg_item uw) (k :: keys)) ++ [c_rbrace]) = Some (map (fun x => PText (pg_key_text x)) (k :: keys)).
Proof.
  induction keys as [|k2 keys IH]; intros k fuel Hok Hlen.
  - cbn [map join_comma] in *. cbn [forallb] in Hok. rewrite andb_true_r in Hok.
    destruct fuel as [|f]; [rewrite app_length in Hlen; cbn in Hlen; lia|].
    rewrite (pg_item_step k [c_rbrace] f Hok); [|exists []; now right]. reflexivity.
  - cbn [forallb] in Hok. apply andb_true_iff in Hok as [Hk Hrest].
    change (join_comma (map (pg_item uw) (k :: k2 :: keys))) with (pg_item uw k ++ c_comma :: join_comma (map (pg_item uw) (k2 :: keys))) in *.
    rewrite <- app_assoc in *. cbn [app] in *. pose proof (pg_item_len k) as Hl.
    destruct fuel as [|f]; [rewrite app_length in Hlen; cbn in Hlen; lia|].
    rewrite (pg_item_step k _ f Hk); [|eexists; left; reflexivity].
    cbn [after_fn]. replace (c_comma =? c_comma) with true by reflexivity.
    rewrite (IH k2 f Hrest); [reflexivity|]. rewrite app_length in Hlen. cbn [length] in Hlen. lia.
Qed.

(* C29_pg_path *)
Lemma pg_path_roundtrip keys : forallb pg_key_ok keys = true ->
  pg_array (pg_json_path uw keys) = Some (map (fun k => PText (pg_key_text k)) keys).
Proof.
  intros Hok. unfold pg_json_path, pg_array. replace (c_lbrace =? c_lbrace) with true by reflexivity.
  destruct keys as [|k keys]; [reflexivity|].
  remember (join_comma (map (pg_item uw) (k :: keys)) ++ [c_rbrace]) as body eqn:Eb0.
  assert (Hb : pg_elems (length body) body = Some (map (fun x => PText (pg_key_text x)) (k :: keys))).
  { rewrite Eb0. apply pg_elems_ok; [assumption | apply Nat.le_refl]. }
  assert (Hj : (1 <= length (join_comma (map (pg_item uw) (k :: keys))))%nat).
  { pose proof (pg_item_len k) as Hl. cbn [map join_comma]. destruct (map (pg_item uw) keys); [assumption | rewrite app_length; lia]. }
  assert (Hlen : (2 <= length body)%nat) by (rewrite Eb0, app_length; cbn [length]; lia).
  destruct body as [|c [|c2 r]]; cbn [length] in Hlen; try lia. exact Hb.
Qed.
End PgPath.

(* witnesses for the PostgreSQL path text (documentation model) *)
Lemma pg_null_key_unquoted : pg_array (pg_json_path ascii_only [KKey t_null]) = Some [PNull].
Proof. reflexivity. Qed.
Lemma pg_backslash_key : pg_array (pg_json_path ascii_only [KKey [97; c_bslash; 98]]) = Some [PText [97; 98]].
Proof. reflexivity. Qed.
