(* C04 - finite facts about the parenthesisation tables: the rule scanned from the code (Gen/Priority.v, regenerated on every
   run) covers the grammar's rule (Model/C04Expr.v) on every triple outside the known list (Model/C04Known.v), and that
   list is exact.  All by vm_compute over the explicit enumerations, lifted with forallb_forall. *)
From Coq Require Import List Bool Arith Lia.
Import ListNotations.
Require Import PonyV.Model.C04Expr PonyV.Model.C04Known PonyV.Gen.Priority PonyV.Proofs.C04Kinds.

(* the code's rule covers the grammar's rule outside the known list *)
Lemma table_except_known : forall p i c, ref_needs p i c = true -> known_bad p i c = false -> pony_needs p i c = true.
Proof.
  intros p i c Hr Hk.
  assert (T : table_ok (fun p i c => implb (ref_needs p i c && negb (known_bad p i c)) (pony_needs p i c)) = true) by (vm_compute; reflexivity).
  pose proof (table_ok_spec _ T p i c (ref_needs_pos _ _ _ Hr)) as H. cbv beta in H.
  rewrite Hr, Hk in H. simpl in H. exact H.
Qed.

Lemma triple_eqb_eq : forall a b, triple_eqb a b = true -> a = b.
Proof.
  intros [[p1 i1] c1] [[p2 i2] c2] H. unfold triple_eqb in H.
  apply andb_prop in H. destruct H as [H H3]. apply andb_prop in H. destruct H as [H1 H2].
  apply kind_eqb_eq in H1. apply kind_eqb_eq in H3. apply Nat.eqb_eq in H2. subst. reflexivity.
Qed.

(* every listed triple is a real gap: the grammar requires parentheses, the code does not produce them *)
Lemma known_exact : forall p i c, known_bad p i c = true -> ref_needs p i c = true /\ pony_needs p i c = false.
Proof.
  intros p i c H. unfold known_bad in H. apply existsb_exists in H. destruct H as [t [Hin Ht]].
  apply triple_eqb_eq in Ht. subst t.
  assert (T : forallb (fun t => let '(p, i, c) := t in ref_needs p i c && negb (pony_needs p i c)) known_bad_list = true) by (vm_compute; reflexivity).
  rewrite forallb_forall in T. specialize (T _ Hin). cbv beta iota in T.
  apply andb_prop in T. destruct T as [T1 T2]. apply negb_true_iff in T2. split; assumption.
Qed.

(* the code never parenthesises an item (starred argument, keyword, slice, replacement field): a parenthesised `*a` would not be Python *)
Lemma items_never_wrapped : forall p i c, expr_kindb c = false -> pony_needs p i c = false.
Proof.
  intros p i c H.
  assert (E : pony_needs p i c = pony_needs p 0 c) by reflexivity. rewrite E.
  assert (T : table_ok (fun p _ c => expr_kindb c || negb (pony_needs p 0 c)) = true) by (vm_compute; reflexivity).
  pose proof (table_ok_spec _ T p 0 c) as H0. cbv beta in H0.
  rewrite H in H0. simpl in H0. apply negb_true_iff. apply H0. simpl. auto.
Qed.

(* nothing is vacuous: some triples need parentheses and get them, some are gaps *)
Example table_nonvacuous :
  ref_needs KSub 1 KAdd = true /\ pony_needs KSub 1 KAdd = true /\ known_bad KSub 1 KAdd = false /\
  ref_needs KPow 0 KUSub = true /\ pony_needs KPow 0 KUSub = true /\
  ref_needs KAttribute 0 KAdd = true /\ pony_needs KAttribute 0 KAdd = false /\ known_bad KAttribute 0 KAdd = true /\
  length known_bad_list = 139.
Proof. vm_compute. repeat split; reflexivity. Qed.
