(* C04 - finite facts about the parenthesisation tables: the rule scanned from the code (Gen/Priority.v, regenerated on every
   run) covers the grammar's rule (Model/C04Expr.v) on every (parent, position, child) triple, and never parenthesises an item
   where one may stand.  By vm_compute over the explicit enumerations, lifted with forallb_forall. *)
From Coq Require Import List Bool Arith Lia.
Import ListNotations.
Require Import PonyV.Model.C04Expr PonyV.Gen.Priority PonyV.Proofs.C04Kinds.

(* wherever Python's grammar requires parentheses around a child, the code's rule produces them *)
Lemma table_covers : forall p i c, ref_needs p i c = true -> pony_needs p i c = true.
Proof.
  intros p i c Hr.
  assert (T : table_ok (fun p i c => implb (ref_needs p i c) (pony_needs p i c)) = true) by (vm_compute; reflexivity).
  pose proof (table_ok_spec _ T p i c (ref_needs_pos _ _ _ Hr)) as H. cbv beta in H. rewrite Hr in H. exact H.
Qed.

(* the code never parenthesises an item (starred argument, keyword, slice, replacement field) in a position where one may stand:
   a parenthesised `*a` would not be Python *)
Lemma items_never_wrapped : forall p i c, allowed p i c = true -> expr_kindb c = false -> pony_needs p i c = false.
Proof.
  intros p i c Ha H.
  assert (T : table_ok (fun p i c => implb (allowed p i c && negb (expr_kindb c)) (negb (pony_needs p i c))) = true) by (vm_compute; reflexivity).
  pose proof (table_ok_spec _ T p i c (allowed_pos _ _ _ Ha)) as H0. cbv beta in H0.
  rewrite Ha, H in H0. simpl in H0. apply negb_true_iff. exact H0.
Qed.

(* nothing is vacuous: triples that need parentheses (and get them), triples that do not *)
Example table_nonvacuous :
  ref_needs KSub 1 KAdd = true /\ pony_needs KSub 1 KAdd = true /\
  ref_needs KPow 0 KPow = true /\ pony_needs KPow 0 KPow = true /\
  ref_needs KPow 0 KUSub = true /\ ref_needs KPow 0 KNegConst = true /\
  ref_needs KAttribute 0 KAdd = true /\ pony_needs KAttribute 0 KAdd = true /\
  ref_needs KAdd 1 KIfExp = true /\ ref_needs KCall 0 KLambda = true /\ ref_needs KStarElt 0 KOr = true /\
  ref_needs KAdd 0 KMult = false /\ ref_needs KCall 1 KLambda = false /\
  length (filter (fun t => let '(p, i, c) := t in ref_needs p i c)
            (flat_map (fun p => flat_map (fun i => map (fun c => (p, i, c)) all_kinds) all_pos) all_kinds)) = 436.
Proof. vm_compute. repeat split; reflexivity. Qed.
