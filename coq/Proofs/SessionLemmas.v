(* Base lemmas for the session model: decidable equalities, list updates, set-like lists, association lists. *)
Require Import PonyV.Model.SessionBase.
From Coq Require Import Arith.

Lemma lz_eqb_eq : forall a b, lz_eqb a b = true <-> a = b.
Proof.
  induction a as [|x a IH]; destruct b as [|y b]; simpl; split; intro H; try congruence; try reflexivity.
  - apply andb_true_iff in H. destruct H as [H1 H2]. apply Z.eqb_eq in H1. apply IH in H2. congruence.
  - inversion H; subst. apply andb_true_iff. split. apply Z.eqb_refl. apply IH. reflexivity.
Qed.

Lemma val_eqb_eq : forall a b, val_eqb a b = true <-> a = b.
Proof.
  destruct a, b; simpl; split; intro H; try congruence; try reflexivity.
  - apply Z.eqb_eq in H. congruence.
  - inversion H. apply Z.eqb_refl.
  - apply lz_eqb_eq in H. congruence.
  - inversion H. apply lz_eqb_eq. reflexivity.
  - apply Nat.eqb_eq in H. congruence.
  - inversion H. apply Nat.eqb_refl.
Qed.

Lemma val_eqb_refl : forall a, val_eqb a a = true.
Proof. intro a. apply val_eqb_eq. reflexivity. Qed.

Lemma val_eqb_neq : forall a b, val_eqb a b = false <-> a <> b.
Proof.
  intros a b. split; intro H.
  - intro E. apply val_eqb_eq in E. congruence.
  - destruct (val_eqb a b) eqn:E; auto. apply val_eqb_eq in E. contradiction.
Qed.

Lemma oval_eqb_eq : forall a b, oval_eqb a b = true <-> a = b.
Proof.
  destruct a, b; simpl; split; intro H; try congruence; try reflexivity.
  - apply val_eqb_eq in H. congruence.
  - inversion H. apply val_eqb_refl.
Qed.

(* ---------------------------------------------------------------- upd_nth *)

Lemma upd_nth_length : forall A (l : list A) i x, length (upd_nth l i x) = length l.
Proof. induction l; destruct i; simpl; intros; auto. Qed.

Lemma nth_error_upd_nth_same : forall A (l : list A) i x, (i < length l)%nat -> nth_error (upd_nth l i x) i = Some x.
Proof. induction l; destruct i; simpl; intros; try lia; auto. apply IHl. lia. Qed.

Lemma nth_error_upd_nth_other : forall A (l : list A) i j x, i <> j -> nth_error (upd_nth l i x) j = nth_error l j.
Proof. induction l; destruct i, j; simpl; intros; try congruence; auto. Qed.

Lemma nth_error_upd_nth : forall A (l : list A) i j x,
  nth_error (upd_nth l i x) j = if Nat.eqb i j then (match nth_error l j with Some _ => Some x | None => None end) else nth_error l j.
Proof.
  intros. destruct (Nat.eqb i j) eqn:E.
  - apply Nat.eqb_eq in E. subst. destruct (nth_error l j) eqn:N.
    + apply nth_error_upd_nth_same. apply nth_error_Some. congruence.
    + apply nth_error_None. rewrite upd_nth_length. apply nth_error_None. assumption.
  - apply Nat.eqb_neq in E. apply nth_error_upd_nth_other. assumption.
Qed.

Lemma nth_upd_nth_same : forall A (l : list A) i x d, (i < length l)%nat -> nth i (upd_nth l i x) d = x.
Proof. induction l; destruct i; simpl; intros; try lia; auto. apply IHl. lia. Qed.

Lemma nth_upd_nth_other : forall A (l : list A) i j x d, i <> j -> nth j (upd_nth l i x) d = nth j l d.
Proof. induction l; destruct i, j; simpl; intros; try congruence; auto. Qed.

Lemma upd_nth_overflow : forall A (l : list A) i x, (length l <= i)%nat -> upd_nth l i x = l.
Proof. induction l; destruct i; simpl; intros; auto; try lia. f_equal. apply IHl. lia. Qed.

Lemma nth_error_app_new : forall A (l : list A) x, nth_error (l ++ [x]) (length l) = Some x.
Proof. induction l; simpl; auto. Qed.

Lemma nth_error_app_old : forall A (l : list A) x i, (i < length l)%nat -> nth_error (l ++ [x]) i = nth_error l i.
Proof. intros. apply nth_error_app1. assumption. Qed.

(* ---------------------------------------------------------------- set-like lists of nat *)

Lemma mem_nat_In : forall x l, mem_nat x l = true <-> In x l.
Proof.
  induction l as [|y l IH]; simpl; split; intro H; try discriminate; try contradiction.
  - apply orb_true_iff in H. destruct H as [H|H]. left. apply Nat.eqb_eq in H. auto. right. apply IH. auto.
  - apply orb_true_iff. destruct H as [H|H]. left. subst. apply Nat.eqb_refl. right. apply IH. auto.
Qed.

Lemma mem_nat_false : forall x l, mem_nat x l = false <-> ~ In x l.
Proof.
  intros. split; intro H.
  - intro I. apply mem_nat_In in I. congruence.
  - destruct (mem_nat x l) eqn:E; auto. apply mem_nat_In in E. contradiction.
Qed.

Lemma In_remove_nat : forall x y l, In y (remove_nat x l) <-> In y l /\ y <> x.
Proof.
  intros. unfold remove_nat. rewrite filter_In. split; intros [H1 H2]; split; auto.
  - intro E. subst. rewrite Nat.eqb_refl in H2. discriminate.
  - apply negb_true_iff. apply Nat.eqb_neq. auto.
Qed.

Lemma In_add_nat : forall x y l, In y (add_nat x l) <-> y = x \/ In y l.
Proof.
  intros. unfold add_nat. destruct (mem_nat x l) eqn:E.
  - apply mem_nat_In in E. split; intro H; auto. destruct H; subst; auto.
  - rewrite in_app_iff. simpl. split; intro H.
    + destruct H as [H|[H|[]]]; auto.
    + destruct H; auto.
Qed.

Lemma In_union_nat : forall m l y, In y (union_nat l m) <-> In y l \/ In y m.
Proof.
  unfold union_nat. induction m as [|x m IH]; simpl; intros.
  - tauto.
  - rewrite IH. rewrite In_add_nat. split; intro H.
    + destruct H as [[H|H]|H]; auto.
    + destruct H as [H|[H|H]]; auto.
Qed.

Lemma In_diff_nat : forall l m y, In y (diff_nat l m) <-> In y l /\ ~ In y m.
Proof.
  intros. unfold diff_nat. rewrite filter_In. rewrite negb_true_iff. rewrite mem_nat_false. tauto.
Qed.

Lemma In_inter_nat : forall l m y, In y (inter_nat l m) <-> In y l /\ In y m.
Proof. intros. unfold inter_nat. rewrite filter_In. rewrite mem_nat_In. tauto. Qed.

Lemma subset_nat_spec : forall l m, subset_nat l m = true <-> (forall x, In x l -> In x m).
Proof.
  intros. unfold subset_nat. rewrite forallb_forall. split; intros H x I.
  - apply mem_nat_In. auto.
  - apply mem_nat_In. auto.
Qed.

Lemma seteq_nat_spec : forall l m, seteq_nat l m = true <-> (forall x, In x l <-> In x m).
Proof.
  intros. unfold seteq_nat. rewrite andb_true_iff. rewrite !subset_nat_spec. split.
  - intros [A B] x. split; auto.
  - intro H. split; intros x I; apply H; auto.
Qed.

Lemma existsb_ext_eq : forall A (f g : A -> bool) l, (forall x, f x = g x) -> existsb f l = existsb g l.
Proof. induction l; simpl; intros; auto. rewrite H, IHl; auto. Qed.

Lemma existsb_ext_eq_in : forall A (f g : A -> bool) l, (forall x, In x l -> f x = g x) -> existsb f l = existsb g l.
Proof. induction l; simpl; intros; auto. rewrite H, IHl; auto. Qed.

(* ---------------------------------------------------------------- association lists *)

Section AssocLemmas.
  Context {K V : Type} (keqb : K -> K -> bool).
  Hypothesis keqb_eq : forall a b, keqb a b = true <-> a = b.

  Lemma keqb_refl : forall a, keqb a a = true.
  Proof. intro. apply keqb_eq. reflexivity. Qed.

  Lemma aget_adel_same : forall k (l : list (K * V)), aget keqb k (adel keqb k l) = None.
  Proof.
    induction l as [|[k' v] l IH]; simpl; auto.
    destruct (keqb k' k) eqn:E; simpl; auto. rewrite E. auto.
  Qed.

  Lemma aget_adel_other : forall k k' (l : list (K * V)), k <> k' -> aget keqb k' (adel keqb k l) = aget keqb k' l.
  Proof.
    induction l as [|[k2 v] l IH]; simpl; intros N; auto.
    destruct (keqb k2 k) eqn:E; simpl.
    - apply keqb_eq in E. subst. destruct (keqb k k') eqn:E2. apply keqb_eq in E2. contradiction. auto.
    - destruct (keqb k2 k'); auto.
  Qed.

  Lemma aget_aset_same : forall k v (l : list (K * V)), aget keqb k (aset keqb k v l) = Some v.
  Proof. intros. unfold aset. simpl. rewrite keqb_refl. reflexivity. Qed.

  Lemma aget_aset_other : forall k k' v (l : list (K * V)), k <> k' -> aget keqb k' (aset keqb k v l) = aget keqb k' l.
  Proof.
    intros. unfold aset. simpl. destruct (keqb k k') eqn:E. apply keqb_eq in E. contradiction.
    apply aget_adel_other. assumption.
  Qed.
End AssocLemmas.
