(* C02 - GROUP BY with selected aggregates: two modelled dialects return stored forms of the same Python rows. *)
Require Import PonyV.Base.PyBase PonyV.Model.C01Expr PonyV.Model.C01Sql PonyV.Model.C01Translate PonyV.Model.C01Safe
               PonyV.Model.C01Eqb PonyV.Model.C01Query PonyV.Model.C01Aggr PonyV.Model.C01Group
               PonyV.Proofs.C01Rows PonyV.Proofs.C01Aggr PonyV.Proofs.C01Group.

Theorem agree_group_rows : forall d1 d2, modelled d1 = true -> modelled d2 = true ->
  forall table filt items q1 c1 q2 c2,
  filt_typed filt = true ->
  tr_where d1 filt = Some c1 -> tr_items d1 items = Some q1 ->
  tr_where d2 filt = Some c2 -> tr_items d2 items = Some q2 ->
  forallb (item_safe d1) items = true -> forallb (item_safe d2) items = true ->
  keys_ok (map (fun en => attr_val en 0%nat) table) = true ->
  Forall (fun en => grow_ok d1 filt items en /\ grow_ok d2 filt items en) table ->
  exists rows, sql_group_rows d1 q1 c1 table = map (map (enca d1)) rows /\ sql_group_rows d2 q2 c2 table = map (map (enca d2)) rows.
Proof.
  intros d1 d2 H1 H2 table filt items q1 c1 q2 c2 Tf W1 I1 W2 I2 S1 S2 K Hall. rewrite Forall_forall in Hall.
  exists (py_group_rows items filt table). split.
  - apply (group_sound d1 H1 table filt items q1 c1 Tf W1 I1 S1 K). apply Forall_forall. intros en Hin. exact (proj1 (Hall en Hin)).
  - apply (group_sound d2 H2 table filt items q2 c2 Tf W2 I2 S2 K). apply Forall_forall. intros en Hin. exact (proj2 (Hall en Hin)).
Qed.
