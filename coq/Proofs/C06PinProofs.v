(* C06 re-execution lemmas. *)
Require Import PonyV.Base.PyBase PonyV.Gen.C06Pin PonyV.Model.C06Pin.
From Coq Require Import ZifyBool.

Section Rerun.
Variable miss : option Z -> Z * option Z.
(* every value rendered inline is recorded, and a supplied integer is rendered as itself *)
Hypothesis Hpin : forall v, snd (miss v) = Some (fst (miss v)).
Hypothesis Hlit : forall x, fst (miss (Some x)) = x.

Definition cache_inv (c : tcache) : Prop := forall t lit pin, c t = Some (lit, pin) -> pin = Some lit.

Lemma upd_inv : forall c v, cache_inv c -> cache_inv (upd c (tag v) (miss v)).
Proof.
  intros c v H t lit pin. unfold upd. destruct (Bool.eqb t (tag v)); [|apply H].
  intro E. inversion E as [E']. destruct (miss v) as [l p] eqn:Em. inversion E'; subst.
  pose proof (Hpin v) as Hp. rewrite Em in Hp. exact Hp.
Qed.

Lemma run_fresh_gen : forall h c, cache_inv c -> run miss c h = map (fun v => fst (miss v)) h.
Proof.
  induction h as [|v h IH]; intros c Hc; [reflexivity|].
  cbn [run map]. unfold run1. destruct (c (tag v)) as [[lit pin]|] eqn:Ec.
  - pose proof (Hc _ _ _ Ec) as Hp. subst pin. cbn [still_valid]. destruct v as [x|].
    + destruct (x =? lit) eqn:E.
      * f_equal; [rewrite Hlit; lia | apply IH; exact Hc].
      * f_equal. apply IH. apply upd_inv. exact Hc.
    + f_equal. apply IH. apply upd_inv. exact Hc.
  - f_equal. apply IH. apply upd_inv. exact Hc.
Qed.

Lemma run_fresh : forall h, run miss tempty h = map (fun v => fst (miss v)) h.
Proof. intro h. apply run_fresh_gen. intros t lit pin E. discriminate E. Qed.
End Rerun.

(* the translated cache-miss paths record what they render *)
Lemma getitem_pins : forall is_start v, snd (getitem_miss is_start v) = Some (fst (getitem_miss is_start v)).
Proof. intros [|] [x|]; reflexivity. Qed.
Lemma getitem_lit : forall is_start x, fst (getitem_miss is_start (Some x)) = x.
Proof. intros [|] x; reflexivity. Qed.
Lemma getattr_pins : forall x, snd (getattr_miss x) = Some (fst (getattr_miss x)) /\ fst (getattr_miss x) = x.
Proof. intro x. split; reflexivity. Qed.

Lemma rerun_getitem : forall is_start h,
  run (getitem_miss is_start) tempty h = map (fun v => fst (getitem_miss is_start v)) h
  /\ forall x, fst (getitem_miss is_start (Some x)) = x.
Proof.
  intros is_start h. split; [|apply getitem_lit].
  apply run_fresh; [apply getitem_pins | apply getitem_lit].
Qed.

Definition getattr_as_miss (v : option Z) : Z * option Z := getattr_miss (match v with Some x => x | None => 0 end).

Lemma rerun_getattr : forall (h : list Z),
  run getattr_as_miss tempty (map Some h) = h.
Proof.
  intro h. rewrite run_fresh.
  - rewrite map_map. unfold getattr_as_miss. cbn. apply map_id.
  - intro v. apply getattr_pins.
  - intro x. apply getattr_pins.
Qed.

(* what goes wrong when a rendered value is not recorded: the second run re-uses the first run's literal *)
Lemma rerun_unpinned_refuted :
  run (fun v => (match v with Some x => x | None => 0 end, None)) tempty [Some 3; Some 5] = [3; 3].
Proof. reflexivity. Qed.
