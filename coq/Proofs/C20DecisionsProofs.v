From Coq Require Import Bool.
Require Import PonyV.Model.C20Decisions.

Lemma rowcount0_except_known ds : ds <> None -> rowcount0_outcome ds = rowcount0_spec ds.
Proof. destruct ds as [[|]|]; cbn; congruence. Qed.

Lemma rowcount0_interactive_refuted : rowcount0_outcome None <> rowcount0_spec None.
Proof. cbn. discriminate. Qed.
