From Coq Require Import Bool.
Require Import PonyV.Model.C20Decisions.

Lemma rowcount0_ok ds : rowcount0_outcome ds = rowcount0_spec ds.
Proof. destruct ds as [[|]|]; reflexivity. Qed.
