(* C06: quoting composes -- the token classes of a statement skeleton do not depend on the names and values plugged in. *)
Require Import PonyV.Base.PyBase PonyV.Model.C07Base PonyV.Proofs.C07Digits PonyV.Model.C06Str PonyV.Model.C06Lex PonyV.Model.C06Params
               PonyV.Gen.C06Quote PonyV.Model.C06Lit PonyV.Model.C06Tok PonyV.Proofs.C06StrLemmas.
From Coq Require Import ZifyBool.

Definition resumable (m : tmode) : Prop :=
  match m with MNone | MNum | MWord => True | MStrQ d => is_quote d = true | MStr _ => False end.

(* after a finished name / literal / number / word, a separator character is read as if between tokens *)
Lemma tok_resume : forall m t, resumable m -> sep_start t = true -> tok m t = tok MNone t.
Proof.
  intros m t Hm Hs. destruct t as [|c r]; [destruct m; try reflexivity; destruct Hm|].
  cbn [sep_start] in Hs. apply negb_true_iff in Hs. apply orb_false_iff in Hs. destruct Hs as [Hw Hq].
  destruct m; cbn [tok]; try reflexivity.
  - destruct Hm.
  - cbn [resumable] in Hm. assert (c =? d = false) as ->; [|reflexivity].
    unfold is_quote in *. lia.
  - assert (is_digit c = false) as ->; [|reflexivity]. unfold is_wchar in Hw. apply orb_false_iff in Hw. tauto.
  - rewrite Hw. reflexivity.
Qed.

Lemma tok_MStr : forall d c r, tok (MStr d) (c :: r) = if c =? d then tok (MStrQ d) r else tok (MStr d) r.
Proof. reflexivity. Qed.
Lemma tok_MNum : forall c r, is_digit c = true -> tok MNum (c :: r) = tok MNum r.
Proof. intros c r H. cbn [tok]. rewrite H. reflexivity. Qed.
Lemma tok_MWord : forall c r, is_wchar c = true -> tok MWord (c :: r) = tok MWord r.
Proof. intros c r H. cbn [tok]. rewrite H. reflexivity. Qed.
Lemma tok_MStrQ_same : forall d r, tok (MStrQ d) (d :: r) = tok (MStr d) r.
Proof. intros. cbn [tok]. rewrite Z.eqb_refl. reflexivity. Qed.

Lemma tok_quoted_body : forall d s t, tok (MStr d) (replace_all d [d; d] s ++ d :: t) = tok (MStrQ d) t.
Proof.
  intros d s t. induction s as [|x s IH].
  - cbn [replace_all flat_map app]. rewrite tok_MStr, Z.eqb_refl. reflexivity.
  - rewrite replace_all_cons. destruct (x =? d) eqn:E.
    + cbn [app]. rewrite tok_MStr, Z.eqb_refl, tok_MStrQ_same. exact IH.
    + cbn [app]. rewrite tok_MStr, E. exact IH.
Qed.

Lemma tok_digits : forall ds t, all_digits ds = true -> tok MNum (ds ++ t) = tok MNum t.
Proof.
  unfold all_digits. induction ds as [|x ds IH]; intros t H; [reflexivity|].
  cbn [forallb] in H. apply andb_true_iff in H. destruct H as [Hx Hd]. cbn [app]. rewrite tok_MNum by exact Hx. apply IH. exact Hd.
Qed.

Lemma tok_wchars : forall w t, forallb is_wchar w = true -> tok MWord (w ++ t) = tok MWord t.
Proof.
  induction w as [|x w IH]; intros t H; [reflexivity|].
  cbn [forallb] in H. apply andb_true_iff in H. destruct H as [Hx Hw]. cbn [app]. rewrite tok_MWord by exact Hx. apply IH. exact Hw.
Qed.

Lemma digit_start : forall c r, is_digit c = true -> tok MNone (c :: r) = TNum :: tok MNum r.
Proof.
  intros c r H. cbn [tok]. unfold is_digit in H.
  assert (is_space c = false) as -> by (unfold is_space; lia).
  assert (c =? 39 = false) as -> by lia. assert ((c =? 34) || (c =? 96) = false) as -> by lia.
  unfold is_digit. rewrite H. reflexivity.
Qed.

Lemma tok_nat : forall n t, sep_start t = true -> tok MNone (print_nat n ++ t) = TNum :: tok MNone t.
Proof.
  intros n t Ht. pose proof (print_nat_digits n) as Hd. pose proof (print_nat_nonempty n) as Hne.
  destruct (print_nat n) as [|c r]; [congruence|]. unfold all_digits in Hd. cbn [forallb] in Hd. apply andb_true_iff in Hd. destruct Hd as [Hc Hr].
  cbn [app]. rewrite digit_start by exact Hc. rewrite tok_digits by exact Hr. rewrite tok_resume; [reflexivity | exact I | exact Ht].
Qed.

Lemma digits_wchars : forall s, all_digits s = true -> forallb is_wchar s = true.
Proof.
  unfold all_digits. induction s as [|x s IH]; intro H; [reflexivity|]. cbn [forallb] in *. apply andb_true_iff in H. destruct H as [Hx Hs].
  rewrite (IH Hs). unfold is_wchar. rewrite Hx, orb_true_r. reflexivity.
Qed.

(* p<digits> is one word *)
Lemma tok_pnat : forall n t, sep_start t = true -> tok MNone (112 :: print_nat n ++ t) = TWord :: tok MNone t.
Proof.
  intros n t Ht. cbn [tok]. cbn. rewrite tok_wchars by (apply digits_wchars, print_nat_digits).
  rewrite tok_resume; [reflexivity | exact I | exact Ht].
Qed.

Lemma quote_str_std : forall st s, exists s', quote_str st s = 39 :: replace_all 39 [39; 39] s' ++ [39].
Proof.
  intros st s. unfold quote_str. destruct (style_in st [Format; Pyformat]); eexists; reflexivity.
Qed.

(* a slot followed by the end of the statement or by a separator *)
Lemma tok_slot : forall st q sl t, q = 34 \/ q = 96 -> sep_start t = true ->
  match sl with SPh id => 0 <= id | _ => True end ->
  tok MNone (slot_text st q sl ++ t) = slot_classes st sl ++ tok MNone t.
Proof.
  intros st q sl t Hq Ht Hid. destruct sl as [n|s|z|id]; cbn [slot_text slot_classes].
  - (* name *)
    assert (E : quote_name q n = q :: replace_all q [q; q] n ++ [q]) by reflexivity. rewrite E.
    cbn [app]. rewrite <- app_assoc. cbn [app].
    assert (Hs : tok MNone (q :: replace_all q [q; q] n ++ q :: t) = TIdent :: tok (MStr q) (replace_all q [q; q] n ++ q :: t))
      by (destruct Hq; subst q; reflexivity).
    rewrite Hs, tok_quoted_body, tok_resume; [reflexivity | destruct Hq; subst q; reflexivity | exact Ht].
  - (* string literal *)
    destruct (quote_str_std st s) as [s' E]. rewrite E. cbn [app]. rewrite <- app_assoc. cbn [app].
    change (tok MNone (39 :: replace_all 39 [39; 39] s' ++ 39 :: t)) with (TStr :: tok (MStr 39) (replace_all 39 [39; 39] s' ++ 39 :: t)).
    rewrite tok_quoted_body, tok_resume; [reflexivity | reflexivity | exact Ht].
  - (* integer *)
    unfold py_str_int. destruct (z <? 0).
    + cbn [app]. change (tok MNone (45 :: print_nat (- z) ++ t)) with (TPunct 45 :: tok MNone (print_nat (- z) ++ t)).
      rewrite tok_nat by exact Ht. reflexivity.
    + rewrite tok_nat by exact Ht. reflexivity.
  - (* placeholder *)
    unfold ph_text. destruct st; cbn [param_str style_eqb].
    + destruct t; reflexivity.
    + cbn [app]. change (tok MNone (37 :: 115 :: t)) with (TPunct 37 :: TWord :: tok MWord t).
      rewrite tok_resume; [reflexivity | exact I | exact Ht].
    + cbn [app]. change (tok MNone (58 :: print_nat id ++ t)) with (TPunct 58 :: tok MNone (print_nat id ++ t)).
      rewrite tok_nat by exact Ht. reflexivity.
    + cbn [app]. change (tok MNone (58 :: 112 :: print_nat id ++ t)) with (TPunct 58 :: tok MNone (112 :: print_nat id ++ t)).
      rewrite tok_pnat by exact Ht. reflexivity.
    + cbn [app]. rewrite <- app_assoc. cbn [app].
      change (tok MNone (37 :: 40 :: 112 :: print_nat id ++ 41 :: 115 :: t))
        with (TPunct 37 :: TPunct 40 :: tok MNone (112 :: print_nat id ++ 41 :: 115 :: t)).
      rewrite tok_pnat by reflexivity.
      change (tok MNone (41 :: 115 :: t)) with (TPunct 41 :: TWord :: tok MWord t).
      rewrite tok_resume; [reflexivity | exact I | exact Ht].
Qed.

(* every keyword text leaves the tokeniser between tokens *)
Lemma tok_kw : forall k rest, tok MNone (kw_text k ++ rest) = kw_classes k ++ tok MNone rest.
Proof. intros k rest. destruct k; reflexivity. Qed.

Lemma sep_start_app : forall a b, sep_mid a = true -> sep_start (a ++ b) = true.
Proof. intros a b H. destruct a as [|c a]; [discriminate H | exact H]. Qed.

Definition items_text (st : paramstyle) (q : Z) (l : list (kw * slot)) (fin : kw) : str :=
  flat_map (fun ks => kw_text (fst ks) ++ slot_text st q (snd ks)) l ++ kw_text fin.

Lemma items_sep : forall st q l fin, tail_ok l fin = true -> sep_start (items_text st q l fin) = true.
Proof.
  intros st q l fin H. unfold tail_ok in H. apply andb_true_iff in H. destruct H as [Hl Hf].
  destruct l as [|[k sl] l]; [exact Hf|]. cbn [forallb fst] in Hl. apply andb_true_iff in Hl. destruct Hl as [Hk _].
  unfold items_text. cbn [flat_map fst snd]. rewrite <- !app_assoc. apply sep_start_app. exact Hk.
Qed.

Lemma tok_items : forall st q l fin, q = 34 \/ q = 96 -> tail_ok l fin = true ->
  forallb (fun ks => match snd ks with SPh id => 0 <=? id | _ => true end) l = true ->
  tok MNone (items_text st q l fin) =
  flat_map (fun ks => kw_classes (fst ks) ++ slot_classes st (snd ks)) l ++ kw_classes fin.
Proof.
  intros st q l fin Hq. induction l as [|[k sl] l IH]; intros Hok Hids.
  - unfold items_text. cbn [flat_map app]. rewrite <- (app_nil_r (kw_text fin)), tok_kw. cbn [tok]. rewrite app_nil_r. reflexivity.
  - unfold tail_ok in Hok. cbn [forallb fst] in Hok. apply andb_true_iff in Hok. destruct Hok as [Hl Hf].
    apply andb_true_iff in Hl. destruct Hl as [_ Hl].
    assert (Hok' : tail_ok l fin = true) by (unfold tail_ok; rewrite Hl, Hf; reflexivity).
    cbn [forallb snd] in Hids. apply andb_true_iff in Hids. destruct Hids as [Hid Hids].
    unfold items_text. cbn [flat_map fst snd]. rewrite <- !app_assoc. fold (items_text st q l fin).
    rewrite tok_kw, tok_slot; [| exact Hq | apply items_sep; exact Hok' | destruct sl; try exact I; lia].
    rewrite (IH Hok' Hids). cbn [flat_map fst snd]. repeat rewrite <- app_assoc. reflexivity.
Qed.

(* MAIN: the token classes of a well-formed statement are those of its skeleton *)
Lemma tokenize_stmt : forall st q s, q = 34 \/ q = 96 -> stmt_ok s = true ->
  tokenize (stmt_text st q s) = stmt_classes st s.
Proof.
  intros st q [l fin] Hq Hok. unfold stmt_ok in Hok. cbn [fst snd] in Hok. apply andb_true_iff in Hok. destruct Hok as [Ht Hids].
  unfold tokenize, stmt_text, stmt_classes. cbn [fst snd].
  destruct l as [|[k sl] l].
  - cbn [flat_map app]. rewrite <- (app_nil_r (kw_text fin)), tok_kw. cbn [tok]. rewrite app_nil_r. reflexivity.
  - cbn [forallb snd] in Hids. apply andb_true_iff in Hids. destruct Hids as [Hid Hids].
    cbn [flat_map fst snd]. rewrite <- !app_assoc. fold (items_text st q l fin).
    rewrite tok_kw, tok_slot; [| exact Hq | apply items_sep; exact Ht | destruct sl; try exact I; lia].
    rewrite (tok_items st q l fin Hq Ht Hids). repeat rewrite <- app_assoc. reflexivity.
Qed.

Lemma slot_classes_shape : forall st a b, shape_of a = shape_of b -> slot_classes st a = slot_classes st b.
Proof.
  intros st a b H. destruct a, b; try discriminate H; try reflexivity.
  cbn [shape_of] in H. inversion H as [H1]. cbn [slot_classes]. rewrite H1. reflexivity.
Qed.

Lemma stmt_classes_shape : forall st s1 s2, stmt_shape s1 = stmt_shape s2 -> stmt_classes st s1 = stmt_classes st s2.
Proof.
  intros st [l1 f1] [l2 f2] H. unfold stmt_shape in H. cbn [fst snd] in H. inversion H as [[Hl Hf]]. subst f2.
  unfold stmt_classes. cbn [fst snd]. f_equal. clear H. revert l2 Hl.
  induction l1 as [|[k1 a] l1 IH]; intros [|[k2 b] l2] Hl; try discriminate Hl; [reflexivity|].
  cbn [map fst snd] in Hl. inversion Hl as [[Hk Hs Hr]]. subst k2. cbn [flat_map fst snd].
  rewrite (slot_classes_shape st a b Hs), (IH l2 Hr). reflexivity.
Qed.

(* NO STRUCTURE CHANGE: two statements with the same skeleton -- whatever names and values are plugged in -- have the same
   token-class sequence, under every paramstyle and both identifier quote characters *)
Lemma no_structure : forall st q s1 s2, q = 34 \/ q = 96 -> stmt_ok s1 = true -> stmt_ok s2 = true ->
  stmt_shape s1 = stmt_shape s2 -> tokenize (stmt_text st q s1) = tokenize (stmt_text st q s2).
Proof.
  intros st q s1 s2 Hq H1 H2 Hs. rewrite !tokenize_stmt by assumption. apply stmt_classes_shape. exact Hs.
Qed.

(* ------------------------------------------------------------------------------------------------ the builder's skeletons *)

Definition ids_ok (l : list slot) : bool := forallb (fun sl => match sl with SPh id => 0 <=? id | _ => true end) l.
Definition sepk (k : kw) : bool := sep_mid (kw_text k).
Definition kws_ok (l : list (kw * slot)) : bool := forallb (fun ks => sepk (fst ks)) l.
Definition lids_ok (l : list (kw * slot)) : bool := forallb (fun ks => match snd ks with SPh id => 0 <=? id | _ => true end) l.

Lemma kws_interleave : forall a b l, sepk a = true -> sepk b = true -> kws_ok (interleave a b l) = true.
Proof.
  intros a b l Ha Hb. revert a Ha. induction l as [|x l IH]; intros a Ha; [reflexivity|].
  cbn [interleave kws_ok forallb fst]. rewrite Ha. apply IH. exact Hb.
Qed.
Lemma kws_pairs : forall a b l, sepk a = true -> sepk b = true -> kws_ok (pairs a b l) = true.
Proof.
  intros a b l Ha Hb. revert a Ha. induction l as [|[n v] l IH]; intros a Ha; [reflexivity|].
  cbn [pairs kws_ok forallb fst]. rewrite Ha. cbn [andb]. change (sepk KEq) with true. apply IH. exact Hb.
Qed.
Lemma lids_interleave : forall a b l, lids_ok (interleave a b l) = ids_ok l.
Proof. intros a b l. revert a. induction l as [|x l IH]; intro a; [reflexivity|]. cbn [interleave lids_ok ids_ok forallb snd]. f_equal. apply IH. Qed.
Lemma lids_names : forall a b ns, lids_ok (interleave a b (map SName ns)) = true.
Proof. intros a b ns. revert a. induction ns as [|n ns IH]; intro a; [reflexivity|]. cbn [map interleave lids_ok forallb snd andb]. apply IH. Qed.
Lemma lids_pairs : forall a b l, lids_ok (pairs a b l) = ids_ok (map snd l).
Proof.
  intros a b l. revert a. induction l as [|[n v] l IH]; intro a; [reflexivity|].
  cbn [pairs lids_ok map ids_ok forallb snd andb]. f_equal. apply IH.
Qed.
Lemma kws_app : forall a b, kws_ok (a ++ b) = kws_ok a && kws_ok b.
Proof. intros. unfold kws_ok. apply forallb_app. Qed.
Lemma lids_app : forall a b, lids_ok (a ++ b) = lids_ok a && lids_ok b.
Proof. intros. unfold lids_ok. apply forallb_app. Qed.

Lemma stmt_ok_intro : forall k sl l fin, kws_ok l = true -> sep_start (kw_text fin) = true -> lids_ok ((k, sl) :: l) = true ->
  stmt_ok ((k, sl) :: l, fin) = true.
Proof. intros k sl l fin H1 H2 H3. unfold stmt_ok, tail_ok, kws_ok, sepk, lids_ok in *. cbn [fst snd]. rewrite H1, H2. cbn [andb]. exact H3. Qed.

Lemma insert_ok : forall table cols vals, ids_ok vals = true -> stmt_ok (insert_stmt table cols vals) = true.
Proof.
  intros table cols vals Hv. unfold insert_stmt. apply stmt_ok_intro; [| reflexivity |].
  - rewrite kws_app, !kws_interleave by reflexivity. reflexivity.
  - cbn [lids_ok forallb snd andb]. fold (lids_ok (interleave KOpenCols KComma (map SName cols) ++ interleave KValues KComma vals)).
    rewrite lids_app, lids_names, lids_interleave. exact Hv.
Qed.

Lemma update_ok : forall table sets keys, ids_ok (map snd sets) = true -> ids_ok (map snd keys) = true ->
  stmt_ok (update_stmt table sets keys) = true.
Proof.
  intros table sets keys Hs Hk. unfold update_stmt. apply stmt_ok_intro; [| reflexivity |].
  - rewrite kws_app, !kws_pairs by reflexivity. reflexivity.
  - cbn [lids_ok forallb snd andb]. fold (lids_ok (pairs KSet KComma sets ++ pairs KWhere KAnd keys)).
    rewrite lids_app, !lids_pairs, Hs, Hk. reflexivity.
Qed.

Lemma delete_ok : forall table keys, ids_ok (map snd keys) = true -> stmt_ok (delete_stmt table keys) = true.
Proof.
  intros table keys Hk. unfold delete_stmt. apply stmt_ok_intro; [| reflexivity |].
  - apply kws_pairs; reflexivity.
  - cbn [lids_ok forallb snd andb]. fold (lids_ok (pairs KWhere KAnd keys)). rewrite lids_pairs. exact Hk.
Qed.

Lemma select_ok : forall cols table keys, cols <> [] -> ids_ok (map snd keys) = true -> stmt_ok (select_stmt cols table keys) = true.
Proof.
  intros cols table keys Hc Hk. unfold select_stmt. destruct cols as [|c cols]; [congruence|].
  cbn [map interleave app]. apply stmt_ok_intro; [| reflexivity |].
  - rewrite kws_app, kws_interleave by reflexivity. cbn [kws_ok forallb fst]. change (sepk KFrom) with true. cbn [andb].
    apply kws_pairs; reflexivity.
  - cbn [lids_ok forallb snd andb]. fold (lids_ok (interleave KComma KComma (map SName cols) ++ (KFrom, SName table) :: pairs KWhere KAnd keys)).
    rewrite lids_app, lids_names. cbn [lids_ok forallb snd andb]. fold (lids_ok (pairs KWhere KAnd keys)). rewrite lids_pairs. exact Hk.
Qed.

(* the shape of a skeleton is determined by the number of columns and the kinds of the value slots *)
Lemma interleave_shape : forall a b l1 l2, map shape_of l1 = map shape_of l2 ->
  map (fun ks => (fst ks, shape_of (snd ks))) (interleave a b l1) = map (fun ks => (fst ks, shape_of (snd ks))) (interleave a b l2).
Proof.
  intros a b l1. revert a. induction l1 as [|x l1 IH]; intros a [|y l2] H; try discriminate H; [reflexivity|].
  cbn [map] in H. inversion H as [[Hx Hr]]. cbn [interleave map fst snd]. rewrite Hx, (IH b l2 Hr). reflexivity.
Qed.
Lemma names_shape : forall (c1 c2 : list str), length c1 = length c2 -> map shape_of (map SName c1) = map shape_of (map SName c2).
Proof. induction c1 as [|x c1 IH]; intros [|y c2] H; try discriminate H; [reflexivity|]. cbn. f_equal. apply IH. cbn in H. lia. Qed.
Lemma pairs_shape : forall a b l1 l2, map shape_of (map snd l1) = map shape_of (map snd l2) ->
  map (fun ks => (fst ks, shape_of (snd ks))) (pairs a b l1) = map (fun ks => (fst ks, shape_of (snd ks))) (pairs a b l2).
Proof.
  intros a b l1. revert a. induction l1 as [|[n1 v1] l1 IH]; intros a [|[n2 v2] l2] H; try discriminate H; [reflexivity|].
  cbn [map snd] in H. inversion H as [[Hx Hr]]. cbn [pairs map fst snd shape_of]. rewrite Hx, (IH b l2 Hr). reflexivity.
Qed.

Definition same_values (v1 v2 : list slot) : Prop := map shape_of v1 = map shape_of v2.

Lemma insert_no_structure : forall st q t1 c1 v1 t2 c2 v2, q = 34 \/ q = 96 ->
  length c1 = length c2 -> same_values v1 v2 -> ids_ok v1 = true -> ids_ok v2 = true ->
  tokenize (stmt_text st q (insert_stmt t1 c1 v1)) = tokenize (stmt_text st q (insert_stmt t2 c2 v2)).
Proof.
  intros st q t1 c1 v1 t2 c2 v2 Hq Hc Hv H1 H2. apply no_structure; [exact Hq | apply insert_ok; exact H1 | apply insert_ok; exact H2|].
  unfold stmt_shape, insert_stmt. cbn [fst snd map shape_of]. f_equal. f_equal. rewrite !map_app. f_equal.
  - apply interleave_shape. apply names_shape. exact Hc.
  - apply interleave_shape. exact Hv.
Qed.

Lemma update_no_structure : forall st q t1 s1 k1 t2 s2 k2, q = 34 \/ q = 96 ->
  same_values (map snd s1) (map snd s2) -> same_values (map snd k1) (map snd k2) ->
  ids_ok (map snd s1) = true -> ids_ok (map snd k1) = true -> ids_ok (map snd s2) = true -> ids_ok (map snd k2) = true ->
  tokenize (stmt_text st q (update_stmt t1 s1 k1)) = tokenize (stmt_text st q (update_stmt t2 s2 k2)).
Proof.
  intros st q t1 s1 k1 t2 s2 k2 Hq Hs Hk A1 A2 B1 B2. apply no_structure; [exact Hq | apply update_ok; assumption | apply update_ok; assumption|].
  unfold stmt_shape, update_stmt. cbn [fst snd map shape_of]. f_equal. f_equal. rewrite !map_app. f_equal; apply pairs_shape; assumption.
Qed.

Lemma delete_no_structure : forall st q t1 k1 t2 k2, q = 34 \/ q = 96 ->
  same_values (map snd k1) (map snd k2) -> ids_ok (map snd k1) = true -> ids_ok (map snd k2) = true ->
  tokenize (stmt_text st q (delete_stmt t1 k1)) = tokenize (stmt_text st q (delete_stmt t2 k2)).
Proof.
  intros st q t1 k1 t2 k2 Hq Hk A B. apply no_structure; [exact Hq | apply delete_ok; assumption | apply delete_ok; assumption|].
  unfold stmt_shape, delete_stmt. cbn [fst snd map shape_of]. f_equal. f_equal. apply pairs_shape. exact Hk.
Qed.

Lemma select_no_structure : forall st q c1 t1 k1 c2 t2 k2, q = 34 \/ q = 96 -> c1 <> [] ->
  length c1 = length c2 -> same_values (map snd k1) (map snd k2) -> ids_ok (map snd k1) = true -> ids_ok (map snd k2) = true ->
  tokenize (stmt_text st q (select_stmt c1 t1 k1)) = tokenize (stmt_text st q (select_stmt c2 t2 k2)).
Proof.
  intros st q c1 t1 k1 c2 t2 k2 Hq Hne Hc Hk A B.
  assert (Hne2 : c2 <> []) by (destruct c1, c2; try congruence; discriminate Hc).
  apply no_structure; [exact Hq | apply select_ok; assumption | apply select_ok; assumption|].
  unfold stmt_shape, select_stmt. cbn [fst snd]. f_equal. rewrite !map_app. f_equal.
  - apply interleave_shape. apply names_shape. exact Hc.
  - cbn [map fst snd shape_of]. f_equal. apply pairs_shape. exact Hk.
Qed.
