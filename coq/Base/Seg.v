(* Segments of lists and Python slicing/indexing of sequences (reference semantics).  Definitions only;
   the lemmas are in Proofs/SegLemmas.v so that the model still runs when a proof breaks. *)
Require Import PonyV.Base.PyBase.

Section Seg.
Context {A : Type}.

(* seg s lo cnt: cnt elements of s starting at 0-based offset lo; negative lo or cnt count as 0. *)
Definition seg (s : list A) (lo cnt : Z) : list A :=
  firstn (Z.to_nat cnt) (skipn (Z.to_nat lo) s).

(* CPython's PySlice_AdjustIndices for step = 1 *)
Definition adjust (n : Z) (x : Z) : Z :=
  if x <? 0 then Z.max 0 (x + n) else Z.min x n.

Definition py_slice (s : list A) (a b : option Z) : list A :=
  let n := zlen s in
  let lo := match a with None => 0 | Some x => adjust n x end in
  let hi := match b with None => n | Some x => adjust n x end in
  seg s lo (hi - lo).

(* s[i]: None stands for IndexError *)
Definition py_index (s : list A) (i : Z) : option (list A) :=
  let n := zlen s in
  if (i <? - n) || (n <=? i) then None
  else Some (seg s (if i <? 0 then i + n else i) 1).

End Seg.
