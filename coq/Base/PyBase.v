(* Python integer semantics used by translated code (reference semantics, validated against CPython by the
   correspondence run of the properties that use them). No proofs in this file. *)
From Coq Require Export ZArith List Bool Lia.
Export ListNotations.
Open Scope Z_scope.

(* Python // and % : floor division, remainder has the sign of the divisor.  Coq's Z.div / Z.modulo are
   floor-based with the same convention, including division by zero returning 0 (Python raises: every
   theorem that mentions them states b <> 0). *)
Definition py_floordiv (a b : Z) : Z := a / b.
Definition py_mod (a b : Z) : Z := a mod b.

Definition zlen {A} (s : list A) : Z := Z.of_nat (length s).

Inductive result (A : Type) : Type :=
| Ok (a : A)
| Err (cls : nat).       (* exception class as a small enum, per model *)
Arguments Ok {A} a.
Arguments Err {A} cls.
