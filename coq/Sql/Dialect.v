(* Substring semantics of the four dialects (reference models written from the documentation; sqlite_substr
   follows substrFunc in SQLite's func.c and is validated against the linked SQLite on every run of C25). *)
Require Import PonyV.Base.PyBase PonyV.Base.Seg PonyV.Sql.SqlAst.

(* SQLite: substr(X,Y[,Z]) *)
Definition sqlite_substr_seg (n p1 : Z) (z : option Z) : Z * Z :=
  match z with
  | None => ((if p1 <? 0 then Z.max 0 (p1 + n) else if 0 <? p1 then p1 - 1 else 0), n)
  | Some z =>
      let neg := z <? 0 in
      let p2 := Z.abs z in
      let '(q1, q2) :=
        if p1 <? 0 then (let p1' := p1 + n in if p1' <? 0 then (0, Z.max 0 (p2 + p1')) else (p1', p2))
        else if 0 <? p1 then (p1 - 1, p2)
        else (0, if 0 <? p2 then p2 - 1 else p2) in
      if neg then (let q1' := q1 - q2 in if q1' <? 0 then (0, q2 + q1') else (q1', q2)) else (q1, q2)
  end.
Definition sqlite_substr (s : str) (p : Z) (z : option Z) : sval :=
  let '(lo, cnt) := sqlite_substr_seg (zlen s) p z in VStr (seg s lo cnt).

(* PostgreSQL: substr(string, start[, count]) = SQL substring: characters at 1-based positions q with
   start <= q < start+count; a negative count is an error. *)
Definition pg_substr (s : str) (p : Z) (z : option Z) : sval :=
  let n := zlen s in
  match z with
  | None => VStr (seg s (Z.max 1 p - 1) n)
  | Some c => if c <? 0 then VErr
              else let lo := Z.max 1 p in let hi := Z.min (n + 1) (p + c) in VStr (seg s (lo - 1) (hi - lo))
  end.

(* MySQL / MariaDB: SUBSTR(str,pos[,len]): pos = 0 or |pos| > length gives '', negative pos counts from the end,
   len < 1 gives ''. *)
Definition mysql_substr (s : str) (p : Z) (z : option Z) : sval :=
  let n := zlen s in
  if (p =? 0) || (n <? Z.abs p) then VStr []
  else let lo := if p <? 0 then n + p else p - 1 in
       match z with None => VStr (seg s lo n) | Some c => VStr (seg s lo c) end.

(* Oracle: position 0 is treated as 1; |position| > length or substring_length < 1 gives NULL; '' is NULL. *)
Definition oracle_substr (s : str) (p : Z) (z : option Z) : sval :=
  let n := zlen s in
  let p := if p =? 0 then 1 else p in
  if n <? Z.abs p then VNull
  else let lo := if p <? 0 then n + p else p - 1 in
       let r := match z with None => seg s lo n | Some c => seg s lo c end in
       match r with [] => VNull | _ => VStr r end.

Definition SQLite : dialect := {| d_substr := sqlite_substr; d_greatest_null := true |}.
Definition PostgreSQL : dialect := {| d_substr := pg_substr; d_greatest_null := false |}.
Definition MySQL : dialect := {| d_substr := mysql_substr; d_greatest_null := true |}.
Definition Oracle : dialect := {| d_substr := oracle_substr; d_greatest_null := true |}.
