(* The fragment of Pony's list-based SQL AST that the slicing theorems talk about, with SQL values and an
   evaluator parameterised by a dialect (reference semantics from the dialects' documentation; the SQLite
   functions are validated against the in-process SQLite on every run).  Definitions only. *)
Require Import PonyV.Base.PyBase PonyV.Base.Seg.

(* strings are lists of code points *)
Definition str := list Z.

Inductive sx : Type :=
| SValue (z : Z)                                  (* ['VALUE', <int>]           *)
| SNullValue                                      (* ['VALUE', None]            *)
| SExt (id : nat)                                 (* any column / parameter / other sub-expression: valued by the row *)
| SLength (e : sx)                                (* ['LENGTH', e]              *)
| SAdd (a b : sx) | SSub (a b : sx)               (* ['ADD', a, b] ['SUB', a, b]*)
| SGe (a b : sx) | SLt (a b : sx)                 (* ['GE', a, b] ['LT', a, b]  *)
| SAnd (a b : sx)                                 (* ['AND', a, b]              *)
| SIf (c t e : sx)                                (* ['IF', c, t, e] = case when c then t else e end *)
| SCase (arms : list (sx * sx)) (dflt : option sx)(* ['CASE', None, arms(, default)] *)
| SMax (a b : sx)                                 (* ['MAX', False, a, b] : greatest / max *)
| SCoalesce (a b : sx)                            (* ['COALESCE', a, b]         *)
| SSubstr (e i : sx) (len : option sx)            (* ['SUBSTR', e, i(, len)]    *)
| SPySlice (e : sx) (a b : sx)                    (* SQLite: py_string_slice(e, a, b) *)
| SErr.                                           (* a path the source marks `assert False` *)

(* x[0] == 'VALUE' and x[1] *)
Definition as_value (x : sx) : option Z := match x with SValue z => Some z | _ => None end.

Inductive sval : Type :=
| VNull | VInt (z : Z) | VStr (s : str) | VBool (b : bool) | VErr.

Record dialect : Type := {
  d_substr : str -> Z -> option Z -> sval;        (* substr(s, pos[, len]) on non-NULL arguments *)
  d_greatest_null : bool                          (* greatest/max of two: NULL when either is NULL (else NULLs are ignored) *)
}.

Definition int2 (f : Z -> Z -> sval) (a b : sval) : sval :=
  match a, b with
  | VNull, (VNull | VInt _) | VInt _, VNull => VNull
  | VInt x, VInt y => f x y
  | _, _ => VErr
  end.

Definition greatest (d : dialect) (a b : sval) : sval :=
  match a, b with
  | VInt x, VInt y => VInt (Z.max x y)
  | VNull, VInt y => if d_greatest_null d then VNull else VInt y
  | VInt x, VNull => if d_greatest_null d then VNull else VInt x
  | VNull, VNull => VNull
  | _, _ => VErr
  end.

Definition and3 (a b : sval) : sval :=
  match a, b with
  | VBool x, VBool y => VBool (x && y)
  | VBool false, VNull | VNull, VBool false => VBool false
  | VBool true, VNull | VNull, VBool true | VNull, VNull => VNull
  | _, _ => VErr
  end.

Section Eval.
Variable d : dialect.
Variable env : nat -> sval.

Fixpoint eval (e : sx) : sval :=
  match e with
  | SValue z => VInt z
  | SNullValue => VNull
  | SExt i => env i
  | SLength a => match eval a with VStr s => VInt (zlen s) | VNull => VNull | _ => VErr end
  | SAdd a b => int2 (fun x y => VInt (x + y)) (eval a) (eval b)
  | SSub a b => int2 (fun x y => VInt (x - y)) (eval a) (eval b)
  | SGe a b => int2 (fun x y => VBool (x >=? y)) (eval a) (eval b)
  | SLt a b => int2 (fun x y => VBool (x <? y)) (eval a) (eval b)
  | SAnd a b => and3 (eval a) (eval b)
  | SIf c t f => match eval c with VBool true => eval t | VBool false | VNull => eval f | _ => VErr end
  | SCase arms dflt =>
      (fix go (l : list (sx * sx)) : sval :=
         match l with
         | [] => match dflt with Some x => eval x | None => VNull end
         | (c, v) :: l' => match eval c with VBool true => eval v | VBool false | VNull => go l' | _ => VErr end
         end) arms
  | SMax a b => greatest d (eval a) (eval b)
  | SCoalesce a b => match eval a with VNull => eval b | VErr => VErr | v => v end
  | SSubstr a i len =>
      match eval a, eval i, match len with Some l => Some (eval l) | None => None end with
      | VStr s, VInt p, None => d_substr d s p None
      | VStr s, VInt p, Some (VInt n) => d_substr d s p (Some n)
      | VErr, _, _ | _, VErr, _ | _, _, Some VErr => VErr
      | VStr _, VInt _, Some VNull | VStr _, VNull, (None | Some (VInt _ | VNull)) | VNull, (VInt _ | VNull), (None | Some (VInt _ | VNull)) => VNull
      | _, _, _ => VErr
      end
  | SPySlice a lo hi =>
      (* pony.orm.dbproviders.sqlite.py_string_slice: s[start:end] in Python itself, NULL string -> NULL *)
      match eval a, eval lo, eval hi with
      | VNull, _, _ => VNull
      | VStr s, (VInt _ | VNull) as x, (VInt _ | VNull) as y =>
          VStr (py_slice s (match x with VInt z => Some z | _ => None end) (match y with VInt z => Some z | _ => None end))
      | _, _, _ => VErr
      end
  | SErr => VErr
  end.
End Eval.
