(* Witnesses for the known findings of C18 (known_findings/C18.json). *)
From Coq Require Import List Bool Arith.
Import ListNotations.
Require Import PonyV.Model.C18Session PonyV.Gen.C18Web PonyV.Proofs.C18Proofs.
Require Import PonyV.Model.C18Obs.   (* observation functions of the correspondence run: built with this cone *)
#[local] Open Scope list_scope.   (* also keeps the cone scanner's regex from backtracking over the next long identifier *)

(* pony.flask: `session.__exit__(exc=exception)` gives __exit__ no exception type, so _commit_or_rollback sees exc_type None:
   EVERY request is committed, whatever its view raised. *)
Theorem C18_flask_untyped_commits_failed_requests : forall (exc : Type) (cfail : exc) p o x,
  depth x = 0 -> pend x = [] ->
  exists t',
    flask_request exc cfail false (leaf exc 0 p o) x
    = (mkst 0 [] (comm x ++ if p then [] else [0]) (tr x ++ t'), if p then Raise cfail else o).
Proof. exact flask_untyped. Qed.
Print Assumptions C18_flask_untyped_commits_failed_requests.

Lemma flask_current_source :
  if flask_passes_exc_type
  then forall e : nat, comm (fst (flask_request nat 0 flask_passes_exc_type (leaf nat 0 false (Raise e)) st0)) = []
  else exists e : nat, comm (fst (flask_request nat 0 flask_passes_exc_type (leaf nat 0 false (Raise e)) st0)) = [0].
Proof.
  destruct flask_passes_exc_type.
  - intros e. reflexivity.
  - exists 7. reflexivity.
Qed.

(* For the source as it is now (flask_passes_exc_type is re-read from /repo on every run): either the integration passes the
   type and no failed request is committed, or there is a failed request (view raises exception 7) whose write is committed. *)
Theorem C18_flask_refuted_unless_fixed :
  if flask_passes_exc_type
  then forall e : nat, comm (fst (flask_request nat 0 flask_passes_exc_type (leaf nat 0 false (Raise e)) st0)) = []
  else exists e : nat, comm (fst (flask_request nat 0 flask_passes_exc_type (leaf nat 0 false (Raise e)) st0)) = [0].
Proof. exact flask_current_source. Qed.
Print Assumptions C18_flask_refuted_unless_fixed.
