(* Witness for the known finding of C20 (known_findings/C20.json). *)
From Coq Require Import Bool.
Require Import PonyV.Model.C20Decisions PonyV.Proofs.C20DecisionsProofs.

(* outside a db_session a failed optimistic check surfaces as AttributeError, not OptimisticCheckError *)
Theorem C20_interactive_mode_refuted : rowcount0_outcome None <> rowcount0_spec None.
Proof. exact rowcount0_interactive_refuted. Qed.
Print Assumptions C20_interactive_mode_refuted.
