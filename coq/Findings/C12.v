(* Witness for the known finding of C12 that the model reproduces: on this history the both-ends invariant is false in the
   model, as it is in the implementation (replay in known_findings/C12.json). *)
Require Import PonyV.Gen.SessionFlags PonyV.Model.SessionBase PonyV.Model.SessionDb PonyV.Model.Session PonyV.Proofs.SessionIdx PonyV.Proofs.SessionRel.

(* E0(id=5, a0=<E2[7]>, a1=[<deleted object>]) raises OperationWithDeletedObjectError after the new object was registered under
   its primary key: E0[5] stays in the identity map with a0 = E2[7], while E2[7]'s collection does not contain it (the reverse
   side was undone, the object was not) *)
Definition c12_sch1 : schema :=
  [mkEnt false [mkAttr (KRef 2 0) false false; mkAttr (KSet 1 0) false false]; mkEnt true [mkAttr (KRef 0 1) false false];
   mkEnt false [mkAttr (KSet 0 0) false false]].
Definition c12_ops1 : list op :=
  [ONew 2 (Some 7%Z) []; ONew 1 None []; ODelete 1; ONew 0 (Some 5%Z) [(0, AObj 0); (1, AObjs [1])]]%nat.

(* stated under the flag of Gen/SessionFlags.v that says Entity.__init__ still leaves the half-built object registered (vacuous since /repo commit 751c8a4;
   the model keeps the phantom at dirty site 1 and claims nothing after it) *)
Theorem C12_refuted_failed_creation_one_sided_link : failed_create_unregisters = false ->
  wf_schema c12_sch1 = true /\ s_dirty (run c12_sch1 c12_ops1) = 1%nat /\ ~ Inv_rel c12_sch1 (run c12_sch1 c12_ops1).
Proof.
  intros FL. tryif discriminate FL then idtac else (
    split; [reflexivity|]; split; [vm_compute; reflexivity|];
    intros (_ & R1 & _);
    assert (H : In 2%nat (vitems (run c12_sch1 c12_ops1) 0%nat 0%nat)) by (apply (R1 2%nat 0%nat 2%nat 0%nat 0%nat); vm_compute; reflexivity);
    vm_compute in H; exact H).
Qed.
Print Assumptions C12_refuted_failed_creation_one_sided_link.
