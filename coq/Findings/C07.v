(* Witnesses for the known findings of C07 (known_findings/C07.json) that concern modelled code. *)
Require Import PonyV.Base.PyBase PonyV.Model.C07Base PonyV.Model.C07Fmt PonyV.Gen.C07Codec PonyV.Model.C07Codec
               PonyV.Proofs.C07Digits PonyV.Proofs.C07Proofs.
(* C07Corr: the checkers of the correspondence run; required here so that they are rebuilt with the cone whenever Gen changes *)
Require PonyV.Model.C07Corr.
(* C07Float: PrimFloat model of the SQLite timedelta storage with its exhaustive exactness theorems (see the note in Proofs/C07Float.v) *)
Require PonyV.Proofs.C07Float.

(* SQLite date attributes: date(999, 12, 31) is written as '999-12-31' (strftime does not pad the year) and read back as that string *)
Theorem C07_date_below_1000_refuted :
  valid_date (mk_date 999 12 31) /\ reload_date (mk_date 999 12 31) = RStr [57; 57; 57; 45; 49; 50; 45; 51; 49].
Proof. exact date_below_1000_refuted. Qed.
Print Assumptions C07_date_below_1000_refuted.

(* Decimal(.., 2): 1.239 stays 1.239 in the writing session, later sessions read 1.24 *)
Theorem C07_decimal_unrounded_refuted :
  dec_reload 2 (1239, -3) = (124, -2) /\ dec_eqb (dec_reload 2 (1239, -3)) (1239, -3) = false.
Proof. exact decimal_unrounded_refuted. Qed.
Print Assumptions C07_decimal_unrounded_refuted.

Definition C07_flags : bool := Eval vm_compute in time_reloads_as_str.
