(* Witnesses for the known findings of C07 (known_findings/C07.json) that concern modelled code. *)
Require Import PonyV.Base.PyBase PonyV.Model.C07Base PonyV.Model.C07Fmt PonyV.Gen.C07Codec PonyV.Model.C07Codec
               PonyV.Proofs.C07Digits PonyV.Proofs.C07Proofs.
(* C07Corr: the checkers of the correspondence run; required here so that they are rebuilt with the cone whenever Gen changes *)
Require PonyV.Model.C07Corr.
(* PrimFloat model of the SQLite timedelta storage; C07FloatSweep holds the larger exhaustive sweeps (built with the cone, ~2.5 min once) *)
Require PonyV.Model.C07Float PonyV.Proofs.C07Float PonyV.Proofs.C07FloatSweep.

(* Decimal(.., 2): 1.239 stays 1.239 in the writing session, later sessions read 1.24 *)
Theorem C07_decimal_unrounded_refuted :
  dec_reload 2 (1239, -3) = (124, -2) /\ dec_eqb (dec_reload 2 (1239, -3)) (1239, -3) = false.
Proof. exact decimal_unrounded_refuted. Qed.
Print Assumptions C07_decimal_unrounded_refuted.

(* SQLite float storage of timedelta: timedelta(days=1000000, microseconds=1) is not read back exactly (the microsecond is lost),
   and neither is timedelta(days=77680, seconds=35904, microseconds=138270) [sqlite-timedelta-float-precision] *)
Theorem C07_timedelta_float_precision_refuted : PonyV.Model.C07Float.exact_1e6_days_1us = false.
Proof. exact PonyV.Proofs.C07Float.td_float_precision_refuted. Qed.
Print Assumptions C07_timedelta_float_precision_refuted.

Theorem C07_timedelta_float_precision_refuted_small : PonyV.Model.C07Float.exact_77680_days = false.
Proof. exact PonyV.Proofs.C07Float.td_float_precision_refuted_small. Qed.
Print Assumptions C07_timedelta_float_precision_refuted_small.

Definition C07_flags : bool * bool := Eval vm_compute in (time_reloads_as_str, date_text_pads_year).
