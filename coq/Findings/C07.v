Require Import PonyV.Base.PyBase PonyV.Model.C07Base PonyV.Model.C07Fmt PonyV.Gen.C07Codec PonyV.Model.C07Codec.
Require PonyV.Model.C07Corr.
Definition C07_flags : bool := Eval vm_compute in time_reloads_as_str.
