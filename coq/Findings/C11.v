(* Witnesses for the known findings of C11 (known_findings/C11.json): on these histories the index invariant is false in the
   model, as it is in the implementation (the replays of the findings show the same corruption through the public API). *)
Require Import PonyV.Gen.SessionFlags PonyV.Model.SessionBase PonyV.Model.SessionDb PonyV.Model.Session PonyV.Proofs.SessionIdx.

(* obj.set(a0=3, a1=<value held by another object>) fails with CacheIndexError on a1 after the index of a0 was updated: the
   index maps 3 to the object whose a0 is still 1 (core.py: Entity.set never registers its undo closure) *)
Definition c11_sch1 : schema := [mkEnt false [mkAttr KInt true true; mkAttr KInt true true]].
Definition c11_ops1 : list op :=
  [ONew 0 (Some 1%Z) [(0, AInt 1%Z); (1, AInt 1%Z)]; ONew 0 (Some 2%Z) [(0, AInt 2%Z); (1, AInt 2%Z)];
   OSetMany 0 [(0, AInt 3%Z); (1, AInt 2%Z)]]%nat.

(* stated under the flag of Gen/SessionFlags.v that says Entity.set still has this shape (vacuous once proposed_fixes/C13-entity-set-... is in /repo) *)
Theorem C11_refuted_failed_set_corrupts_index : entity_set_registers_undo = false ->
  wf_schema c11_sch1 = true /\ s_dirty (run c11_sch1 c11_ops1) = 2%nat /\ ~ Inv_idx c11_sch1 (run c11_sch1 c11_ops1).
Proof.
  intros FL. tryif discriminate FL then idtac else (
    split; [reflexivity|]; split; [vm_compute; reflexivity|];
    intro I; assert (H : idx_get (run c11_sch1 c11_ops1) 0 1 (VInt 3%Z) = Some 0%nat) by (vm_compute; reflexivity);
    apply (I 0%nat 1%nat (VInt 3%Z) 0%nat) in H; destruct H as (ob & G & _ & K);
    vm_compute in G; inversion G; subst ob; vm_compute in K; discriminate).
Qed.
Print Assumptions C11_refuted_failed_set_corrupts_index.

(* E0(id=5, a0=4, a1=[<deleted object>]) raises OperationWithDeletedObjectError after the new object was registered under its
   primary key: E0[5] finds a half-initialised object that is never saved and whose unique value 4 is in no index *)
Definition c11_sch2 : schema :=
  [mkEnt false [mkAttr KInt false true; mkAttr (KSet 1 0) false false]; mkEnt true [mkAttr (KRef 0 1) false false]].
Definition c11_ops2 : list op := [ONew 1 None []; ODelete 0; ONew 0 (Some 5%Z) [(0, AInt 4%Z); (1, AObjs [0])]]%nat.

(* stated under the flag of Gen/SessionFlags.v that says Entity.__init__ still leaves the half-built object registered (vacuous since /repo commit 751c8a4;
   the model keeps the phantom at dirty site 1 and claims nothing after it) *)
Theorem C11_refuted_failed_creation_leaves_phantom : failed_create_unregisters = false ->
  wf_schema c11_sch2 = true /\ s_dirty (run c11_sch2 c11_ops2) = 1%nat /\ ~ Inv_idx c11_sch2 (run c11_sch2 c11_ops2).
Proof.
  intros FL. tryif discriminate FL then idtac else (
    split; [reflexivity|]; split; [vm_compute; reflexivity|];
    intro I; assert (H : idx_get (run c11_sch2 c11_ops2) 0 1 (VInt 4%Z) = None) by (vm_compute; reflexivity);
    assert (H2 : idx_get (run c11_sch2 c11_ops2) 0 1 (VInt 4%Z) = Some 1%nat) by
      (apply (I 0%nat 1%nat (VInt 4%Z) 1%nat); eexists; split; [vm_compute; reflexivity|split; vm_compute; reflexivity]);
    congruence).
Qed.
Print Assumptions C11_refuted_failed_creation_leaves_phantom.
