(* Witnesses for known findings of C26 (known_findings/C26.json) that are visible in the naming model. *)
Require Import PonyV.Base.PyBase PonyV.Model.C26Schema PonyV.Proofs.C26Proofs.

(* reverse columns of a self-referencing many-to-many relationship: column + '_2' after the truncation
   (key generated-name-longer-than-limit:m2m-reverse-column-suffix) *)
Theorem C26_refuted_m2m_reverse_column_suffix :
  exists c, In c (m2m_reverse_columns Oracle (repeat 65%Z 30) [[97%Z]]) /\ (length c > max_len Oracle)%nat.
Proof. exact m2m_reverse_columns_refuted. Qed.
Print Assumptions C26_refuted_m2m_reverse_column_suffix.

(* the same pattern in the default name of a repeated many-to-many table (name + '_%d'): true of the naming function, but every
   diagram that reaches it is rejected later because the truncated index / foreign-key names of the two tables collide, so no
   accepted schema shows it (not listed as a finding) *)
Theorem C26_m2m_sequence_suffix_unbounded : (length (name_of MySQL (M2MSeq e31 e31 2)) > max_len MySQL)%nat.
Proof. exact m2m_seq_refuted. Qed.
Print Assumptions C26_m2m_sequence_suffix_unbounded.
