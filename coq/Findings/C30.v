(* Witnesses for the known findings of C30 (known_findings/C30.json). *)
Require Import PonyV.Base.PyBase PonyV.Model.C06Str PonyV.Model.C06Lex PonyV.Model.C06Params PonyV.Model.C30Scan PonyV.Model.C30Adapt
               PonyV.Proofs.C06StrLemmas PonyV.Proofs.C30Proofs.

(* the % doubling is applied to the whole statement before it is scanned, so it reaches the expressions:
   $(a % 2)  is evaluated as  (a %% 2)  (a SyntaxError),  $d['%']  looks up the key '%%' *)
Theorem C30_expr_percent_refuted :
  adapt ascii_w ascii_sp Format [36; 40; 97; 32; 37; 32; 50; 41] = Ok ([37; 115], SrcTuple [[40; 97; 32; 37; 37; 32; 50; 41]])
  /\ adapt ascii_w ascii_sp Qmark [36; 40; 97; 32; 37; 32; 50; 41] = Ok ([63], SrcTuple [[40; 97; 32; 37; 32; 50; 41]]).
Proof. vm_compute. split; reflexivity. Qed.
Print Assumptions C30_expr_percent_refuted.

(* raw_sql() fragments: parse_raw_sql keeps the text pieces as they are and RawSQLMonad / SQLBuilder.RAWSQL pass them on, so under
   format / pyformat a % in a fragment reaches the driver's %-step undoubled (documentation model of the driver):
   the fragment  x like 'a%'  makes the formatting step fail *)
Theorem C30_raw_fragment_percent_refuted :
  let frag := [120; 32; 108; 105; 107; 101; 32; 39; 97; 37; 39] in
  parse_raw ascii_w ascii_sp frag = Ok [IText frag] /\ server_text Pyformat frag = None.
Proof. vm_compute. split; reflexivity. Qed.
Print Assumptions C30_raw_fragment_percent_refuted.
