(* Witness for the known finding of C23 (known_findings/C23.json): SetInstance.remove on a one-to-many collection updates the
   SetData twice (once through reverse.__set__ -> reverse_remove, once in its own tail): a known count goes one too low. *)
Require Import PonyV.Base.PyBase PonyV.Model.C23SetData PonyV.Gen.ContainsOrder PonyV.Model.C23Load PonyV.Proofs.C23LoadProofs.

Theorem C23_refuted_o2m_remove_count :
  let sd := mksd [7%nat] true [] [] None (Some 1%Z) in
  Inv [7%nat] sd /\ sd_count (do_remove_o (fun _ => true) 7 [7%nat] sd) = Some (-1)%Z /\
  abstract [7%nat] (do_remove_o (fun _ => true) 7 [7%nat] sd) = [].
Proof. exact do_remove_o_refuted. Qed.
Print Assumptions C23_refuted_o2m_remove_count.
