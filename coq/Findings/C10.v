(* C10 - refuted parts: concrete histories of the session model (each replayed on real Pony + SQLite by the check, see
   known_findings/C10.json) on which the property fails.  Every witness is closed by vm_compute. *)
Require Import PonyV.Gen.SessionFlags PonyV.Model.SessionBase PonyV.Model.SessionDb PonyV.Model.Session PonyV.Model.SessionCheck.

(* Witnesses of defects with a small local repair are stated under the flag of coq/Gen/SessionFlags.v (generated from /repo on every
   run) that says the code still has the defective shape: once the repair is in /repo the flag is false and the witness is vacuous;
   reverting the repair makes it a witness again. *)
Ltac flagged H := first [ discriminate H | vm_compute; repeat split; reflexivity ].
Open Scope nat_scope.

Definition sch_getby : schema := [(mkEnt true [(mkAttr (KSet 1 1) false false); (mkAttr KInt false false); (mkAttr KInt true false); (mkAttr KInt false true); (mkAttr (KSet 1 3) false false); (mkAttr (KSet 1 0) false false)]); (mkEnt true [(mkAttr (KRef 0 5) false false); (mkAttr (KRef 0 0) false false); (mkAttr KStr false false); (mkAttr (KRef 0 4) true false)])].
Definition ops_getby : list op := [(ONew 0 None [(1, (AInt 1%Z)); (2, (AInt 1%Z)); (3, ANone); (5, (AObjs []))]); (ONew 1 None [(0, (AObj 0)); (3, (AObj 0))])].

(* object 1 (entity 1, new) refers to object 0 (entity 0, new) through attribute 0; E1.get(a0=<object 0>) answers None *)
Theorem C10_refuted_get_by_unsaved_reference : get_binds_before_flush = true -> select_binds_before_flush = true ->
  let s := run sch_getby ops_getby in
  wf_schema sch_getby = true /\ s_dirty s = 0 /\ s_declined s = false /\
  obj_ent s 1 = 1 /\ obj_val s 1 0 = Some (VRef 0) /\ is_del (obj_st s 1) = false /\
  snd (getby_op sch_getby s 1 0 (AObj 0)) = RNoneObj /\ snd (select_op sch_getby s 1 0 (AObj 0)) = RObjs [].
Proof. intros G S. first [ discriminate G | discriminate S | vm_compute; repeat split; reflexivity ]. Qed.
Print Assumptions C10_refuted_get_by_unsaved_reference.

Definition sch_count : schema := [(mkEnt true [(mkAttr (KRef 1 3) false false); (mkAttr (KSet 1 1) false false); (mkAttr KInt false true)]); (mkEnt false [(mkAttr (KRef 2 0) true false); (mkAttr (KRef 0 1) false false); (mkAttr KStr false false); (mkAttr (KSet 0 0) false false); (mkAttr KInt false true); (mkAttr KStr true false)]); (mkEnt false [(mkAttr (KSet 1 0) false false); (mkAttr KStr false false); (mkAttr KInt false true); (mkAttr KInt false true)])].
Definition ops_count : list op := [(ONew 2 (Some 5%Z) [(3, (AInt 0%Z))]); (ONew 1 (Some 4%Z) [(0, (AObj 0)); (1, ANone); (3, (AObjs [])); (5, (AStr [120%Z]))]); (ORemove 0 0 [1])].

(* x.coll.remove([item]) where the reverse reference is Required (the item is deleted): the collection is empty, count() was -1.
   Repaired in /repo by commit 11753a1 (SetInstance.remove returns after the reverse updates for one-to-many). *)
Theorem C10_refuted_count_after_remove : remove_rebooks_one_to_many = true ->
  let s := run sch_count ops_count in
  wf_schema sch_count = true /\ s_dirty s = 0 /\ s_declined s = false /\
  sd_items (get_sd s 0 0) = [] /\ snd (count_op sch_count s 0 0) = RInt (-1).
Proof. intros F. flagged F. Qed.
Print Assumptions C10_refuted_count_after_remove.

(* the same history with the repaired code: count() is 0 *)
Theorem C10_count_after_remove_repaired : remove_rebooks_one_to_many = false ->
  let s := run sch_count ops_count in
  s_dirty s = 0 /\ sd_items (get_sd s 0 0) = [] /\ snd (count_op sch_count s 0 0) = RInt 0.
Proof. intros F. flagged F. Qed.
Print Assumptions C10_count_after_remove_repaired.

Definition sch_rassert : schema := [(mkEnt false [(mkAttr KStr true true); (mkAttr (KSet 1 3) false false); (mkAttr (KSet 1 1) false false); (mkAttr (KRef 1 0) false false)]); (mkEnt false [(mkAttr (KSet 0 3) false false); (mkAttr (KRef 0 2) true false); (mkAttr KInt true false); (mkAttr (KRef 0 1) false false); (mkAttr KInt false false)])].
Definition ops_rassert : list op := [(ONew 0 (Some 1%Z) [(0, (AStr [120%Z]))]); (ONew 1 (Some 1%Z) [(0, (AObjs [0])); (1, (AObj 0)); (2, (AInt 3%Z)); (3, (AObj 0)); (4, (AInt 3%Z))]); (OGetBy 1 3 (AObj 0))].

(* a query whose auto-flush fails (cyclic dependency between two new objects) leaves the session in a state where reading a
   collection of a live object raises AssertionError *)
Theorem C10_refuted_collection_read_asserts :
  let s := run sch_rassert ops_rassert in
  wf_schema sch_rassert = true /\ s_dirty s = 0 /\ s_declined s = false /\
  is_del (obj_st s 0) = false /\ snd (read_op sch_rassert s 0 1) = RErr EAssertion.
Proof. vm_compute. repeat split; reflexivity. Qed.
Print Assumptions C10_refuted_collection_read_asserts.

Definition sch_lostread : schema := [(mkEnt false [(mkAttr (KSet 1 1) false false)]); (mkEnt true [(mkAttr KInt true false); (mkAttr (KRef 0 0) false false); (mkAttr (KSet 2 0) false false)]); (mkEnt true [(mkAttr (KRef 1 2) true false)])].
Definition ops_lostread : list op := [(ONew 0 (Some 1%Z) []); (ONew 0 (Some 2%Z) []); (ONew 1 None [(0, (AInt 1%Z)); (1, (AObj 0))]); (ONew 2 None [(0, (AObj 2))]); ONewSession; (OGetPk 2 (AInt 1%Z)); (ORead 0 0); (OGetPk 0 (AInt 2%Z)); (OGetPk 0 (AInt 1%Z)); (OSet 1 1 (AObj 2)); (OAssign 3 0 [])].

(* the history of C09_refuted_assignment_to_seed_lost up to the collection assignment: the program set b.ref = a2 (handle 1 := handle 2,
   ROk) and then reads b.ref: None *)
Theorem C10_refuted_own_assignment_not_read :
  let s := run sch_lostread ops_lostread in
  wf_schema sch_lostread = true /\ s_declined s = false /\
  nth 9 ops_lostread OFlush = OSet 1 1 (AObj 2) /\
  skipn 9 (trace sch_lostread (init_sess sch_lostread) ops_lostread) = [ROk; ROk] /\
  snd (read_op sch_lostread s 1 1) = RNoneObj.
Proof. vm_compute. repeat split; reflexivity. Qed.
Print Assumptions C10_refuted_own_assignment_not_read.
