(* Witnesses for the known findings of C01 (known_findings/C01.json): the full statement is false on these inputs.
   Each is the negation of the conclusion of a C01 theorem on a concrete typed input; computed by vm_compute. *)
Require Import PonyV.Base.PyBase PonyV.Model.C01Expr PonyV.Model.C01Sql PonyV.Model.C01Translate PonyV.Model.C01Safe
               PonyV.Model.C01Eqb PonyV.Model.C01Query PonyV.Model.C01Join.

Definition fa := mkattr 1 TInt true.
Definition fb := mkattr 2 TInt true.
Definition row (a b : pyv) : env := mkenv (fun i => match i with 1%nat => a | 2%nat => b | _ => PNone end) (fun _ => PNone).

(* p.a // 2 with a = -7: SQLite and PostgreSQL truncate toward zero (-3), Python floors (-4) *)
Theorem C01_refuted_floordiv_truncates_toward_zero :
  let e := EArith FloorDiv (EAttr fa) (EInt 2) in let en := row (PInt (-7)) PNone in
  ty_of e = Some (TV TInt) /\ env_ok en e = true /\ clean en e = true /\
  ref_eval en e = PInt (-4) /\
  forall d, d = DSqlite \/ d = DPostgres ->
    exists q, tr_project d e = Some q /\ qeval d (encenv d en) q = IntV (-3).
Proof. cbv zeta. repeat split; try reflexivity. intros d [-> | ->]; eexists; split; reflexivity. Qed.
Print Assumptions C01_refuted_floordiv_truncates_toward_zero.

(* p.a % 3 with a = -7: the SQL remainder takes the sign of the dividend (-1), Python's the sign of the divisor (2) *)
Theorem C01_refuted_mod_takes_sign_of_dividend :
  let e := EArith Mod (EAttr fa) (EInt 3) in let en := row (PInt (-7)) PNone in
  ty_of e = Some (TV TInt) /\ env_ok en e = true /\ clean en e = true /\
  ref_eval en e = PInt 2 /\
  forall d, modelled d = true -> exists q, tr_project d e = Some q /\ qeval d (encenv d en) q = IntV (-1).
Proof. cbv zeta. repeat split; try reflexivity. intros d H; destruct d; try discriminate H; eexists; split; reflexivity. Qed.
Print Assumptions C01_refuted_mod_takes_sign_of_dividend.

(* p.a / 2 with a = 7: translated like // : the integer 3, which is not the quotient (3 * 2 <> 7; Python gives 3.5) *)
Theorem C01_refuted_truediv_of_ints_is_integer_division :
  let e := EArith TrueDiv (EAttr fa) (EInt 2) in let en := row (PInt 7) PNone in
  ty_of e = Some (TV TInt) /\ env_ok en e = true /\
  forall d, d = DSqlite \/ d = DPostgres ->
    exists q r, tr_project d e = Some q /\ qeval d (encenv d en) q = IntV r /\ r * 2 <> 7.
Proof. cbv zeta. repeat split; try reflexivity. intros d [-> | ->]; exists (QBin QDiv (QCol 1) (QVal (QLInt 2))), 3; repeat split; discriminate. Qed.
Print Assumptions C01_refuted_truediv_of_ints_is_integer_division.

(* [p for p in P if not (p.a and p.b > 1)] with a = None, b = 2: Python keeps the row (None and ... is falsy, not falsy is
   True); the SQL is NOT (a <> 0 AND b > 1) = NOT (NULL AND TRUE) = NULL, and the row is dropped - on every dialect *)
Theorem C01_refuted_not_over_truth_test_of_null_value :
  let e := ENot (EAnd (EAttr fa) (ECmp CGt (EAttr fb) (EInt 1))) in let en := row PNone (PInt 2) in
  ty_of e = Some TCond /\ env_ok en e = true /\
  py_truthy e (ref_eval en e) = true /\
  forall d, modelled d = true -> safe d en e = true /\
    exists conds, tr_filter d e = Some conds /\ where_truth d (encenv d en) conds = false.
Proof. cbv zeta. repeat split; try reflexivity; destruct d; try discriminate H; try reflexivity; eexists; split; reflexivity. Qed.
Print Assumptions C01_refuted_not_over_truth_test_of_null_value.

(* ... so [pos_ok] cannot be dropped from C01_filter_except_known, and the row is exactly outside it *)
Theorem C01_refuted_not_over_truth_test_is_outside_pos_ok :
  pos_ok (row PNone (PInt 2)) (ENot (EAnd (EAttr fa) (ECmp CGt (EAttr fb) (EInt 1)))) = false.
Proof. reflexivity. Qed.
Print Assumptions C01_refuted_not_over_truth_test_is_outside_pos_ok.

(* ------------------------------------------------------------------------------------------- attribute paths *)
Definition jp (id : Z) (grp : pyv) : C01Join.row := row_of [(0, PInt id); (8, grp); (3, PInt 0); (5, PStr [97%Z]); (7, PBool true)]%nat.
Definition jg : C01Join.row := row_of [(0, PInt 1); (1, PInt 0)]%nat.        (* G[1]: number = 0 *)
Definition jdb1 : jdb := mkjdb [jp 1 (PInt 1); jp 2 PNone] [jg] [].
Definition group_id := mkattr 8 TInt false.     (* G's primary key read from the column p.group: the AttrMonad of a primary key is not nullable *)
Definition group_number := mkattr 11 TInt false.

(* select(p.id for p in P if p.group is None or p.group.number > 1): Python keeps the object without a group (the `or`
   short-circuits, no attribute of None is touched); the comma join `FROM P p, G g WHERE ... AND p.group = g.id` drops it *)
Theorem C01_refuted_optional_path_inner_join_drops_rows :
  let filt := EOr (ECmp CIs (EAttr group_id) ENone) (ECmp CGt (EAttr group_number) (EInt 1)) in
  let proj := EAttr (mkattr 0 TInt false) in
  ty_of filt = Some TCond /\ depth_of [filt; proj] = 1%nat /\
  py_join_rows false filt proj (fun _ => PNone) jdb1 = [PInt 2] /\
  forall d, modelled d = true ->
    exists conds q, tr_filter d filt = Some conds /\ tr_project d proj = Some q /\
      sql_join_rows d JInner 1 false conds q (fun _ => PNone) jdb1 = [] /\
      sql_join_rows d JLeft 1 false conds q (fun _ => PNone) jdb1 = [IntV 2].
Proof. cbv zeta. repeat split; try reflexivity. intros d H; destruct d; try discriminate H; do 2 eexists; repeat split; reflexivity. Qed.
Print Assumptions C01_refuted_optional_path_inner_join_drops_rows.

(* left_join(p.id for p in P if not p.group.number): G.number is Required, so the AttrMonad is "not nullable" and negate gives
   `g.number = 0` without the IS NULL disjunct; for an object without a group the LEFT JOIN supplies NULL, the row is dropped,
   while Python (None propagation: not None) keeps it *)
Theorem C01_refuted_left_join_required_attribute_through_none_reference :
  let filt := ENot (EAttr group_number) in let proj := EAttr (mkattr 0 TInt false) in
  ty_of filt = Some TCond /\
  py_join_rows false filt proj (fun _ => PNone) jdb1 = [PInt 1; PInt 2] /\
  env_ok (penv (fun _ => PNone) (flat jdb1 (jp 2 PNone))) filt = false /\
  forall d, modelled d = true ->
    exists conds q, tr_filter d filt = Some conds /\ tr_project d proj = Some q /\
      sql_join_rows d JLeft 1 false conds q (fun _ => PNone) jdb1 = [IntV 1].
Proof. cbv zeta. repeat split; try reflexivity. intros d H; destruct d; try discriminate H; do 2 eexists; repeat split; reflexivity. Qed.
Print Assumptions C01_refuted_left_join_required_attribute_through_none_reference.

(* select(p.id for p in P if not p.group.id): p.group.id is G's primary key, read from the foreign key column p.group without a
   join; the AttrMonad is the primary key's (not nullable), so `not` becomes `p.group = 0` without the IS NULL disjunct and the
   object without a group is dropped by select() and left_join() alike, while Python (None propagation: not None) keeps it *)
Theorem C01_refuted_pk_of_none_reference_is_marked_not_nullable :
  let filt := ENot (EAttr group_id) in let proj := EAttr (mkattr 0 TInt false) in
  ty_of filt = Some TCond /\ depth_of [filt; proj] = 0%nat /\
  py_join_rows false filt proj (fun _ => PNone) jdb1 = [PInt 2] /\
  env_ok (penv (fun _ => PNone) (flat jdb1 (jp 2 PNone))) filt = false /\
  forall d, modelled d = true ->
    exists conds q, tr_filter d filt = Some conds /\ tr_project d proj = Some q /\
      sql_join_rows d JInner 0 false conds q (fun _ => PNone) jdb1 = [] /\
      sql_join_rows d JLeft 0 false conds q (fun _ => PNone) jdb1 = [].
Proof. cbv zeta. repeat split; try reflexivity. intros d H; destruct d; try discriminate H; do 2 eexists; repeat split; reflexivity. Qed.
Print Assumptions C01_refuted_pk_of_none_reference_is_marked_not_nullable.
