(* Witnesses for the known findings of C06 (known_findings/C06.json).  Both concern the *receiving side as documented*
   (MySQL's default string-literal rules; the %-formatting step of format / pyformat drivers) and are not executed in
   this sandbox (no MySQL / PostgreSQL server, no pymysql / psycopg2). *)
Require Import PonyV.Base.PyBase PonyV.Model.C06Str PonyV.Model.C06Lex PonyV.Model.C06Params PonyV.Gen.C06Quote
               PonyV.Model.C06Stmt PonyV.Proofs.C06StrLemmas PonyV.Proofs.C06Proofs.

(* MySQL treats backslash as an escape character in string literals (default sql_mode); Pony renders MySQL literals with the
   generic quote_str, which does not double it: the one-character string consisting of a backslash does not read back *)
Theorem C06_literal_mysql_refuted :
  match server_text Format (mysql_value_str Format [92]) with Some t => lex_mysql t | None => None end <> Some [92].
Proof. exact literal_mysql_refuted. Qed.
Print Assumptions C06_literal_mysql_refuted.

(* ... and a value can end the literal early: after the value  \' OR 1=1 --   the lexer is back in SQL text *)
Theorem C06_literal_mysql_structure_refuted :
  exists lit rest, rest <> [] /\
    match server_text Format (mysql_value_str Format [92; 39; 32; 79; 82; 32; 49; 61; 49; 32; 45; 45; 32]) with
    | Some (q :: t) => lex_mysql_body t
    | _ => None
    end = Some (lit, rest).
Proof. exact literal_mysql_structure_refuted. Qed.
Print Assumptions C06_literal_mysql_structure_refuted.

(* quote_name does not double % for format / pyformat: the name a%%b reaches the server as a%b, the name a%b makes the
   driver's formatting step fail *)
Theorem C06_ident_fmt_refuted :
  match fmt_subst (quote_name 34 [97; 37; 37; 98]) with Some t => lex_ident 34 t | None => None end <> Some [97; 37; 37; 98]
  /\ fmt_subst (quote_name 34 [97; 37; 98]) = None.
Proof. exact ident_fmt_refuted. Qed.
Print Assumptions C06_ident_fmt_refuted.

(* PostgreSQL / MySQL (documentation): LIKE without ESCAPE treats the backslash as escape character; the constant branch of
   _like adds ESCAPE only when the constant contains % or _ : a constant containing a backslash (here: the one-character
   string) misses the subject a\b and matches the subject a% *)
Theorem C06_like_const_backslash_refuted :
  like_of_bs (like_const_contains [92]) [97; 92; 98] = false /\ is_infix [92] [97; 92; 98]
  /\ like_of_bs (like_const_contains [92]) [97; 37] = true /\ ~ is_infix [92] [97; 37].
Proof. exact like_const_bs_refuted. Qed.
Print Assumptions C06_like_const_backslash_refuted.
