(* Witnesses for the known findings of C19 (known_findings/C19.json). *)
From Coq Require Import List Bool Arith.
Import ListNotations.
Require Import PonyV.Model.C19Txn.

(* pool-keeps-half-initialised-connection: SQLitePool._connect stores the new connection in pool.con before it runs
   PRAGMA foreign_keys = true / PRAGMA case_sensitive_like = true.  If one of them raises, provider.connect() raises, no
   cache ever owns the connection, and it stays in the pool: the next session of the thread gets it as an ordinary pooled
   connection with foreign keys (or case sensitive LIKE) switched off.  So "a pooled connection is a fully initialised one"
   is false, although the connection bookkeeping of C19_released holds. *)
Definition pooled_initialised (s : st) : bool := if p_has s then p_fk s && p_cs s else true.

Theorem C19_pool_initialised_refuted_fk :
  let s' := snd (run_session (faults_oracle [1]) ShOpt [(OSelect, false)] st_empty) in
  pooled_initialised s' = false /\ p_has s' = true /\ p_fk s' = false /\ closed s' = [].
Proof. vm_compute. repeat split. Qed.
Print Assumptions C19_pool_initialised_refuted_fk.

Theorem C19_pool_initialised_refuted_cslike :
  let s' := snd (run_session (faults_oracle [2]) ShOpt [(OSelect, false)] st_empty) in
  pooled_initialised s' = false /\ p_has s' = true /\ p_fk s' = true /\ p_cs s' = false.
Proof. vm_compute. repeat split. Qed.
Print Assumptions C19_pool_initialised_refuted_cslike.

(* and the next session happily uses it: its statements run on connection 0, foreign keys still off *)
Theorem C19_half_initialised_connection_is_reused :
  let s' := snd (run_sessions (faults_oracle [1]) [(ShOpt, [(OSelect, false)]); (ShOpt, [(ORawWrite, false)])] st_empty) in
  p_has s' = true /\ p_id s' = 0 /\ p_fk s' = false /\ next s' = 1.
Proof. vm_compute. repeat split. Qed.
Print Assumptions C19_half_initialised_connection_is_reused.

(* later-sessions-fail-after-failed-connection-init: in a thread whose pool never connected (SQLitePool.__init__ creates no
   `pid` attribute), the failed initialisation leaves pool.con set and pool.pid missing; `pool.pid != pid` in Pool.connect then
   raises AttributeError in every later session, although those sessions meet no fault at all. *)
Theorem C19_following_session_fails_refuted :
  let rs := run_sessions (faults_oracle [1]) [(ShOpt, [(OSelect, false)]); (ShImm, [(ORawWrite, false)]); (ShOpt, [(OSelect, false)])] st_empty in
  fst rs = Err EAttr /\ length (trace (snd rs)) = 2.
Proof. vm_compute. repeat split. Qed.
Print Assumptions C19_following_session_fails_refuted.
(* the same sessions in a thread that had connected before (pool.pid exists) work, on the half-initialised connection *)
Theorem C19_following_session_ok_when_pid_exists :
  fst (run_sessions (faults_oracle [1]) [(ShOpt, [(OSelect, false)]); (ShImm, [(ORawWrite, false)]); (ShOpt, [(OSelect, false)])] st_disconnected) = Ok.
Proof. vm_compute. reflexivity. Qed.
Print Assumptions C19_following_session_ok_when_pid_exists.
