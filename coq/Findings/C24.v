(* Witnesses for the known findings of C24 (known_findings/C24.json): on these inputs the faithful model -- and the
   implementation, see the replay of each finding -- does not return the Python operation on R = list(q). *)
Require Import PonyV.Base.PyBase PonyV.Base.Seg PonyV.Gen.C24Window PonyV.Model.C24Query
               PonyV.Proofs.C24Window PonyV.Proofs.C24Query PonyV.Model.C24More PonyV.Proofs.C24More.
From Coq Require Import Permutation.

Definition all (_ : Z) : bool := true.
Definition idk : list (Z -> Z) := [fun x => x].

(* order_by-drops-automatic-distinct (and random(), which is order_by('random()')[:n]):
   select(p.a for p in P) over rows 2 1 1 is [2; 1]; .order_by(1) is [1; 1; 2] *)
Definition q_proj := zquery [2; 1; 1] all false true None no_window.
Theorem C24_order_permutes_refuted :
  ~ Permutation (q_list Z.eqb (add_order idk q_proj)) (q_list Z.eqb q_proj).
Proof. intros H. apply Permutation_length in H. vm_compute in H. discriminate. Qed.
Print Assumptions C24_order_permutes_refuted.

(* sum-avg-group_concat-ignore-query-distinct: select(p.a ...).order_by(1).distinct() is [1; 2] (sum 3); sum() says 4 *)
Theorem C24_sum_distinct_refuted :
  q_aggregate ASum None (set_distinct true (add_order idk q_proj))
  <> Ok (py_aggregate ASum (q_list Z.eqb (set_distinct true (add_order idk q_proj)))).
Proof. vm_compute. discriminate. Qed.
Print Assumptions C24_sum_distinct_refuted.

(* group_concat-ignores-order_by: the ordered query lists 1 1 2, group_concat() concatenates 2 1 1 *)
Theorem C24_group_concat_order_refuted :
  q_group_concat None (add_order idk q_proj) <> Ok (q_list Z.eqb (add_order idk q_proj)).
Proof. vm_compute. discriminate. Qed.
Print Assumptions C24_group_concat_order_refuted.

(* limited-subquery-*: q2 = select(x for x in q.limit(2)) over rows 1 2 3 is [1; 2] *)
Definition q_rows3 := zquery [1; 2; 3] all false false None no_window.
Definition q_lim := nest q_rows3 (Some 2, None).

(* ...filter-applied-before-limit: q2.filter(lambda x: x > 1) should be [2]; the WHERE is applied first: [2; 3] *)
Theorem C24_filter_before_limit_refuted :
  q_list Z.eqb (add_filter (fun x => 1 <? x) q_lim) <> filter (fun x => 1 <? x) (q_list Z.eqb q_lim).
Proof. vm_compute. discriminate. Qed.
Print Assumptions C24_filter_before_limit_refuted.

(* ...order-applied-before-limit: q2.order_by(desc) should permute [1; 2]; it is [3; 2] *)
Theorem C24_order_before_limit_refuted :
  ~ Permutation (q_list Z.eqb (add_order [fun x => - x] q_lim)) (q_list Z.eqb q_lim).
Proof.
  intros H. assert (Hin : In 3 (q_list Z.eqb q_lim)) by (eapply Permutation_in; [exact H | vm_compute; auto]).
  vm_compute in Hin. intuition discriminate.
Qed.
Print Assumptions C24_order_before_limit_refuted.

(* ...first(): select(x for x in q.limit(None, 1)) is [2; 3]; first() orders the whole table, then skips one: 2 is right here, so
   take rows 3 1 2: the subquery is [1; 2], first() answers 2 *)
Definition q_off := nest (zquery [3; 1; 2] all false false None no_window) (None, Some 1).
Theorem C24_first_before_limit_refuted :
  q_list Z.eqb q_off = [1; 2] /\ q_first Z.eqb idk q_off = Some 2.
Proof. split; vm_compute; reflexivity. Qed.
Print Assumptions C24_first_before_limit_refuted.

(* ...distinct-applied-before-limit: rows 1 1 2, q2 = select(x for x in q.without_distinct().limit(2)) is [1; 1];
   q2.distinct() contains 2 *)
Definition q_dd := nest (zquery [1; 1; 2] all false false None no_window) (Some 2, None).
Theorem C24_distinct_before_limit_refuted :
  In 2 (q_list Z.eqb (set_distinct true q_dd)) /\ ~ In 2 (q_list Z.eqb q_dd).
Proof. split; vm_compute; intuition discriminate. Qed.
Print Assumptions C24_distinct_before_limit_refuted.

(* ...aggregate-AssertionError: every aggregate of a query over a limited subquery fails *)
Theorem C24_aggregate_limited_refuted : forall f arg, q_aggregate f arg q_lim = Err 2%nat.
Proof. intros f arg. reflexivity. Qed.
Print Assumptions C24_aggregate_limited_refuted.

(* ...drops-explicit-distinct-flag: q = select(p.a ...).without_distinct() over rows 1 1 2 is [1; 1; 2]; iterating over
   q.limit(2) gives [1; 2], not [1; 1] *)
Definition q_wd := set_distinct false (zquery [1; 1; 2] all false true None no_window).
Theorem C24_nested_refuted :
  fetch Z.eqb (nest q_wd (Some 2, None)) no_window <> win no_window (win (Some 2, None) (q_list Z.eqb q_wd)).
Proof. vm_compute. discriminate. Qed.
Print Assumptions C24_nested_refuted.
