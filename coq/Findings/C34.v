(* Witnesses for the known findings of C34 (known_findings/C34.json), on the 2-entity universe of Model/C34Obs.v.
   Each is conditional on the variation point as it is read from /repo now (Gen/C34Src.v): with the source repaired the
   hypothesis is false and the positive theorems of Props/C34.v apply instead. *)
From Coq Require Import List Bool Arith.
Import ListNotations.
Require Import PonyV.Model.C34Perm PonyV.Gen.C34Src PonyV.Model.C34Obs PonyV.Proofs.C34Proofs.
#[local] Open Scope list_scope.

(* `x in rule.entities_to_exclude` with x an instance: the only rule excludes entity A, yet has_perm(None, 'view', a1) is True,
   the specification says False, and to_json serialises a1 *)
Theorem C34_refuted_object_entity_exclusion :
  obj_exclusion_tests_entity = false ->
  hp rev_loop_iterates_reverse_rules obj_exclusion_tests_entity missing_reverse_rules_returns_false w_obj 0 0 (TObj 0) = true
  /\ sp w_obj 0 0 (TObj 0) = false
  /\ tj rev_loop_iterates_reverse_rules obj_exclusion_tests_entity missing_reverse_rules_returns_false w_obj 0 0 = true.
Proof. exact (witness_obj rev_loop_iterates_reverse_rules missing_reverse_rules_returns_false obj_exclusion_tests_entity). Qed.
Print Assumptions C34_refuted_object_entity_exclusion.

(* `for reverse_rule in access_rules`: A.bs is excluded by A's only rule and B's only rule does not apply to the user, yet A.bs is granted *)
Theorem C34_refuted_attr_granted_though_excluded :
  rev_loop_iterates_reverse_rules = false ->
  hp rev_loop_iterates_reverse_rules obj_exclusion_tests_entity missing_reverse_rules_returns_false w_attr_granted 0 0 (TAttr 1) = true
  /\ sp w_attr_granted 0 0 (TAttr 1) = false.
Proof. exact (witness_attr_granted obj_exclusion_tests_entity missing_reverse_rules_returns_false rev_loop_iterates_reverse_rules). Qed.
Print Assumptions C34_refuted_attr_granted_though_excluded.

(* same loop, other direction: the reverse side (A's rule) grants A.bs, but B.a is refused *)
Theorem C34_refuted_attr_reverse_grant_ignored :
  rev_loop_iterates_reverse_rules = false ->
  hp rev_loop_iterates_reverse_rules obj_exclusion_tests_entity missing_reverse_rules_returns_false w_attr_refused 0 0 (TAttr 3) = false
  /\ sp w_attr_refused 0 0 (TAttr 3) = true.
Proof. exact (witness_attr_refused obj_exclusion_tests_entity missing_reverse_rules_returns_false rev_loop_iterates_reverse_rules). Qed.
Print Assumptions C34_refuted_attr_reverse_grant_ignored.

(* `if not reverse_rules: return False` inside the loop: the same two rules in the two possible iteration orders of the set give
   different answers (the specification grants in both) *)
Theorem C34_refuted_attr_order_dependent :
  missing_reverse_rules_returns_false = true ->
  hp rev_loop_iterates_reverse_rules obj_exclusion_tests_entity missing_reverse_rules_returns_false w_order_1 0 0 (TAttr 1) = true
  /\ hp rev_loop_iterates_reverse_rules obj_exclusion_tests_entity missing_reverse_rules_returns_false w_order_2 0 0 (TAttr 1) = false
  /\ sp w_order_1 0 0 (TAttr 1) = true /\ sp w_order_2 0 0 (TAttr 1) = true.
Proof. exact (witness_order rev_loop_iterates_reverse_rules obj_exclusion_tests_entity missing_reverse_rules_returns_false). Qed.
Print Assumptions C34_refuted_attr_order_dependent.
