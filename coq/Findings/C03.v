(* Witnesses for the known findings of C03 (known_findings/C03.json): on these inputs the expression the decompiler
   returns (second argument; observed on the unchanged code, re-observed on every run by the harness) does NOT have the
   meaning of the source (first argument). *)
From Coq Require Import List Bool Arith.
Import ListNotations.
Require Import PonyV.Model.C03Bexp PonyV.Proofs.C03Checker.

(* filter position:  a == (b and c)   is decompiled to   a == (not b or c) *)
Theorem C03_refuted_filter_eq_and :
  exists rho, truthy (eval rho (Cmp false (Atom 0) (And [Atom 1; Atom 2])))
           <> truthy (eval rho (Cmp false (Atom 0) (Or [Not (Atom 1); Atom 2]))).
Proof. apply checker_truth_complete. vm_compute. reflexivity. Qed.
Print Assumptions C03_refuted_filter_eq_and.
