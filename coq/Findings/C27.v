(* Witnesses for the known findings of C27 (diamond K0; K1(K0); K2(K0); K3(K1, K2)). *)
From Coq Require Import ZArith List Bool Lia.
Require Import PonyV.Base.PyBase PonyV.Model.C27Inherit PonyV.Proofs.C27Proofs.
#[local] Open Scope nat_scope.

(* two references typed by the sibling branches K1 and K2 to one K3 object: the second one met in a session is a "class change" *)
Theorem C27_refine_refuted_sibling_types : refine s_abcd 1 2 = None /\ family s_abcd 1 3 /\ family s_abcd 2 3.
Proof. exact refine_sibling_types. Qed.
Print Assumptions C27_refine_refuted_sibling_types.

(* reading a K0-typed reference of an unpickled object hands out the placeholder of a stored K3 object with class K0 *)
Theorem C27_unpickled_reference_refuted : unpickled_ref_class 0 3 <> 3.
Proof. exact unpickled_ref_unrefined. Qed.
Print Assumptions C27_unpickled_reference_refuted.
