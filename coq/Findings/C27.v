(* Witnesses for the known finding of C27: two classes of one tree declared with the same discriminator value are accepted
   (code2cls[value] is silently overwritten); rows of the first class are then reloaded as the second, returned by queries
   over the second, and pass isinstance tests for it. *)
From Coq Require Import ZArith List Bool Lia.
Require Import PonyV.Base.PyBase PonyV.Model.C27Inherit PonyV.Proofs.C27Proofs.
#[local] Open Scope nat_scope.

Theorem C27_reload_refuted_duplicate_discriminator :
  valid s_dup = true /\ reload_class s_dup 0 (discr_of s_dup 1) = Some 2.
Proof. exact (conj dup_valid dup_reload_wrong). Qed.
Print Assumptions C27_reload_refuted_duplicate_discriminator.

Theorem C27_criteria_refuted_duplicate_discriminator :
  selected s_dup 2 (discr_of s_dup 1) = true /\ ~ family s_dup 2 1.
Proof. exact dup_selected_wrong. Qed.
Print Assumptions C27_criteria_refuted_duplicate_discriminator.

Theorem C27_isinstance_refuted_duplicate_discriminator :
  isinst_eval (isinstance_sql s_dup 0 [2]) (discr_of s_dup 1) = true /\ py_isinstance s_dup 1 [2] = false.
Proof. exact dup_isinstance_wrong. Qed.
Print Assumptions C27_isinstance_refuted_duplicate_discriminator.
