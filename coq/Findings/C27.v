(* Witness for the known finding of C27: in a diamond A; B(A); C(A); D(B, C) an unloaded seed typed B (a reference declared as B was
   loaded first) for a row stored as D makes a lookup through the sibling branch C answer "not found" although D is a C:
   _find_in_cache_ rejects unrelated (cls, entity) pairs before the seed is loaded and refined. *)
From Coq Require Import ZArith List Bool Lia.
Require Import PonyV.Base.PyBase PonyV.Model.C27Inherit PonyV.Proofs.C27Proofs.
#[local] Open Scope nat_scope.

Theorem C27_lookup_seed_refuted_sibling_branch :
  valid s_abcd = true /\ find_in_cache s_abcd true 2 1 true 3 = NotFound /\ lookup_spec s_abcd 2 3 = Found 3.
Proof. exact seed_sibling_hides. Qed.
Print Assumptions C27_lookup_seed_refuted_sibling_branch.

(* two references typed by the sibling branches K1 and K2 to one K3 object: the second one met in a session is a "class change" *)
Theorem C27_refine_refuted_sibling_types : refine s_abcd 1 2 = None /\ family s_abcd 1 3 /\ family s_abcd 2 3.
Proof. exact refine_sibling_types. Qed.
Print Assumptions C27_refine_refuted_sibling_types.

(* iterating a many-to-many collection typed K0, and reading a K0-typed reference of an unpickled object, hand out the placeholder
   of a stored K3 object with class K0 (no refinement on these two paths) *)
Theorem C27_collection_item_refuted : collection_item_class 0 3 <> 3 /\ family s_abcd 0 3.
Proof. exact collection_item_unrefined. Qed.
Print Assumptions C27_collection_item_refuted.
Theorem C27_unpickled_reference_refuted : unpickled_ref_class 0 3 <> 3.
Proof. exact unpickled_ref_unrefined. Qed.
Print Assumptions C27_unpickled_reference_refuted.
