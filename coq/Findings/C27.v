(* Witness for the known finding of C27: in a diamond A; B(A); C(A); D(B, C) an unloaded seed typed B (a reference declared as B was
   loaded first) for a row stored as D makes a lookup through the sibling branch C answer "not found" although D is a C:
   _find_in_cache_ rejects unrelated (cls, entity) pairs before the seed is loaded and refined. *)
From Coq Require Import ZArith List Bool Lia.
Require Import PonyV.Base.PyBase PonyV.Model.C27Inherit PonyV.Proofs.C27Proofs.
#[local] Open Scope nat_scope.

Theorem C27_lookup_seed_refuted_sibling_branch :
  valid s_abcd = true /\ find_in_cache s_abcd true 2 1 true 3 = NotFound /\ lookup_spec s_abcd 2 3 = Found 3.
Proof. exact seed_sibling_hides. Qed.
Print Assumptions C27_lookup_seed_refuted_sibling_branch.

(* two references typed by the sibling branches K1 and K2 to one K3 object: the second one met in a session is a "class change" *)
Theorem C27_refine_refuted_sibling_types : refine s_abcd 1 2 = None /\ family s_abcd 1 3 /\ family s_abcd 2 3.
Proof. exact refine_sibling_types. Qed.
Print Assumptions C27_refine_refuted_sibling_types.
