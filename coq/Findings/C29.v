(* Witnesses for the known findings of C29 (known_findings/C29.json). *)
From Coq Require Import ZArith List Bool Lia.
Require Import PonyV.Base.PyBase PonyV.Base.Seg PonyV.Model.C29Json PonyV.Proofs.C29Proofs.
#[local] Open Scope Z_scope.

(* a key containing a double quote: the path text is not read back as that key *)
Theorem C29_path_roundtrip_refuted_quote : parse_path ascii_only (json_path ascii_only [KKey k_xy]) <> Some [KKey k_xy].
Proof. exact quote_key_breaks. Qed.
Print Assumptions C29_path_roundtrip_refuted_quote.

(* len() of a dict / str value is 0 in SQL *)
Theorem C29_len_refuted_dict : json_array_length (JDict [([112], JInt 1); ([113], JInt 2)]) = 0
                            /\ py_len (JDict [([112], JInt 1); ([113], JInt 2)]) = Some 2.
Proof. exact len_dict_wrong. Qed.
Print Assumptions C29_len_refuted_dict.
Theorem C29_len_refuted_str : json_array_length (JStr [115; 116; 114]) = 0 /\ py_len (JStr [115; 116; 114]) = Some 3.
Proof. exact len_str_wrong. Qed.
Print Assumptions C29_len_refuted_str.

(* e.j[p] == 0 is true for a stored string / list / dict (CAST(text AS integer) = 0); e.j[p] == '7' is true for a stored int 7 *)
Theorem C29_eq_int_refuted_str : json_eq_int (JStr [115; 116; 114]) 0 = true /\ py_eq_int (JStr [115; 116; 114]) 0 = false.
Proof. exact eq_int_wrong_str. Qed.
Print Assumptions C29_eq_int_refuted_str.
Theorem C29_eq_int_refuted_list : json_eq_int (JList [JInt 7]) 0 = true /\ py_eq_int (JList [JInt 7]) 0 = false.
Proof. exact eq_int_wrong_list. Qed.
Print Assumptions C29_eq_int_refuted_list.
Theorem C29_eq_str_refuted_int : json_eq_str (JInt 7) [55] = true /\ py_eq_str (JInt 7) [55] = false.
Proof. exact eq_str_wrong_int. Qed.
Print Assumptions C29_eq_str_refuted_int.

(* without JSON1: a list met where the path has a str key -- the TypeError escapes _traverse (json_extract gives NULL) *)
Theorem C29_traverse_refuted_list_str : traverse (JDict [([108], JList [JInt 10; JInt 20])]) [KKey [108]; KKey [107]] = TRaise.
Proof. reflexivity. Qed.
Print Assumptions C29_traverse_refuted_list_str.

(* e.j['l'][0] < e.j['m'][0] with 5 and 12 stored is false: two JSON items are ordered by their JSON text *)
Theorem C29_items_order_refuted : json_items_lt (JInt 5) (JInt 12) = false /\ json_items_lt (JInt 12) (JInt 5) = true.
Proof. exact items_ordered_as_text. Qed.
Print Assumptions C29_items_order_refuted.

(* PostgreSQL path literal (documented syntax): the key null is written unquoted and is read as the NULL element; a backslash inside a
   quoted key is an escape character and disappears *)
Theorem C29_pg_path_refuted_null_key : pg_array (pg_json_path ascii_only [KKey t_null]) = Some [PNull].
Proof. exact pg_null_key_unquoted. Qed.
Print Assumptions C29_pg_path_refuted_null_key.
Theorem C29_pg_path_refuted_backslash : pg_array (pg_json_path ascii_only [KKey [97; c_bslash; 98]]) = Some [PText [97; 98]].
Proof. exact pg_backslash_key. Qed.
Print Assumptions C29_pg_path_refuted_backslash.
