(* Witness for the known finding of C16 (known_findings/C16.json): the implementation lets a session build a pending set in which a
   new row references an object that was deleted in the same session.  Nothing is cyclic (any rank will do), yet the statement the
   flush emits is rejected by the foreign-key check: the hypothesis wf_pending of C16_order is not something the API guarantees. *)
From Coq Require Import List Bool Arith.
Import ListNotations.
Require Import PonyV.Model.C16Flush.

(* object 0 was created with a reference to object 1, which had been created and deleted (cancelled) before: no row 1 exists *)
Theorem C16_refuted_reference_to_deleted_object :
  let d := mkdb [] [] in
  let p := mkpending [mkobj 0 Created [(6, Some 1)]] [] [] in
  ranked (p_queue p) (fun _ => 0) /\ flush p = FOk [SInsert 0 [(6, Some 1)]] /\ commit d p = (d, false) /\ wf_pending d p = false.
Proof.
  cbn. split; [|repeat split; reflexivity].
  intros ob t [<-|[]] _ [<-|[]] H. cbn in H. discriminate.
Qed.
Print Assumptions C16_refuted_reference_to_deleted_object.
