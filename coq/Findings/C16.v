(* Witness for the known finding of C16 (known_findings/C16.json): Entity.set(ref=x, coll=[...]) can leave a new row referencing an
   object x that its own cascade has just deleted.  Nothing is cyclic (any rank will do), yet the statement the flush emits is rejected
   by the foreign-key check: the hypothesis wf_pending of C16_order is what the session fails to provide. *)
From Coq Require Import List Bool Arith.
Import ListNotations.
Require Import PonyV.Model.C16Flush.

(* object 0 is new and its column 2 holds object 1, which was created and deleted (cancelled) in the same session: no row 1 exists *)
Theorem C16_refuted_reference_to_deleted_object :
  let d := mkdb [] [] in
  let p := mkpending [mkobj 0 Created [(2, Some 1)]] [] [] in
  ranked (p_queue p) (fun _ => 0) /\ flush p = FOk [SInsert 0 [(2, Some 1)]] /\ commit d p = (d, false) /\ wf_pending d p = false.
Proof.
  cbn. split; [|repeat split; reflexivity].
  intros ob t [<-|[]] _ [<-|[]] H. cbn in H. discriminate.
Qed.
Print Assumptions C16_refuted_reference_to_deleted_object.
