(* Witnesses for the known findings of C36 (known_findings/C36.json). *)
From Coq Require Import ZArith List Bool.
Import ListNotations.
Require Import PonyV.Model.C36Base PonyV.Gen.C36Pool PonyV.Model.C36Fork PonyV.Proofs.C36Proofs.
Require Import PonyV.Model.C36Obs.   (* observation functions of the correspondence run: built with this cone *)
#[local] Open Scope Z_scope.

(* fork inside a live db_session that already executed a statement: for EVERY parent history ending in such a state, the child's
   next statement is issued on the connection object the parent created; the pid check of Pool.connect is never reached *)
Theorem C36_refuted_fork_inside_live_session : forall p q parent_ops c,
  let par := run (init p) parent_ops in
  ccon par = Some c ->
  creator c = p
  /\ log (run (fork par q) [OQuery]) = [EUse q c]
  /\ forked (run (fork par q) [OQuery]) = forked par.
Proof. exact child_live_session_uses_parent_connection. Qed.
Print Assumptions C36_refuted_fork_inside_live_session.

(* concrete: parent (pid 1) begins a session and runs a statement, forks; child (pid 2) runs a statement and ends the session:
   three uses of connection (1,1), none of its own *)
Theorem C36_refuted_witness :
  let par := run (init 1) [OBegin; OQuery] in
  ccon par = Some (1, 1)
  /\ log (run (fork par 2) [OQuery; OEnd]) = [EUse 2 (1, 1); EUse 2 (1, 1); EUse 2 (1, 1)]
  /\ forallb (ownb 2) (log (run (fork par 2) [OQuery; OEnd])) = false.
Proof. exact live_session_witness. Qed.
Print Assumptions C36_refuted_witness.
