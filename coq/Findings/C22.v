(* Witnesses for the known findings of C22 (known_findings/C22.json). *)
From Coq Require Import List Bool Arith.
Import ListNotations.
Require Import PonyV.Model.C22Memo PonyV.Model.C22Sched PonyV.Proofs.C22Proofs.

(* Query._get_translator: stale entry (built for value 0); thread 0 (value 1) and thread 1 (value 2) both look it up,
   then both execute `del cache[key]`: the second one raises KeyError. *)
Theorem C22_translator_refuted :
  exists sched t, t_res (t_thr (trun false (tinit (Some 0) (fun t => S t)) sched) t) = TKeyError.
Proof. exists [0; 1; 0; 1], 1. vm_compute. reflexivity. Qed.
Print Assumptions C22_translator_refuted.

(* the same schedule, with the log of dict operations, as replayed on real threads *)
Theorem C22_translator_refuted_trace :
  toutcome false (Some 0) [1; 2] [0; 1; 0; 1]
  = ([TNone; TKeyError], [(0, DGet); (1, DGet); (0, DDel); (1, DDel)], None).
Proof. exact translator_refuted. Qed.
Print Assumptions C22_translator_refuted_trace.

(* Cross-thread object use: the unguarded operations are not rejected. *)
Theorem C22_cross_thread_refuted : forall o loaded, unguarded o loaded = true -> guard o loaded = false.
Proof. exact guard_refuted. Qed.
Print Assumptions C22_cross_thread_refuted.
