(* Witnesses for the known findings of C22 (known_findings/C22.json). *)
From Coq Require Import List Bool Arith.
Import ListNotations.
Require Import PonyV.Model.C22Memo PonyV.Model.C22Sched PonyV.Proofs.C22Proofs.

(* Cross-thread object use: the unguarded operations are not rejected. *)
Theorem C22_cross_thread_refuted : forall o loaded, unguarded o loaded = true -> guard o loaded = false.
Proof. exact guard_refuted. Qed.
Print Assumptions C22_cross_thread_refuted.
