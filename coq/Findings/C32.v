(* Witness for the remaining known finding of C32 (known_findings/C32.json).  The witnesses for SetInstance.is_empty,
   SetInstance.create and Entity.flush were removed when /repo 743d82e repaired them (see Props/C32.v, C32_guarded_repaired); the one for the unguarded
   _load_many_ call in Set.copy (introduced by 50e342a) when 233f906 repaired it. *)
Require Import PonyV.Base.PyBase PonyV.Model.C32Guard PonyV.Gen.Guards PonyV.Proofs.C32Proofs.

(* in-place change of a tracked Json/array value: the change is applied before the guard raises *)
Theorem C32_refuted_tracked :
  exists ps p, In (Op_tracked_method_new_func, ps) guard_table /\ In p ps /\ forall st, run st p = [(OSessionOver, true)].
Proof. exact tracked_refuted. Qed.
Print Assumptions C32_refuted_tracked.
