(* Witnesses for the known findings of C32 (known_findings/C32.json): operations of the generated guard table with a path
   that is not refused by the session-is-over error, or that writes before being refused. *)
Require Import PonyV.Base.PyBase PonyV.Model.C32Guard PonyV.Gen.Guards PonyV.Proofs.C32Proofs.

(* SetInstance.is_empty(): reaches database._exec_sql without a liveness guard: inside a new session the query runs
   (and its result is merged into the dead object), outside any session the error is a plain TransactionError *)
Theorem C32_refuted_is_empty :
  exists ps p, In (Op_SetInstance_is_empty, ps) guard_table /\ In p ps /\
    In (ORanQuery, true) (run st_new_session p) /\ In (OTxError, false) (run st_outside p).
Proof. exact is_empty_refuted. Qed.
Print Assumptions C32_refuted_is_empty.

(* SetInstance.create(): refused, but never by the session-is-over error *)
Theorem C32_refuted_create :
  exists ps p, In (Op_SetInstance_create, ps) guard_table /\ In p ps /\
    In (OTxError, false) (run st_outside p) /\ ~ In (OSessionOver, false) (run st_outside p).
Proof. exact create_refuted. Qed.
Print Assumptions C32_refuted_create.

(* Entity.flush() of an object with unsaved changes: liveness is only asserted (AssertionError) *)
Theorem C32_refuted_flush :
  exists ps p, In (Op_Entity_flush, ps) guard_table /\ In p ps /\ forall st, run st p = [(OAssertion, false)].
Proof. exact flush_refuted. Qed.
Print Assumptions C32_refuted_flush.

(* in-place change of a tracked Json/array value: the change is applied before the guard raises *)
Theorem C32_refuted_tracked :
  exists ps p, In (Op_tracked_method_new_func, ps) guard_table /\ In p ps /\ forall st, run st p = [(OSessionOver, true)].
Proof. exact tracked_refuted. Qed.
Print Assumptions C32_refuted_tracked.
