(* Witnesses for the known findings of C04 (known_findings/C04.json): the full statement is false on these inputs. *)
From Coq Require Import ZArith List Bool Arith.
Import ListNotations.
Require Import PonyV.Model.C04Expr PonyV.Model.C04Ext PonyV.Proofs.C04ExtProofs.

(* `p.x in [a, *b]`: the starred item is left in the set of externals although it is not an expression *)
Theorem C04_starred_external_refuted :
  In [1; 1] (externals (fun _ => FPlain) [[112]%Z] starred_query) /\
  sub_ctx [[112]%Z] starred_query [1; 1] = Some ([[112]%Z], Node (LOp KStarElt) [nm [98]%Z]) /\ expr_kindb KStarElt = false.
Proof. exact starred_external_refuted. Qed.
Print Assumptions C04_starred_external_refuted.
