(* Witnesses for the known findings of C04 (known_findings/C04.json): the full statement is false on these inputs. *)
From Coq Require Import ZArith List Bool Arith.
Import ListNotations.
Require Import PonyV.Model.C04Expr PonyV.Model.C04Parse PonyV.Model.C04Known PonyV.Model.C04FStr PonyV.Gen.Priority
               PonyV.Proofs.C04Table PonyV.Proofs.C04Parse PonyV.Proofs.C04FStrProofs PonyV.Proofs.C04Pony.
Open Scope nat_scope.

(* the list of known triples is exact: on each of the 139 triples Python's grammar requires parentheses and the code's rule
   does not produce them (so C04_table holds on the complement only) *)
Theorem C04_table_refuted : forall p i c, known_bad p i c = true -> ref_needs p i c = true /\ pony_needs p i c = false.
Proof. exact known_exact. Qed.
Print Assumptions C04_table_refuted.

(* receiver of .attr / call / subscript is never parenthesised *)
Theorem C04_refuted_receiver_attribute :
  parse_auto (print pony_style (call (attr (add X Y) upper) [])) = Some (add X (call (attr Y upper) [])).
Proof. exact w_receiver_attribute. Qed.
Print Assumptions C04_refuted_receiver_attribute.
Theorem C04_refuted_receiver_call : parse_auto (print pony_style (call (add X Y) [A])) = Some (add X (call Y [A])).
Proof. exact w_receiver_call. Qed.
Print Assumptions C04_refuted_receiver_call.
Theorem C04_refuted_receiver_subscript :
  parse_auto (print pony_style (Node (LOp KSubscript) [add X Y; A])) = Some (add X (Node (LOp KSubscript) [Y; A])).
Proof. exact w_receiver_subscript. Qed.
Print Assumptions C04_refuted_receiver_subscript.

(* conditional expressions have no priority *)
Theorem C04_refuted_ifexp_operand :
  parse_auto (print pony_style (Node (LCompare [CEq]) [X; add (ifexp A C B) one]))
  = Some (ifexp (Node (LCompare [CEq]) [X; A]) C (add B one)).
Proof. exact w_ifexp_child. Qed.
Print Assumptions C04_refuted_ifexp_operand.
Theorem C04_refuted_ifexp_body : parse_auto (print pony_style (ifexp (ifexp A B C) X Y)) = Some (ifexp A B (ifexp C X Y)).
Proof. exact w_ifexp_body. Qed.
Print Assumptions C04_refuted_ifexp_body.

(* lambda has no priority *)
Theorem C04_refuted_lambda :
  parse_auto (print pony_style (call (Node (LLambda []) [X]) [])) = Some (Node (LLambda []) [call X []]).
Proof. exact w_lambda_child. Qed.
Print Assumptions C04_refuted_lambda.

(* a negative constant has the priority of an atom *)
Theorem C04_refuted_negative_constant_power :
  parse_auto (print pony_style (Node (LOp KPow) [Node (LNegConst [49]%Z) []; Y]))
  = Some (Node (LOp KUSub) [Node (LOp KPow) [one; Y]]).
Proof. exact w_negconst_pow. Qed.
Print Assumptions C04_refuted_negative_constant_power.

(* operand of a starred list/tuple element *)
Theorem C04_refuted_starred_element :
  parse_auto (print pony_style (Node (LOp KList) [Node (LOp KStarElt) [Node (LOp KOr) [A; B]]])) = None.
Proof. exact w_starred_element. Qed.
Print Assumptions C04_refuted_starred_element.

(* f-string: format spec dropped; literal braces not doubled *)
Theorem C04_refuted_fstring_spec :
  print pony_style (Node (LJoined [[]; []]) [Node (LFormatted None (Some [62; 51]%Z)) [A]])
  = print pony_style (Node (LJoined [[]; []]) [Node (LFormatted None None) [A]]).
Proof. exact w_fstring_spec. Qed.
Print Assumptions C04_refuted_fstring_spec.
Theorem C04_refuted_fstring_brace :
  parse_f (print_f pony_escape_braces pony_keep_spec [FLit [123; 120; 125]%Z]) = Some [FField [120]%Z None None].
Proof. exact w_fstring_brace. Qed.
Print Assumptions C04_refuted_fstring_brace.

(* subscript with a tuple of one / no element *)
Theorem C04_refuted_index_tuple_one :
  print pony_style (Node (LOp KSubscript) [X; Node (LOp KIdxTuple) [A]]) = print pony_style (Node (LOp KSubscript) [X; A]).
Proof. exact w_index_tuple_one. Qed.
Print Assumptions C04_refuted_index_tuple_one.
Theorem C04_refuted_index_tuple_empty :
  parse_auto (print pony_style (Node (LOp KSubscript) [X; Node (LOp KIdxTuple) []])) = None.
Proof. exact w_index_tuple_empty. Qed.
Print Assumptions C04_refuted_index_tuple_empty.

(* ~x cannot be printed: the method reads a field the node does not have *)
Theorem C04_refuted_invert : pony_kind_ok KInvert = false.
Proof. exact w_invert. Qed.
Print Assumptions C04_refuted_invert.

(* generator route: a FormattedValue outside a JoinedStr (a one-field f-string after decompilation) is printed as its bare operand *)
Theorem C04_refuted_bare_formatted : pony_bare_formatted_is_operand = true.
Proof. reflexivity. Qed.
Print Assumptions C04_refuted_bare_formatted.
