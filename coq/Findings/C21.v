(* Witness for the known finding of C21 (known_findings/C21.json): the full collection statement is false for
   one-to-many collections observed through len() / bool() / is_empty(). *)
From Coq Require Import ZArith List Bool.
Import ListNotations.
Require Import PonyV.Model.C21Reload PonyV.Proofs.C21ReloadProofs.

(* len(g.items) loads {1, 2}; another session moves item 1 to another owner and commits; a query re-fetches item 1
   (Set.db_reverse_remove drops it silently); len(g.items) now observes {2}: two different observations, no error. *)
Theorem C21_collection_o2m_len_refuted :
  exists evs, cfailed (crun false cinit evs) = false /\ ~ all_same (cobs (crun false cinit evs)).
Proof.
  exists [CObsLen [1; 2]%nat; CItemReload 1 false; CObsLen [2]%nat]. split.
  - vm_compute. reflexivity.
  - vm_compute. intros [H _]. discriminate.
Qed.
Print Assumptions C21_collection_o2m_len_refuted.
