(* Witness for the known finding of C33: obj.flush() of a new object whose referenced object is also new saves the
   referenced (principal) object through _save_principal_objects_ without calling its before_insert. *)
Require Import PonyV.Base.PyBase PonyV.Model.C33Flush PonyV.Proofs.C33Proofs.

Theorem C33_refuted_obj_flush_principal :
  match obj_flush no_hooks 10 1 st_principal with
  | Some s' => log s' = [EB KIns 1; ES KIns 0; ES KIns 1; EA KIns 0; EA KIns 1] /\ phase (log s') 0 = Bad
  | None => False
  end.
Proof. exact obj_flush_principal_refuted. Qed.
Print Assumptions C33_refuted_obj_flush_principal.
