(* Witness for the known finding of C28: a document assigned as  obj.j = Json({...})  is held inside the wrapper as plain, untracked
   containers (after the commit that stores it): an in-place change of it does not set the write bit and the row keeps the old document. *)
Require Import PonyV.Base.PyBase PonyV.Model.C28Tracked PonyV.Gen.Mutators PonyV.Model.C28Wrapped PonyV.Proofs.C28Proofs.
#[local] Open Scope Z_scope.

Theorem C28_json_wrapper_refuted :
  let st := run wr_gen [OAct [KKey ka] (AL (LAppend (JNum 3)))] (assigned_through_wrapper doc1) in
  dirty st = false /\ jv_eqb (dbval (commit st)) (canon (untrack (root st))) = false.
Proof. exact json_wrapper_lost. Qed.
Print Assumptions C28_json_wrapper_refuted.
