(* Witnesses for the known findings of C28 (known_findings/C28.json): the full statements are false on the unchanged code. *)
Require Import PonyV.Base.PyBase PonyV.Model.C28Tracked PonyV.Gen.Mutators PonyV.Model.C28Wrapped PonyV.Proofs.C28Proofs.
#[local] Open Scope Z_scope.

(* C28_covered is false: __iadd__ / __imul__ (list) and __ior__ (dict) mutate in CPython and are neither wrapped nor replaced *)
Theorem C28_covered_list_refuted :
  In n_iadd cpython_list_mutators /\ covered_list n_iadd = false /\ In n_imul cpython_list_mutators /\ covered_list n_imul = false.
Proof. exact covered_list_refuted. Qed.
Print Assumptions C28_covered_list_refuted.
Theorem C28_covered_dict_refuted : In n_ior cpython_dict_mutators /\ covered_dict n_ior = false.
Proof. exact covered_dict_refuted. Qed.
Print Assumptions C28_covered_dict_refuted.

(* lst = obj.j['a']; lst += [3]  -- value changed, write bit not set, the row keeps the old document *)
Theorem C28_persisted_refuted_iadd :
  ~ (let st := commit (run wr_gen [OAct [KKey ka] (AL (LIAdd [JNum 3]))] (load o1 doc1)) in dbval st = canon (untrack (root st))).
Proof. exact (lost_refutes _ iadd_lost). Qed.
Print Assumptions C28_persisted_refuted_iadd.
Theorem C28_persisted_refuted_imul :
  ~ (let st := commit (run wr_gen [OAct [KKey ka] (AL (LIMul 2))] (load o1 doc1)) in dbval st = canon (untrack (root st))).
Proof. exact (lost_refutes _ imul_lost). Qed.
Print Assumptions C28_persisted_refuted_imul.
Theorem C28_persisted_refuted_ior :
  ~ (let st := commit (run wr_gen [OAct [KKey [100]] (AD (DIOr [([121], JNum 2)]))] (load o1 doc1)) in dbval st = canon (untrack (root st))).
Proof. exact (lost_refutes _ ior_lost). Qed.
Print Assumptions C28_persisted_refuted_ior.

(* obj.j['a'].extend(([9],)): tracked_method converts only list / dict arguments, the inner list stays untracked
   (C28_wrap_inv is false), and after a commit  obj.j['a'][-1].append(10)  is lost *)
Theorem C28_wrap_inv_refuted_extend_iterable :
  tagged o1 (root (run wr_gen (firstn 1 ops_tuple) (load o1 doc1))) = false.
Proof. exact extend_tuple_untracked. Qed.
Print Assumptions C28_wrap_inv_refuted_extend_iterable.
Theorem C28_persisted_refuted_extend_iterable :
  ~ (let st := commit (run wr_gen ops_tuple (load o1 doc1)) in dbval st = canon (untrack (root st))).
Proof. exact (lost_refutes _ extend_tuple_lost). Qed.
Print Assumptions C28_persisted_refuted_extend_iterable.
Theorem C28_persisted_refuted_setslice_iterable :
  ~ (let st := commit (run wr_gen
        [OAct [KKey ka] (AL (LSetSlice (Some 0) (Some 1) false [JDict []])); OCommit; OAct [KKey ka; KIdx 0] (AD (DSetItem [122] JNull))]
        (load o1 doc1)) in dbval st = canon (untrack (root st))).
Proof. exact (lost_refutes _ setslice_tuple_lost). Qed.
Print Assumptions C28_persisted_refuted_setslice_iterable.
