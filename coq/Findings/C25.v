(* Witnesses for the known findings of C25 (known_findings.json): the full statement is false on these inputs. *)
Require Import PonyV.Base.PyBase PonyV.Base.Seg PonyV.Sql.SqlAst PonyV.Sql.Dialect PonyV.Gen.StringSlice
               PonyV.Model.GetItem PonyV.Model.GetItemSem PonyV.Proofs.SliceProofs PonyV.Proofs.GetItemProofs.

(* 'ab'[:-1] is translated to the whole string on every code path *)
Theorem C25_refuted_stop_minus_one : forall p,
  slice_value p (env_s [97; 98]) (SExt 0) BOmit (BConst (-1)) <> VStr (py_slice [97; 98] None (Some (-1))).
Proof. exact slice_value_refuted_stop_minus_one. Qed.
Print Assumptions C25_refuted_stop_minus_one.

(* 'ab'[:x] with a non-constant x = 1 is translated to the whole string *)
Theorem C25_refuted_stop_expr : forall p,
  slice_value p (fun i => match i with O => VStr [97; 98] | _ => VInt 1 end) (SExt 0) BOmit (BExpr (SExt 1))
  <> VStr (py_slice [97; 98] None (Some 1)).
Proof. exact slice_value_refuted_stop_expr. Qed.
Print Assumptions C25_refuted_stop_expr.

(* MySQL (documented SUBSTR semantics): 'a'[-1:0] gives 'a'; 'a'[-7:] gives '' *)
Theorem C25_refuted_mysql_neg_start_nonneg_stop :
  eval MySQL (env_s [97]) (string_slice false (SExt 0) (Some (SValue (-1))) (Some (SValue 0))) <> VStr (py_slice [97] (Some (-1)) (Some 0)).
Proof. exact slice_mysql_refuted_neg_start_nonneg_stop. Qed.
Print Assumptions C25_refuted_mysql_neg_start_nonneg_stop.
Theorem C25_refuted_mysql_start_beyond_length :
  eval MySQL (env_s [97]) (string_slice false (SExt 0) (Some (SValue (-7))) None) <> VStr (py_slice [97] (Some (-7)) None).
Proof. exact slice_mysql_refuted_start_beyond_length. Qed.
Print Assumptions C25_refuted_mysql_start_beyond_length.
