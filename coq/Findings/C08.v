(* Witnesses for the known findings of C08 (known_findings/C08.json).  Each statement is conditional on the flag computed
   from the code translated from /repo on this run: while the defect is present the flag is `true` and the theorem exhibits
   an accepted value outside the declared bounds; after a repair the flag is `false` and Props/C08.v:*_full_if_fixed apply. *)
Require Import PonyV.Base.PyBase PonyV.Model.C08Base PonyV.Gen.C08Conv PonyV.Model.C08Spec PonyV.Proofs.C08IntInit PonyV.Proofs.C08Proofs.
(* C08Corr: the checkers of the correspondence run; required here so that they are rebuilt with the cone whenever Gen changes *)
Require PonyV.Model.C08Corr.

(* Optional(int, min=0) accepts -5 / Optional(int, max=0) accepts 5 *)
Theorem C08_int_zero_bound_refuted :
  int_zero_bound_ignored = true ->
  exists d v, decl_ok true d /\ accepts_int true d v = true /\ ~ in_bounds d v.
Proof. exact int_zero_bound_refuted. Qed.
Print Assumptions C08_int_zero_bound_refuted.

(* Optional(float, min=0) accepts -1.0 / Optional(float, max=0) accepts 1.0 *)
Theorem C08_float_zero_bound_refuted :
  real_zero_bound_ignored = true ->
  exists mn mx v, v <> NNan /\ not_nan_opt mn /\ not_nan_opt mx /\ accepts_real mn mx v = true /\ ~ num_in_bounds mn mx v.
Proof. exact real_zero_bound_refuted. Qed.
Print Assumptions C08_float_zero_bound_refuted.

(* Optional(float, min=1, max=2) accepts NaN *)
Theorem C08_float_nan_refuted :
  real_nan_accepted = true ->
  exists mn mx, not_nan_opt mn /\ not_nan_opt mx /\ accepts_real mn mx NNan = true /\ ~ num_in_bounds mn mx NNan.
Proof. exact real_nan_refuted. Qed.
Print Assumptions C08_float_nan_refuted.

(* Optional(str, 0) (max_len = 0) accepts 'a' *)
Theorem C08_str_zero_max_len_refuted :
  str_zero_max_len_ignored = true ->
  exists a ml s, accepts_str a ml s = true /\ ~ le_opt ml (zlen (str_norm a s)).
Proof. exact str_zero_max_len_refuted. Qed.
Print Assumptions C08_str_zero_max_len_refuted.

(* the flags as computed on this run (the check copies them into the evidence file and compares them with /repo) *)
Definition C08_flags : bool * bool * bool * bool :=
  Eval vm_compute in (int_zero_bound_ignored, real_zero_bound_ignored, real_nan_accepted, str_zero_max_len_ignored).
