(* Witnesses for the known findings of C08 (known_findings/C08.json): float NaN, str max_len = 0.  Each statement is
   conditional on a flag computed from the code translated from /repo on this run (true today); after a repair the flag is
   `false` and the unrestricted statement applies.  The int/float zero-bound defect was repaired (2abc421): its witnesses are gone
   and Props/C08.v now proves the unrestricted C08_int / C08_float. *)
Require Import PonyV.Base.PyBase PonyV.Model.C08Base PonyV.Gen.C08Conv PonyV.Model.C08Spec PonyV.Proofs.C08IntInit PonyV.Proofs.C08Proofs.
(* C08Corr: the checkers of the correspondence run; required here so that they are rebuilt with the cone whenever Gen changes *)
Require PonyV.Model.C08Corr.

(* Optional(float, min=1, max=2) accepts NaN *)
Theorem C08_float_nan_refuted :
  real_nan_accepted = true ->
  exists mn mx, not_nan_opt mn /\ not_nan_opt mx /\ accepts_real mn mx NNan = true /\ ~ num_in_bounds mn mx NNan.
Proof. exact real_nan_refuted. Qed.
Print Assumptions C08_float_nan_refuted.

(* Optional(str, 0) (max_len = 0) accepts 'a' *)
Theorem C08_str_zero_max_len_refuted :
  str_zero_max_len_ignored = true ->
  exists a ml s, accepts_str a ml s = true /\ ~ le_opt ml (zlen (str_norm a s)).
Proof. exact str_zero_max_len_refuted. Qed.
Print Assumptions C08_str_zero_max_len_refuted.

(* Required(bool) accepts 'x' (any value: validate is bool(val)) *)
Theorem C08_bool_any_type_refuted : bool_accepts_any_type = true ->
  exists t r, tag_in t (type_allowed CBool) = false /\ type_dispatch CBool t = TyAccept r.
Proof. exact bool_any_type_refuted. Qed.
Print Assumptions C08_bool_any_type_refuted.

(* Optional(Decimal, 5, 2) accepts 123456.789: validate never looks at precision / scale *)
Theorem C08_decimal_precision_refuted :
  dec_exceeds_precision 5 2 (NFin 123456789 1000) /\ dec_validate None None (NFin 123456789 1000) = Ok (NFin 123456789 1000).
Proof. exact dec_precision_not_enforced. Qed.
Print Assumptions C08_decimal_precision_refuted.

(* the flags as computed on this run (the check copies them into the evidence file and compares them with /repo) *)
Definition C08_flags : bool * bool * bool * bool * bool :=
  Eval vm_compute in (int_zero_bound_ignored, real_zero_bound_ignored, real_nan_accepted, str_zero_max_len_ignored, bool_accepts_any_type).
