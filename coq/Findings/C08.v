(* Witness for the remaining known finding of C08 (known_findings/C08.json): Decimal precision / scale are not enforced by validate.
   The other defects found by this check were repaired in /repo (2abc421, 5df2d83, d8f353a, 2d5f552); their witnesses are gone and
   Props/C08.v proves the unrestricted statements. *)
Require Import PonyV.Base.PyBase PonyV.Model.C08Base PonyV.Gen.C08Conv PonyV.Model.C08Spec PonyV.Proofs.C08IntInit PonyV.Proofs.C08Proofs.
(* C08Corr: the checkers of the correspondence run; required here so that they are rebuilt with the cone whenever Gen changes *)
Require PonyV.Model.C08Corr.

(* Optional(Decimal, 5, 2) accepts 123456.789: validate never looks at precision / scale *)
Theorem C08_decimal_precision_refuted :
  dec_exceeds_precision 5 2 (NFin 123456789 1000) /\ dec_validate None None (NFin 123456789 1000) = Ok (NFin 123456789 1000).
Proof. exact dec_precision_not_enforced. Qed.
Print Assumptions C08_decimal_precision_refuted.

(* the flags as computed on this run (the check copies them into the evidence file and compares them with /repo) *)
Definition C08_flags : bool * bool * bool * bool * bool :=
  Eval vm_compute in (int_zero_bound_ignored, real_zero_bound_ignored, real_nan_accepted, str_zero_max_len_ignored, bool_accepts_any_type).
