(* C15: no open findings.  The three former ones (refused-delete-changes-links, refused-delete-after-nested-cascade-assertion,
   refused-delete-drops-rows) were consequences of C13 code sites repaired in /repo; see known_findings/C15.json. *)
