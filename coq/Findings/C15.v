(* Witnesses for the known findings of C15 (known_findings/C15.json).  The C15 model satisfies "a refusal changes nothing" by
   construction; the implementation does not, because of the undo defects recorded under C13.  The witnesses are stated in the
   mechanism-level session model of C13 (Model/C13Session.v, compared with the implementation on every C13 run): after the refused
   delete() the set of pending writes differs, so the next commit changes the database. *)
From Coq Require Import ZArith NArith List Bool.
Import ListNotations.
Require Import PonyV.Model.C13Heap PonyV.Model.C13Session PonyV.Model.C13Check PonyV.Model.C13Schemas.

Definition mem_q (o : oid) (q : list (option oid)) : bool := existsb (fun x => match x with Some y => Nat.eqb y o | None => false end) q.

(* parent 0 with a many-to-many partner 1 and a refusing dependent 2: the refused delete leaves the removal of the link (0, 1) pending *)
Theorem C15_refuted_refused_delete_changes_links :
  let s := state_after sch_S1 [(None, ONew 0 1 [(5, AInt 0)]); (None, ONew 2 1 [(1, AObjs [0])]); (None, ONew 5 1 [(1, AObj 0)]); (None, OCommit)] in
  let out := step sch_S1 None s (ODelete 0) in
  o_err out = Some EConstraint /\
  g_bool s (LRemoved 0 7 1) = false /\ g_bool (o_state out) (LRemoved 0 7 1) = true /\ g_bool (o_state out) (LMod 0 7 0) = true.
Proof. vm_compute. repeat split; reflexivity. Qed.
Print Assumptions C15_refuted_refused_delete_changes_links.

(* parent 0, cascading child 1, grandchild 2, refusing dependent 3: the refusal surfaces as an assertion failure and the grandchild
   stays queued for deletion *)
Theorem C15_refuted_refused_delete_after_nested_cascade :
  let s := state_after sch_S1 [(None, ONew 0 1 [(5, AInt 0)]); (None, ONew 4 1 [(1, AObj 0)]); (None, ONew 6 1 [(1, AObj 1)]);
                               (None, ONew 5 1 [(1, AObj 0)]); (None, OCommit)] in
  let out := step sch_S1 None s (ODelete 0) in
  o_err out = Some EAssert /\ g_status (o_state out) 2 = SMarked /\ mem_q 2 (g_queue (o_state out)) = true /\ mem_q 2 (g_queue s) = false.
Proof. vm_compute. repeat split; reflexivity. Qed.
Print Assumptions C15_refuted_refused_delete_after_nested_cascade.

(* parent 0 with a refusing dependent 1 (saved) and a new cascading child 2: after the refused delete the child is still 'created'
   but no longer queued for INSERT *)
Theorem C15_refuted_refused_delete_drops_rows :
  let s := state_after sch_S1 [(None, ONew 0 1 [(5, AInt 0)]); (None, ONew 5 1 [(1, AObj 0)]); (None, OCommit); (None, ONew 4 1 [(1, AObj 0)])] in
  let out := step sch_S1 None s (ODelete 0) in
  o_err out = Some EConstraint /\ g_status (o_state out) 2 = SCreated /\ mem_q 2 (g_queue s) = true /\ mem_q 2 (g_queue (o_state out)) = false.
Proof. vm_compute. repeat split; reflexivity. Qed.
Print Assumptions C15_refuted_refused_delete_drops_rows.
