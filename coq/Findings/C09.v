(* C09 - refuted parts: concrete histories of the session model (each replayed on real Pony + SQLite by the check, see
   known_findings/C09.json) on which the property fails.  Every witness is closed by vm_compute. *)
Require Import PonyV.Model.SessionBase PonyV.Model.SessionDb PonyV.Model.Session PonyV.Model.SessionCheck.
Open Scope nat_scope.

Definition sch_orphan : schema := [(mkEnt true [(mkAttr KStr true false); (mkAttr KInt false true); (mkAttr KStr false false)])].
Definition ops_orphan : list op := [(ONew 0 None [(0, (AStr [122%Z])); (1, ANone)]); (ONew 0 None [(0, (AStr [122%Z])); (1, (AInt 2%Z)); (2, (AStr [120%Z]))]); (ONew 0 (Some 1%Z) [(0, (AStr [122%Z]))]); OFlush; (ODelete 2); OCommit].

(* Two objects get AUTOINCREMENT ids, a third is created as E(id=1).  The flush inserts the first object, which receives id 1:
   TransactionIntegrityError, but the inserted row stays in the transaction.  The program deletes the clashing object and
   commits: success.  The session holds two live objects (ids 2 and 3); the committed table has three rows - the first object twice. *)
Theorem C09_refuted_autoid_clash_commits_orphan_row :
  let s := run sch_orphan ops_orphan in
  wf_schema sch_orphan = true /\ s_declined s = false /\
  trace sch_orphan (init_sess sch_orphan) ops_orphan = [RObj 0; RObj 1; RObj 2; RErr ETxnIntegrity; ROk; ROk] /\
  map o_st (s_objs s) = [SInserted; SInserted; SCancelled] /\
  map r_pk (tab (s_committed s) 0) = [1%Z; 2%Z; 3%Z] /\
  map r_cols (firstn 2 (tab (s_committed s) 0)) = [[VStr [122%Z]; VNone; VStr []]; [VStr [122%Z]; VNone; VStr []]].
Proof. vm_compute. repeat split; reflexivity. Qed.
Print Assumptions C09_refuted_autoid_clash_commits_orphan_row.

Definition sch_seedwrite : schema := [(mkEnt false [(mkAttr (KSet 1 1) false false)]); (mkEnt true [(mkAttr KInt true false); (mkAttr (KRef 0 0) false false); (mkAttr (KSet 2 0) false false)]); (mkEnt true [(mkAttr (KRef 1 2) true false)])].
Definition ops_seedwrite : list op := [(ONew 0 (Some 1%Z) []); (ONew 0 (Some 2%Z) []); (ONew 1 None [(0, (AInt 1%Z)); (1, (AObj 0))]); (ONew 2 None [(0, (AObj 2))]); ONewSession; (OGetPk 2 (AInt 1%Z)); (ORead 0 0); (OGetPk 0 (AInt 2%Z)); (OGetPk 0 (AInt 1%Z)); (OSet 1 1 (AObj 2)); (OAssign 3 0 []); OCommit].

(* b (entity 1, id 1) refers to a1 (entity 0, id 1) in the database.  New session: b is known by primary key only (a seed, reached
   through its child c); the program assigns b.ref = a2 (op 9, ROk), then a1.coll = [] (op 10, ROk) and commits (ROk).
   Loading b's row for the collection keeps the written value out of dbvals but links b into a1.coll; the assignment then unlinks
   it: the committed row of b holds NULL, not a2. *)
Theorem C09_refuted_assignment_to_seed_lost :
  let s := run sch_seedwrite ops_seedwrite in
  wf_schema sch_seedwrite = true /\ s_declined s = false /\
  nth 9 ops_seedwrite OFlush = OSet 1 1 (AObj 2) /\ nth 10 ops_seedwrite OFlush = OAssign 3 0 [] /\
  skipn 9 (trace sch_seedwrite (init_sess sch_seedwrite) ops_seedwrite) = [ROk; ROk; ROk] /\
  tab (s_committed s) 1 = [mkRow 1%Z [VInt 1; VNone; VNone]].
Proof. vm_compute. repeat split; reflexivity. Qed.
Print Assumptions C09_refuted_assignment_to_seed_lost.
