(* Witnesses for the known findings of C31 (known_findings/C31.json). *)
Require Import PonyV.Base.PyBase PonyV.Model.C31Codec PonyV.Gen.C31Reduce PonyV.Model.C31Bag PonyV.Proofs.C31Bag.

(* bag-given-object-without-collections: objects 0 (a C) and 1 (its B) are both given, C first: processing 0 stores 1 as a related
   object (no collections); 1 is then skipped because it already has an entry *)
Definition rel01 (o : nat) : list nat := match o with 0%nat => [1%nat] | 1%nat => [0%nat] | _ => [] end.     (* relationships have two sides *)
(* (statements are about the original guards: they are vacuous once bag_skips_given_related is true) *)
Theorem C31_bag_given_full_refuted : bag_skips_given_related = false -> bag_to_dict rel01 [0%nat; 1%nat] 1%nat = Some Partial.
Proof. intros H. unfold bag_to_dict. rewrite H. vm_compute. reflexivity. Qed.
Print Assumptions C31_bag_given_full_refuted.

(* ...whichever of two related given objects comes first, the other one is stored as a related object only *)
Theorem C31_bag_order_dependent : bag_skips_given_related = false ->
  bag_to_dict rel01 [1%nat; 0%nat] 1%nat = Some Full /\ bag_to_dict rel01 [1%nat; 0%nat] 0%nat = Some Partial.
Proof. intros H. unfold bag_to_dict. rewrite H. split; vm_compute; reflexivity. Qed.
Print Assumptions C31_bag_order_dependent.
