(* Witnesses for the known findings of C05: histories on which a warm cache answers differently from a cold one. *)
Require Import PonyV.Base.PyBase PonyV.Model.C05Memo PonyV.Gen.C05Flags PonyV.Model.C05Inst PonyV.Proofs.C05Memo.

(* select(...)[:] ; db.execute("update ...") ; the same select(...)[:] in one db_session: the second answer is the list
   cached before the update (the raw write does not touch cache.query_results) *)
Theorem C05_refuted_raw_sql_write_leaves_query_results :
  forall DB W Q R (qeqb : Q -> Q -> bool) (exec : DB -> Q -> R) (apply : DB -> W -> DB) db q w,
  qeqb q q = true -> exec (apply db w) q <> exec db q ->
  let h := [SQuery W Q q; SRaw W Q w; SQuery W Q q] in
  forall aggr_flushes,
  srun DB W Q R qeqb exec apply false aggr_flushes (mksess DB W Q R db [] []) h <> cold_run DB W Q R exec apply db [] h /\
  srun DB W Q R qeqb exec apply false aggr_flushes (mksess DB W Q R db [] []) h = [Some (exec db q); None; Some (exec db q)].
Proof. exact results_stale_after_raw_write. Qed.
Print Assumptions C05_refuted_raw_sql_write_leaves_query_results.

(* the theorems' hypotheses are necessary: an unsound key, and a translator cache without the pinned-value comparison *)
Theorem C05_unsound_key_is_observable : forall I K V (keqb : K -> K -> bool) (key : I -> K) (compute : I -> V) i1 i2,
  (forall k, keqb k k = true) -> key i1 = key i2 -> compute i1 <> compute i2 ->
  run I K V keqb key compute [] [Get i1; Get i2] <> map (fresh I K V compute) [Get i1; Get i2].
Proof. exact memo_unsound. Qed.
Print Assumptions C05_unsound_key_is_observable.

(* the code as it is (flags read from pony/orm/core.py on every run, Gen/C05Flags.v); aggr_flushes_in_source has been true
   since repo commit 2af0689 (the former finding aggregate-result-cache-skips-flush is recorded as fixed) *)
Definition C05_flags_read_from_source : bool * bool := (raw_clears_in_source, aggr_flushes_in_source).
